(* C15 - lemmas, part 3: calculus.  Monotonicity tools (mean value theorem), the elementary
   inequalities behind the monotonicity of the needle / plate factors
       6e/(3-e^2) < ln((1+e)/(1-e)) < 2e(3-e^2)/((1-e^2)(3+e^2)),
       3 sin t cos t < t (1 + 2 cos^2 t),      t (3 - 4 sin^2 t) < sin t cos t (3 - 2 sin^2 t),
   and the bounds sin t < t < tan t, w/(1+w) < ln(1+w) < w used for the limits at aspect ratio 1. *)
From Coq Require Import Reals Lra List.
From Coquelicot Require Import Coquelicot.
Require Import Kawin.C15.Model Kawin.C15.Proofs.
Open Scope R_scope.

(* ---- mean value theorem, in the two forms used below ------------------------------------------ *)
Lemma incr_of_deriv (f f' : R -> R) (a b : R) :
  (forall x, a < x < b -> is_derive f x (f' x)) -> (forall x, a < x < b -> 0 < f' x) ->
  forall x y, a < x -> x < y -> y < b -> f x < f y.
Proof.
  intros Hd Hp x y Hx Hxy Hy.
  destruct (MVT_cor2 f f' x y Hxy) as [c [Hc1 Hc2]].
  - intros c Hc. apply is_derive_Reals, Hd. lra.
  - assert (0 < f' c) by (apply Hp; lra). assert (0 < f' c * (y - x)) by (apply Rmult_lt_0_compat; lra). lra.
Qed.

(* f(a) = 0, f differentiable on [a, b] with positive derivative inside: f(b) > 0 *)
Lemma pos_of_deriv (f f' : R -> R) (a b : R) : a < b ->
  (forall x, a <= x <= b -> is_derive f x (f' x)) -> (forall x, a < x < b -> 0 < f' x) ->
  f a = 0 -> 0 < f b.
Proof.
  intros Hab Hd Hp H0.
  destruct (MVT_cor2 f f' a b Hab) as [c [Hc1 Hc2]].
  - intros c Hc. apply is_derive_Reals, Hd. exact Hc.
  - assert (0 < f' c) by (apply Hp; exact Hc2). assert (0 < f' c * (b - a)) by (apply Rmult_lt_0_compat; lra). lra.
Qed.

(* side conditions of auto_derive *)
Ltac posi :=
  match goal with
  | |- 0 < _ + _ => apply Rplus_lt_0_compat; posi
  | |- 0 < _ * _ => apply Rmult_lt_0_compat; posi
  | |- 0 < / _ => apply Rinv_0_lt_compat; posi
  | |- 0 < _ / _ => apply Rdiv_lt_0_compat; posi
  | _ => first [ assumption | lra | nra ]
  end.
Ltac side tac :=
  repeat match goal with |- _ /\ _ => split end;
  first [ exact I | lra | nra | apply Rmult_integral_contrapositive_currified; nra | posi | tac ].

(* ---- logarithmic inequalities ------------------------------------------------------------------ *)
Definition Lf (e : R) : R := ln (1 + e) - ln (1 - e).

Lemma Lf_0 : Lf 0 = 0.
Proof. unfold Lf. replace (1 + 0) with 1 by ring. replace (1 - 0) with 1 by ring. ring. Qed.

Lemma Lf_deriv e : -1 < e < 1 -> is_derive Lf e (2 / (1 - e ^ 2)).
Proof.
  intros He. unfold Lf. auto_derive; [lra|]. field. split; nra.
Qed.

(* ln((1+e)/(1-e)) > 6e/(3-e^2) *)
Lemma Lf_lower e : 0 < e < 1 -> 6 * e / (3 - e ^ 2) < Lf e.
Proof.
  intros He.
  assert (H := pos_of_deriv (fun x => Lf x - 6 * x / (3 - x ^ 2))
                 (fun x => 8 * x ^ 4 / ((1 - x ^ 2) * (3 - x ^ 2) ^ 2)) 0 e (proj1 He)).
  cbv beta in H. rewrite Lf_0 in H. replace (0 - 6 * 0 / (3 - 0 ^ 2)) with 0 in H by (field; lra).
  assert (0 < Lf e - 6 * e / (3 - e ^ 2)); [|lra]. apply H; [| |reflexivity].
  - intros x Hx. assert (Hd := Lf_deriv x ltac:(lra)).
    auto_derive; [side ltac:(exists (2 / (1 - x ^ 2)); exact Hd)|].
    rewrite (is_derive_unique (fun x0 : R => Lf x0) x _ Hd). field. repeat split; nra.
  - intros x Hx. assert (0 < x ^ 4) by (apply pow_lt; lra).
    apply Rdiv_lt_0_compat; [lra|]. apply Rmult_lt_0_compat; [nra|]. apply pow_lt. nra.
Qed.

(* ln((1+e)/(1-e)) < 2e(3-e^2)/((1-e^2)(3+e^2)) *)
Lemma Lf_upper e : 0 < e < 1 -> Lf e < 2 * e * (3 - e ^ 2) / ((1 - e ^ 2) * (3 + e ^ 2)).
Proof.
  intros He.
  assert (H := pos_of_deriv (fun x => 2 * x * (3 - x ^ 2) / ((1 - x ^ 2) * (3 + x ^ 2)) - Lf x)
                 (fun x => 32 * x ^ 4 / ((1 - x ^ 2) ^ 2 * (3 + x ^ 2) ^ 2)) 0 e (proj1 He)).
  cbv beta in H. rewrite Lf_0 in H.
  replace (2 * 0 * (3 - 0 ^ 2) / ((1 - 0 ^ 2) * (3 + 0 ^ 2)) - 0) with 0 in H by (field; lra).
  assert (0 < 2 * e * (3 - e ^ 2) / ((1 - e ^ 2) * (3 + e ^ 2)) - Lf e); [|lra]. apply H; [| |reflexivity].
  - intros x Hx. assert (Hd := Lf_deriv x ltac:(lra)).
    auto_derive; [side ltac:(exists (2 / (1 - x ^ 2)); exact Hd)|].
    rewrite (is_derive_unique (fun x0 : R => Lf x0) x _ Hd). field. repeat split; nra.
  - intros x Hx. assert (0 < x ^ 4) by (apply pow_lt; lra).
    apply Rdiv_lt_0_compat; [lra|]. apply Rmult_lt_0_compat; apply pow_lt; nra.
Qed.

Lemma Lf_gt_2e e : 0 < e < 1 -> 2 * e < Lf e.
Proof.
  intros He. apply Rle_lt_trans with (2 := Lf_lower e He).
  apply (Rmult_le_reg_r (3 - e ^ 2)); [nra|]. replace (6 * e / (3 - e ^ 2) * (3 - e ^ 2)) with (6 * e) by (field; nra). nra.
Qed.

Lemma Lf_lt e : 0 < e < 1 -> Lf e < 2 * e / (1 - e ^ 2).
Proof.
  intros He. apply Rlt_le_trans with (1 := Lf_upper e He).
  assert (0 < 1 - e ^ 2) by nra. assert (0 < 3 + e ^ 2) by nra.
  apply (Rmult_le_reg_r ((1 - e ^ 2) * (3 + e ^ 2))); [apply Rmult_lt_0_compat; lra|].
  replace (2 * e * (3 - e ^ 2) / ((1 - e ^ 2) * (3 + e ^ 2)) * ((1 - e ^ 2) * (3 + e ^ 2))) with (2 * e * (3 - e ^ 2)) by (field; lra).
  replace (2 * e / (1 - e ^ 2) * ((1 - e ^ 2) * (3 + e ^ 2))) with (2 * e * (3 + e ^ 2)) by (field; lra).
  nra.
Qed.

Lemma Lf_pos e : 0 < e < 1 -> 0 < Lf e.
Proof. intros He. assert (H := Lf_gt_2e e He). lra. Qed.

(* w/(1+w) < ln(1+w) < w *)
Lemma ln1p_lt w : 0 < w -> ln (1 + w) < w.
Proof.
  intros Hw. rewrite <- (ln_exp w) at 2. apply ln_increasing; [lra|]. apply exp_ineq1; lra.
Qed.
Lemma ln1p_gt w : 0 < w -> w / (1 + w) < ln (1 + w).
Proof.
  intros Hw.
  assert (H := pos_of_deriv (fun x => ln (1 + x) - x / (1 + x)) (fun x => x / (1 + x) ^ 2) 0 w Hw).
  cbv beta in H. replace (1 + 0) with 1 in H by ring. rewrite ln_1 in H.
  replace (0 - 0 / 1) with 0 in H by field.
  assert (0 < ln (1 + w) - w / (1 + w)); [|lra]. apply H; [| |reflexivity].
  - intros x Hx. auto_derive; [split; lra|]. field. lra.
  - intros x Hx. apply Rdiv_lt_0_compat; [lra|]. apply pow_lt; lra.
Qed.

(* ---- trigonometric inequalities ------------------------------------------------------------------ *)
(* t cos t < sin t  (t < tan t) on (0, PI/2) *)
Lemma sin_gt_x_cos t : 0 < t < PI / 2 -> t * cos t < sin t.
Proof.
  intros Ht.
  assert (H := pos_of_deriv (fun x => sin x - x * cos x) (fun x => x * sin x) 0 t (proj1 Ht)).
  cbv beta in H. rewrite sin_0, cos_0 in H. replace (0 - 0 * 1) with 0 in H by ring.
  assert (0 < sin t - t * cos t); [|lra]. apply H; [| |reflexivity].
  - intros x Hx. auto_derive; [exact I|]. ring.
  - intros x Hx. apply Rmult_lt_0_compat; [lra|]. apply sin_gt_0; lra.
Qed.

Lemma sin_cos_pos t : 0 < t < PI / 2 -> 0 < sin t /\ 0 < cos t.
Proof. intros Ht. split; [apply sin_gt_0; lra|apply cos_gt_0; lra]. Qed.

(* 3 sin t cos t < t (3 cos^2 t + sin^2 t)  [= t (1 + 2 cos^2 t)] *)
Lemma plate_kinetic_key t : 0 < t < PI / 2 -> 0 < t * (3 * cos t ^ 2 + sin t ^ 2) - 3 * sin t * cos t.
Proof.
  intros Ht.
  assert (H := pos_of_deriv (fun x => x * (3 * cos x ^ 2 + sin x ^ 2) - 3 * sin x * cos x)
                 (fun x => 4 * sin x * (sin x - x * cos x)) 0 t (proj1 Ht)).
  cbv beta in H. rewrite sin_0, cos_0 in H.
  replace (0 * (3 * 1 ^ 2 + 0 ^ 2) - 3 * 0 * 1) with 0 in H by ring.
  apply H; [| |reflexivity].
  - intros x Hx. auto_derive; [exact I|]. assert (E := sin2_cos2 x). unfold Rsqr in E.
    (* cos^2 = 1 - sin^2 *)
    ring_simplify. replace (cos x ^ 2) with (1 - sin x ^ 2) by (simpl; lra). ring.
  - intros x Hx. destruct (sin_cos_pos x ltac:(lra)) as [Hs Hc]. assert (Hk := sin_gt_x_cos x ltac:(lra)).
    apply Rmult_lt_0_compat; [lra|lra].
Qed.

(* t (3 cos^2 t - sin^2 t) < sin t cos t (3 - 2 sin^2 t) *)
Lemma needle_thermo_key t : 0 < t < PI / 2 ->
  0 < sin t * cos t * (3 - 2 * sin t ^ 2) - t * (3 * cos t ^ 2 - sin t ^ 2).
Proof.
  intros Ht.
  assert (H := pos_of_deriv (fun x => sin x * cos x * (3 - 2 * sin x ^ 2) - x * (3 * cos x ^ 2 - sin x ^ 2))
                 (fun x => 8 * sin x * cos x * (x - sin x * cos x)) 0 t (proj1 Ht)).
  cbv beta in H. rewrite sin_0, cos_0 in H.
  replace (0 * 1 * (3 - 2 * 0 ^ 2) - 0 * (3 * 1 ^ 2 - 0 ^ 2)) with 0 in H by ring.
  apply H; [| |reflexivity].
  - intros x Hx. auto_derive; [exact I|]. assert (E := sin2_cos2 x). unfold Rsqr in E.
    replace (cos x ^ 2) with (1 - sin x ^ 2) by (simpl; lra). ring_simplify.
    replace (cos x ^ 2) with (1 - sin x ^ 2) by (simpl; lra). ring.
  - intros x Hx. destruct (sin_cos_pos x ltac:(lra)) as [Hs Hc].
    assert (sin x < x) by (apply sin_lt_x; lra).
    assert (cos x <= 1) by apply COS_bound.
    apply Rmult_lt_0_compat; [apply Rmult_lt_0_compat; lra|]. nra.
Qed.

(* ---- logarithms of the four factors as functions of e = eccentricity or t = asin e --------------- *)
(* needle kinetic: 2 cbrt(ar^2) e / Lf e,  1 - e^2 = 1/ar^2 *)
Definition HNK (e : R) : R := - / 3 * ln (1 - e ^ 2) + ln (2 * e) - ln (Lf e).
(* plate thermo: (ar^2 + Lf e/(2e)) / (2 ar^(4/3)) *)
Definition HPT (e : R) : R := 2 / 3 * ln (1 - e ^ 2) + ln (1 / (1 - e ^ 2) + Lf e / (2 * e)) - ln 2.
(* plate kinetic: e cbrt(ar) / asin e,  e = sin t, 1/ar = cos t *)
Definition HPK (t : R) : R := ln (sin t) - / 3 * ln (cos t) - ln t.
(* needle thermo: (1 + ar asin e / e) / (2 ar^(2/3)) *)
Definition HNT (t : R) : R := 2 / 3 * ln (cos t) + ln (1 + t / (sin t * cos t)) - ln 2.

Lemma HNK_deriv e : 0 < e < 1 ->
  is_derive HNK e (((3 - e ^ 2) * Lf e - 6 * e) / (3 * e * (1 - e ^ 2) * Lf e)).
Proof.
  intros He. assert (HL := Lf_pos e He). assert (Hd := Lf_deriv e ltac:(lra)).
  unfold HNK. auto_derive; [side ltac:(exists (2 / (1 - e ^ 2)); exact Hd)|].
  rewrite (is_derive_unique (fun x0 : R => Lf x0) e _ Hd). field. repeat split; nra.
Qed.

Lemma HNK_deriv_pos e : 0 < e < 1 -> 0 < ((3 - e ^ 2) * Lf e - 6 * e) / (3 * e * (1 - e ^ 2) * Lf e).
Proof.
  intros He. assert (HL := Lf_pos e He). assert (Hk := Lf_lower e He).
  assert (0 < 3 - e ^ 2) by nra. assert (0 < 1 - e ^ 2) by nra.
  apply Rdiv_lt_0_compat.
  - apply (Rmult_lt_compat_r (3 - e ^ 2)) in Hk; [|lra].
    replace (6 * e / (3 - e ^ 2) * (3 - e ^ 2)) with (6 * e) in Hk by (field; lra). lra.
  - repeat apply Rmult_lt_0_compat; lra.
Qed.

Lemma HNK_incr x y : 0 < x -> x < y -> y < 1 -> HNK x < HNK y.
Proof.
  apply (incr_of_deriv HNK (fun e => ((3 - e ^ 2) * Lf e - 6 * e) / (3 * e * (1 - e ^ 2) * Lf e)) 0 1).
  - intros e He. apply HNK_deriv; exact He.
  - intros e He. apply HNK_deriv_pos; exact He.
Qed.

Lemma HPT_deriv e : 0 < e < 1 ->
  is_derive HPT e ((2 * e * (3 - e ^ 2) - (1 - e ^ 2) * (3 + e ^ 2) * Lf e)
                   / (3 * e * (1 - e ^ 2) * (2 * e + (1 - e ^ 2) * Lf e))).
Proof.
  intros He. assert (HL := Lf_pos e He). assert (Hd := Lf_deriv e ltac:(lra)).
  assert (Hu : 0 < 1 - e ^ 2) by nra.
  assert (HM : 0 < 1 / (1 - e ^ 2) + Lf e / (2 * e)).
  { apply Rplus_lt_0_compat; apply Rdiv_lt_0_compat; lra. }
  unfold HPT. auto_derive; [side ltac:(exists (2 / (1 - e ^ 2)); exact Hd)|].
  rewrite (is_derive_unique (fun x0 : R => Lf x0) e _ Hd). field.
  assert (0 < 2 * e + (1 - e ^ 2) * Lf e) by nra. repeat split; try nra.
Qed.

Lemma HPT_deriv_pos e : 0 < e < 1 ->
  0 < (2 * e * (3 - e ^ 2) - (1 - e ^ 2) * (3 + e ^ 2) * Lf e) / (3 * e * (1 - e ^ 2) * (2 * e + (1 - e ^ 2) * Lf e)).
Proof.
  intros He. assert (HL := Lf_pos e He). assert (Hk := Lf_upper e He).
  assert (0 < 3 + e ^ 2) by nra. assert (0 < 1 - e ^ 2) by nra.
  assert (0 < 2 * e + (1 - e ^ 2) * Lf e) by nra.
  apply Rdiv_lt_0_compat.
  - apply (Rmult_lt_compat_r ((1 - e ^ 2) * (3 + e ^ 2))) in Hk; [|apply Rmult_lt_0_compat; lra].
    replace (2 * e * (3 - e ^ 2) / ((1 - e ^ 2) * (3 + e ^ 2)) * ((1 - e ^ 2) * (3 + e ^ 2)))
      with (2 * e * (3 - e ^ 2)) in Hk by (field; lra). lra.
  - repeat apply Rmult_lt_0_compat; lra.
Qed.

Lemma HPT_incr x y : 0 < x -> x < y -> y < 1 -> HPT x < HPT y.
Proof.
  apply (incr_of_deriv HPT (fun e => (2 * e * (3 - e ^ 2) - (1 - e ^ 2) * (3 + e ^ 2) * Lf e)
                   / (3 * e * (1 - e ^ 2) * (2 * e + (1 - e ^ 2) * Lf e))) 0 1).
  - intros e He. apply HPT_deriv; exact He.
  - intros e He. apply HPT_deriv_pos; exact He.
Qed.

Lemma HPK_deriv t : 0 < t < PI / 2 ->
  is_derive HPK t ((t * (3 * cos t ^ 2 + sin t ^ 2) - 3 * sin t * cos t) / (3 * t * sin t * cos t)).
Proof.
  intros Ht. destruct (sin_cos_pos t Ht) as [Hs Hc].
  unfold HPK. auto_derive; [side idtac|]. field. repeat split; lra.
Qed.

Lemma HPK_incr x y : 0 < x -> x < y -> y < PI / 2 -> HPK x < HPK y.
Proof.
  apply (incr_of_deriv HPK (fun t => (t * (3 * cos t ^ 2 + sin t ^ 2) - 3 * sin t * cos t) / (3 * t * sin t * cos t)) 0 (PI / 2)).
  - intros t Ht. apply HPK_deriv; exact Ht.
  - intros t Ht. destruct (sin_cos_pos t Ht) as [Hs Hc]. apply Rdiv_lt_0_compat; [apply plate_kinetic_key; exact Ht|].
    repeat apply Rmult_lt_0_compat; lra.
Qed.

Lemma HNT_deriv t : 0 < t < PI / 2 ->
  is_derive HNT t ((sin t * cos t * (3 - 2 * sin t ^ 2) - t * (3 * cos t ^ 2 - sin t ^ 2))
                   / (3 * sin t * cos t * (sin t * cos t + t))).
Proof.
  intros Ht. destruct (sin_cos_pos t Ht) as [Hs Hc].
  assert (Hsc : 0 < sin t * cos t) by (apply Rmult_lt_0_compat; lra).
  assert (HQ : 0 < 1 + t / (sin t * cos t)).
  { apply Rplus_lt_0_compat; [lra|]. apply Rdiv_lt_0_compat; lra. }
  unfold HNT. auto_derive; [side idtac|]. field. repeat split; lra.
Qed.

Lemma HNT_incr x y : 0 < x -> x < y -> y < PI / 2 -> HNT x < HNT y.
Proof.
  apply (incr_of_deriv HNT (fun t => (sin t * cos t * (3 - 2 * sin t ^ 2) - t * (3 * cos t ^ 2 - sin t ^ 2))
                   / (3 * sin t * cos t * (sin t * cos t + t))) 0 (PI / 2)).
  - intros t Ht. apply HNT_deriv; exact Ht.
  - intros t Ht. destruct (sin_cos_pos t Ht) as [Hs Hc]. apply Rdiv_lt_0_compat; [apply needle_thermo_key; exact Ht|].
    assert (0 < sin t * cos t) by (apply Rmult_lt_0_compat; lra).
    repeat apply Rmult_lt_0_compat; lra.
Qed.

(* ---- the needle / plate factors in terms of e and t ------------------------------------------------ *)
Lemma one_minus_ecc2 ar : 1 < ar -> 1 - ecc ar ^ 2 = 1 / ar ^ 2.
Proof. intros H. rewrite ecc_sqr by lra. ring. Qed.

Lemma ln_sqr x : 0 < x -> ln (x ^ 2) = 2 * ln x.
Proof. intros Hx. replace (x ^ 2) with (x * x) by ring. rewrite ln_mult by assumption. ring. Qed.

Lemma ln_inv_sqr x : 0 < x -> ln (1 / x ^ 2) = - 2 * ln x.
Proof.
  intros Hx. unfold Rdiv. rewrite Rmult_1_l, ln_Rinv by (apply pow_lt; exact Hx). rewrite ln_sqr by exact Hx. ring.
Qed.

Lemma ln_cbrt x : ln (cbrt x) = / 3 * ln x.
Proof. unfold cbrt. apply ln_Rpower. Qed.

Lemma Lf_ecc ar : Lf (ecc ar) = ln (1 + ecc ar) - ln (1 - ecc ar).
Proof. reflexivity. Qed.

Lemma needle_kinetic_pos ar : 1 < ar -> 0 < needle_kinetic ar.
Proof.
  intros H. destruct (ecc_range ar H) as [He0 He1]. assert (HL := Lf_pos (ecc ar) (conj He0 He1)).
  unfold needle_kinetic. cbv zeta. rewrite <- Lf_ecc. assert (Hc := cbrt_pos (ar ^ 2)).
  apply Rdiv_lt_0_compat; [|exact HL]. repeat apply Rmult_lt_0_compat; lra.
Qed.

Lemma needle_kinetic_ln ar : 1 < ar -> ln (needle_kinetic ar) = HNK (ecc ar).
Proof.
  intros H. destruct (ecc_range ar H) as [He0 He1]. assert (HL := Lf_pos (ecc ar) (conj He0 He1)).
  assert (Hc := cbrt_pos (ar ^ 2)).
  unfold needle_kinetic, HNK. cbv zeta. rewrite <- Lf_ecc. rewrite one_minus_ecc2 by exact H.
  rewrite ln_inv_sqr by lra.
  rewrite ln_div_pos; [|repeat apply Rmult_lt_0_compat; lra|exact HL].
  repeat (rewrite ln_mult by posi).
  rewrite ln_cbrt, ln_sqr by lra. field.
Qed.

Lemma needle_kinetic_incr x y : 1 < x -> x < y -> needle_kinetic x < needle_kinetic y.
Proof.
  intros Hx Hxy. apply ln_lt_inv; [apply needle_kinetic_pos; lra|apply needle_kinetic_pos; lra|].
  rewrite !needle_kinetic_ln by lra.
  destruct (ecc_range x Hx) as [Hx0 Hx1]. destruct (ecc_range y ltac:(lra)) as [Hy0 Hy1].
  apply HNK_incr; [exact Hx0|apply ecc_lt; lra|exact Hy1].
Qed.

Lemma plate_thermo_form ar : 1 < ar ->
  plate_thermo ar = 1 / (2 * Rpower ar (4 / 3)) * (ar ^ 2 + Lf (ecc ar) / (2 * ecc ar)).
Proof.
  intros H. destruct (ecc_range ar H) as [He0 He1]. unfold plate_thermo. cbv zeta.
  rewrite ln_div_pos by lra. rewrite <- Lf_ecc. f_equal. f_equal. field. lra.
Qed.

Lemma plate_thermo_pos ar : 1 < ar -> 0 < plate_thermo ar.
Proof.
  intros H. destruct (ecc_range ar H) as [He0 He1]. assert (HL := Lf_pos (ecc ar) (conj He0 He1)).
  rewrite plate_thermo_form by exact H. assert (Hp := Rpower_pos ar (4 / 3)).
  apply Rmult_lt_0_compat; [apply Rdiv_lt_0_compat; lra|].
  apply Rplus_lt_0_compat; [apply pow_lt; lra|apply Rdiv_lt_0_compat; lra].
Qed.

Lemma plate_thermo_ln ar : 1 < ar -> ln (plate_thermo ar) = HPT (ecc ar).
Proof.
  intros H. destruct (ecc_range ar H) as [He0 He1]. assert (HL := Lf_pos (ecc ar) (conj He0 He1)).
  assert (Hp := Rpower_pos ar (4 / 3)).
  rewrite plate_thermo_form by exact H. unfold HPT. rewrite one_minus_ecc2 by exact H.
  replace (1 / (1 / ar ^ 2)) with (ar ^ 2) by (field; lra).
  assert (HM : 0 < ar ^ 2 + Lf (ecc ar) / (2 * ecc ar)).
  { apply Rplus_lt_0_compat; [apply pow_lt; lra|apply Rdiv_lt_0_compat; lra]. }
  rewrite ln_mult; [|apply Rdiv_lt_0_compat; lra|exact HM].
  rewrite ln_div_pos by lra. rewrite ln_1, ln_mult by lra. rewrite ln_Rpower, ln_inv_sqr by lra. field.
Qed.

Lemma plate_thermo_incr x y : 1 < x -> x < y -> plate_thermo x < plate_thermo y.
Proof.
  intros Hx Hxy. apply ln_lt_inv; [apply plate_thermo_pos; lra|apply plate_thermo_pos; lra|].
  rewrite !plate_thermo_ln by lra.
  destruct (ecc_range x Hx) as [Hx0 Hx1]. destruct (ecc_range y ltac:(lra)) as [Hy0 Hy1].
  apply HPT_incr; [exact Hx0|apply ecc_lt; lra|exact Hy1].
Qed.

(* t = asin (ecc ar): sin t = ecc ar, cos t = 1/ar *)
Definition theta (ar : R) : R := asin (ecc ar).

Lemma theta_range ar : 1 < ar -> 0 < theta ar < PI / 2.
Proof.
  intros H. destruct (ecc_range ar H) as [He0 He1]. unfold theta. split.
  - apply asin_pos; lra.
  - apply asin_bound_lt; lra.
Qed.
Lemma sin_theta ar : 1 < ar -> sin (theta ar) = ecc ar.
Proof. intros H. destruct (ecc_range ar H). unfold theta. apply sin_asin; lra. Qed.
Lemma cos_theta ar : 1 < ar -> cos (theta ar) = 1 / ar.
Proof.
  intros H. destruct (ecc_range ar H). unfold theta. rewrite cos_asin by lra.
  rewrite Rsqr_pow2, one_minus_ecc2 by exact H.
  replace (1 / ar ^ 2) with ((1 / ar) ^ 2) by (field; lra). rewrite <- Rsqr_pow2. apply sqrt_Rsqr.
  apply Rlt_le, Rdiv_lt_0_compat; lra.
Qed.
Lemma theta_lt x y : 1 < x -> x < y -> theta x < theta y.
Proof.
  intros Hx Hxy. destruct (theta_range x Hx). destruct (theta_range y ltac:(lra)).
  apply sin_increasing_0; try lra. rewrite !sin_theta by lra. apply ecc_lt; lra.
Qed.

Lemma plate_kinetic_form ar : 1 < ar -> plate_kinetic ar = ecc ar * cbrt ar / theta ar.
Proof.
  intros H. destruct (ecc_range ar H). unfold plate_kinetic, theta. cbv zeta. rewrite <- asin_acos by lra. reflexivity.
Qed.

Lemma plate_kinetic_pos ar : 1 < ar -> 0 < plate_kinetic ar.
Proof.
  intros H. destruct (ecc_range ar H). destruct (theta_range ar H). assert (Hc := cbrt_pos ar).
  rewrite plate_kinetic_form by exact H. apply Rdiv_lt_0_compat; [apply Rmult_lt_0_compat; lra|lra].
Qed.

Lemma plate_kinetic_ln ar : 1 < ar -> ln (plate_kinetic ar) = HPK (theta ar).
Proof.
  intros H. destruct (ecc_range ar H). destruct (theta_range ar H). assert (Hc := cbrt_pos ar).
  rewrite plate_kinetic_form by exact H. unfold HPK. rewrite sin_theta, cos_theta by exact H.
  rewrite ln_div_pos; [|apply Rmult_lt_0_compat; lra|lra]. rewrite ln_mult by lra. rewrite ln_cbrt.
  replace (ln (1 / ar)) with (- ln ar) by (unfold Rdiv; rewrite Rmult_1_l, ln_Rinv by lra; reflexivity). field.
Qed.

Lemma plate_kinetic_incr x y : 1 < x -> x < y -> plate_kinetic x < plate_kinetic y.
Proof.
  intros Hx Hxy. apply ln_lt_inv; [apply plate_kinetic_pos; lra|apply plate_kinetic_pos; lra|].
  rewrite !plate_kinetic_ln by lra.
  destruct (theta_range x Hx). destruct (theta_range y ltac:(lra)).
  apply HPK_incr; [lra|apply theta_lt; lra|lra].
Qed.

Lemma needle_thermo_form ar : 1 < ar ->
  needle_thermo ar = 1 / (2 * Rpower ar (2 / 3)) * (1 + theta ar / (sin (theta ar) * cos (theta ar))).
Proof.
  intros H. destruct (ecc_range ar H). unfold needle_thermo. cbv zeta.
  rewrite sin_theta, cos_theta by exact H. unfold theta. f_equal. f_equal. field. lra.
Qed.

Lemma needle_thermo_pos ar : 1 < ar -> 0 < needle_thermo ar.
Proof.
  intros H. destruct (theta_range ar H) as [Ht0 Ht1]. destruct (sin_cos_pos _ (conj Ht0 Ht1)).
  rewrite needle_thermo_form by exact H. assert (Hp := Rpower_pos ar (2 / 3)).
  apply Rmult_lt_0_compat; [apply Rdiv_lt_0_compat; lra|].
  apply Rplus_lt_0_compat; [lra|apply Rdiv_lt_0_compat; [lra|apply Rmult_lt_0_compat; lra]].
Qed.

Lemma needle_thermo_ln ar : 1 < ar -> ln (needle_thermo ar) = HNT (theta ar).
Proof.
  intros H. destruct (theta_range ar H) as [Ht0 Ht1]. destruct (sin_cos_pos _ (conj Ht0 Ht1)).
  assert (Hp := Rpower_pos ar (2 / 3)).
  rewrite needle_thermo_form by exact H. unfold HNT.
  assert (HQ : 0 < 1 + theta ar / (sin (theta ar) * cos (theta ar))).
  { apply Rplus_lt_0_compat; [lra|apply Rdiv_lt_0_compat; [lra|apply Rmult_lt_0_compat; lra]]. }
  rewrite ln_mult; [|apply Rdiv_lt_0_compat; lra|exact HQ].
  rewrite ln_div_pos by lra. rewrite ln_1, ln_mult by lra. rewrite ln_Rpower.
  assert (E : ln (cos (theta ar)) = - ln ar).
  { rewrite cos_theta by exact H. unfold Rdiv. rewrite Rmult_1_l, ln_Rinv by lra. reflexivity. }
  rewrite E. field.
Qed.

Lemma needle_thermo_incr x y : 1 < x -> x < y -> needle_thermo x < needle_thermo y.
Proof.
  intros Hx Hxy. apply ln_lt_inv; [apply needle_thermo_pos; lra|apply needle_thermo_pos; lra|].
  rewrite !needle_thermo_ln by lra.
  destruct (theta_range x Hx). destruct (theta_range y ltac:(lra)).
  apply HNT_incr; [lra|apply theta_lt; lra|lra].
Qed.

(* ---- limits at aspect ratio 1 (from the right) ------------------------------------------------------ *)
(* a strictly increasing function lies above its right limit *)
Lemma gt_limit_of_incr (f : R -> R) l :
  right_limit_at_one f l -> (forall x y, 1 < x -> x < y -> f x < f y) -> forall y, 1 < y -> l < f y.
Proof.
  intros Hl Hi y Hy. destruct (Rlt_or_le l (f y)) as [H|H]; [exact H|exfalso].
  set (m := (1 + y) / 2). assert (Hm : 1 < m < y) by (unfold m; lra).
  assert (Hfm : f m < f y) by (apply Hi; lra).
  destruct (Hl (l - f m) ltac:(lra)) as [delta [Hd Hx]].
  set (x := 1 + Rmin delta (m - 1) / 2).
  assert (Hmin : 0 < Rmin delta (m - 1)) by (apply Rmin_glb_lt; lra).
  assert (Hx1 : 1 < x < 1 + delta).
  { unfold x. assert (Rmin delta (m - 1) <= delta) by apply Rmin_l. lra. }
  assert (Hxm : x < m).
  { unfold x. assert (Rmin delta (m - 1) <= m - 1) by apply Rmin_r. lra. }
  specialize (Hx x Hx1). apply Rabs_def2 in Hx. assert (f x < f m) by (apply Hi; lra). lra.
Qed.

(* tangent-line bounds used for the squeezes *)
Lemma inv_sqr_ge x : 1 <= x -> 1 - 2 * (x - 1) <= 1 / x ^ 2.
Proof.
  intros Hx. apply (Rmult_le_reg_r (x ^ 2)); [nra|]. replace (1 / x ^ 2 * x ^ 2) with 1 by (field; lra).
  assert (0 <= (x - 1) * (x - 1) * (2 * x + 1)) by (apply Rmult_le_pos; nra). nra.
Qed.
Lemma inv_ge x : 1 <= x -> 1 - (x - 1) <= 1 / x.
Proof. intros Hx. apply (Rmult_le_reg_r x); [lra|]. replace (1 / x * x) with 1 by (field; lra). nra. Qed.
Lemma inv_pow4_ge x : 1 <= x -> 1 - 4 * (x - 1) <= 1 / x ^ 4.
Proof.
  intros Hx. assert (0 < x ^ 4) by (apply pow_lt; lra).
  apply (Rmult_le_reg_r (x ^ 4)); [lra|]. replace (1 / x ^ 4 * x ^ 4) with 1 by (field; lra).
  assert (E : 1 - (1 - 4 * (x - 1)) * x ^ 4 = (x - 1) * (x - 1) * (4 * x ^ 3 + 3 * x ^ 2 + 2 * x + 1)) by ring.
  assert (0 <= (x - 1) * (x - 1) * (4 * x ^ 3 + 3 * x ^ 2 + 2 * x + 1)).
  { apply Rmult_le_pos; [nra|]. assert (0 < x ^ 3) by (apply pow_lt; lra). nra. }
  lra.
Qed.

Lemma cbrt_ge_1 x : 1 <= x -> 1 <= cbrt x.
Proof. intros [H|H]; [left; apply cbrt_gt_1; exact H|subst; rewrite cbrt_1; lra]. Qed.
Lemma cbrt_le_self x : 1 <= x -> cbrt x <= x.
Proof.
  intros H. assert (H1 := cbrt_ge_1 x H). assert (H3 := cbrt_cube x ltac:(lra)).
  rewrite <- H3 at 2. nra.
Qed.

(* e <= asin e <= e * ar *)
Lemma theta_bounds ar : 1 < ar -> ecc ar < theta ar < ecc ar * ar.
Proof.
  intros H. destruct (theta_range ar H) as [Ht0 Ht1]. split.
  - rewrite <- (sin_theta ar H). apply sin_lt_x; exact Ht0.
  - assert (Hk := sin_gt_x_cos (theta ar) (conj Ht0 Ht1)). rewrite sin_theta, cos_theta in Hk by exact H.
    apply (Rmult_lt_reg_r (1 / ar)); [apply Rdiv_lt_0_compat; lra|].
    replace (ecc ar * ar * (1 / ar)) with (ecc ar) by (field; lra). exact Hk.
Qed.

(* 2e <= Lf e <= 2 e ar^2 *)
Lemma Lf_bounds ar : 1 < ar -> 2 * ecc ar < Lf (ecc ar) < 2 * ecc ar * ar ^ 2.
Proof.
  intros H. assert (He := ecc_range ar H). split; [apply Lf_gt_2e; exact He|].
  apply Rlt_le_trans with (1 := Lf_lt (ecc ar) He). rewrite one_minus_ecc2 by exact H. right. field. lra.
Qed.

Lemma needle_kinetic_bounds ar : 1 < ar -> 1 / ar ^ 2 <= needle_kinetic ar <= ar ^ 2.
Proof.
  intros H. destruct (ecc_range ar H) as [He0 He1]. destruct (Lf_bounds ar H) as [L1 L2].
  assert (Hc1 := cbrt_ge_1 (ar ^ 2) ltac:(nra)). assert (Hc2 := cbrt_le_self (ar ^ 2) ltac:(nra)).
  assert (HL : 0 < Lf (ecc ar)) by lra. assert (H2 : 0 < ar ^ 2) by nra.
  unfold needle_kinetic. cbv zeta. rewrite <- Lf_ecc. set (L := Lf (ecc ar)) in *. set (e := ecc ar) in *. set (c := cbrt (ar ^ 2)) in *.
  split.
  - apply (Rmult_le_reg_r (ar ^ 2 * L)); [apply Rmult_lt_0_compat; lra|].
    replace (1 / ar ^ 2 * (ar ^ 2 * L)) with L by (field; lra).
    replace (2 * c * e / L * (ar ^ 2 * L)) with (c * (2 * e * ar ^ 2)) by (field; lra).
    apply Rle_trans with (1 * (2 * e * ar ^ 2)); [lra|]. apply Rmult_le_compat_r; [|exact Hc1].
    apply Rmult_le_pos; [lra|lra].
  - apply (Rmult_le_reg_r L); [lra|]. replace (2 * c * e / L * L) with (c * (2 * e)) by (field; lra).
    apply Rle_trans with (c * L); [apply Rmult_le_compat_l; lra|]. apply Rmult_le_compat_r; lra.
Qed.

Lemma plate_kinetic_bounds ar : 1 < ar -> 1 / ar <= plate_kinetic ar <= ar.
Proof.
  intros H. destruct (ecc_range ar H) as [He0 He1]. destruct (theta_bounds ar H) as [T1 T2].
  assert (Hc1 := cbrt_ge_1 ar ltac:(lra)). assert (Hc2 := cbrt_le_self ar ltac:(lra)).
  rewrite plate_kinetic_form by exact H. set (t := theta ar) in *. set (e := ecc ar) in *. set (c := cbrt ar) in *.
  assert (Ht : 0 < t) by lra. split.
  - apply (Rmult_le_reg_r (ar * t)); [apply Rmult_lt_0_compat; lra|].
    replace (1 / ar * (ar * t)) with t by (field; lra).
    replace (e * c / t * (ar * t)) with (c * (e * ar)) by (field; lra).
    apply Rle_trans with (1 * (e * ar)); [lra|]. apply Rmult_le_compat_r; [|exact Hc1]. apply Rmult_le_pos; lra.
  - apply (Rmult_le_reg_r t); [lra|]. replace (e * c / t * t) with (c * e) by (field; lra).
    apply Rle_trans with (c * t); [apply Rmult_le_compat_l; lra|]. apply Rmult_le_compat_r; lra.
Qed.

Lemma needle_thermo_bounds ar : 1 < ar -> 1 / ar ^ 2 <= needle_thermo ar <= (1 + ar ^ 2) / 2.
Proof.
  intros H. destruct (ecc_range ar H) as [He0 He1]. destruct (theta_bounds ar H) as [T1 T2].
  assert (Hc1 := cbrt_ge_1 ar ltac:(lra)). assert (Hc2 := cbrt_le_self ar ltac:(lra)).
  unfold needle_thermo. cbv zeta. fold (theta ar). rewrite Rpower_23 by lra.
  set (t := theta ar) in *. set (e := ecc ar) in *. set (c := cbrt ar) in *.
  assert (Hq : 1 <= ar / e * t <= ar * ar).
  { split.
    - apply (Rmult_le_reg_r e); [lra|]. replace (ar / e * t * e) with (ar * t) by (field; lra). nra.
    - apply (Rmult_le_reg_r e); [lra|]. replace (ar / e * t * e) with (ar * t) by (field; lra). nra. }
  assert (Hc : 1 <= c ^ 2 <= ar ^ 2) by nra.
  set (q := ar / e * t) in *. set (d := c ^ 2) in *. assert (H2 : 0 < ar ^ 2) by nra. split.
  - apply (Rmult_le_reg_r (2 * d * ar ^ 2)); [apply Rmult_lt_0_compat; lra|].
    replace (1 / ar ^ 2 * (2 * d * ar ^ 2)) with (2 * d) by (field; lra).
    replace (1 / (2 * d) * (1 + q) * (2 * d * ar ^ 2)) with ((1 + q) * ar ^ 2) by (field; lra). nra.
  - apply (Rmult_le_reg_r (2 * d)); [lra|].
    replace (1 / (2 * d) * (1 + q) * (2 * d)) with (1 + q) by (field; lra).
    replace ((1 + ar ^ 2) / 2 * (2 * d)) with ((1 + ar ^ 2) * d) by field. nra.
Qed.

Lemma plate_thermo_bounds ar : 1 < ar -> 1 / ar ^ 4 <= plate_thermo ar <= ar ^ 2.
Proof.
  intros H. destruct (ecc_range ar H) as [He0 He1]. destruct (Lf_bounds ar H) as [L1 L2].
  assert (Hc1 := cbrt_ge_1 (ar ^ 2) ltac:(nra)). assert (Hc2 := cbrt_le_self (ar ^ 2) ltac:(nra)).
  rewrite plate_thermo_form by exact H. rewrite Rpower_43 by lra.
  set (L := Lf (ecc ar)) in *. set (e := ecc ar) in *. set (c := cbrt (ar ^ 2)) in *.
  assert (H2 : 1 < ar ^ 2) by nra.
  assert (Hq : 1 <= L / (2 * e) <= ar ^ 2).
  { split.
    - apply (Rmult_le_reg_r (2 * e)); [lra|]. replace (L / (2 * e) * (2 * e)) with L by (field; lra). lra.
    - apply (Rmult_le_reg_r (2 * e)); [lra|]. replace (L / (2 * e) * (2 * e)) with L by (field; lra). lra. }
  set (q := L / (2 * e)) in *. set (a2 := ar ^ 2) in *.
  assert (Hd : 1 <= c ^ 2 <= a2 ^ 2) by nra. set (d := c ^ 2) in *.
  replace (ar ^ 4) with (a2 ^ 2) by (unfold a2; ring). split.
  - apply (Rmult_le_reg_r (2 * d * a2 ^ 2)); [apply Rmult_lt_0_compat; nra|].
    replace (1 / a2 ^ 2 * (2 * d * a2 ^ 2)) with (2 * d) by (field; lra).
    replace (1 / (2 * d) * (a2 + q) * (2 * d * a2 ^ 2)) with ((a2 + q) * a2 ^ 2) by (field; lra). nra.
  - apply (Rmult_le_reg_r (2 * d)); [lra|].
    replace (1 / (2 * d) * (a2 + q) * (2 * d)) with (a2 + q) by (field; lra). nra.
Qed.

(* the four right limits are 1, with modulus 4 (x - 1) on (1, 2) *)
Ltac limit_one B :=
  apply (right_limit_of_squeeze _ 1 (fun x => 1 - 4 * (x - 1)) (fun x => 1 + 4 * (x - 1)) 4 0 1); try lra;
  [ intros x Hx; destruct (B x ltac:(lra)) as [B1 B2];
    assert (I2 := inv_sqr_ge x ltac:(lra)); assert (I1 := inv_ge x ltac:(lra)); assert (I4 := inv_pow4_ge x ltac:(lra));
    split; nra
  | intros x Hx; assert (0 <= sqrt (x - 1)) by apply sqrt_pos; nra
  | intros x Hx; assert (0 <= sqrt (x - 1)) by apply sqrt_pos; nra ].

Lemma needle_kinetic_limit : right_limit_at_one needle_kinetic 1.
Proof. limit_one needle_kinetic_bounds. Qed.
Lemma plate_kinetic_limit : right_limit_at_one plate_kinetic 1.
Proof. limit_one plate_kinetic_bounds. Qed.
Lemma needle_thermo_limit : right_limit_at_one needle_thermo 1.
Proof. limit_one needle_thermo_bounds. Qed.
Lemma plate_thermo_limit : right_limit_at_one plate_thermo 1.
Proof. limit_one plate_thermo_bounds. Qed.

(* hence each factor exceeds 1 above aspect ratio 1 *)
Lemma needle_kinetic_gt_1 ar : 1 < ar -> 1 < needle_kinetic ar.
Proof. apply (gt_limit_of_incr needle_kinetic 1 needle_kinetic_limit needle_kinetic_incr). Qed.
Lemma plate_kinetic_gt_1 ar : 1 < ar -> 1 < plate_kinetic ar.
Proof. apply (gt_limit_of_incr plate_kinetic 1 plate_kinetic_limit plate_kinetic_incr). Qed.
Lemma needle_thermo_gt_1 ar : 1 < ar -> 1 < needle_thermo ar.
Proof. apply (gt_limit_of_incr needle_thermo 1 needle_thermo_limit needle_thermo_incr). Qed.
Lemma plate_thermo_gt_1 ar : 1 < ar -> 1 < plate_thermo ar.
Proof. apply (gt_limit_of_incr plate_thermo 1 plate_thermo_limit plate_thermo_incr). Qed.

(* ---- the public wrappers: value 1 at 1, strictly increasing on [1, oo), continuous at 1 ---------- *)
Lemma wrapper_incr (f : R -> R) :
  (forall x y, 1 < x -> x < y -> f x < f y) -> (forall y, 1 < y -> 1 < f y) ->
  forall x y, 1 <= x -> x < y -> factor_wrapper 1 f x < factor_wrapper 1 f y.
Proof.
  intros Hi Hg x y Hx Hxy. rewrite (wrapper_gt1 _ _ y) by lra. destruct Hx as [Hx|Hx].
  - rewrite wrapper_gt1 by lra. apply Hi; lra.
  - subst x. rewrite wrapper_le1 by lra. apply Hg; lra.
Qed.

Lemma needle_kineticFactor_incr x y : 1 <= x -> x < y -> kineticFactor Needle x < kineticFactor Needle y.
Proof. apply (wrapper_incr needle_kinetic needle_kinetic_incr needle_kinetic_gt_1). Qed.
Lemma plate_kineticFactor_incr x y : 1 <= x -> x < y -> kineticFactor Plate x < kineticFactor Plate y.
Proof. apply (wrapper_incr plate_kinetic plate_kinetic_incr plate_kinetic_gt_1). Qed.
Lemma needle_thermoFactor_incr x y : 1 <= x -> x < y -> thermoFactor Needle x < thermoFactor Needle y.
Proof. apply (wrapper_incr needle_thermo needle_thermo_incr needle_thermo_gt_1). Qed.
Lemma plate_thermoFactor_incr x y : 1 <= x -> x < y -> thermoFactor Plate x < thermoFactor Plate y.
Proof. apply (wrapper_incr plate_thermo plate_thermo_incr plate_thermo_gt_1). Qed.

(* ---- continuity at aspect ratio 1, all shapes ------------------------------------------------------- *)
Lemma right_limit_const c : right_limit_at_one (fun _ => c) c.
Proof. intros eps Heps. exists 1. split; [lra|]. intros x _. replace (c - c) with 0 by ring. rewrite Rabs_R0. exact Heps. Qed.

Lemma right_limit_of_continuity (f : R -> R) : continuity_pt f 1 -> right_limit_at_one f (f 1).
Proof.
  intros Hc eps Heps. destruct (Hc eps Heps) as [delta [Hd Hx]]. exists delta. split; [exact Hd|].
  intros x Hx1. apply Hx. split; [split; [exact I|lra]|]. simpl. unfold R_dist. rewrite Rabs_right; lra.
Qed.

Lemma continuity_of_ex_derive (f : R -> R) x : ex_derive f x -> continuity_pt f x.
Proof. intros H. apply continuity_pt_filterlim. apply (ex_derive_continuous f x H). Qed.

Lemma ex_derive_Rpower c x : 0 < x -> ex_derive (fun y => Rpower y c) x.
Proof. intros Hx. exists (c * Rpower x (c - 1)). apply is_derive_Reals, derivable_pt_lim_power; exact Hx. Qed.

Lemma needle_eqRadius_limit : right_limit_at_one needle_eqRadius 1.
Proof.
  apply (right_limit_of_squeeze _ 1 (fun _ => 1) (fun x => x) 1 0 1); try lra.
  - intros x Hx. unfold needle_eqRadius. split; [apply cbrt_ge_1; lra|apply cbrt_le_self; lra].
  - intros x Hx. assert (0 <= sqrt (x - 1)) by apply sqrt_pos. nra.
  - intros x Hx. assert (0 <= sqrt (x - 1)) by apply sqrt_pos. nra.
Qed.
Lemma plate_eqRadius_limit : right_limit_at_one plate_eqRadius 1.
Proof.
  apply (right_limit_of_squeeze _ 1 (fun _ => 1) (fun x => x ^ 2) 3 0 1); try lra.
  - intros x Hx. unfold plate_eqRadius. split; [apply cbrt_ge_1; nra|apply cbrt_le_self; nra].
  - intros x Hx. assert (0 <= sqrt (x - 1)) by apply sqrt_pos. nra.
  - intros x Hx. assert (0 <= sqrt (x - 1)) by apply sqrt_pos. nra.
Qed.

Lemma cuboidal_eqRadius_limit : right_limit_at_one cuboidal_eqRadius (cuboidal_eqRadius 1).
Proof.
  apply (right_limit_of_continuity cuboidal_eqRadius). apply (continuity_of_ex_derive cuboidal_eqRadius 1). unfold cuboidal_eqRadius, cbrt.
  assert (P := PI_RGT_0). auto_derive.
  repeat match goal with |- _ /\ _ => split end; try lra; try exact I.
  apply ex_derive_Rpower. apply Rmult_lt_0_compat; [lra|apply Rinv_0_lt_compat; lra].
Qed.
Lemma cuboidal_thermo_limit : right_limit_at_one cuboidal_thermo (cuboidal_thermo 1).
Proof.
  apply (right_limit_of_continuity cuboidal_thermo). apply (continuity_of_ex_derive cuboidal_thermo 1). unfold cuboidal_thermo.
  assert (P := PI_RGT_0). auto_derive.
  repeat match goal with |- _ /\ _ => split end; try lra; try exact I.
  apply ex_derive_Rpower. apply Rmult_lt_0_compat; [lra|apply Rinv_0_lt_compat; lra].
Qed.

(* the fitted cuboidal kinetic factor: 0.1 exp(-0.091 (ar - 1)) -> 0.1 and
   sqrt(ar^2 - 1) / ln (2 ar^2 + 2 ar sqrt(ar^2 - 1) - 1) -> 1/2 (it is sinh u / (2 u) with ar = cosh u) *)
Lemma cuboidal_kinetic_bounds ar : 1 < ar < 2 ->
  Rabs (cuboidal_kinetic ar - (1 / 10 + 217 / 125 / 2)) <= 1 * (ar - 1) + 217 / 125 * sqrt (ar - 1).
Proof.
  intros H. set (t := ar - 1). assert (Ht : 0 < t < 1) by (unfold t; lra).
  set (s := sqrt t). assert (Hs0 : 0 < s) by (apply sqrt_lt_R0; lra).
  assert (Hss : s * s = t) by (apply sqrt_sqrt; lra).
  assert (Hs1 : s < 1) by nra.
  set (sq := sqrt (ar ^ 2 - 1)).
  assert (Hq0 : 0 < sq) by (apply sqrt_lt_R0; nra).
  assert (Hqq : sq * sq = ar ^ 2 - 1) by (apply sqrt_sqrt; nra).
  assert (Hqt : sq * sq = t * t + 2 * t) by (rewrite Hqq; unfold t; ring).
  assert (Hq_ge : s <= sq) by nra.
  assert (Hq_le : sq <= 2 * s) by nra.
  set (w := ar + sq - 1). assert (Hw : 0 < w) by (unfold w; lra).
  assert (HZ : ln (2 * ar ^ 2 + 2 * ar * sq - 1) = 2 * ln (1 + w)).
  { replace (2 * ar ^ 2 + 2 * ar * sq - 1) with ((1 + w) ^ 2) by (unfold w; nra). apply ln_sqr. lra. }
  assert (Hl1 := ln1p_lt w Hw). assert (Hl2 := ln1p_gt w Hw).
  set (Z := 2 * ln (1 + w)) in *. assert (HZ0 : 0 < Z) by (unfold Z; assert (0 < w / (1 + w)) by (apply Rdiv_lt_0_compat; lra); lra).
  (* sq / Z between (1 - s)/2 and 1/2 + s + t/2 *)
  assert (Hr : (1 - s) / 2 <= sq / Z <= 1 / 2 + s + t / 2).
  { assert (Hwe : w = sq + t) by (unfold w, t; ring). split.
    - apply (Rmult_le_reg_r Z); [exact HZ0|]. replace (sq / Z * Z) with sq by (field; lra).
      apply Rle_trans with ((1 - s) / 2 * (2 * w)); [apply Rmult_le_compat_l; [lra|unfold Z; lra]|].
      rewrite Hwe. nra.
    - apply (Rmult_le_reg_r Z); [exact HZ0|]. replace (sq / Z * Z) with sq by (field; lra).
      apply Rle_trans with ((1 / 2 + s + t / 2) * (2 * (w / (1 + w)))); [|apply Rmult_le_compat_l; [lra|unfold Z; lra]].
      apply (Rmult_le_reg_r (1 + w)); [lra|].
      replace ((1 / 2 + s + t / 2) * (2 * (w / (1 + w))) * (1 + w)) with ((1 + 2 * s + t) * w) by (field; lra).
      rewrite Hwe. nra. }
  assert (Hc1 := cbrt_ge_1 ar ltac:(lra)). assert (Hc2 := cbrt_le_self ar ltac:(lra)).
  set (c := cbrt ar) in *.
  (* the exponential *)
  set (y := 91 / 1000 * t). assert (Hy : 0 < y) by (unfold y; lra).
  assert (He1 : exp (- y) <= 1) by (rewrite <- exp_0; left; apply exp_increasing; lra).
  assert (He2 : 1 - y <= exp (- y)) by (left; replace (1 - y) with (1 + - y) by ring; apply exp_ineq1; lra).
  unfold cuboidal_kinetic. fold sq. rewrite HZ. fold Z. fold c.
  replace (- (91 / 1000) * (ar - 1)) with (- y) by (unfold y, t; ring).
  set (r := sq / Z) in *.
  replace (217 / 125 * sq / (c * Z)) with (217 / 125 * (r / c)) by (unfold r; field; split; lra).
  assert (Hrc : (1 - s) / 2 * (1 - t) <= r / c <= 1 / 2 + s + t / 2).
  { split.
    - apply (Rmult_le_reg_r c); [lra|]. replace (r / c * c) with r by (field; lra).
      apply Rle_trans with ((1 - s) / 2); [|lra].
      assert (I1 := inv_ge ar ltac:(lra)). fold t in I1.
      assert ((1 - t) * c <= 1); [|nra].
      apply Rle_trans with ((1 - t) * ar); [|unfold t; nra].
      destruct (Rle_or_lt 0 (1 - t)); [apply Rmult_le_compat_l; lra|nra].
    - apply (Rmult_le_reg_r c); [lra|]. replace (r / c * c) with r by (field; lra). nra. }
  fold t. fold s. set (q := r / c) in *. set (E := exp (- y)) in *.
  assert (Hst : 0 <= s * t) by (apply Rmult_le_pos; lra).
  assert (Hq1 : (1 - s - t) / 2 <= q) by (destruct Hrc as [Hrc _]; nra).
  assert (Hyt : y = 91 / 1000 * t) by reflexivity.
  clearbody q E y. destruct Hrc as [_ Hq2]. apply Rabs_le. split; lra.
Qed.

Lemma cuboidal_kinetic_limit : right_limit_at_one cuboidal_kinetic (1 / 10 + 217 / 125 / 2).
Proof.
  apply (right_limit_of_bound _ _ 1 (217 / 125) 1); try lra.
  intros x Hx. apply cuboidal_kinetic_bounds. lra.
Qed.

(* every factor of every shape is continuous at aspect ratio 1 *)
Lemma continuous_at_one_all :
  forall d, In d (Sphere :: Needle :: Plate :: Cuboidal :: nil) ->
  continuity_pt (eqRadiusFactor d) 1 /\ continuity_pt (kineticFactor d) 1 /\ continuity_pt (thermoFactor d) 1.
Proof.
  intros d Hd. unfold eqRadiusFactor, kineticFactor, thermoFactor.
  destruct Hd as [<-|[<-|[<-|[<-|[]]]]]; cbn [eqMin kinMin thMin eqRaw kinRaw thRaw Sphere Needle Plate Cuboidal];
    repeat split; apply wrapper_continuous_at_one.
  - apply right_limit_const.
  - apply right_limit_const.
  - apply right_limit_const.
  - apply needle_eqRadius_limit.
  - apply needle_kinetic_limit.
  - apply needle_thermo_limit.
  - apply plate_eqRadius_limit.
  - apply plate_kinetic_limit.
  - apply plate_thermo_limit.
  - apply cuboidal_eqRadius_limit.
  - apply cuboidal_kinetic_limit.
  - apply cuboidal_thermo_limit.
Qed.
