(* C05 - the clock of DESolver.solve on IEEE binary64 (Coq's primitive floats).
   Primitive float operations are linked to their specification by Flocq (IEEE754.PrimFloat), which
   rests on the FloatAxioms of the standard library; rounding facts come from Flocq.Core. *)
From Coq Require Import Reals ZArith Lra Lia Bool List Sorted.
From Flocq Require Import Core.Core IEEE754.BinarySingleNaN IEEE754.PrimFloat.
From Coq Require Import Floats.
Require Import Kawin.Common.Ops Kawin.C05.Model Kawin.C05.Proofs.
Import ListNotations.
Local Existing Instance Hprec.
Local Existing Instance Hmax.
Open Scope R_scope.
Definition fin (x : float) : Prop := BinarySingleNaN.is_finite (Prim2B x) = true.
Definition val (x : float) : R := B2R (Prim2B x).
Definition rnd (r : R) : R := round radix2 (fexp prec emax) ZnearestE r.
Lemma rnd_le a b : a <= b -> rnd a <= rnd b.
Proof. intros. unfold rnd. apply round_le; auto. apply (fexp_correct prec emax Hprec). apply valid_rnd_N. Qed.
Lemma rnd_val x : rnd (val x) = val x.
Proof. unfold rnd, val. apply round_generic; [apply valid_rnd_N|apply generic_format_B2R]. Qed.

Lemma fin_spec x : fin x <-> PrimFloat.is_finite x = true.
Proof. unfold fin. rewrite is_finite_equiv. tauto. Qed.

Lemma ltb_val x y : fin x -> fin y -> (PrimFloat.ltb x y = true <-> val x < val y).
Proof.
  intros Hx Hy. rewrite ltb_equiv, (Bltb_correct _ _ _ _ Hx Hy). unfold val.
  destruct (Rlt_bool_spec (B2R (Prim2B x)) (B2R (Prim2B y))); split; intros; auto; try discriminate; lra.
Qed.
Lemma ltb_val_false x y : fin x -> fin y -> (PrimFloat.ltb x y = false <-> val y <= val x).
Proof.
  intros Hx Hy. rewrite ltb_equiv, (Bltb_correct _ _ _ _ Hx Hy). unfold val.
  destruct (Rlt_bool_spec (B2R (Prim2B x)) (B2R (Prim2B y))); split; intros; auto; try discriminate; lra.
Qed.
Lemma leb_val x y : fin x -> fin y -> (PrimFloat.leb x y = true <-> val x <= val y).
Proof.
  intros Hx Hy. rewrite leb_equiv, (Bleb_correct _ _ _ _ Hx Hy). unfold val.
  destruct (Rle_bool_spec (B2R (Prim2B x)) (B2R (Prim2B y))); split; intros; auto; try discriminate; lra.
Qed.
Lemma leb_val_false x y : fin x -> fin y -> (PrimFloat.leb x y = false <-> val y < val x).
Proof.
  intros Hx Hy. rewrite leb_equiv, (Bleb_correct _ _ _ _ Hx Hy). unfold val.
  destruct (Rle_bool_spec (B2R (Prim2B x)) (B2R (Prim2B y))); split; intros; auto; try discriminate; lra.
Qed.
Lemma eqb_val x y : fin x -> fin y -> (PrimFloat.eqb x y = true <-> val x = val y).
Proof.
  intros Hx Hy. rewrite eqb_equiv, (Beqb_correct _ _ _ _ Hx Hy). unfold val.
  destruct (Req_bool_spec (B2R (Prim2B x)) (B2R (Prim2B y))); split; intros; auto; try discriminate; lra.
Qed.

(* a comparison that succeeds against a finite number: the other side is finite too, or the
   infinity of the matching sign *)
Lemma ltb_left_fin x p : fin x -> PrimFloat.ltb x p = true -> fin p \/ Prim2B p = B754_infinity false.
Proof.
  unfold fin. rewrite ltb_equiv. unfold Bltb. destruct (Prim2B x) as [sx|sx| |sx mx ex Hx], (Prim2B p) as [sp|[|]| |sp mp ep Hp];
    simpl; intros; auto; try discriminate.
  all: destruct sx; discriminate.
Qed.
Lemma ltb_right_fin p y : fin y -> PrimFloat.ltb p y = true -> fin p \/ Prim2B p = B754_infinity true.
Proof.
  unfold fin. rewrite ltb_equiv. unfold Bltb. destruct (Prim2B y) as [sx|sx| |sx mx ex Hx], (Prim2B p) as [sp|[|]| |sp mp ep Hp];
    simpl; intros; auto; try discriminate.
  all: destruct sx; discriminate.
Qed.

(* no overflow when the exact result lies between two reals whose roundings do not overflow *)
Definition small (r : R) : Prop := Rabs (rnd r) < bpow radix2 emax.
Lemma small_val x : small (val x).
Proof. unfold small. rewrite rnd_val. apply abs_B2R_lt_emax. Qed.
Lemma rnd_0 : rnd 0 = 0.
Proof. unfold rnd. apply round_0. apply valid_rnd_N. Qed.
Lemma small_0 : small 0.
Proof. unfold small. rewrite rnd_0, Rabs_R0. apply bpow_gt_0. Qed.

Lemma between_no_overflow ra rb r : ra <= r <= rb -> small ra -> small rb ->
  rnd ra <= rnd r <= rnd rb /\ Rlt_bool (Rabs (rnd r)) (bpow radix2 emax) = true.
Proof.
  intros [H1 H2] Sa Sb. assert (Ha := rnd_le _ _ H1). assert (Hb := rnd_le _ _ H2).
  split; [lra|]. apply Rlt_bool_true. unfold small in *. revert Sa Sb. unfold Rabs. repeat destruct Rcase_abs; intros; lra.
Qed.

Lemma add_val ra rb x y : fin x -> fin y -> ra <= val x + val y <= rb -> small ra -> small rb ->
  fin (x + y)%float /\ val (x + y)%float = rnd (val x + val y) /\ rnd ra <= val (x + y)%float <= rnd rb.
Proof.
  intros Hx Hy Hb Sa Sb. destruct (between_no_overflow ra rb _ Hb Sa Sb) as [Hr Ho].
  unfold fin, val in *. rewrite add_equiv.
  generalize (Bplus_correct _ _ Hprec Hmax mode_NE _ _ Hx Hy). simpl round_mode.
  unfold rnd in Ho. rewrite Ho. intros (H1 & H2 & _). rewrite H1. split; auto.
Qed.
Lemma sub_val ra rb x y : fin x -> fin y -> ra <= val x - val y <= rb -> small ra -> small rb ->
  fin (x - y)%float /\ val (x - y)%float = rnd (val x - val y) /\ rnd ra <= val (x - y)%float <= rnd rb.
Proof.
  intros Hx Hy Hb Sa Sb. destruct (between_no_overflow ra rb _ Hb Sa Sb) as [Hr Ho].
  unfold fin, val in *. rewrite sub_equiv.
  generalize (Bminus_correct _ _ Hprec Hmax mode_NE _ _ Hx Hy). simpl round_mode.
  unfold rnd in Ho. rewrite Ho. intros (H1 & H2 & _). rewrite H1. split; auto.
Qed.
(* a finite difference did not overflow *)
Lemma sub_fin_small x y : fin x -> fin y -> fin (x - y)%float ->
  small (val x - val y) /\ val (x - y)%float = rnd (val x - val y).
Proof.
  intros Hx Hy. unfold fin, val, small in *. rewrite sub_equiv.
  generalize (Bminus_correct _ _ Hprec Hmax mode_NE _ _ Hx Hy). simpl round_mode.
  fold (rnd (B2R (Prim2B x) - B2R (Prim2B y))).
  destruct (Rlt_bool_spec (Rabs (rnd (B2R (Prim2B x) - B2R (Prim2B y)))) (bpow radix2 emax)) as [Hlt|Hge].
  - intros (Ha & _) _. auto.
  - intros (Ha & _) Hf. exfalso. unfold binary_overflow in Ha. simpl in Ha.
    destruct (Bminus mode_NE (Prim2B x) (Prim2B y)); simpl in *; discriminate.
Qed.
Lemma val_zero : fin 0%float /\ val 0%float = 0.
Proof. change 0%float with PrimFloat.zero. unfold fin, val. rewrite zero_equiv, Prim2B_B2Prim. simpl. auto. Qed.

Ltac Fnorm := cbn [T zero one add sub mul dvd ltb leb eqb ofZ F64ops] in *.

(* ---- the clamp and the register on binary64 ------------------------------------------------- *)
(* whatever the proposal (finite, infinite, NaN): the accepted step is the upper bound, or a finite
   number between the lower bound and the upper bound *)
Lemma clamp_f64 p lo hi : fin lo -> fin hi ->
  clamp F64ops p lo hi = hi \/
  (fin (clamp F64ops p lo hi) /\ val lo <= val (clamp F64ops p lo hi) /\ val (clamp F64ops p lo hi) < val hi).
Proof.
  intros Hlo Hhi. unfold clamp. Fnorm.
  destruct (PrimFloat.ltb lo p) eqn:E1.
  - destruct (PrimFloat.ltb p hi) eqn:E2; [right|left; auto].
    assert (Fp : fin p).
    { destruct (ltb_left_fin _ _ Hlo E1) as [F|I]; auto. destruct (ltb_right_fin _ _ Hhi E2) as [F'|I']; auto. congruence. }
    apply ltb_val in E1; auto. apply ltb_val in E2; auto. repeat split; auto; lra.
  - destruct (PrimFloat.ltb lo hi) eqn:E2; [right|left; auto].
    apply ltb_val in E2; auto. repeat split; auto; lra.
Qed.

Lemma shrink_f64 dtmax rem : fin dtmax -> fin rem ->
  let d := shrink F64ops dtmax rem in
  fin d /\ val d <= val rem /\ val d <= val dtmax /\ (d = rem \/ (d = dtmax /\ val dtmax <= val rem)).
Proof.
  intros Hd Hr. unfold shrink. Fnorm. destruct (PrimFloat.ltb rem dtmax) eqn:E.
  - apply ltb_val in E; auto. repeat split; auto; lra.
  - apply ltb_val_false in E; auto. repeat split; auto; lra.
Qed.

(* ---- one iteration, repaired line 215 --------------------------------------------------------- *)
Section Run64.
Variables (propose : nat -> float) (stop : nat -> bool) (t0 tf dtmin dtmax0 : float).
Hypothesis Ft0 : fin t0.
Hypothesis Ftf : fin tf.
Hypothesis Fdelta : fin (tf - t0)%float.          (* the duration does not overflow *)
Hypothesis Fmin : fin dtmin.
Hypothesis Hmin0 : 0 <= val dtmin.
Hypothesis Fmax : fin dtmax0.
Hypothesis Hmax0 : 0 <= val dtmax0.

Definition inv64 (t dtmax : float) : Prop :=
  fin t /\ val t0 <= val t /\ fin dtmax /\ 0 <= val dtmax <= val dtmax0.

Lemma rem_f64 t : fin t -> val t0 <= val t -> val t < val tf ->
  fin (tf - t)%float /\ val (tf - t)%float = rnd (val tf - val t) /\ 0 <= val (tf - t)%float.
Proof.
  intros Ft H0 H1. destruct (sub_fin_small tf t0 Ftf Ft0 Fdelta) as [Sd _].
  destruct (sub_val 0 (val tf - val t0) tf t Ftf Ft ltac:(lra) small_0 Sd) as (Ha & Hb & Hc & _).
  rewrite rnd_0 in Hc. auto.
Qed.

(* the step: the new time is finite, not before the old one and not after the end time *)
Lemma step_f64 t dtmax p : inv64 t dtmax -> PrimFloat.ltb t tf = true ->
  let rem := sub F64ops tf t in
  let dtmax' := shrink F64ops dtmax rem in
  let dt := clamp F64ops p dtmin dtmax' in
  let t' := advance F64ops true t tf dt in
  inv64 t' dtmax' /\ val t <= val t' <= val tf /\ fin dt /\ 0 <= val dt <= val dtmax0 /\
  (t' = tf \/ (val dt < val rem /\ t' = (t + dt)%float)).
Proof.
  intros (Ft & Ht0 & Fd & Hd0 & Hd1) Hlt rem dtmax' dt t'.
  apply ltb_val in Hlt; auto.
  destruct (rem_f64 t Ft Ht0 Hlt) as (Fr & Vr & Pr). change (tf - t)%float with rem in Fr, Vr, Pr.
  destruct (shrink_f64 dtmax rem Fd Fr) as (Fd' & Hs1 & Hs2 & Hs3). fold dtmax' in Fd', Hs1, Hs2, Hs3.
  assert (Pd' : 0 <= val dtmax') by (destruct Hs3 as [E|[E _]]; rewrite E; lra).
  assert (Hdt : fin dt /\ 0 <= val dt <= val dtmax').
  { pose proof (clamp_f64 p dtmin dtmax' Fmin Fd') as Hc. change (clamp F64ops p dtmin dtmax') with dt in Hc.
    destruct Hc as [E|(Fc & Hc1 & Hc2)].
    - rewrite E. split; auto. lra.
    - split; auto. lra. }
  destruct Hdt as (Fdt & Hdt0 & Hdt1).
  unfold t', advance. Fnorm. fold rem.
  destruct (PrimFloat.leb rem dt) eqn:E.
  - (* the step covers the remaining time: land on tf *)
    repeat split; auto; try lra.
  - apply leb_val_false in E; auto.
    assert (Hle : val dt <= val tf - val t).
    { destruct (Rle_or_lt (val dt) (val tf - val t)) as [|Hgt]; auto.
      exfalso. assert (Hm := rnd_le _ _ (Rlt_le _ _ Hgt)). rewrite rnd_val, <- Vr in Hm. lra. }
    destruct (add_val (val t) (val tf) t dt Ft Fdt ltac:(lra) (small_val t) (small_val tf)) as (Fa & Va & Ba).
    rewrite !rnd_val in Ba.
    repeat split; auto; try lra.
Qed.

Fixpoint fchain (t : float) (l : list (float * float)) : Prop :=
  match l with
  | [] => True
  | (t', dt) :: r => fin t' /\ val t <= val t' <= val tf /\ fin dt /\ 0 <= val dt <= val dtmax0 /\ fchain t' r
  end.

Lemma loop_fchain : forall fuel k t dtmax, inv64 t dtmax ->
  fchain t (pairs F64ops (loop F64ops true propose stop tf dtmin fuel k t dtmax)).
Proof.
  induction fuel as [|f IH]; intros k t dtmax Hinv; [simpl; auto|].
  cbn [loop]. Fnorm. destruct (PrimFloat.ltb t tf) eqn:Elt; [|simpl; auto].
  pose proof (step_f64 t dtmax (propose k) Hinv Elt) as Hs. cbv zeta in Hs. Fnorm.
  destruct Hs as (H1 & H2 & H3 & H4 & H5).
  assert (Ft' := H1). destruct Ft' as (Ft' & _).
  destruct (stop k).
  - cbn [pairs fchain]. repeat split; auto; lra.
  - rewrite pairs_rcons. cbn [fchain]. repeat split; auto; try lra.
Qed.

Lemma fchain_le : forall l t, fchain t l -> Forall (fun x => PrimFloat.leb x tf = true) (map fst l).
Proof.
  induction l as [|[t' dt] l IH]; intros t H; simpl; constructor.
  - destruct H as (H1 & H2 & _). simpl. apply leb_val; auto. lra.
  - destruct H as (_ & _ & _ & _ & H). eapply IH; eauto.
Qed.

Lemma fchain_sorted : forall l t, fin t -> fchain t l -> Sorted (fun a b => PrimFloat.leb a b = true) (t :: map fst l).
Proof.
  induction l as [|[t' dt] l IH]; intros t Ft H; simpl.
  - repeat constructor.
  - destruct H as (H1 & H2 & H3 & H4 & H5). constructor; [apply IH; auto|constructor]. apply leb_val; auto. lra.
Qed.

Lemma fchain_last : forall l t, fin t -> val t <= val tf -> fchain t l ->
  fin (last (map fst l) t) /\ val (last (map fst l) t) <= val tf.
Proof.
  induction l as [|[t' dt] l IH]; intros t Ft Ht H; [simpl; auto|].
  cbn [map fst]. rewrite last_cons. destruct H as (H1 & H2 & H3 & H4 & H5). apply IH; auto. lra.
Qed.

Lemma fchain_steps : forall l t, fchain t l ->
  Forall (fun d => PrimFloat.leb 0 d = true /\ PrimFloat.leb d dtmax0 = true) (map snd l).
Proof.
  destruct val_zero as [Fz Vz].
  induction l as [|[t' dt] l IH]; intros t H; simpl; constructor.
  - destruct H as (H1 & H2 & H3 & H4 & H5). simpl. split; apply leb_val; auto; lra.
  - destruct H as (_ & _ & _ & _ & H). eapply IH; eauto.
Qed.

(* ---- strict increase and the minimum step need the minimum step to be resolvable ------------- *)
Section Strict.
Hypothesis Hpos : 0 < val dtmin.
Hypothesis Hminmax : val dtmin <= val dtmax0.
(* adding dtmin to any time of the interval gives a larger binary64 number (no absorption) *)
Hypothesis Hres : forall t, fin t -> val t0 <= val t -> val t < val tf -> val t < rnd (val t + val dtmin).

Definition inv2 (t dtmax : float) : Prop := dtmax = dtmax0 \/ rnd (val tf - val t) <= val dtmax.

Lemma step2_f64 t dtmax p : inv64 t dtmax -> inv2 t dtmax -> PrimFloat.ltb t tf = true ->
  let rem := sub F64ops tf t in
  let dtmax' := shrink F64ops dtmax rem in
  let dt := clamp F64ops p dtmin dtmax' in
  let t' := advance F64ops true t tf dt in
  inv2 t' dtmax' /\ val t < val t' /\ (t' = tf \/ val dtmin <= val dt).
Proof.
  intros Hinv Hi2 Hlt rem dtmax' dt t'.
  pose proof (step_f64 t dtmax p Hinv Hlt) as Hs. cbv zeta in Hs.
  change (sub F64ops tf t) with rem in Hs. change (shrink F64ops dtmax rem) with dtmax' in Hs.
  change (clamp F64ops p dtmin dtmax') with dt in Hs. change (advance F64ops true t tf dt) with t' in Hs.
  destruct Hs as (Hinv' & Hmono & Fdt & Hdt & Hcase).
  destruct Hinv as (Ft & Ht0 & Fd & Hd0 & Hd1).
  apply ltb_val in Hlt; auto.
  destruct (rem_f64 t Ft Ht0 Hlt) as (Fr & Vr & Pr). change (tf - t)%float with rem in Fr, Vr, Pr.
  destruct (shrink_f64 dtmax rem Fd Fr) as (Fd' & Hs1 & Hs2 & Hs3). change (shrink F64ops dtmax rem) with dtmax' in Fd', Hs1, Hs2, Hs3.
  pose proof (clamp_f64 p dtmin dtmax' Fmin Fd') as Hc. change (clamp F64ops p dtmin dtmax') with dt in Hc.
  destruct Hcase as [Etf|[Hlt' Eadd]].
  - (* landed on tf *)
    split; [|split; [rewrite Etf; lra|left; auto]].
    right. rewrite Etf. replace (val tf - val tf) with 0 by lra. rewrite rnd_0.
    destruct Hs3 as [E|[E _]]; rewrite E; lra.
  - assert (Hdmin : val dtmin <= val dt).
    { destruct Hc as [E|(_ & Hc1 & _)]; auto. rewrite E in *.
      destruct Hs3 as [E2|[E2 Hle]]; [rewrite E2 in Hlt'; lra|]. rewrite E2 in *.
      destruct Hi2 as [E3|Hle2]; [rewrite E3; lra|]. rewrite <- Vr in Hle2. lra. }
    assert (Hstrict : val t < val t').
    { destruct Hinv' as (Ft' & _). rewrite Eadd.
      assert (Hle : val dt <= val tf - val t).
      { destruct (Rle_or_lt (val dt) (val tf - val t)) as [|Hgt]; auto.
        exfalso. assert (Hm := rnd_le _ _ (Rlt_le _ _ Hgt)). rewrite rnd_val, <- Vr in Hm. lra. }
      destruct (add_val (val t) (val tf) t dt Ft Fdt ltac:(lra) (small_val t) (small_val tf)) as (_ & Va & _).
      rewrite Va. eapply Rlt_le_trans; [apply (Hres t Ft Ht0 Hlt)|]. apply rnd_le. lra. }
    split; [|split; [auto|right; auto]].
    assert (Hr' : rnd (val tf - val t') <= val rem) by (rewrite Vr; apply rnd_le; lra).
    destruct Hs3 as [E|[E Hle]].
    + right. rewrite E. auto.
    + destruct Hi2 as [E3|Hle2]; [left; congruence|]. right. rewrite E. rewrite <- Vr in Hle2. lra.
Qed.

Fixpoint fchain2 (t : float) (l : list (float * float)) : Prop :=
  match l with
  | [] => True
  | (t', dt) :: r => val t < val t' /\ (t' = tf \/ val dtmin <= val dt) /\ fchain2 t' r
  end.

Lemma loop_fchain2 : forall fuel k t dtmax, inv64 t dtmax -> inv2 t dtmax ->
  fchain2 t (pairs F64ops (loop F64ops true propose stop tf dtmin fuel k t dtmax)).
Proof.
  induction fuel as [|f IH]; intros k t dtmax Hinv Hi2; [simpl; auto|].
  cbn [loop]. Fnorm. destruct (PrimFloat.ltb t tf) eqn:Elt; [|simpl; auto].
  pose proof (step_f64 t dtmax (propose k) Hinv Elt) as Hs. cbv zeta in Hs.
  pose proof (step2_f64 t dtmax (propose k) Hinv Hi2 Elt) as Hs2. cbv zeta in Hs2. Fnorm.
  destruct Hs as (H1 & _). destruct Hs2 as (G1 & G2 & G3).
  destruct (stop k).
  - cbn [pairs fchain2]. repeat split; auto.
  - rewrite pairs_rcons. cbn [fchain2]. repeat split; auto.
Qed.

Lemma fchain2_sorted : forall l t, fin t -> fchain t l -> fchain2 t l ->
  Sorted (fun a b => PrimFloat.ltb a b = true) (t :: map fst l).
Proof.
  induction l as [|[t' dt] l IH]; intros t Ft H H2; simpl.
  - repeat constructor.
  - destruct H as (H1 & _ & _ & _ & H5). destruct H2 as (G1 & _ & G3).
    constructor; [apply IH; auto|constructor]. apply ltb_val; auto.
Qed.

Lemma fchain2_min : forall l t, fchain t l -> fchain2 t l ->
  Forall (fun p => fst p = tf \/ PrimFloat.leb dtmin (snd p) = true) l.
Proof.
  induction l as [|[t' dt] l IH]; intros t H H2; constructor.
  - destruct H as (_ & _ & H3 & _). destruct H2 as (_ & [G|G] & _); [left; auto|right]. simpl. apply leb_val; auto.
  - destruct H as (_ & _ & _ & _ & H5). destruct H2 as (_ & _ & G3). eapply IH; eauto.
Qed.
End Strict.
End Run64.

(* ---- the binary64 time contract of the repaired DESolver.solve ---------------------------------- *)
Lemma leb0_val x : PrimFloat.is_finite x = true -> PrimFloat.leb 0 x = true -> fin x /\ 0 <= val x.
Proof.
  intros Hf Hl. apply fin_spec in Hf. destruct val_zero as [Fz Vz]. split; auto.
  apply leb_val in Hl; auto; try lra.
Qed.

Lemma f64_contract propose stop fuel t0 tf fmin fmax :
  let dtmin := (fmin * (tf - t0))%float in
  let dtmax := (fmax * (tf - t0))%float in
  let r := solveTo F64ops true propose stop fuel t0 tf fmin fmax in
  let ts := times F64ops r in
  PrimFloat.is_finite t0 = true -> PrimFloat.is_finite tf = true -> PrimFloat.leb t0 tf = true ->
  PrimFloat.is_finite (tf - t0)%float = true ->
  PrimFloat.is_finite dtmin = true -> PrimFloat.leb 0 dtmin = true ->
  PrimFloat.is_finite dtmax = true -> PrimFloat.leb 0 dtmax = true ->
  Forall (fun t => PrimFloat.leb t tf = true) ts /\
  Sorted (fun a b => PrimFloat.leb a b = true) (t0 :: ts) /\
  Forall (fun d => PrimFloat.leb 0 d = true /\ PrimFloat.leb d dtmax = true) (steps F64ops r) /\
  (finished F64ops r = true ->
   match first_true stop (length ts) with
   | Some j => length ts = S j
   | None => PrimFloat.eqb (last ts t0) tf = true
   end).
Proof.
  intros dtmin dtmax r ts F0 Ff Hle Fd Fmin Pmin Fmax Pmax.
  apply fin_spec in F0, Ff, Fd.
  destruct (leb0_val _ Fmin Pmin) as [Fmin' Pmin']. destruct (leb0_val _ Fmax Pmax) as [Fmax' Pmax'].
  apply leb_val in Hle; auto.
  assert (Hinv : inv64 t0 dtmax t0 dtmax) by (repeat split; auto; lra).
  pose proof (loop_fchain propose stop t0 tf dtmin dtmax F0 Ff Fd Fmin' Pmin' fuel 0%nat t0 dtmax Hinv) as Hch.
  unfold ts, times, steps, r, solveTo. Fnorm. fold dtmin dtmax.
  set (run := loop F64ops true propose stop tf dtmin fuel 0 t0 dtmax) in *.
  split; [eapply fchain_le; eauto|]. split; [eapply fchain_sorted; eauto|].
  split; [eapply fchain_steps; eauto|].
  intros Hfin. rewrite map_length. destruct run as [l|l] eqn:El; [|discriminate]. simpl pairs in *.
  pose proof (loop_stops F64ops _ _ _ _ _ _ _ _ _ _ El) as Hs. unfold first_true. Fnorm.
  destruct (first_true_from stop 0 (length l)); [simpl in Hs; lia|].
  destruct (fchain_last tf dtmax l t0 F0 Hle Hch) as [Fl Vl].
  apply ltb_val_false in Hs; auto. apply eqb_val; auto. lra.
Qed.

Lemma f64_strict propose stop fuel t0 tf fmin fmax :
  let dtmin := (fmin * (tf - t0))%float in
  let dtmax := (fmax * (tf - t0))%float in
  let r := solveTo F64ops true propose stop fuel t0 tf fmin fmax in
  PrimFloat.is_finite t0 = true -> PrimFloat.is_finite tf = true ->
  PrimFloat.is_finite (tf - t0)%float = true ->
  PrimFloat.is_finite dtmin = true -> PrimFloat.ltb 0 dtmin = true ->
  PrimFloat.is_finite dtmax = true -> PrimFloat.leb dtmin dtmax = true ->
  (forall t, PrimFloat.is_finite t = true -> PrimFloat.leb t0 t = true -> PrimFloat.ltb t tf = true ->
             PrimFloat.ltb t (t + dtmin) = true) ->
  Sorted (fun a b => PrimFloat.ltb a b = true) (t0 :: times F64ops r) /\
  Forall (fun p => fst p = tf \/ PrimFloat.leb dtmin (snd p) = true) (pairs F64ops r).
Proof.
  intros dtmin dtmax r F0 Ff Fd Fmin Pmin Fmax Hmm Hres.
  apply fin_spec in F0, Ff, Fd, Fmin, Fmax. destruct val_zero as [Fz Vz].
  apply ltb_val in Pmin; auto. rewrite Vz in Pmin. apply leb_val in Hmm; auto.
  assert (Hinv : inv64 t0 dtmax t0 dtmax) by (repeat split; auto; lra).
  assert (Hres' : forall t, fin t -> val t0 <= val t -> val t < val tf -> val t < rnd (val t + val dtmin)).
  { intros t Ft H0 H1. assert (Hl : PrimFloat.ltb t (t + dtmin) = true).
    { apply Hres; [apply fin_spec; auto|apply leb_val; auto|apply ltb_val; auto]. }
    assert (Hge : val t <= rnd (val t + val dtmin)) by (rewrite <- (rnd_val t) at 1; apply rnd_le; lra).
    destruct (Req_dec (rnd (val t + val dtmin)) (val t)) as [E|N]; [exfalso|lra].
    assert (Sm : small (val t + val dtmin)) by (unfold small; rewrite E; apply abs_B2R_lt_emax).
    destruct (add_val _ _ t dtmin Ft Fmin (conj (Rle_refl _) (Rle_refl _)) Sm Sm) as (Fa & Va & _).
    apply ltb_val in Hl; auto. lra. }
  assert (Pmin0 : 0 <= val dtmin) by lra.
  pose proof (loop_fchain propose stop t0 tf dtmin dtmax F0 Ff Fd Fmin Pmin0 fuel 0%nat t0 dtmax Hinv) as Hch.
  assert (Hi2 : inv2 tf dtmax t0 dtmax) by (left; auto).
  pose proof (loop_fchain2 propose stop t0 tf dtmin dtmax F0 Ff Fd Fmin Pmin0 Hmm Hres' fuel 0%nat t0 dtmax Hinv Hi2) as Hch2.
  unfold times, r, solveTo. Fnorm. fold dtmin dtmax.
  split; [eapply fchain2_sorted; eauto|eapply fchain2_min; eauto].
Qed.

(* ---- absorption: when adding the clamped step to the current time gives the current time back, the
   loop makes no progress, whatever the step budget (no float axiom involved: plain unfolding) ---- *)
Lemma absorbed_loop propose stop tf dtmin t dm :
  PrimFloat.ltb t tf = true -> (forall k, stop k = false) ->
  shrink F64ops dm (tf - t)%float = dm ->
  (forall k, advance F64ops true t tf (clamp F64ops (propose k) dtmin dm) = t) ->
  forall fuel k, exists l, loop F64ops true propose stop tf dtmin fuel k t dm = NoFuel l /\
                           length l = fuel /\ Forall (fun p => fst p = t) l.
Proof.
  intros Hlt Hstop Hsh Hadv. induction fuel as [|f IH]; intros k.
  - exists []. simpl. auto.
  - cbn [loop]. Fnorm. rewrite Hlt, Hstop, Hsh, Hadv.
    destruct (IH (S k)) as (l & H1 & H2 & H3). rewrite H1. simpl.
    eexists. split; [reflexivity|]. simpl. split; [congruence|]. constructor; auto.
Qed.

(* solveTo in terms of loop, for concrete instances *)
Lemma solveTo_unfold snap propose stop fuel t0 tf fmin fmax :
  solveTo F64ops snap propose stop fuel t0 tf fmin fmax =
  loop F64ops snap propose stop tf (fmin * (tf - t0))%float fuel 0 t0 (fmax * (tf - t0))%float.
Proof. reflexivity. Qed.

(* ---- concrete witnesses (evaluated by the kernel's binary64 arithmetic) --------------------------- *)
Open Scope float_scope.
Lemma overshoot_witness :
  exists props t0 simTime,
    let r := solve F64ops false (script props infinity) (fun _ => false) 10 t0 simTime 0x1p-27 1 in
    finished F64ops r = true /\ (t0 + simTime <? last (times F64ops r) t0) = true.
Proof.
  exists [0x1.eb851eb851eb8p-6]. exists 0. exists 0x1.3333333333333p-2.
  vm_compute. split; reflexivity.
Qed.

Lemma absorption_witness : forall fuel,
  exists l, solve F64ops true (fun _ => 0) (fun _ => false) fuel 0x1.dcd65p+29 1 0x1.5798ee2308c3ap-27 1 = NoFuel l /\
            length l = fuel /\ Forall (fun p => fst p = 0x1.dcd65p+29) l.
Proof.
  intros fuel. unfold solve. rewrite solveTo_unfold.
  apply absorbed_loop; [vm_compute; reflexivity|auto|vm_compute; reflexivity|intros; vm_compute; reflexivity].
Qed.
Close Scope float_scope.
