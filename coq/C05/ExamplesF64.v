(* C05 - non-vacuity of the binary64 theorems: the resolvability hypothesis of C05_f64_times_strict
   (t + dtmin > t for every binary64 time of the interval) holds for an ordinary configuration
   (t0 = 0, tf = 1, minDtFrac = 1/4); proved with Flocq's half-ulp error bound. *)
From Coq Require Import Reals ZArith Lra Lia Bool List.
From Flocq Require Import Core.Core IEEE754.BinarySingleNaN IEEE754.PrimFloat.
From Coq Require Import Floats.
Require Import Kawin.Common.Ops Kawin.C05.Model Kawin.C05.Proofs Kawin.C05.ProofsF64.
Import ListNotations.
Local Existing Instance Hprec.
Local Existing Instance Hmax.
Open Scope R_scope.

Lemma val_SF x : val x = SF2R radix2 (Prim2SF x).
Proof. unfold val. rewrite <- B2SF_Prim2B. symmetry. apply SF2R_B2SF. Qed.
Lemma fin_SF x : fin x <-> is_finite_SF (Prim2SF x) = true.
Proof. unfold fin. rewrite <- B2SF_Prim2B. rewrite is_finite_SF_B2SF. tauto. Qed.

Lemma quarter_val : fin 0x1p-2%float /\ val 0x1p-2%float = /4.
Proof.
  split; [apply fin_SF; vm_compute; reflexivity|].
  rewrite val_SF. 
  replace (Prim2SF 0x1p-2%float) with (S754_finite false 4503599627370496 (-54)) by (vm_compute; reflexivity).
  unfold SF2R, F2R. simpl. lra.
Qed.

Lemma one_val : fin 0x1p+0%float /\ val 0x1p+0%float = 1.
Proof.
  split; [apply fin_SF; vm_compute; reflexivity|].
  rewrite val_SF.
  replace (Prim2SF 0x1p+0%float) with (S754_finite false 4503599627370496 (-52)) by (vm_compute; reflexivity).
  unfold SF2R, F2R. simpl. lra.
Qed.

(* rounding moves a number in [1/4, 5/4] by less than 1/4 *)
Lemma rnd_close x : /4 <= x <= 5/4 -> x - /4 < rnd x.
Proof.
  intros [H1 H2].
  assert (He := error_le_half_ulp radix2 (fexp prec emax) (fun z => negb (Z.even z)) x).
  change (round radix2 (fexp prec emax) (Znearest (fun z => negb (Z.even z))) x) with (rnd x) in He.
  assert (Hu : Ulp.ulp radix2 (fexp prec emax) x <= Rabs x * bpow radix2 (1 - prec)).
  { apply (ulp_FLT_le radix2 (3 - emax - prec) prec). 
    rewrite Rabs_pos_eq by lra. apply Rle_trans with (bpow radix2 (-2)); [apply bpow_le; unfold emax, prec; lia|].
    simpl. lra. }
  rewrite Rabs_pos_eq in Hu by lra.
  assert (Hb : bpow radix2 (1 - prec) <= /8).
  { apply Rle_trans with (bpow radix2 (-3)); [apply bpow_le; unfold prec; lia|]. simpl. lra. }
  assert (Hpos : 0 < bpow radix2 (1 - prec)) by apply bpow_gt_0.
  assert (Hx : x * bpow radix2 (1 - prec) <= 5/4 * /8) by nra.
  revert He. unfold Rabs. destruct Rcase_abs; intros; lra.
Qed.

Lemma two_val : fin 0x1p+1%float /\ val 0x1p+1%float = 2.
Proof.
  split; [apply fin_SF; vm_compute; reflexivity|].
  rewrite val_SF.
  replace (Prim2SF 0x1p+1%float) with (S754_finite false 4503599627370496 (-51)) by (vm_compute; reflexivity).
  unfold SF2R, F2R. simpl. lra.
Qed.

(* the resolvability hypothesis of C05_f64_times_strict holds for t0 = 0, tf = 1, minDtFrac = 1/4 *)
Lemma resolvable_example : forall t : float,
  PrimFloat.is_finite t = true -> PrimFloat.leb 0 t = true -> PrimFloat.ltb t 0x1p+0 = true ->
  PrimFloat.ltb t (t + 0x1p-2 * (0x1p+0 - 0))%float = true.
Proof.
  intros t Ft H0 H1.
  change (0x1p-2 * (0x1p+0 - 0))%float with 0x1p-2%float.
  destruct (leb0_val t Ft H0) as [Ft' P0]. destruct one_val as [F1 V1]. destruct quarter_val as [Fq Vq].
  destruct two_val as [F2 V2].
  apply ltb_val in H1; auto. rewrite V1 in H1.
  destruct (add_val (val t) (val 0x1p+1%float) t 0x1p-2%float Ft' Fq ltac:(rewrite Vq, V2; lra) (small_val _) (small_val _))
    as (Fa & Va & _).
  apply ltb_val; auto. rewrite Va, Vq.
  assert (Hc := rnd_close (val t + /4) ltac:(lra)). lra.
Qed.

Open Scope float_scope.
Example f64_strict_hyps :
  let t0 := 0 in let tf := 0x1p+0 in let fmin := 0x1p-2 in let fmax := 0x1p+0 in
  let dtmin := fmin * (tf - t0) in let dtmax := fmax * (tf - t0) in
  PrimFloat.is_finite t0 = true /\ PrimFloat.is_finite tf = true /\ PrimFloat.is_finite (tf - t0) = true /\
  PrimFloat.is_finite dtmin = true /\ (0 <? dtmin) = true /\ PrimFloat.is_finite dtmax = true /\ (dtmin <=? dtmax) = true /\
  (forall t, PrimFloat.is_finite t = true -> (t0 <=? t) = true -> (t <? tf) = true -> (t <? t + dtmin) = true).
Proof.
  cbv zeta. repeat split; try (vm_compute; reflexivity). exact resolvable_example.
Qed.
(* ... and the conclusion is observed on a run with wild proposals *)
Example f64_strict_run :
  times F64ops (solveTo F64ops true (script [nan; 0; infinity; neg_infinity] 0x1p-3) (fun _ => false) 10 0 0x1p+0 0x1p-2 0x1p+0)
  = [0x1p-2; 0x1p-1; 0x1p+0].
Proof. vm_compute. reflexivity. Qed.
Close Scope float_scope.
