(* C05 - non-vacuity examples and refutation witnesses. *)
From Coq Require Import Reals QArith List ZArith Lra Lia Bool PrimFloat.
Require Import Kawin.Common.Ops Kawin.C05.Model Kawin.C05.Proofs Kawin.C05.ProofsF64.
Import ListNotations.

(* ---- the clock, executed on exact rationals: t0 = 0, tf = 1, minDtFrac = 1/4, maxDtFrac = 1/2;
   proposals 1/8 (raised to 1/4), 5 (lowered to 1/2), 0 (raised to 1/4), then 1/3 forever: the last
   step is the remaining time 0 < 1/4 ... the third step is the remaining 1/4 ---------------------- *)
Open Scope Q_scope.
Definition exProps : list Q := [1#8; 5; 0].
Example clock_example :
  solveTo Qops true (script exProps (1#3)) (fun _ => false) 10 0 1 (1#4) (1#2)
  = Done (O := Qops) [(1#4, 1#4); (3#4, 1#2); (1, 1#4)].
Proof. vm_compute. reflexivity. Qed.

(* a step shorter than the minimum occurs only as the last one, and lands on tf *)
Example clock_short_last :
  solveTo Qops true (script [7#10] 5) (fun _ => false) 10 0 1 (1#4) 1
  = Done (O := Qops) [(7#10, 7#10); (1, 3#10)].
Proof. vm_compute. reflexivity. Qed.

(* a stop request at step 1 ends the run there *)
Example clock_stop :
  solveTo Qops true (script exProps (1#3)) (script [false; true] false) 10 0 1 (1#4) (1#2)
  = Done (O := Qops) [(1#4, 1#4); (3#4, 1#2)]
  /\ first_true (script [false; true] false) 2 = Some 1%nat.
Proof. vm_compute. split; reflexivity. Qed.

(* over exact arithmetic the unrepaired and the repaired line 215 give the same run *)
Example clock_snap_irrelevant_Q :
  solveTo Qops false (script exProps (1#3)) (fun _ => false) 10 0 1 (1#4) (1#2)
  = solveTo Qops true (script exProps (1#3)) (fun _ => false) 10 0 1 (1#4) (1#2).
Proof. vm_compute. reflexivity. Qed.
Close Scope Q_scope.

(* the hypotheses of C05_solver_contract are satisfiable, and its step budget for minDtFrac = 1/4 is 6 *)
Open Scope R_scope.
Example contract_hyps : 0 < 1 /\ 0 < 1/4 <= 1/2.
Proof. lra. Qed.
Close Scope R_scope.

(* ---- binary64 ------------------------------------------------------------------------------------- *)
Open Scope float_scope.

(* the failing input of the finding C05-end-time-overshoot, before and after the repair *)
Example f64_overshoot_refuted :
  times F64ops (solve F64ops false (script [0x1.eb851eb851eb8p-6] infinity) (fun _ => false) 10 0 0x1.3333333333333p-2 0x1p-27 1)
  = [0x1.eb851eb851eb8p-6; 0x1.3333333333334p-2].       (* 0.03, 0.30000000000000004 *)
Proof. vm_compute. reflexivity. Qed.
Example f64_overshoot_repaired :
  times F64ops (solve F64ops true (script [0x1.eb851eb851eb8p-6] infinity) (fun _ => false) 10 0 0x1.3333333333333p-2 0x1p-27 1)
  = [0x1.eb851eb851eb8p-6; 0x1.3333333333333p-2].       (* 0.03, 0.3 *)
Proof. vm_compute. reflexivity. Qed.

(* before the repair the run could also stop one ulp short of tf and need an extra one-ulp step *)
Example f64_undershoot_before_repair :
  length (times F64ops (solve F64ops false (script [0x1.70a3d70a3d70ap-3] infinity) (fun _ => false) 10 0 0x1.ccccccccccccdp-1 0x1p-27 1)) = 3%nat
  /\ length (times F64ops (solve F64ops true (script [0x1.70a3d70a3d70ap-3] infinity) (fun _ => false) 10 0 0x1.ccccccccccccdp-1 0x1p-27 1)) = 2%nat.
Proof. vm_compute. split; reflexivity. Qed.

(* NaN, +-infinity, zero and negative proposals: NaN / 0 / negative / -inf become dtmin, +inf becomes dtmax *)
Example f64_wild_proposals :
  steps F64ops (solve F64ops true (script [nan; infinity; 0; -0x1p+0; neg_infinity] 0x1p-2) (fun _ => false) 20 0 1 0x1p-3 0x1p-2)
  = [0x1p-3; 0x1p-2; 0x1p-3; 0x1p-3; 0x1p-3; 0x1p-2].
Proof. vm_compute. reflexivity. Qed.

(* the hypotheses of C05_f64_time_contract hold for an ordinary configuration *)
Example f64_contract_hyps :
  let t0 := 0x1.8p+1 in let tf := 0x1.4p+3 in let fmin := 0x1p-27 in let fmax := 1 in
  is_finite t0 = true /\ is_finite tf = true /\ (t0 <=? tf) = true /\ is_finite (tf - t0) = true /\
  is_finite (fmin * (tf - t0)) = true /\ (0 <=? fmin * (tf - t0)) = true /\
  is_finite (fmax * (tf - t0)) = true /\ (0 <=? fmax * (tf - t0)) = true.
Proof. vm_compute. repeat split; reflexivity. Qed.

(* the Coupler takes the smallest proposal, NaN propagating like np.amin *)
Example amin_example :
  f64_amin [0x1p+0; 0x1p-1; 0x1p+1] = 0x1p-1 /\ f64_isnan (f64_amin [0x1p+0; nan; 0x1p-1]) = true.
Proof. vm_compute. split; reflexivity. Qed.
Close Scope float_scope.

(* ---- state layout ------------------------------------------------------------------------------------ *)
Definition exState : state Z := [Sc 1%Z; Arr [2; 3; 4]%Z; Arr []; Sc 5%Z].
Example flatten_example : flatten Z exState = [1; 2; 3; 4; 5]%Z.
Proof. reflexivity. Qed.
Example unflatten_example :
  unflatten Z [10; 20; 30; 40; 50]%Z exState = Some [Sc 10%Z; Arr [20; 30; 40]%Z; Arr []; Sc 50%Z].
Proof. reflexivity. Qed.
(* too few entries: the IndexError / ValueError of the implementation *)
Example unflatten_short : unflatten Z [10; 20; 30; 40]%Z exState = None.
Proof. reflexivity. Qed.

(* a coupling of two models with differently shaped states *)
Definition exX : list (state Z) := [[Sc 1%Z; Arr [2; 3]%Z]; [Arr [4; 5; 6]%Z]].
Definition exMs := [default_codec Z; default_codec Z].
Example coupler_example :
  cflatten Z (state Z) exMs exX = ([1; 2; 3; 4; 5; 6]%Z, [3; 3]%nat) /\
  cunflatten Z (state Z) exMs [3; 3]%nat [7; 8; 9; 10; 11; 12]%Z exX
    = Some [[Sc 7%Z; Arr [8; 9]%Z]; [Arr [10; 11; 12]%Z]].
Proof. split; reflexivity. Qed.
(* a stale register (sizes of a differently shaped state) corrupts the result: the invariant of
   C05_coupler_sizeRef_inv is what rules this out *)
Example coupler_stale_register :
  cunflatten Z (state Z) exMs [2; 4]%nat [7; 8; 9; 10; 11; 12]%Z exX = None.
Proof. reflexivity. Qed.

(* the hypotheses of C05_coupler_sizeRef_inv are satisfiable: a run whose state is re-shaped between
   two iterations *)
Definition exX2 : list (state Z) := [[Sc 1%Z]; [Arr [4; 5; 6]%Z]].
Example events_example :
  exec Z (state Z) exMs [] (run_events (state Z) Euler [(exX, ([exX], [exX])); (exX2, ([exX2], [exX2]))])
  = [([3; 3], [3; 3]); ([3; 3], [3; 3]); ([3; 3], [3; 3]); ([1; 3], [1; 3]); ([1; 3], [1; 3]); ([1; 3], [1; 3])]%nat.
Proof. reflexivity. Qed.
Example events_compat : compat Z (state Z) exMs Euler exX [exX] [exX].
Proof. intros j Hj. assert (j = 0)%nat by (simpl in Hj; lia). subst. split; reflexivity. Qed.

(* sub-models with their own instructions: a strict one (reshape to the reference shape) FIRST, a
   default one second - the round trip works because each is handed exactly its slice ... *)
Definition exMs2 := [strict_codec Z; default_codec Z].
Definition exX3 : list (state Z) := [[Arr [1; 2; 3; 4; 5; 6]%Z]; [Sc 7%Z; Arr [8; 9]%Z]].
Example coupler_custom_first :
  cunflatten Z (state Z) exMs2 [6; 3]%nat [1; 2; 3; 4; 5; 6; 7; 8; 9]%Z exX3 = Some exX3 /\
  cunflatten_args Z (state Z) exMs2 [6; 3]%nat [1; 2; 3; 4; 5; 6; 7; 8; 9]%Z exX3 = [[1; 2; 3; 4; 5; 6]; [7; 8; 9]]%Z.
Proof. split; reflexivity. Qed.
(* ... handing it the rest of the array instead would fail (strict) or change the shape (greedy) *)
Example strict_needs_upper_bound :
  unfl Z (state Z) (strict_codec Z) [1; 2; 3; 4; 5; 6; 7; 8; 9]%Z [Arr [1; 2; 3; 4; 5; 6]%Z] = None.
Proof. reflexivity. Qed.
Example greedy_needs_upper_bound :
  option_map (signature Z) (unfl Z (state Z) (greedy_codec Z 3) [1; 2; 3; 4; 5; 6; 7; 8; 9]%Z [Arr [1; 2; 3; 4; 5; 6]%Z])
  = Some [Some 9%nat] /\
  option_map (signature Z) (unfl Z (state Z) (greedy_codec Z 3) [1; 2; 3; 4; 5; 6]%Z [Arr [1; 2; 3; 4; 5; 6]%Z])
  = Some [Some 6%nat].
Proof. split; reflexivity. Qed.
