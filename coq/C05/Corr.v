(* C05 - correspondence driver (harness side; no theorem depends on it).
   The clock model is evaluated on primitive binary64 floats and compared BIT FOR BIT with the times
   and step sizes the implementation recorded for the same script; only verdicts are printed. *)
From Coq Require Import List Bool ZArith PrimFloat Uint63.
Require Import Kawin.Common.Ops Kawin.C05.Model.
Import ListNotations.

(* identical binary64 values: same NaN-ness, numerically equal, and same sign of zero *)
Definition same (a b : float) : bool :=
  if f64_isnan a then f64_isnan b
  else PrimFloat.eqb a b && PrimFloat.eqb (PrimFloat.div PrimFloat.one a) (PrimFloat.div PrimFloat.one b).

(* (class, negative?, mantissa, exponent): class 0 = m * 2^e, 1 = infinity, 2 = NaN *)
Definition decode (x : float) : Z * bool * Z * Z :=
  if f64_isnan x then (2, false, 0, 0)%Z
  else if PrimFloat.eqb (PrimFloat.abs x) PrimFloat.infinity then (1, PrimFloat.get_sign x, 0, 0)%Z
  else let (m, e) := PrimFloat.frshiftexp x in
       (0%Z, PrimFloat.get_sign x, Uint63.to_Z (PrimFloat.normfr_mantissa m),
        (Uint63.to_Z e - 2101 - 53)%Z).

Fixpoint first_diff (k : nat) (impl model : list float) : option (nat * option (Z * bool * Z * Z)) :=
  match impl, model with
  | a :: i', b :: m' => if same a b then first_diff (S k) i' m' else Some (k, Some (decode b))
  | [], [] => None
  | _ :: _, [] => Some (k, None)
  | [], b :: _ => Some (k, Some (decode b))
  end.

(* result: (model finished?, number of model steps, first differing time, first differing dt) *)
Definition check_clock (snap : bool) (props : list (list float)) (dflt : float) (stops : list (list bool))
           (fuel : nat) (t0 simTime fmin fmax : float) (itimes idts : list float) :=
  let r := solve F64ops snap (coupled_propose props dflt) (coupled_stop stops) fuel t0 simTime fmin fmax in
  (finished F64ops r, length (pairs F64ops r), first_diff 0 itimes (times F64ops r),
   first_diff 0 idts (steps F64ops r)).

(* state layout: values are integers (identity of every entry is tracked) *)
Definition zstate := state Z.
Definition dc := default_codec Z.

Definition check_flat (s : zstate) (flat : list Z) (ref : zstate) :=
  (flatten Z s, unflatten Z flat ref).

(* sub-model instructions: 0 = default, 1 = strict (reshape to the reference), S (S c) = greedy with rows of c+1... *)
Definition codec_of (k : nat) : codec Z zstate :=
  match k with
  | O => dc
  | S O => strict_codec Z
  | S (S c) => greedy_codec Z (S c)
  end.

(* result: (flat, sizeRef, what each sub-model's unflattenX is handed, result of Coupler.unflattenX) *)
Definition check_coupler (kinds : list nat) (X : list zstate) (sizeRef : list nat) (flat : list Z) (Xref : list zstate) :=
  let ms := map codec_of kinds in
  (cflatten Z zstate ms X, cunflatten_args Z zstate ms sizeRef flat Xref,
   cunflatten Z zstate ms sizeRef flat Xref).

(* the flatten / unflatten event log of a run whose derivatives have the layout of the state *)
Definition same_layout_script (X0s : list (list zstate)) :=
  map (fun X => (X, ([X; X; X; X], [X; X; X; X]))) X0s.
Definition check_events (it : iterator) (nmodels : nat) (X0s : list (list zstate)) :=
  exec_log Z zstate (repeat dc nmodels) [] (run_events zstate it (same_layout_script X0s)).

(* hook slots in force after a history of setFunctions calls *)
Definition check_hooks (calls : list hooks) := hooks_after calls.
