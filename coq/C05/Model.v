(* C05 - The solver honours its time and state contract for any model.
   Executable model (definitions only) of
     kawin/solver/Solver.py     DESolver._getdXdt (step clamp), DESolver.solve (clock loop)
     kawin/GenericModel.py      GenericModel.solve / flattenX / unflattenX, Coupler.flattenX /
                                unflattenX (the _sizeRef register), Coupler.getDt / postProcess
   The clock is written ONCE over the scalar record [Ops] and instantiated on the reals (theorems),
   and on IEEE binary64 (Coq's primitive floats; compared bit for bit with the implementation).
   The user's model is an oracle: [propose k] is what getDt returns at step k, [stop k] the stop
   flag postProcess returns at step k; both are arbitrary. *)
From Coq Require Import List Bool Arith ZArith PrimFloat Uint63.
Require Import Kawin.Common.Ops.
Import ListNotations.

(* ------------------------------------------------------------------------------------------ *)
Section Clock.
Variable O : Ops.
Notation S_ := (T O).

(* Solver.py:136-137
     dt = dt if dt > self._dtmin else self._dtmin
     dt = dt if dt < self._dtmax else self._dtmax            (a > b is written  b < a) *)
Definition clamp (p dtmin dtmax : S_) : S_ :=
  let dt1 := if ltb O dtmin p then p else dtmin in
  if ltb O dt1 dtmax then dt1 else dtmax.

(* Solver.py:204-205   if self._dtmax > tf - currTime: self._dtmax = tf - currTime *)
Definition shrink (dtmax rem : S_) : S_ := if ltb O rem dtmax then rem else dtmax.

(* Solver.py:215.  [snap = false]: the tree before the repair,  currTime += dt.
   [snap = true]: after "fix: solver lands exactly on the end time ...",
       if dt >= tf - currTime: currTime = tf   else: currTime += dt *)
Definition advance (snap : bool) (t tf dt : S_) : S_ :=
  if snap then (if leb O (sub O tf t) dt then tf else add O t dt) else add O t dt.

(* result of a run: the accepted (time, dt) pairs in order; [NoFuel] = the step budget of the
   model ran out before the loop condition became false (never a normal value) *)
Inductive run := Done (l : list (S_ * S_)) | NoFuel (l : list (S_ * S_)).

Definition rcons (x : S_ * S_) (r : run) : run :=
  match r with Done l => Done (x :: l) | NoFuel l => NoFuel (x :: l) end.

(* Solver.py:197-217   while currTime < tf and not stop: ...   ([k] = iteration counter,
   [dtmax] = the self._dtmax register, which persists across iterations) *)
Fixpoint loop (snap : bool) (propose : nat -> S_) (stop : nat -> bool) (tf dtmin : S_)
         (fuel k : nat) (t dtmax : S_) : run :=
  match fuel with
  | 0%nat => NoFuel []
  | S f =>
      if ltb O t tf then
        let rem := sub O tf t in
        let dtmax' := shrink dtmax rem in
        let dt := clamp (propose k) dtmin dtmax' in
        let t' := advance snap t tf dt in
        if stop k then Done [(t', dt)]
        else rcons (t', dt) (loop snap propose stop tf dtmin f (S k) t' dtmax')
      else Done []
  end.

(* DESolver.solve(t0, X0, tf): Solver.py:191-193 *)
Definition solveTo (snap : bool) (propose : nat -> S_) (stop : nat -> bool) (fuel : nat)
           (t0 tf fmin fmax : S_) : run :=
  let delta := sub O tf t0 in
  loop snap propose stop tf (mul O fmin delta) fuel 0 t0 (mul O fmax delta).

(* GenericModel.solve(simTime, minDtFrac, maxDtFrac): setTimeInfo computes finalTime = t + simTime *)
Definition solve (snap : bool) (propose : nat -> S_) (stop : nat -> bool) (fuel : nat)
           (t0 simTime fmin fmax : S_) : run :=
  solveTo snap propose stop fuel t0 (add O t0 simTime) fmin fmax.

(* ---- one model object used for several solve() calls ------------------------------------------
   GenericModel.solve builds a NEW DESolver on every call from the arguments of that call; nothing but
   the model's own clock is carried from one call to the next.  A segment = the arguments of one call
   and what the model proposes / requests during it. *)
Record seg := mkSeg { seg_sim : S_; seg_fmin : S_; seg_fmax : S_; seg_fuel : nat;
                      seg_propose : nat -> S_; seg_stop : nat -> bool }.
Definition run_end (t0 : S_) (r : run) : S_ :=
  last (map fst (match r with Done l => l | NoFuel l => l end)) t0.
Fixpoint solve_history (snap : bool) (t0 : S_) (segs : list seg) : list (S_ * run) :=
  match segs with
  | [] => []
  | s :: rest =>
      let r := solve snap (seg_propose s) (seg_stop s) (seg_fuel s) t0 (seg_sim s) (seg_fmin s) (seg_fmax s) in
      (t0, r) :: solve_history snap (run_end t0 r) rest
  end.

Definition pairs (r : run) : list (S_ * S_) := match r with Done l => l | NoFuel l => l end.
Definition times (r : run) : list S_ := map fst (pairs r).
Definition steps (r : run) : list S_ := map snd (pairs r).
Definition finished (r : run) : bool := match r with Done _ => true | NoFuel _ => false end.

End Clock.

Arguments Done {O} l.
Arguments NoFuel {O} l.

Arguments mkSeg {O}.

(* ---- DESolver.setFunctions: the four hook slots (preProcess, postProcess, printHeader, printStatus).
   A hook is identified by a number; None = the built-in default (for an argument: "not given").
   Solver.py:55-58   self.X = self.X if X is None else X *)
Definition hooks : Type := option nat * option nat * option nat * option nat.
Definition keep_or_set (old new : option nat) : option nat :=
  match new with None => old | Some _ => new end.
Definition setFunctions (h given : hooks) : hooks :=
  let '(a, b, c, d) := h in let '(a', b', c', d') := given in
  (keep_or_set a a', keep_or_set b b', keep_or_set c c', keep_or_set d d').
Definition hooks_after (calls : list hooks) : hooks :=
  fold_left setFunctions calls (None, None, None, None).
Definition slot_pre (h : hooks) := fst (fst (fst h)).
Definition slot_post (h : hooks) := snd (fst (fst h)).
Definition slot_header (h : hooks) := snd (fst h).
Definition slot_status (h : hooks) := snd h.
(* the last hook given for a slot in a list of "given" values *)
Definition last_given (l : list (option nat)) : option nat := fold_left keep_or_set l None.

(* index of the first true flag among stop 0 .. stop (n-1) *)
Fixpoint first_true_from (stop : nat -> bool) (k n : nat) : option nat :=
  match n with
  | O => None
  | S n' => if stop k then Some k else first_true_from stop (S k) n'
  end.
Definition first_true (stop : nat -> bool) (n : nat) : option nat := first_true_from stop 0 n.

(* script helpers: the k-th entry of a list, a default beyond its end *)
Definition script {A} (l : list A) (d : A) (k : nat) : A := nth k l d.

(* ------------------------------------------------------------------------------------------ *)
(* IEEE binary64 instance (Coq's primitive floats): same definitions, bit-exact arithmetic *)
Definition f64_ofZ (z : Z) : float :=
  match z with
  | Z0 => PrimFloat.zero
  | Zpos _ => PrimFloat.of_uint63 (Uint63.of_Z z)
  | Zneg p => PrimFloat.opp (PrimFloat.of_uint63 (Uint63.of_Z (Zpos p)))
  end.

Definition F64ops : Ops :=
  mkOps float PrimFloat.zero PrimFloat.one PrimFloat.add PrimFloat.sub PrimFloat.mul PrimFloat.div
        PrimFloat.ltb PrimFloat.leb PrimFloat.eqb f64_ofZ.

(* Coupler.getDt: np.amin over the models' proposals (NaN propagates);
   written as a left fold:  m := first; for each x: if x is NaN or x < m then m := x, NaN sticks *)
Definition f64_isnan (x : float) : bool := negb (PrimFloat.eqb x x).
Definition f64_amin2 (m x : float) : float :=
  if f64_isnan m then m else if f64_isnan x then x else if PrimFloat.ltb x m then x else m.
Definition f64_amin (l : list float) : float :=
  match l with [] => PrimFloat.nan | a :: r => fold_left f64_amin2 r a end.

(* a coupled run: model j proposes [nth k (nth j props) ...]; the coupler takes the minimum and
   stops when any model asks to (Coupler.postProcess: stop = stop or s) *)
Definition coupled_propose (props : list (list float)) (d : float) (k : nat) : float :=
  f64_amin (map (fun l => script l d k) props).
Definition coupled_stop (stops : list (list bool)) (k : nat) : bool :=
  existsb (fun l => script l false k) stops.

(* ------------------------------------------------------------------------------------------ *)
(* State layout: GenericModel.flattenX / unflattenX on the documented default domain
   (a list whose entries are scalars or 1-D arrays).  Values are abstract. *)
Section Shapes.
Variable A : Type.

Inductive xval := Sc (a : A) | Arr (d : list A).
Definition state := list xval.

Definition sig1 (x : xval) : option nat := match x with Sc _ => None | Arr d => Some (length d) end.
Definition signature (s : state) : list (option nat) := map sig1 s.
Definition size1 (x : xval) : nat := match x with Sc _ => 1 | Arr d => length d end.
Definition size (s : state) : nat := list_sum (map size1 s).

(* np.hstack(X) *)
Definition flat1 (x : xval) : list A := match x with Sc a => [a] | Arr d => d end.
Definition flatten (s : state) : list A := concat (map flat1 s).

(* python slice l[a:a+n] *)
Definition slice (l : list A) (a n : nat) : list A := firstn n (skipn a l).

(* GenericModel.unflattenX(X_flat, X_ref): walks X_ref with a running offset n;
   [None] = the IndexError (scalar beyond the end) / ValueError (reshape of a short slice) *)
Fixpoint unflatten_from (flat : list A) (n : nat) (ref : state) : option state :=
  match ref with
  | [] => Some []
  | Sc _ :: r =>
      match nth_error flat n with
      | Some a => option_map (cons (Sc a)) (unflatten_from flat (S n) r)
      | None => None
      end
  | Arr d :: r =>
      let len := length d in
      let sl := slice flat n len in
      if Nat.eqb (length sl) len
      then option_map (cons (Arr sl)) (unflatten_from flat (n + len) r)
      else None
  end.
Definition unflatten (flat : list A) (ref : state) : option state := unflatten_from flat 0 ref.

(* ---- Coupler ------------------------------------------------------------------------------ *)
(* a sub-model's own flatten / unflatten (the default pair above, or an override); [St] is the type
   of one sub-model state *)
Variable St : Type.
Record codec := mkCodec { fl : St -> list A; unfl : list A -> St -> option St }.

(* Coupler.flattenX: returns the concatenation and the new value of self._sizeRef
   (zip truncates to the shorter of models / X) *)
Definition cflatten (ms : list codec) (X : list St) : list A * list nat :=
  let parts := map (fun mx => fl (fst mx) (snd mx)) (combine ms X) in
  (concat parts, map (@length A) parts).

(* Coupler.unflattenX reads self._sizeRef; zip(models, _sizeRef, X_ref) truncates to the shortest *)
Fixpoint cunflatten_from (ms : list codec) (sizeRef : list nat) (flat : list A) (Xref : list St)
         (ind : nat) : option (list St) :=
  match ms, sizeRef, Xref with
  | m :: ms', s :: sr', x :: xr' =>
      match unfl m (slice flat ind s) x with
      | Some y => option_map (cons y) (cunflatten_from ms' sr' flat xr' (ind + s))
      | None => None
      end
  | _, _, _ => Some []
  end.
Definition cunflatten (ms : list codec) (sizeRef : list nat) (flat : list A) (Xref : list St) :=
  cunflatten_from ms sizeRef flat Xref 0.

(* what Coupler.unflattenX hands to each sub-model's own unflattenX: the slice X_flat[ind:ind+s]
   (a sub-model whose instructions reshape what they are given depends on receiving exactly this) *)
Fixpoint cunflatten_args_from (ms : list codec) (sizeRef : list nat) (flat : list A) (Xref : list St)
         (ind : nat) : list (list A) :=
  match ms, sizeRef, Xref with
  | _ :: ms', s :: sr', _ :: xr' => slice flat ind s :: cunflatten_args_from ms' sr' flat xr' (ind + s)
  | _, _, _ => []
  end.
Definition cunflatten_args (ms : list codec) (sizeRef : list nat) (flat : list A) (Xref : list St) :=
  cunflatten_args_from ms sizeRef flat Xref 0.

(* ---- the order in which DESolver calls flattenX / unflattenX during one iteration ------------
   Solver.py:211-213, _getdXdt (132-140), _updateX (157-159), Iterators.py.
   EvF x : flattenX called on x (the state X0 of this iteration, or a derivative the model returned)
   EvU r : unflattenX called with reference r (always self._X0) *)
Inductive ev := EvF (x : list St) | EvU (r : list St).

Inductive iterator := Euler | RK4.

(* one derivative evaluation  _getdXdt: unflatten, f, flatten(dXdt) *)
Definition ev_f (X0 d : list St) : list ev := [EvU X0; EvF d].
(* one _updateX: unflatten(dxdt), correctdXdt (in place: [d'] is what it leaves), flatten *)
Definition ev_upd (X0 d' : list St) : list ev := [EvU X0; EvF d'].

(* [ds] = what the model's getdXdt returned in the successive evaluations of this iteration,
   [cs] = the (corrected) derivatives re-flattened by the successive _updateX calls *)
Definition nthS (l : list (list St)) (k : nat) : list St := nth k l [].
Definition step_events (it : iterator) (X0 : list St) (ds cs : list (list St)) : list ev :=
  match it with
  | Euler => [EvF X0] ++ ev_f X0 (nthS ds 0) ++ ev_upd X0 (nthS cs 0) ++ [EvU X0]
  | RK4 => [EvF X0] ++ ev_f X0 (nthS ds 0) ++ ev_upd X0 (nthS cs 0)
                    ++ ev_f X0 (nthS ds 1) ++ ev_upd X0 (nthS cs 1)
                    ++ ev_f X0 (nthS ds 2) ++ ev_upd X0 (nthS cs 2)
                    ++ ev_f X0 (nthS ds 3) ++ ev_upd X0 (nthS cs 3) ++ [EvU X0]
  end.

(* a run: per iteration the reference state (which postProcess may have re-shaped) and the
   derivatives; the events of all iterations in order *)
Definition run_events (it : iterator) (script : list (list St * (list (list St) * list (list St)))) : list ev :=
  concat (map (fun s => step_events it (fst s) (fst (snd s)) (snd (snd s))) script).

(* the _sizeRef register threaded through a sequence of events; for every unflatten the value of
   the register it reads is recorded together with the sizes of the reference it is given *)
Definition sizes (ms : list codec) (X : list St) : list nat := snd (cflatten ms X).
Fixpoint exec (ms : list codec) (reg : list nat) (evs : list ev) : list (list nat * list nat) :=
  match evs with
  | [] => []
  | EvF x :: r => exec ms (sizes ms x) r
  | EvU x :: r => (reg, sizes ms x) :: exec ms reg r
  end.
(* the same walk, recording every event (for the comparison with the instrumented Coupler):
   (true, new register) for a flatten, (false, register read) for an unflatten *)
Fixpoint exec_log (ms : list codec) (reg : list nat) (evs : list ev) : list (bool * list nat) :=
  match evs with
  | [] => []
  | EvF x :: r => (true, sizes ms x) :: exec_log ms (sizes ms x) r
  | EvU x :: r => (false, reg) :: exec_log ms reg r
  end.

End Shapes.

Arguments Sc {A} a.
Arguments Arr {A} d.
Arguments EvF {St} x.
Arguments EvU {St} r.

(* the default codec of GenericModel *)
Definition default_codec (A : Type) : codec A (state A) := mkCodec A (state A) (@flatten A) (@unflatten A).

(* overridden instructions of the kind shipped with kawin (DiffusionModel.unflattenX reshapes the flat
   array it is given to the shape of the reference): succeeds only on exactly as many values as the
   reference holds *)
Definition strict_codec (A : Type) : codec A (state A) :=
  mkCodec A (state A) (@flatten A)
    (fun flat ref => if Nat.eqb (length flat) (size A ref) then unflatten A flat ref else None).
(* instructions whose result shape follows from what they are given (np.reshape(X_flat, (-1, c))):
   every value handed over ends up in the state; the row count is length/c *)
Definition greedy_codec (A : Type) (c : nat) : codec A (state A) :=
  mkCodec A (state A) (@flatten A)
    (fun flat ref => if Nat.eqb (length flat mod c) 0 then Some [Arr flat] else None).

(* ---- flat-array arithmetic of the built-in iterators (shapes only) ---------------------------
   x + flatten(d)*dt, dxdtsum += 2*k, dxdtsum/6: numpy elementwise operations on 1-D arrays of equal
   length; [ax] and [sc] are the (abstract) scalar operations. *)
Section Iter.
Variable A : Type.
Variable ax : A -> A -> A.       (* x_i + d_i*dt   or  s_i + c*k_i *)
Variable sc : A -> A.            (* s_i / 6 *)
Fixpoint zipw (f : A -> A -> A) (a b : list A) : list A :=
  match a, b with x :: a', y :: b' => f x y :: zipw f a' b' | _, _ => [] end.

(* a user model with the default codec: [f j x] is the derivative returned by the j-th evaluation
   of this iteration, [corr j d] what correctdXdt leaves in place of d *)
Variable f : nat -> state A -> state A.
Variable corr : nat -> state A -> state A.

Definition ounfl (flat : list A) (X0 : state A) : state A :=
  match unflatten A flat X0 with Some s => s | None => [] end.

Definition getd (X0 : state A) (j : nat) (xflat : list A) : state A * list A :=
  let u := ounfl xflat X0 in (u, flatten A (f j u)).
Definition upd (X0 : state A) (j : nat) (xflat dflat : list A) : state A * list A :=
  let u := corr j (ounfl dflat X0) in (u, zipw ax xflat (flatten A u)).

(* the states handed to the model's callbacks in one iteration (getdXdt arguments, the derivative
   handed to correctdXdt, the state handed to postProcess), in order, and the new flat state *)
Definition euler_step (X0 : state A) : list (state A) * state A :=
  let x := flatten A X0 in
  let '(u1, k1) := getd X0 0 x in
  let '(c1, xn) := upd X0 0 x k1 in
  let Xn := ounfl xn X0 in
  ([u1; ounfl k1 X0; Xn], Xn).

Definition rk4_step (X0 : state A) : list (state A) * state A :=
  let x := flatten A X0 in
  let '(u1, k1) := getd X0 0 x in
  let '(c1, x1) := upd X0 0 x k1 in
  let '(u2, k2) := getd X0 1 x1 in
  let s2 := zipw ax k1 k2 in
  let '(c2, x2) := upd X0 1 x k2 in
  let '(u3, k3) := getd X0 2 x2 in
  let s3 := zipw ax s2 k3 in
  let '(c3, x3) := upd X0 2 x k3 in
  let '(u4, k4) := getd X0 3 x3 in
  let s4 := zipw ax s3 k4 in
  let '(c4, xn) := upd X0 3 x (map sc s4) in
  let Xn := ounfl xn X0 in
  ([u1; ounfl k1 X0; u2; ounfl k2 X0; u3; ounfl k3 X0; u4; ounfl (map sc s4) X0; Xn], Xn).
End Iter.
