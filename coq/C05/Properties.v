(* C05 - The solver honours its time and state contract for any model.
   This file contains ONLY the property theorems; each is closed by [exact] of a lemma of Proofs.v /
   ProofsF64.v and followed by Print Assumptions.  The model is coq/C05/Model.v
   (kawin/solver/Solver.py, kawin/GenericModel.py); [propose k] / [stop k] are what the user's model
   returns from getDt / postProcess at step k and are universally quantified. *)
From Coq Require Import Reals List Bool Arith ZArith Sorted PrimFloat.
Require Import Kawin.Common.Ops Kawin.C05.Model Kawin.C05.Proofs Kawin.C05.ProofsF64.
Import ListNotations.

(* ---- the clock on the reals: every proposal sequence, stop schedule, start time, duration ------ *)
Open Scope R_scope.

(* DESolver.solve(t0, X0, tf): with the step budget 2 + ceil(1/minDtFrac) the run finishes; accepted
   times are strictly increasing from t0, never exceed tf; every step lies between
   min(minDtFrac*(tf-t0), remaining) and min(maxDtFrac*(tf-t0), remaining) and equals the dt handed to
   the iterator; the run has exactly the steps up to the first stop request, and without one it ends
   at tf exactly.  [snap] selects the tree before / after the repair of line 215: over the reals both
   satisfy the contract. *)
Theorem C05_solver_contract snap propose stop t0 tf fmin fmax :
  t0 < tf -> 0 < fmin <= fmax ->
  exists l, solveTo Rops snap propose stop (2 + Z.to_nat (up (/ fmin))) t0 tf fmin fmax = Done l /\
    let ts := map fst l in
    StronglySorted Rlt (t0 :: ts) /\ Forall (fun t => t <= tf) ts /\
    (forall k tk tk', nth_error (t0 :: ts) k = Some tk -> nth_error ts k = Some tk' ->
        Rmin (fmin * (tf - t0)) (tf - tk) <= tk' - tk <= Rmin (fmax * (tf - t0)) (tf - tk)
        /\ nth_error (map snd l) k = Some (tk' - tk)) /\
    match first_true stop (length ts) with
    | Some j => length ts = S j
    | None => last ts t0 = tf
    end.
Proof. exact (solver_contract_R snap propose stop t0 tf fmin fmax). Qed.
Print Assumptions C05_solver_contract.

(* GenericModel.solve(simTime): the model is advanced from t0 to exactly t0 + simTime *)
Theorem C05_solve_reaches_end snap propose stop t0 simTime fmin fmax :
  0 < simTime -> 0 < fmin <= fmax ->
  exists l, solve Rops snap propose stop (2 + Z.to_nat (up (/ fmin))) t0 simTime fmin fmax = Done l /\
    let ts := map fst l in
    StronglySorted Rlt (t0 :: ts) /\ Forall (fun t => t <= t0 + simTime) ts /\
    (forall k tk tk', nth_error (t0 :: ts) k = Some tk -> nth_error ts k = Some tk' ->
        Rmin (fmin * simTime) (t0 + simTime - tk) <= tk' - tk <= Rmin (fmax * simTime) (t0 + simTime - tk)) /\
    match first_true stop (length ts) with
    | Some j => length ts = S j
    | None => last ts t0 = t0 + simTime
    end.
Proof. exact (solve_contract_R snap propose stop t0 simTime fmin fmax). Qed.
Print Assumptions C05_solve_reaches_end.

(* one model object used for several solve() calls: every call honours the contract with its own
   duration and its own step fractions, starting where the previous call ended (nothing but the model's
   clock is carried over) *)
Theorem C05_history_contract snap (segs : list (seg Rops)) t0 : Forall good_seg segs ->
  Forall2 (fun (s : seg Rops) (tr : R * run Rops) =>
     let t := fst tr in
     exists l, snd tr = Done l /\
       let ts := map fst l in
       StronglySorted Rlt (t :: ts) /\ Forall (fun x => x <= t + seg_sim Rops s) ts /\
       (forall k tk tk', nth_error (t :: ts) k = Some tk -> nth_error ts k = Some tk' ->
          Rmin (seg_fmin Rops s * seg_sim Rops s) (t + seg_sim Rops s - tk) <= tk' - tk
            <= Rmin (seg_fmax Rops s * seg_sim Rops s) (t + seg_sim Rops s - tk)) /\
       match first_true (seg_stop Rops s) (length ts) with
       | Some j => length ts = S j
       | None => last ts t = t + seg_sim Rops s
       end)
    segs (solve_history Rops snap t0 segs).
Proof. exact (history_contract snap segs t0). Qed.
Print Assumptions C05_history_contract.

(* the two-sided clamp, for every proposal: the accepted step is at most the upper bound and at least
   the smaller of the two bounds *)
Theorem C05_clamp_bounds p lo hi : Rmin lo hi <= clamp Rops p lo hi <= hi.
Proof. exact (clamp_R p lo hi). Qed.
Print Assumptions C05_clamp_bounds.

(* NaN and +-infinity proposals (comparison semantics of binary64) are clamped like some real proposal,
   so the theorems above cover them *)
Theorem C05_nan_inf_proposals p lo hi : exists r, xclamp p lo hi = clamp Rops r lo hi.
Proof. exact (xclamp_is_real p lo hi). Qed.
Print Assumptions C05_nan_inf_proposals.

(* the hypothesis 0 < minDtFrac is necessary: with minDtFrac = 0 and proposals 0 no budget suffices *)
Theorem C05_zero_min_refuted snap fuel :
  finished Rops (solveTo Rops snap (fun _ => 0) (fun _ => false) fuel 0 1 0 1) = false.
Proof. exact (zero_min_refuted snap fuel). Qed.
Print Assumptions C05_zero_min_refuted.
Close Scope R_scope.

(* ---- any scalar record (reals, rationals, binary64) ---------------------------------------------- *)
(* a stop request from the model ends the run at that step; no step is taken after it and none is
   skipped before it; without a request the run ended because currTime < tf became false *)
Theorem C05_stops_at_first (O : Ops) snap propose stop fuel t0 tf fmin fmax l :
  solveTo O snap propose stop fuel t0 tf fmin fmax = Done l ->
  match first_true stop (length l) with
  | Some j => length l = S j /\ stop j = true /\ (forall i, (i < j)%nat -> stop i = false)
  | None => ltb O (last (map fst l) t0) tf = false /\ (forall i, (i < length l)%nat -> stop i = false)
  end.
Proof. exact (solveTo_stops O snap propose stop fuel t0 tf fmin fmax l). Qed.
Print Assumptions C05_stops_at_first.

(* a larger step budget does not change a finished run *)
Theorem C05_budget_irrelevant (O : Ops) snap propose stop tf dtmin fuel k t dtmax l :
  loop O snap propose stop tf dtmin fuel k t dtmax = Done l ->
  loop O snap propose stop tf dtmin (S fuel) k t dtmax = Done l.
Proof. exact (loop_fuel_mono O snap propose stop tf dtmin fuel k t dtmax l). Qed.
Print Assumptions C05_budget_irrelevant.

(* ---- the clock on IEEE binary64, repaired line 215, every proposal including NaN and infinities --- *)
Open Scope float_scope.

(* never beyond the end time, never backwards, steps between 0 and the computed dtmax, and a finished
   run without stop request ends at tf exactly (float equality) *)
Theorem C05_f64_time_contract propose stop fuel t0 tf fmin fmax :
  let dtmin := fmin * (tf - t0) in
  let dtmax := fmax * (tf - t0) in
  let r := solveTo F64ops true propose stop fuel t0 tf fmin fmax in
  let ts := times F64ops r in
  is_finite t0 = true -> is_finite tf = true -> (t0 <=? tf) = true ->
  is_finite (tf - t0) = true ->
  is_finite dtmin = true -> (0 <=? dtmin) = true ->
  is_finite dtmax = true -> (0 <=? dtmax) = true ->
  Forall (fun t => (t <=? tf) = true) ts /\
  Sorted (fun a b => (a <=? b) = true) (t0 :: ts) /\
  Forall (fun d => (0 <=? d) = true /\ (d <=? dtmax) = true) (steps F64ops r) /\
  (finished F64ops r = true ->
   match first_true stop (length ts) with
   | Some j => length ts = S j
   | None => (last ts t0 =? tf) = true
   end).
Proof. exact (f64_contract propose stop fuel t0 tf fmin fmax). Qed.
Print Assumptions C05_f64_time_contract.

(* when the minimum step is resolvable at every time of the interval (t + dtmin > t in binary64),
   accepted times are strictly increasing and every step that does not land on tf is >= dtmin *)
Theorem C05_f64_times_strict propose stop fuel t0 tf fmin fmax :
  let dtmin := fmin * (tf - t0) in
  let dtmax := fmax * (tf - t0) in
  let r := solveTo F64ops true propose stop fuel t0 tf fmin fmax in
  is_finite t0 = true -> is_finite tf = true ->
  is_finite (tf - t0) = true ->
  is_finite dtmin = true -> (0 <? dtmin) = true ->
  is_finite dtmax = true -> (dtmin <=? dtmax) = true ->
  (forall t, is_finite t = true -> (t0 <=? t) = true -> (t <? tf) = true -> (t <? t + dtmin) = true) ->
  Sorted (fun a b => (a <? b) = true) (t0 :: times F64ops r) /\
  Forall (fun p => fst p = tf \/ (dtmin <=? snd p) = true) (pairs F64ops r).
Proof. exact (f64_strict propose stop fuel t0 tf fmin fmax). Qed.
Print Assumptions C05_f64_times_strict.

(* the tree before the repair overshoots the end time in the last bit: solve(0.3) from t0 = 0 with a
   model that proposes dt = 0.03 and then anything large ends at 0.30000000000000004 *)
Theorem C05_f64_overshoot_before_repair :
  exists props t0 simTime,
    let r := solve F64ops false (script props infinity) (fun _ => false) 10 t0 simTime 0x1p-27 1 in
    finished F64ops r = true /\ (t0 + simTime <? last (times F64ops r) t0) = true.
Proof. exact overshoot_witness. Qed.
Print Assumptions C05_f64_overshoot_before_repair.

(* the resolvability hypothesis of C05_f64_times_strict is necessary: from t0 = 1e9 with
   simTime = 1, minDtFrac = 1e-8 and a model proposing dt = 0 the clock never moves, for any budget *)
Theorem C05_f64_absorption_refuted : forall fuel,
  exists l, solve F64ops true (fun _ => 0) (fun _ => false) fuel 0x1.dcd65p+29 1 0x1.5798ee2308c3ap-27 1 = NoFuel l /\
            length l = fuel /\ Forall (fun p => fst p = 0x1.dcd65p+29) l.
Proof. exact absorption_witness. Qed.
Print Assumptions C05_f64_absorption_refuted.
Close Scope float_scope.

(* ---- hook registration (DESolver.setFunctions) ------------------------------------------------------ *)
(* after any sequence of setFunctions calls each slot holds the hook of the last call that gave one for
   that slot (a call that omits a hook keeps the one registered before); calls commute unless they give
   the same slot *)
Theorem C05_hooks_last_given calls :
  slot_pre (hooks_after calls) = last_given (map slot_pre calls) /\
  slot_post (hooks_after calls) = last_given (map slot_post calls) /\
  slot_header (hooks_after calls) = last_given (map slot_header calls) /\
  slot_status (hooks_after calls) = last_given (map slot_status calls).
Proof. exact (hooks_last_given calls). Qed.
Print Assumptions C05_hooks_last_given.

Theorem C05_setFunctions_keeps_post h a c d : slot_post (setFunctions h (a, None, c, d)) = slot_post h.
Proof. exact (setFunctions_keeps_post h a c d). Qed.
Print Assumptions C05_setFunctions_keeps_post.

(* ---- state layout ------------------------------------------------------------------------------------ *)
(* unflattenX(flattenX(X), X_ref) = X whenever X_ref has the layout of X (scalars / 1-D arrays) *)
Theorem C05_unflatten_flatten (A : Type) (s ref : state A) :
  signature A ref = signature A s -> unflatten A (flatten A s) ref = Some s.
Proof. exact (unflatten_flatten A s ref). Qed.
Print Assumptions C05_unflatten_flatten.

(* for ANY flat array with enough entries unflattenX succeeds and returns a state with the nested
   structure and array lengths of the reference, filled with the entries in order *)
Theorem C05_shape_preserved (A : Type) (flat : list A) (ref : state A) :
  (size A ref <= length flat)%nat ->
  exists s, unflatten A flat ref = Some s /\ signature A s = signature A ref /\
            flatten A s = firstn (size A ref) flat.
Proof. exact (shape_preserved A flat ref). Qed.
Print Assumptions C05_shape_preserved.

(* both built-in iterators hand only correctly shaped states to getdXdt / correctdXdt / postProcess,
   for any model whose derivative has the layout of its state *)
Theorem C05_callback_shapes_euler (A : Type) ax (f corr : nat -> state A -> state A) X0 :
  (forall j s, signature A (f j s) = signature A s) ->
  (forall j s, signature A (corr j s) = signature A s) ->
  Forall (fun s => signature A s = signature A X0) (fst (euler_step A ax f corr X0)) /\
  signature A (snd (euler_step A ax f corr X0)) = signature A X0.
Proof. exact (fun Hf Hc => euler_shapes A ax f corr Hf Hc X0). Qed.
Print Assumptions C05_callback_shapes_euler.

Theorem C05_callback_shapes_rk4 (A : Type) ax sc (f corr : nat -> state A -> state A) X0 :
  (forall j s, signature A (f j s) = signature A s) ->
  (forall j s, signature A (corr j s) = signature A s) ->
  Forall (fun s => signature A s = signature A X0) (fst (rk4_step A ax sc f corr X0)) /\
  signature A (snd (rk4_step A ax sc f corr X0)) = signature A X0.
Proof. exact (fun Hf Hc => rk4_shapes A ax sc f corr Hf Hc X0). Qed.
Print Assumptions C05_callback_shapes_rk4.

(* Coupler: unflattening what was just flattened returns every sub-model's state, for sub-models
   whose own flatten / unflatten pair is consistent (the default pair is, next theorem) *)
Theorem C05_coupler_roundtrip (A St : Type) (ms : list (codec A St)) (X R : list St) :
  all3 A St (consistent A St) ms X R ->
  cunflatten A St ms (snd (cflatten A St ms X)) (fst (cflatten A St ms X)) R = Some X.
Proof. exact (coupler_roundtrip A St ms X R). Qed.
Print Assumptions C05_coupler_roundtrip.

(* in that round trip every sub-model's own unflattenX is handed exactly the values its own flattenX
   produced - no more (sub-models whose instructions reshape what they are given rely on it), wherever
   the model sits in the list *)
Theorem C05_coupler_args_exact (A St : Type) (ms : list (codec A St)) (X R : list St) :
  length X = length ms -> length R = length ms ->
  cunflatten_args A St ms (snd (cflatten A St ms X)) (fst (cflatten A St ms X)) R
  = map (fun mx => fl A St (fst mx) (snd mx)) (combine ms X).
Proof. exact (coupler_args_exact A St ms X R). Qed.
Print Assumptions C05_coupler_args_exact.

(* overridden instructions of the kind kawin ships (reshape to the reference shape) and instructions
   whose shape follows from the data (reshape(-1, c)) are consistent on exactly their own values; the
   first kind fails on anything longer *)
Theorem C05_strict_codec_consistent (A : Type) (x ref : state A) :
  signature A ref = signature A x -> consistent A (state A) (strict_codec A) x ref.
Proof. exact (strict_codec_consistent A x ref). Qed.
Print Assumptions C05_strict_codec_consistent.

Theorem C05_greedy_codec_consistent (A : Type) (c : nat) (d : list A) (ref : state A) :
  (length d mod c = 0)%nat -> consistent A (state A) (greedy_codec A c) [Arr d] ref.
Proof. exact (greedy_codec_consistent A c d ref). Qed.
Print Assumptions C05_greedy_codec_consistent.

Theorem C05_strict_codec_rejects_extra (A : Type) (x : state A) (extra : list A) :
  extra <> [] -> unfl A (state A) (strict_codec A) (flatten A x ++ extra) x = None.
Proof. exact (strict_codec_rejects_extra A x extra). Qed.
Print Assumptions C05_strict_codec_rejects_extra.

Theorem C05_default_codec_consistent (A : Type) (x ref : state A) :
  signature A ref = signature A x -> consistent A (state A) (default_codec A) x ref.
Proof. exact (unflatten_flatten A x ref). Qed.
Print Assumptions C05_default_codec_consistent.

(* the _sizeRef register: at EVERY unflattenX call of a run (either iterator, any number of
   iterations, state layout changing between iterations) the register holds the sizes of the reference
   state the call is given *)
Theorem C05_coupler_sizeRef_inv (A St : Type) (ms : list (codec A St)) it script reg :
  Forall (fun s => compat A St ms it (fst s) (fst (snd s)) (snd (snd s))) script ->
  Forall (fun p => fst p = snd p) (exec A St ms reg (run_events St it script)).
Proof. exact (run_reads_ok A St ms it script reg). Qed.
Print Assumptions C05_coupler_sizeRef_inv.
