(* C05 - lemmas: the clock on any scalar record (stop structure) and on the reals (time contract),
   state layout (flatten / unflatten, Coupler register).  The binary64 lemmas are in ProofsF64.v. *)
From Coq Require Import Reals List Bool ZArith Arith Lia Lra Sorted.
Require Import Kawin.Common.Ops Kawin.C05.Model.
Import ListNotations.

(* ========================================================================================== *)
(* Stop structure: holds for EVERY scalar record (reals, rationals, binary64)                  *)
Section Generic.
Variable O : Ops.
Variables (snap : bool) (propose : nat -> T O) (stop : nat -> bool) (tf dtmin : T O).

Lemma last_indep {A} (l : list A) : forall y d d', last (y :: l) d = last (y :: l) d'.
Proof. induction l as [|z l IH]; intros; [reflexivity|]. change (last (z :: l) d = last (z :: l) d'). apply IH. Qed.
Lemma last_cons {A} (x : A) l d : last (x :: l) d = last l x.
Proof. destruct l as [|y l]; [reflexivity|]. change (last (y :: l) d = last (y :: l) x). apply last_indep. Qed.

Lemma pairs_rcons x r : pairs O (rcons O x r) = x :: pairs O r.
Proof. destruct r; reflexivity. Qed.
Lemma finished_rcons x r : finished O (rcons O x r) = finished O r.
Proof. destruct r; reflexivity. Qed.

(* a finished run made exactly the steps up to the first stop request; without one it ended because
   the loop condition  currTime < tf  became false *)
Lemma loop_stops : forall fuel k t dtmax l,
  loop O snap propose stop tf dtmin fuel k t dtmax = Done l ->
  match first_true_from stop k (length l) with
  | Some j => (k + length l = S j)%nat
  | None => ltb O (last (map fst l) t) tf = false
  end.
Proof.
  induction fuel as [|f IH]; intros k t dtmax l H; simpl in H; [discriminate|].
  destruct (ltb O t tf) eqn:Elt.
  - destruct (stop k) eqn:Es.
    + inversion H; subst l. simpl. rewrite Es. lia.
    + destruct (loop O snap propose stop tf dtmin f (S k) _ _) as [l'|l'] eqn:El; simpl in H; [|discriminate].
      inversion H; subst l. apply IH in El. cbn [length first_true_from]. rewrite Es.
      destruct (first_true_from stop (S k) (length l')).
      * lia.
      * cbn [map fst]. rewrite last_cons. exact El.
  - inversion H; subst l. simpl. exact Elt.
Qed.

(* an unfinished run (step budget exhausted) has seen no stop request *)
Lemma loop_nofuel_nostop : forall fuel k t dtmax l,
  loop O snap propose stop tf dtmin fuel k t dtmax = NoFuel l ->
  first_true_from stop k (length l) = None.
Proof.
  induction fuel as [|f IH]; intros k t dtmax l H; simpl in H.
  - inversion H; reflexivity.
  - destruct (ltb O t tf); [|discriminate]. destruct (stop k) eqn:Es; [discriminate|].
    destruct (loop O snap propose stop tf dtmin f (S k) _ _) as [l'|l'] eqn:El; simpl in H; [discriminate|].
    inversion H; subst l. cbn [length first_true_from]. rewrite Es. eapply IH; eauto.
Qed.

(* no stop flag is raised before the last step of a run *)
Lemma first_true_from_spec : forall n k j, first_true_from stop k n = Some j ->
  (k <= j < k + n)%nat /\ stop j = true /\ forall i, (k <= i < j)%nat -> stop i = false.
Proof.
  induction n as [|n IH]; intros k j H; simpl in H; [discriminate|].
  destruct (stop k) eqn:Es.
  - inversion H; subst j. repeat split; try lia; auto; try (intros i Hi; lia).
  - apply IH in H. destruct H as (H1 & H2 & H3). repeat split; try lia; auto.
    intros i Hi. destruct (Nat.eq_dec i k); [subst; auto|apply H3; lia].
Qed.
Lemma first_true_from_none : forall n k, first_true_from stop k n = None ->
  forall i, (k <= i < k + n)%nat -> stop i = false.
Proof.
  induction n as [|n IH]; intros k H i Hi; [lia|]. simpl in H. destruct (stop k) eqn:Es; [discriminate|].
  destruct (Nat.eq_dec i k); [subst; auto|]. apply (IH (S k)); auto; lia.
Qed.
End Generic.

(* any scalar record: the stop structure of a finished run of DESolver.solve *)
Lemma solveTo_stops (O : Ops) snap propose stop fuel t0 tf fmin fmax l :
  solveTo O snap propose stop fuel t0 tf fmin fmax = Done l ->
  match first_true stop (length l) with
  | Some j => length l = S j /\ stop j = true /\ (forall i, (i < j)%nat -> stop i = false)
  | None => ltb O (last (map fst l) t0) tf = false /\ (forall i, (i < length l)%nat -> stop i = false)
  end.
Proof.
  unfold solveTo. intros H. pose proof (loop_stops O _ _ _ _ _ _ _ _ _ _ H) as Hs.
  unfold first_true. destruct (first_true_from stop 0 (length l)) as [j|] eqn:E.
  - destruct (first_true_from_spec stop _ _ _ E) as (H1 & H2 & H3). repeat split; auto; try lia.
    intros i Hi. apply H3. lia.
  - split; auto. intros i Hi. eapply first_true_from_none; eauto. lia.
Qed.


(* ========================================================================================== *)
(* The clock on the reals                                                                      *)
Section Reals.
Open Scope R_scope.
Tactic Notation "lra" := (cbn [T Rops] in *; Lra.lra).
Tactic Notation "lia" := (cbn [T Rops] in *; Lia.lia).

Lemma clamp_R p lo hi :
  Rmin lo hi <= clamp Rops p lo hi <= hi.
Proof.
  unfold clamp. Rnorm.
  destruct (Rltb lo p) eqn:E1; destruct (Rltb _ hi) eqn:E2; Rbool;
    unfold Rmin; destruct (Rle_dec lo hi); lra.
Qed.

Lemma shrink_R dtmax rem : shrink Rops dtmax rem = Rmin dtmax rem.
Proof.
  unfold shrink. Rnorm. destruct (Rltb rem dtmax) eqn:E; Rbool; unfold Rmin; destruct (Rle_dec dtmax rem); lra.
Qed.

(* on the reals both versions of line 215 are the same function whenever dt <= tf - t *)
Lemma advance_R snap t tf dt : dt <= tf - t -> advance Rops snap t tf dt = t + dt.
Proof.
  intros H. unfold advance. Rnorm. destruct snap; auto.
  destruct (Rleb (tf - t) dt) eqn:E; Rbool; lra.
Qed.

Section Run.
Variables (snap : bool) (propose : nat -> R) (stop : nat -> bool).
Variables (t0 tf dtmin dtmax0 : R).
Hypothesis Hmin : 0 < dtmin.
Hypothesis Hminmax : dtmin <= dtmax0.

(* what the property says about a run that starts at time t: every accepted time is the previous one
   plus the accepted step, the step was taken before the end time and lies between
   min(dtmin, remaining) and min(dtmax, remaining) *)
Fixpoint chain (t : R) (l : list (R * R)) : Prop :=
  match l with
  | [] => True
  | (t', dt) :: r =>
      t' = t + dt /\ t < tf /\ Rmin dtmin (tf - t) <= dt <= Rmin dtmax0 (tf - t) /\ chain t' r
  end.

(* invariant of the self._dtmax register *)
Definition reg_inv (t dtmax : R) : Prop := dtmax <= dtmax0 /\ (dtmax = dtmax0 \/ tf - t <= dtmax).

Lemma Rmin_reg t dtmax : reg_inv t dtmax -> Rmin dtmax (tf - t) = Rmin dtmax0 (tf - t).
Proof.
  intros [H1 [H2|H2]]; [subst; auto|]. unfold Rmin.
  destruct (Rle_dec dtmax (tf - t)); destruct (Rle_dec dtmax0 (tf - t)); lra.
Qed.

Lemma step_R t dtmax p : t < tf -> reg_inv t dtmax ->
  let dtmax' := shrink Rops dtmax (tf - t) in
  let dt := clamp Rops p dtmin dtmax' in
  let t' := advance Rops snap t tf dt in
  t' = t + dt /\ Rmin dtmin (tf - t) <= dt <= Rmin dtmax0 (tf - t) /\ 0 < dt /\ reg_inv t' dtmax'.
Proof.
  intros Ht Hinv dtmax' dt t'.
  assert (Hd : dtmax' = Rmin dtmax0 (tf - t)) by (unfold dtmax'; rewrite shrink_R; apply Rmin_reg; auto).
  assert (Hc := clamp_R p dtmin dtmax'). fold dt in Hc.
  assert (Hdm : dtmax' <= tf - t) by (rewrite Hd; apply Rmin_r).
  assert (Hdm0 : dtmax' <= dtmax0) by (rewrite Hd; apply Rmin_l).
  assert (Hpos : 0 < dtmax') by (rewrite Hd; unfold Rmin; destruct (Rle_dec dtmax0 (tf - t)); lra).
  assert (Hlow : Rmin dtmin (tf - t) <= dt).
  { eapply Rle_trans; [|apply Hc]. rewrite Hd. unfold Rmin.
    destruct (Rle_dec dtmin (tf - t)); destruct (Rle_dec dtmax0 (tf - t));
      destruct (Rle_dec dtmin dtmax0); destruct (Rle_dec dtmin (tf - t)); lra. }
  assert (Hdtpos : 0 < dt).
  { eapply Rlt_le_trans; [|apply Hc]. unfold Rmin. destruct (Rle_dec dtmin dtmax'); lra. }
  assert (Ht' : t' = t + dt) by (unfold t'; apply advance_R; lra).
  split; [auto|]. split; [split; [auto|rewrite <- Hd; apply Hc]|]. split; [auto|].
  (* register invariant at t' *)
  destruct Hinv as [Hi1 Hi2]. split; [auto|].
  unfold dtmax' in *. rewrite shrink_R in *. unfold Rmin in *.
  destruct (Rle_dec dtmax (tf - t)).
  + destruct Hi2 as [Hi2|Hi2]; [left; auto|right; lra].
  + right. lra.
Qed.

Lemma loop_chain : forall fuel k t dtmax, reg_inv t dtmax ->
  chain t (pairs Rops (loop Rops snap propose stop tf dtmin fuel k t dtmax)).
Proof.
  induction fuel as [|f IH]; intros k t dtmax Hinv; simpl; auto.
  Rnorm. destruct (Rltb t tf) eqn:Elt; simpl; auto. Rbool.
  destruct (step_R t dtmax (propose k) Elt Hinv) as (H1 & H2 & H3 & H4).
  destruct (stop k); [simpl; repeat split; auto; lra|].
  rewrite pairs_rcons. simpl. repeat split; auto; try lra.
Qed.

(* termination: a run needs at most one step per dtmin of remaining time, plus the final test *)
Lemma loop_finishes : forall n fuel k t dtmax, (n < fuel)%nat -> reg_inv t dtmax ->
  tf - t <= INR n * dtmin ->
  finished Rops (loop Rops snap propose stop tf dtmin fuel k t dtmax) = true.
Proof.
  induction n as [|n IH]; intros fuel k t dtmax Hf Hinv Hrem;
    (destruct fuel as [|f]; [lia|]); simpl; Rnorm.
  - destruct (Rltb t tf) eqn:Elt; auto. Rbool. simpl in Hrem. lra.
  - destruct (Rltb t tf) eqn:Elt; auto. Rbool.
    destruct (step_R t dtmax (propose k) Elt Hinv) as (H1 & H2 & H3 & H4).
    destruct (stop k); auto. rewrite finished_rcons. apply IH; auto; [lia|].
    rewrite H1. rewrite S_INR in Hrem.
    destruct H2 as [Hlo Hhi]. unfold Rmin in Hlo. destruct (Rle_dec dtmin (tf - t)).
    + lra.
    + unfold Rmin in Hhi. destruct (Rle_dec dtmax0 (tf - t)); [lra|].
      assert (0 <= INR n * dtmin) by (apply Rmult_le_pos; [apply pos_INR|lra]). lra.
Qed.

(* consequences of [chain] in the vocabulary of the property *)
Lemma chain_le_tf : forall l t, chain t l -> Forall (fun x => x <= tf) (map fst l).
Proof.
  induction l as [|[t' dt] l IH]; intros t H; simpl; constructor.
  - destruct H as (H1 & H2 & [_ H3] & _). simpl. subst t'.
    assert (Rmin dtmax0 (tf - t) <= tf - t) by apply Rmin_r. lra.
  - destruct H as (_ & _ & _ & H). eapply IH; eauto.
Qed.

Lemma chain_pos : forall l t, chain t l -> Forall (fun p => 0 < snd p) l.
Proof.
  induction l as [|[t' dt] l IH]; intros t H; simpl; constructor.
  - destruct H as (H1 & H2 & [H3 _] & _). simpl. unfold Rmin in H3. destruct (Rle_dec dtmin (tf - t)); lra.
  - destruct H as (_ & _ & _ & H). eapply IH; eauto.
Qed.

Lemma chain_sorted : forall l t, chain t l -> Sorted Rlt (t :: map fst l).
Proof.
  induction l as [|[t' dt] l IH]; intros t H; simpl.
  - repeat constructor.
  - assert (Hp := chain_pos _ _ H). inversion Hp as [|? ? Hp1 Hp2]; subst. simpl in *.
    destruct H as (Ha & Hb & Hc & Hd). constructor; [apply IH; auto|constructor; lra].
Qed.

Lemma chain_steps : forall l t k tk tk',
  chain t l -> nth_error (t :: map fst l) k = Some tk -> nth_error (map fst l) k = Some tk' ->
  Rmin dtmin (tf - tk) <= tk' - tk <= Rmin dtmax0 (tf - tk) /\ nth_error (map snd l) k = Some (tk' - tk).
Proof.
  induction l as [|[t' dt] l IH]; intros t k tk tk' H Hk Hk'; [destruct k; discriminate|].
  destruct H as (H1 & H2 & H3 & H4). destruct k as [|k]; simpl in *.
  - injection Hk as <-. injection Hk' as <-. subst t'. replace (t + dt - t) with dt by lra. split; auto.
  - eapply IH; eauto.
Qed.

Lemma chain_last_le : forall l t, chain t l -> t <= tf -> last (map fst l) t <= tf.
Proof.
  induction l as [|[t' dt] l IH]; intros t H Ht; [simpl; auto|].
  cbn [map fst]. rewrite last_cons. destruct H as (H1 & H2 & [_ H3] & H4). apply IH; auto.
  assert (Rmin dtmax0 (tf - t) <= tf - t) by apply Rmin_r. lra.
Qed.
End Run.

(* the time contract of DESolver.solve on the reals, for either version of line 215 *)
Lemma solver_contract_R snap propose stop t0 tf fmin fmax :
  t0 < tf -> 0 < fmin <= fmax ->
  exists l, solveTo Rops snap propose stop (2 + Z.to_nat (up (/ fmin))) t0 tf fmin fmax = Done l /\
    let ts := map fst l in
    StronglySorted Rlt (t0 :: ts) /\ Forall (fun t => t <= tf) ts /\
    (forall k tk tk', nth_error (t0 :: ts) k = Some tk -> nth_error ts k = Some tk' ->
        Rmin (fmin * (tf - t0)) (tf - tk) <= tk' - tk <= Rmin (fmax * (tf - t0)) (tf - tk)
        /\ nth_error (map snd l) k = Some (tk' - tk)) /\
    match first_true stop (length ts) with
    | Some j => length ts = S j
    | None => last ts t0 = tf
    end.
Proof.
  intros Ht [Hf1 Hf2]. unfold solveTo. Rnorm.
  set (dtmin := fmin * (tf - t0)). set (dtmax0 := fmax * (tf - t0)).
  assert (Hmin : 0 < dtmin) by (unfold dtmin; apply Rmult_lt_0_compat; lra).
  assert (Hmm : dtmin <= dtmax0) by (unfold dtmin, dtmax0; apply Rmult_le_compat_r; lra).
  assert (Hinv : reg_inv tf dtmax0 t0 dtmax0) by (split; [lra|left; auto]).
  set (fuel := (2 + Z.to_nat (up (/ fmin)))%nat).
  assert (Hfin : finished Rops (loop Rops snap propose stop tf dtmin fuel 0 t0 dtmax0) = true).
  { apply (loop_finishes snap propose stop tf dtmin dtmax0 Hmin Hmm (Z.to_nat (up (/ fmin)))); auto.
    - unfold fuel. lia.
    - rewrite INR_IZR_INZ. rewrite Z2Nat.id.
      + destruct (archimed (/ fmin)) as [Ha _].
        assert (1 <= IZR (up (/ fmin)) * fmin).
        { apply Rmult_le_reg_r with (/ fmin); [apply Rinv_0_lt_compat; lra|].
          rewrite Rmult_assoc, Rinv_r by lra. lra. }
        unfold dtmin. nra.
      + apply le_IZR. destruct (archimed (/ fmin)) as [Ha _].
        assert (0 < / fmin) by (apply Rinv_0_lt_compat; lra). lra. }
  assert (Hch := loop_chain snap propose stop tf dtmin dtmax0 Hmin Hmm fuel 0%nat t0 dtmax0 Hinv).
  destruct (loop Rops snap propose stop tf dtmin fuel 0 t0 dtmax0) as [l|l] eqn:El; [|discriminate].
  exists l. split; auto. cbn zeta. simpl in Hch.
  split; [|split; [|split]].
  - apply Sorted_StronglySorted; [intros x y z; apply Rlt_trans|]. eapply chain_sorted; eauto.
  - eapply chain_le_tf; eauto.
  - intros k tk tk' H1 H2. eapply chain_steps; eauto.
  - rewrite map_length. assert (Hs := loop_stops Rops _ _ _ _ _ _ _ _ _ _ El).
    unfold first_true. cbn [T Rops] in *. destruct (first_true_from stop 0 (length l)); [simpl in Hs; lia|].
    assert (Hle : t0 <= tf) by lra. assert (Hl := chain_last_le tf dtmin dtmax0 l t0 Hch Hle). Rnorm. Rbool. lra.
Qed.

(* GenericModel.solve(simTime): the model is advanced from t0 to exactly t0 + simTime *)
Lemma solve_contract_R snap propose stop t0 simTime fmin fmax :
  0 < simTime -> 0 < fmin <= fmax ->
  exists l, solve Rops snap propose stop (2 + Z.to_nat (up (/ fmin))) t0 simTime fmin fmax = Done l /\
    let ts := map fst l in
    StronglySorted Rlt (t0 :: ts) /\ Forall (fun t => t <= t0 + simTime) ts /\
    (forall k tk tk', nth_error (t0 :: ts) k = Some tk -> nth_error ts k = Some tk' ->
        Rmin (fmin * simTime) (t0 + simTime - tk) <= tk' - tk <= Rmin (fmax * simTime) (t0 + simTime - tk)) /\
    match first_true stop (length ts) with
    | Some j => length ts = S j
    | None => last ts t0 = t0 + simTime
    end.
Proof.
  intros Hs Hf. unfold solve. Rnorm.
  destruct (solver_contract_R snap propose stop t0 (t0 + simTime) fmin fmax ltac:(lra) Hf) as (l & H1 & H2 & H3 & H4 & H5).
  exists l. split; auto. cbn zeta. split; [auto|]. split; [auto|]. split; [|auto].
  intros k tk tk' Ha Hb. destruct (H4 k tk tk' Ha Hb) as [[Hc Hd] _].
  replace (t0 + simTime - t0) with simTime in * by lra. lra.
Qed.

(* more fuel never changes a finished run: the bound of [solver_contract_R] is not special *)
Lemma loop_fuel_mono (O : Ops) snap propose stop tf dtmin : forall fuel k t dtmax l,
  loop O snap propose stop tf dtmin fuel k t dtmax = Done l ->
  loop O snap propose stop tf dtmin (S fuel) k t dtmax = Done l.
Proof.
  induction fuel as [|f IH]; intros k t dtmax l H; [discriminate|].
  remember (S f) as f1. simpl. simpl in H. subst f1.
  cbn [loop] in H. destruct (ltb O t tf); auto. destruct (stop k); auto.
  destruct (loop O snap propose stop tf dtmin f (S k) _ _) as [l'|l'] eqn:El; simpl in H; [|discriminate].
  apply IH in El. rewrite El. exact H.
Qed.

(* the hypothesis 0 < fmin is necessary: with minDtFrac = 0 and a model that proposes dt = 0 the
   loop never ends, whatever the step budget *)
Lemma zero_min_never_finishes snap : forall fuel k t dtmax, t = 0 -> dtmax = 1 ->
  finished Rops (loop Rops snap (fun _ => 0) (fun _ => false) 1 0 fuel k t dtmax) = false.
Proof.
  induction fuel as [|f IH]; intros k t dtmax Ht Hd; simpl; auto. Rnorm. subst.
  destruct (Rltb 0 1) eqn:E; Rbool; [|lra]. rewrite finished_rcons. apply IH.
  - unfold clamp, shrink, advance. Rnorm.
    assert (E1 : Rltb (1 - 0) 1 = false) by (apply Rltb_false; lra). rewrite E1.
    assert (E2 : Rltb 0 0 = false) by (apply Rltb_false; lra). rewrite E2.
    assert (E3 : Rltb 0 1 = true) by (apply Rltb_true; lra). rewrite E3.
    destruct snap; [|lra].
    assert (E4 : Rleb (1 - 0) 0 = false) by (apply Rleb_false; lra). rewrite E4. lra.
  - unfold shrink. Rnorm. assert (E1 : Rltb (1 - 0) 1 = false) by (apply Rltb_false; lra). rewrite E1. auto.
Qed.

Lemma zero_min_refuted snap fuel :
  finished Rops (solveTo Rops snap (fun _ => 0) (fun _ => false) fuel 0 1 0 1) = false.
Proof.
  unfold solveTo. Rnorm. replace (0 * (1 - 0)) with 0 by lra.
  apply zero_min_never_finishes; auto. lra.
Qed.

(* NaN and infinite proposals: on binary64 the two comparisons of the clamp are false for NaN, and an
   infinite proposal compares like a value beyond every bound.  Extended proposals are therefore
   clamped exactly like some real proposal, so the theorems above cover them. *)
Inductive xprop := PReal (r : R) | PNaN | PPosInf | PNegInf.
Definition xclamp (p : xprop) (lo hi : R) : R :=
  match p with
  | PReal r => clamp Rops r lo hi
  | PNaN => if Rltb lo hi then lo else hi           (* NaN > lo false: lo; then lo < hi *)
  | PPosInf => hi                                   (* inf > lo; inf < hi false *)
  | PNegInf => if Rltb lo hi then lo else hi        (* -inf > lo false *)
  end.
Lemma xclamp_is_real p lo hi : exists r, xclamp p lo hi = clamp Rops r lo hi.
Proof.
  destruct p as [r| | |]; simpl.
  - exists r; auto.
  - exists lo. unfold clamp. Rnorm. assert (E : Rltb lo lo = false) by (apply Rltb_false; lra). rewrite E. auto.
  - exists (Rmax lo hi + 1). unfold clamp. Rnorm.
    assert (E : Rltb lo (Rmax lo hi + 1) = true) by (apply Rltb_true; pose proof (Rmax_l lo hi); lra). rewrite E.
    assert (E2 : Rltb (Rmax lo hi + 1) hi = false) by (apply Rltb_false; pose proof (Rmax_r lo hi); lra). rewrite E2. auto.
  - exists lo. unfold clamp. Rnorm. assert (E : Rltb lo lo = false) by (apply Rltb_false; lra). rewrite E. auto.
Qed.
End Reals.

(* ========================================================================================== *)
(* Hook registration and repeated solve() calls on one object                                  *)
Lemma fold_setFunctions_slots : forall calls h,
  let r := fold_left setFunctions calls h in
  slot_pre r = fold_left keep_or_set (map slot_pre calls) (slot_pre h) /\
  slot_post r = fold_left keep_or_set (map slot_post calls) (slot_post h) /\
  slot_header r = fold_left keep_or_set (map slot_header calls) (slot_header h) /\
  slot_status r = fold_left keep_or_set (map slot_status calls) (slot_status h).
Proof.
  induction calls as [|c calls IH]; intros h; [simpl; auto|].
  simpl. specialize (IH (setFunctions h c)). cbv zeta in IH.
  destruct h as [[[a b] c0] d]. destruct c as [[[a' b'] c'] d']. exact IH.
Qed.

(* each slot holds the hook of the LAST call that gave one for it, whatever was (not) given for the
   other slots before or after; never-given slots keep the default *)
Lemma hooks_last_given calls :
  slot_pre (hooks_after calls) = last_given (map slot_pre calls) /\
  slot_post (hooks_after calls) = last_given (map slot_post calls) /\
  slot_header (hooks_after calls) = last_given (map slot_header calls) /\
  slot_status (hooks_after calls) = last_given (map slot_status calls).
Proof. exact (fold_setFunctions_slots calls (None, None, None, None)). Qed.

(* a call that does not give postProcess keeps the one registered before *)
Lemma setFunctions_keeps_post h a c d : slot_post (setFunctions h (a, None, c, d)) = slot_post h.
Proof. destruct h as [[[x y] z] w]. reflexivity. Qed.

Section History.
Open Scope R_scope.
Tactic Notation "lra" := (cbn [T Rops] in *; Lra.lra).
Definition good_seg (s : seg Rops) : Prop :=
  0 < seg_sim Rops s /\ 0 < seg_fmin Rops s <= seg_fmax Rops s /\
  seg_fuel Rops s = (2 + Z.to_nat (up (/ seg_fmin Rops s)))%nat.

(* every call of a history honours the contract with ITS OWN duration and step fractions, starting
   where the previous call ended *)
Lemma history_contract snap : forall segs t0, Forall good_seg segs ->
  Forall2 (fun (s : seg Rops) (tr : R * run Rops) =>
     let t := fst tr in
     exists l, snd tr = Done l /\
       let ts := map fst l in
       StronglySorted Rlt (t :: ts) /\ Forall (fun x => x <= t + seg_sim Rops s) ts /\
       (forall k tk tk', nth_error (t :: ts) k = Some tk -> nth_error ts k = Some tk' ->
          Rmin (seg_fmin Rops s * seg_sim Rops s) (t + seg_sim Rops s - tk) <= tk' - tk
            <= Rmin (seg_fmax Rops s * seg_sim Rops s) (t + seg_sim Rops s - tk)) /\
       match first_true (seg_stop Rops s) (length ts) with
       | Some j => length ts = S j
       | None => last ts t = t + seg_sim Rops s
       end)
    segs (solve_history Rops snap t0 segs).
Proof.
  induction segs as [|s segs IH]; intros t0 H; [constructor|].
  inversion H as [|? ? Hs Hr]; subst. cbn [solve_history]. constructor; [|apply IH; auto].
  destruct Hs as (H1 & H2 & H3). cbn [fst snd]. rewrite H3.
  exact (solve_contract_R snap (seg_propose Rops s) (seg_stop Rops s) t0 (seg_sim Rops s) (seg_fmin Rops s) (seg_fmax Rops s) H1 H2).
Qed.
End History.

(* ========================================================================================== *)
(* State layout                                                                                *)
Section ShapeLemmas.
Variable A : Type.
Notation state := (state A).

Lemma flatten_length (s : state) : length (flatten A s) = size A s.
Proof.
  induction s as [|x s IH]; simpl; auto. unfold flatten, size in *. simpl. rewrite app_length, IH.
  destruct x; reflexivity.
Qed.

Lemma size_signature (s s' : state) : signature A s = signature A s' -> size A s = size A s'.
Proof.
  revert s'; induction s as [|x s IH]; intros [|y s'] H; simpl in *; try discriminate; auto.
  inversion H. unfold size in *. simpl. f_equal; [|apply IH; auto].
  destruct x, y; simpl in *; try discriminate; auto. congruence.
Qed.

Lemma slice_app_exact (pre d post : list A) : slice A (pre ++ d ++ post) (length pre) (length d) = d.
Proof.
  unfold slice. rewrite skipn_app, skipn_all, Nat.sub_diag. simpl.
  rewrite firstn_app, firstn_all, Nat.sub_diag. simpl. apply app_nil_r.
Qed.

(* unflattenX(flattenX(X), X_ref) = X whenever X_ref has the layout of X *)
Lemma unflatten_from_flatten : forall (s ref : state) (pre post : list A),
  signature A ref = signature A s ->
  unflatten_from A (pre ++ flatten A s ++ post) (length pre) ref = Some s.
Proof.
  induction s as [|x s IH]; intros [|r ref] pre post H; simpl in H; try discriminate; auto.
  inversion H as [[H1 H2]]. unfold flatten. simpl. rewrite <- app_assoc.
  destruct x as [a|d]; destruct r as [a'|d']; simpl in H1; try discriminate.
  - simpl. rewrite nth_error_app2 by lia. rewrite Nat.sub_diag. simpl.
    specialize (IH ref (pre ++ [a]) post H2). rewrite app_length in IH. simpl in IH.
    rewrite Nat.add_1_r in IH. rewrite <- app_assoc in IH. simpl in IH. unfold flatten in IH. rewrite IH. auto.
  - simpl. inversion H1 as [Hl]. rewrite Hl. rewrite slice_app_exact. rewrite Nat.eqb_refl.
    specialize (IH ref (pre ++ d) post H2). rewrite app_length in IH. rewrite <- app_assoc in IH.
    unfold flatten in IH. rewrite IH. auto.
Qed.

Lemma unflatten_flatten (s ref : state) : signature A ref = signature A s ->
  unflatten A (flatten A s) ref = Some s.
Proof.
  intros H. unfold unflatten. pose proof (unflatten_from_flatten s ref [] [] H) as E.
  simpl in E. rewrite app_nil_r in E. exact E.
Qed.

Lemma slice_length (l : list A) n k : (n + k <= length l)%nat -> length (slice A l n k) = k.
Proof. intros H. unfold slice. rewrite firstn_length, skipn_length. lia. Qed.

Lemma firstn_plus (a b : nat) : forall m : list A, firstn (a + b) m = firstn a m ++ firstn b (skipn a m).
Proof. induction a as [|a IH]; intros [|x m]; simpl; auto; [destruct b; auto|]. f_equal. apply IH. Qed.
Lemma skipn_plus (n a : nat) : forall l : list A, skipn a (skipn n l) = skipn (n + a) l.
Proof. induction n as [|n IH]; intros [|x l]; simpl; auto. destruct a; auto. Qed.

Lemma slice_split (l : list A) n a b : slice A l n (a + b) = slice A l n a ++ slice A l (n + a) b.
Proof. unfold slice. rewrite firstn_plus, skipn_plus. reflexivity. Qed.

Lemma slice_one (l : list A) n a : nth_error l n = Some a -> slice A l n 1 = [a].
Proof.
  unfold slice. revert n. induction l as [|x l IH]; intros [|n] H; simpl in *; try discriminate.
  - inversion H; subst. destruct l; reflexivity.
  - apply IH; auto.
Qed.

(* given enough entries, unflattenX succeeds, returns the layout of the reference and consumes the
   entries in order *)
Lemma unflatten_from_shape : forall (ref : state) (flat : list A) n,
  (n + size A ref <= length flat)%nat ->
  exists s, unflatten_from A flat n ref = Some s /\ signature A s = signature A ref /\
            flatten A s = slice A flat n (size A ref).
Proof.
  induction ref as [|r ref IH]; intros flat n H.
  - exists []. simpl. repeat split; auto.
  - unfold size in H. simpl in H. fold (size A ref) in H.
    destruct r as [a|d]; simpl in *.
    + destruct (nth_error flat n) as [b|] eqn:E; [|apply nth_error_None in E; lia].
      destruct (IH flat (S n) ltac:(lia)) as (s & H1 & H2 & H3). rewrite H1. simpl.
      exists (Sc b :: s). repeat split; simpl; [f_equal; auto|].
      unfold flatten in *. simpl. unfold size. simpl. fold (size A ref).
      change (S (size A ref)) with (1 + size A ref)%nat. rewrite slice_split, H3.
      rewrite (slice_one _ _ _ E). rewrite Nat.add_1_r. reflexivity.
    + rewrite slice_length by lia. rewrite Nat.eqb_refl.
      destruct (IH flat (n + length d)%nat ltac:(lia)) as (s & H1 & H2 & H3). rewrite H1. simpl.
      exists (Arr (slice A flat n (length d)) :: s). repeat split; simpl.
      * rewrite slice_length by lia. f_equal; auto.
      * unfold flatten in *. simpl. unfold size. simpl. fold (size A ref). rewrite slice_split, H3. reflexivity.
Qed.

Lemma shape_preserved (flat : list A) (ref : state) : (size A ref <= length flat)%nat ->
  exists s, unflatten A flat ref = Some s /\ signature A s = signature A ref /\
            flatten A s = firstn (size A ref) flat.
Proof. intros H. apply (unflatten_from_shape ref flat 0%nat). simpl. exact H. Qed.

(* a scalar entry stays a scalar, an array entry keeps its length: entry by entry *)
Lemma signature_nth (s s' : state) k : signature A s = signature A s' ->
  option_map (sig1 A) (nth_error s k) = option_map (sig1 A) (nth_error s' k).
Proof.
  intros H. rewrite <- !nth_error_map. unfold signature in H. rewrite H. auto.
Qed.

(* ---- Coupler ------------------------------------------------------------------------------ *)
Variable St : Type.
Notation codec := (codec A St).

(* a sub-model's flatten / unflatten pair is consistent on (x, ref) when unflattening the flattened
   x against ref returns x - true for the default pair whenever ref has the layout of x *)
Fixpoint all3 (P : codec -> St -> St -> Prop) (ms : list codec) (X R : list St) : Prop :=
  match ms, X, R with
  | m :: ms', x :: X', r :: R' => P m x r /\ all3 P ms' X' R'
  | [], [], [] => True
  | _, _, _ => False
  end.
Definition consistent (m : codec) (x ref : St) : Prop := unfl A St m (fl A St m x) ref = Some x.

Lemma cunflatten_from_cflatten : forall (ms : list codec) (X R : list St) (pre post : list A),
  all3 consistent ms X R ->
  cunflatten_from A St ms (snd (cflatten A St ms X)) (pre ++ fst (cflatten A St ms X) ++ post) R (length pre) = Some X.
Proof.
  induction ms as [|m ms IH]; intros [|x X] [|r R] pre post H; simpl in H; try contradiction; auto.
  destruct H as [H1 H2]. unfold cflatten. simpl. rewrite <- app_assoc. rewrite slice_app_exact.
  unfold consistent in H1. rewrite H1.
  specialize (IH X R (pre ++ fl A St m x) post H2). rewrite app_length in IH. rewrite <- app_assoc in IH.
  unfold cflatten in IH. simpl in IH. rewrite IH. auto.
Qed.

(* every sub-model's unflattenX is handed exactly the values its own flattenX produced *)
Lemma cunflatten_args_from_cflatten : forall (ms : list codec) (X R : list St) (pre post : list A),
  length X = length ms -> length R = length ms ->
  cunflatten_args_from A St ms (snd (cflatten A St ms X)) (pre ++ fst (cflatten A St ms X) ++ post) R (length pre)
  = map (fun mx => fl A St (fst mx) (snd mx)) (combine ms X).
Proof.
  induction ms as [|m ms IH]; intros [|x X] [|r R] pre post HX HR; simpl in HX, HR; try discriminate; auto.
  unfold cflatten. simpl. rewrite <- app_assoc. rewrite slice_app_exact. f_equal.
  specialize (IH X R (pre ++ fl A St m x) post ltac:(lia) ltac:(lia)). rewrite app_length in IH. rewrite <- app_assoc in IH.
  unfold cflatten in IH. simpl in IH. exact IH.
Qed.

Lemma coupler_args_exact (ms : list codec) (X R : list St) :
  length X = length ms -> length R = length ms ->
  cunflatten_args A St ms (snd (cflatten A St ms X)) (fst (cflatten A St ms X)) R
  = map (fun mx => fl A St (fst mx) (snd mx)) (combine ms X).
Proof.
  intros HX HR. unfold cunflatten_args. pose proof (cunflatten_args_from_cflatten ms X R [] [] HX HR) as E.
  simpl in E. rewrite app_nil_r in E. exact E.
Qed.

Lemma coupler_roundtrip (ms : list codec) (X R : list St) : all3 consistent ms X R ->
  cunflatten A St ms (snd (cflatten A St ms X)) (fst (cflatten A St ms X)) R = Some X.
Proof.
  intros H. unfold cunflatten. pose proof (cunflatten_from_cflatten ms X R [] [] H) as E.
  simpl in E. rewrite app_nil_r in E. exact E.
Qed.

(* ---- the _sizeRef register over whole runs --------------------------------------------------- *)
Definition reads_ok (p : list nat * list nat) : Prop := fst p = snd p.

Fixpoint reg_after (ms : list codec) (reg : list nat) (evs : list (ev St)) : list nat :=
  match evs with
  | [] => reg
  | EvF x :: r => reg_after ms (sizes A St ms x) r
  | EvU _ :: r => reg_after ms reg r
  end.

Lemma exec_app ms : forall a reg b,
  exec A St ms reg (a ++ b) = exec A St ms reg a ++ exec A St ms (reg_after ms reg a) b.
Proof. induction a as [|[x|x] a IH]; intros reg b; simpl; auto. rewrite IH. auto. Qed.

Definition n_evals (it : iterator) : nat := match it with Euler => 1 | RK4 => 4 end.

(* the derivatives a model returns (and leaves after correctdXdt) flatten to the sizes of its state *)
Definition compat (ms : list codec) (it : iterator) (X0 : list St) (ds cs : list (list St)) : Prop :=
  forall j, (j < n_evals it)%nat ->
    sizes A St ms (nthS St ds j) = sizes A St ms X0 /\ sizes A St ms (nthS St cs j) = sizes A St ms X0.

Lemma step_reads_ok ms it reg X0 ds cs : compat ms it X0 ds cs ->
  Forall reads_ok (exec A St ms reg (step_events St it X0 ds cs)) /\
  reg_after ms reg (step_events St it X0 ds cs) = sizes A St ms X0.
Proof.
  intros H. destruct it; unfold compat, n_evals in H.
  - destruct (H 0%nat ltac:(lia)) as [H0 H0']. simpl. rewrite H0, H0'.
    split; auto. repeat constructor.
  - destruct (H 0%nat ltac:(lia)) as [H0 H0']. destruct (H 1%nat ltac:(lia)) as [H1 H1'].
    destruct (H 2%nat ltac:(lia)) as [H2 H2']. destruct (H 3%nat ltac:(lia)) as [H3 H3'].
    simpl. rewrite H0, H0', H1, H1', H2, H2', H3, H3'. split; auto. repeat constructor.
Qed.

Lemma run_reads_ok ms it : forall script reg,
  Forall (fun s => compat ms it (fst s) (fst (snd s)) (snd (snd s))) script ->
  Forall reads_ok (exec A St ms reg (run_events St it script)).
Proof.
  induction script as [|s script IH]; intros reg H; [constructor|].
  inversion H; subst. unfold run_events. simpl. rewrite exec_app. apply Forall_app. split.
  - apply step_reads_ok; auto.
  - apply IH; auto.
Qed.

End ShapeLemmas.

(* the two kinds of overridden instructions are consistent when handed exactly their own values *)
Lemma strict_codec_consistent (A : Type) (x ref : state A) :
  signature A ref = signature A x -> consistent A (state A) (strict_codec A) x ref.
Proof.
  intros H. unfold consistent, strict_codec. simpl.
  rewrite flatten_length, (size_signature A ref x H), Nat.eqb_refl. apply unflatten_flatten; auto.
Qed.
Lemma greedy_codec_consistent (A : Type) (c : nat) (d : list A) (ref : state A) :
  (length d mod c = 0)%nat -> consistent A (state A) (greedy_codec A c) [Arr d] ref.
Proof.
  intros H. unfold consistent, greedy_codec, flatten. simpl. rewrite app_nil_r, H. reflexivity.
Qed.
(* ... and NOT when handed more: the upper bound of the slice in Coupler.unflattenX matters *)
Lemma strict_codec_rejects_extra (A : Type) (x : state A) (extra : list A) :
  extra <> [] -> unfl A (state A) (strict_codec A) (flatten A x ++ extra) x = None.
Proof.
  intros H. unfold strict_codec. simpl. rewrite app_length, flatten_length.
  destruct extra as [|e extra]; [contradiction|]. simpl.
  destruct (Nat.eqb (size A x + S (length extra)) (size A x)) eqn:E; auto. apply Nat.eqb_eq in E. lia.
Qed.

(* ========================================================================================== *)
(* Shapes of everything the built-in iterators hand to the model's callbacks                    *)
Section IterLemmas.
Variable A : Type.
Variables (ax : A -> A -> A) (sc : A -> A) (f corr : nat -> state A -> state A).
(* the model returns derivatives in the layout of the state it was given, and correctdXdt keeps it *)
Hypothesis Hf : forall j s, signature A (f j s) = signature A s.
Hypothesis Hc : forall j s, signature A (corr j s) = signature A s.
Variable X0 : state A.

Definition good (flat : list A) : Prop := length flat = size A X0.

Lemma zipw_length (a b : list A) : length (zipw A ax a b) = Nat.min (length a) (length b).
Proof. revert b; induction a as [|x a IH]; intros [|y b]; simpl; auto. Qed.

Lemma good_flatten s : signature A s = signature A X0 -> good (flatten A s).
Proof. intros H. unfold good. rewrite flatten_length. apply size_signature; auto. Qed.
Lemma good_zipw a b : good a -> good b -> good (zipw A ax a b).
Proof. unfold good. intros Ha Hb. rewrite zipw_length, Ha, Hb. apply Nat.min_id. Qed.
Lemma good_map a : good a -> good (map sc a).
Proof. unfold good. rewrite map_length. auto. Qed.
Lemma sig_ounfl flat : good flat -> signature A (ounfl A flat X0) = signature A X0.
Proof.
  unfold good, ounfl. intros H. destruct (shape_preserved A flat X0 ltac:(lia)) as (s & H1 & H2 & _).
  rewrite H1. exact H2.
Qed.
Lemma sig_f j s : signature A s = signature A X0 -> signature A (f j s) = signature A X0.
Proof. intros H. rewrite Hf. exact H. Qed.
Lemma sig_corr j s : signature A s = signature A X0 -> signature A (corr j s) = signature A X0.
Proof. intros H. rewrite Hc. exact H. Qed.

Ltac shapes :=
  repeat first [ reflexivity
               | apply sig_ounfl | apply good_zipw | apply good_map | apply good_flatten
               | apply sig_f | apply sig_corr ].

Lemma euler_shapes :
  Forall (fun s => signature A s = signature A X0) (fst (euler_step A ax f corr X0)) /\
  signature A (snd (euler_step A ax f corr X0)) = signature A X0.
Proof.
  unfold euler_step, getd, upd. cbv beta iota zeta. cbn [fst snd].
  split; [repeat constructor|]; shapes.
Qed.

Lemma rk4_shapes :
  Forall (fun s => signature A s = signature A X0) (fst (rk4_step A ax sc f corr X0)) /\
  signature A (snd (rk4_step A ax sc f corr X0)) = signature A X0.
Proof.
  unfold rk4_step, getd, upd. cbv beta iota zeta. cbn [fst snd].
  split; [repeat constructor|]; shapes.
Qed.
End IterLemmas.
