(* C18 - Coupled strength and grain-growth models stay physical and aligned.
   Model (definitions only, no proofs) of
     kawin/precipitation/coupling/Strength.py    formula methods (379-490, 875-999), rssterm / Lsterm /
                                                 updateCoupledModel (513-580), getStrengthContributions,
                                                 combineStrengthContributions, precStrength, totalStrength (582-691)
     kawin/precipitation/coupling/GrainGrowth.py Rcr, Rm, grainGrowth, Normalize, constrainedGrowth, getdXdt,
                                                 correctdXdt, postProcess, computeZenerRadius, updateCoupledModel
     kawin/GenericModel.py                       addCouplingModel / updateCoupledModels / solve / setTimeInfo
   The formula section below is the FROZEN copy of what harness/c18_translate.py generates from the source
   (same section variables in the same order, names without the _gen suffix); coq/C18/run/Bridge.v proves on
   every run that the text generated from the current source is equal to it.  Grain growth reuses the
   size-class transport kernels of C07 (Kawin.C07.Model) and the solver clock of C05 (Kawin.C05.Model). *)
From Coq Require Import Reals String List Bool Arith.
Require Import Kawin.Common.Ops Kawin.Common.Vec Kawin.Common.VecLemmas Kawin.C07.Model Kawin.C05.Model.
Import ListNotations.
Open Scope R_scope.

(* np.power(x, y) on the reals: exp(y ln x) for x > 0.  numpy gives 0 for x = 0, y > 0 (modelled), nan for
   x < 0 with fractional y and inf / 1 for x = 0, y <= 0 (NOT modelled: theorems guard the base >= 0 and the
   exponent > 0 where it matters) *)
Definition npow (x y : R) : R := if Rlt_dec 0 x then Rpower x y else 0.

(* a value of a numpy float array: a real number, or non-finite (nan, +inf, -inf) *)
Definition xr := option R.
(* the two clipping idioms of getStrengthContributions
     x[~np.isfinite(x)] = 0                 ClipNonfinite
     x[(x < 0) | ~np.isfinite(x)] = 0       ClipNegNonfinite *)
Inductive clipmode := ClipNonfinite | ClipNegNonfinite.
Definition clip (m : clipmode) (v : xr) : R :=
  match v with
  | None => 0
  | Some x => match m with ClipNonfinite => x | ClipNegNonfinite => if Rlt_dec x 0 then 0 else x end
  end.

(* the three history arrays of StrengthModel *)
Record shist := { h_rss : list (list R); h_ls : list (list R); h_ss : list R }.

(* ================================================================================================ *)
(* formula methods of StrengthModel (frozen copy of the generated text)                             *)
Section StrengthSpec.
Variable G : R.
Variable b : R.
Variable nu : R.
Variable ri : R.
Variable theta : R.
Variable psi : R.
Variable T : R -> R -> R.     (* self.T: the bound line-tension method *)
Variable J : R.
Variable eps : R.
Variable Gp : R.
Variable w1 : R.
Variable w2 : R.
Variable yAPB : R.
Variable s : R.
Variable beta_ : R.
Variable V : R.
Variable ySFM : R.
Variable ySFP : R.
Variable bp : R.
Variable gamma : R.

(* StrengthModel.Tcomplex (line 379) *)
Definition Tcomplex (theta0 : R) (r0 : R) : R :=
  (((((G * (b ^ 2)) / (4 * PI)) * ((1 + nu) - ((3 * nu) * ((sin theta0) ^ 2)))) / (1 - nu)) * (ln (r0 / ri))).

(* StrengthModel.Tsimple (line 385) *)
Definition Tsimple (theta0 : R) (r0 : R) : R :=
  (((1 / 2) * G) * (b ^ 2)).

(* StrengthModel.Jcomplex (line 392) *)
Definition Jcomplex : R :=
  ((1 - (nu * ((cos ((PI / 2) - theta)) ^ 2))) / (sqrt (1 - nu))).

(* StrengthModel.Jsimple (line 399) *)
Definition Jsimple : R :=
  1.

(* StrengthModel.Fmod (line 417) *)
Definition Fmod (r : R) : R :=
  (((w1 * (Rabs (G - Gp))) * (b ^ 2)) * (npow (r / b) w2)).

(* StrengthModel.K (line 447) *)
Definition K (theta0 : R) : R :=
  (((G * (bp ^ 2)) * ((2 - nu) - ((2 * nu) * (cos (2 * theta0))))) / ((8 * PI) * (1 - nu))).

(* StrengthModel.SFEWeff (line 450) *)
Definition SFEWeff (theta0 : R) : R :=
  ((2 * (K theta0)) / (ySFM + ySFP)).

(* StrengthModel.SFEFterm (line 456) *)
Definition SFEFterm (r : R) : R :=
  ((2 * (ySFM - ySFP)) * (sqrt (((SFEWeff theta) * r) - (((SFEWeff theta) ^ 2) / 4)))).

(* StrengthModel.orowan (line 486) *)
Definition orowan (r : R) (Ls : R) : R :=
  ((((J * G) * b) / (((2 * PI) * (sqrt (1 - nu))) * Ls)) * (ln ((2 * r) / ri))).

(* StrengthModel.coherencyWeak (line 405) *)
Definition coherencyWeak (r : R) (Ls : R) (r0 : R) : R :=
  (((((1677 / 1250) * ((cos theta) ^ 2)) + ((41127 / 10000) * ((sin theta) ^ 2))) / Ls) * (sqrt (((((G ^ 3) * (eps ^ 3)) * (r ^ 3)) * b) / (T theta r0)))).

(* StrengthModel.coherencyStrong (line 411) *)
Definition coherencyStrong (r : R) (Ls : R) (r0 : R) : R :=
  ((((2 * ((cos theta) ^ 2)) + ((2669 / 1250) * ((sin theta) ^ 2))) / Ls) * (npow ((((((T theta r0) ^ 3) * G) * eps) * r) / (b ^ 3)) (1 / 4))).

(* StrengthModel.modulusWeak (line 423) *)
Definition modulusWeak (r : R) (Ls : R) (r0 : R) : R :=
  (((2 * (T theta r0)) / (b * Ls)) * (npow ((Fmod r) / (2 * (T theta r0))) (3 / 2))).

(* StrengthModel.modulusStrong (line 429) *)
Definition modulusStrong (r : R) (Ls : R) (r0 : R) : R :=
  ((J * (Fmod r)) / (b * Ls)).

(* StrengthModel.APBweak (line 435) *)
Definition APBweak (r : R) (Ls : R) (r0 : R) : R :=
  ((2 / ((s * b) * Ls)) * (((2 * (T theta r0)) * (npow ((r * yAPB) / (T theta r0)) (3 / 2))) - ((((16 * beta_) * yAPB) * (r ^ 2)) / ((3 * PI) * Ls)))).

(* StrengthModel.APBstrong (line 441) *)
Definition APBstrong (r : R) (Ls : R) (r0 : R) : R :=
  (((69 / 100) / (b * Ls)) * (sqrt (((((8 * V) * (T theta r0)) * r) * yAPB) / 3))).

(* StrengthModel.SFEweak (line 474) *)
Definition SFEweak (r : R) (Ls : R) (r0 : R) : R :=
  (((2 * (T theta r0)) / (b * Ls)) * (npow ((SFEFterm r) / (2 * (T theta r0))) (3 / 2))).

(* StrengthModel.SFEstrong (line 480) *)
Definition SFEstrong (r : R) (Ls : R) (r0 : R) : R :=
  ((SFEFterm r) / (b * Ls)).

(* StrengthModel.interfacialWeak (line 462) *)
Definition interfacialWeak (r : R) (Ls : R) (r0 : R) : R :=
  (((2 * (T theta r0)) / (b * Ls)) * (npow (((2 * gamma) * b) / (2 * (T theta r0))) (3 / 2))).

(* StrengthModel.interfacialStrong (line 468) *)
Definition interfacialStrong (r : R) (Ls : R) (r0 : R) : R :=
  ((2 * gamma) / Ls).

(* StrengthModel.coherencyWeakEdge (line 877) *)
Definition coherencyWeakEdge (r : R) (Ls : R) (r0 : R) : R :=
  (sqrt ((((((592 / 35) * (G ^ 3)) * b) * (eps ^ 3)) * (r ^ 3)) / ((Ls ^ 2) * (T (PI / 2) r0)))).

(* StrengthModel.coherencyWeakScrew (line 883) *)
Definition coherencyWeakScrew (r : R) (Ls : R) (r0 : R) : R :=
  (sqrt ((((((9 / 5) * (G ^ 3)) * b) * (eps ^ 3)) * (r ^ 3)) / ((Ls ^ 2) * (T 0 r0)))).

(* StrengthModel.coherencyStrongEdge (line 889) *)
Definition coherencyStrongEdge (r : R) (Ls : R) (r0 : R) : R :=
  (((((sqrt 2) * (npow 3 (3 / 8))) * J) / Ls) * (npow ((((((T (PI / 2) r0) ^ 3) * G) * eps) * r) / (b ^ 3)) (1 / 4))).

(* StrengthModel.coherencyStrongScrew (line 895) *)
Definition coherencyStrongScrew (r : R) (Ls : R) (r0 : R) : R :=
  (((2 * J) / Ls) * (npow ((((((T 0 r0) ^ 3) * G) * eps) * r) / (b ^ 3)) (1 / 4))).

(* StrengthModel.modulusWeakEdge (line 901) *)
Definition modulusWeakEdge (r : R) (Ls : R) (r0 : R) : R :=
  (((2 * (T (PI / 2) r0)) / (b * Ls)) * (npow ((((w1 * (Rabs (Gp - G))) * (b ^ 2)) * (npow (r / b) w2)) / (2 * (T (PI / 2) r0))) (3 / 2))).

(* StrengthModel.modulusWeakScrew (line 907) *)
Definition modulusWeakScrew (r : R) (Ls : R) (r0 : R) : R :=
  (((2 * (T 0 r0)) / (b * Ls)) * (npow ((((w1 * (Rabs (Gp - G))) * (b ^ 2)) * (npow (r / b) w2)) / (2 * (T 0 r0))) (3 / 2))).

(* StrengthModel.APBweakEdge (line 913) *)
Definition APBweakEdge (r : R) (Ls : R) (r0 : R) : R :=
  let xi := (((16 * yAPB) * (r ^ 2)) / (((3 * PI) * b) * (Ls ^ 2))) in
  ((2 / s) * ((((2 * (T (PI / 2) r0)) / (b * Ls)) * (npow (((2 * yAPB) * r) / (2 * (T (PI / 2) r0))) (3 / 2))) - (beta_ * xi))).

(* StrengthModel.APBweakScrew (line 920) *)
Definition APBweakScrew (r : R) (Ls : R) (r0 : R) : R :=
  let xi := (((16 * yAPB) * (r ^ 2)) / (((3 * PI) * b) * (Ls ^ 2))) in
  ((2 / s) * ((((2 * (T 0 r0)) / (b * Ls)) * (npow (((2 * yAPB) * r) / (2 * (T 0 r0))) (3 / 2))) - (beta_ * xi))).

(* StrengthModel.APBstrongEdge (line 927) *)
Definition APBstrongEdge (r : R) (Ls : R) (r0 : R) : R :=
  ((((2 * V) * (T (PI / 2) r0)) / ((PI * b) * Ls)) * (sqrt (((PI * yAPB) * r) / (V * (T (PI / 2) r0))))).

(* StrengthModel.APBstrongScrew (line 935) *)
Definition APBstrongScrew (r : R) (Ls : R) (r0 : R) : R :=
  ((((2 * V) * (T 0 r0)) / ((PI * b) * Ls)) * (sqrt (((PI * yAPB) * r) / (V * (T 0 r0))))).

(* StrengthModel.SFEweakNarrowEdge (line 961) *)
Definition SFEweakNarrowEdge (r : R) (Ls : R) (r0 : R) : R :=
  (((2 * (T (PI / 2) r0)) / (b * Ls)) * (npow (((ySFM - ySFP) * (sqrt (((SFEWeff (PI / 2)) * r) - (((SFEWeff (PI / 2)) ^ 2) / 4)))) / (T (PI / 2) r0)) (3 / 2))).

(* StrengthModel.SFEweakNarrowScrew (line 967) *)
Definition SFEweakNarrowScrew (r : R) (Ls : R) (r0 : R) : R :=
  (((2 * (T 0 r0)) / (b * Ls)) * (npow (((ySFM - ySFP) * (sqrt (((SFEWeff 0) * r) - (((SFEWeff 0) ^ 2) / 4)))) / (T 0 r0)) (3 / 2))).

(* StrengthModel.SFEstrongNarrowEdge (line 973) *)
Definition SFEstrongNarrowEdge (r : R) (Ls : R) (r0 : R) : R :=
  ((((J * 2) * (ySFM - ySFP)) * (sqrt (((SFEWeff (PI / 2)) * r) - (((SFEWeff (PI / 2)) ^ 2) / 4)))) / (b * Ls)).

(* StrengthModel.SFEstrongNarrowScrew (line 979) *)
Definition SFEstrongNarrowScrew (r : R) (Ls : R) (r0 : R) : R :=
  ((((J * 2) * (ySFM - ySFP)) * (sqrt (((SFEWeff 0) * r) - (((SFEWeff 0) ^ 2) / 4)))) / (b * Ls)).

(* StrengthModel.interfacialWeakEdge (line 985) *)
Definition interfacialWeakEdge (r : R) (Ls : R) (r0 : R) : R :=
  (((2 * (T (PI / 2) r0)) / (b * Ls)) * (npow ((gamma * b) / (T (PI / 2) r0)) (3 / 2))).

(* StrengthModel.interfacialWeakScrew (line 991) *)
Definition interfacialWeakScrew (r : R) (Ls : R) (r0 : R) : R :=
  (((2 * (T 0 r0)) / (b * Ls)) * (npow ((gamma * b) / (T 0 r0)) (3 / 2))).

(* StrengthModel.interfacialStrongOld (line 997) *)
Definition interfacialStrongOld (r : R) (Ls : R) (r0 : R) : R :=
  (((J * 2) * gamma) / Ls).

(* getStrengthContributions: effective spacings handed to the weak / strong formulas *)
Definition r0Weak (Ls : R) : R := (Ls / (sqrt (cos (psi / 2)))).
Definition r0Strong (Ls : R) : R := Ls.

End StrengthSpec.





(* combineStrengthContributions: superposition of each branch, minimum of the three, Taylor factor *)
Definition tausum (n : R) (l : list R) : R :=
  match l with [] => 0 | _ => npow (sumR (map (fun x => npow x n) l)) (1 / n) end.
Definition taumin (n : R) (w s : list R) (o : R) : R := Rmin (Rmin (tausum n w) (tausum n s)) o.
Definition combine (M n : R) (w s : list R) (o : R) : R := M * taumin n w s o.
Definition compareWS (n : R) (w s : list R) (o : R) : bool :=
  Rltb (tausum n s) (tausum n w) && Rltb o (tausum n w).

(* precStrength: one (strength, weak-branch-largest flag) pair per phase at one time sample *)
Definition mixPhases (eSame eMixed : R) (ph : list (R * bool)) : R :=
  let cnt := length (filter (fun p => snd p) ph) in
  let e := if Nat.eqb cnt 0 || Nat.eqb cnt (length ph) then eSame else eMixed in
  npow (sumR (map (fun p => npow (fst p) e) ph)) (1 / e).

(* totalStrength *)
Definition totalStrength (n sigma0 ss ps : R) : R :=
  npow (sumR (map (fun x => npow x n) [sigma0; ss; ps])) (1 / n).

(* rssterm / Lsterm on the two moments r1 = sum(PSD * PSDsize), r2 = sum(PSD * PSDsize^2) *)
Definition rssterm (r1 r2 : R) : R := if Req_EM_T r1 0 then 0 else sqrt (2 / 3) * r2 / r1.
Definition Lsterm (r1 r2 : R) : R :=
  if Req_EM_T r1 0 then 0
  else let rss := sqrt (2 / 3) * r2 / r1 in sqrt (ln 3 / (2 * PI * r1) + (2 * rss) ^ 2) - 2 * rss.

(* StrengthModel.updateCoupledModel on the history (None = the three arrays are still None) *)
Definition supdate (nph : nat) (h : option shist) (row_rss row_ls : list R) (ss0 ssn : R) : option shist :=
  let h0 := match h with
            | None => {| h_rss := [repeat 0 nph]; h_ls := [repeat 0 nph]; h_ss := [ss0] |}
            | Some x => x end in
  Some {| h_rss := h_rss h0 ++ [row_rss]; h_ls := h_ls h0 ++ [row_ls]; h_ss := h_ss h0 ++ [ssn] |}.

(* GrainGrowthModel: constrainedGrowth entry by entry (cz = alpha*M*gbe*z; the dissolving branch is
   assigned last), grainGrowth entry (c = alpha*M*gbe), Normalize, one drag term of computeZenerRadius,
   the time span handed to solve by updateCoupledModel *)
Definition constrained1 (O : Ops) (cz g : T O) : T O :=
  let upper := add O g cz in
  let lower := sub O g cz in
  if ltb O upper (zero O) then upper else if ltb O (zero O) lower then lower else zero O.
Definition growth1 (O : Ops) (c rcr bnd : T O) : T O :=
  mul O c (sub O (dvd O (one O) rcr) (dvd O (one O) bnd)).
Definition Rcr (O : Ops) (size x : list (T O)) : T O :=
  dvd O (momentFromN O size x 2) (momentFromN O size x 1).
Definition normalize (O : Ops) (size psd : list (T O)) : list (T O) :=
  let f := dvd O (one O) (momentFromN O size psd 3) in map (fun p => mul O p f) psd.
Definition Rm3 (O : Ops) (size x : list (T O)) : T O :=
  dvd O (momentFromN O size x 3) (momentFromN O size x 0).
Definition zener1 (f m K Ravg : R) : R := if Rlt_dec 0 Ravg then npow f m / (K * Ravg) else 0.
Definition span (O : Ops) (tn tprev : T O) : T O := sub O tn tprev.

(* LoadDistribution / LoadDistributionFunction: the loaded distribution is normalised and THEN backed up (self._oldPSD);
   reset() restores the backup (clock and recorded mean radius start again) *)
Record gstate (O : Ops) := { g_psd : list (T O); g_backup : list (T O) }.
Arguments g_psd {O} g.
Arguments g_backup {O} g.
Definition gload (O : Ops) (size raw : list (T O)) : gstate O :=
  let p := normalize O size raw in {| g_psd := p; g_backup := p |}.
Definition greset (O : Ops) (s : gstate O) : gstate O := {| g_psd := g_backup s; g_backup := g_backup s |}.

(* ================================================================================================ *)
(* hand-written part: how the pieces above are wired together                                       *)

(* getStrengthContributions for one (rss, Ls) sample: the raw values returned by the enabled weak / strong
   formula methods and by orowan (possibly nan / inf / negative), clipped as the code clips them *)
Definition getContrib (cw cs co : clipmode) (ws ss : list xr) (o : xr) : list R * list R * R :=
  (map (clip cw) ws, map (clip cs) ss, clip co o).

(* which parameter set a contribution uses: contributions[i]['all'] or contributions[i][phase];
   the phase-specific entry wins (second `if` of the loop) *)
Inductive source := Off | FromAll | FromPhase.
Definition contribSource (allFlag phaseFlag : bool) : source :=
  if phaseFlag then FromPhase else if allFlag then FromAll else Off.

(* combineStrengthContributions on the clipped values of one phase; returns (strength, comparison flag) *)
Definition phaseStrength (cw cs co : clipmode) (M n : R) (ws ss : list xr) (o : xr) : R * bool :=
  let '(w, s, o') := getContrib cw cs co ws ss o in
  (combine M n w s o', compareWS n w s o').

(* precStrength at one time sample: one triple of raw values per phase *)
Definition precStrength (cw cs co : clipmode) (M n eSame eMixed : R) (phases : list (list xr * list xr * xr)) : R :=
  mixPhases eSame eMixed (map (fun p => phaseStrength cw cs co M n (fst (fst p)) (snd (fst p)) (snd p)) phases).

(* first and second moments of a size distribution as rssterm / Lsterm compute them *)
Definition moment1 (psd size : list R) : R := momentFromN Rops size psd 1.
Definition moment2 (psd size : list R) : R := momentFromN Rops size psd 2.

(* ---- histories: the host calls updateCoupledModel once per accepted step (KWNBase.postProcess ->
   GenericModel.updateCoupledModels).  A host step is described by what the strength model reads from
   the host at that moment: the rss row, the Ls row and the solid-solution strength. *)
Definition hstep := (list R * list R * R)%type.
Definition sstep (nph : nat) (ss0 : R) (h : option shist) (st : hstep) : option shist :=
  supdate nph h (fst (fst st)) (snd (fst st)) ss0 (snd st).
(* one solve call of the host = a list of steps; a run = a list of solve calls *)
Definition scall (nph : nat) (ss0 : R) (h : option shist) (call : list hstep) : option shist :=
  fold_left (sstep nph ss0) call h.
Definition srun (nph : nat) (ss0 : R) (calls : list (list hstep)) (h : option shist) : option shist :=
  fold_left (scall nph ss0) calls h.
(* number of rows; before the first callback the arrays are None and stand for the initial row *)
Definition hlen_rss (h : option shist) : nat := match h with None => 1 | Some x => length (h_rss x) end.
Definition hlen_ls (h : option shist) : nat := match h with None => 1 | Some x => length (h_ls x) end.
Definition hlen_ss (h : option shist) : nat := match h with None => 1 | Some x => length (h_ss x) end.

(* ---- grain growth (written once over the scalar record) ---------------------------------------- *)
Section Grain.
Variable O : Ops.
Notation t := (T O).

Definition constrainedGrowth (cz : t) (g : list t) : list t := map (constrained1 O cz) g.
Definition grainGrowth (c : t) (bounds size x : list t) : list t := map (growth1 O c (Rcr O size x)) bounds.
(* alpha * M * gbe  and  alpha * M * gbe * z  (left to right) *)
Definition ggCoef (alpha M gbe : t) : t := mul O (mul O alpha M) gbe.
Definition ggDrag (alpha M gbe z : t) : t := mul O (ggCoef alpha M gbe) z.
(* GrainGrowthModel.getdXdt / correctdXdt: the constrained growth field drives the C07 kernels with no nucleation *)
Definition ggGrowth (c cz : t) (bounds size x : list t) : list t :=
  constrainedGrowth cz (grainGrowth c bounds size x).
Definition ggdXdt (c cz : t) (bounds size x : list t) : list t :=
  getdXdt O bounds x (ggGrowth c cz bounds size x) (zero O) (zero O).
Definition ggCorrected (dt c cz : t) (bounds size x : list t) : list t :=
  correctdXdt O dt bounds x (ggGrowth c cz bounds size x) (zero O) (zero O).
(* explicit Euler update  x + dXdt*dt *)
Definition eulerUpdate (dt : t) (x d : list t) : list t := zipWith (fun a b => add O a (mul O b dt)) x d.

(* the grain-growth clock after one host step: GenericModel.solve(span) from the current clock; the inner
   model never asks to stop; [propose] = what getDt returns in the successive inner iterations *)
Definition gclock (propose : nat -> t) (fuel : nat) (fmin fmax clock tn tprev : t) : t :=
  last (times O (solve O true propose (fun _ => false) fuel clock (span O tn tprev) fmin fmax)) clock.
(* clocks after the successive host steps; [propose k] belongs to host step k *)
Fixpoint gclocks (propose : nat -> nat -> t) (fuel : nat) (fmin fmax : t) (k : nat) (clock tprev : t)
         (ts : list t) : list t :=
  match ts with
  | [] => []
  | tn :: r => let c' := gclock (propose k) fuel fmin fmax clock tn tprev in
               c' :: gclocks propose fuel fmin fmax (S k) c' tn r
  end.
End Grain.

(* computeZenerRadius: sum of the drag terms of the phases (f, m, K, Ravg) *)
Definition zenerDrag (phases : list (R * R * R * R)) : R :=
  sumR (map (fun p => zener1 (fst (fst (fst p))) (snd (fst (fst p))) (snd (fst p)) (snd p)) phases).
