(* C18 - the executable (exact-rational) instance of the Zener-drag and growth-rate kernels computes the
   value of the real-number model the theorems are about. *)
From Coq Require Import Reals QArith Qreals List Lra.
Require Import Kawin.Common.Ops Kawin.Common.Vec Kawin.C07.Model Kawin.C18.Model.
Import ListNotations.

Lemma constrained1_hom cz g :
  Q2R (constrained1 Qops cz g) = constrained1 Rops (Q2R cz) (Q2R g).
Proof.
  unfold constrained1. rewrite <- hom_zero. rewrite <- hom_add, <- hom_sub, <- !hom_ltb.
  destruct (ltb Qops (add Qops g cz) (zero Qops)); [reflexivity|].
  destruct (ltb Qops (zero Qops) (sub Qops g cz)); reflexivity.
Qed.

Lemma constrainedGrowth_hom cz g :
  map Q2R (constrainedGrowth Qops cz g) = constrainedGrowth Rops (Q2R cz) (map Q2R g).
Proof.
  unfold constrainedGrowth. rewrite !map_map. apply map_ext. intros x. apply constrained1_hom.
Qed.

Lemma growth1_hom c rcr bnd : ~ (rcr == 0)%Q -> ~ (bnd == 0)%Q ->
  Q2R (growth1 Qops c rcr bnd) = growth1 Rops (Q2R c) (Q2R rcr) (Q2R bnd).
Proof.
  intros H1 H2. unfold growth1. rewrite hom_mul, hom_sub, !hom_dvd by assumption. rewrite hom_one. reflexivity.
Qed.
