(* C18 - bridge (structure part) between the definitions GENERATED on every run from the current source
   (build/C18/Strength_gen.v: kawin/precipitation/coupling/Strength.py, GrainGrowth.py, GenericModel.py)
   and the frozen model of Model.v.  Only this file and GenProperties*.v depend on the generated text: a
   change of a formula, of a clipping rule or of the structure of a mirrored method breaks a lemma here
   (or already the translator).  Compiled by the check only. *)
From Coq Require Import Reals String List Bool Arith Lra.
Require Import Kawin.Common.Ops Kawin.Common.Vec Kawin.Common.VecLemmas Kawin.C07.Model Kawin.C18.Model Kawin.C18.Proofs.
Require Import KawinRun.Strength_gen.
Import ListNotations.
Open Scope R_scope.

Ltac same := timeout 30 reflexivity.

Lemma gen_r0 : @r0Weak_gen = @r0Weak /\ @r0Strong_gen = @r0Strong. Proof. split; same. Qed.

(* ---- structure ---- *)
Lemma gen_table : strength_functions_gen =
  [("coherencyWeak", "coherencyStrong", "coherencyEffect", "Coherency");
   ("modulusWeak", "modulusStrong", "modulusEffect", "Modulus");
   ("APBweak", "APBstrong", "APBEffect", "APB");
   ("SFEweak", "SFEstrong", "SFEffect", "SFE");
   ("interfacialWeak", "interfacialStrong", "IFEffect", "Interfacial")]%string.
Proof. same. Qed.
Lemma gen_combine : @tausum_gen = @tausum /\ @taumin_gen = @taumin /\ @combine_gen = @combine /\ @compare_gen = @compareWS /\
  @mix_gen = @mixPhases /\ @total_gen = @totalStrength.
Proof. repeat split; same. Qed.
Lemma gen_radius : @rssterm_gen = @rssterm /\ @Lsterm_gen = @Lsterm. Proof. split; same. Qed.
Lemma gen_history : @supdate_gen = @supdate. Proof. same. Qed.
Lemma gen_grain : @constrained1_gen = @constrained1 /\ @growth1_gen = @growth1 /\ @Rcr_gen = @Rcr /\ @normalize_gen = @normalize /\
  @Rm3_gen = @Rm3 /\ @zener1_gen = @zener1 /\ @span_gen = @span /\ @gload_gen = @gload /\ @greset_gen = @greset.
Proof. repeat split; same. Qed.
Lemma gen_solve_fractions : 0 < solve_minDtFrac_gen <= solve_maxDtFrac_gen.
Proof. unfold solve_minDtFrac_gen, solve_maxDtFrac_gen. lra. Qed.

