(* C18 - bridge between the definitions GENERATED on every run from the current source
   (build/C18/Strength_gen.v: kawin/precipitation/coupling/Strength.py, GrainGrowth.py, GenericModel.py)
   and the frozen model of Model.v.  Only this file and GenProperties*.v depend on the generated text: a
   change of a formula, of a clipping rule or of the structure of a mirrored method breaks a lemma here
   (or already the translator).  Compiled by the check only. *)
From Coq Require Import Reals String List Bool Arith Lra.
Require Import Kawin.Common.Ops Kawin.Common.Vec Kawin.Common.VecLemmas Kawin.C07.Model Kawin.C18.Model Kawin.C18.Proofs.
Require Import KawinRun.Strength_gen.
Import ListNotations.
Open Scope R_scope.

Ltac same := timeout 30 reflexivity.

(* ---- formula methods: generated = frozen copy (as functions of all their parameters) ---- *)
Lemma gen_Tcomplex : @Tcomplex_gen = @Tcomplex. Proof. same. Qed.
Lemma gen_Tsimple : @Tsimple_gen = @Tsimple. Proof. same. Qed.
Lemma gen_Jcomplex : @Jcomplex_gen = @Jcomplex. Proof. same. Qed.
Lemma gen_Jsimple : @Jsimple_gen = @Jsimple. Proof. same. Qed.
Lemma gen_Fmod : @Fmod_gen = @Fmod. Proof. same. Qed.
Lemma gen_K : @K_gen = @K. Proof. same. Qed.
Lemma gen_SFEWeff : @SFEWeff_gen = @SFEWeff. Proof. same. Qed.
Lemma gen_SFEFterm : @SFEFterm_gen = @SFEFterm. Proof. same. Qed.
Lemma gen_orowan : @orowan_gen = @orowan. Proof. same. Qed.
Lemma gen_coherencyWeak : @coherencyWeak_gen = @coherencyWeak. Proof. same. Qed.
Lemma gen_coherencyStrong : @coherencyStrong_gen = @coherencyStrong. Proof. same. Qed.
Lemma gen_modulusWeak : @modulusWeak_gen = @modulusWeak. Proof. same. Qed.
Lemma gen_modulusStrong : @modulusStrong_gen = @modulusStrong. Proof. same. Qed.
Lemma gen_APBweak : @APBweak_gen = @APBweak. Proof. same. Qed.
Lemma gen_APBstrong : @APBstrong_gen = @APBstrong. Proof. same. Qed.
Lemma gen_SFEweak : @SFEweak_gen = @SFEweak. Proof. same. Qed.
Lemma gen_SFEstrong : @SFEstrong_gen = @SFEstrong. Proof. same. Qed.
Lemma gen_interfacialWeak : @interfacialWeak_gen = @interfacialWeak. Proof. same. Qed.
Lemma gen_interfacialStrong : @interfacialStrong_gen = @interfacialStrong. Proof. same. Qed.
Lemma gen_coherencyWeakEdge : @coherencyWeakEdge_gen = @coherencyWeakEdge. Proof. same. Qed.
Lemma gen_coherencyWeakScrew : @coherencyWeakScrew_gen = @coherencyWeakScrew. Proof. same. Qed.
Lemma gen_coherencyStrongEdge : @coherencyStrongEdge_gen = @coherencyStrongEdge. Proof. same. Qed.
Lemma gen_coherencyStrongScrew : @coherencyStrongScrew_gen = @coherencyStrongScrew. Proof. same. Qed.
Lemma gen_modulusWeakEdge : @modulusWeakEdge_gen = @modulusWeakEdge. Proof. same. Qed.
Lemma gen_modulusWeakScrew : @modulusWeakScrew_gen = @modulusWeakScrew. Proof. same. Qed.
Lemma gen_APBweakEdge : @APBweakEdge_gen = @APBweakEdge. Proof. same. Qed.
Lemma gen_APBweakScrew : @APBweakScrew_gen = @APBweakScrew. Proof. same. Qed.
Lemma gen_APBstrongEdge : @APBstrongEdge_gen = @APBstrongEdge. Proof. same. Qed.
Lemma gen_APBstrongScrew : @APBstrongScrew_gen = @APBstrongScrew. Proof. same. Qed.
Lemma gen_SFEweakNarrowEdge : @SFEweakNarrowEdge_gen = @SFEweakNarrowEdge. Proof. same. Qed.
Lemma gen_SFEweakNarrowScrew : @SFEweakNarrowScrew_gen = @SFEweakNarrowScrew. Proof. same. Qed.
Lemma gen_SFEstrongNarrowEdge : @SFEstrongNarrowEdge_gen = @SFEstrongNarrowEdge. Proof. same. Qed.
Lemma gen_SFEstrongNarrowScrew : @SFEstrongNarrowScrew_gen = @SFEstrongNarrowScrew. Proof. same. Qed.
Lemma gen_interfacialWeakEdge : @interfacialWeakEdge_gen = @interfacialWeakEdge. Proof. same. Qed.
Lemma gen_interfacialWeakScrew : @interfacialWeakScrew_gen = @interfacialWeakScrew. Proof. same. Qed.
Lemma gen_interfacialStrongOld : @interfacialStrongOld_gen = @interfacialStrongOld. Proof. same. Qed.

Lemma gen_formulas_are_model :
  @Tcomplex_gen = @Tcomplex /\
  @Tsimple_gen = @Tsimple /\
  @Jcomplex_gen = @Jcomplex /\
  @Jsimple_gen = @Jsimple /\
  @Fmod_gen = @Fmod /\
  @K_gen = @K /\
  @SFEWeff_gen = @SFEWeff /\
  @SFEFterm_gen = @SFEFterm /\
  @orowan_gen = @orowan /\
  @coherencyWeak_gen = @coherencyWeak /\
  @coherencyStrong_gen = @coherencyStrong /\
  @modulusWeak_gen = @modulusWeak /\
  @modulusStrong_gen = @modulusStrong /\
  @APBweak_gen = @APBweak /\
  @APBstrong_gen = @APBstrong /\
  @SFEweak_gen = @SFEweak /\
  @SFEstrong_gen = @SFEstrong /\
  @interfacialWeak_gen = @interfacialWeak /\
  @interfacialStrong_gen = @interfacialStrong /\
  @coherencyWeakEdge_gen = @coherencyWeakEdge /\
  @coherencyWeakScrew_gen = @coherencyWeakScrew /\
  @coherencyStrongEdge_gen = @coherencyStrongEdge /\
  @coherencyStrongScrew_gen = @coherencyStrongScrew /\
  @modulusWeakEdge_gen = @modulusWeakEdge /\
  @modulusWeakScrew_gen = @modulusWeakScrew /\
  @APBweakEdge_gen = @APBweakEdge /\
  @APBweakScrew_gen = @APBweakScrew /\
  @APBstrongEdge_gen = @APBstrongEdge /\
  @APBstrongScrew_gen = @APBstrongScrew /\
  @SFEweakNarrowEdge_gen = @SFEweakNarrowEdge /\
  @SFEweakNarrowScrew_gen = @SFEweakNarrowScrew /\
  @SFEstrongNarrowEdge_gen = @SFEstrongNarrowEdge /\
  @SFEstrongNarrowScrew_gen = @SFEstrongNarrowScrew /\
  @interfacialWeakEdge_gen = @interfacialWeakEdge /\
  @interfacialWeakScrew_gen = @interfacialWeakScrew /\
  @interfacialStrongOld_gen = @interfacialStrongOld.
Proof. repeat split; same. Qed.
