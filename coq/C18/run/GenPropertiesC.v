(* C18 - theorems restated for the definitions GENERATED from the current source: histories, Zener drag,
   grain growth, clock.  Theorems only. *)
From Coq Require Import Reals String List Bool Arith Sorted.
Require Import Kawin.Common.Ops Kawin.Common.Vec Kawin.Common.VecLemmas Kawin.C07.Model Kawin.C07.Proofs Kawin.C05.Model.
Require Import Kawin.C18.Model Kawin.C18.Proofs.
Require Import KawinRun.Strength_gen KawinRun.BridgeS.
Import ListNotations.
Open Scope R_scope.

Theorem C18_gen_grain_structure_is_model :
  @constrained1_gen = @constrained1 /\ @growth1_gen = @growth1 /\ @Rcr_gen = @Rcr /\ @normalize_gen = @normalize /\
  @Rm3_gen = @Rm3 /\ @zener1_gen = @zener1 /\ @span_gen = @span /\ @gload_gen = @gload /\ @greset_gen = @greset.
Proof. exact gen_grain. Qed.
Print Assumptions C18_gen_grain_structure_is_model.

Theorem C18_gen_history_one_row_per_step nph h r l ss0 ssn :
  hlen_rss (supdate_gen nph h r l ss0 ssn) = S (hlen_rss h) /\
  hlen_ls (supdate_gen nph h r l ss0 ssn) = S (hlen_ls h) /\
  hlen_ss (supdate_gen nph h r l ss0 ssn) = S (hlen_ss h).
Proof. exact (supdate_len nph h r l ss0 ssn). Qed.
Print Assumptions C18_gen_history_one_row_per_step.

Theorem C18_gen_zener cz g : 0 <= cz ->
  (0 <= g -> 0 <= constrained1_gen Rops cz g <= g) /\ (g <= 0 -> g <= constrained1_gen Rops cz g <= 0) /\
  Rabs (constrained1_gen Rops cz g) <= Rabs g /\ (Rabs g <= cz -> constrained1_gen Rops cz g = 0).
Proof.
  exact (fun Hz => conj (proj1 (constrained1_spec cz g Hz)) (conj (proj2 (constrained1_spec cz g Hz))
                   (conj (constrained1_abs cz g Hz) (constrained1_frozen cz g)))).
Qed.
Print Assumptions C18_gen_zener.

Theorem C18_gen_normalize size psd : momentFromN Rops size psd 3 <> 0 ->
  momentFromN Rops size (normalize_gen Rops size psd) 3 = 1.
Proof. exact (normalize_third_moment size psd). Qed.
Print Assumptions C18_gen_normalize.

(* the fractions GenericModel.solve is called with satisfy the hypothesis of the clock theorem, and the span
   handed to it is the host step *)
Theorem C18_gen_clock propose t0 (calls : list (list R)) :
  0 < solve_minDtFrac_gen <= solve_maxDtFrac_gen /\
  (StronglySorted Rlt (t0 :: concat calls) ->
   gclocks Rops propose (gfuel solve_minDtFrac_gen) solve_minDtFrac_gen solve_maxDtFrac_gen 0 t0 t0 (concat calls) = concat calls).
Proof.
  exact (conj gen_solve_fractions
              (grain_clock_equals_host propose solve_minDtFrac_gen solve_maxDtFrac_gen t0 (concat calls) gen_solve_fractions)).
Qed.
Print Assumptions C18_gen_clock.

Theorem C18_gen_load_reset_volume size raw psd' : momentFromN Rops size raw 3 <> 0 ->
  momentFromN Rops size (g_psd (gload_gen Rops size raw)) 3 = 1 /\
  momentFromN Rops size (g_psd (greset_gen Rops {| g_psd := psd'; g_backup := g_backup (gload_gen Rops size raw) |})) 3 = 1.
Proof. exact (load_reset_volume size raw psd'). Qed.
Print Assumptions C18_gen_load_reset_volume.
