(* C18 - theorems restated for the definitions GENERATED from the current source: clipping rules of
   getStrengthContributions, combination, superposition, radius / spacing.  Theorems only. *)
From Coq Require Import Reals String List Bool Arith.
Require Import Kawin.Common.Ops Kawin.Common.Vec Kawin.Common.VecLemmas Kawin.C07.Model Kawin.C18.Model Kawin.C18.Proofs.
Require Import KawinRun.Strength_gen KawinRun.BridgeS.
Import ListNotations.
Open Scope R_scope.

(* the structure the hand-written model mirrors is the structure of the current source *)
Theorem C18_gen_structure_is_model :
  (@tausum_gen = @tausum /\ @taumin_gen = @taumin /\ @combine_gen = @combine /\ @compare_gen = @compareWS /\
   @mix_gen = @mixPhases /\ @total_gen = @totalStrength) /\
  (@rssterm_gen = @rssterm /\ @Lsterm_gen = @Lsterm) /\ @supdate_gen = @supdate /\
  (@r0Weak_gen = @r0Weak /\ @r0Strong_gen = @r0Strong) /\
  strength_functions_gen =
  [("coherencyWeak", "coherencyStrong", "coherencyEffect", "Coherency");
   ("modulusWeak", "modulusStrong", "modulusEffect", "Modulus");
   ("APBweak", "APBstrong", "APBEffect", "APB");
   ("SFEweak", "SFEstrong", "SFEffect", "SFE");
   ("interfacialWeak", "interfacialStrong", "IFEffect", "Interfacial")]%string.
Proof. exact (conj gen_combine (conj gen_radius (conj gen_history (conj gen_r0 gen_table)))). Qed.
Print Assumptions C18_gen_structure_is_model.




Theorem C18_gen_prec_strength_is_M_times_min M n w s o :
  exists m, combine_gen M n w s o = M * m /\ (m = tausum_gen n w \/ m = tausum_gen n s \/ m = o) /\
            m <= tausum_gen n w /\ m <= tausum_gen n s /\ m <= o.
Proof. exact (prec_strength_is_M_times_min M n w s o). Qed.
Print Assumptions C18_gen_prec_strength_is_M_times_min.

Theorem C18_gen_prec_strength_phases eS eM (ph : list (R * bool)) :
  0 <= mix_gen eS eM ph /\
  (forall p, 0 < eS -> 0 < eM -> 0 <= fst p -> In p ph -> fst p <= mix_gen eS eM ph) /\
  (Forall (fun p => fst p = 0) ph -> mix_gen eS eM ph = 0).
Proof.
  exact (conj (mixPhases_nonneg eS eM ph) (conj (fun p => mixPhases_ge_each eS eM ph p) (mixPhases_zero eS eM ph))).
Qed.
Print Assumptions C18_gen_prec_strength_phases.

Theorem C18_gen_total_ge_parts n s0 ss ps : 0 < n -> 0 <= s0 -> 0 <= ss -> 0 <= ps ->
  s0 <= total_gen n s0 ss ps /\ ss <= total_gen n s0 ss ps /\ ps <= total_gen n s0 ss ps.
Proof. exact (total_ge_parts n s0 ss ps). Qed.
Print Assumptions C18_gen_total_ge_parts.

Theorem C18_gen_total_monotone n s0 ss ps s0' ss' ps' : 0 < n -> s0 <= s0' -> ss <= ss' -> ps <= ps' ->
  total_gen n s0 ss ps <= total_gen n s0' ss' ps'.
Proof. exact (total_monotone n s0 ss ps s0' ss' ps'). Qed.
Print Assumptions C18_gen_total_monotone.

Theorem C18_gen_radius_spacing r1 r2 : 0 <= r1 -> 0 <= r2 ->
  0 <= rssterm_gen r1 r2 /\ 0 <= Lsterm_gen r1 r2 /\ rssterm_gen 0 r2 = 0 /\ Lsterm_gen 0 r2 = 0.
Proof.
  exact (fun H1 H2 => conj (rssterm_nonneg r1 r2 H1 H2) (conj (Lsterm_nonneg r1 r2 H1 H2) (no_precipitates_zero r2))).
Qed.
Print Assumptions C18_gen_radius_spacing.

(* ---- theorems that depend on the clipping rules read from the source (kept last) ---- *)
(* with the clipping rules READ FROM THE SOURCE the strength of a phase is non-negative for all raw values
   (this is the theorem that breaks when the Orowan array is clipped for non-finite values only) *)
Theorem C18_gen_phase_strength_nonneg M n ws ss o : 0 <= M ->
  0 <= fst (phaseStrength clip_weak_gen clip_strong_gen clip_orowan_gen M n ws ss o).
Proof. exact (phase_strength_nonneg M n ws ss o). Qed.
Print Assumptions C18_gen_phase_strength_nonneg.

Theorem C18_gen_clipped_nonneg (ws ss : list xr) (o : xr) :
  Forall (fun x => 0 <= x) (map (clip clip_weak_gen) ws) /\ Forall (fun x => 0 <= x) (map (clip clip_strong_gen) ss) /\
  0 <= clip clip_orowan_gen o.
Proof. exact (conj (contribution_clipped_nonneg ws) (conj (contribution_clipped_nonneg ss) (clip_neg_nonneg o))). Qed.
Print Assumptions C18_gen_clipped_nonneg.

Theorem C18_gen_zero_without_precipitates M n ws ss o eS eM phases :
  ((o = None \/ exists x, o = Some x /\ x <= 0) ->
     fst (phaseStrength clip_weak_gen clip_strong_gen clip_orowan_gen M n ws ss o) = 0) /\
  (Forall (fun p => snd p = None \/ exists x, snd p = Some x /\ x <= 0) phases ->
     precStrength clip_weak_gen clip_strong_gen clip_orowan_gen M n eS eM phases = 0).
Proof.
  exact (conj (phase_strength_zero M n clip_weak_gen clip_strong_gen ws ss o)
              (precStrength_zero clip_weak_gen clip_strong_gen M n eS eM phases)).
Qed.
Print Assumptions C18_gen_zero_without_precipitates.
