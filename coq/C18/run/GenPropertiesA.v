(* C18 - theorems restated for the definitions GENERATED from the current source: formulas.
   Theorems only, each closed by [exact] of a lemma (of Bridge.v, or of Proofs.v up to unfolding of the
   generated definitions).  Re-checked by every run against the text generated in that run. *)
From Coq Require Import Reals String List Bool Arith.
Require Import Kawin.Common.Ops Kawin.Common.Vec Kawin.Common.VecLemmas Kawin.C07.Model Kawin.C18.Model Kawin.C18.Proofs.
Require Import KawinRun.Strength_gen KawinRun.Bridge.
Import ListNotations.
Open Scope R_scope.

Theorem C18_gen_formulas_are_model :
  @Tcomplex_gen = @Tcomplex /\ @Tsimple_gen = @Tsimple /\ @Jcomplex_gen = @Jcomplex /\ @Jsimple_gen = @Jsimple /\
  @Fmod_gen = @Fmod /\ @K_gen = @K /\ @SFEWeff_gen = @SFEWeff /\ @SFEFterm_gen = @SFEFterm /\ @orowan_gen = @orowan /\
  @coherencyWeak_gen = @coherencyWeak /\ @coherencyStrong_gen = @coherencyStrong /\
  @modulusWeak_gen = @modulusWeak /\ @modulusStrong_gen = @modulusStrong /\
  @APBweak_gen = @APBweak /\ @APBstrong_gen = @APBstrong /\ @SFEweak_gen = @SFEweak /\ @SFEstrong_gen = @SFEstrong /\
  @interfacialWeak_gen = @interfacialWeak /\ @interfacialStrong_gen = @interfacialStrong /\
  @coherencyWeakEdge_gen = @coherencyWeakEdge /\ @coherencyWeakScrew_gen = @coherencyWeakScrew /\
  @coherencyStrongEdge_gen = @coherencyStrongEdge /\ @coherencyStrongScrew_gen = @coherencyStrongScrew /\
  @modulusWeakEdge_gen = @modulusWeakEdge /\ @modulusWeakScrew_gen = @modulusWeakScrew /\
  @APBweakEdge_gen = @APBweakEdge /\ @APBweakScrew_gen = @APBweakScrew /\
  @APBstrongEdge_gen = @APBstrongEdge /\ @APBstrongScrew_gen = @APBstrongScrew /\
  @SFEweakNarrowEdge_gen = @SFEweakNarrowEdge /\ @SFEweakNarrowScrew_gen = @SFEweakNarrowScrew /\
  @SFEstrongNarrowEdge_gen = @SFEstrongNarrowEdge /\ @SFEstrongNarrowScrew_gen = @SFEstrongNarrowScrew /\
  @interfacialWeakEdge_gen = @interfacialWeakEdge /\ @interfacialWeakScrew_gen = @interfacialWeakScrew /\
  @interfacialStrongOld_gen = @interfacialStrongOld.
Proof. exact gen_formulas_are_model. Qed.
Print Assumptions C18_gen_formulas_are_model.

Theorem C18_gen_orowan_sign G b nu ri r Ls J : 0 < J * G * b -> nu < 1 -> 0 < Ls -> 0 < ri -> 0 < r ->
  (2 * r < ri -> orowan_gen G b nu ri J r Ls < 0) /\ (ri <= 2 * r -> 0 <= orowan_gen G b nu ri J r Ls).
Proof. exact (orowan_sign G b nu ri r Ls J). Qed.
Print Assumptions C18_gen_orowan_sign.

Theorem C18_gen_mixed_reduces_to_edge G b nu (Tf : R -> R -> R) eps Gp w1 w2 yAPB s beta V ySFM ySFP bp gamma r Ls r0 :
  Tf (PI / 2) r0 <> 0 -> b <> 0 -> 0 < Ls -> s <> 0 ->
  (0 <= G ^ 3 * eps ^ 3 * r ^ 3 * b / Tf (PI / 2) r0 ->
     Rabs (coherencyWeak_gen G b (PI / 2) Tf eps r Ls r0 - coherencyWeakEdge_gen G b Tf eps r Ls r0)
       <= 1 / 100000 * Rabs (coherencyWeakEdge_gen G b Tf eps r Ls r0)) /\
  Rabs (coherencyStrong_gen G b (PI / 2) Tf eps r Ls r0 - coherencyStrongEdge_gen G b Tf 1 eps r Ls r0)
    <= 1 / 100000 * Rabs (coherencyStrongEdge_gen G b Tf 1 eps r Ls r0) /\
  modulusWeak_gen G b (PI / 2) Tf Gp w1 w2 r Ls r0 = modulusWeakEdge_gen G b Tf Gp w1 w2 r Ls r0 /\
  APBweak_gen b (PI / 2) Tf yAPB s beta r Ls r0 = APBweakEdge_gen b Tf yAPB s beta r Ls r0 /\
  (0 < V * Tf (PI / 2) r0 -> 0 <= r * yAPB -> 0 < b * Ls ->
     Rabs (APBstrong_gen b (PI / 2) Tf yAPB V r Ls r0 - APBstrongEdge_gen b Tf yAPB V r Ls r0)
       <= 15 / 10000 * Rabs (APBstrongEdge_gen b Tf yAPB V r Ls r0)) /\
  SFEweak_gen G b nu (PI / 2) Tf ySFM ySFP bp r Ls r0 = SFEweakNarrowEdge_gen G b nu Tf ySFM ySFP bp r Ls r0 /\
  SFEstrong_gen G b nu (PI / 2) ySFM ySFP bp r Ls r0 = SFEstrongNarrowEdge_gen G b nu 1 ySFM ySFP bp r Ls r0 /\
  interfacialWeak_gen b (PI / 2) Tf gamma r Ls r0 = interfacialWeakEdge_gen b Tf gamma r Ls r0 /\
  interfacialStrong_gen gamma r Ls r0 = interfacialStrongOld_gen 1 gamma r Ls r0.
Proof. exact (mixed_reduces_to_edge G b nu Tf eps Gp w1 w2 yAPB s beta V ySFM ySFP bp gamma r Ls r0). Qed.
Print Assumptions C18_gen_mixed_reduces_to_edge.

Theorem C18_gen_mixed_reduces_to_screw G b nu (Tf : R -> R -> R) eps Gp w1 w2 yAPB s beta V ySFM ySFP bp gamma r Ls r0 :
  Tf 0 r0 <> 0 -> b <> 0 -> 0 < Ls -> s <> 0 ->
  (0 <= G ^ 3 * eps ^ 3 * r ^ 3 * b / Tf 0 r0 ->
     Rabs (coherencyWeak_gen G b 0 Tf eps r Ls r0 - coherencyWeakScrew_gen G b Tf eps r Ls r0)
       <= 1 / 10000 * Rabs (coherencyWeakScrew_gen G b Tf eps r Ls r0)) /\
  coherencyStrong_gen G b 0 Tf eps r Ls r0 = coherencyStrongScrew_gen G b Tf 1 eps r Ls r0 /\
  modulusWeak_gen G b 0 Tf Gp w1 w2 r Ls r0 = modulusWeakScrew_gen G b Tf Gp w1 w2 r Ls r0 /\
  APBweak_gen b 0 Tf yAPB s beta r Ls r0 = APBweakScrew_gen b Tf yAPB s beta r Ls r0 /\
  (0 < V * Tf 0 r0 -> 0 <= r * yAPB -> 0 < b * Ls ->
     Rabs (APBstrong_gen b 0 Tf yAPB V r Ls r0 - APBstrongScrew_gen b Tf yAPB V r Ls r0)
       <= 15 / 10000 * Rabs (APBstrongScrew_gen b Tf yAPB V r Ls r0)) /\
  SFEweak_gen G b nu 0 Tf ySFM ySFP bp r Ls r0 = SFEweakNarrowScrew_gen G b nu Tf ySFM ySFP bp r Ls r0 /\
  SFEstrong_gen G b nu 0 ySFM ySFP bp r Ls r0 = SFEstrongNarrowScrew_gen G b nu 1 ySFM ySFP bp r Ls r0 /\
  interfacialWeak_gen b 0 Tf gamma r Ls r0 = interfacialWeakScrew_gen b Tf gamma r Ls r0.
Proof. exact (mixed_reduces_to_screw G b nu Tf eps Gp w1 w2 yAPB s beta V ySFM ySFP bp gamma r Ls r0). Qed.
Print Assumptions C18_gen_mixed_reduces_to_screw.
