(* C18 - Coupled strength and grain-growth models stay physical and aligned.
   This file contains ONLY the property theorems; each is closed by [exact] of a lemma of Proofs.v and
   followed by Print Assumptions.  Statements are about the model of Model.v: the strength formulas are the
   frozen copy of the text generated from kawin/precipitation/coupling/Strength.py (run/Bridge.v re-proves
   generated = frozen on every run, run/GenProperties.v restates the theorems for the generated text), the
   grain-growth kernels are the real instance of C07's transport model and C05's solver clock. *)
From Coq Require Import Reals String List Bool Arith ZArith Sorted.
Require Import Kawin.Common.Ops Kawin.Common.Vec Kawin.Common.VecLemmas.
Require Import Kawin.C07.Model Kawin.C07.Proofs Kawin.C05.Model Kawin.C18.Model Kawin.C18.Proofs.
Import ListNotations.
Open Scope R_scope.

(* ---- strength: finite and non-negative ----------------------------------------------------------- *)
(* every clipped contribution is a non-negative real, whatever the formula returned (nan, +-inf, negative) *)
Theorem C18_contribution_clipped_nonneg (raw : list xr) :
  Forall (fun x => 0 <= x) (map (clip ClipNegNonfinite) raw).
Proof. exact (contribution_clipped_nonneg raw). Qed.
Print Assumptions C18_contribution_clipped_nonneg.

(* the strength of one phase is non-negative for ALL raw weak / strong / Orowan values, any exponent *)
Theorem C18_phase_strength_nonneg M n ws ss o : 0 <= M ->
  0 <= fst (phaseStrength ClipNegNonfinite ClipNegNonfinite ClipNegNonfinite M n ws ss o).
Proof. exact (phase_strength_nonneg M n ws ss o). Qed.
Print Assumptions C18_phase_strength_nonneg.

(* ... it is the Taylor factor times the smallest of the weak, strong and Orowan branches *)
Theorem C18_prec_strength_is_M_times_min M n w s o :
  exists m, combine M n w s o = M * m /\ (m = tausum n w \/ m = tausum n s \/ m = o) /\
            m <= tausum n w /\ m <= tausum n s /\ m <= o.
Proof. exact (prec_strength_is_M_times_min M n w s o). Qed.
Print Assumptions C18_prec_strength_is_M_times_min.

(* no precipitates: the first moment of the distribution is 0, so radius and spacing are recorded as 0;
   the Orowan value is then non-finite (log 0 / 0) and the strength of the phase, and of all phases, is 0 *)
Theorem C18_zero_without_precipitates :
  (forall psd size, Forall (fun x => x = 0) psd ->
     rssterm (moment1 psd size) (moment2 psd size) = 0 /\ Lsterm (moment1 psd size) (moment2 psd size) = 0) /\
  (forall M n cw cs ws ss o, (o = None \/ exists x, o = Some x /\ x <= 0) ->
     fst (phaseStrength cw cs ClipNegNonfinite M n ws ss o) = 0) /\
  (forall cw cs M n eS eM phases,
     Forall (fun p => snd p = None \/ exists x, snd p = Some x /\ x <= 0) phases ->
     precStrength cw cs ClipNegNonfinite M n eS eM phases = 0).
Proof. exact (conj empty_psd_zero (conj (fun M n cw cs => phase_strength_zero M n cw cs) precStrength_zero)). Qed.
Print Assumptions C18_zero_without_precipitates.

(* all weak contributions non-positive / non-finite: strength 0 as well *)
Theorem C18_zero_branch M n ws ss o : ws <> [] ->
  Forall (fun v => v = None \/ exists x, v = Some x /\ x <= 0) ws ->
  fst (phaseStrength ClipNegNonfinite ClipNegNonfinite ClipNegNonfinite M n ws ss o) = 0.
Proof. exact (phase_strength_zero_branch M n ws ss o). Qed.
Print Assumptions C18_zero_branch.

(* the Orowan formula is negative exactly for particles below half the core radius ... *)
Theorem C18_orowan_sign G b nu ri r Ls J : 0 < J * G * b -> nu < 1 -> 0 < Ls -> 0 < ri -> 0 < r ->
  (2 * r < ri -> orowan G b nu ri J r Ls < 0) /\ (ri <= 2 * r -> 0 <= orowan G b nu ri J r Ls).
Proof. exact (orowan_sign G b nu ri r Ls J). Qed.
Print Assumptions C18_orowan_sign.

(* ... so with the clipping of the tree before the repair (non-finite values only) the strength of a
   phase can be negative *)
Theorem C18_orowan_negative_refuted :
  exists M n ws ss o, 0 < M /\ 0 < n /\
    fst (phaseStrength ClipNegNonfinite ClipNegNonfinite ClipNonfinite M n ws ss o) < 0.
Proof. exact orowan_negative_refuted. Qed.
Print Assumptions C18_orowan_negative_refuted.

(* several phases: non-negative, at least every phase's strength, zero when every phase's is *)
Theorem C18_prec_strength_phases eS eM (ph : list (R * bool)) :
  0 <= mixPhases eS eM ph /\
  (forall p, 0 < eS -> 0 < eM -> 0 <= fst p -> In p ph -> fst p <= mixPhases eS eM ph) /\
  (Forall (fun p => fst p = 0) ph -> mixPhases eS eM ph = 0).
Proof.
  exact (conj (mixPhases_nonneg eS eM ph) (conj (fun p => mixPhases_ge_each eS eM ph p) (mixPhases_zero eS eM ph))).
Qed.
Print Assumptions C18_prec_strength_phases.

(* ---- total strength -------------------------------------------------------------------------------- *)
Theorem C18_total_ge_parts n s0 ss ps : 0 < n -> 0 <= s0 -> 0 <= ss -> 0 <= ps ->
  s0 <= totalStrength n s0 ss ps /\ ss <= totalStrength n s0 ss ps /\ ps <= totalStrength n s0 ss ps.
Proof. exact (total_ge_parts n s0 ss ps). Qed.
Print Assumptions C18_total_ge_parts.

Theorem C18_total_monotone n s0 ss ps s0' ss' ps' : 0 < n -> s0 <= s0' -> ss <= ss' -> ps <= ps' ->
  totalStrength n s0 ss ps <= totalStrength n s0' ss' ps'.
Proof. exact (total_monotone n s0 ss ps s0' ss' ps'). Qed.
Print Assumptions C18_total_monotone.

Theorem C18_total_nonneg_and_single n x :
  (forall s0 ss ps, 0 <= totalStrength n s0 ss ps) /\
  (0 < n -> 0 <= x -> totalStrength n x 0 0 = x /\ totalStrength n 0 x 0 = x /\ totalStrength n 0 0 x = x).
Proof. exact (conj (total_nonneg n) (total_only_part n x)). Qed.
Print Assumptions C18_total_nonneg_and_single.

(* ---- radius and spacing fed to the strength formulas ------------------------------------------------- *)
Theorem C18_radius_spacing_nonneg psd size : Forall (fun x => 0 <= x) size -> Forall (fun x => 0 <= x) psd ->
  0 <= rssterm (moment1 psd size) (moment2 psd size) /\ 0 <= Lsterm (moment1 psd size) (moment2 psd size).
Proof. exact (radius_spacing_nonneg psd size). Qed.
Print Assumptions C18_radius_spacing_nonneg.

(* ---- mixed-dislocation formulas at 90 degrees (edge) -------------------------------------------------
   exact where the formula has no rounded constant; otherwise within the precision of the printed
   constants (4.1127 ~ sqrt(592/35), 2.1352 ~ sqrt2*3^(3/8), 0.69 ~ 2/sqrt(pi)/sqrt(8/3)); the edge / screw
   formulas that carry the factor J agree for J = 1 (the default, Jsimple) *)
Theorem C18_mixed_reduces_to_edge G b nu (Tf : R -> R -> R) eps Gp w1 w2 yAPB s beta V ySFM ySFP bp gamma r Ls r0 :
  Tf (PI / 2) r0 <> 0 -> b <> 0 -> 0 < Ls -> s <> 0 ->
  (0 <= G ^ 3 * eps ^ 3 * r ^ 3 * b / Tf (PI / 2) r0 ->
     Rabs (coherencyWeak G b (PI / 2) Tf eps r Ls r0 - coherencyWeakEdge G b Tf eps r Ls r0)
       <= 1 / 100000 * Rabs (coherencyWeakEdge G b Tf eps r Ls r0)) /\
  Rabs (coherencyStrong G b (PI / 2) Tf eps r Ls r0 - coherencyStrongEdge G b Tf 1 eps r Ls r0)
    <= 1 / 100000 * Rabs (coherencyStrongEdge G b Tf 1 eps r Ls r0) /\
  modulusWeak G b (PI / 2) Tf Gp w1 w2 r Ls r0 = modulusWeakEdge G b Tf Gp w1 w2 r Ls r0 /\
  APBweak b (PI / 2) Tf yAPB s beta r Ls r0 = APBweakEdge b Tf yAPB s beta r Ls r0 /\
  (0 < V * Tf (PI / 2) r0 -> 0 <= r * yAPB -> 0 < b * Ls ->
     Rabs (APBstrong b (PI / 2) Tf yAPB V r Ls r0 - APBstrongEdge b Tf yAPB V r Ls r0)
       <= 15 / 10000 * Rabs (APBstrongEdge b Tf yAPB V r Ls r0)) /\
  SFEweak G b nu (PI / 2) Tf ySFM ySFP bp r Ls r0 = SFEweakNarrowEdge G b nu Tf ySFM ySFP bp r Ls r0 /\
  SFEstrong G b nu (PI / 2) ySFM ySFP bp r Ls r0 = SFEstrongNarrowEdge G b nu 1 ySFM ySFP bp r Ls r0 /\
  interfacialWeak b (PI / 2) Tf gamma r Ls r0 = interfacialWeakEdge b Tf gamma r Ls r0 /\
  interfacialStrong gamma r Ls r0 = interfacialStrongOld 1 gamma r Ls r0.
Proof. exact (mixed_reduces_to_edge G b nu Tf eps Gp w1 w2 yAPB s beta V ySFM ySFP bp gamma r Ls r0). Qed.
Print Assumptions C18_mixed_reduces_to_edge.

(* ---- ... and at 0 degrees (screw) --------------------------------------------------------------------- *)
Theorem C18_mixed_reduces_to_screw G b nu (Tf : R -> R -> R) eps Gp w1 w2 yAPB s beta V ySFM ySFP bp gamma r Ls r0 :
  Tf 0 r0 <> 0 -> b <> 0 -> 0 < Ls -> s <> 0 ->
  (0 <= G ^ 3 * eps ^ 3 * r ^ 3 * b / Tf 0 r0 ->
     Rabs (coherencyWeak G b 0 Tf eps r Ls r0 - coherencyWeakScrew G b Tf eps r Ls r0)
       <= 1 / 10000 * Rabs (coherencyWeakScrew G b Tf eps r Ls r0)) /\
  coherencyStrong G b 0 Tf eps r Ls r0 = coherencyStrongScrew G b Tf 1 eps r Ls r0 /\
  modulusWeak G b 0 Tf Gp w1 w2 r Ls r0 = modulusWeakScrew G b Tf Gp w1 w2 r Ls r0 /\
  APBweak b 0 Tf yAPB s beta r Ls r0 = APBweakScrew b Tf yAPB s beta r Ls r0 /\
  (0 < V * Tf 0 r0 -> 0 <= r * yAPB -> 0 < b * Ls ->
     Rabs (APBstrong b 0 Tf yAPB V r Ls r0 - APBstrongScrew b Tf yAPB V r Ls r0)
       <= 15 / 10000 * Rabs (APBstrongScrew b Tf yAPB V r Ls r0)) /\
  SFEweak G b nu 0 Tf ySFM ySFP bp r Ls r0 = SFEweakNarrowScrew G b nu Tf ySFM ySFP bp r Ls r0 /\
  SFEstrong G b nu 0 ySFM ySFP bp r Ls r0 = SFEstrongNarrowScrew G b nu 1 ySFM ySFP bp r Ls r0 /\
  interfacialWeak b 0 Tf gamma r Ls r0 = interfacialWeakScrew b Tf gamma r Ls r0.
Proof. exact (mixed_reduces_to_screw G b nu Tf eps Gp w1 w2 yAPB s beta V ySFM ySFP bp gamma r Ls r0). Qed.
Print Assumptions C18_mixed_reduces_to_screw.

(* the complex J factor is NOT 1 at the pure characters (sqrt(1-nu) and 1/sqrt(1-nu)): the reductions above
   hold for the default J = 1 *)
Theorem C18_Jcomplex_pure_characters nu :
  (nu < 1 -> Jcomplex nu (PI / 2) = sqrt (1 - nu)) /\ Jcomplex nu 0 = 1 / sqrt (1 - nu).
Proof. exact (conj (Jcomplex_edge nu) (Jcomplex_screw nu)). Qed.
Print Assumptions C18_Jcomplex_pure_characters.

(* ---- Zener drag ------------------------------------------------------------------------------------------ *)
(* with a non-negative drag level (alpha*M*gbe*z) no boundary is reversed or accelerated, and a boundary whose
   driving rate does not exceed the drag does not move *)
Theorem C18_zener_never_reverses_or_accelerates cz g k : 0 <= cz ->
  (0 <= nthR g k -> 0 <= nthR (constrainedGrowth Rops cz g) k <= nthR g k) /\
  (nthR g k <= 0 -> nthR g k <= nthR (constrainedGrowth Rops cz g) k <= 0) /\
  Rabs (nthR (constrainedGrowth Rops cz g) k) <= Rabs (nthR g k) /\
  (Rabs (nthR g k) <= cz -> nthR (constrainedGrowth Rops cz g) k = 0).
Proof. exact (zener_spec cz g k). Qed.
Print Assumptions C18_zener_never_reverses_or_accelerates.

(* strong enough drag freezes the structure: every class keeps its population rate at zero *)
Theorem C18_zener_freezes c cz bounds size x j : (1 <= length x)%nat -> length bounds = S (length x) -> 0 <= cz ->
  (forall k, Rabs (nthR (grainGrowth Rops c bounds size x) k) <= cz) -> (j < length x)%nat ->
  nthR (ggdXdt Rops c cz bounds size x) j = 0.
Proof. exact (zener_freezes c cz bounds size x j). Qed.
Print Assumptions C18_zener_freezes.

Theorem C18_zener_no_drag g : constrainedGrowth Rops 0 g = g.
Proof. exact (zener_nodrag g). Qed.
Print Assumptions C18_zener_no_drag.

(* grains larger than the critical radius grow, smaller ones shrink *)
Theorem C18_growth_sign c rcr bnd : 0 < c -> 0 < rcr -> 0 < bnd ->
  (rcr < bnd -> 0 < growth1 Rops c rcr bnd) /\ (bnd < rcr -> growth1 Rops c rcr bnd < 0) /\
  (bnd = rcr -> growth1 Rops c rcr bnd = 0).
Proof. exact (growth1_sign c rcr bnd). Qed.
Print Assumptions C18_growth_sign.

(* ---- grain number and volume ------------------------------------------------------------------------------ *)
(* for EVERY growth field (pinned or not) the number of grains does not increase: in the rate, in the rate
   after the step-size correction, and over the explicit Euler step (C07: nothing enters through the ends) *)
Theorem C18_grain_number_nonincreasing dt c cz bounds size x g :
  (1 <= length x)%nat -> length bounds = S (length x) -> incr bounds -> nonneg x ->
  (wf bounds x g -> sumR (getdXdt Rops bounds x g 0 0) <= 0) /\
  (wf bounds x g -> 0 < dt -> sumR (correctdXdt Rops dt bounds x g 0 0) <= 0) /\
  (0 < dt -> sumR (eulerUpdate Rops dt x (ggCorrected Rops dt c cz bounds size x)) <= sumR x).
Proof.
  exact (fun H1 H2 Hi Hp =>
    conj (fun Hwf => grain_number_rate bounds x g Hwf Hi Hp)
   (conj (fun Hwf Hdt => grain_number_rate_corrected dt bounds x g Hwf Hi Hp Hdt)
         (fun Hdt => grain_number_step dt c cz bounds size x H1 H2 Hi Hp Hdt))).
Qed.
Print Assumptions C18_grain_number_nonincreasing.

(* Normalize restores the total grain volume (third moment) to exactly 1 after every step, keeps the
   distribution non-negative and does not change the mean size *)
Theorem C18_grain_volume_conserved size psd :
  (momentFromN Rops size psd 3 <> 0 -> momentFromN Rops size (normalize Rops size psd) 3 = 1) /\
  (0 < momentFromN Rops size psd 3 -> nonneg psd -> nonneg (normalize Rops size psd)) /\
  (momentFromN Rops size psd 3 <> 0 -> momentFromN Rops size psd 0 <> 0 ->
     Rm3 Rops size (normalize Rops size psd) = Rm3 Rops size psd).
Proof. exact (conj (normalize_third_moment size psd) (conj (normalize_nonneg size psd) (normalize_Rm3 size psd))). Qed.
Print Assumptions C18_grain_volume_conserved.

(* a distribution loaded with LoadDistribution / LoadDistributionFunction has total volume 1, and so has the state reset()
   restores, whatever happened to the distribution in between (the backup is taken after Normalize) *)
Theorem C18_load_reset_volume size raw psd' : momentFromN Rops size raw 3 <> 0 ->
  momentFromN Rops size (g_psd (gload Rops size raw)) 3 = 1 /\
  momentFromN Rops size (g_psd (greset Rops {| g_psd := psd'; g_backup := g_backup (gload Rops size raw) |})) 3 = 1.
Proof. exact (load_reset_volume size raw psd'). Qed.
Print Assumptions C18_load_reset_volume.

(* PARTIAL: the mean size cubed is M3/M0.  The number M0 never increases (theorem above); IF the transport
   step does not lose volume (M3 <= M3', not proved for the upwind discretisation: sampled by the check) the
   mean size does not decrease *)
Theorem C18_mean_size_monotone_partial M0 M3 M0' M3' : 0 < M0' <= M0 -> 0 < M3 <= M3' -> M3 / M0 <= M3' / M0'.
Proof. exact (mean_size_monotone_partial M0 M3 M0' M3'). Qed.
Print Assumptions C18_mean_size_monotone_partial.

(* ---- histories --------------------------------------------------------------------------------------------- *)
(* one row per host step in each of the three strength histories, whatever the grouping of the steps into
   solve calls; from a fresh model the rows are the initial row followed by what was read at each step *)
Theorem C18_strength_history_aligned nph ss0 (calls : list (list hstep)) h :
  (hlen_rss (srun nph ss0 calls h) = (hlen_rss h + length (concat calls))%nat /\
   hlen_ls (srun nph ss0 calls h) = (hlen_ls h + length (concat calls))%nat /\
   hlen_ss (srun nph ss0 calls h) = (hlen_ss h + length (concat calls))%nat) /\
  srun nph ss0 calls h = scall nph ss0 h (concat calls) /\
  match scall nph ss0 None (concat calls) with
  | None => concat calls = []
  | Some x => h_rss x = repeat 0 nph :: map (fun st => fst (fst st)) (concat calls) /\
              h_ls x = repeat 0 nph :: map (fun st => snd (fst st)) (concat calls) /\
              h_ss x = ss0 :: map (fun st => snd st) (concat calls)
  end.
Proof. exact (conj (srun_len nph ss0 calls h) (conj (srun_concat nph ss0 calls h) (scall_rows nph ss0 (concat calls)))). Qed.
Print Assumptions C18_strength_history_aligned.

(* the grain-growth clock: each callback advances it by exactly the host's step (C05: the inner solve ends
   exactly at clock + span), so after every host step, over any number of host solve calls, it has advanced
   by what the host clock has; started together they are equal *)
Theorem C18_grain_clock_equals_host propose fmin fmax clock t0 (calls : list (list R)) : 0 < fmin <= fmax ->
  StronglySorted Rlt (t0 :: concat calls) ->
  gclocks Rops propose (gfuel fmin) fmin fmax 0 clock t0 (concat calls) = map (fun t => clock + (t - t0)) (concat calls) /\
  gclocks Rops propose (gfuel fmin) fmin fmax 0 t0 t0 (concat calls) = concat calls.
Proof.
  exact (fun Hf Hs => conj (gclocks_spec propose fmin fmax 0 clock t0 (concat calls) Hf Hs)
                           (grain_clock_equals_host propose fmin fmax t0 (concat calls) Hf Hs)).
Qed.
Print Assumptions C18_grain_clock_equals_host.

(* ---- the executable instance used by the correspondence computes the real-number model ----------------- *)
From Coq Require Import QArith Qreals.
Require Import Kawin.C18.Hom.
Theorem C18_exec_is_real_model cz g c rcr bnd :
  map Q2R (constrainedGrowth Qops cz g) = constrainedGrowth Rops (Q2R cz) (map Q2R g) /\
  (~ (rcr == 0)%Q -> ~ (bnd == 0)%Q -> Q2R (growth1 Qops c rcr bnd) = growth1 Rops (Q2R c) (Q2R rcr) (Q2R bnd)).
Proof. exact (conj (constrainedGrowth_hom cz g) (growth1_hom c rcr bnd)). Qed.
Print Assumptions C18_exec_is_real_model.
