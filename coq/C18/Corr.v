(* C18 - harness-side support for the correspondence (no theorem of Properties.v depends on this file).
   (1) pointwise enclosures: for sampled exact inputs x and the value y the running Python function returned,
       the check emits goals  Rabs (f x - y) <= tol * Rabs y + atol  about the GENERATED definitions and about
       the hand model; Coq proves them by interval arithmetic.  Each goal is wrapped as {goal} + {True} and
       decided by [decide_enclosure]: a kernel-checked proof or "not proved"; verdicts are printed as booleans.
   (2) exact goals about clipping and branch selection on concrete rationals.
   (3) the grain-growth kernels executed on exact rationals (vm_compute) and compared inside Coq.
   (4) the grain-growth clock executed on primitive binary64 floats and compared bit for bit. *)
From Coq Require Import Reals String List Bool Arith Lra.
From Interval Require Import Tactic.
Require Import Kawin.Common.Ops Kawin.Common.Vec Kawin.Common.VecLemmas Kawin.C07.Model Kawin.C18.Model Kawin.C18.Proofs.
Import ListNotations.
Open Scope R_scope.

Ltac num := first [ lra | interval with (i_prec 80) ].

(* resolve np.power on concrete numbers: positive base -> Rpower, zero base -> 0 (innermost first: an outer
   occurrence whose base still contains npow is skipped by backtracking) *)
Ltac unpow :=
  repeat match goal with
  | |- context [npow ?x ?y] => first [ rewrite (npow_pos x y) by num | rewrite (npow_nonpos x y) by num ]
  end.
Ltac unmin :=
  repeat match goal with
  | |- context [Rmin ?a ?b] => first [ rewrite (Rmin_left a b) by num | rewrite (Rmin_right a b) by num ]
  end.
Ltac unif :=
  repeat match goal with
  | |- context [Req_EM_T ?a ?b] =>
      first [ assert (a < b) by num; destruct (Req_EM_T a b); [exfalso; lra|]
            | assert (b < a) by num; destruct (Req_EM_T a b); [exfalso; lra|]
            | assert (a = b) by lra; destruct (Req_EM_T a b); [|exfalso; lra] ]
  | |- context [Rlt_dec ?a ?b] =>
      first [ assert (a < b) by num; destruct (Rlt_dec a b); [|exfalso; lra]
            | assert (b <= a) by num; destruct (Rlt_dec a b); [exfalso; lra|] ]
  end.

(* enclosure of a formula / of the combination on concrete numbers *)
Ltac enclose := timeout 60 (cbv zeta; unpow; unif; unpow; unmin; num).

(* second attempt for a goal the first one did not decide (higher precision, longer time limit) *)
Ltac num2 := first [ lra | interval with (i_prec 160) ].
Ltac unpow2 :=
  repeat match goal with
  | |- context [npow ?x ?y] => first [ rewrite (npow_pos x y) by num2 | rewrite (npow_nonpos x y) by num2 ]
  end.
Ltac unmin2 :=
  repeat match goal with
  | |- context [Rmin ?a ?b] => first [ rewrite (Rmin_left a b) by num2 | rewrite (Rmin_right a b) by num2 ]
  end.
Ltac enclose2 := timeout 300 (cbv zeta; unpow2; unif; unpow2; unmin2; num2).

(* verdict of one goal: kernel-checked proof (abstract) or not proved *)
Ltac decide_enclosure tac := first [ left; abstract tac | right; exact I ].
Definition verdict {P : Prop} (d : {P} + {True}) : bool := if d then true else false.

(* exact goals: clipping of concrete values, boolean comparison flags *)
Ltac exact_goal :=
  timeout 60 (unfold Rltb; unpow; unif; try reflexivity; repeat f_equal; try lra; try reflexivity).

(* ================================================================================================ *)
(* (3) grain-growth kernels on exact rationals                                                       *)
From Coq Require Import QArith ZArith.
Require Import Kawin.Common.Out Kawin.C07.Corr.
Close Scope R_scope.
Open Scope Q_scope.

(* a branch of constrainedGrowth decided within tolerance of a tie cannot be compared *)
Definition cg_tie (rt cz g : Q) : bool :=
  let up := (g + cz)%Q in let lo := (g - cz)%Q in
  closeb rt up 0 (qmax (qabs g) (qabs cz)) || closeb rt lo 0 (qmax (qabs g) (qabs cz)).

(* one grain-growth case: the implementation's arrays are compared inside Coq with the model evaluated on
   exact rationals.  [size] = pbm.PSDsize, [i_*] = implementation outputs, [s_*] = comparison scales
   (summed magnitudes, computed by the harness).  Result: verdict per output (None = agrees). *)
Definition check_grain (rt : Q) (c cz dt : Q) (bounds size x : list Q)
           (i_g i_cg i_dx i_dx2 i_norm : list Q) (i_rm3 : Q) (s_g : list Q) :=
  let g := grainGrowth Qops c bounds size x in
  (* constrainedGrowth is applied by the implementation to ITS growth array: compare on that *)
  let cg := constrainedGrowth Qops cz i_g in
  let tie := existsb (fun gi => cg_tie rt cz gi) i_g in
  let nf := netFlux Qops bounds x i_cg in
  let nf2 := correctFlux Qops dt nf x in
  let ltie := lim_tie (rt * 64) dt nf x || class_tie (rt * 64) dt (limitAbove Qops dt (limitBelow Qops dt nf x) x) x in
  let nrm := normalize Qops size x in
  (cmpl rt i_g g s_g,
   if tie then None else cmpl rt i_cg cg (map (fun gi => qmax (qabs gi) (qabs cz)) i_g),
   tie,
   cmpl rt i_dx (getdXdt Qops bounds x i_cg 0 0) (pairsum 0 nf),
   ltie,
   if ltie then None else cmpl rt i_dx2 (correctdXdt Qops dt bounds x i_cg 0 0) (pairsum 0 nf2),
   cmpl_rel rt i_norm nrm,
   cmp1 rt i_rm3 (Rm3 Qops size x),
   cmp1 rt 1 (momentFromN Qops size nrm 3)).

(* exact dyadic inputs: constrainedGrowth must agree exactly *)
Definition check_constrained_exact (cz : Q) (g i_cg : list Q) : bool :=
  forallb (fun p => Qeq_bool (fst p) (snd p)) (List.combine (constrainedGrowth Qops cz g) i_cg)
  && Nat.eqb (length g) (length i_cg).

Close Scope Q_scope.

(* ================================================================================================ *)
(* (4) the grain-growth clock on binary64                                                            *)
From Coq Require Import PrimFloat.
Require Import Kawin.C05.Model Kawin.C05.Corr.

(* host times t0 :: ts, the inner proposals of every host step, the clock the implementation showed after
   every host step.  Result: (index of the first host step whose clock differs, model value) or None, and
   the number of inner steps the model made per host step *)
Definition check_gclock (fuel : nat) (fmin fmax clock0 t0 : float) (ts : list float) (props : list (list float))
           (iclocks : list float) :=
  let propose := fun k => script (nth k props []) PrimFloat.infinity in
  let cl := gclocks F64ops propose fuel fmin fmax 0 clock0 t0 ts in
  first_diff 0 iclocks cl.

(* inner step counts of the model (to compare with the implementation's number of inner iterations) *)
Fixpoint gsteps (propose : nat -> nat -> float) (fuel : nat) (fmin fmax : float) (k : nat) (clock tprev : float)
         (ts : list float) : list nat :=
  match ts with
  | [] => []
  | tn :: r =>
      let run := solve F64ops true (propose k) (fun _ => false) fuel clock (span F64ops tn tprev) fmin fmax in
      length (pairs F64ops run) :: gsteps propose fuel fmin fmax (S k) (last (times F64ops run) clock) tn r
  end.
Definition check_gsteps (fuel : nat) (fmin fmax clock0 t0 : float) (ts : list float) (props : list (list float)) :=
  gsteps (fun k => script (nth k props []) PrimFloat.infinity) fuel fmin fmax 0 clock0 t0 ts.
