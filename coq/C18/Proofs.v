(* C18 - lemmas about the model of Model.v (real-number instance). *)
From Coq Require Import Reals String List Bool Arith ZArith Lia Lra Psatz Sorted.
From Interval Require Import Tactic.
Require Import Kawin.Common.Ops Kawin.Common.Vec Kawin.Common.VecLemmas.
Require Import Kawin.C07.Model Kawin.C07.Proofs Kawin.C05.Model Kawin.C05.Proofs Kawin.C18.Model.
Import ListNotations.
Open Scope R_scope.

Tactic Notation "lia" := (cbn [T Rops] in *; Lia.lia).
Tactic Notation "lra" := (cbn [T Rops] in *; Lra.lra).
Tactic Notation "nra" := (cbn [T Rops] in *; Lra.nra).

(* ================================================================================================ *)
(* np.power on the reals                                                                            *)
Lemma npow_nonneg x y : 0 <= npow x y.
Proof. unfold npow. destruct (Rlt_dec 0 x); [left; apply exp_pos|lra]. Qed.
Lemma npow_pos x y : 0 < x -> npow x y = Rpower x y.
Proof. intros H. unfold npow. destruct (Rlt_dec 0 x); [reflexivity|lra]. Qed.
Lemma npow_pos_pos x y : 0 < x -> 0 < npow x y.
Proof. intros H. rewrite npow_pos by assumption. apply exp_pos. Qed.
Lemma npow_nonpos x y : x <= 0 -> npow x y = 0.
Proof. intros H. unfold npow. destruct (Rlt_dec 0 x); [lra|reflexivity]. Qed.
Lemma npow_mono a b y : 0 < y -> a <= b -> npow a y <= npow b y.
Proof.
  intros Hy Hab. unfold npow. destruct (Rlt_dec 0 a) as [Ha|Ha]; destruct (Rlt_dec 0 b) as [Hb|Hb]; try lra.
  - apply Rle_Rpower_l; lra.
  - left. apply exp_pos.
Qed.
(* (x^n)^(1/n) = x *)
Lemma npow_inv x n : 0 < x -> n <> 0 -> npow (npow x n) (1 / n) = x.
Proof.
  intros Hx Hn. rewrite (npow_pos x n Hx). rewrite npow_pos by apply exp_pos.
  rewrite Rpower_mult. replace (n * (1 / n)) with 1 by (field; exact Hn). apply Rpower_1; exact Hx.
Qed.
Lemma npow_root_ge x n S : 0 < n -> 0 <= x -> npow x n <= S -> x <= npow S (1 / n).
Proof.
  intros Hn Hx HS. destruct Hx as [Hx|Hx].
  - rewrite <- (npow_inv x n Hx) at 1 by lra. apply npow_mono; [|exact HS].
    unfold Rdiv. rewrite Rmult_1_l. apply Rinv_0_lt_compat; exact Hn.
  - subst x. apply npow_nonneg.
Qed.

(* ---- superposition  (sum x_i^n)^(1/n) ----------------------------------------------------------- *)
Definition superpose (n : R) (l : list R) : R := npow (sumR (map (fun x => npow x n) l)) (1 / n).

Lemma sum_npow_nonneg n l : 0 <= sumR (map (fun x => npow x n) l).
Proof. induction l as [|x l IH]; cbn [map sumT]; Rnorm; [lra|]. pose proof (npow_nonneg x n). lra. Qed.
Lemma sum_npow_ge n l x : In x l -> npow x n <= sumR (map (fun x => npow x n) l).
Proof.
  induction l as [|y l IH]; intros Hin; [destruct Hin|]. cbn [map sumT]; Rnorm.
  pose proof (sum_npow_nonneg n l). pose proof (npow_nonneg y n).
  destruct Hin as [->|Hin]; [lra|]. specialize (IH Hin). lra.
Qed.
Lemma superpose_nonneg n l : 0 <= superpose n l.
Proof. apply npow_nonneg. Qed.
Lemma superpose_ge_each n l x : 0 < n -> 0 <= x -> In x l -> x <= superpose n l.
Proof. intros Hn Hx Hin. apply npow_root_ge; auto. apply sum_npow_ge; exact Hin. Qed.
Lemma superpose_mono n l l' : 0 < n -> Forall2 Rle l l' -> superpose n l <= superpose n l'.
Proof.
  intros Hn H. unfold superpose. apply npow_mono.
  - unfold Rdiv. rewrite Rmult_1_l. apply Rinv_0_lt_compat; exact Hn.
  - induction H as [|a b l l' Hab H IH]; cbn [map sumT]; Rnorm; [lra|].
    pose proof (npow_mono a b n Hn Hab). lra.
Qed.
Lemma superpose_all_nonpos n l : Forall (fun x => x <= 0) l -> superpose n l = 0.
Proof.
  intros H. unfold superpose. apply npow_nonpos.
  induction H as [|x l Hx H IH]; cbn [map sumT]; Rnorm; [lra|]. rewrite (npow_nonpos x n Hx). lra.
Qed.
Lemma superpose_single n x : 0 <= x -> n <> 0 -> superpose n [x] = x.
Proof.
  intros Hx Hn. unfold superpose. cbn [map sumT]. Rnorm. rewrite Rplus_0_r. destruct Hx as [Hx|Hx].
  - apply npow_inv; assumption.
  - subst x. rewrite (npow_nonpos 0 n) by lra. apply npow_nonpos; lra.
Qed.

Lemma tausum_superpose n l : l <> [] -> tausum n l = superpose n l.
Proof. destruct l; [congruence|reflexivity]. Qed.
Lemma tausum_nonneg n l : 0 <= tausum n l.
Proof. destruct l; [cbn; lra|apply superpose_nonneg]. Qed.
Lemma totalStrength_superpose n s0 ss ps : totalStrength n s0 ss ps = superpose n [s0; ss; ps].
Proof. reflexivity. Qed.

(* ================================================================================================ *)
(* clipping                                                                                          *)
Lemma clip_neg_nonneg v : 0 <= clip ClipNegNonfinite v.
Proof. destruct v as [x|]; cbn; [destruct (Rlt_dec x 0); lra|lra]. Qed.
Lemma clip_neg_id x : 0 <= x -> clip ClipNegNonfinite (Some x) = x.
Proof. intros H. cbn. destruct (Rlt_dec x 0); lra. Qed.
Lemma clip_neg_zero v : (v = None \/ exists x, v = Some x /\ x <= 0) -> clip ClipNegNonfinite v = 0.
Proof. intros [->|(x & -> & H)]; cbn; [reflexivity|]. destruct (Rlt_dec x 0); lra. Qed.
Lemma contribution_clipped_nonneg (l : list xr) : Forall (fun x => 0 <= x) (map (clip ClipNegNonfinite) l).
Proof. induction l; constructor; [apply clip_neg_nonneg|assumption]. Qed.

(* ================================================================================================ *)
(* one phase: M * smallest branch                                                                    *)
Lemma taumin_le n w s o : taumin n w s o <= tausum n w /\ taumin n w s o <= tausum n s /\ taumin n w s o <= o.
Proof.
  unfold taumin. pose proof (Rmin_l (Rmin (tausum n w) (tausum n s)) o). pose proof (Rmin_r (Rmin (tausum n w) (tausum n s)) o).
  pose proof (Rmin_l (tausum n w) (tausum n s)). pose proof (Rmin_r (tausum n w) (tausum n s)). lra.
Qed.
Lemma taumin_is_one n w s o : taumin n w s o = tausum n w \/ taumin n w s o = tausum n s \/ taumin n w s o = o.
Proof.
  unfold taumin.
  destruct (Rle_dec (Rmin (tausum n w) (tausum n s)) o) as [E|E].
  - rewrite (Rmin_left _ o E). destruct (Rle_dec (tausum n w) (tausum n s)) as [E'|E'].
    + rewrite Rmin_left by exact E'. auto.
    + rewrite Rmin_right by lra. auto.
  - rewrite Rmin_right by lra. auto.
Qed.
Lemma prec_strength_is_M_times_min M n w s o :
  exists m, combine M n w s o = M * m /\ (m = tausum n w \/ m = tausum n s \/ m = o) /\
            m <= tausum n w /\ m <= tausum n s /\ m <= o.
Proof. exists (taumin n w s o). split; [reflexivity|]. split; [apply taumin_is_one|apply taumin_le]. Qed.

Lemma taumin_nonneg n w s o : 0 <= o -> 0 <= taumin n w s o.
Proof.
  intros Ho. destruct (taumin_is_one n w s o) as [->|[->| ->]]; [apply tausum_nonneg|apply tausum_nonneg|exact Ho].
Qed.
Lemma phase_strength_nonneg M n ws ss o : 0 <= M ->
  0 <= fst (phaseStrength ClipNegNonfinite ClipNegNonfinite ClipNegNonfinite M n ws ss o).
Proof.
  intros HM. cbn. unfold combine. apply Rmult_le_pos; [exact HM|]. apply taumin_nonneg, clip_neg_nonneg.
Qed.
(* the Orowan branch is 0 (no particles: log(0) = -inf; sub-core particles: negative) => strength 0 *)
Lemma phase_strength_zero M n cw cs ws ss o : (o = None \/ exists x, o = Some x /\ x <= 0) ->
  fst (phaseStrength cw cs ClipNegNonfinite M n ws ss o) = 0.
Proof.
  intros Ho. cbn. unfold combine. rewrite (clip_neg_zero o Ho).
  pose proof (taumin_le n (map (clip cw) ws) (map (clip cs) ss) 0) as (_ & _ & H1).
  pose proof (taumin_nonneg n (map (clip cw) ws) (map (clip cs) ss) 0 ltac:(lra)).
  replace (taumin n (map (clip cw) ws) (map (clip cs) ss) 0) with 0 by lra. ring.
Qed.
(* every weak (or every strong) contribution clipped to 0 => strength 0 *)
Lemma phase_strength_zero_branch M n ws ss o : ws <> [] ->
  Forall (fun v => v = None \/ exists x, v = Some x /\ x <= 0) ws ->
  fst (phaseStrength ClipNegNonfinite ClipNegNonfinite ClipNegNonfinite M n ws ss o) = 0.
Proof.
  intros Hne Hall. cbn. unfold combine.
  assert (Hz : tausum n (map (clip ClipNegNonfinite) ws) = 0).
  { rewrite tausum_superpose by (destruct ws; [congruence|discriminate]). apply superpose_all_nonpos.
    induction Hall as [|v l Hv Hall IH]; constructor.
    - rewrite (clip_neg_zero v Hv). lra.
    - destruct l; [constructor|apply IH; discriminate]. }
  pose proof (taumin_le n (map (clip ClipNegNonfinite) ws) (map (clip ClipNegNonfinite) ss) (clip ClipNegNonfinite o)) as (H1 & _).
  pose proof (taumin_nonneg n (map (clip ClipNegNonfinite) ws) (map (clip ClipNegNonfinite) ss) _ (clip_neg_nonneg o)).
  replace (taumin n (map (clip ClipNegNonfinite) ws) (map (clip ClipNegNonfinite) ss) (clip ClipNegNonfinite o)) with 0 by lra. ring.
Qed.
(* the tree before the repair clipped the Orowan array with ClipNonfinite only *)
Lemma orowan_negative_refuted :
  exists M n ws ss o, 0 < M /\ 0 < n /\
    fst (phaseStrength ClipNegNonfinite ClipNegNonfinite ClipNonfinite M n ws ss o) < 0.
Proof.
  exists 1, 1, [Some 1], [Some 1], (Some (-1)). split; [lra|]. split; [lra|].
  cbn. unfold combine. pose proof (taumin_le 1 [if Rlt_dec 1 0 then 0 else 1] [if Rlt_dec 1 0 then 0 else 1] (-1)) as (_ & _ & H). lra.
Qed.

(* ---- several phases ---------------------------------------------------------------------------- *)
Lemma mixPhases_superpose eS eM ph : exists e, (e = eS \/ e = eM) /\ mixPhases eS eM ph = superpose e (map fst ph).
Proof.
  unfold mixPhases. set (c := (_ || _)%bool). exists (if c then eS else eM). split; [destruct c; auto|].
  unfold superpose. rewrite map_map. reflexivity.
Qed.
Lemma mixPhases_nonneg eS eM ph : 0 <= mixPhases eS eM ph.
Proof. destruct (mixPhases_superpose eS eM ph) as (e & _ & ->). apply superpose_nonneg. Qed.
Lemma mixPhases_ge_each eS eM ph p : 0 < eS -> 0 < eM -> 0 <= fst p -> In p ph -> fst p <= mixPhases eS eM ph.
Proof.
  intros HS HM Hp Hin. destruct (mixPhases_superpose eS eM ph) as (e & He & ->).
  apply superpose_ge_each; [destruct He; subst; assumption|exact Hp|apply in_map; exact Hin].
Qed.
Lemma mixPhases_zero eS eM ph : Forall (fun p => fst p = 0) ph -> mixPhases eS eM ph = 0.
Proof.
  intros H. destruct (mixPhases_superpose eS eM ph) as (e & _ & ->). apply superpose_all_nonpos.
  induction H as [|p l Hp H IH]; cbn [map]; constructor; [lra|exact IH].
Qed.
Lemma precStrength_nonneg cw cs co M n eS eM phases : 0 <= precStrength cw cs co M n eS eM phases.
Proof. apply mixPhases_nonneg. Qed.
Lemma precStrength_zero cw cs M n eS eM phases :
  Forall (fun p => snd p = None \/ exists x, snd p = Some x /\ x <= 0) phases ->
  precStrength cw cs ClipNegNonfinite M n eS eM phases = 0.
Proof.
  intros H. apply mixPhases_zero. induction H as [|p l Hp H IH]; cbn [map]; constructor; [|exact IH].
  apply phase_strength_zero; exact Hp.
Qed.

(* ---- total strength ------------------------------------------------------------------------------ *)
Lemma total_ge_parts n s0 ss ps : 0 < n -> 0 <= s0 -> 0 <= ss -> 0 <= ps ->
  s0 <= totalStrength n s0 ss ps /\ ss <= totalStrength n s0 ss ps /\ ps <= totalStrength n s0 ss ps.
Proof.
  intros Hn H0 H1 H2. rewrite totalStrength_superpose.
  repeat split; apply superpose_ge_each; auto; cbn; auto.
Qed.
Lemma total_monotone n s0 ss ps s0' ss' ps' : 0 < n -> s0 <= s0' -> ss <= ss' -> ps <= ps' ->
  totalStrength n s0 ss ps <= totalStrength n s0' ss' ps'.
Proof. intros. rewrite !totalStrength_superpose. apply superpose_mono; auto. Qed.
Lemma total_nonneg n s0 ss ps : 0 <= totalStrength n s0 ss ps.
Proof. rewrite totalStrength_superpose. apply superpose_nonneg. Qed.
Lemma total_only_part n x : 0 < n -> 0 <= x ->
  totalStrength n x 0 0 = x /\ totalStrength n 0 x 0 = x /\ totalStrength n 0 0 x = x.
Proof.
  intros Hn Hx. pose proof (superpose_single n x Hx ltac:(lra)) as H.
  assert (E : forall l, sumR (map (fun y => npow y n) l) = sumR (map (fun y => npow y n) [x]) ->
                        npow (sumR (map (fun y => npow y n) l)) (1 / n) = x).
  { intros l El. rewrite El. exact H. }
  unfold totalStrength. repeat split; apply E; cbn [map sumT]; Rnorm; rewrite (npow_nonpos 0 n) by lra; lra.
Qed.

(* ================================================================================================ *)
(* mean projected radius and spacing                                                                 *)
Lemma momentFromN_nonneg size psd k : Forall (fun x => 0 <= x) size -> Forall (fun x => 0 <= x) psd ->
  0 <= momentFromN Rops size psd k.
Proof.
  intros Hs. revert psd. induction Hs as [|r size Hr Hs IH]; intros psd Hp.
  - unfold momentFromN. destruct psd; cbn; lra.
  - destruct Hp as [|p psd Hp0 Hp]; [cbn; lra|]. unfold momentFromN in *. cbn [zipWith sumT]. Rnorm.
    specialize (IH psd Hp). assert (0 <= powT Rops r k).
    { clear -Hr. induction k; cbn [powT]; Rnorm; [lra|nra]. }
    nra.
Qed.
Lemma momentFromN_zero size psd k : Forall (fun x => x = 0) psd -> momentFromN Rops size psd k = 0.
Proof.
  intros Hp. revert size. induction Hp as [|p psd Hp0 Hp IH]; intros size; unfold momentFromN in *.
  - reflexivity.
  - destruct size as [|r size]; [reflexivity|]. cbn [zipWith sumT]. Rnorm. rewrite IH. subst p. lra.
Qed.

Lemma rssterm_nonneg r1 r2 : 0 <= r1 -> 0 <= r2 -> 0 <= rssterm r1 r2.
Proof.
  intros H1 H2. unfold rssterm. destruct (Req_EM_T r1 0); [lra|].
  assert (0 < r1) by lra. pose proof (sqrt_pos (2 / 3)).
  unfold Rdiv at 1. apply Rmult_le_pos; [nra|]. left; apply Rinv_0_lt_compat; lra.
Qed.
Lemma ln3_pos : 0 < ln 3.
Proof. rewrite <- ln_1. apply ln_increasing; lra. Qed.
Lemma Lsterm_nonneg r1 r2 : 0 <= r1 -> 0 <= r2 -> 0 <= Lsterm r1 r2.
Proof.
  intros H1 H2. unfold Lsterm. destruct (Req_EM_T r1 0); [lra|]. cbv zeta.
  assert (Hr : 0 < r1) by lra.
  pose proof (rssterm_nonneg r1 r2 H1 H2) as Hc. unfold rssterm in Hc. destruct (Req_EM_T r1 0); [lra|].
  set (c := sqrt (2 / 3) * r2 / r1) in *.
  assert (Ha : 0 <= ln 3 / (2 * PI * r1)).
  { unfold Rdiv. apply Rmult_le_pos; [left; apply ln3_pos|]. left; apply Rinv_0_lt_compat.
    pose proof PI_RGT_0. nra. }
  assert (Hs : 2 * c <= sqrt (ln 3 / (2 * PI * r1) + (2 * c) ^ 2)).
  { rewrite <- (sqrt_pow2 (2 * c)) at 1 by lra. apply sqrt_le_1_alt. lra. }
  lra.
Qed.
Lemma no_precipitates_zero r2 : rssterm 0 r2 = 0 /\ Lsterm 0 r2 = 0.
Proof. unfold rssterm, Lsterm. destruct (Req_EM_T 0 0); [split; reflexivity|lra]. Qed.
Lemma empty_psd_zero psd size : Forall (fun x => x = 0) psd ->
  rssterm (moment1 psd size) (moment2 psd size) = 0 /\ Lsterm (moment1 psd size) (moment2 psd size) = 0.
Proof. intros H. unfold moment1. rewrite momentFromN_zero by exact H. apply no_precipitates_zero. Qed.
Lemma radius_spacing_nonneg psd size : Forall (fun x => 0 <= x) size -> Forall (fun x => 0 <= x) psd ->
  0 <= rssterm (moment1 psd size) (moment2 psd size) /\ 0 <= Lsterm (moment1 psd size) (moment2 psd size).
Proof.
  intros Hs Hp. pose proof (momentFromN_nonneg size psd 1 Hs Hp). pose proof (momentFromN_nonneg size psd 2 Hs Hp).
  split; [apply rssterm_nonneg|apply Lsterm_nonneg]; assumption.
Qed.

(* ================================================================================================ *)
(* strength history: one row per host step                                                           *)
Lemma supdate_len nph h r l ss0 ssn :
  hlen_rss (supdate nph h r l ss0 ssn) = S (hlen_rss h) /\
  hlen_ls (supdate nph h r l ss0 ssn) = S (hlen_ls h) /\
  hlen_ss (supdate nph h r l ss0 ssn) = S (hlen_ss h).
Proof. destruct h as [x|]; cbn; rewrite ?app_length; cbn; repeat split; lia. Qed.

Lemma scall_len nph ss0 call h :
  hlen_rss (scall nph ss0 h call) = (hlen_rss h + length call)%nat /\
  hlen_ls (scall nph ss0 h call) = (hlen_ls h + length call)%nat /\
  hlen_ss (scall nph ss0 h call) = (hlen_ss h + length call)%nat.
Proof.
  unfold scall. revert h. induction call as [|st call IH]; intros h; cbn [fold_left length]; [repeat split; lia|].
  destruct (IH (sstep nph ss0 h st)) as (A & B & C). rewrite A, B, C. unfold sstep.
  destruct (supdate_len nph h (fst (fst st)) (snd (fst st)) ss0 (snd st)) as (A' & B' & C'). rewrite A', B', C'.
  repeat split; lia.
Qed.

Lemma srun_len nph ss0 calls h :
  hlen_rss (srun nph ss0 calls h) = (hlen_rss h + length (concat calls))%nat /\
  hlen_ls (srun nph ss0 calls h) = (hlen_ls h + length (concat calls))%nat /\
  hlen_ss (srun nph ss0 calls h) = (hlen_ss h + length (concat calls))%nat.
Proof.
  unfold srun. revert h. induction calls as [|c calls IH]; intros h; cbn [fold_left concat]; [cbn; repeat split; lia|].
  destruct (IH (scall nph ss0 h c)) as (A & B & C). rewrite A, B, C. rewrite app_length.
  destruct (scall_len nph ss0 c h) as (A' & B' & C'). rewrite A', B', C'. repeat split; lia.
Qed.

(* how the steps are grouped into solve calls is irrelevant *)
Lemma srun_concat nph ss0 calls h : srun nph ss0 calls h = scall nph ss0 h (concat calls).
Proof.
  unfold srun, scall. revert h. induction calls as [|c calls IH]; intros h; cbn [fold_left concat]; [reflexivity|].
  rewrite fold_left_app. apply IH.
Qed.

(* the rows are, in order, the initial row and what was read from the host at each step *)
Lemma scall_some nph ss0 steps x : exists y, scall nph ss0 (Some x) steps = Some y /\
            h_rss y = h_rss x ++ map (fun st => fst (fst st)) steps /\
            h_ls y = h_ls x ++ map (fun st => snd (fst st)) steps /\
            h_ss y = h_ss x ++ map (fun st => snd st) steps.
Proof.
  revert x. induction steps as [|st steps IH]; intros x.
  - exists x. cbn. rewrite !app_nil_r. auto.
  - set (x1 := {| h_rss := h_rss x ++ [fst (fst st)]; h_ls := h_ls x ++ [snd (fst st)]; h_ss := h_ss x ++ [snd st] |}).
    destruct (IH x1) as (y & Ey & A & B & C). exists y. split.
    + change (scall nph ss0 (Some x) (st :: steps)) with (scall nph ss0 (Some x1) steps). exact Ey.
    + rewrite A, B, C. subst x1. cbn [h_rss h_ls h_ss map]. rewrite <- !app_assoc. cbn. auto.
Qed.

Lemma scall_rows nph ss0 steps :
  match scall nph ss0 None steps with
  | None => steps = []
  | Some x => h_rss x = repeat 0 nph :: map (fun st => fst (fst st)) steps /\
              h_ls x = repeat 0 nph :: map (fun st => snd (fst st)) steps /\
              h_ss x = ss0 :: map (fun st => snd st) steps
  end.
Proof.
  destruct steps as [|st steps]; [reflexivity|].
  set (x1 := {| h_rss := [repeat 0 nph] ++ [fst (fst st)]; h_ls := [repeat 0 nph] ++ [snd (fst st)]; h_ss := [ss0] ++ [snd st] |}).
  destruct (scall_some nph ss0 steps x1) as (y & Ey & A & B & C).
  change (scall nph ss0 None (st :: steps)) with (scall nph ss0 (Some x1) steps). rewrite Ey, A, B, C.
  subst x1. cbn. auto.
Qed.

(* ================================================================================================ *)
(* Zener drag                                                                                        *)
Lemma constrained1_spec cz g : 0 <= cz ->
  (0 <= g -> 0 <= constrained1 Rops cz g <= g) /\ (g <= 0 -> g <= constrained1 Rops cz g <= 0).
Proof.
  intros Hz. unfold constrained1. Rnorm. unfold Rltb.
  destruct (Rlt_dec (g + cz) 0); destruct (Rlt_dec 0 (g - cz)); split; intros; lra.
Qed.
Lemma constrained1_abs cz g : 0 <= cz -> Rabs (constrained1 Rops cz g) <= Rabs g.
Proof.
  intros Hz. destruct (constrained1_spec cz g Hz) as (A & B). destruct (Rle_dec 0 g) as [H|H].
  - specialize (A H). rewrite !Rabs_pos_eq; lra.
  - assert (H' : g <= 0) by lra. specialize (B H'). rewrite !Rabs_left1; lra.
Qed.
Lemma constrained1_frozen cz g : Rabs g <= cz -> constrained1 Rops cz g = 0.
Proof.
  intros H. unfold constrained1. Rnorm. unfold Rltb. pose proof (Rle_abs g). pose proof (Rle_abs (- g)). rewrite Rabs_Ropp in *.
  destruct (Rlt_dec (g + cz) 0); [lra|]. destruct (Rlt_dec 0 (g - cz)); [lra|reflexivity].
Qed.
Lemma constrained1_value cz g : 0 <= cz ->
  constrained1 Rops cz g = if Rlt_dec cz g then g - cz else if Rlt_dec g (- cz) then g + cz else 0.
Proof.
  intros Hz. unfold constrained1. Rnorm. unfold Rltb.
  destruct (Rlt_dec (g + cz) 0); destruct (Rlt_dec 0 (g - cz)); destruct (Rlt_dec cz g); destruct (Rlt_dec g (- cz)); lra.
Qed.
Lemma constrained1_nodrag g : constrained1 Rops 0 g = g.
Proof. unfold constrained1. Rnorm. unfold Rltb. destruct (Rlt_dec (g + 0) 0); destruct (Rlt_dec 0 (g - 0)); lra. Qed.

Lemma nth_constrained cz g k : 0 <= cz -> nthR (constrainedGrowth Rops cz g) k = constrained1 Rops cz (nthR g k).
Proof.
  intros Hz. unfold constrainedGrowth. Rnorm. destruct (lt_dec k (length g)) as [H|H].
  - rewrite (nth_indep _ 0 (constrained1 Rops cz 0)) by (rewrite map_length; exact H). apply map_nth.
  - rewrite !nth_overflow by (rewrite ?map_length; lia). symmetry. apply constrained1_frozen.
    rewrite Rabs_R0. exact Hz.
Qed.

Lemma zener_spec cz g k : 0 <= cz ->
  (0 <= nthR g k -> 0 <= nthR (constrainedGrowth Rops cz g) k <= nthR g k) /\
  (nthR g k <= 0 -> nthR g k <= nthR (constrainedGrowth Rops cz g) k <= 0) /\
  Rabs (nthR (constrainedGrowth Rops cz g) k) <= Rabs (nthR g k) /\
  (Rabs (nthR g k) <= cz -> nthR (constrainedGrowth Rops cz g) k = 0).
Proof.
  intros Hz. rewrite nth_constrained by exact Hz. destruct (constrained1_spec cz (nthR g k) Hz) as (A & B).
  repeat split; try (intros; apply A; assumption); try (intros; apply B; assumption).
  - apply constrained1_abs; exact Hz.
  - apply constrained1_frozen.
Qed.
Lemma zener_nodrag g : constrainedGrowth Rops 0 g = g.
Proof. unfold constrainedGrowth. induction g as [|x g IH]; cbn [map]; [reflexivity|]. rewrite constrained1_nodrag, IH. reflexivity. Qed.
Lemma constrainedGrowth_length cz g : length (constrainedGrowth Rops cz g) = length g.
Proof. apply map_length. Qed.
Lemma grainGrowth_length c bounds size x : length (grainGrowth Rops c bounds size x) = length bounds.
Proof. apply map_length. Qed.
Lemma ggGrowth_wf c cz bounds size x : (1 <= length x)%nat -> length bounds = S (length x) ->
  wf bounds x (ggGrowth Rops c cz bounds size x).
Proof.
  intros H1 H2. unfold wf, ggGrowth. rewrite constrainedGrowth_length, grainGrowth_length. auto.
Qed.

(* zero growth on every face: nothing moves *)
Lemma dXdt_zero_growth bounds psd g j : wf bounds psd g -> (forall k, nthR g k = 0) -> (j < length psd)%nat ->
  nthR (getdXdt Rops bounds psd g 0 0) j = 0.
Proof.
  intros Hwf Hg Hj. rewrite dXdt_entry by assumption. unfold face, leftTerm, rightTerm. rewrite !Hg. Rnorm.
  destruct (j <? length psd)%nat; destruct (S j <? length psd)%nat; destruct (0 <? j)%nat; destruct (0 <? S j)%nat;
    destruct (Nat.eqb j _); unfold Rdiv; ring.
Qed.
Lemma zener_freezes c cz bounds size x j : (1 <= length x)%nat -> length bounds = S (length x) -> 0 <= cz ->
  (forall k, Rabs (nthR (grainGrowth Rops c bounds size x) k) <= cz) -> (j < length x)%nat ->
  nthR (ggdXdt Rops c cz bounds size x) j = 0.
Proof.
  intros H1 H2 Hz Hall Hj. unfold ggdXdt. apply dXdt_zero_growth; [apply ggGrowth_wf; assumption| |exact Hj].
  intros k. unfold ggGrowth. destruct (zener_spec cz (grainGrowth Rops c bounds size x) k Hz) as (_ & _ & _ & F).
  apply F, Hall.
Qed.

(* ---- number of grains: nothing enters the grid, so the total never increases -------------------- *)
Lemma grain_number_rate bounds psd g : wf bounds psd g -> incr bounds -> nonneg psd ->
  sumR (getdXdt Rops bounds psd g 0 0) <= 0.
Proof.
  intros Hwf Hi Hp. rewrite sum_getdXdt by assumption. pose proof (boundary_signs bounds psd g Hwf Hi Hp). lra.
Qed.
Lemma grain_number_rate_corrected dt bounds psd g : wf bounds psd g -> incr bounds -> nonneg psd -> 0 < dt ->
  sumR (correctdXdt Rops dt bounds psd g 0 0) <= 0.
Proof.
  intros Hwf Hi Hp Hdt. rewrite sum_correctdXdt by assumption.
  pose proof (boundary_signs bounds psd g Hwf Hi Hp) as (B0 & Bn).
  pose proof (netFlux_length bounds psd g Hwf) as HL.
  destruct (limiter_shrinks dt (netFlux Rops bounds psd g) psd 0 HL ltac:(lia) Hdt Hp) as (_ & L0).
  destruct (limiter_shrinks dt (netFlux Rops bounds psd g) psd (length psd) HL ltac:(lia) Hdt Hp) as (Ln & _).
  specialize (L0 B0). specialize (Ln Bn). lra.
Qed.
Lemma sum_eulerUpdate dt x d : length x = length d ->
  sumR (eulerUpdate Rops dt x d) = sumR x + sumR d * dt.
Proof.
  unfold eulerUpdate. revert d. induction x as [|a x IH]; intros [|b d] H; cbn in H; try discriminate; cbn [zipWith sumT]; Rnorm; [lra|].
  rewrite IH by lia. lra.
Qed.
Lemma correctdXdt_length dt bounds psd g : wf bounds psd g ->
  length (correctdXdt Rops dt bounds psd g 0 0) = length psd.
Proof.
  intros Hwf. pose proof Hwf as (Hn & Hb & Hg). unfold correctdXdt.
  pose proof (netFlux_length bounds psd g Hwf) as HL. pose proof (correctFlux_length dt _ psd HL) as HL'.
  rewrite dXdt_of_length. rewrite HL'. lia.
Qed.
Lemma grain_number_step dt c cz bounds size x : (1 <= length x)%nat -> length bounds = S (length x) ->
  incr bounds -> nonneg x -> 0 < dt ->
  sumR (eulerUpdate Rops dt x (ggCorrected Rops dt c cz bounds size x)) <= sumR x.
Proof.
  intros H1 H2 Hi Hp Hdt. pose proof (ggGrowth_wf c cz bounds size x H1 H2) as Hwf.
  unfold ggCorrected. Rnorm. rewrite sum_eulerUpdate by (rewrite correctdXdt_length by exact Hwf; reflexivity).
  pose proof (grain_number_rate_corrected dt bounds x _ Hwf Hi Hp Hdt). nra.
Qed.

(* ---- Normalize and the mean size ------------------------------------------------------------------ *)
Lemma momentFromN_scale size psd f k :
  momentFromN Rops size (map (fun p => p * f) psd) k = momentFromN Rops size psd k * f.
Proof.
  unfold momentFromN. revert size. induction psd as [|p psd IH]; intros [|r size]; cbn [map zipWith sumT]; Rnorm; try lra.
  rewrite IH. lra.
Qed.
Lemma normalize_third_moment size psd : momentFromN Rops size psd 3 <> 0 ->
  momentFromN Rops size (normalize Rops size psd) 3 = 1.
Proof.
  intros H. unfold normalize. Rnorm. rewrite momentFromN_scale. field. exact H.
Qed.
Lemma normalize_Rm3 size psd : momentFromN Rops size psd 3 <> 0 -> momentFromN Rops size psd 0 <> 0 ->
  Rm3 Rops size (normalize Rops size psd) = Rm3 Rops size psd.
Proof.
  intros H3 H0. unfold Rm3, normalize. Rnorm. rewrite !momentFromN_scale. field. auto.
Qed.
Lemma normalize_nonneg size psd : 0 < momentFromN Rops size psd 3 -> nonneg psd -> nonneg (normalize Rops size psd).
Proof.
  intros H Hp k. unfold normalize. Rnorm. set (f := 1 / _). assert (0 < f) by (unfold f, Rdiv; rewrite Rmult_1_l; apply Rinv_0_lt_compat; exact H).
  destruct (lt_dec k (length psd)) as [Hk|Hk].
  - rewrite (nth_indep _ 0 ((fun p => p * f) 0)) by (rewrite map_length; exact Hk).
    rewrite (map_nth (fun p => p * f)). specialize (Hp k). nra.
  - rewrite nth_overflow by (rewrite map_length; lia). lra.
Qed.
(* mean size cubed = M3 / M0: if the step does not lose volume the mean size does not decrease *)
Lemma mean_size_monotone_partial M0 M3 M0' M3' : 0 < M0' <= M0 -> 0 < M3 <= M3' -> M3 / M0 <= M3' / M0'.
Proof.
  intros (H0 & H1) (H2 & H3). apply Rle_trans with (M3 / M0').
  - unfold Rdiv. apply Rmult_le_compat_l; [lra|]. apply Rinv_le_contravar; lra.
  - unfold Rdiv. apply Rmult_le_compat_r; [left; apply Rinv_0_lt_compat; lra|lra].
Qed.

(* grains above the critical radius grow, smaller ones shrink *)
Lemma growth1_sign c rcr bnd : 0 < c -> 0 < rcr -> 0 < bnd ->
  (rcr < bnd -> 0 < growth1 Rops c rcr bnd) /\ (bnd < rcr -> growth1 Rops c rcr bnd < 0) /\
  (bnd = rcr -> growth1 Rops c rcr bnd = 0).
Proof.
  intros Hc Hr Hb. unfold growth1. Rnorm. repeat split; intros H.
  - apply Rmult_lt_0_compat; [exact Hc|]. unfold Rdiv. rewrite !Rmult_1_l.
    pose proof (Rinv_lt_contravar rcr bnd ltac:(nra) H). lra.
  - assert (1 / rcr - 1 / bnd < 0); [|nra]. unfold Rdiv. rewrite !Rmult_1_l.
    pose proof (Rinv_lt_contravar bnd rcr ltac:(nra) H). lra.
  - subst. replace (1 / rcr - 1 / rcr) with 0 by lra. lra.
Qed.

(* ================================================================================================ *)
(* the grain-growth clock                                                                            *)
Lemma first_true_from_false k n : first_true_from (fun _ => false) k n = None.
Proof. revert k. induction n; intros k; cbn; auto. Qed.

Definition gfuel (fmin : R) : nat := (2 + Z.to_nat (up (/ fmin)))%nat.

Lemma gclock_step propose fmin fmax clock tn tprev : tprev < tn -> 0 < fmin <= fmax ->
  gclock Rops propose (gfuel fmin) fmin fmax clock tn tprev = clock + (tn - tprev).
Proof.
  intros Ht Hf. unfold gclock, span. Rnorm.
  destruct (solve_contract_R true propose (fun _ => false) clock (tn - tprev) fmin fmax ltac:(lra) Hf)
    as (l & El & _ & _ & _ & Hend).
  unfold gfuel. rewrite El. unfold times, pairs. cbv zeta in Hend.
  unfold first_true in Hend. rewrite first_true_from_false in Hend. exact Hend.
Qed.

Lemma gclocks_spec propose fmin fmax k clock tprev ts : 0 < fmin <= fmax ->
  StronglySorted Rlt (tprev :: ts) ->
  gclocks Rops propose (gfuel fmin) fmin fmax k clock tprev ts = map (fun t => clock + (t - tprev)) ts.
Proof.
  intros Hf. revert k clock tprev. induction ts as [|tn ts IH]; intros k clock tprev Hs; [reflexivity|].
  cbn [gclocks map]. inversion Hs as [|? ? Hs' Hall]; subst. inversion Hall as [|? ? Hlt Hall']; subst.
  rewrite gclock_step by assumption. f_equal. rewrite IH by exact Hs'.
  apply map_ext_in. intros t _. lra.
Qed.
Lemma grain_clock_equals_host propose fmin fmax t0 ts : 0 < fmin <= fmax ->
  StronglySorted Rlt (t0 :: ts) ->
  gclocks Rops propose (gfuel fmin) fmin fmax 0 t0 t0 ts = ts.
Proof.
  intros Hf Hs. rewrite gclocks_spec by assumption. rewrite <- (map_id ts) at 2. apply map_ext. intros t. lra.
Qed.

(* ================================================================================================ *)
(* formulas                                                                                          *)
Lemma sin_PI2' : sin (PI / 2) = 1. Proof. exact sin_PI2. Qed.
Lemma approx_scale k1 k2 e A : Rabs (k1 - k2) <= e * Rabs k2 -> Rabs (k1 * A - k2 * A) <= e * Rabs (k2 * A).
Proof.
  intros H. replace (k1 * A - k2 * A) with ((k1 - k2) * A) by ring. rewrite !Rabs_mult.
  pose proof (Rabs_pos A). nra.
Qed.

Section Formulas.
Variables G b nu ri psi : R.
Variable Tf : R -> R -> R.
Variables eps Gp w1 w2 yAPB s beta V ySFM ySFP bp gamma : R.
Variables r Ls r0 : R.

(* ---- Orowan: negative exactly below half the core radius ----------------------------------------- *)
Lemma orowan_sign J : 0 < J * G * b -> nu < 1 -> 0 < Ls -> 0 < ri -> 0 < r ->
  (2 * r < ri -> orowan G b nu ri J r Ls < 0) /\ (ri <= 2 * r -> 0 <= orowan G b nu ri J r Ls).
Proof.
  intros HJ Hnu HL Hri Hr. unfold orowan.
  assert (Hs : 0 < sqrt (1 - nu)) by (apply sqrt_lt_R0; lra).
  assert (Hc : 0 < J * G * b / (2 * PI * sqrt (1 - nu) * Ls)).
  { unfold Rdiv. apply Rmult_lt_0_compat; [exact HJ|]. apply Rinv_0_lt_compat. pose proof PI_RGT_0. 
    apply Rmult_lt_0_compat; [|exact HL]. apply Rmult_lt_0_compat; [lra|exact Hs]. }
  assert (Hq : 0 < 2 * r / ri) by (unfold Rdiv; apply Rmult_lt_0_compat; [lra|apply Rinv_0_lt_compat; exact Hri]).
  split; intros H.
  - assert (ln (2 * r / ri) < 0); [|nra]. rewrite <- ln_1. apply ln_increasing; [exact Hq|].
    apply (Rmult_lt_reg_r ri); [exact Hri|]. unfold Rdiv. rewrite Rmult_assoc, Rinv_l by lra. lra.
  - assert (0 <= ln (2 * r / ri)); [|nra]. rewrite <- ln_1. destruct (Req_dec (2 * r / ri) 1) as [E|E]; [rewrite E; lra|].
    left. apply ln_increasing; [lra|].
    assert (1 <= 2 * r / ri); [|lra]. apply (Rmult_le_reg_r ri); [exact Hri|]. unfold Rdiv. rewrite Rmult_assoc, Rinv_l by lra. lra.
Qed.

(* ---- mixed formulas at 90 and 0 degrees ------------------------------------------------------------ *)
Ltac trig := rewrite ?sin_PI2, ?cos_PI2, ?sin_0, ?cos_0.

(* exact reductions (J = 1 where the edge / screw formula carries the J factor) *)
Lemma modulusWeak_edge : modulusWeak G b (PI / 2) Tf Gp w1 w2 r Ls r0 = modulusWeakEdge G b Tf Gp w1 w2 r Ls r0.
Proof. unfold modulusWeak, modulusWeakEdge, Fmod. rewrite (Rabs_minus_sym G Gp). reflexivity. Qed.
Lemma modulusWeak_screw : modulusWeak G b 0 Tf Gp w1 w2 r Ls r0 = modulusWeakScrew G b Tf Gp w1 w2 r Ls r0.
Proof. unfold modulusWeak, modulusWeakScrew, Fmod. rewrite (Rabs_minus_sym G Gp). reflexivity. Qed.

Lemma APBweak_at th : Tf th r0 <> 0 -> b <> 0 -> Ls <> 0 -> s <> 0 ->
  APBweak b th Tf yAPB s beta r Ls r0 =
  2 / s * (2 * Tf th r0 / (b * Ls) * npow (2 * yAPB * r / (2 * Tf th r0)) (3 / 2)
           - beta * (16 * yAPB * r ^ 2 / (3 * PI * b * Ls ^ 2))).
Proof.
  intros HT Hb HL Hs. unfold APBweak.
  replace (2 * yAPB * r / (2 * Tf th r0)) with (r * yAPB / Tf th r0) by (field; exact HT).
  pose proof PI_RGT_0. field. repeat split; lra.
Qed.
Lemma APBweak_edge : Tf (PI / 2) r0 <> 0 -> b <> 0 -> Ls <> 0 -> s <> 0 ->
  APBweak b (PI / 2) Tf yAPB s beta r Ls r0 = APBweakEdge b Tf yAPB s beta r Ls r0.
Proof. intros. rewrite APBweak_at by assumption. reflexivity. Qed.
Lemma APBweak_screw : Tf 0 r0 <> 0 -> b <> 0 -> Ls <> 0 -> s <> 0 ->
  APBweak b 0 Tf yAPB s beta r Ls r0 = APBweakScrew b Tf yAPB s beta r Ls r0.
Proof. intros. rewrite APBweak_at by assumption. reflexivity. Qed.

Lemma SFEweak_at th : Tf th r0 <> 0 ->
  SFEweak G b nu th Tf ySFM ySFP bp r Ls r0 =
  2 * Tf th r0 / (b * Ls) *
    npow ((ySFM - ySFP) * sqrt (SFEWeff G nu ySFM ySFP bp th * r - SFEWeff G nu ySFM ySFP bp th ^ 2 / 4) / Tf th r0) (3 / 2).
Proof.
  intros HT. unfold SFEweak, SFEFterm. f_equal. f_equal. field. exact HT.
Qed.
Lemma SFEweak_edge : Tf (PI / 2) r0 <> 0 ->
  SFEweak G b nu (PI / 2) Tf ySFM ySFP bp r Ls r0 = SFEweakNarrowEdge G b nu Tf ySFM ySFP bp r Ls r0.
Proof. intros. rewrite SFEweak_at by assumption. reflexivity. Qed.
Lemma SFEweak_screw : Tf 0 r0 <> 0 ->
  SFEweak G b nu 0 Tf ySFM ySFP bp r Ls r0 = SFEweakNarrowScrew G b nu Tf ySFM ySFP bp r Ls r0.
Proof. intros. rewrite SFEweak_at by assumption. reflexivity. Qed.
Lemma SFEstrong_edge : SFEstrong G b nu (PI / 2) ySFM ySFP bp r Ls r0 = SFEstrongNarrowEdge G b nu 1 ySFM ySFP bp r Ls r0.
Proof. unfold SFEstrong, SFEstrongNarrowEdge, SFEFterm. f_equal. ring. Qed.
Lemma SFEstrong_screw : SFEstrong G b nu 0 ySFM ySFP bp r Ls r0 = SFEstrongNarrowScrew G b nu 1 ySFM ySFP bp r Ls r0.
Proof. unfold SFEstrong, SFEstrongNarrowScrew, SFEFterm. f_equal. ring. Qed.

Lemma interfacialWeak_at th : Tf th r0 <> 0 ->
  interfacialWeak b th Tf gamma r Ls r0 = 2 * Tf th r0 / (b * Ls) * npow (gamma * b / Tf th r0) (3 / 2).
Proof. intros HT. unfold interfacialWeak. f_equal. f_equal. field. exact HT. Qed.
Lemma interfacialWeak_edge : Tf (PI / 2) r0 <> 0 ->
  interfacialWeak b (PI / 2) Tf gamma r Ls r0 = interfacialWeakEdge b Tf gamma r Ls r0.
Proof. intros. rewrite interfacialWeak_at by assumption. reflexivity. Qed.
Lemma interfacialWeak_screw : Tf 0 r0 <> 0 ->
  interfacialWeak b 0 Tf gamma r Ls r0 = interfacialWeakScrew b Tf gamma r Ls r0.
Proof. intros. rewrite interfacialWeak_at by assumption. reflexivity. Qed.
Lemma interfacialStrong_any : interfacialStrong gamma r Ls r0 = interfacialStrongOld 1 gamma r Ls r0.
Proof. unfold interfacialStrong, interfacialStrongOld. f_equal. ring. Qed.

(* reductions up to the printed constants *)
Lemma coherencyStrong_edge :
  Rabs (coherencyStrong G b (PI / 2) Tf eps r Ls r0 - coherencyStrongEdge G b Tf 1 eps r Ls r0)
    <= 1 / 100000 * Rabs (coherencyStrongEdge G b Tf 1 eps r Ls r0).
Proof.
  unfold coherencyStrong, coherencyStrongEdge. trig.
  set (X := npow (Tf (PI / 2) r0 ^ 3 * G * eps * r / b ^ 3) (1 / 4)).
  replace ((2 * 0 ^ 2 + 2669 / 1250 * 1 ^ 2) / Ls * X) with (2669 / 1250 * (X / Ls)) by (unfold Rdiv; ring).
  replace (sqrt 2 * npow 3 (3 / 8) * 1 / Ls * X) with (sqrt 2 * npow 3 (3 / 8) * (X / Ls)) by (unfold Rdiv; ring).
  apply approx_scale. rewrite npow_pos by lra. interval with (i_prec 60).
Qed.
Lemma coherencyStrong_screw :
  coherencyStrong G b 0 Tf eps r Ls r0 = coherencyStrongScrew G b Tf 1 eps r Ls r0.
Proof. unfold coherencyStrong, coherencyStrongScrew. trig. f_equal. unfold Rdiv. ring. Qed.

(* sqrt(k * X / (Ls^2 * T)) = sqrt k / Ls * sqrt(X / T) *)
Lemma sqrt_split k X T0 : 0 <= k -> 0 < Ls -> 0 <= X / T0 ->
  sqrt (k * X / (Ls ^ 2 * T0)) = sqrt k * (sqrt (X / T0) / Ls).
Proof.
  intros Hk HL HX. destruct (Req_dec T0 0) as [->|HT].
  - unfold Rdiv. rewrite Rmult_0_r, Rinv_0, !Rmult_0_r, sqrt_0. ring.
  - replace (k * X / (Ls ^ 2 * T0)) with (k * (X / T0) / (Ls ^ 2)) by (field; lra).
    rewrite sqrt_div_alt by nra. rewrite sqrt_mult by assumption. rewrite sqrt_pow2 by lra. unfold Rdiv. ring.
Qed.
Lemma coherencyWeak_edge : Tf (PI / 2) r0 <> 0 -> 0 < Ls -> 0 <= G ^ 3 * eps ^ 3 * r ^ 3 * b / Tf (PI / 2) r0 ->
  Rabs (coherencyWeak G b (PI / 2) Tf eps r Ls r0 - coherencyWeakEdge G b Tf eps r Ls r0)
    <= 1 / 100000 * Rabs (coherencyWeakEdge G b Tf eps r Ls r0).
Proof.
  intros _ HL HX. unfold coherencyWeak, coherencyWeakEdge. trig.
  set (X := G ^ 3 * eps ^ 3 * r ^ 3 * b) in *. set (T0 := Tf (PI / 2) r0) in *.
  replace (592 / 35 * G ^ 3 * b * eps ^ 3 * r ^ 3 / (Ls ^ 2 * T0)) with (592 / 35 * X / (Ls ^ 2 * T0)) by (unfold X; unfold Rdiv; ring).
  rewrite sqrt_split by (try assumption; lra).
  replace ((1677 / 1250 * 0 ^ 2 + 41127 / 10000 * 1 ^ 2) / Ls * sqrt (X / T0)) with (41127 / 10000 * (sqrt (X / T0) / Ls)) by (unfold Rdiv; ring).
  apply approx_scale. interval with (i_prec 60).
Qed.
Lemma coherencyWeak_screw : Tf 0 r0 <> 0 -> 0 < Ls -> 0 <= G ^ 3 * eps ^ 3 * r ^ 3 * b / Tf 0 r0 ->
  Rabs (coherencyWeak G b 0 Tf eps r Ls r0 - coherencyWeakScrew G b Tf eps r Ls r0)
    <= 1 / 10000 * Rabs (coherencyWeakScrew G b Tf eps r Ls r0).
Proof.
  intros _ HL HX. unfold coherencyWeak, coherencyWeakScrew. trig.
  set (X := G ^ 3 * eps ^ 3 * r ^ 3 * b) in *. set (T0 := Tf 0 r0) in *.
  replace (9 / 5 * G ^ 3 * b * eps ^ 3 * r ^ 3 / (Ls ^ 2 * T0)) with (9 / 5 * X / (Ls ^ 2 * T0)) by (unfold X; unfold Rdiv; ring).
  rewrite sqrt_split by (try assumption; lra).
  replace ((1677 / 1250 * 1 ^ 2 + 41127 / 10000 * 0 ^ 2) / Ls * sqrt (X / T0)) with (1677 / 1250 * (sqrt (X / T0) / Ls)) by (unfold Rdiv; ring).
  apply approx_scale. interval with (i_prec 60).
Qed.

(* APB strong: 0.69 stands for 2 / sqrt(pi) / sqrt(8/3) = 0.69099 (two printed digits) *)
Lemma APBstrong_at th : 0 < V * Tf th r0 -> 0 <= r * yAPB -> 0 < b * Ls ->
  let edge := 2 * V * Tf th r0 / (PI * b * Ls) * sqrt (PI * yAPB * r / (V * Tf th r0)) in
  Rabs (APBstrong b th Tf yAPB V r Ls r0 - edge) <= 15 / 10000 * Rabs edge.
Proof.
  intros HVT Hry HbL edge. unfold APBstrong. subst edge. set (T0 := Tf th r0) in *.
  set (Q := sqrt (V * T0 * (r * yAPB))).
  assert (HV : V <> 0) by (intros E; rewrite E in HVT; lra).
  assert (HT0 : T0 <> 0) by (intros E; rewrite E in HVT; lra).
  assert (Hb : b <> 0) by (intros E; rewrite E in HbL; lra).
  assert (HL : Ls <> 0) by (intros E; rewrite E in HbL; lra).
  assert (HQ : sqrt (8 * V * T0 * r * yAPB / 3) = sqrt (8 / 3) * Q).
  { unfold Q. rewrite <- sqrt_mult by nra. f_equal. field. }
  assert (HE : sqrt (PI * yAPB * r / (V * T0)) = sqrt PI * Q / (V * T0)).
  { unfold Q. replace (PI * yAPB * r / (V * T0)) with (PI * (V * T0 * (r * yAPB)) / (V * T0) ^ 2) by (field; auto).
    pose proof PI_RGT_0. rewrite sqrt_div_alt by nra. rewrite sqrt_pow2 by lra. rewrite sqrt_mult by nra. reflexivity. }
  rewrite HQ, HE.
  replace (69 / 100 / (b * Ls) * (sqrt (8 / 3) * Q)) with (69 / 100 * sqrt (8 / 3) * (Q / (b * Ls))) by (field; auto).
  replace (2 * V * T0 / (PI * b * Ls) * (sqrt PI * Q / (V * T0))) with (2 * sqrt PI / PI * (Q / (b * Ls))).
  2:{ pose proof PI_RGT_0. field. repeat split; auto; lra. }
  apply approx_scale. interval with (i_prec 60).
Qed.
Lemma APBstrong_edge : 0 < V * Tf (PI / 2) r0 -> 0 <= r * yAPB -> 0 < b * Ls ->
  Rabs (APBstrong b (PI / 2) Tf yAPB V r Ls r0 - APBstrongEdge b Tf yAPB V r Ls r0)
    <= 15 / 10000 * Rabs (APBstrongEdge b Tf yAPB V r Ls r0).
Proof. intros. apply APBstrong_at; assumption. Qed.
Lemma APBstrong_screw : 0 < V * Tf 0 r0 -> 0 <= r * yAPB -> 0 < b * Ls ->
  Rabs (APBstrong b 0 Tf yAPB V r Ls r0 - APBstrongScrew b Tf yAPB V r Ls r0)
    <= 15 / 10000 * Rabs (APBstrongScrew b Tf yAPB V r Ls r0).
Proof. intros. apply APBstrong_at; assumption. Qed.

(* the J factor at the two pure characters *)
Lemma Jcomplex_edge : nu < 1 -> Jcomplex nu (PI / 2) = sqrt (1 - nu).
Proof.
  intros H. unfold Jcomplex. replace (PI / 2 - PI / 2) with 0 by lra. rewrite cos_0.
  replace (1 - nu * 1 ^ 2) with (1 - nu) by ring. rewrite <- (sqrt_sqrt (1 - nu)) at 1 by lra.
  field. apply Rgt_not_eq, sqrt_lt_R0. lra.
Qed.
Lemma Jcomplex_screw : Jcomplex nu 0 = 1 / sqrt (1 - nu).
Proof. unfold Jcomplex. rewrite Rminus_0_r, cos_PI2. f_equal. ring. Qed.
End Formulas.

(* ---- the reductions collected ---- *)
Lemma mixed_reduces_to_edge G b nu (Tf : R -> R -> R) eps Gp w1 w2 yAPB s beta V ySFM ySFP bp gamma r Ls r0 :
  Tf (PI / 2) r0 <> 0 -> b <> 0 -> 0 < Ls -> s <> 0 ->
  (0 <= G ^ 3 * eps ^ 3 * r ^ 3 * b / Tf (PI / 2) r0 ->
     Rabs (coherencyWeak G b (PI / 2) Tf eps r Ls r0 - coherencyWeakEdge G b Tf eps r Ls r0)
       <= 1 / 100000 * Rabs (coherencyWeakEdge G b Tf eps r Ls r0)) /\
  Rabs (coherencyStrong G b (PI / 2) Tf eps r Ls r0 - coherencyStrongEdge G b Tf 1 eps r Ls r0)
    <= 1 / 100000 * Rabs (coherencyStrongEdge G b Tf 1 eps r Ls r0) /\
  modulusWeak G b (PI / 2) Tf Gp w1 w2 r Ls r0 = modulusWeakEdge G b Tf Gp w1 w2 r Ls r0 /\
  APBweak b (PI / 2) Tf yAPB s beta r Ls r0 = APBweakEdge b Tf yAPB s beta r Ls r0 /\
  (0 < V * Tf (PI / 2) r0 -> 0 <= r * yAPB -> 0 < b * Ls ->
     Rabs (APBstrong b (PI / 2) Tf yAPB V r Ls r0 - APBstrongEdge b Tf yAPB V r Ls r0)
       <= 15 / 10000 * Rabs (APBstrongEdge b Tf yAPB V r Ls r0)) /\
  SFEweak G b nu (PI / 2) Tf ySFM ySFP bp r Ls r0 = SFEweakNarrowEdge G b nu Tf ySFM ySFP bp r Ls r0 /\
  SFEstrong G b nu (PI / 2) ySFM ySFP bp r Ls r0 = SFEstrongNarrowEdge G b nu 1 ySFM ySFP bp r Ls r0 /\
  interfacialWeak b (PI / 2) Tf gamma r Ls r0 = interfacialWeakEdge b Tf gamma r Ls r0 /\
  interfacialStrong gamma r Ls r0 = interfacialStrongOld 1 gamma r Ls r0.
Proof.
  exact (fun HT Hb HL Hs =>
    conj (coherencyWeak_edge G b Tf eps r Ls r0 HT HL)
   (conj (coherencyStrong_edge G b Tf eps r Ls r0)
   (conj (modulusWeak_edge G b Tf Gp w1 w2 r Ls r0)
   (conj (APBweak_edge b Tf yAPB s beta r Ls r0 HT Hb (Rgt_not_eq _ _ HL) Hs)
   (conj (APBstrong_edge b Tf yAPB V r Ls r0)
   (conj (SFEweak_edge G b nu Tf ySFM ySFP bp r Ls r0 HT)
   (conj (SFEstrong_edge G b nu ySFM ySFP bp r Ls r0)
   (conj (interfacialWeak_edge b Tf gamma r Ls r0 HT)
         (interfacialStrong_any gamma r Ls r0))))))))).
Qed.

Lemma mixed_reduces_to_screw G b nu (Tf : R -> R -> R) eps Gp w1 w2 yAPB s beta V ySFM ySFP bp gamma r Ls r0 :
  Tf 0 r0 <> 0 -> b <> 0 -> 0 < Ls -> s <> 0 ->
  (0 <= G ^ 3 * eps ^ 3 * r ^ 3 * b / Tf 0 r0 ->
     Rabs (coherencyWeak G b 0 Tf eps r Ls r0 - coherencyWeakScrew G b Tf eps r Ls r0)
       <= 1 / 10000 * Rabs (coherencyWeakScrew G b Tf eps r Ls r0)) /\
  coherencyStrong G b 0 Tf eps r Ls r0 = coherencyStrongScrew G b Tf 1 eps r Ls r0 /\
  modulusWeak G b 0 Tf Gp w1 w2 r Ls r0 = modulusWeakScrew G b Tf Gp w1 w2 r Ls r0 /\
  APBweak b 0 Tf yAPB s beta r Ls r0 = APBweakScrew b Tf yAPB s beta r Ls r0 /\
  (0 < V * Tf 0 r0 -> 0 <= r * yAPB -> 0 < b * Ls ->
     Rabs (APBstrong b 0 Tf yAPB V r Ls r0 - APBstrongScrew b Tf yAPB V r Ls r0)
       <= 15 / 10000 * Rabs (APBstrongScrew b Tf yAPB V r Ls r0)) /\
  SFEweak G b nu 0 Tf ySFM ySFP bp r Ls r0 = SFEweakNarrowScrew G b nu Tf ySFM ySFP bp r Ls r0 /\
  SFEstrong G b nu 0 ySFM ySFP bp r Ls r0 = SFEstrongNarrowScrew G b nu 1 ySFM ySFP bp r Ls r0 /\
  interfacialWeak b 0 Tf gamma r Ls r0 = interfacialWeakScrew b Tf gamma r Ls r0.
Proof.
  exact (fun HT Hb HL Hs =>
    conj (coherencyWeak_screw G b Tf eps r Ls r0 HT HL)
   (conj (coherencyStrong_screw G b Tf eps r Ls r0)
   (conj (modulusWeak_screw G b Tf Gp w1 w2 r Ls r0)
   (conj (APBweak_screw b Tf yAPB s beta r Ls r0 HT Hb (Rgt_not_eq _ _ HL) Hs)
   (conj (APBstrong_screw b Tf yAPB V r Ls r0)
   (conj (SFEweak_screw G b nu Tf ySFM ySFP bp r Ls r0 HT)
   (conj (SFEstrong_screw G b nu ySFM ySFP bp r Ls r0)
         (interfacialWeak_screw b Tf gamma r Ls r0 HT)))))))).
Qed.

(* ---- loading and reset(): every run starts from a distribution of total volume 1 ---------------------- *)
Lemma load_reset_volume size raw psd' : momentFromN Rops size raw 3 <> 0 ->
  momentFromN Rops size (g_psd (gload Rops size raw)) 3 = 1 /\
  momentFromN Rops size (g_psd (greset Rops {| g_psd := psd'; g_backup := g_backup (gload Rops size raw) |})) 3 = 1.
Proof. intros H. cbn. split; apply normalize_third_moment; exact H. Qed.
