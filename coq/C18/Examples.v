(* C18 - non-vacuity: the hypotheses of the theorems of Properties.v are met by concrete, non-trivial
   states, and the model computes what the code computes on small inputs. *)
From Coq Require Import Reals String List Bool Arith ZArith Lra Lia Sorted.
From Interval Require Import Tactic.
Require Import Kawin.Common.Ops Kawin.Common.Vec Kawin.Common.VecLemmas.
Require Import Kawin.C07.Model Kawin.C07.Proofs Kawin.C05.Model Kawin.C18.Model Kawin.C18.Proofs.
Import ListNotations.
Open Scope R_scope.

(* one phase, exponent 1: weak 4 (after clipping a nan and a negative value), strong 9, Orowan 2, M = 2 *)
Example ex_phase_strength :
  fst (phaseStrength ClipNegNonfinite ClipNegNonfinite ClipNegNonfinite 2 1 [Some 4; None; Some (-3)] [Some 9] (Some 2)) = 4.
Proof.
  cbn. destruct (Rlt_dec 4 0); [lra|]. destruct (Rlt_dec (-3) 0); [|lra]. destruct (Rlt_dec 9 0); [lra|]. destruct (Rlt_dec 2 0); [lra|].
  unfold combine, taumin.
  assert (Hw : tausum 1 [4; 0; 0] = 4).
  { unfold tausum. cbn [map sumT]. Rnorm. rewrite (npow_nonpos 0 1) by lra.
    replace (npow 4 1 + (0 + (0 + 0))) with (npow 4 1) by lra. apply npow_inv; lra. }
  assert (Hs : tausum 1 [9] = 9) by (rewrite tausum_superpose by discriminate; apply superpose_single; lra).
  rewrite Hw, Hs. rewrite (Rmin_left 4 9) by lra. rewrite Rmin_right by lra. lra.
Qed.
(* sub-core particle: the raw Orowan value is negative; repaired clipping gives 0, the old one a negative strength *)
Example ex_subcore_repaired : fst (phaseStrength ClipNegNonfinite ClipNegNonfinite ClipNegNonfinite 2 1 [Some 4] [Some 9] (Some (-1))) = 0.
Proof. apply phase_strength_zero. right. exists (-1). split; [reflexivity|lra]. Qed.
Example ex_no_particles : fst (phaseStrength ClipNegNonfinite ClipNegNonfinite ClipNegNonfinite 2 (18 / 10) [None] [None] None) = 0.
Proof. apply phase_strength_zero. left; reflexivity. Qed.

(* the Orowan sign theorem is not vacuous: aluminium-like numbers, r = 0.1 nm < ri/2 = 0.143 nm *)
Example ex_orowan_hyp : let G := 25400000000 in let b := 286 / 1000000000000 in
  0 < 1 * G * b /\ 34 / 100 < 1 /\ 0 < 1 / 100000000 /\ 0 < b /\ 0 < 1 / 10000000000 /\ 2 * (1 / 10000000000) < b.
Proof. cbv zeta. repeat split; lra. Qed.

(* hypotheses of the edge / screw reductions: simple line tension with G = b = 1 gives T = 1/2 *)
Example ex_mixed_hyp : Tsimple 1 1 (PI / 2) 1 <> 0 /\ (1:R) <> 0 /\ 0 < 1 /\ (2:R) <> 0 /\
  0 <= 1 ^ 3 * 1 ^ 3 * 1 ^ 3 * 1 / Tsimple 1 1 (PI / 2) 1 /\ 0 < 1 * Tsimple 1 1 (PI / 2) 1.
Proof. unfold Tsimple. repeat split; try apply Rgt_not_eq; interval. Qed.

(* total strength with exponent 1 is the plain sum *)
Example ex_total : totalStrength 1 1 2 3 = 6.
Proof.
  unfold totalStrength. cbn [map sumT]. Rnorm. rewrite (npow_pos 1 1), (npow_pos 2 1), (npow_pos 3 1) by lra. rewrite !Rpower_1 by lra.
  replace (1 + (2 + (3 + 0))) with 6 by lra. rewrite npow_pos by lra. replace (1 / 1) with 1 by lra. apply Rpower_1; lra.
Qed.

(* Zener drag 2 on the rates 3, -3, 1, -1, 0 *)
Example ex_zener : constrainedGrowth Rops 2 [3; -3; 1; -1; 0] = [1; -1; 0; 0; 0].
Proof.
  unfold constrainedGrowth. cbn [map]. rewrite !constrained1_value by lra.
  repeat match goal with |- context [Rlt_dec ?a ?b] => destruct (Rlt_dec a b); try lra end.
  repeat f_equal; lra.
Qed.

(* hypotheses of the grain theorems: two classes on the grid 1, 2, 3 *)
Example ex_grain_hyp : (1 <= length [1; 1])%nat /\ length [1; 2; 3] = S (length [1; 1]) /\ incr [1; 2; 3] /\ nonneg [1; 1] /\
  momentFromN Rops [3 / 2; 5 / 2] [1; 1] 3 <> 0.
Proof.
  repeat split; try reflexivity; try (cbn; lia).
  - intros i j (Hij & Hj). cbn in Hj.
    destruct i as [|[|[|i]]]; destruct j as [|[|[|j]]]; cbn; try lia; lra.
  - intros [|[|k]]; cbn; try lra. destruct k; lra.
  - unfold momentFromN. cbn. lra.
Qed.

(* histories: two solve calls with one and two steps *)
Example ex_history :
  let st := ([1], [2], 3) : hstep in
  hlen_rss (srun 1 0 [[st]; [st; st]] None) = 4%nat /\ hlen_ss (srun 1 0 [[st]; [st; st]] None) = 4%nat.
Proof. split; reflexivity. Qed.

(* clock: host times 0 < 1 < 3 in two solve calls *)
Example ex_clock_hyp : StronglySorted Rlt (0 :: concat [[1]; [3]]) /\ 0 < 1 / 100000000 <= 1.
Proof.
  split; [|lra]. cbn. repeat constructor; lra.
Qed.
Example ex_clock propose : gclocks Rops propose (gfuel (1 / 100000000)) (1 / 100000000) 1 0 0 0 [1; 3] = [1; 3].
Proof. apply (grain_clock_equals_host propose (1 / 100000000) 1 0 [1; 3]); [lra|]. repeat constructor; lra. Qed.
