(* C16 - generated moduliToC: the 15 round trips and the compliance / stiffness inverse pair (compiled by the check only) *)
From Coq Require Import Reals List Bool ZArith Arith Lia Lra.
Require Import Kawin.Common.Ops Kawin.Common.Vec Kawin.C16.Model Kawin.C16.Proofs.
Require Import KawinRun.Elastic_gen.
Import ListNotations.
Open Scope R_scope.

(* ---- moduliToC ------------------------------------------------------------------------------------------------------- *)
Lemma truthy_some v : v <> 0 -> truthy (Some v) = true.
Proof. intros H. unfold truthy. destruct (Req_EM_T v 0); [contradiction|reflexivity]. Qed.
Lemma truthy_zero : truthy (Some 0) = false.
Proof. unfold truthy. destruct (Req_EM_T 0 0); [reflexivity|contradiction]. Qed.

(* the other four moduli of an isotropic solid with Young's modulus E and Poisson's ratio nu *)
Definition G_of (E nu : R) := E / (2 * (1 + nu)).
Definition lam_of (E nu : R) := E * nu / ((1 + nu) * (1 - 2 * nu)).
Definition K_of (E nu : R) := E / (3 * (1 - 2 * nu)).
Definition M_of (E nu : R) := E * (1 - nu) / ((1 + nu) * (1 - 2 * nu)).
Definition stable (E nu : R) := 0 < E /\ -1 < nu < 1 / 2.

Ltac nz := match goal with |- _ <> _ => unfold G_of, lam_of, K_of, M_of in *; try lra end.
Lemma pos_ne a : 0 < a -> a <> 0. Proof. lra. Qed.
Ltac nzp := first [lra | apply Rgt_not_eq; nra | apply Rlt_not_eq; nra | nra].

Section Moduli.
Variables E nu : R.
Hypothesis St : stable E nu.
Let G := G_of E nu.
Let lam := lam_of E nu.
Let K := K_of E nu.
Let M := M_of E nu.

Lemma den_pos : 0 < 1 + nu /\ 0 < 1 - 2 * nu /\ 0 < 1 - nu /\ 0 < E.
Proof. destruct St as [? [? ?]]. repeat split; lra. Qed.
Lemma G_pos : 0 < G.
Proof. destruct den_pos as (A & B & C & D). unfold G, G_of. apply Rdiv_lt_0_compat; lra. Qed.
Lemma K_pos : 0 < K.
Proof. destruct den_pos as (A & B & C & D). unfold K, K_of. apply Rdiv_lt_0_compat; lra. Qed.
Lemma M_pos : 0 < M.
Proof.
  destruct den_pos as (A & B & C & D). unfold M, M_of. apply Rdiv_lt_0_compat; [|apply Rmult_lt_0_compat; lra].
  apply Rmult_lt_0_compat; lra.
Qed.
Lemma lam_ne : nu <> 0 -> lam <> 0.
Proof.
  destruct den_pos as (A & B & C & D). intros Hn. unfold lam, lam_of.
  assert (P : 0 < (1 + nu) * (1 - 2 * nu)) by (apply Rmult_lt_0_compat; lra).
  intros Z. apply (Rmult_eq_compat_r ((1 + nu) * (1 - 2 * nu))) in Z. unfold Rdiv in Z.
  rewrite Rmult_assoc, Rinv_l, Rmult_0_l, Rmult_1_r in Z by lra.
  destruct (Rmult_integral _ _ Z); lra.
Qed.

Lemma prods : 0 < E * (1 + nu) /\ 0 < E * (1 - 2 * nu) /\ 0 < (1 + nu) * (1 - 2 * nu) /\ 0 < E * (1 - nu) /\ 0 < E * E.
Proof. destruct den_pos as (A & B & C & D). repeat split; apply Rmult_lt_0_compat; lra. Qed.

(* a branch result equals the canonical triple *)
Ltac triple := cbv [fin val]; apply f_equal; rewrite !pair_equal_spec; repeat split; try reflexivity.
Ltac fld := destruct den_pos as (A & B & C & D); destruct prods as (P1 & P2 & P3 & P4 & P5); unfold G, lam, K, M, G_of, lam_of, K_of, M_of; field; repeat split; lra.

Definition canon := Some (E, nu, G).

Lemma rt_E_nu : nu <> 0 -> moduliToC_gen (Some E) (Some nu) None None None None = canon.
Proof. intros Hn. unfold moduliToC_gen. rewrite !truthy_some by (destruct den_pos as (A&B&C&D); lra). reflexivity. Qed.

Lemma rt_E_G : moduliToC_gen (Some E) None (Some G) None None None = canon.
Proof.
  unfold moduliToC_gen. pose proof G_pos. rewrite !truthy_some by (destruct den_pos as (A&B&C&D); lra). cbn [truthy].
  unfold canon. triple; fld.
Qed.

Lemma sqrt_is x y : 0 <= y -> y * y = x -> sqrt x = y.
Proof. intros Hy H. apply sqrt_lem_1; [rewrite <- H; nra|assumption|assumption]. Qed.

Lemma R_E_lam : sqrt (E ^ 2 + 9 * lam ^ 2 + 2 * E * lam) = E * (1 + 2 * nu ^ 2) / ((1 + nu) * (1 - 2 * nu)).
Proof.
  destruct den_pos as (A & B & C & D). destruct prods as (P1 & P2 & P3 & P4 & P5). apply sqrt_is.
  - apply Rmult_le_pos; [|apply Rlt_le, Rinv_0_lt_compat; lra].
    apply Rmult_le_pos; [lra|]. pose proof (pow2_ge_0 nu). lra.
  - unfold lam, lam_of. field. split; lra.
Qed.
Lemma rt_E_lam : nu <> 0 -> moduliToC_gen (Some E) None None (Some lam) None None = canon.
Proof.
  intros Hn. unfold moduliToC_gen. pose proof (lam_ne Hn). rewrite !truthy_some by (destruct den_pos as (A&B&C&D); lra). cbn [truthy].
  cbv [val]. rewrite R_E_lam. unfold canon. destruct den_pos as (A & B & C & D). destruct prods as (P1 & P2 & P3 & P4 & P5).
  triple; unfold G, lam, G_of, lam_of; field; repeat split; nzp.
Qed.

Lemma rt_E_K : moduliToC_gen (Some E) None None None (Some K) None = canon.
Proof.
  unfold moduliToC_gen. pose proof K_pos. rewrite !truthy_some by (destruct den_pos as (A&B&C&D); lra). cbn [truthy].
  unfold canon. triple; destruct den_pos as (A & B & C & D); destruct prods as (P1 & P2 & P3 & P4 & P5); unfold G, K, G_of, K_of; field; repeat split; nzp.
Qed.

(* E and M determine nu only up to a sign choice; the code takes the branch with nu >= 0 *)
Lemma S_E_M : 0 <= nu -> sqrt (E ^ 2 + 9 * M ^ 2 - 10 * E * M) = 2 * E * nu * (2 - nu) / ((1 + nu) * (1 - 2 * nu)).
Proof.
  intros Hn. destruct den_pos as (A & B & C & D). destruct prods as (P1 & P2 & P3 & P4 & P5). apply sqrt_is.
  - apply Rmult_le_pos; [|apply Rlt_le, Rinv_0_lt_compat; lra].
    apply Rmult_le_pos; [apply Rmult_le_pos; lra|lra].
  - unfold M, M_of. field. split; lra.
Qed.
Lemma rt_E_M : 0 <= nu -> moduliToC_gen (Some E) None None None None (Some M) = canon.
Proof.
  intros Hn. unfold moduliToC_gen. pose proof M_pos. rewrite !truthy_some by (destruct den_pos as (A&B&C&D); lra). cbn [truthy].
  cbv [val]. rewrite (S_E_M Hn). unfold canon. destruct den_pos as (A & B & C & D). destruct prods as (P1 & P2 & P3 & P4 & P5).
  triple; unfold G, M, G_of, M_of; field; repeat split; nzp.
Qed.

Lemma rt_nu_G : nu <> 0 -> moduliToC_gen None (Some nu) (Some G) None None None = canon.
Proof.
  intros Hn. unfold moduliToC_gen. pose proof G_pos. rewrite ?truthy_some by lra. cbn [truthy].
  unfold canon. triple; fld.
Qed.
Lemma rt_nu_lam : nu <> 0 -> moduliToC_gen None (Some nu) None (Some lam) None None = canon.
Proof.
  intros Hn. unfold moduliToC_gen. pose proof (lam_ne Hn). rewrite ?truthy_some by lra. cbn [truthy].
  unfold canon. triple; fld.
Qed.
Lemma rt_nu_K : nu <> 0 -> moduliToC_gen None (Some nu) None None (Some K) None = canon.
Proof.
  intros Hn. unfold moduliToC_gen. pose proof K_pos. rewrite ?truthy_some by lra. cbn [truthy].
  unfold canon. triple; fld.
Qed.
Lemma rt_nu_M : nu <> 0 -> moduliToC_gen None (Some nu) None None None (Some M) = canon.
Proof.
  intros Hn. unfold moduliToC_gen. pose proof M_pos. rewrite ?truthy_some by lra. cbn [truthy].
  unfold canon. triple; fld.
Qed.
Lemma rt_G_lam : nu <> 0 -> moduliToC_gen None None (Some G) (Some lam) None None = canon.
Proof.
  intros Hn. unfold moduliToC_gen. pose proof G_pos. pose proof (lam_ne Hn). rewrite ?truthy_some by lra. cbn [truthy].
  unfold canon. triple; destruct den_pos as (A & B & C & D); destruct prods as (P1 & P2 & P3 & P4 & P5); unfold G, lam, G_of, lam_of; field; repeat split; nzp.
Qed.
Lemma rt_G_K : moduliToC_gen None None (Some G) None (Some K) None = canon.
Proof.
  unfold moduliToC_gen. pose proof G_pos. pose proof K_pos. rewrite ?truthy_some by lra. cbn [truthy].
  unfold canon. triple; destruct den_pos as (A & B & C & D); destruct prods as (P1 & P2 & P3 & P4 & P5); unfold G, K, G_of, K_of; field; repeat split; nzp.
Qed.
Lemma rt_G_M : moduliToC_gen None None (Some G) None None (Some M) = canon.
Proof.
  unfold moduliToC_gen. pose proof G_pos. pose proof M_pos. rewrite ?truthy_some by lra. cbn [truthy].
  unfold canon. triple; destruct den_pos as (A & B & C & D); destruct prods as (P1 & P2 & P3 & P4 & P5); unfold G, M, G_of, M_of; field; repeat split; nzp.
Qed.
Lemma rt_lam_K : nu <> 0 -> moduliToC_gen None None None (Some lam) (Some K) None = canon.
Proof.
  intros Hn. unfold moduliToC_gen. pose proof K_pos. pose proof (lam_ne Hn). rewrite ?truthy_some by lra. cbn [truthy].
  unfold canon. triple; destruct den_pos as (A & B & C & D); destruct prods as (P1 & P2 & P3 & P4 & P5); unfold G, lam, K, G_of, lam_of, K_of; field; repeat split; nzp.
Qed.
Lemma rt_lam_M : nu <> 0 -> moduliToC_gen None None None (Some lam) None (Some M) = canon.
Proof.
  intros Hn. unfold moduliToC_gen. pose proof M_pos. pose proof (lam_ne Hn). rewrite ?truthy_some by lra. cbn [truthy].
  unfold canon. triple; destruct den_pos as (A & B & C & D); destruct prods as (P1 & P2 & P3 & P4 & P5); unfold G, lam, M, G_of, lam_of, M_of; field; repeat split; nzp.
Qed.
Lemma rt_K_M : moduliToC_gen None None None None (Some K) (Some M) = canon.
Proof.
  unfold moduliToC_gen. pose proof K_pos. pose proof M_pos. rewrite ?truthy_some by lra. cbn [truthy].
  unfold canon. triple; destruct den_pos as (A & B & C & D); destruct prods as (P1 & P2 & P3 & P4 & P5); unfold G, K, M, G_of, K_of, M_of; field; repeat split; nzp.
Qed.
End Moduli.

Lemma moduli_roundtrip_all E nu : stable E nu -> nu <> 0 ->
  let G := G_of E nu in let lam := lam_of E nu in let K := K_of E nu in let M := M_of E nu in
  let r := Some (E, nu, G) in
  moduliToC_gen (Some E) (Some nu) None None None None = r /\
  moduliToC_gen (Some E) None (Some G) None None None = r /\
  moduliToC_gen (Some E) None None (Some lam) None None = r /\
  moduliToC_gen (Some E) None None None (Some K) None = r /\
  moduliToC_gen None (Some nu) (Some G) None None None = r /\
  moduliToC_gen None (Some nu) None (Some lam) None None = r /\
  moduliToC_gen None (Some nu) None None (Some K) None = r /\
  moduliToC_gen None (Some nu) None None None (Some M) = r /\
  moduliToC_gen None None (Some G) (Some lam) None None = r /\
  moduliToC_gen None None (Some G) None (Some K) None = r /\
  moduliToC_gen None None (Some G) None None (Some M) = r /\
  moduliToC_gen None None None (Some lam) (Some K) None = r /\
  moduliToC_gen None None None (Some lam) None (Some M) = r /\
  moduliToC_gen None None None None (Some K) (Some M) = r.
Proof.
  intros St Hn. cbv zeta.
  repeat split; first [apply rt_E_nu | apply rt_E_G | apply rt_E_lam | apply rt_E_K | apply rt_nu_G | apply rt_nu_lam | apply rt_nu_K
                      | apply rt_nu_M | apply rt_G_lam | apply rt_G_K | apply rt_G_M | apply rt_lam_K | apply rt_lam_M | apply rt_K_M];
    assumption.
Qed.

(* for an auxetic solid (nu < 0) the (E, M) branch returns the mirror solution: nu' > 0 *)
Lemma rt_E_M_negative_nu_refuted :
  exists E nu, stable E nu /\ nu < 0 /\
    moduliToC_gen (Some E) None None None None (Some (M_of E nu)) = Some (E, 1 / 3, 3 / 8).
Proof.
  exists 1, (-1 / 2). split; [unfold stable; lra|]. split; [lra|].
  assert (HM : M_of 1 (-1 / 2) = 3 / 2) by (unfold M_of; field).
  rewrite HM. unfold moduliToC_gen. rewrite !truthy_some by lra. cbn [truthy]. cbv [val fin].
  assert (S : sqrt (1 ^ 2 + 9 * (3 / 2) ^ 2 - 10 * 1 * (3 / 2)) = 5 / 2) by (apply sqrt_is; lra).
  rewrite S. apply f_equal; rewrite !pair_equal_spec; repeat split; lra.
Qed.

(* the compliance matrix times the stiffness matrix of the same solid is the identity: whatever
   np.linalg.inv returns as the inverse of the compliance matrix is this stiffness matrix *)
Definition c11_of (E nu : R) := E * (1 - nu) / ((1 + nu) * (1 - 2 * nu)).
Definition c12_of (E nu : R) := E * nu / ((1 + nu) * (1 - 2 * nu)).
Lemma iso_inverse E nu : stable E nu ->
  eq2 6 (mm6 Rops (moduli_s_gen E nu (G_of E nu)) (elasticConstantToC_gen (c11_of E nu) (c12_of E nu) (G_of E nu))) (eye Rops) /\
  eq2 6 (mm6 Rops (elasticConstantToC_gen (c11_of E nu) (c12_of E nu) (G_of E nu)) (moduli_s_gen E nu (G_of E nu))) (eye Rops).
Proof.
  intros St. destruct (den_pos E nu St) as (A & B & C & D).
  split; intros i j Hi Hj; idx6 i; idx6 j;
    cbv [mm6 sum6 moduli_s_gen elasticConstantToC_gen eye Nat.eqb c0 c1 T zero one add mul Rops c11_of c12_of G_of];
    field; repeat split; lra.
Qed.

