(* C16 - property theorems about the definitions GENERATED from the current source (KawinRun.Elastic_gen); compiled by the check only.
   Only  Theorem ... Proof. exact lemma. Qed.  followed by Print Assumptions. *)
From Coq Require Import Reals List Arith.
Require Import Kawin.Common.Ops Kawin.Common.Vec Kawin.C16.Model Kawin.C16.Proofs.
Require Import KawinRun.Elastic_gen KawinRun.BridgeFormulas.
Import ListNotations.
Open Scope R_scope.

(* unit normal, distance to the surface, scalar prefactors and the volume of the tensor code *)
Theorem C16_gen_normal_and_beta :
  (forall phi theta, n_gen phi theta = n_spec phi theta) /\
  (forall a b c phi theta, beta_gen a b c phi theta = beta_spec a b c phi theta).
Proof. exact (conj n_gen_spec beta_gen_spec). Qed.
Print Assumptions C16_gen_normal_and_beta.

Theorem C16_gen_unit_normal phi theta : let '(x, y, z) := n_gen phi theta in x * x + y * y + z * z = 1.
Proof. exact (n_gen_unit phi theta). Qed.
Print Assumptions C16_gen_unit_normal.

Theorem C16_gen_prefactors :
  endTerm_power_gen = 3%nat /\ sphInt_factor_gen = c8_ Rops /\
  (forall a b c, Dijkl_prefactor_gen a b c = dvd Rops (neg Rops (prod3 Rops (a, b, c))) (mul Rops (c4_ Rops) PI)) /\
  Sijmn_prefactor_gen = neghalf Rops /\
  (forall V, strainEnergy_prefactor_gen V = mul Rops (neghalf Rops) V) /\
  (forall a b c, volume_gen a b c = volume Rops PI (a, b, c)) /\
  lebedev_dA_gen = PI / 2.
Proof. exact prefactors_spec. Qed.
Print Assumptions C16_gen_prefactors.

(* Khachaturyan: generated = model; isotropic closed form 2 G (1+nu)/(1-nu) eps^2 V for any I1, I2
   (sphere and cube descriptions alike) *)
Theorem C16_gen_khachaturyan I1 I2 r0 r1 r2 c11 c12 c44 e00 :
  Khachaturyan_gen I1 I2 r0 r1 r2 c11 c12 c44 e00 = khachaturyan Rops c11 c12 c44 e00 I1 I2 (volume Rops PI (r0, r1, r2)).
Proof. exact (Khachaturyan_gen_spec I1 I2 r0 r1 r2 c11 c12 c44 e00). Qed.
Print Assumptions C16_gen_khachaturyan.

Theorem C16_gen_khachaturyan_isotropic_closed_form Gm nu I1 I2 r0 r1 r2 e : 0 < Gm -> -1 < nu < 1 / 2 ->
  Khachaturyan_gen I1 I2 r0 r1 r2 (2 * Gm * (1 - nu) / (1 - 2 * nu)) (2 * Gm * nu / (1 - 2 * nu)) Gm e
  = 2 * Gm * (1 + nu) / (1 - nu) * e ^ 2 * volume_gen r0 r1 r2.
Proof. exact (khachaturyan_isotropic Gm nu I1 I2 r0 r1 r2 e). Qed.
Print Assumptions C16_gen_khachaturyan_isotropic_closed_form.

Theorem C16_gen_sphere_cube_constants :
  sphere_I1_gen = 1 / 15 /\ sphere_I2_gen = 1 / 105 /\ cube_I1_gen = 6931 / 1000000 /\ cube_I2_gen = 959 / 1000000.
Proof. exact sphere_cube_constants. Qed.
Print Assumptions C16_gen_sphere_cube_constants.

Theorem C16_gen_constant_energy r0 r1 r2 w : constantEnergy_gen r0 r1 r2 w = volume Rops PI (r0, r1, r2) * w.
Proof. exact (constantEnergy_gen_spec r0 r1 r2 w). Qed.
Print Assumptions C16_gen_constant_energy.

