(* C16 - generated index maps, elasticConstantToC and _ohm_quickInverse are the model's (compiled by the check only) *)
From Coq Require Import Reals List Bool ZArith Arith Lia Lra.
Require Import Kawin.Common.Ops Kawin.Common.Vec Kawin.C16.Model Kawin.C16.Proofs.
Require Import KawinRun.Elastic_gen.
Import ListNotations.
Open Scope R_scope.

(* ---- index maps -------------------------------------------------------------------------------------- *)
Lemma vmap24_is_vidx i j : (i < 3)%nat -> (j < 3)%nat -> vmap24_gen i j = vidx i j.
Proof. intros Hi Hj. idx3 i; idx3 j; reflexivity. Qed.
Lemma vmap42_is_v I : (I < 6)%nat -> nth I vmap42_gen (0, 0)%nat = (vfst I, vsnd I).
Proof. intros HI. idx6 I; reflexivity. Qed.

Lemma convert2To4_gen_spec (c2 : nat -> nat -> R) : eq4 (convert2To4_gen c2) (convert2To4 Rops c2).
Proof. intros i j k l Hi Hj Hk Hl. unfold convert2To4_gen, convert2To4. rewrite !vmap24_is_vidx by assumption. reflexivity. Qed.
Lemma convert4To2_gen_spec (c4 : nat -> nat -> nat -> nat -> R) : eq2 6 (convert4To2_gen c4) (convert4To2 Rops c4).
Proof. intros I J HI HJ. unfold convert4To2_gen, convert4To2. rewrite !vmap42_is_v by assumption. reflexivity. Qed.

Lemma vecTo2_idx_spec i j : (i < 3)%nat -> (j < 3)%nat -> nth j (nth i vecTo2_idx_gen []) 0%nat = vidx i j.
Proof. intros Hi Hj. idx3 i; idx3 j; reflexivity. Qed.
Lemma rank2ToVec_idx_spec I : (I < 6)%nat -> nth I rank2ToVec_idx_gen (0, 0)%nat = (vfst I, vsnd I).
Proof. intros HI. idx6 I; reflexivity. Qed.

(* ---- elasticConstantToC ---------------------------------------------------------------------------------- *)
Lemma elasticConstantToC_gen_spec c11 c12 c44 : eq2 6 (elasticConstantToC_gen c11 c12 c44) (elasticConstantToC Rops c11 c12 c44).
Proof. intros i j Hi Hj. idx6 i; idx6 j; reflexivity. Qed.

(* ---- _ohm_quickInverse ------------------------------------------------------------------------------------- *)
Definition quickInverse_of (m : nat -> nat -> R) : nat -> nat -> R :=
  fun i j => nth j (nth i (quickInverse_gen (m 0 0) (m 0 1) (m 0 2) (m 1 0) (m 1 1) (m 1 2) (m 2 0) (m 2 1) (m 2 2))%nat []) 0.
Lemma quickInverse_gen_spec (m : nat -> nat -> R) : eq2 3 (quickInverse_of m) (cramer Rops m).
Proof. intros i j Hi Hj. idx3 i; idx3 j; reflexivity. Qed.

