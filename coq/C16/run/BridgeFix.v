(* C16 - facts about the generated text that hold for the REPAIRED code only (shear weights of
   invert4rankTensor and of the two 6x6 energy methods, rotation setters calling update()).  Kept apart
   from Bridge.v so that a tree without the repairs breaks exactly these.  Compiled by the check only. *)
From Coq Require Import Reals List Bool ZArith Arith Lia Lra.
Require Import Kawin.Common.Ops Kawin.Common.Vec Kawin.C16.Model Kawin.C16.Proofs.
Require Import KawinRun.Elastic_gen.
Import ListNotations.
Open Scope R_scope.

(* ---- invert4rankTensor: the column-weighted form with the weights of the model ------------------------------ *)
Lemma invert4_form_spec : invert4_form_gen = ColumnWeighted /\ forall I, (I < 6)%nat -> nth I invert4_weights_gen 0 = wv Rops I.
Proof. split; [reflexivity|]. intros I HI. idx6 I; cbv [nth invert4_weights_gen wv Nat.ltb Nat.leb c1 c2_ one ofZ Rops]; reflexivity. Qed.
Lemma energy_weights_spec I : (I < 6)%nat ->
  nth I ellipsoid2_weights_gen 0 = wv Rops I /\ nth I bohm2_weights_gen 0 = wv Rops I.
Proof. intros HI. idx6 I; cbv [nth ellipsoid2_weights_gen bohm2_weights_gen wv Nat.ltb Nat.leb c1 c2_ one ofZ Rops]; split; reflexivity. Qed.

(* ---- rotation setters --------------------------------------------------------------------------------------------- *)
Lemma rotation_setters_spec : setRotationMatrix_gen = UpdateIfMatrixSet /\ setRotationPrecipitate_gen = UpdateIfMatrixSet.
Proof. split; reflexivity. Qed.

