(* C16 - property theorems about the generated text that hold for the repaired code only.
   Compiled by the check only.  Only  Theorem ... Proof. exact lemma. Qed.  + Print Assumptions. *)
From Coq Require Import Reals List Arith.
Require Import Kawin.Common.Ops Kawin.Common.Vec Kawin.C16.Model Kawin.C16.Proofs.
Require Import KawinRun.Elastic_gen KawinRun.BridgeFix.
Import ListNotations.
Open Scope R_scope.

(* invert4rankTensor has the column-weighted form, and the 6x6 energy variants carry the same weights *)
Theorem C16_gen_invert4_weighted :
  invert4_form_gen = ColumnWeighted /\ forall I, (I < 6)%nat -> nth I invert4_weights_gen 0 = wv Rops I.
Proof. exact invert4_form_spec. Qed.
Print Assumptions C16_gen_invert4_weighted.

Theorem C16_gen_energy_weights I : (I < 6)%nat ->
  nth I ellipsoid2_weights_gen 0 = wv Rops I /\ nth I bohm2_weights_gen 0 = wv Rops I.
Proof. exact (energy_weights_spec I). Qed.
Print Assumptions C16_gen_energy_weights.

(* rotation setters re-derive the rotated tensors: the state machine of Model.v (setRotM, setRotP) *)
Theorem C16_gen_rotation_setters_update :
  setRotationMatrix_gen = UpdateIfMatrixSet /\ setRotationPrecipitate_gen = UpdateIfMatrixSet.
Proof. exact rotation_setters_spec. Qed.
Print Assumptions C16_gen_rotation_setters_update.

