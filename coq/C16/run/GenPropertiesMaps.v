(* C16 - property theorems about the definitions GENERATED from the current source (KawinRun.Elastic_gen); compiled by the check only.
   Only  Theorem ... Proof. exact lemma. Qed.  followed by Print Assumptions. *)
From Coq Require Import Reals List Arith.
Require Import Kawin.Common.Ops Kawin.Common.Vec Kawin.C16.Model Kawin.C16.Proofs.
Require Import KawinRun.Elastic_gen KawinRun.BridgeMaps.
Import ListNotations.
Open Scope R_scope.

(* the generated Voigt maps are the maps of the model: the round-trip, contraction and energy theorems
   of Properties.v are about the conversions the code performs *)
Theorem C16_gen_convert2To4 (c2 : nat -> nat -> R) : eq4 (convert2To4_gen c2) (convert2To4 Rops c2).
Proof. exact (convert2To4_gen_spec c2). Qed.
Print Assumptions C16_gen_convert2To4.

Theorem C16_gen_convert4To2 (c4 : nat -> nat -> nat -> nat -> R) : eq2 6 (convert4To2_gen c4) (convert4To2 Rops c4).
Proof. exact (convert4To2_gen_spec c4). Qed.
Print Assumptions C16_gen_convert4To2.

Theorem C16_gen_vector_maps :
  (forall i j, (i < 3)%nat -> (j < 3)%nat -> nth j (nth i vecTo2_idx_gen []) 0%nat = vidx i j) /\
  (forall I, (I < 6)%nat -> nth I rank2ToVec_idx_gen (0, 0)%nat = (vfst I, vsnd I)).
Proof. exact (conj vecTo2_idx_spec rank2ToVec_idx_spec). Qed.
Print Assumptions C16_gen_vector_maps.

Theorem C16_gen_elasticConstantToC c11 c12 c44 :
  eq2 6 (elasticConstantToC_gen c11 c12 c44) (elasticConstantToC Rops c11 c12 c44).
Proof. exact (elasticConstantToC_gen_spec c11 c12 c44). Qed.
Print Assumptions C16_gen_elasticConstantToC.

(* the hard-coded inverse: generated text = model, hence an inverse of every symmetric invertible matrix *)
Theorem C16_gen_quickInverse (m : nat -> nat -> R) : eq2 3 (quickInverse_of m) (cramer Rops m).
Proof. exact (quickInverse_gen_spec m). Qed.
Print Assumptions C16_gen_quickInverse.

