(* C16 - generated scalar formulas (_n, _beta, prefactors, Khachaturyan, constant energy) are the model's (compiled by the check only) *)
From Coq Require Import Reals List Bool ZArith Arith Lia Lra.
Require Import Kawin.Common.Ops Kawin.Common.Vec Kawin.C16.Model Kawin.C16.Proofs.
Require Import KawinRun.Elastic_gen.
Import ListNotations.
Open Scope R_scope.

(* ---- unit normal and beta ------------------------------------------------------------------------------------ *)
Lemma n_gen_spec phi theta : n_gen phi theta = n_spec phi theta.
Proof. reflexivity. Qed.
Lemma beta_gen_spec a b c phi theta : beta_gen a b c phi theta = beta_spec a b c phi theta.
Proof. reflexivity. Qed.

(* ---- scalar prefactors of the tensor code ---------------------------------------------------------------------- *)
Lemma prefactors_spec :
  endTerm_power_gen = 3%nat /\ sphInt_factor_gen = c8_ Rops /\
  (forall a b c, Dijkl_prefactor_gen a b c = dvd Rops (neg Rops (prod3 Rops (a, b, c))) (mul Rops (c4_ Rops) PI)) /\
  Sijmn_prefactor_gen = neghalf Rops /\
  (forall V, strainEnergy_prefactor_gen V = mul Rops (neghalf Rops) V) /\
  (forall a b c, volume_gen a b c = volume Rops PI (a, b, c)) /\
  lebedev_dA_gen = PI / 2.
Proof.
  repeat split; intros; cbv [endTerm_power_gen sphInt_factor_gen Dijkl_prefactor_gen Sijmn_prefactor_gen strainEnergy_prefactor_gen
                             volume_gen lebedev_dA_gen c8_ c4_ c3_ c2_ c0 neghalf neg prod3 volume T zero one add sub mul dvd ofZ Rops];
    try reflexivity; try (field; apply Rgt_not_eq, PI_RGT_0).
Qed.

(* ---- Khachaturyan, constant energy ----------------------------------------------------------------------------- *)
Lemma Khachaturyan_gen_spec I1 I2 r0 r1 r2 c11 c12 c44 e00 :
  Khachaturyan_gen I1 I2 r0 r1 r2 c11 c12 c44 e00 = khachaturyan Rops c11 c12 c44 e00 I1 I2 (volume Rops PI (r0, r1, r2)).
Proof.
  cbv [Khachaturyan_gen khachaturyan volume prod3 c4_ c3_ c2_ c1 c0 neg T zero one add sub mul dvd ofZ Rops]. unfold Rdiv. ring.
Qed.
Lemma sphere_cube_constants : sphere_I1_gen = 1 / 15 /\ sphere_I2_gen = 1 / 105 /\ cube_I1_gen = 6931 / 1000000 /\ cube_I2_gen = 959 / 1000000.
Proof. repeat split; reflexivity. Qed.
Lemma constantEnergy_gen_spec r0 r1 r2 w : constantEnergy_gen r0 r1 r2 w = volume Rops PI (r0, r1, r2) * w.
Proof. reflexivity. Qed.

(* Khachaturyan's expression for an isotropic stiffness: 2 G (1 + nu) / (1 - nu) eps^2 V, whatever I1, I2 *)
Lemma khachaturyan_isotropic Gm nu I1 I2 r0 r1 r2 e : 0 < Gm -> -1 < nu < 1 / 2 ->
  Khachaturyan_gen I1 I2 r0 r1 r2 (2 * Gm * (1 - nu) / (1 - 2 * nu)) (2 * Gm * nu / (1 - 2 * nu)) Gm e
  = 2 * Gm * (1 + nu) / (1 - nu) * e ^ 2 * volume_gen r0 r1 r2.
Proof.
  intros HG Hn. assert (P : 0 < Gm * (1 - nu)) by (apply Rmult_lt_0_compat; lra).
  unfold Khachaturyan_gen, volume_gen. field. repeat split; try lra; apply Rgt_not_eq; nra.
Qed.

(* unit normal; beta is homogeneous of degree one *)
Lemma n_gen_unit phi theta : let '(x, y, z) := n_gen phi theta in x * x + y * y + z * z = 1.
Proof.
  cbv [n_gen]. pose proof (sin2_cos2 phi) as P. pose proof (sin2_cos2 theta) as Q. unfold Rsqr in *. nra.
Qed.
