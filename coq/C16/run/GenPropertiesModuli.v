(* C16 - property theorems about the definitions GENERATED from the current source (KawinRun.Elastic_gen); compiled by the check only.
   Only  Theorem ... Proof. exact lemma. Qed.  followed by Print Assumptions. *)
From Coq Require Import Reals List Arith.
Require Import Kawin.Common.Ops Kawin.Common.Vec Kawin.C16.Model Kawin.C16.Proofs.
Require Import KawinRun.Elastic_gen KawinRun.BridgeModuli.
Import ListNotations.
Open Scope R_scope.

(* elastic-modulus conversions round-trip: every pair of moduli of the solid (E, nu) is converted back to
   (E, nu, G = E / (2 (1 + nu))).  Pairs that contain nu or lambda need nu <> 0 (`if nu:` / `if lam:` treat 0
   like a missing value); the pair (E, M) needs nu >= 0 (two solids share E and M; the code picks that one). *)
Theorem C16_gen_moduli_roundtrip E nu : stable E nu -> nu <> 0 ->
  let G := G_of E nu in let lam := lam_of E nu in let K := K_of E nu in let M := M_of E nu in
  let r := Some (E, nu, G) in
  moduliToC_gen (Some E) (Some nu) None None None None = r /\
  moduliToC_gen (Some E) None (Some G) None None None = r /\
  moduliToC_gen (Some E) None None (Some lam) None None = r /\
  moduliToC_gen (Some E) None None None (Some K) None = r /\
  moduliToC_gen None (Some nu) (Some G) None None None = r /\
  moduliToC_gen None (Some nu) None (Some lam) None None = r /\
  moduliToC_gen None (Some nu) None None (Some K) None = r /\
  moduliToC_gen None (Some nu) None None None (Some M) = r /\
  moduliToC_gen None None (Some G) (Some lam) None None = r /\
  moduliToC_gen None None (Some G) None (Some K) None = r /\
  moduliToC_gen None None (Some G) None None (Some M) = r /\
  moduliToC_gen None None None (Some lam) (Some K) None = r /\
  moduliToC_gen None None None (Some lam) None (Some M) = r /\
  moduliToC_gen None None None None (Some K) (Some M) = r.
Proof. exact (moduli_roundtrip_all E nu). Qed.
Print Assumptions C16_gen_moduli_roundtrip.

Theorem C16_gen_moduli_roundtrip_E_M E nu : stable E nu -> 0 <= nu ->
  moduliToC_gen (Some E) None None None None (Some (M_of E nu)) = Some (E, nu, G_of E nu).
Proof. exact (rt_E_M E nu). Qed.
Print Assumptions C16_gen_moduli_roundtrip_E_M.

Theorem C16_gen_moduli_E_M_negative_nu_refuted :
  exists E nu, stable E nu /\ nu < 0 /\
    moduliToC_gen (Some E) None None None None (Some (M_of E nu)) = Some (E, 1 / 3, 3 / 8).
Proof. exact rt_E_M_negative_nu_refuted. Qed.
Print Assumptions C16_gen_moduli_E_M_negative_nu_refuted.

(* the compliance matrix built from (E, nu, G) and the cubic-form stiffness with
   c11 = E (1-nu) / ((1+nu)(1-2nu)), c12 = E nu / ((1+nu)(1-2nu)), c44 = G are inverse to each other *)
Theorem C16_gen_iso_inverse E nu : stable E nu ->
  eq2 6 (mm6 Rops (moduli_s_gen E nu (G_of E nu)) (elasticConstantToC_gen (c11_of E nu) (c12_of E nu) (G_of E nu))) (eye Rops) /\
  eq2 6 (mm6 Rops (elasticConstantToC_gen (c11_of E nu) (c12_of E nu) (G_of E nu)) (moduli_s_gen E nu (G_of E nu))) (eye Rops).
Proof. exact (iso_inverse E nu). Qed.
Print Assumptions C16_gen_iso_inverse.
