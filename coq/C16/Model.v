(* C16 - faithful model of kawin/precipitation/parameters/ElasticFactors.py
   (tree with the repairs fixes/C16-invert4rank-shear-weights.patch, C16-2ndrank-shear-weights.patch,
   C16-rotation-setter-update.patch; the pre-repair variants are kept as [..._old] for the
   refutation examples).

     tensor conversions        convert2To4rankTensor / convert4To2rankTensor / invert4rankTensor /
                               convertVecTo2rankTensor / convert2rankToVec            (lines 40-131)
     rotations                 rotateRank2Tensor / rotateRank4Tensor                  (133-159)
     elasticConstantToC                                                               (161-175)
     Eshelby tensor            _ohm_quickInverse, sphInt, Dijkl, Sijmn, _multiply, _strainEnergy
     energies                  strainEnergyEllipsoid / Ellipsoid2ndRank / Bohm / Bohm2ndRank,
                               Khachaturyan sphere / cube, constant
     StrainEnergy              setters + update()  (state machine)

   Executable definitions only, polymorphic in the scalar record [Ops]: theorems are about [Rops],
   the correspondence executes [Qops] (vm_compute).  Tensors are functions of their indices
   (3x3x3x3, 3x3, 6x6, 6); [memoN] tabulates a stage once so that evaluation under vm_compute is
   linear in the number of stages (no theorem depends on the tabulation: [memo f] agrees with [f] on
   every index in range).  The quadrature is an ARBITRARY list of nodes: unit normal, the factor
   1/beta^3 and the weight of every node are inputs of this layer; the formulas for the normal and
   for beta (sin, cos, sqrt) live in the real-analytic layer at the end of the file.

   numpy primitives that are oracles here: np.linalg.inv on 6x6 arrays ([inv6]) and, for the
   'numpy' method of the Ohm term, on 3x3 arrays ([inv3]). *)
From Coq Require Import List Bool ZArith Arith Reals.
Require Import Kawin.Common.Ops Kawin.Common.Vec.
Import ListNotations.

Declare Scope ops_scope.
Delimit Scope ops_scope with o.

Section C16.
Variable O : Ops.
Notation t := (T O).
Notation "x + y" := (add O x y) : ops_scope.
Notation "x - y" := (sub O x y) : ops_scope.
Notation "x * y" := (mul O x y) : ops_scope.
Notation "x / y" := (dvd O x y) : ops_scope.
Local Open Scope ops_scope.

Definition c0 : t := zero O.
Definition c1 : t := one O.
Definition c2_ : t := ofZ O 2.
Definition c3_ : t := ofZ O 3.
Definition c4_ : t := ofZ O 4.
Definition c8_ : t := ofZ O 8.
Definition neghalf : t := ofZ O (-1) / c2_.          (* the literal -0.5 *)
Definition neg (x : t) : t := c0 - x.

Definition T4 := nat -> nat -> nat -> nat -> t.
Definition T2 := nat -> nat -> t.
Definition V1 := nat -> t.

Definition sum3 (f : nat -> t) : t := f 0%nat + f 1%nat + f 2%nat.
Definition sum6 (f : nat -> t) : t := f 0%nat + f 1%nat + f 2%nat + f 3%nat + f 4%nat + f 5%nat.

(* ---- tabulation ------------------------------------------------------------------------ *)
Definition tab1 (n : nat) (f : nat -> t) : list t := map f (seq 0 n).
Definition get1 (l : list t) (i : nat) : t := nth i l c0.
Definition tab2 (n : nat) (f : T2) : list (list t) := map (fun i => tab1 n (f i)) (seq 0 n).
Definition get2 (l : list (list t)) (i j : nat) : t := nth j (nth i l []) c0.
Definition tab4 (f : T4) : list (list (list (list t))) :=
  map (fun i => map (fun j => tab2 3 (f i j)) (seq 0 3)) (seq 0 3).
Definition get4 (l : list (list (list (list t)))) (i j k m : nat) : t :=
  get2 (nth j (nth i l []) []) k m.
Definition memo1 (n : nat) (f : V1) : V1 := let l := tab1 n f in get1 l.
Definition memo2 (n : nat) (f : T2) : T2 := let l := tab2 n f in get2 l.
Definition memo4 (f : T4) : T4 := let l := tab4 f in get4 l.

(* ---- Voigt index maps (convert2To4rankTensor.vMap, convert4To2rankTensor.vMap) --------- *)
Definition vidx (i j : nat) : nat := if Nat.eqb i j then i else (6 - i - j)%nat.
Definition vfst (I : nat) : nat := match I with 0 => 0 | 1 => 1 | 2 => 2 | 3 => 1 | 4 => 0 | _ => 0 end%nat.
Definition vsnd (I : nat) : nat := match I with 0 => 0 | 1 => 1 | 2 => 2 | 3 => 2 | 4 => 2 | _ => 1 end%nat.

Definition convert2To4 (c2 : T2) : T4 := fun i j k l => c2 (vidx i j) (vidx k l).
Definition convert4To2 (c4 : T4) : T2 := fun I J => c4 (vfst I) (vsnd I) (vfst J) (vsnd J).
Definition vecTo2 (v : V1) : T2 := fun i j => v (vidx i j).
Definition rank2ToVec (c : T2) : V1 := fun I => c (vfst I) (vsnd I).

(* w = np.array([1, 1, 1, 2, 2, 2]) *)
Definition wv (I : nat) : t := if (I <? 3)%nat then c1 else c2_.

(* ---- 6x6 / 3x3 matrix primitives (np.matmul, np.eye, broadcasting with a 6-vector) ------ *)
Definition mm6 (a b : T2) : T2 := fun i j => sum6 (fun k => a i k * b k j).
Definition mv6 (a : T2) (v : V1) : V1 := fun i => sum6 (fun k => a i k * v k).
Definition dot6 (u v : V1) : t := sum6 (fun k => u k * v k).
Definition eye (i j : nat) : t := if Nat.eqb i j then c1 else c0.
Definition madd (a b : T2) : T2 := fun i j => a i j + b i j.
Definition msub (a b : T2) : T2 := fun i j => a i j - b i j.
Definition colscale (a : T2) (w : V1) : T2 := fun i j => a i j * w j.      (* a * w *)
Definition coldiv (a : T2) (w : V1) : T2 := fun i j => a i j / w j.        (* a / w *)
Definition vscale (v w : V1) : V1 := fun i => v i * w i.                   (* v * w *)
Definition mm3 (a b : T2) : T2 := fun i j => sum3 (fun k => a i k * b k j).

(* ---- 4th rank primitives ---------------------------------------------------------------- *)
(* _multiply: c_ij = a_ijkl b_kl ; c_ijkl = a_ijmn b_mnkl *)
Definition mul42 (a : T4) (b : T2) : T2 := fun i j => sum3 (fun k => sum3 (fun l => a i j k l * b k l)).
Definition mul44 (a b : T4) : T4 := fun i j k l => sum3 (fun m => sum3 (fun n => a i j m n * b m n k l)).
Definition add4 (a b : T4) : T4 := fun i j k l => a i j k l + b i j k l.
Definition sub4 (a b : T4) : T4 := fun i j k l => a i j k l - b i j k l.
Definition sub2 (a b : T2) : T2 := fun i j => a i j - b i j.
Definition scale2 (s : t) (a : T2) : T2 := fun i j => s * a i j.

(* invert4rankTensor (repaired):  convert2To4rankTensor(np.linalg.inv(c2 * w) / w)
   [invert4_arg] is the array handed to np.linalg.inv, [invert4_of] what is done with its result *)
Definition invert4_arg (c4 : T4) : T2 := colscale (convert4To2 c4) wv.
Definition invert4_of (x : T2) : T4 := convert2To4 (memo2 6 (coldiv x wv)).
Definition invert4 (inv6 : T2 -> T2) (c4 : T4) : T4 := invert4_of (inv6 (memo2 6 (invert4_arg c4))).
(* before the repair:  convert2To4rankTensor(np.linalg.inv(c2)) *)
Definition invert4_old (inv6 : T2 -> T2) (c4 : T4) : T4 :=
  convert2To4 (memo2 6 (inv6 (memo2 6 (convert4To2 c4)))).

(* rotateRank2Tensor: T'_ij = r_il r_jk T_lk  (two tensordots over axis 1) *)
Definition rot2 (r tn : T2) : T2 :=
  let a := memo2 3 (fun x b => sum3 (fun k => r x k * tn b k)) in      (* a[x,b] = r[x,k] T[b,k] *)
  fun i x => sum3 (fun b => r i b * a x b).
(* rotateRank4Tensor: four tensordots over axes (1,3) *)
Definition rot4 (r : T2) (tn : T4) : T4 :=
  let x1 := memo4 (fun a m n o => sum3 (fun p => r a p * tn m n o p)) in
  let x2 := memo4 (fun b a m n => sum3 (fun o => r b o * x1 a m n o)) in
  let x3 := memo4 (fun c b a m => sum3 (fun n => r c n * x2 b a m n)) in
  fun d c b a => sum3 (fun m => r d m * x3 c b a m).

(* elasticConstantToC *)
Definition elasticConstantToC (c11 c12 c44 : t) : T2 := fun i j =>
  if (Nat.eqb i j) then (if (i <? 3)%nat then c11 else if (i <? 6)%nat then c44 else c0)
  else if ((i <? 3) && (j <? 3))%bool%nat then c12 else c0.

(* ---- Eshelby tensor ---------------------------------------------------------------------- *)
Record node := mkNode { nvec : t * t * t; eterm : t; wgt : t }.     (* n, 1/beta^3, weight *)
Definition ncomp (n : t * t * t) (k : nat) : t :=
  match n with (a, b, c) => match k with 0%nat => a | 1%nat => b | _ => c end end.

(* invOhm_ij = C_iklj n_k n_l   (np.tensordot(c4, nProd, axes=[[1,2],[0,1]])) *)
Definition invOhm (c4 : T4) (n : t * t * t) : T2 :=
  fun i j => sum3 (fun k => sum3 (fun l => c4 i k l j * (ncomp n k * ncomp n l))).

(* _ohm_quickInverse: the matrix of cofactors divided by the determinant (as written in the code:
   the entry [0,1] is the cofactor of m[0,1]; this is the inverse for symmetric m) *)
Definition cramer (m : T2) : T2 :=
  let a := m 0 0 in let b := m 0 1 in let c := m 0 2 in
  let d := m 1 0 in let e := m 1 1 in let f := m 1 2 in
  let g := m 2 0 in let h := m 2 1 in let i := m 2 2 in
  let A := e * i - f * h in let B := f * g - d * i in let C := d * h - e * g in
  let D := c * h - b * i in let E := a * i - c * g in let F := b * g - a * h in
  let G := b * f - c * e in let H := c * d - a * f in let I := a * e - b * d in
  let det := a * A + b * B + c * C in
  fun r s => (match r, s with
              | 0, 0 => A | 0, 1 => B | 0, _ => C
              | 1, 0 => D | 1, 1 => E | 1, _ => F
              | _, 0 => G | _, 1 => H | _, _ => I end)%nat / det.

(* sphInt: 8 * tensordot(ohm, nProd * (endTerm * weights)) * dA ;  inv = _ohm_inverse.
   [sphSum] is the tensordot over the grid points given the Ohm term of every point (tabulated). *)
Definition sphSum (dA : t) (tabs : list (list (list t))) (nodes : list node) : T4 :=
  fun i j k l =>
    c8_ * sumT O (zipWith (fun tb nd => get2 tb i j * (ncomp (nvec nd) k * ncomp (nvec nd) l * (eterm nd * wgt nd)))
                          tabs nodes) * dA.
Definition ohmTabs (inv : T2 -> T2) (c4 : T4) (nodes : list node) : list (list (list t)) :=
  map (fun nd => tab2 3 (inv (memo2 3 (invOhm c4 (nvec nd))))) nodes.
Definition sphInt (inv : T2 -> T2) (dA : t) (c4 : T4) (nodes : list node) : T4 :=
  sphSum dA (ohmTabs inv c4 nodes) nodes.

Definition prod3 (r : t * t * t) : t := match r with (a, b, c) => a * b * c end.

(* Dijkl = -np.prod(radius)/(4*np.pi) * sphInt *)
Definition Dscale (pi : t) (r : t * t * t) (s : T4) : T4 :=
  fun i j k l => neg (prod3 r) / (c4_ * pi) * s i j k l.
Definition Dijkl (inv : T2 -> T2) (pi dA : t) (r : t * t * t) (c4 : T4) (nodes : list node) : T4 :=
  Dscale pi r (memo4 (sphInt inv dA c4 nodes)).

(* Sijmn = -0.5 * C_lkmn (D_iklj + D_jkli) *)
Definition Sijmn (c4 D : T4) : T4 :=
  fun i j m n => neghalf * sum3 (fun l => sum3 (fun k => c4 l k m n * (D i k l j + D j k l i))).

Definition eshelbyS (inv : T2 -> T2) (pi dA : t) (r : t * t * t) (c4 : T4) (nodes : list node) : T4 :=
  memo4 (Sijmn c4 (memo4 (Dijkl inv pi dA r c4 nodes))).

(* V = 4*np.pi/3 * np.prod(radius) *)
Definition volume (pi : t) (r : t * t * t) : t := c4_ * pi / c3_ * prod3 r.

(* _strainEnergy: -0.5 * V * np.sum(stress * strain) *)
Definition strainEnergy (stress strain : T2) (V : t) : t :=
  neghalf * V * sum3 (fun i => sum3 (fun j => stress i j * strain i j)).

(* ---- the four energies, as functions of the Eshelby tensor S ------------------------------ *)
Definition eEllipsoid (cM4 : T4) (eps : T2) (S : T4) (V : t) : t :=
  let stress := mul42 cM4 (memo2 3 (sub2 (mul42 S eps) eps)) in
  strainEnergy stress eps V.

(* strainEnergyEllipsoid2ndRank (repaired) *)
Definition eEllipsoid2 (cM2 : T2) (eps : T2) (S : T4) (V : t) : t :=
  let S2 := memo2 6 (colscale (convert4To2 S) wv) in
  let eig := rank2ToVec eps in
  let multTerm := memo2 6 (mm6 (colscale cM2 wv) (msub S2 eye)) in
  neghalf * V * dot6 (vscale eig wv) (mv6 multTerm eig).
(* before the repair *)
Definition eEllipsoid2_old (cM2 : T2) (eps : T2) (S : T4) (V : t) : t :=
  let S2 := memo2 6 (convert4To2 S) in
  let eig := rank2ToVec eps in
  let multTerm := memo2 6 (mm6 cM2 (msub S2 eye)) in
  neghalf * V * dot6 eig (mv6 multTerm eig).

(* strainEnergyBohm:  invTerm = invert4rankTensor((cP4 - cM4) : S + cM4) *)
Definition bohmArg (cM4 cP4 S : T4) : T4 := add4 (mul44 (sub4 cP4 cM4) S) cM4.
Definition eBohm_tail (invTerm cM4 cP4 : T4) (eps : T2) (S : T4) (V : t) : t :=
  let multTerm := memo4 (mul44 invTerm cP4) in
  let stressC := mul42 cM4 (memo2 3 (mul42 (memo4 (mul44 S multTerm)) eps)) in
  let stress0 := mul42 cM4 (memo2 3 (mul42 multTerm eps)) in
  strainEnergy (sub2 stressC stress0) eps V.
Definition eBohm_with (inv4 : T4 -> T4) (cM4 cP4 : T4) (eps : T2) (S : T4) (V : t) : t :=
  eBohm_tail (memo4 (inv4 (memo4 (bohmArg cM4 cP4 S)))) cM4 cP4 eps S V.
Definition eBohm (inv6 : T2 -> T2) := eBohm_with (invert4 inv6).
Definition eBohm_old (inv6 : T2 -> T2) := eBohm_with (invert4_old inv6).

(* strainEnergyBohm2ndRank (repaired): cM2, cP2, S2 are the 6x6 arrays with weighted columns;
   invTerm = np.linalg.inv((cP2 - cM2) S2 + cM2) *)
Definition bohm2Arg (cM2 cP2 S2 : T2) : T2 := madd (mm6 (msub cP2 cM2) S2) cM2.
Definition eBohm2_tail (invTerm cM2 cP2 S2 : T2) (eig wgt6 : V1) (V : t) : t :=
  let multTerm := memo2 6 (mm6 invTerm cP2) in
  let stressC := mv6 cM2 (memo1 6 (mv6 (memo2 6 (mm6 S2 multTerm)) eig)) in
  let stress0 := mv6 cM2 (memo1 6 (mv6 multTerm eig)) in
  neghalf * V * dot6 (vscale eig wgt6) (fun i => stressC i - stress0 i).
Definition eBohm2 (inv6 : T2 -> T2) (cM2u cP2u : T2) (eps : T2) (S : T4) (V : t) : t :=
  let cM2 := memo2 6 (colscale cM2u wv) in
  let cP2 := memo2 6 (colscale cP2u wv) in
  let S2 := memo2 6 (colscale (convert4To2 S) wv) in
  eBohm2_tail (memo2 6 (inv6 (memo2 6 (bohm2Arg cM2 cP2 S2)))) cM2 cP2 S2 (rank2ToVec eps) wv V.
(* before the repair: plain 6x6 arrays, no weights *)
Definition eBohm2_old (inv6 : T2 -> T2) (cM2 cP2 : T2) (eps : T2) (S : T4) (V : t) : t :=
  let S2 := memo2 6 (convert4To2 S) in
  eBohm2_tail (memo2 6 (inv6 (memo2 6 (bohm2Arg cM2 cP2 S2)))) cM2 cP2 S2 (rank2ToVec eps) (fun _ => c1) V.

(* Khachaturyan's approximation (SphericalEnergyDescription._Khachaturyan) *)
Definition khachaturyan (c11 c12 c44 e00 I1 I2 V : t) : t :=
  let A1 := c2_ * (c11 - c12) / c11 in
  let A1' := A1 - ofZ O 12 * (c11 + c2_ * c12) * (c11 - c12 - c2_ * c44) / (c11 * (c11 + c12 + c2_ * c44)) * I1 in
  let A2 := neg (ofZ O 54) * (c11 + c2_ * c12) * ((c11 - c12 - c2_ * c44) * (c11 - c12 - c2_ * c44))
            / (c11 * (c11 + c12 + c2_ * c44) * (c11 + c2_ * c12 + c4_ * c44)) * I2 in
  (c1 / c2_) * (c11 + c2_ * c12) * (A1' + A2) * (e00 * e00) * V.

(* ---- StrainEnergy: setters and update() ----------------------------------------------------- *)
Inductive shape := Constant | Sphere | Cube | Ellipsoid.

Record se := mkSe {
  unrotM : T4; unrotP : T4; rotM : T2; rotP : T2; shp : shape;
  cM4 : T4; cM2 : T2; cP4 : T4; cP2 : T2 }.

Definition idx3 : list nat := [0; 1; 2]%nat.
(* ndarray.any() *)
Definition any4 (c : T4) : bool :=
  existsb (fun i => existsb (fun j => existsb (fun k => existsb (fun l => negb (eqb O (c i j k l) c0)) idx3) idx3) idx3) idx3.

Definition zero4 : T4 := fun _ _ _ _ => c0.
Definition zero2 : T2 := fun _ _ => c0.
Definition se_init (s : shape) : se := mkSe zero4 zero4 eye eye s zero4 zero2 zero4 zero2.

Definition update (s : se) : se :=
  if any4 (unrotM s) then
    let sh := match shp s with Constant => Sphere | x => x end in
    let m4 := memo4 (rot4 (rotM s) (unrotM s)) in
    let m2 := memo2 6 (convert4To2 m4) in
    if any4 (unrotP s) then
      let p4 := memo4 (rot4 (rotP s) (unrotP s)) in
      mkSe (unrotM s) (unrotP s) (rotM s) (rotP s) sh m4 m2 p4 (memo2 6 (convert4To2 p4))
    else mkSe (unrotM s) (unrotP s) (rotM s) (rotP s) sh m4 m2 m4 m2
  else mkSe (unrotM s) (unrotP s) (rotM s) (rotP s) Constant (cM4 s) (cM2 s) (cP4 s) (cP2 s).

Definition with_unrotM (s : se) (c : T4) : se := mkSe c (unrotP s) (rotM s) (rotP s) (shp s) (cM4 s) (cM2 s) (cP4 s) (cP2 s).
Definition with_unrotP (s : se) (c : T4) : se := mkSe (unrotM s) c (rotM s) (rotP s) (shp s) (cM4 s) (cM2 s) (cP4 s) (cP2 s).
Definition with_rotM (s : se) (r : T2) : se := mkSe (unrotM s) (unrotP s) r (rotP s) (shp s) (cM4 s) (cM2 s) (cP4 s) (cP2 s).
Definition with_rotP (s : se) (r : T2) : se := mkSe (unrotM s) (unrotP s) (rotM s) r (shp s) (cM4 s) (cM2 s) (cP4 s) (cP2 s).
Definition with_shape (s : se) (x : shape) : se := mkSe (unrotM s) (unrotP s) (rotM s) (rotP s) x (cM4 s) (cM2 s) (cP4 s) (cP2 s).

(* unrotated_cMatrix_4th setter (4th rank value; a 6x6 value is converted by convert2To4 first) *)
Definition setMatrix4 (s : se) (c : T4) : se := update (with_unrotM s (memo4 c)).
Definition setPrec4 (s : se) (c : T4) : se := update (with_unrotP s (memo4 c)).
Definition setMatrix6 (s : se) (c : T2) : se := setMatrix4 s (convert2To4 c).
Definition setPrec6 (s : se) (c : T2) : se := setPrec4 s (convert2To4 c).
(* setRotationMatrix / setRotationPrecipitate (repaired: re-derive the rotated tensors) *)
Definition setRotM (s : se) (r : T2) : se :=
  let s' := with_rotM s (memo2 3 r) in if any4 (unrotM s') then update s' else s'.
Definition setRotP (s : se) (r : T2) : se :=
  let s' := with_rotP s (memo2 3 r) in if any4 (unrotM s') then update s' else s'.
(* before the repair: the rotation is stored only *)
Definition setRotM_old (s : se) (r : T2) : se := with_rotM s (memo2 3 r).
Definition setRotP_old (s : se) (r : T2) : se := with_rotP s (memo2 3 r).

End C16.

Arguments mkNode {O}.
Arguments nvec {O}. Arguments eterm {O}. Arguments wgt {O}.

(* ===== real-analytic layer (sin, cos, sqrt): EllipsoidalEnergyDescription._n, _beta =========== *)
Open Scope R_scope.
Definition n_spec (phi theta : R) : R * R * R :=
  (sin theta * cos phi, sin theta * sin phi, cos theta).
Definition beta_spec (a b c phi theta : R) : R :=
  sqrt (((a * cos phi) ^ 2 + (b * sin phi) ^ 2) * sin theta ^ 2 + (c * cos theta) ^ 2).
(* one quadrature node of sphInt for radii (a,b,c): endTerm = 1 / beta**3 *)
Definition node_of (a b c : R) (q : R * R * R) : node Rops :=
  match q with (phi, theta, w) => mkNode (O := Rops) (n_spec phi theta) (1 / beta_spec a b c phi theta ^ 3) w end.
Definition nodes_of (a b c : R) (quad : list (R * R * R)) : list (node Rops) := map (node_of a b c) quad.

(* the complete pipeline for radii (a,b,c) and a quadrature given by (phi, theta, weight) triples *)
Definition S_of (inv : T2 Rops -> T2 Rops) (dA : R) (a b c : R) (c4 : T4 Rops) (quad : list (R * R * R)) : T4 Rops :=
  eshelbyS Rops inv PI dA (a, b, c) c4 (nodes_of a b c quad).
Definition V_of (a b c : R) : R := volume Rops PI (a, b, c).

(* isotropic stiffness, 4th rank:  lam d_ij d_kl + mu (d_ik d_jl + d_il d_jk) *)
Definition delta (i j : nat) : R := if Nat.eqb i j then 1 else 0.
Definition isoC4 (lam mu : R) : T4 Rops :=
  fun i j k l => lam * (delta i j * delta k l) + mu * (delta i k * delta j l + delta i l * delta j k).
