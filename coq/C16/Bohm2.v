(* C16 - the 6x6 variant of the inhomogeneous (Bohm) energy equals the fourth-rank variant, for any
   precipitate stiffness; np.linalg.inv is an arbitrary function (both variants hand it the same array). *)
From Coq Require Import Reals List Bool ZArith Arith Lia Lra.
Require Import Kawin.Common.Ops Kawin.Common.Vec Kawin.C16.Model Kawin.C16.Proofs.
Import ListNotations.
Open Scope R_scope.

Notation vec := (rank2ToVec Rops).

Lemma tab2_6_ext (f g : t2) : eq2 6 f g -> tab2 Rops 6 f = tab2 Rops 6 g.
Proof. intros H. unfold tab2, tab1. cbn [seq map]. repeat (f_equal; try (apply H; lia)). Qed.
Lemma memo2_6_ext (f g : t2) : eq2 6 f g -> memo2 Rops 6 f = memo2 Rops 6 g.
Proof. intros H. unfold memo2. rewrite (tab2_6_ext f g H). reflexivity. Qed.

Lemma sub4_minor_r (a b : t4) : minor_r a -> minor_r b -> minor_r (sub4 Rops a b).
Proof. intros Ha Hb i j k l Hi Hj Hk Hl. unfold sub4. rewrite (Ha i j k l), (Hb i j k l) by assumption. reflexivity. Qed.
Lemma sub2_vec (a b : t2) J : vec (sub2 Rops a b) J = vec a J - vec b J.
Proof. reflexivity. Qed.

(* op is additive and multiplicative on tensors with the minor symmetries *)
Lemma op_bohmArg (cM4 cP4 S : t4) : minor_r cM4 -> minor_r cP4 -> minor_l S ->
  eq2 6 (invert4_arg Rops (memo4 Rops (bohmArg Rops cM4 cP4 S)))
        (bohm2Arg Rops (memo2 Rops 6 (op cM4)) (memo2 Rops 6 (op cP4)) (memo2 Rops 6 (op S))).
Proof.
  intros HM HP HS I J HI HJ.
  transitivity (op (bohmArg Rops cM4 cP4 S) I J).
  { apply op_ext; [apply memo4_eq|assumption|assumption]. }
  unfold bohmArg, bohm2Arg, madd.
  transitivity (op (mul44 Rops (sub4 Rops cP4 cM4) S) I J + op cM4 I J).
  { unfold op, colscale, convert4To2, add4. cbv [T add mul Rops]. ring. }
  rewrite op_contract44; [|assumption|assumption|apply sub4_minor_r; assumption|assumption].
  rewrite (memo2_6 (op cM4)) by assumption. apply (f_equal (fun x => x + op cM4 I J)).
  apply mm6_ext; [assumption| |intros a b Ha Hb; symmetry; apply memo2_6; assumption].
  intros k Hk. unfold msub. rewrite !memo2_6 by assumption. unfold op, colscale, convert4To2, sub4. cbv [T sub mul Rops]. ring.
Qed.

Lemma bohm2_equals_bohm (inv6 : t2 -> t2) (cM4 cP4 S : t4) (cM2 cP2 e : t2) V :
  eq2 6 cM2 (convert4To2 Rops cM4) -> eq2 6 cP2 (convert4To2 Rops cP4) ->
  minor_l cM4 -> minor_r cM4 -> minor_l cP4 -> minor_r cP4 -> minor_l S -> minor_r S -> sym2 e ->
  eBohm2 Rops inv6 cM2 cP2 e S V = eBohm Rops inv6 cM4 cP4 e S V.
Proof.
  intros H2M H2P HMl HMr HPl HPr HSl HSr He.
  unfold eBohm2, eBohm, eBohm_with, invert4. cbv zeta.
  (* the 6x6 arrays of the 6x6 variant are the op-forms *)
  assert (EM : memo2 Rops 6 (colscale Rops cM2 (wv Rops)) = memo2 Rops 6 (op cM4)).
  { apply memo2_6_ext. intros I J HI HJ. unfold op, colscale. rewrite H2M by assumption. reflexivity. }
  assert (EP : memo2 Rops 6 (colscale Rops cP2 (wv Rops)) = memo2 Rops 6 (op cP4)).
  { apply memo2_6_ext. intros I J HI HJ. unfold op, colscale. rewrite H2P by assumption. reflexivity. }
  rewrite EM, EP. change (colscale Rops (convert4To2 Rops S) (wv Rops)) with (op S).
  (* both variants hand the same array to the oracle *)
  rewrite <- (memo2_6_ext _ _ (op_bohmArg cM4 cP4 S HMr HPr HSl)).
  set (X := inv6 (memo2 Rops 6 (invert4_arg Rops (memo4 Rops (bohmArg Rops cM4 cP4 S))))).
  set (cMw := memo2 Rops 6 (op cM4)). set (cPw := memo2 Rops 6 (op cP4)). set (Sw := memo2 Rops 6 (op S)).
  unfold eBohm2_tail, eBohm_tail. cbv zeta.
  set (inv4 := memo4 Rops (invert4_of Rops X)).
  set (mult4 := memo4 Rops (mul44 Rops inv4 cP4)).
  set (mult2 := memo2 Rops 6 (mm6 Rops (memo2 Rops 6 X) cPw)).
  assert (Il : minor_l inv4) by (apply memo4_minor_l, invert4_of_minor_l).
  assert (Ir : minor_r inv4) by (apply memo4_minor_r, invert4_of_minor_r).
  assert (Ml : minor_l mult4) by (apply memo4_minor_l, mul44_minor_l; assumption).
  assert (Mr : minor_r mult4) by (apply memo4_minor_r, mul44_minor_r; assumption).
  (* op mult4 = mult2 *)
  assert (OM : eq2 6 (op mult4) mult2).
  { intros I J HI HJ. unfold mult4, mult2. rewrite memo2_6 by assumption.
    transitivity (op (mul44 Rops inv4 cP4) I J); [apply op_ext; [apply memo4_eq|assumption|assumption]|].
    rewrite op_contract44 by assumption.
    apply mm6_ext; [assumption| |intros a b Ha Hb; unfold cPw; symmetry; apply memo2_6; assumption].
    intros k Hk. rewrite memo2_6 by assumption.
    transitivity (op (invert4_of Rops X) I k); [apply op_ext; [apply memo4_eq|assumption|assumption]|].
    apply op_invert4_of; assumption. }
  (* stress vectors *)
  assert (V0 : forall I, (I < 6)%nat ->
     vec (mul42 Rops cM4 (memo2 Rops 3 (mul42 Rops mult4 e))) I = mv6 Rops cMw (memo1 Rops 6 (mv6 Rops mult2 (vec e))) I).
  { intros I HI.
    transitivity (vec (mul42 Rops cM4 (mul42 Rops mult4 e)) I).
    { unfold rank2ToVec. apply mul42_ext; [reflexivity|apply memo2_eq3]. }
    rewrite vec_contract42; [|assumption|assumption|apply mul42_sym; assumption].
    apply mv6_ext; [intros k Hk; unfold cMw; symmetry; apply memo2_6; assumption|].
    intros J HJ. rewrite memo1_6 by assumption. rewrite vec_contract42 by assumption.
    apply mv6_ext; [intros k Hk; apply OM; assumption|intros k Hk; reflexivity]. }
  assert (SMl : minor_l (memo4 Rops (mul44 Rops S mult4))) by (apply memo4_minor_l, mul44_minor_l; assumption).
  assert (SMr : minor_r (memo4 Rops (mul44 Rops S mult4))) by (apply memo4_minor_r, mul44_minor_r; assumption).
  assert (VC : forall I, (I < 6)%nat ->
     vec (mul42 Rops cM4 (memo2 Rops 3 (mul42 Rops (memo4 Rops (mul44 Rops S mult4)) e))) I
     = mv6 Rops cMw (memo1 Rops 6 (mv6 Rops (memo2 Rops 6 (mm6 Rops Sw mult2)) (vec e))) I).
  { intros I HI.
    transitivity (vec (mul42 Rops cM4 (mul42 Rops (memo4 Rops (mul44 Rops S mult4)) e)) I).
    { unfold rank2ToVec. apply mul42_ext; [reflexivity|apply memo2_eq3]. }
    rewrite vec_contract42; [|assumption|assumption|apply mul42_sym; assumption].
    apply mv6_ext; [intros k Hk; unfold cMw; symmetry; apply memo2_6; assumption|].
    intros J HJ. rewrite memo1_6 by assumption. rewrite vec_contract42 by assumption.
    apply mv6_ext; [|intros k Hk; reflexivity]. intros k Hk. rewrite memo2_6 by assumption.
    transitivity (op (mul44 Rops S mult4) J k); [apply op_ext; [apply memo4_eq|assumption|assumption]|].
    rewrite op_contract44 by assumption.
    apply mm6_ext; [assumption|intros a Ha; unfold Sw; symmetry; apply memo2_6; assumption|exact OM]. }
  (* the final contraction *)
  unfold strainEnergy. f_equal.
  rewrite contract22; [| |assumption].
  - rewrite dot6_comm_w. apply dot6_ext; [|intros I HI; reflexivity].
    intros I HI. unfold vscale. rewrite sub2_vec, VC, V0 by assumption. reflexivity.
  - apply sub2_sym; apply mul42_sym; assumption.
Qed.
