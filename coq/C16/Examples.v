(* C16 - non-vacuity examples (the hypotheses of the theorems are met by concrete, non-trivial data) and
   refutation witnesses for the code BEFORE the repairs (the [..._old] definitions of Model.v).  The
   witnesses are evaluated on the executable rational instance of the model; the same inputs are kept
   in corpus/C16 and fail on the unrepaired kawin tree. *)
From Coq Require Import Reals QArith List Bool ZArith Arith Lia Lra.
Require Import Kawin.Common.Ops Kawin.Common.Vec Kawin.C16.Model Kawin.C16.Proofs.
Import ListNotations.

(* ---- data: a cubic, anisotropic stiffness (c11, c12, c44) = (3, 1, 2); a shear eigenstrain --------------- *)
Definition cubicR : nat -> nat -> nat -> nat -> R := convert2To4 Rops (elasticConstantToC Rops 3 1 2)%R.
Definition shearR : nat -> nat -> R := fun i j => (if Nat.eqb (i + j) 1 then 1 else 0)%R.

Example cubic_symmetries : minor_l cubicR /\ minor_r cubicR /\ major cubicR.
Proof.
  repeat split; intros i j k l Hi Hj Hk Hl; idx3 i; idx3 j; idx3 k; idx3 l; reflexivity.
Qed.
Example shear_symmetric : sym2 shearR /\ shearR 0%nat 1%nat = 1%R.
Proof. split; [intros i j Hi Hj; idx3 i; idx3 j; reflexivity | reflexivity]. Qed.

(* a rotation with rational entries (3-4-5 about the third axis) is orthogonal *)
Definition rot345 : nat -> nat -> R := fun i j =>
  match i, j with
  | 0%nat, 0%nat => 3 / 5 | 0%nat, 1%nat => - (4 / 5) | 1%nat, 0%nat => 4 / 5 | 1%nat, 1%nat => 3 / 5
  | 2%nat, 2%nat => 1 | _, _ => 0
  end%R.
Example rot345_orthogonal : orthogonal rot345.
Proof.
  intros i j Hi Hj; idx3 i; idx3 j; unfold rot345, delta, sum3; cbn [Nat.eqb T add mul Rops]; field.
Qed.

(* the Ohm term of the cubic stiffness along (1,0,0) has a non-zero determinant and the hard-coded
   inverse is a good inverse for it: the hypothesis of C16_inverse_routines_agree is satisfiable *)
Example good_inverse_cramer :
  good_inverse (cramer Rops) cubicR (mkNode (O := Rops) (1, 0, 0)%R 1%R 1%R).
Proof.
  unfold good_inverse. cbv zeta. cbn [nvec].
  assert (D : det3 (memo2 Rops 3 (invOhm Rops cubicR (1, 0, 0)%R)) = 12%R).
  { cbv beta iota zeta delta [det3 memo2 tab2 tab1 get2 seq map nth invOhm cubicR convert2To4 elasticConstantToC ncomp sum3 vidx
         nvec Nat.eqb Nat.ltb Nat.leb Nat.sub andb c0 c1 T zero one add mul sub dvd ofZ Rops]. ring. }
  split; [rewrite D; lra|].
  apply cramer_inverse; [|rewrite D; lra].
  apply invOhm_sym; apply cubic_symmetries.
Qed.

(* ---- witnesses on the executable instance ------------------------------------------------------------------ *)
Open Scope Q_scope.
Definition cubicQ : T4 Qops := convert2To4 Qops (elasticConstantToC Qops 3 1 2).
Definition shearQ : T2 Qops := fun i j => if Nat.eqb (i + j) 1 then 1 else 0.
Definition zeroS : T4 Qops := fun _ _ _ _ => 0.
(* np.linalg.inv on the 6x6 form of cubicQ (with and without the shear weights): the exact inverses *)
Definition invCubic (shear : Q) : T2 Qops := fun i j =>
  if Nat.eqb i j then (if (i <? 3)%nat then 2 # 5 else shear)
  else if ((i <? 3) && (j <? 3))%bool then - (1 # 10) else 0.
Definition as_list6 (f : T2 Qops) : list (list Q) := map (fun i => map (f i) (seq 0 6)) (seq 0 6).

(* the oracle answers are inverses of what the two variants hand to np.linalg.inv *)
Example oracle_is_inverse_old :
  as_list6 (mm6 Qops (invCubic (1 # 2)) (convert4To2 Qops cubicQ)) = as_list6 (eye Qops).
Proof. vm_compute. reflexivity. Qed.
Example oracle_is_inverse_new :
  as_list6 (mm6 Qops (invCubic (1 # 4)) (invert4_arg Qops cubicQ)) = as_list6 (eye Qops).
Proof. vm_compute. reflexivity. Qed.

(* before the repair: identical precipitate and matrix stiffness, shear eigenstrain, S = 0:
   Bohm gives 16 V, the homogeneous formula 4 V; after the repair both give 4 V *)
Example bohm_reduces_to_homogeneous_old_refuted :
  eBohm_old Qops (fun _ => invCubic (1 # 2)) cubicQ cubicQ shearQ zeroS 1 = 16 /\
  eEllipsoid Qops cubicQ shearQ zeroS 1 = 4 /\
  eBohm Qops (fun _ => invCubic (1 # 4)) cubicQ cubicQ shearQ zeroS 1 = 4.
Proof. vm_compute. repeat split. Qed.

(* before the repair: the 6x6 variant gives V for the same data, the fourth-rank one 4 V *)
Example rank2_equals_rank4_old_refuted :
  eEllipsoid2_old Qops (convert4To2 Qops cubicQ) shearQ zeroS 1 = 1 /\
  eEllipsoid2 Qops (convert4To2 Qops cubicQ) shearQ zeroS 1 = 4 /\
  eEllipsoid Qops cubicQ shearQ zeroS 1 = 4.
Proof. vm_compute. repeat split. Qed.

(* before the repair: a rotation supplied after the stiffness is not applied *)
Definition rot345Q : T2 Qops := fun i j =>
  match i, j with
  | 0%nat, 0%nat => 3 # 5 | 0%nat, 1%nat => - (4 # 5) | 1%nat, 0%nat => 4 # 5 | 1%nat, 1%nat => 3 # 5
  | 2%nat, 2%nat => 1 | _, _ => 0
  end.
Example rotation_order_old_refuted :
  let a := setRotM_old Qops (setMatrix4 Qops (se_init Qops Ellipsoid) cubicQ) rot345Q in
  let b := setMatrix4 Qops (setRotM_old Qops (se_init Qops Ellipsoid) rot345Q) cubicQ in
  let c := setRotM Qops (setMatrix4 Qops (se_init Qops Ellipsoid) cubicQ) rot345Q in
  cM4 Qops a 0%nat 0%nat 0%nat 0%nat = 3 /\ cM4 Qops b 0%nat 0%nat 0%nat 0%nat = 2451 # 625 /\
  cM4 Qops c 0%nat 0%nat 0%nat 0%nat = 2451 # 625.
Proof. vm_compute. repeat split. Qed.

(* the hard-coded 3x3 inverse is the inverse of the transpose: not an inverse of a non-symmetric matrix *)
Definition upperQ : T2 Qops := fun i j => if Nat.eqb i j then 1 else if (Nat.eqb i 0 && Nat.eqb j 1)%bool then 1 else 0.
Example cramer_nonsymmetric_refuted :
  mm3 Qops (cramer Qops upperQ) upperQ 1%nat 0%nat = -1 /\ mm3 Qops (fun i j => cramer Qops upperQ j i) upperQ 1%nat 0%nat = 0.
Proof. vm_compute. repeat split. Qed.

(* the normalisation hypothesis of C16_isotropic_sphere_closed_form is met by the shipped convention
   (dA = pi/2, weights summing to one), e.g. by a one-point rule *)
Require Import Kawin.C16.Isotropic.
Example quadrature_normalised : (8 * (PI / 2) * wsum [(0, 0, 1)] = 4 * PI)%R.
Proof. unfold wsum. cbn [map sumT snd T add zero Rops]. field. Qed.
