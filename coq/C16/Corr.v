(* C16 - harness-side driver of the correspondence check (no theorem depends on this file).
   The model of Model.v is executed on exact rationals (vm_compute) on the inputs the implementation
   has just been run on; the implementation's outputs are shipped as exact rationals too and compared
   here, so that only verdicts are printed.  np.linalg.inv is an oracle of the model; here it is
   instantiated by exact Gauss-Jordan elimination.

   Scalars: [BQops], the scalar record on machine-word bignum rationals (Bignums.BigQ, normalising
   operations).  The stdlib instance [Qops] spends its time in Pos.gcd on the several-thousand-bit
   numbers that sums of quotients produce (measured: 880 s for one 10-node Eshelby tensor).  Every
   operation of [BQops] is the corresponding operation of [Qops] up to Qeq (BigQ.spec_add_norm ...). *)
From Coq Require Import QArith ZArith List Bool Arith.
From Bignums Require Import BigQ.
Require Import Kawin.Common.Ops Kawin.Common.Vec Kawin.C16.Model.
Import ListNotations.

Definition bqltb (a b : bigQ) : bool := match BigQ.compare a b with Lt => true | _ => false end.
Definition bqleb (a b : bigQ) : bool := match BigQ.compare a b with Gt => false | _ => true end.
Definition BQops : Ops :=
  mkOps bigQ BigQ.zero BigQ.one BigQ.add_norm BigQ.sub_norm BigQ.mul_norm BigQ.div_norm
        bqltb bqleb BigQ.eq_bool (fun z => BigQ.Qz (BigZ.of_Z z)).
Definition bq (q : Q) : bigQ := BigQ.of_Q q.
Definition b0 : bigQ := BigQ.zero.
Definition babs (q : bigQ) : bigQ := if bqltb q b0 then BigQ.opp q else q.
Definition bmax (a b : bigQ) : bigQ := if bqleb a b then b else a.

(* ---- exact inverse by Gauss-Jordan elimination on [A | I] ---------------------------------- *)
Definition rsub (a b : list bigQ) (f : bigQ) : list bigQ :=
  zipWith (fun x y => BigQ.sub_norm x (BigQ.mul_norm f y)) a b.
Fixpoint pick (k : nat) (rows : list (list bigQ)) : option (list bigQ * list (list bigQ)) :=
  match rows with
  | [] => None
  | r :: rest =>
      if BigQ.eq_bool (nth k r b0) b0 then
        match pick k rest with Some (p, others) => Some (p, r :: others) | None => None end
      else Some (r, rest)
  end.
Fixpoint gj (fuel k : nat) (done todo : list (list bigQ)) : option (list (list bigQ)) :=
  match fuel with
  | O => match todo with [] => Some done | _ => None end
  | S f =>
      match pick k todo with
      | None => None
      | Some (p, rest) =>
          let pk := nth k p b0 in
          let p' := map (fun x => BigQ.div_norm x pk) p in
          let elim := fun row => rsub row p' (nth k row b0) in
          gj f (S k) (map elim done ++ [p']) (map elim rest)
      end
  end.
Definition augment (n : nat) (m : T2 BQops) : list (list bigQ) :=
  map (fun i => map (fun j => m i j) (seq 0 n) ++ map (fun j => if Nat.eqb i j then BigQ.one else b0) (seq 0 n)) (seq 0 n).
Definition inv_q (n : nat) (m : T2 BQops) : T2 BQops :=
  match gj n 0 [] (augment n m) with
  | Some rows => fun i j => nth (n + j) (nth i rows []) b0
  | None => fun _ _ => b0
  end.
Definition singular_q (n : nat) (m : T2 BQops) : bool :=
  match gj n 0 [] (augment n m) with Some _ => false | None => true end.

(* ---- transport: nested lists of Q literals <-> index functions ----------------------------- *)
Definition bl (l : list Q) : list bigQ := map bq l.
Definition ofl1 (l : list Q) : V1 BQops := let b := bl l in fun i => nth i b b0.
Definition ofl2 (l : list (list Q)) : T2 BQops := let b := map bl l in fun i j => nth j (nth i b []) b0.
Definition ofl4 (l : list Q) : T4 BQops := let b := bl l in fun i j k m => nth (27 * i + 9 * j + 3 * k + m) b b0.
Definition i3 := [0; 1; 2]%nat.
Definition i6 := [0; 1; 2; 3; 4; 5]%nat.
Definition fl4 (f : T4 BQops) : list bigQ :=
  flat_map (fun i => flat_map (fun j => flat_map (fun k => map (fun m => f i j k m) i3) i3) i3) i3.
Definition fl2 (n : list nat) (f : T2 BQops) : list bigQ := flat_map (fun i => map (fun j => f i j) n) n.

(* ---- comparison: verdicts only ------------------------------------------------------------------ *)
(* 62-bit approximation (m, s, exact):  value ~ m * 2^-s *)
Definition approx (x : bigQ) : Z * Z * bool :=
  let q := BigQ.to_Q x in
  let n := Qnum q in
  let d := Zpos (Qden q) in
  if (n =? 0)%Z then (0, 0, true)%Z
  else
    let s := (60 + Z.log2 d - Z.log2 (Z.abs n))%Z in
    let m := if (0 <=? s)%Z then ((n * 2 ^ s) / d)%Z else (n / (d * 2 ^ (- s)))%Z in
    let ex := if (0 <=? s)%Z then (m * d =? n * 2 ^ s)%Z else (m * (d * 2 ^ (- s)) =? n)%Z in
    (m, s, ex).
Definition verdict := option (nat * (Z * Z * bool)).
Definition closeb (rt a b scale : bigQ) : bool := bqleb (babs (BigQ.sub a b)) (BigQ.mul rt scale).
Fixpoint cmp_go (rt scale : bigQ) (k : nat) (impl model : list bigQ) : verdict :=
  match impl, model with
  | a :: i', b :: m' => if closeb rt a b scale then cmp_go rt scale (S k) i' m' else Some (k, approx b)
  | [], [] => None
  | _, _ => Some (k, (0, 0, false)%Z)
  end.
Definition maxabs (l : list bigQ) : bigQ := fold_left (fun a x => bmax a (babs x)) l b0.
(* norm-wise comparison: every entry within rt * (largest model entry + extra) *)
Definition cmpn (rt : Q) (extra : Q) (impl : list Q) (model : list bigQ) : verdict :=
  cmp_go (bq rt) (BigQ.add (maxabs model) (bq extra)) 0 (bl impl) model.
Definition cmp1 (rt scale : Q) (impl : Q) (model : bigQ) : verdict :=
  cmp_go (bq rt) (bq scale) 0 [bq impl] [model].

Definition b3 (p : Q * Q * Q) : bigQ * bigQ * bigQ := match p with (a, b, c) => (bq a, bq b, bq c) end.
Definition mknodes (ns : list (Q * Q * Q)) (es ws : list Q) : list (node BQops) :=
  map (fun p => match p with (n, e, w) => mkNode (O := BQops) (b3 n) (bq e) (bq w) end) (combine (combine ns es) ws).

(* ---- stage checks ------------------------------------------------------------------------------ *)
(* conversions and rotations of one 6x6 array + one 3x3 rotation + one 3x3 tensor + one 6-vector *)
Definition chk_tensor (rt : Q) (c2 rot tn : list (list Q)) (v : list Q) (i_c4 i_back i_r4 i_r2 i_v2t i_t2v : list Q)
  : list verdict :=
  let c4 := memo4 BQops (convert2To4 BQops (ofl2 c2)) in
  [ cmpn rt 0 i_c4 (fl4 c4);
    cmpn rt 0 i_back (fl2 i6 (convert4To2 BQops c4));
    cmpn rt 0 i_r4 (fl4 (rot4 BQops (ofl2 rot) c4));
    cmpn rt 0 i_r2 (fl2 i3 (rot2 BQops (ofl2 rot) (ofl2 tn)));
    cmpn rt 0 i_v2t (fl2 i3 (vecTo2 BQops (ofl1 v)));
    cmpn rt 0 i_t2v (map (rank2ToVec BQops (ofl2 tn)) i6) ].

(* invert4rankTensor on an implementation tensor; the flag says that the model found it singular *)
Definition chk_invert4 (rt : Q) (a4 : list Q) (i_inv : list Q) : verdict * bool :=
  let a := ofl4 a4 in
  (cmpn rt 0 i_inv (fl4 (invert4 BQops (inv_q 6) a)),
   singular_q 6 (colscale BQops (convert4To2 BQops a) (wv BQops))).

(* Ohm term of every grid point: invOhm from (stiffness, normal) and its inverse, against what
   _ohm_inverse received and returned inside the implementation's own sphInt call *)
Definition chk_ohm (rt : Q) (quick : bool) (c4l : list Q) (ns : list (Q * Q * Q))
           (i_invohm i_ohm : list (list (list Q))) : list verdict :=
  let c4 := ofl4 c4l in
  let inv := if quick then cramer BQops else inv_q 3 in
  flat_map (fun p => match p with (n, io, oo) =>
     [ cmpn rt 0 (concat io) (fl2 i3 (invOhm BQops c4 (b3 n)));
       cmpn rt 0 (concat oo) (fl2 i3 (inv (ofl2 io))) ] end) (combine (combine ns i_invohm) i_ohm).

(* the sum over the grid points and the prefactor, from the Ohm terms the implementation used *)
Definition chk_D (rt : Q) (pi dA : Q) (r : Q * Q * Q) (i_ohm : list (list (list Q)))
           (ns : list (Q * Q * Q)) (es ws : list Q) (i_D : list Q) : verdict :=
  let tabs := map (fun m => map bl m) i_ohm in
  cmpn rt 0 i_D (fl4 (Dscale BQops (bq pi) (b3 r) (memo4 BQops (sphSum BQops (bq dA) tabs (mknodes ns es ws))))).

Definition chk_S (rt : Q) (c4l i_D i_S : list Q) : verdict :=
  cmpn rt 0 i_S (fl4 (Sijmn BQops (ofl4 c4l) (ofl4 i_D))).

(* whole pipeline stiffness + grid -> S (few grid points) *)
Definition chk_pipeline (rt : Q) (quick : bool) (pi dA : Q) (r : Q * Q * Q) (c4l : list Q)
           (ns : list (Q * Q * Q)) (es ws : list Q) (i_S : list Q) : verdict :=
  let inv := if quick then cramer BQops else inv_q 3 in
  cmpn rt 0 i_S (fl4 (eshelbyS BQops inv (bq pi) (bq dA) (b3 r) (ofl4 c4l) (mknodes ns es ws))).

(* the four energies from the implementation's S, stiffness tensors and eigenstrain.  The two
   np.linalg.inv calls (inside invert4rankTensor for Bohm, inside Bohm2ndRank) are observed: the
   model must hand the same array to the oracle, the oracle's answer must be the inverse (exact
   Gauss-Jordan), and the energy is evaluated from the answer the implementation received. *)
Definition chk_energy (rt scale : Q) (V : Q) (cM4l cP4l Sl : list Q) (eps : list (list Q))
           (i_E4 i_E2 i_B4 i_B2 : Q) (b4_in b4_out b2_in b2_out : list (list Q)) : list verdict :=
  let cM := ofl4 cM4l in let cP := ofl4 cP4l in let S := ofl4 Sl in let e := ofl2 eps in
  let cM2 := memo2 BQops 6 (convert4To2 BQops cM) in
  let cP2 := memo2 BQops 6 (convert4To2 BQops cP) in
  let w := wv BQops in
  let cM2w := memo2 BQops 6 (colscale BQops cM2 w) in
  let cP2w := memo2 BQops 6 (colscale BQops cP2 w) in
  let S2w := memo2 BQops 6 (colscale BQops (convert4To2 BQops S) w) in
  [ cmp1 rt scale i_E4 (eEllipsoid BQops cM e S (bq V));
    cmp1 rt scale i_E2 (eEllipsoid2 BQops cM2 e S (bq V));
    cmpn rt 0 (concat b4_in) (fl2 i6 (invert4_arg BQops (memo4 BQops (bohmArg BQops cM cP S))));
    cmpn rt 0 (concat b4_out) (fl2 i6 (inv_q 6 (ofl2 b4_in)));
    cmp1 rt scale i_B4 (eBohm_tail BQops (memo4 BQops (invert4_of BQops (ofl2 b4_out))) cM cP e S (bq V));
    cmpn rt 0 (concat b2_in) (fl2 i6 (bohm2Arg BQops cM2w cP2w S2w));
    cmpn rt 0 (concat b2_out) (fl2 i6 (inv_q 6 (ofl2 b2_in)));
    cmp1 rt scale i_B2 (eBohm2_tail BQops (ofl2 b2_out) cM2w cP2w S2w (rank2ToVec BQops e) w (bq V)) ].

(* scalar closed forms of the model: Khachaturyan, volume, elasticConstantToC *)
Definition chk_khach (rt : Q) (c11 c12 c44 e00 I1 I2 pi : Q) (r : Q * Q * Q) (i_E : Q) (i_C : list Q) : list verdict :=
  let V := volume BQops (bq pi) (b3 r) in
  let m := khachaturyan BQops (bq c11) (bq c12) (bq c44) (bq e00) (bq I1) (bq I2) V in
  [ cmp_go (bq rt) (babs m) 0 [bq i_E] [m];
    cmpn rt 0 i_C (fl2 i6 (elasticConstantToC BQops (bq c11) (bq c12) (bq c44))) ].

(* ---- StrainEnergy state machine ---------------------------------------------------------------- *)
Inductive op :=
| OpMatrix6 (c : list (list Q)) | OpPrec6 (c : list (list Q))
| OpRotM (r : list (list Q)) | OpRotP (r : list (list Q)) | OpShape (s : shape).

Definition apply_op (s : se BQops) (o : op) : se BQops :=
  match o with
  | OpMatrix6 c => setMatrix6 BQops s (ofl2 c)
  | OpPrec6 c => setPrec6 BQops s (ofl2 c)
  | OpRotM r => setRotM BQops s (ofl2 r)
  | OpRotP r => setRotP BQops s (ofl2 r)
  | OpShape x => with_shape BQops s x
  end.
Definition shape_code (x : shape) : nat := match x with Constant => 0 | Sphere => 1 | Cube => 2 | Ellipsoid => 3 end.

(* after every operation: shape code equal, cMatrix_4th and cPrec_4th within tolerance.
   Some (step, what) at the first disagreement; what: 0 shape, 1 matrix tensor, 2 precipitate tensor *)
Fixpoint run_ops (rt : Q) (s : se BQops) (ops : list op) (obs : list (nat * list Q * list Q)) (k : nat)
  : option (nat * nat) :=
  match ops, obs with
  | o :: ops', (sc, m4, p4) :: obs' =>
      let s' := apply_op s o in
      if negb (Nat.eqb sc (shape_code (shp BQops s'))) then Some (k, 0%nat)
      else match cmpn rt 0 m4 (fl4 (cM4 BQops s')) with Some _ => Some (k, 1%nat) | None =>
           match cmpn rt 0 p4 (fl4 (cP4 BQops s')) with Some _ => Some (k, 2%nat) | None =>
             run_ops rt s' ops' obs' (S k) end end
  | [], [] => None
  | _, _ => Some (k, 9%nat)
  end.
Definition chk_ops (rt : Q) (s0 : shape) (ops : list op) (obs : list (nat * list Q * list Q)) :=
  run_ops rt (se_init BQops s0) ops obs 0.
