(* C16 - further property theorems (same discipline as Properties.v).
   (1) 6x6 and fourth-rank variants of the INHOMOGENEOUS energy agree for any precipitate stiffness.
   (2) isotropic matrix and a sphere: the energy of a dilatational eigenstrain equals the closed form
   2 G (1+nu)/(1-nu) eps^2 V  (= 2 mu (3 lam + 2 mu)/(lam + 2 mu) eps^2 V), computed through the complete
   Eshelby pipeline of the model (unit normals and beta of the code, Ohm term, hard-coded inverse, sum over
   the grid points, Dijkl, Sijmn, strainEnergyEllipsoid) for ANY quadrature whose weights satisfy
   8 dA sum(w) = 4 pi (the shipped rules: dA = pi/2, sum(w) = 1).  Only property theorems. *)
From Coq Require Import Reals List Arith.
Require Import Kawin.Common.Ops Kawin.Common.Vec Kawin.C16.Model Kawin.C16.Proofs Kawin.C16.Isotropic Kawin.C16.Bohm2.
Open Scope R_scope.

Theorem C16_bohm2_equals_bohm (inv6 : (nat -> nat -> R) -> nat -> nat -> R)
        (cM4 cP4 S : nat -> nat -> nat -> nat -> R) (cM2 cP2 e : nat -> nat -> R) V :
  eq2 6 cM2 (convert4To2 Rops cM4) -> eq2 6 cP2 (convert4To2 Rops cP4) ->
  minor_l cM4 -> minor_r cM4 -> minor_l cP4 -> minor_r cP4 -> minor_l S -> minor_r S -> sym2 e ->
  eBohm2 Rops inv6 cM2 cP2 e S V = eBohm Rops inv6 cM4 cP4 e S V.
Proof. exact (bohm2_equals_bohm inv6 cM4 cP4 S cM2 cP2 e V). Qed.
Print Assumptions C16_bohm2_equals_bohm.

Theorem C16_isotropic_sphere_closed_form lam mu dA r e quad :
  0 < r -> mu <> 0 -> lam + 2 * mu <> 0 -> 8 * dA * wsum quad = 4 * PI ->
  eEllipsoid Rops (isoC4 lam mu) (scale2 Rops e delta2) (S_of (cramer Rops) dA r r r (isoC4 lam mu) quad) (V_of r r r)
  = 2 * mu * (3 * lam + 2 * mu) / (lam + 2 * mu) * e ^ 2 * V_of r r r.
Proof. exact (isotropic_sphere_closed_form lam mu dA r e quad). Qed.
Print Assumptions C16_isotropic_sphere_closed_form.

Theorem C16_isotropic_sphere_closed_form_G_nu Gm nu dA r e quad :
  0 < r -> 0 < Gm -> -1 < nu < 1 / 2 -> 8 * dA * wsum quad = 4 * PI ->
  eEllipsoid Rops (isoC4 (2 * Gm * nu / (1 - 2 * nu)) Gm) (scale2 Rops e delta2)
             (S_of (cramer Rops) dA r r r (isoC4 (2 * Gm * nu / (1 - 2 * nu)) Gm) quad) (V_of r r r)
  = 2 * Gm * (1 + nu) / (1 - nu) * e ^ 2 * V_of r r r.
Proof. exact (isotropic_sphere_closed_form_G_nu Gm nu dA r e quad). Qed.
Print Assumptions C16_isotropic_sphere_closed_form_G_nu.

(* the unit normal is an eigenvector of the Ohm term of an isotropic stiffness, with eigenvalue lam + 2 mu *)
Theorem C16_isotropic_ohm_eigenvector lam mu x y z k : x * x + y * y + z * z = 1 -> (k < 3)%nat ->
  sum3 Rops (fun l => memo2 Rops 3 (invOhm Rops (isoC4 lam mu) (x, y, z)) k l * ncomp Rops (x, y, z) l)
  = (lam + 2 * mu) * ncomp Rops (x, y, z) k.
Proof. exact (iso_invOhm_eigen lam mu x y z k). Qed.
Print Assumptions C16_isotropic_ohm_eigenvector.
