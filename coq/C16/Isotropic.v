(* C16 - isotropic matrix: the Ohm term, the trace of the Eshelby tensor of a sphere and the closed-form
   energy of a dilatational eigenstrain, for ANY quadrature with unit normals. *)
From Coq Require Import Reals List Bool ZArith Arith Lia Lra Psatz Nsatz.
Require Import Kawin.Common.Ops Kawin.Common.Vec Kawin.C16.Model Kawin.C16.Proofs.
Import ListNotations.
Open Scope R_scope.

Ltac Riso := cbv beta iota zeta delta [memo2 tab2 tab1 get2 List.seq List.map List.nth invOhm isoC4 delta ncomp sum3 cramer det3 mm3 eye sym3
                                        Nat.eqb c0 c1 T zero one add sub mul dvd Rops] in *.

Lemma iso_invOhm_det lam mu x y z : x * x + y * y + z * z = 1 ->
  det3 (memo2 Rops 3 (invOhm Rops (isoC4 lam mu) (x, y, z))) = mu * mu * (lam + 2 * mu).
Proof. intros Hu. Riso. nsatz. Qed.

Lemma iso_invOhm_sym lam mu n : sym3 (memo2 Rops 3 (invOhm Rops (isoC4 lam mu) n)).
Proof. destruct n as [[x y] z]. Riso. repeat split; ring. Qed.

(* the unit normal is an eigenvector of the Ohm term of an isotropic stiffness *)
Lemma iso_invOhm_eigen lam mu x y z k : x * x + y * y + z * z = 1 -> (k < 3)%nat ->
  sum3 Rops (fun l => memo2 Rops 3 (invOhm Rops (isoC4 lam mu) (x, y, z)) k l * ncomp Rops (x, y, z) l)
  = (lam + 2 * mu) * ncomp Rops (x, y, z) k.
Proof.
  intros Hu Hk. idx3 k; clear Hk; Riso; Req;
    match goal with |- _ = ?r => transitivity (r * (x * x + y * y + z * z)); [ring | rewrite Hu; ring] end.
Qed.

Lemma iso_ohm_quadratic lam mu x y z : x * x + y * y + z * z = 1 -> mu <> 0 -> lam + 2 * mu <> 0 ->
  let m := memo2 Rops 3 (invOhm Rops (isoC4 lam mu) (x, y, z)) in
  let n := ncomp Rops (x, y, z) in
  sum3 Rops (fun k => sum3 Rops (fun l => cramer Rops m k l * (n l * n k))) = / (lam + 2 * mu).
Proof.
  intros Hu Hm Hl m n.
  assert (Hd : det3 m <> 0).
  { unfold m. rewrite iso_invOhm_det by assumption. apply Rmult_integral_contrapositive_currified; [apply Rmult_integral_contrapositive_currified|]; assumption. }
  destruct (cramer_inverse m (iso_invOhm_sym lam mu (x, y, z)) Hd) as [HL _].
  (* ohm n = n / (lam + 2 mu) *)
  assert (On : forall k, (k < 3)%nat -> sum3 Rops (fun l => cramer Rops m k l * n l) = n k / (lam + 2 * mu)).
  { intros k Hk.
    assert (E : sum3 Rops (fun l => cramer Rops m k l * ((lam + 2 * mu) * n l)) = n k).
    { rewrite (sum3_ext _ (fun l => cramer Rops m k l * sum3 Rops (fun j => m l j * n j)))
        by (intros l Hl'; unfold m, n; rewrite iso_invOhm_eigen by assumption; reflexivity).
      transitivity (sum3 Rops (fun j => mm3 Rops (cramer Rops m) m k j * n j)).
      { cbv [sum3 mm3 T add mul Rops]. ring. }
      rewrite (sum3_ext _ (fun j => eye Rops k j * n j)) by (intros j Hj; rewrite HL by assumption; reflexivity).
      idx3 k; cbv [sum3 eye Nat.eqb c0 c1 T zero one add mul Rops]; ring. }
    rewrite <- E. cbv [sum3 T add mul Rops]. field. assumption. }
  rewrite (sum3_ext _ (fun k => n k * (n k / (lam + 2 * mu)))).
  - unfold n. cbv [sum3 ncomp T add mul Rops].
    transitivity ((x * x + y * y + z * z) / (lam + 2 * mu)); [field; assumption|rewrite Hu; field; assumption].
  - intros k Hk. rewrite <- On by assumption. cbv [sum3 T add mul Rops]. ring.
Qed.

(* ---- sum over the grid points --------------------------------------------------------------------------- *)
Definition unit_node (nd : node Rops) : Prop := let '(x, y, z) := nvec nd in x * x + y * y + z * z = 1.

Lemma sum_exchange (F : nat -> nat -> list (list R) -> node Rops -> R) tabs nodes :
  sum3 Rops (fun k => sum3 Rops (fun l => sumT Rops (zipWith (F k l) tabs nodes)))
  = sumT Rops (zipWith (fun tb nd => sum3 Rops (fun k => sum3 Rops (fun l => F k l tb nd))) tabs nodes).
Proof.
  revert nodes. induction tabs as [|tb tabs IH]; intros [|nd nodes]; cbn [zipWith sumT].
  - cbv [sum3 T zero add Rops]. ring.
  - cbv [sum3 T zero add Rops]. ring.
  - cbv [sum3 T zero add Rops]. ring.
  - rewrite <- IH. cbv [sum3 T zero add Rops]. ring.
Qed.

Lemma zipWith_map_l {A B C} (f : B -> A -> C) (h : A -> B) (l : list A) :
  zipWith f (map h l) l = map (fun a => f (h a) a) l.
Proof. induction l as [|a l IH]; cbn [map zipWith]; [reflexivity|]. rewrite IH. reflexivity. Qed.

Lemma sumT_map_ext (f g : node Rops -> R) l : Forall (fun nd => f nd = g nd) l ->
  sumT Rops (map f l) = sumT Rops (map g l).
Proof. induction 1 as [|a l Ha Hl IH]; cbn [map sumT]; [reflexivity|]. rewrite Ha, IH. reflexivity. Qed.

(* sum_kl of the grid sum at index positions (k, l, l, k) *)
Lemma trace_sphSum lam mu dA nodes : mu <> 0 -> lam + 2 * mu <> 0 -> Forall unit_node nodes ->
  sum3 Rops (fun k => sum3 Rops (fun l => sphSum Rops dA (ohmTabs Rops (cramer Rops) (isoC4 lam mu) nodes) nodes k l l k))
  = 8 * sumT Rops (map (fun nd : node Rops => eterm nd * wgt nd) nodes) / (lam + 2 * mu) * dA.
Proof.
  intros Hm Hl Hu. unfold sphSum.
  transitivity (8 * sum3 Rops (fun k => sum3 Rops (fun l =>
       sumT Rops (zipWith (fun tb nd => get2 Rops tb k l * (ncomp Rops (nvec nd) l * ncomp Rops (nvec nd) k * (eterm nd * wgt nd)))
                          (ohmTabs Rops (cramer Rops) (isoC4 lam mu) nodes) nodes))) * dA).
  { cbv [sum3 c8_ T add mul ofZ Rops]. ring. }
  rewrite (sum_exchange (fun k l tb nd => get2 Rops tb k l * (ncomp Rops (nvec nd) l * ncomp Rops (nvec nd) k * (eterm nd * wgt nd)))).
  unfold ohmTabs. rewrite zipWith_map_l.
  rewrite (sumT_map_ext _ (fun nd : node Rops => eterm nd * wgt nd / (lam + 2 * mu))).
  - assert (L : forall l, sumT Rops (map (fun nd : node Rops => eterm nd * wgt nd / (lam + 2 * mu)) l)
                          = sumT Rops (map (fun nd : node Rops => eterm nd * wgt nd) l) / (lam + 2 * mu)).
    { induction l as [|a l IH]; cbn [map sumT]; [cbv [T zero Rops]; field; assumption|].
      rewrite IH. cbv [T add Rops]. field. assumption. }
    rewrite L. Req. field. assumption.
  - apply Forall_forall. intros nd Hin. rewrite Forall_forall in Hu. specialize (Hu nd Hin).
    unfold unit_node in Hu. destruct (nvec nd) as [[x y] z] eqn:En.
    pose proof (iso_ohm_quadratic lam mu x y z Hu Hm Hl) as Q. cbv zeta in Q.
    transitivity ((eterm nd * wgt nd) * / (lam + 2 * mu)); [|field; assumption].
    rewrite <- Q. cbv [sum3 tab2 tab1 get2 List.seq List.map List.nth T add mul Rops]. ring.
Qed.

(* ---- sphere -------------------------------------------------------------------------------------------------- *)
Lemma beta_sphere r phi theta : 0 < r -> beta_spec r r r phi theta = r.
Proof.
  intros Hr. unfold beta_spec.
  pose proof (sin2_cos2 phi) as P. pose proof (sin2_cos2 theta) as Q. unfold Rsqr in P, Q.
  replace (((r * cos phi) ^ 2 + (r * sin phi) ^ 2) * sin theta ^ 2 + (r * cos theta) ^ 2)
    with (r * r * ((sin phi * sin phi + cos phi * cos phi) * (sin theta * sin theta) + cos theta * cos theta)) by ring.
  rewrite P, Rmult_1_l, Q, Rmult_1_r. apply sqrt_square. lra.
Qed.
Lemma n_spec_unit phi theta : let '(x, y, z) := n_spec phi theta in x * x + y * y + z * z = 1.
Proof.
  cbv [n_spec]. pose proof (sin2_cos2 phi) as P. pose proof (sin2_cos2 theta) as Q. unfold Rsqr in *. nra.
Qed.
Lemma sphere_nodes_unit r quad : Forall unit_node (nodes_of r r r quad).
Proof.
  unfold nodes_of. apply Forall_forall. intros nd Hin. apply in_map_iff in Hin. destruct Hin as [[[phi theta] w] [<- _]].
  unfold unit_node, node_of. cbn [nvec]. apply n_spec_unit.
Qed.
(* sum of the weights of a quadrature *)
Definition wsum (quad : list (R * R * R)) : R := sumT Rops (map (fun q => snd q) quad).
Lemma sphere_nodes_sum r quad : 0 < r ->
  sumT Rops (map (fun nd : node Rops => eterm nd * wgt nd) (nodes_of r r r quad)) = wsum quad / (r * r * r).
Proof.
  intros Hr. unfold wsum, nodes_of. rewrite map_map.
  induction quad as [|[[phi theta] w] quad IH]; cbn [map sumT].
  - cbv [T zero Rops]. field. lra.
  - rewrite IH. unfold node_of. cbn [eterm wgt snd]. rewrite beta_sphere by assumption. cbv [T add Rops]. field. lra.
Qed.

(* ---- trace of the Eshelby tensor and the energy ------------------------------------------------------------------ *)
Ltac Rtr := cbv beta iota zeta delta [memo4 tab4 memo2 tab2 tab1 get4 get2 List.seq List.map List.nth Sijmn Dscale isoC4 delta sum3 mul42 sub2 scale2
                                      eEllipsoid strainEnergy neghalf neg c0 c1 c2_ c3_ c4_ Nat.eqb T zero one add sub mul dvd ofZ Rops] in *.

Lemma trace_S_iso lam mu (D : nat -> nat -> nat -> nat -> R) :
  sum3 Rops (fun k => sum3 Rops (fun m => Sijmn Rops (isoC4 lam mu) D k k m m))
  = - (3 * lam + 2 * mu) * sum3 Rops (fun k => sum3 Rops (fun l => D k l l k)).
Proof. Rtr. Req. field. Qed.

Definition delta2 (i j : nat) : R := delta i j.

Lemma energy_dilatation_iso lam mu (S : nat -> nat -> nat -> nat -> R) e V :
  eEllipsoid Rops (isoC4 lam mu) (scale2 Rops e delta2) S V
  = - (1 / 2) * V * e * (3 * lam + 2 * mu) * (e * sum3 Rops (fun k => sum3 Rops (fun m => S k k m m)) - 3 * e).
Proof. unfold delta2. Rtr. Req. field. Qed.

Theorem isotropic_sphere_closed_form lam mu dA r e quad :
  0 < r -> mu <> 0 -> lam + 2 * mu <> 0 ->
  8 * dA * wsum quad = 4 * PI ->
  eEllipsoid Rops (isoC4 lam mu) (scale2 Rops e delta2) (S_of (cramer Rops) dA r r r (isoC4 lam mu) quad) (V_of r r r)
  = 2 * mu * (3 * lam + 2 * mu) / (lam + 2 * mu) * e ^ 2 * V_of r r r.
Proof.
  intros Hr Hm Hl Hq. rewrite energy_dilatation_iso.
  assert (TS : sum3 Rops (fun k => sum3 Rops (fun m => S_of (cramer Rops) dA r r r (isoC4 lam mu) quad k k m m))
               = (3 * lam + 2 * mu) / (lam + 2 * mu)).
  { unfold S_of, eshelbyS.
    transitivity (sum3 Rops (fun k => sum3 Rops (fun m =>
       Sijmn Rops (isoC4 lam mu) (memo4 Rops (Dijkl Rops (cramer Rops) PI dA (r, r, r) (isoC4 lam mu) (nodes_of r r r quad))) k k m m))).
    { apply sum3_ext; intros k Hk. apply sum3_ext; intros m Hm'. apply memo4_3; assumption. }
    rewrite trace_S_iso.
    transitivity (- (3 * lam + 2 * mu) * sum3 Rops (fun k => sum3 Rops (fun l =>
       Dijkl Rops (cramer Rops) PI dA (r, r, r) (isoC4 lam mu) (nodes_of r r r quad) k l l k))).
    { apply (f_equal (Rmult (- (3 * lam + 2 * mu)))). apply sum3_ext; intros k Hk. apply sum3_ext; intros l Hl'. apply memo4_3; assumption. }
    unfold Dijkl, Dscale.
    transitivity (- (3 * lam + 2 * mu) * (- (r * r * r) / (4 * PI) * sum3 Rops (fun k => sum3 Rops (fun l =>
       sphInt Rops (cramer Rops) dA (isoC4 lam mu) (nodes_of r r r quad) k l l k)))).
    { apply (f_equal (Rmult (- (3 * lam + 2 * mu)))).
      rewrite (sum3_ext _ (fun k => sum3 Rops (fun l => - (r * r * r) / (4 * PI) * sphInt Rops (cramer Rops) dA (isoC4 lam mu) (nodes_of r r r quad) k l l k))).
      - cbv [sum3 T add mul Rops]. ring.
      - intros k Hk. apply sum3_ext; intros l Hl'. rewrite memo4_3 by assumption.
        cbv [prod3 neg c0 c4_ T zero sub mul dvd ofZ Rops]. unfold Rdiv. ring. }
    unfold sphInt. rewrite trace_sphSum by (try assumption; apply sphere_nodes_unit).
    rewrite sphere_nodes_sum by assumption.
    pose proof PI_RGT_0 as HP.
    revert Hq. generalize (wsum quad). intros W Hq.
    assert (E8 : 8 * W * dA = 4 * PI) by lra.
    Req. transitivity ((3 * lam + 2 * mu) * (8 * W * dA) / (4 * PI * (lam + 2 * mu))); [field; repeat split; lra|].
    rewrite E8. field. split; lra. }
  rewrite TS. unfold V_of. Req. field. assumption.
Qed.

Corollary isotropic_sphere_closed_form_G_nu Gm nu dA r e quad :
  0 < r -> 0 < Gm -> -1 < nu < 1 / 2 ->
  8 * dA * wsum quad = 4 * PI ->
  eEllipsoid Rops (isoC4 (2 * Gm * nu / (1 - 2 * nu)) Gm) (scale2 Rops e delta2)
             (S_of (cramer Rops) dA r r r (isoC4 (2 * Gm * nu / (1 - 2 * nu)) Gm) quad) (V_of r r r)
  = 2 * Gm * (1 + nu) / (1 - nu) * e ^ 2 * V_of r r r.
Proof.
  intros Hr HG Hn Hq.
  assert (P : 0 < Gm * (1 - nu)) by (apply Rmult_lt_0_compat; lra).
  assert (L2 : 2 * Gm * nu / (1 - 2 * nu) + 2 * Gm = 2 * Gm * (1 - nu) / (1 - 2 * nu)) by (field; lra).
  rewrite isotropic_sphere_closed_form; try assumption; try lra.
  - Req. field. repeat split; lra.
  - rewrite L2. apply Rgt_not_eq. apply Rdiv_lt_0_compat; lra.
Qed.
