(* C16 - Elastic strain energy is a positive, volume-proportional quadratic form.
   This file contains ONLY the property theorems about the hand-written model (Model.v, real-number
   instance); each is closed by [exact] of a lemma of Proofs.v and followed by Print Assumptions.
   The theorems about the text generated from the source are in run/GenProperties.v.

   Conventions: tensors are functions of their indices, statements are about indices in range
   ([eq4], [eq2 n]); symmetry hypotheses ([sym2], [minor_l], [minor_r], [major]) are in range too.
   np.linalg.inv is an oracle: [inv6] / [inv3] are arbitrary functions and the theorems state what
   they need of them (a left inverse of the array they were given). *)
From Coq Require Import Reals List Arith.
Require Import Kawin.Common.Ops Kawin.Common.Vec Kawin.C16.Model Kawin.C16.Proofs.
Open Scope R_scope.

(* tensor-rank conversions round-trip *)
Theorem C16_voigt_roundtrip_6x6 (c2 : nat -> nat -> R) I J : (I < 6)%nat -> (J < 6)%nat ->
  convert4To2 Rops (convert2To4 Rops c2) I J = c2 I J.
Proof. exact (voigt_roundtrip_6 c2 I J). Qed.
Print Assumptions C16_voigt_roundtrip_6x6.

Theorem C16_voigt_roundtrip_4th (c4 : nat -> nat -> nat -> nat -> R) : minor_l c4 -> minor_r c4 ->
  eq4 (convert2To4 Rops (convert4To2 Rops c4)) c4.
Proof. exact (voigt_roundtrip_4 c4). Qed.
Print Assumptions C16_voigt_roundtrip_4th.

Theorem C16_vector_roundtrip_6 (v : nat -> R) I : (I < 6)%nat -> rank2ToVec Rops (vecTo2 Rops v) I = v I.
Proof. exact (vec_roundtrip_6 v I). Qed.
Print Assumptions C16_vector_roundtrip_6.

Theorem C16_vector_roundtrip_3x3 (e : nat -> nat -> R) : sym2 e -> eq2 3 (vecTo2 Rops (rank2ToVec Rops e)) e.
Proof. exact (vec_roundtrip_3 e). Qed.
Print Assumptions C16_vector_roundtrip_3x3.

(* the hard-coded 3x3 inverse: cofactors over determinant = inverse of the transpose, the inverse of a
   symmetric matrix (the Ohm term of a stiffness tensor with the usual symmetries is symmetric) *)
Theorem C16_cramer_transpose_inverse (m : nat -> nat -> R) : det3 m <> 0 ->
  eq2 3 (mm3 Rops (transp (cramer Rops m)) m) (eye Rops) /\ eq2 3 (mm3 Rops m (transp (cramer Rops m))) (eye Rops).
Proof. exact (cramer_transpose_inverse m). Qed.
Print Assumptions C16_cramer_transpose_inverse.

Theorem C16_cramer_inverse (m : nat -> nat -> R) : sym3 m -> det3 m <> 0 ->
  eq2 3 (mm3 Rops (cramer Rops m) m) (eye Rops) /\ eq2 3 (mm3 Rops m (cramer Rops m)) (eye Rops).
Proof. exact (cramer_inverse m). Qed.
Print Assumptions C16_cramer_inverse.

Theorem C16_ohm_term_symmetric (c4 : nat -> nat -> nat -> nat -> R) n : major c4 -> minor_l c4 -> minor_r c4 ->
  sym3 (memo2 Rops 3 (invOhm Rops c4 n)).
Proof. exact (invOhm_sym c4 n). Qed.
Print Assumptions C16_ohm_term_symmetric.

(* either 3x3 inversion routine: any routine that returns a left inverse of the Ohm term of every grid
   point yields the same Eshelby tensor as the hard-coded one (hence the same energies) *)
Theorem C16_inverse_routines_agree inv3 dA a b c (c4 : nat -> nat -> nat -> nat -> R) quad :
  major c4 -> minor_l c4 -> minor_r c4 -> Forall (good_inverse inv3 c4) (nodes_of a b c quad) ->
  S_of inv3 dA a b c c4 quad = S_of (cramer Rops) dA a b c c4 quad.
Proof. exact (inverse_routines_agree_S inv3 dA a b c c4 quad). Qed.
Print Assumptions C16_inverse_routines_agree.

(* scaling the eigenstrain by s scales every energy by s^2 (any Eshelby tensor S, any stiffness, any inverse oracle) *)
Theorem C16_energy_quadratic inv6 (cM4 cP4 S : nat -> nat -> nat -> nat -> R) (cM2 cP2 e : nat -> nat -> R) s V :
  eEllipsoid Rops cM4 (scale2 Rops s e) S V = s ^ 2 * eEllipsoid Rops cM4 e S V /\
  eEllipsoid2 Rops cM2 (scale2 Rops s e) S V = s ^ 2 * eEllipsoid2 Rops cM2 e S V /\
  eBohm Rops inv6 cM4 cP4 (scale2 Rops s e) S V = s ^ 2 * eBohm Rops inv6 cM4 cP4 e S V /\
  eBohm2 Rops inv6 cM2 cP2 (scale2 Rops s e) S V = s ^ 2 * eBohm2 Rops inv6 cM2 cP2 e S V.
Proof. exact (energy_quadratic inv6 cM4 cP4 S cM2 cP2 e s V). Qed.
Print Assumptions C16_energy_quadratic.

(* scaling the three radii by s > 0 leaves the Eshelby tensor unchanged and scales every energy by s^3,
   for ANY quadrature (list of (phi, theta, weight)), any differential area, any inverse routines *)
Theorem C16_eshelby_tensor_size_invariant inv3 dA a b c s c4 quad : 0 < a -> 0 < b -> 0 < c -> 0 < s ->
  S_of inv3 dA (s * a) (s * b) (s * c) c4 quad = S_of inv3 dA a b c c4 quad.
Proof. exact (S_size_invariant inv3 dA a b c s c4 quad). Qed.
Print Assumptions C16_eshelby_tensor_size_invariant.

Theorem C16_energy_cubic_in_size inv3 inv6 dA a b c s (cM4 cP4 : nat -> nat -> nat -> nat -> R) (cM2 cP2 e : nat -> nat -> R) quad :
  0 < a -> 0 < b -> 0 < c -> 0 < s ->
  let S := S_of inv3 dA a b c cM4 quad in
  let S' := S_of inv3 dA (s * a) (s * b) (s * c) cM4 quad in
  let V := V_of a b c in
  let V' := V_of (s * a) (s * b) (s * c) in
  eEllipsoid Rops cM4 e S' V' = s ^ 3 * eEllipsoid Rops cM4 e S V /\
  eEllipsoid2 Rops cM2 e S' V' = s ^ 3 * eEllipsoid2 Rops cM2 e S V /\
  eBohm Rops inv6 cM4 cP4 e S' V' = s ^ 3 * eBohm Rops inv6 cM4 cP4 e S V /\
  eBohm2 Rops inv6 cM2 cP2 e S' V' = s ^ 3 * eBohm2 Rops inv6 cM2 cP2 e S V.
Proof. exact (energy_cubic_in_size inv3 inv6 dA a b c s cM4 cP4 cM2 cP2 e quad). Qed.
Print Assumptions C16_energy_cubic_in_size.

(* 6x6 and fourth-rank computation of the homogeneous energy agree (all symmetric eigenstrains) *)
Theorem C16_rank2_equals_rank4 (cM4 S : nat -> nat -> nat -> nat -> R) (cM2 e : nat -> nat -> R) V :
  eq2 6 cM2 (convert4To2 Rops cM4) -> minor_l cM4 -> minor_r cM4 -> minor_l S -> minor_r S -> sym2 e ->
  eEllipsoid2 Rops cM2 e S V = eEllipsoid Rops cM4 e S V.
Proof. exact (rank2_equals_rank4 cM4 S cM2 e V). Qed.
Print Assumptions C16_rank2_equals_rank4.

(* identical precipitate and matrix stiffness: the inhomogeneous energy is the homogeneous one
   (all symmetric eigenstrains; np.linalg.inv only has to return a left inverse of its argument) *)
Theorem C16_bohm_reduces_to_homogeneous (inv6 : (nat -> nat -> R) -> nat -> nat -> R)
        (cM4 S : nat -> nat -> nat -> nat -> R) (e : nat -> nat -> R) V :
  minor_l cM4 -> minor_r cM4 -> sym2 e ->
  (forall m, eq2 6 m (op cM4) -> eq2 6 (mm6 Rops (inv6 m) m) (eye Rops)) ->
  eBohm Rops inv6 cM4 cM4 e S V = eEllipsoid Rops cM4 e S V.
Proof. exact (bohm_reduces_to_homogeneous inv6 cM4 S e V). Qed.
Print Assumptions C16_bohm_reduces_to_homogeneous.

(* rotation then stiffness = stiffness then rotation (every field of the object, any previous state) *)
Theorem C16_rotation_order (s : se Rops) (c : nat -> nat -> nat -> nat -> R) (r : nat -> nat -> R) :
  any4 Rops c = true ->
  se_eq (setRotM Rops (setMatrix4 Rops s c) r) (setMatrix4 Rops (setRotM Rops s r) c).
Proof. exact (rotation_order_matrix s c r). Qed.
Print Assumptions C16_rotation_order.

Theorem C16_rotation_order_precipitate (s : se Rops) (c : nat -> nat -> nat -> nat -> R) (r : nat -> nat -> R) :
  se_eq (setRotP Rops (setPrec4 Rops s c) r) (setPrec4 Rops (setRotP Rops s r) c).
Proof. exact (rotation_order_precipitate s c r). Qed.
Print Assumptions C16_rotation_order_precipitate.

(* an isotropic stiffness is unchanged by any rotation: the parameters the energies are computed from,
   hence every energy, do not depend on the orientation of the matrix axes *)
Theorem C16_isotropic_rotation_invariant (r : nat -> nat -> R) lam mu : orthogonal r ->
  eq4 (rot4 Rops r (isoC4 lam mu)) (isoC4 lam mu).
Proof. exact (isotropic_rotation_invariant r lam mu). Qed.
Print Assumptions C16_isotropic_rotation_invariant.

Theorem C16_isotropic_matrix_orientation (r r' : nat -> nat -> R) lam mu : orthogonal r -> orthogonal r' ->
  memo4 Rops (rot4 Rops r (isoC4 lam mu)) = memo4 Rops (rot4 Rops r' (isoC4 lam mu)).
Proof. exact (isotropic_matrix_orientation r r' lam mu). Qed.
Print Assumptions C16_isotropic_matrix_orientation.
