(* C16 - lemmas about the real-number instance of the elastic-energy model. *)
From Coq Require Import Reals List Bool ZArith Arith Lia Lra Psatz.
Require Import Kawin.Common.Ops Kawin.Common.Vec Kawin.C16.Model.
Import ListNotations.
Open Scope R_scope.

Tactic Notation "lia" := (cbn [T Rops] in *; Lia.lia).
Tactic Notation "lra" := (cbn [T Rops] in *; Lra.lra).

Notation t4 := (nat -> nat -> nat -> nat -> R).
Notation t2 := (nat -> nat -> R).

(* indices in range, by cases *)
Ltac idx3 i := destruct i as [|[|[|i]]]; [| | |exfalso; lia].
Ltac idx6 i := destruct i as [|[|[|[|[|[|i]]]]]]; [| | | | | |exfalso; lia].

(* unfold the model down to real arithmetic *)
Ltac Runf :=
  cbv [c0 c1 c2_ c3_ c4_ c8_ neghalf neg sum3 sum6 mm6 mv6 dot6 eye madd msub colscale coldiv vscale mm3
       mul42 mul44 add4 sub4 sub2 scale2 wv convert2To4 convert4To2 vecTo2 rank2ToVec vidx vfst vsnd
       strainEnergy volume prod3
       T zero one add sub mul dvd ofZ Rops Nat.eqb Nat.ltb Nat.leb Nat.sub] in *.

(* ---- tabulation is transparent on indices in range ---------------------------------------- *)
Lemma memo1_6 (f : nat -> R) i : (i < 6)%nat -> memo1 Rops 6 f i = f i.
Proof. intros H. idx6 i; reflexivity. Qed.
Lemma memo2_3 (f : t2) i j : (i < 3)%nat -> (j < 3)%nat -> memo2 Rops 3 f i j = f i j.
Proof. intros Hi Hj. idx3 i; idx3 j; reflexivity. Qed.
Lemma memo2_6 (f : t2) i j : (i < 6)%nat -> (j < 6)%nat -> memo2 Rops 6 f i j = f i j.
Proof. intros Hi Hj. idx6 i; idx6 j; reflexivity. Qed.
Lemma memo4_3 (f : t4) i j k l : (i < 3)%nat -> (j < 3)%nat -> (k < 3)%nat -> (l < 3)%nat ->
  memo4 Rops f i j k l = f i j k l.
Proof. intros Hi Hj Hk Hl. idx3 i; idx3 j; idx3 k; idx3 l; reflexivity. Qed.

(* pointwise equality on the index range *)
Definition eq4 (a b : t4) : Prop := forall i j k l, (i < 3)%nat -> (j < 3)%nat -> (k < 3)%nat -> (l < 3)%nat -> a i j k l = b i j k l.
Definition eq2 (n : nat) (a b : t2) : Prop := forall i j, (i < n)%nat -> (j < n)%nat -> a i j = b i j.
Definition eq1 (n : nat) (a b : nat -> R) : Prop := forall i, (i < n)%nat -> a i = b i.

Lemma memo4_eq f : eq4 (memo4 Rops f) f.
Proof. intros i j k l; apply memo4_3. Qed.
Lemma memo2_eq3 f : eq2 3 (memo2 Rops 3 f) f.
Proof. intros i j; apply memo2_3. Qed.
Lemma memo2_eq6 f : eq2 6 (memo2 Rops 6 f) f.
Proof. intros i j; apply memo2_6. Qed.

(* sums only read indices in range *)
Lemma sum3_ext f g : (forall k, (k < 3)%nat -> f k = g k) -> sum3 Rops f = sum3 Rops g.
Proof. intros H. unfold sum3. rewrite (H 0%nat), (H 1%nat), (H 2%nat) by lia. reflexivity. Qed.
Lemma sum6_ext f g : (forall k, (k < 6)%nat -> f k = g k) -> sum6 Rops f = sum6 Rops g.
Proof. intros H. unfold sum6. rewrite (H 0%nat), (H 1%nat), (H 2%nat), (H 3%nat), (H 4%nat), (H 5%nat) by lia. reflexivity. Qed.

(* ---- symmetries ------------------------------------------------------------------------------- *)
Definition sym2 (e : t2) : Prop := forall i j, (i < 3)%nat -> (j < 3)%nat -> e i j = e j i.
Definition minor_l (c : t4) : Prop :=          (* first pair *)
  forall i j k l, (i < 3)%nat -> (j < 3)%nat -> (k < 3)%nat -> (l < 3)%nat -> c i j k l = c j i k l.
Definition minor_r (c : t4) : Prop :=          (* second pair *)
  forall i j k l, (i < 3)%nat -> (j < 3)%nat -> (k < 3)%nat -> (l < 3)%nat -> c i j k l = c i j l k.
Definition major (c : t4) : Prop :=
  forall i j k l, (i < 3)%nat -> (j < 3)%nat -> (k < 3)%nat -> (l < 3)%nat -> c i j k l = c k l i j.

(* ---- Voigt maps -------------------------------------------------------------------------------- *)
Lemma vidx_v I : (I < 6)%nat -> vidx (vfst I) (vsnd I) = I.
Proof. intros H. idx6 I; reflexivity. Qed.
Lemma vidx_lt i j : (i < 3)%nat -> (j < 3)%nat -> (vidx i j < 6)%nat.
Proof. intros Hi Hj. idx3 i; idx3 j; cbv; lia. Qed.
Lemma vidx_sym i j : (i < 3)%nat -> (j < 3)%nat -> vidx i j = vidx j i.
Proof. intros Hi Hj. idx3 i; idx3 j; reflexivity. Qed.
Lemma vfst_lt I : (vfst I < 3)%nat. Proof. destruct I as [|[|[|[|[|[|I]]]]]]; cbv; lia. Qed.
Lemma vsnd_lt I : (vsnd I < 3)%nat. Proof. destruct I as [|[|[|[|[|[|I]]]]]]; cbv; lia. Qed.
(* (vfst, vsnd) of vidx is the pair itself or the swapped pair *)
Lemma v_vidx i j : (i < 3)%nat -> (j < 3)%nat ->
  (vfst (vidx i j) = i /\ vsnd (vidx i j) = j) \/ (vfst (vidx i j) = j /\ vsnd (vidx i j) = i).
Proof. intros Hi Hj. idx3 i; idx3 j; cbv; auto. Qed.

Lemma voigt_roundtrip_6 (c2 : t2) I J : (I < 6)%nat -> (J < 6)%nat ->
  convert4To2 Rops (convert2To4 Rops c2) I J = c2 I J.
Proof. intros HI HJ. unfold convert4To2, convert2To4. rewrite !vidx_v by assumption. reflexivity. Qed.

Lemma voigt_roundtrip_4 (c4 : t4) : minor_l c4 -> minor_r c4 ->
  eq4 (convert2To4 Rops (convert4To2 Rops c4)) c4.
Proof.
  intros Hl Hr i j k l Hi Hj Hk Hl'. unfold convert4To2, convert2To4.
  idx3 i; idx3 j; idx3 k; idx3 l; cbv [vidx vfst vsnd Nat.eqb Nat.sub];
    first [reflexivity | apply Hl; lia | apply Hr; lia | (etransitivity; [apply Hl | apply Hr]; lia)].
Qed.

Lemma convert2To4_minor_l (c2 : t2) i j k l : (i < 3)%nat -> (j < 3)%nat ->
  convert2To4 Rops c2 i j k l = convert2To4 Rops c2 j i k l.
Proof. intros Hi Hj. unfold convert2To4. rewrite (vidx_sym i j) by assumption. reflexivity. Qed.
Lemma convert2To4_minor_r (c2 : t2) i j k l : (k < 3)%nat -> (l < 3)%nat ->
  convert2To4 Rops c2 i j k l = convert2To4 Rops c2 i j l k.
Proof. intros Hi Hj. unfold convert2To4. rewrite (vidx_sym k l) by assumption. reflexivity. Qed.

Lemma vec_roundtrip_6 (v : nat -> R) I : (I < 6)%nat -> rank2ToVec Rops (vecTo2 Rops v) I = v I.
Proof. intros H. unfold rank2ToVec, vecTo2. rewrite vidx_v by assumption. reflexivity. Qed.
Lemma vec_roundtrip_3 (e : t2) : sym2 e -> eq2 3 (vecTo2 Rops (rank2ToVec Rops e)) e.
Proof.
  intros Hs i j Hi Hj. unfold rank2ToVec, vecTo2.
  idx3 i; idx3 j; cbv [vidx vfst vsnd Nat.eqb Nat.sub]; first [reflexivity | apply Hs; lia].
Qed.

(* ---- _ohm_quickInverse ------------------------------------------------------------------------- *)
Definition det3 (m : t2) : R :=
  m 0%nat 0%nat * (m 1%nat 1%nat * m 2%nat 2%nat - m 1%nat 2%nat * m 2%nat 1%nat)
  + m 0%nat 1%nat * (m 1%nat 2%nat * m 2%nat 0%nat - m 1%nat 0%nat * m 2%nat 2%nat)
  + m 0%nat 2%nat * (m 1%nat 0%nat * m 2%nat 1%nat - m 1%nat 1%nat * m 2%nat 0%nat).
Definition sym3 (m : t2) : Prop :=
  m 0%nat 1%nat = m 1%nat 0%nat /\ m 0%nat 2%nat = m 2%nat 0%nat /\ m 1%nat 2%nat = m 2%nat 1%nat.
Definition transp (m : t2) : t2 := fun i j => m j i.

Ltac Req := match goal with |- @eq _ ?a ?b => change (@eq R a b) end.
Ltac Rcramer := cbv beta iota zeta delta [cramer mm3 sum3 eye transp det3 c0 c1 T zero one add sub mul dvd Rops Nat.eqb] in *; Req.

(* what the code returns is the matrix of cofactors over the determinant: the inverse of the TRANSPOSE *)
Lemma cramer_transpose_inverse (m : t2) : det3 m <> 0 ->
  eq2 3 (mm3 Rops (transp (cramer Rops m)) m) (eye Rops) /\ eq2 3 (mm3 Rops m (transp (cramer Rops m))) (eye Rops).
Proof.
  intros Hd. split; intros i j Hi Hj; idx3 i; idx3 j; Rcramer; field; exact Hd.
Qed.

(* ... hence the inverse for a symmetric matrix (the Ohm term of an elastic tensor is symmetric) *)
Lemma cramer_inverse (m : t2) : sym3 m -> det3 m <> 0 ->
  eq2 3 (mm3 Rops (cramer Rops m) m) (eye Rops) /\ eq2 3 (mm3 Rops m (cramer Rops m)) (eye Rops).
Proof.
  intros (H1 & H2 & H3) Hd. split; intros i j Hi Hj; idx3 i; idx3 j; Rcramer;
    rewrite ?H1, ?H2, ?H3 in *; field; exact Hd.
Qed.

(* a left inverse of an invertible 3x3 matrix is THE inverse: any other routine returns the same *)
Lemma left_inverse_unique3 (x y m : t2) :
  eq2 3 (mm3 Rops x m) (eye Rops) -> eq2 3 (mm3 Rops m y) (eye Rops) -> eq2 3 x y.
Proof.
  intros Hx Hy i j Hi Hj.
  (* x = x (m y) = (x m) y = y *)
  assert (A : x i j = sum3 Rops (fun k => x i k * eye Rops k j)).
  { idx3 j; cbv [sum3 eye c0 c1 T zero one add mul Rops Nat.eqb]; Req; ring. }
  rewrite A.
  rewrite (sum3_ext _ (fun k => x i k * mm3 Rops m y k j)) by (intros k Hk; rewrite Hy by assumption; reflexivity).
  assert (B : sum3 Rops (fun k => x i k * mm3 Rops m y k j) = sum3 Rops (fun l => mm3 Rops x m i l * y l j)).
  { cbv [sum3 mm3 T add mul Rops]. Req. ring. }
  rewrite B.
  rewrite (sum3_ext _ (fun l => eye Rops i l * y l j)) by (intros k Hk; rewrite Hx by assumption; reflexivity).
  idx3 i; cbv [sum3 eye c0 c1 T zero one add mul Rops Nat.eqb]; Req; ring.
Qed.

Lemma inverse_routines_agree (inv3 : t2 -> t2) (m : t2) : sym3 m -> det3 m <> 0 ->
  eq2 3 (mm3 Rops (inv3 m) m) (eye Rops) -> eq2 3 (inv3 m) (cramer Rops m).
Proof.
  intros Hs Hd Hl. apply (left_inverse_unique3 _ _ m Hl). apply cramer_inverse; assumption.
Qed.

(* ---- linear algebra on index functions ---------------------------------------------------------- *)
Ltac Rsum := cbv beta iota zeta delta [sum3 sum6 c0 c1 c2_ c3_ c4_ c8_ neghalf neg T zero one add sub mul dvd ofZ Rops] in *.

Lemma mul42_ext (a a' : t4) (b b' : t2) i j :
  (forall k l, (k < 3)%nat -> (l < 3)%nat -> a i j k l = a' i j k l) -> eq2 3 b b' ->
  mul42 Rops a b i j = mul42 Rops a' b' i j.
Proof.
  intros Ha Hb. unfold mul42. apply sum3_ext; intros k Hk. apply sum3_ext; intros l Hl.
  rewrite Ha, Hb by assumption. reflexivity.
Qed.
Lemma mul44_ext (a a' b b' : t4) i j k l : (k < 3)%nat -> (l < 3)%nat ->
  (forall m n, (m < 3)%nat -> (n < 3)%nat -> a i j m n = a' i j m n) -> eq4 b b' ->
  mul44 Rops a b i j k l = mul44 Rops a' b' i j k l.
Proof.
  intros Hk Hl Ha Hb. unfold mul44. apply sum3_ext; intros m Hm. apply sum3_ext; intros n Hn.
  rewrite Ha, Hb by assumption. reflexivity.
Qed.
Lemma mul42_scale (a : t4) (b : t2) s i j : mul42 Rops a (scale2 Rops s b) i j = s * mul42 Rops a b i j.
Proof. unfold mul42, scale2. Rsum. Req. ring. Qed.
Lemma mul42_sub (a : t4) (b c : t2) i j : mul42 Rops a (sub2 Rops b c) i j = mul42 Rops a b i j - mul42 Rops a c i j.
Proof. unfold mul42, sub2. Rsum. Req. ring. Qed.
Lemma mul42_assoc (a b : t4) (e : t2) i j :
  mul42 Rops (mul44 Rops a b) e i j = mul42 Rops a (mul42 Rops b e) i j.
Proof. unfold mul42, mul44. Rsum. Req. ring. Qed.

Lemma strainEnergy_ext (a a' b b' : t2) V : eq2 3 a a' -> eq2 3 b b' ->
  strainEnergy Rops a b V = strainEnergy Rops a' b' V.
Proof.
  intros Ha Hb. unfold strainEnergy. f_equal. apply sum3_ext; intros i Hi. apply sum3_ext; intros j Hj.
  rewrite Ha, Hb by assumption. reflexivity.
Qed.
Lemma strainEnergy_scale (a b : t2) s V :
  strainEnergy Rops (scale2 Rops s a) (scale2 Rops s b) V = s * s * strainEnergy Rops a b V.
Proof. unfold strainEnergy, scale2. Rsum. Req. ring. Qed.
Lemma strainEnergy_scaleV (a b : t2) s V :
  strainEnergy Rops a b (s * V) = s * strainEnergy Rops a b V.
Proof. unfold strainEnergy. Rsum. Req. ring. Qed.

Lemma mv6_ext (a a' : t2) (v v' : nat -> R) i : (forall k, (k < 6)%nat -> a i k = a' i k) -> eq1 6 v v' ->
  mv6 Rops a v i = mv6 Rops a' v' i.
Proof. intros Ha Hv. unfold mv6. apply sum6_ext; intros k Hk. rewrite Ha, Hv by assumption. reflexivity. Qed.
Lemma mm6_ext (a a' b b' : t2) i j : (j < 6)%nat -> (forall k, (k < 6)%nat -> a i k = a' i k) -> eq2 6 b b' ->
  mm6 Rops a b i j = mm6 Rops a' b' i j.
Proof. intros Hj Ha Hb. unfold mm6. apply sum6_ext; intros k Hk. rewrite Ha, Hb by assumption. reflexivity. Qed.
Lemma dot6_ext (u u' v v' : nat -> R) : eq1 6 u u' -> eq1 6 v v' -> dot6 Rops u v = dot6 Rops u' v'.
Proof. intros Hu Hv. unfold dot6. apply sum6_ext; intros k Hk. rewrite Hu, Hv by assumption. reflexivity. Qed.
Lemma mv6_scale (a : t2) (v : nat -> R) s i : mv6 Rops a (fun k => s * v k) i = s * mv6 Rops a v i.
Proof. unfold mv6. Rsum. Req. ring. Qed.
Lemma mv6_assoc (a b : t2) (v : nat -> R) i : mv6 Rops (mm6 Rops a b) v i = mv6 Rops a (mv6 Rops b v) i.
Proof. unfold mv6, mm6. Rsum. Req. ring. Qed.
Lemma mm6_assoc (a b c : t2) i j : mm6 Rops (mm6 Rops a b) c i j = mm6 Rops a (mm6 Rops b c) i j.
Proof. unfold mm6. Rsum. Req. ring. Qed.
Lemma mm6_eye_l (a : t2) i j : (i < 6)%nat -> mm6 Rops (eye Rops) a i j = a i j.
Proof. intros Hi. idx6 i; unfold mm6, eye; cbv [Nat.eqb]; Rsum; Req; ring. Qed.
Lemma mm6_eye_r (a : t2) i j : (j < 6)%nat -> mm6 Rops a (eye Rops) i j = a i j.
Proof. intros Hi. idx6 j; unfold mm6, eye; cbv [Nat.eqb]; Rsum; Req; ring. Qed.
Lemma mv6_eye (v : nat -> R) i : (i < 6)%nat -> mv6 Rops (eye Rops) v i = v i.
Proof. intros Hi. idx6 i; unfold mv6, eye; cbv [Nat.eqb]; Rsum; Req; ring. Qed.

(* ---- the energies are quadratic in the eigenstrain ----------------------------------------------- *)
(* stress maps  e |-> a : (memo (b : e))  and  e |-> a : memo (b : e - e)  are linear *)
Lemma lin_a_memo_b (a b : t4) (e : t2) s i j :
  mul42 Rops a (memo2 Rops 3 (mul42 Rops b (scale2 Rops s e))) i j
  = s * mul42 Rops a (memo2 Rops 3 (mul42 Rops b e)) i j.
Proof.
  rewrite <- mul42_scale. apply mul42_ext; [reflexivity|].
  intros k l Hk Hl. unfold scale2 at 2. rewrite !memo2_3 by assumption. apply mul42_scale.
Qed.

Lemma eEllipsoid_quadratic (cM4 S : t4) (e : t2) s V :
  eEllipsoid Rops cM4 (scale2 Rops s e) S V = s * s * eEllipsoid Rops cM4 e S V.
Proof.
  unfold eEllipsoid. rewrite <- strainEnergy_scale.
  apply strainEnergy_ext; [|intros i j _ _; reflexivity].
  intros i j Hi Hj. unfold scale2 at 3. rewrite <- mul42_scale.
  apply mul42_ext; [reflexivity|]. intros k l Hk Hl.
  unfold scale2 at 3. rewrite !memo2_3 by assumption. unfold sub2. rewrite mul42_scale. unfold scale2. Rsum. Req. ring.
Qed.

Lemma dot6_scale (v w u : nat -> R) s :
  dot6 Rops (vscale Rops (fun k => s * v k) w) (fun i => s * u i) = s * s * dot6 Rops (vscale Rops v w) u.
Proof. unfold dot6, vscale. Rsum. Req. ring. Qed.

Lemma eEllipsoid2_quadratic (cM2 : t2) (S : t4) (e : t2) s V :
  eEllipsoid2 Rops cM2 (scale2 Rops s e) S V = s * s * eEllipsoid2 Rops cM2 e S V.
Proof.
  unfold eEllipsoid2. cbv zeta.
  change (rank2ToVec Rops (scale2 Rops s e)) with (fun k => s * rank2ToVec Rops e k).
  set (M := memo2 Rops 6 _).
  rewrite (dot6_ext _ (vscale Rops (fun k => s * rank2ToVec Rops e k) (wv Rops)) _ (fun i => s * mv6 Rops M (rank2ToVec Rops e) i)).
  - rewrite dot6_scale. Rsum. Req. ring.
  - intros i Hi; reflexivity.
  - intros i Hi; apply mv6_scale.
Qed.

Lemma eBohm_tail_quadratic (invTerm cM4 cP4 S : t4) (e : t2) s V :
  eBohm_tail Rops invTerm cM4 cP4 (scale2 Rops s e) S V = s * s * eBohm_tail Rops invTerm cM4 cP4 e S V.
Proof.
  unfold eBohm_tail. cbv zeta. rewrite <- strainEnergy_scale.
  apply strainEnergy_ext; [|intros i j _ _; reflexivity].
  intros i j Hi Hj. unfold sub2. rewrite !lin_a_memo_b. unfold scale2. Rsum. Req. ring.
Qed.
Lemma eBohm_quadratic inv4 (cM4 cP4 S : t4) (e : t2) s V :
  eBohm_with Rops inv4 cM4 cP4 (scale2 Rops s e) S V = s * s * eBohm_with Rops inv4 cM4 cP4 e S V.
Proof. unfold eBohm_with. apply eBohm_tail_quadratic. Qed.

Lemma eBohm2_tail_quadratic (invTerm cM2 cP2 S2 : t2) (v w : nat -> R) s V :
  eBohm2_tail Rops invTerm cM2 cP2 S2 (fun k => s * v k) w V = s * s * eBohm2_tail Rops invTerm cM2 cP2 S2 v w V.
Proof.
  unfold eBohm2_tail. cbv zeta.
  set (M := memo2 Rops 6 (mm6 Rops invTerm cP2)). set (SM := memo2 Rops 6 (mm6 Rops S2 M)).
  assert (L : forall (A : t2) i, mv6 Rops cM2 (memo1 Rops 6 (mv6 Rops A (fun k => s * v k))) i
                                 = s * mv6 Rops cM2 (memo1 Rops 6 (mv6 Rops A v)) i).
  { intros A i. rewrite <- mv6_scale. apply mv6_ext; [reflexivity|]. intros k Hk.
    rewrite !memo1_6 by assumption. apply mv6_scale. }
  rewrite (dot6_ext _ (vscale Rops (fun k => s * v k) w) _
             (fun i => s * (mv6 Rops cM2 (memo1 Rops 6 (mv6 Rops SM v)) i - mv6 Rops cM2 (memo1 Rops 6 (mv6 Rops M v)) i))).
  - rewrite dot6_scale. Rsum. Req. ring.
  - intros i Hi; reflexivity.
  - intros i Hi. rewrite !L. Rsum. Req. ring.
Qed.
Lemma eBohm2_quadratic inv6 (cM2 cP2 : t2) (S : t4) (e : t2) s V :
  eBohm2 Rops inv6 cM2 cP2 (scale2 Rops s e) S V = s * s * eBohm2 Rops inv6 cM2 cP2 e S V.
Proof.
  unfold eBohm2. cbv zeta.
  change (rank2ToVec Rops (scale2 Rops s e)) with (fun k => s * rank2ToVec Rops e k).
  apply eBohm2_tail_quadratic.
Qed.

(* ---- a double contraction over a symmetric index pair is a weighted product of the 6x6 forms --------- *)
(* op a = a2 * w : the 6x6 array that acts on 6-vectors of tensor components *)
Definition op (a : t4) : t2 := colscale Rops (convert4To2 Rops a) (wv Rops).
Notation vec := (rank2ToVec Rops).

Ltac Rvoigt := cbv beta iota zeta delta [mul42 mul44 mv6 mm6 dot6 vscale op colscale coldiv convert4To2 convert2To4 rank2ToVec wv
                                          vfst vsnd vidx Nat.ltb Nat.leb Nat.eqb Nat.sub msub madd eye sub2 sub4 add4] in *.

(* sum over a symmetric pair (k,l) of f k l * g k l *)
Lemma pair_sum (f g : t2) :
  (forall k l, (k < 3)%nat -> (l < 3)%nat -> f k l = f l k) -> sym2 g ->
  sum3 Rops (fun k => sum3 Rops (fun l => f k l * g k l))
  = sum6 Rops (fun K => f (vfst K) (vsnd K) * wv Rops K * g (vfst K) (vsnd K)).
Proof.
  intros Hf Hg. Rvoigt. Rsum. Req.
  rewrite (Hf 1 0)%nat, (Hf 2 0)%nat, (Hf 2 1)%nat, (Hg 1 0)%nat, (Hg 2 0)%nat, (Hg 2 1)%nat by lia. ring.
Qed.

(* (a : e)  read at a Voigt position  =  (op a) (vec e) *)
Lemma contract42 (a : t4) (e : t2) i j : (i < 3)%nat -> (j < 3)%nat -> minor_r a -> sym2 e ->
  mul42 Rops a e i j = sum6 Rops (fun K => a i j (vfst K) (vsnd K) * wv Rops K * e (vfst K) (vsnd K)).
Proof.
  intros Hi Hj Ha He. unfold mul42. apply (pair_sum (fun k l => a i j k l)); [|assumption].
  intros k l Hk Hl. apply Ha; assumption.
Qed.
Lemma vec_contract42 (a : t4) (e : t2) I : (I < 6)%nat -> minor_r a -> sym2 e ->
  vec (mul42 Rops a e) I = mv6 Rops (op a) (vec e) I.
Proof.
  intros HI Ha He. unfold rank2ToVec at 1. rewrite contract42; auto using vfst_lt, vsnd_lt.
Qed.
(* the 6x6 form of a : b *)
Lemma voigt_contract44 (a b : t4) I J : (I < 6)%nat -> (J < 6)%nat -> minor_r a -> minor_l b ->
  convert4To2 Rops (mul44 Rops a b) I J = mm6 Rops (op a) (convert4To2 Rops b) I J.
Proof.
  intros HI HJ Ha Hb.
  change (sum3 Rops (fun m => sum3 Rops (fun n => (fun m n => a (vfst I) (vsnd I) m n) m n * (fun m n => b m n (vfst J) (vsnd J)) m n))
          = sum6 Rops (fun K => (fun m n => a (vfst I) (vsnd I) m n) (vfst K) (vsnd K) * wv Rops K * (fun m n => b m n (vfst J) (vsnd J)) (vfst K) (vsnd K))).
  apply pair_sum.
  - intros k l Hk Hl. apply Ha; auto using vfst_lt, vsnd_lt.
  - intros k l Hk Hl. apply Hb; auto using vfst_lt, vsnd_lt.
Qed.
Lemma op_contract44 (a b : t4) I J : (I < 6)%nat -> (J < 6)%nat -> minor_r a -> minor_l b ->
  op (mul44 Rops a b) I J = mm6 Rops (op a) (op b) I J.
Proof.
  intros HI HJ Ha Hb. unfold op at 1, colscale. rewrite voigt_contract44 by assumption.
  unfold op, colscale, mm6. Rsum. Req. ring.
Qed.
(* the full contraction of two symmetric tensors *)
Lemma contract22 (a b : t2) : sym2 a -> sym2 b ->
  sum3 Rops (fun i => sum3 Rops (fun j => a i j * b i j)) = dot6 Rops (vscale Rops (vec a) (wv Rops)) (vec b).
Proof.
  intros Ha Hb. rewrite (pair_sum a b) by assumption. reflexivity.
Qed.

(* symmetry is inherited *)
Lemma mul42_sym (a : t4) (e : t2) : minor_l a -> sym2 (mul42 Rops a e).
Proof.
  intros Ha i j Hi Hj. unfold mul42. apply sum3_ext; intros k Hk. apply sum3_ext; intros l Hl.
  rewrite (Ha i j k l) by assumption. reflexivity.
Qed.
Lemma mul44_minor_l (a b : t4) : minor_l a -> minor_l (mul44 Rops a b).
Proof.
  intros Ha i j k l Hi Hj Hk Hl. unfold mul44. apply sum3_ext; intros m Hm. apply sum3_ext; intros n Hn.
  rewrite (Ha i j m n) by assumption. reflexivity.
Qed.
Lemma mul44_minor_r (a b : t4) : minor_r b -> minor_r (mul44 Rops a b).
Proof.
  intros Hb i j k l Hi Hj Hk Hl. unfold mul44. apply sum3_ext; intros m Hm. apply sum3_ext; intros n Hn.
  rewrite (Hb m n k l) by assumption. reflexivity.
Qed.

(* ---- 6x6 and 4th rank variants of the homogeneous energy agree --------------------------------------- *)
Lemma mv6_msub_eye (a : t2) (v : nat -> R) J : (J < 6)%nat ->
  mv6 Rops (msub Rops a (eye Rops)) v J = mv6 Rops a v J - v J.
Proof. intros HJ. idx6 J; unfold mv6, msub, eye; cbv [Nat.eqb]; Rsum; Req; ring. Qed.
Lemma dot6_comm_w (a b w : nat -> R) : dot6 Rops (vscale Rops a w) b = dot6 Rops (vscale Rops b w) a.
Proof. unfold dot6, vscale. Rsum. Req. ring. Qed.
Lemma sub2_sym (a b : t2) : sym2 a -> sym2 b -> sym2 (sub2 Rops a b).
Proof. intros Ha Hb i j Hi Hj. unfold sub2. rewrite (Ha i j), (Hb i j) by assumption. reflexivity. Qed.

(* the stress of the homogeneous inclusion in 6-vector form *)
Lemma vec_stress_homogeneous (cM4 S : t4) (e : t2) I : (I < 6)%nat ->
  minor_r cM4 -> minor_l S -> minor_r S -> sym2 e ->
  vec (mul42 Rops cM4 (memo2 Rops 3 (sub2 Rops (mul42 Rops S e) e))) I
  = mv6 Rops (op cM4) (fun J => mv6 Rops (op S) (vec e) J - vec e J) I.
Proof.
  intros HI Hc HSl HSr He.
  transitivity (vec (mul42 Rops cM4 (sub2 Rops (mul42 Rops S e) e)) I).
  { unfold rank2ToVec. apply mul42_ext; [reflexivity|]. apply memo2_eq3. }
  rewrite vec_contract42; auto using sub2_sym, mul42_sym.
  apply mv6_ext; [reflexivity|]. intros J HJ.
  change (vec (sub2 Rops (mul42 Rops S e) e) J) with (vec (mul42 Rops S e) J - vec e J).
  rewrite vec_contract42 by assumption. reflexivity.
Qed.

Lemma rank2_equals_rank4 (cM4 S : t4) (cM2 : t2) (e : t2) V :
  eq2 6 cM2 (convert4To2 Rops cM4) -> minor_l cM4 -> minor_r cM4 -> minor_l S -> minor_r S -> sym2 e ->
  eEllipsoid2 Rops cM2 e S V = eEllipsoid Rops cM4 e S V.
Proof.
  intros H2 Hcl Hcr HSl HSr He. unfold eEllipsoid2, eEllipsoid, strainEnergy. cbv zeta. f_equal.
  rewrite contract22; [|apply mul42_sym; assumption|assumption].
  rewrite dot6_comm_w. apply dot6_ext; [|intros I HI; reflexivity]. intros I HI.
  unfold vscale. f_equal. symmetry.
  rewrite vec_stress_homogeneous by assumption. symmetry.
  (* left: mv6 (memo (mm6 (cM2 * w) (memo (op S) - eye))) (vec e) I *)
  transitivity (mv6 Rops (mm6 Rops (colscale Rops cM2 (wv Rops)) (msub Rops (memo2 Rops 6 (op S)) (eye Rops))) (vec e) I).
  { apply mv6_ext; [|intros k Hk; reflexivity]. intros k Hk. apply memo2_6; assumption. }
  rewrite mv6_assoc. apply mv6_ext.
  - intros k Hk. unfold op, colscale. rewrite H2 by assumption. reflexivity.
  - intros J HJ. rewrite mv6_msub_eye by assumption. f_equal.
    apply mv6_ext; [|intros k Hk; reflexivity]. intros k Hk. apply memo2_6; assumption.
Qed.

(* ---- the inhomogeneous (Bohm) energy reduces to the homogeneous one when cP = cM ----------------------- *)
Lemma wv_neq0 K : wv Rops K <> 0.
Proof. unfold wv. destruct (K <? 3)%nat; Rsum; lra. Qed.

Lemma vec_eq_sym (a b : t2) : sym2 a -> sym2 b -> eq1 6 (vec a) (vec b) -> eq2 3 a b.
Proof.
  intros Ha Hb H i j Hi Hj.
  assert (V0 := H 0%nat). assert (V1 := H 1%nat). assert (V2 := H 2%nat).
  assert (V3 := H 3%nat). assert (V4 := H 4%nat). assert (V5 := H 5%nat).
  unfold rank2ToVec in *. cbv [vfst vsnd] in *.
  idx3 i; idx3 j; first [apply V0 | apply V1 | apply V2 | apply V3 | apply V4 | apply V5
                        | (rewrite (Ha _ _), (Hb _ _) by lia; first [apply V3 | apply V4 | apply V5])]; lia.
Qed.

(* op of the repaired 4th rank inverse is what np.linalg.inv returned *)
Lemma op_invert4_of (x : t2) I J : (I < 6)%nat -> (J < 6)%nat -> op (invert4_of Rops x) I J = x I J.
Proof.
  intros HI HJ. unfold op, invert4_of, colscale. rewrite voigt_roundtrip_6 by assumption.
  rewrite memo2_6 by assumption. unfold coldiv. Rsum. Req. field. apply wv_neq0.
Qed.
Lemma invert4_of_minor_l (x : t2) : minor_l (invert4_of Rops x).
Proof. intros i j k l Hi Hj Hk Hl. unfold invert4_of. apply convert2To4_minor_l; assumption. Qed.
Lemma invert4_of_minor_r (x : t2) : minor_r (invert4_of Rops x).
Proof. intros i j k l Hi Hj Hk Hl. unfold invert4_of. apply convert2To4_minor_r; assumption. Qed.

Lemma memo4_minor_l (a : t4) : minor_l a -> minor_l (memo4 Rops a).
Proof. intros H i j k l Hi Hj Hk Hl. rewrite !memo4_3 by assumption. apply H; assumption. Qed.
Lemma memo4_minor_r (a : t4) : minor_r a -> minor_r (memo4 Rops a).
Proof. intros H i j k l Hi Hj Hk Hl. rewrite !memo4_3 by assumption. apply H; assumption. Qed.

Lemma op_ext (a b : t4) : eq4 a b -> eq2 6 (op a) (op b).
Proof.
  intros H I J HI HJ. unfold op, colscale, convert4To2. rewrite H; auto using vfst_lt, vsnd_lt.
Qed.

(* (inv : cM) : e = e  when  op inv is a left inverse of op cM *)
Lemma identity_on_symmetric (x : t2) (cM4 : t4) (e : t2) :
  minor_l cM4 -> minor_r cM4 -> sym2 e -> eq2 6 (mm6 Rops x (op cM4)) (eye Rops) ->
  eq2 3 (mul42 Rops (mul44 Rops (invert4_of Rops x) cM4) e) e.
Proof.
  intros Hl Hr He Hx.
  apply vec_eq_sym; [apply mul42_sym, mul44_minor_l, invert4_of_minor_l|assumption|].
  intros I HI. rewrite vec_contract42; [|assumption|apply mul44_minor_r; assumption|assumption].
  rewrite <- (mv6_eye (vec e) I) by assumption.
  apply mv6_ext; [|intros k Hk; reflexivity]. intros K HK.
  rewrite op_contract44; [|assumption|assumption|apply invert4_of_minor_r|assumption].
  rewrite <- Hx by assumption. apply mm6_ext; [assumption| |intros ? ? ? ?; reflexivity].
  intros k Hk. apply op_invert4_of; assumption.
Qed.

Lemma bohmArg_same (cM4 S : t4) : eq4 (bohmArg Rops cM4 cM4 S) cM4.
Proof. intros i j k l _ _ _ _. unfold bohmArg, add4, mul44, sub4. Rsum. Req. ring. Qed.

Lemma bohm_reduces_to_homogeneous (inv6 : t2 -> t2) (cM4 S : t4) (e : t2) V :
  minor_l cM4 -> minor_r cM4 -> sym2 e ->
  (forall m, eq2 6 m (op cM4) -> eq2 6 (mm6 Rops (inv6 m) m) (eye Rops)) ->
  eBohm Rops inv6 cM4 cM4 e S V = eEllipsoid Rops cM4 e S V.
Proof.
  intros Hl Hr He Hinv. unfold eBohm, eBohm_with, eBohm_tail, eEllipsoid, invert4. cbv zeta.
  set (m := memo2 Rops 6 (invert4_arg Rops (memo4 Rops (bohmArg Rops cM4 cM4 S)))).
  assert (Hm : eq2 6 m (op cM4)).
  { intros I J HI HJ. unfold m. rewrite memo2_6 by assumption. apply op_ext; [|assumption|assumption].
    intros i j k l Hi Hj Hk Hl'. rewrite memo4_3 by assumption. apply bohmArg_same; assumption. }
  assert (Hx : eq2 6 (mm6 Rops (inv6 m) (op cM4)) (eye Rops)).
  { intros I J HI HJ. rewrite <- (Hinv m Hm I J) by assumption. apply mm6_ext; [assumption|intros; reflexivity|].
    intros a b Ha Hb. symmetry. apply Hm; assumption. }
  set (X := inv6 m) in *.
  (* multTerm : e = e *)
  assert (Hid : eq2 3 (mul42 Rops (memo4 Rops (mul44 Rops (memo4 Rops (invert4_of Rops X)) cM4)) e) e).
  { intros i j Hi Hj. rewrite <- (identity_on_symmetric X cM4 e Hl Hr He Hx i j Hi Hj).
    apply mul42_ext; [|intros ? ? ? ?; reflexivity]. intros k l Hk Hl'. rewrite memo4_3 by assumption.
    apply mul44_ext; try assumption; [|intros ? ? ? ? ? ? ? ?; reflexivity].
    intros a b Ha Hb. apply memo4_3; assumption. }
  apply strainEnergy_ext; [|intros ? ? ? ?; reflexivity].
  intros i j Hi Hj. unfold sub2 at 1.
  (* stress0 = cM : e *)
  assert (H0 : mul42 Rops cM4 (memo2 Rops 3 (mul42 Rops (memo4 Rops (mul44 Rops (memo4 Rops (invert4_of Rops X)) cM4)) e)) i j
               = mul42 Rops cM4 e i j).
  { apply mul42_ext; [reflexivity|]. intros k l Hk Hl'. rewrite memo2_3 by assumption. apply Hid; assumption. }
  (* stressC = cM : (S : e) *)
  assert (HC : mul42 Rops cM4 (memo2 Rops 3 (mul42 Rops (memo4 Rops (mul44 Rops S (memo4 Rops (mul44 Rops (memo4 Rops (invert4_of Rops X)) cM4)))) e)) i j
               = mul42 Rops cM4 (mul42 Rops S e) i j).
  { apply mul42_ext; [reflexivity|]. intros k l Hk Hl'. rewrite memo2_3 by assumption.
    transitivity (mul42 Rops (mul44 Rops S (memo4 Rops (mul44 Rops (memo4 Rops (invert4_of Rops X)) cM4))) e k l).
    { apply mul42_ext; [|intros ? ? ? ?; reflexivity]. intros a b Ha Hb. apply memo4_3; assumption. }
    rewrite mul42_assoc. apply mul42_ext; [reflexivity|]. exact Hid. }
  rewrite H0, HC.
  transitivity (mul42 Rops cM4 (sub2 Rops (mul42 Rops S e) e) i j).
  { rewrite mul42_sub. reflexivity. }
  apply mul42_ext; [reflexivity|]. intros k l Hk Hl'. symmetry. apply memo2_3; assumption.
Qed.

(* ---- tabulations of pointwise-equal tensors are EQUAL --------------------------------------------------- *)
Lemma tab4_ext (f g : t4) : eq4 f g -> tab4 Rops f = tab4 Rops g.
Proof.
  intros H. unfold tab4, tab2, tab1. cbn [seq map].
  repeat (f_equal; try (apply H; lia)).
Qed.
Lemma memo4_ext (f g : t4) : eq4 f g -> memo4 Rops f = memo4 Rops g.
Proof. intros H. unfold memo4. rewrite (tab4_ext f g H). reflexivity. Qed.
Lemma tab2_3_ext (f g : t2) : eq2 3 f g -> tab2 Rops 3 f = tab2 Rops 3 g.
Proof. intros H. unfold tab2, tab1. cbn [seq map]. repeat (f_equal; try (apply H; lia)). Qed.

(* ---- the energy scales with the cube of a uniform size scaling -------------------------------------------- *)
Definition rescale (s : R) (nd : node Rops) : node Rops := mkNode (O := Rops) (nvec nd) (eterm nd / (s * s * s)) (wgt nd).

Lemma ohmTabs_rescale inv (c4 : t4) s nodes :
  ohmTabs Rops inv c4 (map (rescale s) nodes) = ohmTabs Rops inv c4 nodes.
Proof. unfold ohmTabs. rewrite map_map. reflexivity. Qed.

Lemma sumT_zip_rescale (F : list (list R) -> node Rops -> R) s :
  s <> 0 -> (forall tb nd, F tb (rescale s nd) = F tb nd / (s * s * s)) ->
  forall tabs nodes, sumT Rops (zipWith F tabs (map (rescale s) nodes)) = sumT Rops (zipWith F tabs nodes) / (s * s * s).
Proof.
  intros Hs HF tabs. induction tabs as [|tb tabs IH]; intros [|nd nodes]; cbn [map zipWith sumT].
  - Rsum. Req. field. exact Hs.
  - Rsum. Req. field. exact Hs.
  - Rsum. Req. field. exact Hs.
  - rewrite IH, HF. Rsum. Req. field. exact Hs.
Qed.

Lemma sphSum_rescale dA tabs nodes s i j k l : s <> 0 ->
  sphSum Rops dA tabs (map (rescale s) nodes) i j k l = sphSum Rops dA tabs nodes i j k l / (s * s * s).
Proof.
  intros Hs. unfold sphSum.
  rewrite (sumT_zip_rescale (fun tb nd => get2 Rops tb i j * (ncomp Rops (nvec nd) k * ncomp Rops (nvec nd) l * (eterm nd * wgt nd))) s Hs).
  - Rsum. Req. field. exact Hs.
  - intros tb nd. unfold rescale. cbn [nvec eterm wgt]. Rsum. Req. field. exact Hs.
Qed.

Lemma Dijkl_size_invariant inv (pi dA a b c s : R) (c4 : t4) nodes : s <> 0 -> pi <> 0 ->
  eq4 (Dijkl Rops inv pi dA (s * a, s * b, s * c) c4 (map (rescale s) nodes)) (Dijkl Rops inv pi dA (a, b, c) c4 nodes).
Proof.
  intros Hs Hpi i j k l Hi Hj Hk Hl. unfold Dijkl, Dscale. rewrite !memo4_3 by assumption.
  unfold sphInt. rewrite ohmTabs_rescale, sphSum_rescale by assumption.
  unfold prod3. Rsum. Req. field. split; assumption.
Qed.

Lemma Sijmn_ext (c4 D D' : t4) : eq4 D D' -> eq4 (Sijmn Rops c4 D) (Sijmn Rops c4 D').
Proof.
  intros H i j m n Hi Hj Hm Hn. unfold Sijmn. f_equal.
  apply sum3_ext; intros l Hl. apply sum3_ext; intros k Hk. rewrite !H by assumption. reflexivity.
Qed.

Lemma eshelbyS_size_invariant inv (pi dA a b c s : R) (c4 : t4) nodes : s <> 0 -> pi <> 0 ->
  eshelbyS Rops inv pi dA (s * a, s * b, s * c) c4 (map (rescale s) nodes) = eshelbyS Rops inv pi dA (a, b, c) c4 nodes.
Proof.
  intros Hs Hpi. unfold eshelbyS. apply memo4_ext. apply Sijmn_ext.
  intros i j k l Hi Hj Hk Hl. rewrite !memo4_3 by assumption. apply Dijkl_size_invariant; assumption.
Qed.

(* real-analytic layer: beta is homogeneous of degree one in the radii *)
Lemma beta_arg_pos a b c phi theta : 0 < a -> 0 < b -> 0 < c ->
  0 < ((a * cos phi) ^ 2 + (b * sin phi) ^ 2) * sin theta ^ 2 + (c * cos theta) ^ 2.
Proof.
  intros Ha Hb Hc.
  pose proof (sin2_cos2 phi) as P. pose proof (sin2_cos2 theta) as Q. unfold Rsqr in P, Q.
  set (C := cos phi) in *. set (S := sin phi) in *. set (Ct := cos theta) in *. set (St := sin theta) in *.
  destruct (Req_dec Ct 0) as [Z|NZ].
  - (* cos theta = 0: sin^2 theta = 1 *)
    rewrite Z in *. assert (St * St = 1) by lra.
    assert (0 < (a * C) ^ 2 + (b * S) ^ 2).
    { destruct (Req_dec C 0) as [ZC|NC].
      - rewrite ZC in *. assert (S * S = 1) by lra. nra.
      - assert (0 < (a * C) * (a * C)) by (apply Rsqr_pos_lt; nra). assert (0 <= (b * S) * (b * S)) by nra. nra. }
    nra.
  - assert (0 < (c * Ct) * (c * Ct)) by (apply Rsqr_pos_lt; nra).
    assert (0 <= ((a * C) ^ 2 + (b * S) ^ 2) * St ^ 2) by (apply Rmult_le_pos; nra). nra.
Qed.
Lemma beta_pos a b c phi theta : 0 < a -> 0 < b -> 0 < c -> 0 < beta_spec a b c phi theta.
Proof. intros. unfold beta_spec. apply sqrt_lt_R0. apply beta_arg_pos; assumption. Qed.
Lemma beta_homogeneous a b c s phi theta : 0 <= s ->
  beta_spec (s * a) (s * b) (s * c) phi theta = s * beta_spec a b c phi theta.
Proof.
  intros Hs. unfold beta_spec.
  replace (((s * a * cos phi) ^ 2 + (s * b * sin phi) ^ 2) * sin theta ^ 2 + (s * c * cos theta) ^ 2)
    with (s * s * (((a * cos phi) ^ 2 + (b * sin phi) ^ 2) * sin theta ^ 2 + (c * cos theta) ^ 2)) by ring.
  rewrite sqrt_mult_alt by nra. rewrite sqrt_square by assumption. reflexivity.
Qed.
Lemma node_of_scaled a b c s q : 0 < a -> 0 < b -> 0 < c -> 0 < s ->
  node_of (s * a) (s * b) (s * c) q = rescale s (node_of a b c q).
Proof.
  intros Ha Hb Hc Hs. destruct q as [[phi theta] w]. unfold node_of, rescale. cbn [nvec eterm wgt]. f_equal.
  rewrite beta_homogeneous by lra. pose proof (beta_pos a b c phi theta Ha Hb Hc). field. split; lra.
Qed.

Lemma S_size_invariant inv dA a b c s c4 quad : 0 < a -> 0 < b -> 0 < c -> 0 < s ->
  S_of inv dA (s * a) (s * b) (s * c) c4 quad = S_of inv dA a b c c4 quad.
Proof.
  intros Ha Hb Hc Hs. unfold S_of, nodes_of.
  rewrite (map_ext _ (fun q => rescale s (node_of a b c q))) by (intros q; apply node_of_scaled; assumption).
  rewrite <- map_map. apply eshelbyS_size_invariant; [lra|]. apply Rgt_not_eq, PI_RGT_0.
Qed.
Lemma V_cubic a b c s : V_of (s * a) (s * b) (s * c) = s ^ 3 * V_of a b c.
Proof. unfold V_of, volume, prod3. Rsum. Req. field. Qed.

(* every energy is proportional to V *)
Lemma eEllipsoid_linear_V cM4 e S x V : eEllipsoid Rops cM4 e S (x * V) = x * eEllipsoid Rops cM4 e S V.
Proof. unfold eEllipsoid. cbv zeta. apply strainEnergy_scaleV. Qed.
Lemma eEllipsoid2_linear_V cM2 e S x V : eEllipsoid2 Rops cM2 e S (x * V) = x * eEllipsoid2 Rops cM2 e S V.
Proof. unfold eEllipsoid2. cbv zeta. Rsum. Req. ring. Qed.
Lemma eBohm_linear_V inv6 cM4 cP4 e S x V : eBohm Rops inv6 cM4 cP4 e S (x * V) = x * eBohm Rops inv6 cM4 cP4 e S V.
Proof. unfold eBohm, eBohm_with, eBohm_tail. cbv zeta. apply strainEnergy_scaleV. Qed.
Lemma eBohm2_linear_V inv6 cM2 cP2 e S x V : eBohm2 Rops inv6 cM2 cP2 e S (x * V) = x * eBohm2 Rops inv6 cM2 cP2 e S V.
Proof. unfold eBohm2, eBohm2_tail. cbv zeta. Rsum. Req. ring. Qed.

(* ---- either 3x3 inversion routine gives the same Eshelby tensor ------------------------------------------- *)
Lemma invOhm_sym (c4 : t4) n : major c4 -> minor_l c4 -> minor_r c4 -> sym3 (memo2 Rops 3 (invOhm Rops c4 n)).
Proof.
  intros Hm Hl Hr.
  assert (X : forall i k l j, (i < 3)%nat -> (k < 3)%nat -> (l < 3)%nat -> (j < 3)%nat -> c4 i k l j = c4 j l k i).
  { intros i k l j Hi Hk Hl' Hj. rewrite (Hm i k l j), (Hl l j i k), (Hr j l i k) by assumption. reflexivity. }
  unfold sym3. rewrite !memo2_3 by lia. unfold invOhm.
  repeat split; cbv [sum3]; Rsum; Req;
    repeat match goal with |- context [c4 ?i ?k ?l ?j] =>
      lazymatch eval compute in (Nat.ltb j i) with true => rewrite (X i k l j) by lia end end; ring.
Qed.

(* what a routine must do on the Ohm term of every grid point: return a left inverse *)
Definition good_inverse (inv3 : t2 -> t2) (c4 : t4) (nd : node Rops) : Prop :=
  let m := memo2 Rops 3 (invOhm Rops c4 (nvec nd)) in
  det3 m <> 0 /\ eq2 3 (mm3 Rops (inv3 m) m) (eye Rops).

Lemma ohmTabs_agree inv3 (c4 : t4) nodes : major c4 -> minor_l c4 -> minor_r c4 ->
  Forall (good_inverse inv3 c4) nodes -> ohmTabs Rops inv3 c4 nodes = ohmTabs Rops (cramer Rops) c4 nodes.
Proof.
  intros Hm Hl Hr H. unfold ohmTabs. apply map_ext_in. intros nd Hin.
  rewrite Forall_forall in H. destruct (H nd Hin) as [Hd Hinv].
  apply tab2_3_ext. apply inverse_routines_agree; [apply invOhm_sym|..]; assumption.
Qed.
Lemma eshelbyS_routines_agree inv3 pi dA r (c4 : t4) nodes : major c4 -> minor_l c4 -> minor_r c4 ->
  Forall (good_inverse inv3 c4) nodes ->
  eshelbyS Rops inv3 pi dA r c4 nodes = eshelbyS Rops (cramer Rops) pi dA r c4 nodes.
Proof.
  intros Hm Hl Hr H. unfold eshelbyS, Dijkl, sphInt. rewrite (ohmTabs_agree inv3 c4 nodes) by assumption. reflexivity.
Qed.

(* ---- StrainEnergy: the order of rotation and stiffness does not matter ------------------------------------- *)
Definition se_eq (s s' : se Rops) : Prop :=
  shp Rops s = shp Rops s' /\
  eq4 (unrotM Rops s) (unrotM Rops s') /\ eq4 (unrotP Rops s) (unrotP Rops s') /\
  eq2 3 (rotM Rops s) (rotM Rops s') /\ eq2 3 (rotP Rops s) (rotP Rops s') /\
  eq4 (cM4 Rops s) (cM4 Rops s') /\ eq2 6 (cM2 Rops s) (cM2 Rops s') /\
  eq4 (cP4 Rops s) (cP4 Rops s') /\ eq2 6 (cP2 Rops s) (cP2 Rops s').

Lemma any4_memo (c : t4) : any4 Rops (memo4 Rops c) = any4 Rops c.
Proof. reflexivity. Qed.

Definition promote (x : shape) : shape := match x with Constant => Sphere | y => y end.
Lemma promote_idem x : promote (promote x) = promote x.
Proof. destruct x; reflexivity. Qed.

Ltac se_refl := repeat split; try reflexivity; try (intros ? ? ? ?; reflexivity); try (intros ? ? ? ? ? ? ? ?; reflexivity).

Ltac se_step := cbn [unrotM unrotP rotM rotP shp cM4 cM2 cP4 cP2].

Lemma rotation_order_matrix (s : se Rops) (c : t4) (r : t2) : any4 Rops c = true ->
  se_eq (setRotM Rops (setMatrix4 Rops s c) r) (setMatrix4 Rops (setRotM Rops s r) c).
Proof.
  intros Hc.
  destruct (any4 Rops (unrotM Rops s)) eqn:EM; destruct (any4 Rops (unrotP Rops s)) eqn:EP;
    unfold setRotM, setMatrix4, with_rotM, with_unrotM; se_step;
    repeat (unfold update at 1; se_step; rewrite ?any4_memo, ?Hc, ?EM, ?EP; se_step);
    unfold se_eq; se_step;
    (split; [destruct (shp Rops s); reflexivity|]); se_refl.
Qed.

Lemma rotation_order_precipitate (s : se Rops) (c : t4) (r : t2) :
  se_eq (setRotP Rops (setPrec4 Rops s c) r) (setPrec4 Rops (setRotP Rops s r) c).
Proof.
  destruct (any4 Rops (unrotM Rops s)) eqn:EM; destruct (any4 Rops c) eqn:EC; destruct (any4 Rops (unrotP Rops s)) eqn:EP;
    unfold setRotP, setPrec4, with_rotP, with_unrotP; se_step;
    repeat (unfold update at 1; se_step; rewrite ?any4_memo, ?EM, ?EC, ?EP; se_step);
    unfold se_eq; se_step;
    (split; [destruct (shp Rops s); reflexivity|]); se_refl.
Qed.

(* ---- rotation: closed form, and invariance of an isotropic stiffness ---------------------------------------- *)
Lemma rot4_spec (r : t2) (tn : t4) i j k l : (i < 3)%nat -> (j < 3)%nat -> (k < 3)%nat -> (l < 3)%nat ->
  rot4 Rops r tn i j k l
  = sum3 Rops (fun m => r i m * sum3 Rops (fun n => r j n * sum3 Rops (fun o => r k o * sum3 Rops (fun p => r l p * tn m n o p)))).
Proof.
  intros Hi Hj Hk Hl. unfold rot4. cbv zeta.
  apply sum3_ext; intros m Hm. apply (f_equal (Rmult (r i m))). rewrite memo4_3 by assumption.
  apply sum3_ext; intros n Hn. apply (f_equal (Rmult (r j n))). rewrite memo4_3 by assumption.
  apply sum3_ext; intros o Ho. apply (f_equal (Rmult (r k o))). rewrite memo4_3 by assumption.
  reflexivity.
Qed.

Definition orthogonal (r : t2) : Prop :=
  forall i j, (i < 3)%nat -> (j < 3)%nat -> sum3 Rops (fun k => r i k * r j k) = delta i j.

Lemma isotropic_rotation_invariant (r : t2) lam mu : orthogonal r -> eq4 (rot4 Rops r (isoC4 lam mu)) (isoC4 lam mu).
Proof.
  intros Ho i j k l Hi Hj Hk Hl. rewrite rot4_spec by assumption.
  unfold isoC4 at 2.
  rewrite <- (Ho i j), <- (Ho k l), <- (Ho i k), <- (Ho j l), <- (Ho i l), <- (Ho j k) by assumption.
  unfold isoC4, delta. cbv [sum3 Nat.eqb]. Rsum. Req. ring.
Qed.
Lemma eye_orthogonal : orthogonal (eye Rops).
Proof. intros i j Hi Hj. idx3 i; idx3 j; unfold eye, delta; cbv [sum3 Nat.eqb]; Rsum; Req; ring. Qed.

(* ---- statements at the level of the property ------------------------------------------------------------------ *)
Lemma energy_quadratic inv6 (cM4 cP4 S : t4) (cM2 cP2 e : t2) s V :
  eEllipsoid Rops cM4 (scale2 Rops s e) S V = s ^ 2 * eEllipsoid Rops cM4 e S V /\
  eEllipsoid2 Rops cM2 (scale2 Rops s e) S V = s ^ 2 * eEllipsoid2 Rops cM2 e S V /\
  eBohm Rops inv6 cM4 cP4 (scale2 Rops s e) S V = s ^ 2 * eBohm Rops inv6 cM4 cP4 e S V /\
  eBohm2 Rops inv6 cM2 cP2 (scale2 Rops s e) S V = s ^ 2 * eBohm2 Rops inv6 cM2 cP2 e S V.
Proof.
  replace (s ^ 2) with (s * s) by ring.
  repeat split; [apply eEllipsoid_quadratic | apply eEllipsoid2_quadratic | apply eBohm_quadratic | apply eBohm2_quadratic].
Qed.

Lemma energy_cubic_in_size inv3 inv6 dA a b c s (cM4 cP4 : t4) (cM2 cP2 e : t2) quad :
  0 < a -> 0 < b -> 0 < c -> 0 < s ->
  let S := S_of inv3 dA a b c cM4 quad in
  let S' := S_of inv3 dA (s * a) (s * b) (s * c) cM4 quad in
  let V := V_of a b c in
  let V' := V_of (s * a) (s * b) (s * c) in
  eEllipsoid Rops cM4 e S' V' = s ^ 3 * eEllipsoid Rops cM4 e S V /\
  eEllipsoid2 Rops cM2 e S' V' = s ^ 3 * eEllipsoid2 Rops cM2 e S V /\
  eBohm Rops inv6 cM4 cP4 e S' V' = s ^ 3 * eBohm Rops inv6 cM4 cP4 e S V /\
  eBohm2 Rops inv6 cM2 cP2 e S' V' = s ^ 3 * eBohm2 Rops inv6 cM2 cP2 e S V.
Proof.
  intros Ha Hb Hc Hs S S' V V'. unfold S', V'. rewrite S_size_invariant, V_cubic by assumption. fold S V.
  repeat split; [apply eEllipsoid_linear_V | apply eEllipsoid2_linear_V | apply eBohm_linear_V | apply eBohm2_linear_V].
Qed.

Lemma inverse_routines_agree_S inv3 dA a b c (c4 : t4) quad : major c4 -> minor_l c4 -> minor_r c4 ->
  Forall (good_inverse inv3 c4) (nodes_of a b c quad) ->
  S_of inv3 dA a b c c4 quad = S_of (cramer Rops) dA a b c c4 quad.
Proof. intros. unfold S_of. apply eshelbyS_routines_agree; assumption. Qed.

Lemma isotropic_matrix_orientation (r r' : t2) lam mu : orthogonal r -> orthogonal r' ->
  memo4 Rops (rot4 Rops r (isoC4 lam mu)) = memo4 Rops (rot4 Rops r' (isoC4 lam mu)).
Proof.
  intros Hr Hr'. apply memo4_ext. intros i j k l Hi Hj Hk Hl.
  rewrite (isotropic_rotation_invariant r lam mu Hr i j k l), (isotropic_rotation_invariant r' lam mu Hr' i j k l) by assumption.
  reflexivity.
Qed.
