(* C14 - bridge between the GENERATED definitions (build/C14/Nucleation_gen.v, regenerated from
   kawin/precipitation/parameters/Nucleation.py on every run) and the hand-written specifications of
   Model.v.  Only this file depends on the generated text; a change of a formula in the source breaks a
   lemma here (and with it the theorems of GenProperties.v).  Compiled by the check only. *)
From Coq Require Import Reals List Lra Bool.
Require Import Kawin.Common.Ops Kawin.C14.Model Kawin.C14.Proofs Kawin.C14.Analysis.
Require Import KawinRun.Nucleation_gen.
Import ListNotations.
Open Scope R_scope.

(* equal by unfolding; harmless refactorings (reordered sums, renamed locals) are absorbed by ring / field.
   A failing comparison must fail quickly: the check has a time budget *)
Ltac bridge :=
  intros;
  timeout 60 (first
    [ reflexivity
    | cbv beta zeta delta [Bulk_gbRemoval_gen Bulk_areaFactor_gen Bulk_volumeFactor_gen Bulk_areaRemoval_gen
        Dislocation_gbRemoval_gen Dislocation_areaFactor_gen Dislocation_volumeFactor_gen Dislocation_areaRemoval_gen
        GrainBoundary_gbRemoval_gen GrainBoundary_areaFactor_gen GrainBoundary_volumeFactor_gen GrainBoundary_areaRemoval_gen
        GrainEdge_gbRemoval_gen GrainEdge_areaFactor_gen GrainEdge_volumeFactor_gen GrainEdge_areaRemoval_gen
        GrainCorner_gbRemoval_gen GrainCorner_areaFactor_gen GrainCorner_volumeFactor_gen GrainCorner_areaRemoval_gen
        NBP_Rcrit_gen NBP_Gcrit_gen gbRatio_gen
        bulk_a bulk_b bulk_c bulk_r gb_a gb_b gb_c gb_r edge_a edge_b edge_c edge_r corner_a corner_b corner_c corner_r corner_t
        NBP_Rcrit NBP_Gcrit gbRatio];
      first [ reflexivity | ring | (field; fail) | (f_equal; first [ring | field; fail]) ] ]).

(* helpers (angles) *)
Lemma gen_edge_alpha k : GrainEdge_alpha_gen k = edge_alpha k. Proof. bridge. Qed.
Lemma gen_edge_beta k : GrainEdge_beta_gen k = edge_beta k. Proof. bridge. Qed.
Lemma gen_corner_K k : GrainCorner_K_gen k = corner_K k. Proof. bridge. Qed.
Lemma gen_corner_phi k : GrainCorner_phi_gen k = corner_phi k. Proof. bridge. Qed.
Lemma gen_corner_delta k : GrainCorner_delta_gen k = corner_delta k. Proof. bridge. Qed.

Lemma gen_bulk k : Bulk_areaFactor_gen k = bulk_a k /\ Bulk_gbRemoval_gen k = bulk_b k /\ Bulk_volumeFactor_gen k = bulk_c k /\ Bulk_areaRemoval_gen k = bulk_r k.
Proof. repeat split; bridge. Qed.
Lemma gen_disl k : Dislocation_areaFactor_gen k = bulk_a k /\ Dislocation_gbRemoval_gen k = bulk_b k /\ Dislocation_volumeFactor_gen k = bulk_c k /\ Dislocation_areaRemoval_gen k = bulk_r k.
Proof. repeat split; bridge. Qed.
Lemma gen_gb_a k : GrainBoundary_areaFactor_gen k = gb_a k. Proof. bridge. Qed.
Lemma gen_gb_b k : GrainBoundary_gbRemoval_gen k = gb_b k. Proof. bridge. Qed.
Lemma gen_gb_c k : GrainBoundary_volumeFactor_gen k = gb_c k. Proof. bridge. Qed.
Lemma gen_gb_r k : GrainBoundary_areaRemoval_gen k = gb_r k. Proof. unfold GrainBoundary_areaRemoval_gen, gb_r. rewrite gen_gb_b. reflexivity. Qed.
Lemma gen_edge_a k : GrainEdge_areaFactor_gen k = edge_a k. Proof. bridge. Qed.
Lemma gen_edge_b k : GrainEdge_gbRemoval_gen k = edge_b k. Proof. bridge. Qed.
Lemma gen_edge_c k : GrainEdge_volumeFactor_gen k = edge_c k. Proof. bridge. Qed.
Lemma gen_edge_r k : GrainEdge_areaRemoval_gen k = edge_r k. Proof. unfold GrainEdge_areaRemoval_gen, edge_r. rewrite gen_edge_b. reflexivity. Qed.
Lemma gen_corner_a k : GrainCorner_areaFactor_gen k = corner_a k. Proof. bridge. Qed.
Lemma gen_corner_b k : GrainCorner_gbRemoval_gen k = corner_b k. Proof. bridge. Qed.
Lemma gen_corner_c k : GrainCorner_volumeFactor_gen k = corner_c k. Proof. bridge. Qed.
Lemma gen_corner_r k : GrainCorner_areaRemoval_gen k = corner_r k. Proof. unfold GrainCorner_areaRemoval_gen, corner_r. rewrite gen_corner_b. reflexivity. Qed.

Lemma gen_maxRatio :
  Bulk_maxRatio_gen = kmax Bulk /\ Dislocation_maxRatio_gen = kmax Disl /\ GrainBoundary_maxRatio_gen = kmax GB /\
  GrainEdge_maxRatio_gen = kmax Edge /\ GrainCorner_maxRatio_gen = kmax Corner.
Proof. repeat split; reflexivity. Qed.
Lemma gen_isGB :
  Bulk_isGrainBoundaryNucleation_gen = false /\ Dislocation_isGrainBoundaryNucleation_gen = false /\
  GrainBoundary_isGrainBoundaryNucleation_gen = true /\ GrainEdge_isGrainBoundaryNucleation_gen = true /\
  GrainCorner_isGrainBoundaryNucleation_gen = true.
Proof. repeat split; reflexivity. Qed.
Lemma gen_gbRatio e g : gbRatio_gen e g = gbRatio e g. Proof. bridge. Qed.
Lemma gen_Rcrit a g b e c dG : NBP_Rcrit_gen a g b e c dG = NBP_Rcrit a g b e c dG. Proof. bridge. Qed.
Lemma gen_Gcrit a g b e c dG r : NBP_Gcrit_gen a g b e c dG r = NBP_Gcrit a g b e c dG r. Proof. bridge. Qed.
Lemma gen_invalid_value : invalid_value_gen = -1. Proof. unfold invalid_value_gen. ring. Qed.

(* the mask of the wrappers and the validation of the parameter object, per site type *)
Lemma gen_valid s k m : kmax s = Some m -> (createArrays_valid_gen k m <-> valid_ratio s k).
Proof. intros H. unfold createArrays_valid_gen, valid_ratio. rewrite H. timeout 20 (split; intros; lra). Qed.
Lemma gen_validate s k m : kmax s = Some m -> (NBP_validateGBk_raises_gen k m <-> validate_raises s k).
Proof. intros H. unfold NBP_validateGBk_raises_gen, validate_raises. rewrite H. timeout 20 (split; intros; lra). Qed.
(* whatever passes the validation is computed by the formula *)
Lemma gen_validated_is_valid k m : ~ NBP_validateGBk_raises_gen k m -> createArrays_valid_gen k m.
Proof. unfold NBP_validateGBk_raises_gen, createArrays_valid_gen. timeout 20 (intros; lra). Qed.

(* identities and limits for the generated definitions *)
Lemma gen_identity_boundary k : GrainBoundary_areaFactor_gen k - 2 * k * GrainBoundary_gbRemoval_gen k = 3 * GrainBoundary_volumeFactor_gen k.
Proof. rewrite gen_gb_a, gen_gb_b, gen_gb_c. apply cf_identity_boundary. Qed.
Lemma gen_identity_edge k : GrainEdge_areaFactor_gen k - 2 * k * GrainEdge_gbRemoval_gen k = 3 * GrainEdge_volumeFactor_gen k.
Proof. rewrite gen_edge_a, gen_edge_b, gen_edge_c. apply cf_identity_edge. Qed.
Lemma gen_identity_corner k : GrainCorner_areaFactor_gen k - 2 * k * GrainCorner_gbRemoval_gen k = 3 * GrainCorner_volumeFactor_gen k.
Proof. rewrite gen_corner_a, gen_corner_b, gen_corner_c. apply cf_identity_corner. Qed.

Lemma gen_at_zero :
  (GrainBoundary_areaFactor_gen 0 = 4 * PI /\ GrainBoundary_volumeFactor_gen 0 = 4 * PI / 3 /\ GrainBoundary_gbRemoval_gen 0 = PI) /\
  (GrainEdge_areaFactor_gen 0 = 4 * PI /\ GrainEdge_volumeFactor_gen 0 = 4 * PI / 3 /\ GrainEdge_gbRemoval_gen 0 = 3 * (PI / 2)) /\
  (GrainCorner_areaFactor_gen 0 = 4 * PI /\ GrainCorner_volumeFactor_gen 0 = 4 * PI / 3 /\ GrainCorner_gbRemoval_gen 0 = 3 * acos (- (1 / 3))).
Proof.
  rewrite gen_gb_a, gen_gb_b, gen_gb_c, gen_edge_a, gen_edge_b, gen_edge_c, gen_corner_a, gen_corner_b, gen_corner_c.
  exact (conj gb_at_zero (conj edge_at_zero corner_at_zero)).
Qed.

Lemma gen_nonneg_boundary k : 0 <= k <= 1 ->
  0 <= GrainBoundary_areaFactor_gen k /\ 0 <= GrainBoundary_gbRemoval_gen k /\ 0 <= GrainBoundary_volumeFactor_gen k.
Proof. rewrite gen_gb_a, gen_gb_b, gen_gb_c. apply gb_nonneg. Qed.
Lemma gen_positive_edge k : 0 <= k <= 865 / 1000 ->
  0 < GrainEdge_areaFactor_gen k /\ 0 < GrainEdge_gbRemoval_gen k /\ 0 < GrainEdge_volumeFactor_gen k.
Proof. rewrite gen_edge_a, gen_edge_b, gen_edge_c. apply edge_pos. Qed.
Lemma gen_positive_corner k : 0 <= k <= 8155 / 10000 ->
  0 < GrainCorner_areaFactor_gen k /\ 0 < GrainCorner_gbRemoval_gen k /\ 0 < GrainCorner_volumeFactor_gen k.
Proof. rewrite gen_corner_a, gen_corner_b, gen_corner_c. apply corner_pos. Qed.
Lemma gen_volume_decreasing :
  (forall k1 k2, 0 <= k1 -> k1 < k2 -> k2 <= 1 -> GrainBoundary_volumeFactor_gen k2 < GrainBoundary_volumeFactor_gen k1) /\
  (forall k1 k2, 0 <= k1 -> k1 < k2 -> k2 <= 865 / 1000 -> GrainEdge_volumeFactor_gen k2 < GrainEdge_volumeFactor_gen k1) /\
  (forall k1 k2, 0 <= k1 -> k1 < k2 -> k2 <= 8155 / 10000 -> GrainCorner_volumeFactor_gen k2 < GrainCorner_volumeFactor_gen k1).
Proof.
  repeat split; intros k1 k2; rewrite ?gen_gb_c, ?gen_edge_c, ?gen_corner_c.
  - apply gb_c_strictly_decreasing. - apply edge_c_decreasing. - apply corner_c_decreasing.
Qed.

(* critical radius / barrier computed by the generated Rcrit / Gcrit from the generated factors *)
Lemma gen_rcrit_sphere_boundary k gamma dG : 0 <= k < 1 -> dG <> 0 ->
  NBP_Rcrit_gen (GrainBoundary_areaFactor_gen k) gamma (GrainBoundary_gbRemoval_gen k) (2 * k * gamma) (GrainBoundary_volumeFactor_gen k) dG = 2 * gamma / dG.
Proof.
  intros Hk Hd. rewrite gen_Rcrit, gen_gb_a, gen_gb_b, gen_gb_c.
  apply (rcrit_is_sphere GB); [apply Rgt_not_eq, (gb_c_pos k Hk)|exact Hd].
Qed.
Lemma gen_rcrit_sphere_edge k gamma dG : 0 <= k <= 865 / 1000 -> dG <> 0 ->
  NBP_Rcrit_gen (GrainEdge_areaFactor_gen k) gamma (GrainEdge_gbRemoval_gen k) (2 * k * gamma) (GrainEdge_volumeFactor_gen k) dG = 2 * gamma / dG.
Proof.
  intros Hk Hd. rewrite gen_Rcrit, gen_edge_a, gen_edge_b, gen_edge_c.
  apply (rcrit_is_sphere Edge); [apply Rgt_not_eq; apply (edge_pos k Hk)|exact Hd].
Qed.
Lemma gen_rcrit_sphere_corner k gamma dG : 0 <= k <= 8155 / 10000 -> dG <> 0 ->
  NBP_Rcrit_gen (GrainCorner_areaFactor_gen k) gamma (GrainCorner_gbRemoval_gen k) (2 * k * gamma) (GrainCorner_volumeFactor_gen k) dG = 2 * gamma / dG.
Proof.
  intros Hk Hd. rewrite gen_Rcrit, gen_corner_a, gen_corner_b, gen_corner_c.
  apply (rcrit_is_sphere Corner); [apply Rgt_not_eq; apply (corner_pos k Hk)|exact Hd].
Qed.
Lemma gen_gcrit_at_rcrit (a b c : R -> R) k gamma dG : a k - 2 * k * b k = 3 * c k -> dG <> 0 ->
  NBP_Gcrit_gen (a k) gamma (b k) (2 * k * gamma) (c k) dG (2 * gamma / dG) = (4 * PI / 3 * gamma * (2 * gamma / dG) ^ 2) * (c k / (4 * PI / 3)).
Proof. intros Hid Hd. rewrite gen_Gcrit. apply (gb_gcrit_is_sphere_scaled _ _ _ k); assumption. Qed.

(* cached factors: what the translator read off the setters and _resetFactors *)
Definition clears_gen (s : slot) : bool := existsb (slot_eqb s) NBP_reset_clears_gen.
Lemma gen_resets_all p : NBP_setter_resets_gen p = true.
Proof. destruct p; reflexivity. Qed.
Lemma gen_clears_all s : clears_gen s = true.
Proof. destruct s; reflexivity. Qed.
Lemma gen_cached_slots : NBP_cached_slots_gen = all_slots.
Proof. reflexivity. Qed.
Lemma gen_cache_coherent (G E K V : Type) (ratio : E -> G -> K) (kval : K -> V) (fac : slot -> site -> K -> V)
  (inputs_bad : G -> E -> bool) (ratio_bad : site -> K -> bool) d g e ops :
    snd (run G E K V ratio kval fac inputs_bad ratio_bad NBP_setter_resets_gen clears_gen (init G E K V d g e) ops) =
    spec_run G E K V ratio kval fac inputs_bad ratio_bad (d, g, e) ops.
Proof. apply cache_coherent; [exact gen_resets_all|exact gen_clears_all]. Qed.
