(* C14 - the property theorems restated for the definitions GENERATED from the current source
   (build/C14/Nucleation_gen.v).  Theorems only, each closed by [exact] of a lemma of Bridge.v.
   Re-checked by every run of the check against the text generated in that run. *)
From Coq Require Import Reals List.
Require Import Kawin.Common.Ops Kawin.C14.Model Kawin.C14.Proofs.
Require Import KawinRun.Nucleation_gen KawinRun.Bridge.
Open Scope R_scope.

Theorem C14_gen_cf_identity_boundary k :
  GrainBoundary_areaFactor_gen k - 2 * k * GrainBoundary_gbRemoval_gen k = 3 * GrainBoundary_volumeFactor_gen k.
Proof. exact (gen_identity_boundary k). Qed.
Print Assumptions C14_gen_cf_identity_boundary.
Theorem C14_gen_cf_identity_edge k :
  GrainEdge_areaFactor_gen k - 2 * k * GrainEdge_gbRemoval_gen k = 3 * GrainEdge_volumeFactor_gen k.
Proof. exact (gen_identity_edge k). Qed.
Print Assumptions C14_gen_cf_identity_edge.
Theorem C14_gen_cf_identity_corner k :
  GrainCorner_areaFactor_gen k - 2 * k * GrainCorner_gbRemoval_gen k = 3 * GrainCorner_volumeFactor_gen k.
Proof. exact (gen_identity_corner k). Qed.
Print Assumptions C14_gen_cf_identity_corner.

Theorem C14_gen_cf_at_zero :
  (GrainBoundary_areaFactor_gen 0 = 4 * PI /\ GrainBoundary_volumeFactor_gen 0 = 4 * PI / 3 /\ GrainBoundary_gbRemoval_gen 0 = PI) /\
  (GrainEdge_areaFactor_gen 0 = 4 * PI /\ GrainEdge_volumeFactor_gen 0 = 4 * PI / 3 /\ GrainEdge_gbRemoval_gen 0 = 3 * (PI / 2)) /\
  (GrainCorner_areaFactor_gen 0 = 4 * PI /\ GrainCorner_volumeFactor_gen 0 = 4 * PI / 3 /\ GrainCorner_gbRemoval_gen 0 = 3 * acos (- (1 / 3))).
Proof. exact gen_at_zero. Qed.
Print Assumptions C14_gen_cf_at_zero.

Theorem C14_gen_bulk_is_sphere k :
  (Bulk_areaFactor_gen k = 4 * PI * 1 /\ Bulk_gbRemoval_gen k = 0 /\ Bulk_volumeFactor_gen k = 4 * PI / 3 * 1 /\ Bulk_areaRemoval_gen k = 1) /\
  (Dislocation_areaFactor_gen k = 4 * PI * 1 /\ Dislocation_gbRemoval_gen k = 0 /\ Dislocation_volumeFactor_gen k = 4 * PI / 3 * 1 /\ Dislocation_areaRemoval_gen k = 1).
Proof. exact (conj (gen_bulk k) (gen_disl k)). Qed.
Print Assumptions C14_gen_bulk_is_sphere.

Theorem C14_gen_cf_nonneg_boundary k : 0 <= k <= 1 ->
  0 <= GrainBoundary_areaFactor_gen k /\ 0 <= GrainBoundary_gbRemoval_gen k /\ 0 <= GrainBoundary_volumeFactor_gen k.
Proof. exact (gen_nonneg_boundary k). Qed.
Print Assumptions C14_gen_cf_nonneg_boundary.

Theorem C14_gen_limits :
  Bulk_maxRatio_gen = None /\ Dislocation_maxRatio_gen = None /\ GrainBoundary_maxRatio_gen = Some 1 /\
  GrainEdge_maxRatio_gen = Some (sqrt 3 / 2) /\ GrainCorner_maxRatio_gen = Some (sqrt (2 / 3)).
Proof. exact gen_maxRatio. Qed.
Print Assumptions C14_gen_limits.

(* every ratio accepted by _validateGBk is computed by the formula (never the placeholder) *)
Theorem C14_gen_validated_is_valid k m : ~ NBP_validateGBk_raises_gen k m -> createArrays_valid_gen k m.
Proof. exact (gen_validated_is_valid k m). Qed.
Print Assumptions C14_gen_validated_is_valid.

Theorem C14_gen_rcrit_is_sphere_boundary k gamma dG : 0 <= k < 1 -> dG <> 0 ->
  NBP_Rcrit_gen (GrainBoundary_areaFactor_gen k) gamma (GrainBoundary_gbRemoval_gen k) (2 * k * gamma) (GrainBoundary_volumeFactor_gen k) dG = 2 * gamma / dG.
Proof. intros H1 H2. replace (2 * k * gamma) with (2 * k * gamma) by ring. exact (gen_rcrit_sphere_boundary k gamma dG H1 H2). Qed.
Print Assumptions C14_gen_rcrit_is_sphere_boundary.
Theorem C14_gen_gcrit_at_rcrit_corner k gamma dG : dG <> 0 ->
  NBP_Gcrit_gen (GrainCorner_areaFactor_gen k) gamma (GrainCorner_gbRemoval_gen k) (2 * k * gamma) (GrainCorner_volumeFactor_gen k) dG (2 * gamma / dG) =
    (4 * PI / 3 * gamma * (2 * gamma / dG) ^ 2) * (GrainCorner_volumeFactor_gen k / (4 * PI / 3)).
Proof. exact (gen_gcrit_at_rcrit GrainCorner_areaFactor_gen GrainCorner_gbRemoval_gen GrainCorner_volumeFactor_gen k gamma dG (gen_identity_corner k)). Qed.
Print Assumptions C14_gen_gcrit_at_rcrit_corner.

(* cached factors: with the reset table read off the source, any sequence of assignments and reads
   returns what a fresh object with the current parameters returns *)
Theorem C14_gen_cache_coherent (G E K V : Type) (ratio : E -> G -> K) (kval : K -> V) (fac : slot -> site -> K -> V)
  (inputs_bad : G -> E -> bool) (ratio_bad : site -> K -> bool) d g e ops :
    snd (run G E K V ratio kval fac inputs_bad ratio_bad NBP_setter_resets_gen clears_gen (init G E K V d g e) ops) =
    spec_run G E K V ratio kval fac inputs_bad ratio_bad (d, g, e) ops.
Proof. exact (gen_cache_coherent G E K V ratio kval fac inputs_bad ratio_bad d g e ops). Qed.
Print Assumptions C14_gen_cache_coherent.
