(* C14 - theorems about the GENERATED definitions whose proofs use interval arithmetic (see
   GenPropertiesA.v for the others).  Theorems only. *)
From Coq Require Import Reals List.
Require Import Kawin.Common.Ops Kawin.C14.Model Kawin.C14.Proofs.
Require Import KawinRun.Nucleation_gen KawinRun.Bridge.
Open Scope R_scope.

Theorem C14_gen_cf_positive_edge k : 0 <= k <= 865 / 1000 ->
  0 < GrainEdge_areaFactor_gen k /\ 0 < GrainEdge_gbRemoval_gen k /\ 0 < GrainEdge_volumeFactor_gen k.
Proof. exact (gen_positive_edge k). Qed.
Print Assumptions C14_gen_cf_positive_edge.
Theorem C14_gen_cf_positive_corner k : 0 <= k <= 8155 / 10000 ->
  0 < GrainCorner_areaFactor_gen k /\ 0 < GrainCorner_gbRemoval_gen k /\ 0 < GrainCorner_volumeFactor_gen k.
Proof. exact (gen_positive_corner k). Qed.
Print Assumptions C14_gen_cf_positive_corner.
Theorem C14_gen_cf_volume_decreasing :
  (forall k1 k2, 0 <= k1 -> k1 < k2 -> k2 <= 1 -> GrainBoundary_volumeFactor_gen k2 < GrainBoundary_volumeFactor_gen k1) /\
  (forall k1 k2, 0 <= k1 -> k1 < k2 -> k2 <= 865 / 1000 -> GrainEdge_volumeFactor_gen k2 < GrainEdge_volumeFactor_gen k1) /\
  (forall k1 k2, 0 <= k1 -> k1 < k2 -> k2 <= 8155 / 10000 -> GrainCorner_volumeFactor_gen k2 < GrainCorner_volumeFactor_gen k1).
Proof. exact gen_volume_decreasing. Qed.
Print Assumptions C14_gen_cf_volume_decreasing.
Theorem C14_gen_rcrit_is_sphere_edge k gamma dG : 0 <= k <= 865 / 1000 -> dG <> 0 ->
  NBP_Rcrit_gen (GrainEdge_areaFactor_gen k) gamma (GrainEdge_gbRemoval_gen k) (2 * k * gamma) (GrainEdge_volumeFactor_gen k) dG = 2 * gamma / dG.
Proof. exact (gen_rcrit_sphere_edge k gamma dG). Qed.
Print Assumptions C14_gen_rcrit_is_sphere_edge.
Theorem C14_gen_rcrit_is_sphere_corner k gamma dG : 0 <= k <= 8155 / 10000 -> dG <> 0 ->
  NBP_Rcrit_gen (GrainCorner_areaFactor_gen k) gamma (GrainCorner_gbRemoval_gen k) (2 * k * gamma) (GrainCorner_volumeFactor_gen k) dG = 2 * gamma / dG.
Proof. exact (gen_rcrit_sphere_corner k gamma dG). Qed.
Print Assumptions C14_gen_rcrit_is_sphere_corner.
