(* C14 - harness-side driver: the state machine of the cached factors (Model.v) executed with the
   reset table GENERATED from the current source, on integer-coded parameters.
   gamma code: 0 = None, 1 = 0.0, >= 2 = index of a positive value; gbEnergy code: 0 = None.
   A returned factor value is identified by (slot, site, (gbEnergy code, gamma code)): the harness
   compares what the implementation returned with what a fresh object with those parameters returns. *)
From Coq Require Import ZArith List Bool.
Require Import Kawin.C14.Model.
Require Import KawinRun.Nucleation_gen KawinRun.Bridge.
Import ListNotations.
Open Scope Z_scope.

Definition cratio (e g : Z) : Z * Z := (e, g).
Definition ckval (k : Z * Z) : slot * site * (Z * Z) := (SGBk, Bulk, k).
Definition cfac (s : slot) (d : site) (k : Z * Z) : slot * site * (Z * Z) := (s, d, k).
Definition cbad (g e : Z) : bool := (g <=? 1) || (e =? 0).
(* table of (site, gbEnergy code, gamma code) whose ratio reaches the limit of the site type *)
Definition crbad (tbl : list (site * Z * Z)) (d : site) (k : Z * Z) : bool :=
  existsb (fun t => match t with (d', e, g) => site_eqb d d' && (e =? fst k) && (g =? snd k) end) tbl.

Definition cache_run (tbl : list (site * Z * Z)) (d : site) (g e : Z) (ops : list (op Z Z)) :=
  snd (run Z Z (Z * Z) (slot * site * (Z * Z)) cratio ckval cfac cbad (crbad tbl) NBP_setter_resets_gen clears_gen
        (init Z Z (Z * Z) (slot * site * (Z * Z)) d g e) ops).
