(* C14 - property theorems whose proofs use interval arithmetic (Analysis.v): grain-edge and
   grain-corner factors on [0, k_hi].  Theorems only; kept apart from Properties.v because
   Print Assumptions over the Interval library takes seconds per theorem (the check compiles the two
   files in parallel). *)
From Coq Require Import Reals List.
Require Import Kawin.Common.Ops Kawin.C14.Model Kawin.C14.Proofs Kawin.C14.Analysis.
Open Scope R_scope.


(* grain edges, on [0, 0.865] (the limit is sqrt 3 / 2 = 0.86602...) *)
Theorem C14_cf_positive_edge k : 0 <= k <= 865 / 1000 -> 0 < edge_a k /\ 0 < edge_b k /\ 0 < edge_c k.
Proof. exact (edge_pos k). Qed.
Print Assumptions C14_cf_positive_edge.
Theorem C14_cf_volume_decreasing_edge k1 k2 : 0 <= k1 -> k1 < k2 -> k2 <= 865 / 1000 -> edge_c k2 < edge_c k1.
Proof. exact (edge_c_decreasing k1 k2). Qed.
Print Assumptions C14_cf_volume_decreasing_edge.
(* grain corners, on [0, 0.8155] (the limit is sqrt (2/3) = 0.81649...) *)
Theorem C14_cf_positive_corner k : 0 <= k <= 8155 / 10000 -> 0 < corner_a k /\ 0 < corner_b k /\ 0 < corner_c k.
Proof. exact (corner_pos k). Qed.
Print Assumptions C14_cf_positive_corner.
Theorem C14_cf_volume_decreasing_corner k1 k2 : 0 <= k1 -> k1 < k2 -> k2 <= 8155 / 10000 -> corner_c k2 < corner_c k1.
Proof. exact (corner_c_decreasing k1 k2). Qed.
Print Assumptions C14_cf_volume_decreasing_corner.
(* the proved ranges lie inside the admissible ones *)
Theorem C14_proved_ranges_admissible : 865 / 1000 < edge_kmax /\ 8155 / 10000 < corner_kmax.
Proof. exact (conj edge_hi_lt_kmax corner_hi_lt_kmax). Qed.
Print Assumptions C14_proved_ranges_admissible.
