(* C14 - Nucleation quantities obey classical nucleation theory for every site type.
   Executable / definitional part only (no proofs).

   1. discrete vocabulary shared with the GENERATED file build/C14/Nucleation_gen.v
   2. Spec: hand-written Clemm-Fisher factors (kawin/precipitation/parameters/Nucleation.py); the
      generated definitions are proved equal to these in run/Bridge.v, the deep theorems are about these
   3. hand model of kawin/precipitation/NucleationRate.py over R (mask idioms x[indices] = ... are [if])
   4. hand model of PrecipitateModel._calcNucleationSites (kawin/precipitation/KWNEuler.py) over [Ops]
   5. state machine of the cached factors of NucleationBarrierParameters *)
From Coq Require Import Reals List Bool ZArith Arith.
Require Import Kawin.Common.Ops Kawin.Common.Vec.
Import ListNotations.

(* ---- 1. vocabulary ------------------------------------------------------------------------- *)
Inductive site := Bulk | Disl | GB | Edge | Corner.
Inductive slot := SGBk | SArea | SVol | SGbRem | SAreaRem.
Inductive param := PDesc | PGamma | PGbE.

Definition site_eqb (a b : site) : bool :=
  match a, b with Bulk, Bulk | Disl, Disl | GB, GB | Edge, Edge | Corner, Corner => true | _, _ => false end.
Definition slot_eqb (a b : slot) : bool :=
  match a, b with SGBk, SGBk | SArea, SArea | SVol, SVol | SGbRem, SGbRem | SAreaRem, SAreaRem => true | _, _ => false end.
Definition all_slots : list slot := [SGBk; SArea; SVol; SGbRem; SAreaRem].
Definition all_params : list param := [PDesc; PGamma; PGbE].

Open Scope R_scope.

(* ---- 2. Spec: Clemm-Fisher factors --------------------------------------------------------- *)
(* naming: _a area factor (surface of the nucleus / r^2), _b grain-boundary area removed / r^2,
   _c volume factor (volume / r^3), _r radius of the removed boundary area / r *)
Definition bulk_a (k : R) : R := 4 * PI * 1.
Definition bulk_b (k : R) : R := 0.
Definition bulk_c (k : R) : R := 4 * PI / 3 * 1.
Definition bulk_r (k : R) : R := 1.

Definition gb_kmax : R := 1.
Definition gb_a (k : R) : R := 4 * PI * (1 - k).
Definition gb_b (k : R) : R := PI * (1 - k ^ 2).
Definition gb_c (k : R) : R := 2 * PI / 3 * (2 - 3 * k + k ^ 3).
Definition gb_r (k : R) : R := sqrt (gb_b k / PI).

Definition edge_kmax : R := sqrt 3 / 2.
Definition edge_alpha (k : R) : R := asin (1 / (2 * sqrt (1 - k ^ 2))).
Definition edge_beta (k : R) : R := acos (k / sqrt (3 * (1 - k ^ 2))).
Definition edge_a (k : R) : R := 12 * (PI / 2 - edge_alpha k - k * edge_beta k).
Definition edge_b (k : R) : R := 3 * edge_beta k * (1 - k ^ 2) - k * sqrt (3 - 4 * k ^ 2).
Definition edge_c (k : R) : R :=
  2 * (PI - 2 * edge_alpha k + k ^ 2 / 3 * sqrt (3 - 4 * k ^ 2) - edge_beta k * k * (3 - k ^ 2)).
Definition edge_r (k : R) : R := sqrt (edge_b k / PI).

Definition corner_kmax : R := sqrt (2 / 3).
Definition corner_K (k : R) : R := 4 / 3 * sqrt (3 / 2 - 2 * k ^ 2) - 2 * k / 3.
Definition corner_phi (k : R) : R := asin (corner_K k / (2 * sqrt (1 - k ^ 2))).
Definition corner_delta (k : R) : R :=
  acos ((sqrt 2 - k * sqrt (3 - corner_K k ^ 2)) / (corner_K k * sqrt (1 - k ^ 2))).
(* the recurring term  sqrt(1 - k^2 - K^2/4) - K/sqrt 8  (K/sqrt 8, NOT K^2/sqrt 8: see Examples.v) *)
Definition corner_t (k : R) : R := sqrt (1 - k ^ 2 - corner_K k ^ 2 / 4) - corner_K k / sqrt 8.
Definition corner_a (k : R) : R := 24 * (PI / 3 - k * corner_phi k - corner_delta k).
Definition corner_b (k : R) : R := 3 * (2 * corner_phi k * (1 - k ^ 2) - corner_K k * corner_t k).
Definition corner_c (k : R) : R :=
  2 * (4 * (PI / 3 - corner_delta k) + k * corner_K k * corner_t k - 2 * k * corner_phi k * (3 - k ^ 2)).
Definition corner_r (k : R) : R := sqrt (corner_b k / PI).

(* the transcription that kawin had before the repair (K^2/sqrt 8) - kept for the refutation witness *)
Definition corner_t_old (k : R) : R := sqrt (1 - k ^ 2 - corner_K k ^ 2 / 4) - corner_K k ^ 2 / sqrt 8.
Definition corner_b_old (k : R) : R := 3 * (2 * corner_phi k * (1 - k ^ 2) - corner_K k * corner_t_old k).

Definition kmax (s : site) : option R :=
  match s with Bulk | Disl => None | GB => Some gb_kmax | Edge => Some edge_kmax | Corner => Some corner_kmax end.
Definition fac_a (s : site) : R -> R :=
  match s with Bulk | Disl => bulk_a | GB => gb_a | Edge => edge_a | Corner => corner_a end.
Definition fac_b (s : site) : R -> R :=
  match s with Bulk | Disl => bulk_b | GB => gb_b | Edge => edge_b | Corner => corner_b end.
Definition fac_c (s : site) : R -> R :=
  match s with Bulk | Disl => bulk_c | GB => gb_c | Edge => edge_c | Corner => corner_c end.
Definition fac_r (s : site) : R -> R :=
  match s with Bulk | Disl => bulk_r | GB => gb_r | Edge => edge_r | Corner => corner_r end.

Definition gbRatio (gbEnergy gamma : R) : R := gbEnergy / (2 * gamma).

(* public wrappers description.areaFactor(gbk, setInvalidToNan=False) etc.: the formula where the
   ratio is below the limit of the site type, the placeholder -1 elsewhere *)
Definition valid_ratio (s : site) (k : R) : Prop := match kmax s with None => True | Some m => k < m end.
Definition wrapper (s : site) (f : R -> R) (k : R) : R :=
  match kmax s with None => f k | Some m => if Rlt_dec k m then f k else -1 end.
(* NucleationBarrierParameters._validateGBk (repaired: >=) *)
Definition validate_raises (s : site) (k : R) : Prop := match kmax s with None => False | Some m => k >= m end.

(* NucleationBarrierParameters.Rcrit / Gcrit: radius at the maximum of the formation energy, and
   the formation energy of a nucleus of radius R *)
Definition NBP_Rcrit (a gamma b gbE c dG : R) : R := 2 * (a * gamma - b * gbE) / (3 * c * dG).
Definition NBP_Gcrit (a gamma b gbE c dG Rc : R) : R := Rc ^ 2 * (a * gamma - b * gbE - c * dG * Rc).

(* ---- 3. kawin/precipitation/NucleationRate.py ---------------------------------------------- *)
(* kawin/Constants.py: GAS_CONSTANT = 8.314, AVOGADROS_NUMBER = 6.022e23, BOLTZMANN = ratio *)
Definition NA : R := 6022 * 10 ^ 20.
Definition kB : R := 8314 / 1000 / NA.

(* nucleationBarrier, bulk / dislocation branch; thermo = shape thermoFactor(aspectRatio) *)
Definition barrier_bulk (thermo gamma Rmin_ dG : R) : R * R :=
  if Rlt_dec 0 dG then
    let Rc := Rmax (2 * thermo * gamma / dG) Rmin_ in (Rc, 4 * PI / 3 * gamma * Rc ^ 2)
  else (0, 0).
(* grain boundary / edge / corner branch (after the repair "barrier stays positive when R* is
   raised to Rmin": one third of the interfacial term times Rcrit^2, as in the bulk branch) *)
Definition barrier_gb (a gamma b gbE c Rmin_ dG : R) : R * R :=
  if Rlt_dec 0 dG then
    let Rc := Rmax (NBP_Rcrit a gamma b gbE c dG) Rmin_ in (Rc, (a * gamma - b * gbE) / 3 * Rc ^ 2)
  else (0, 0).
(* what the unrepaired code computed for the barrier: formation energy at the clamped radius *)
Definition barrier_gb_old (a gamma b gbE c Rmin_ dG : R) : R * R :=
  if Rlt_dec 0 dG then
    let Rc := Rmax (NBP_Rcrit a gamma b gbE c dG) Rmin_ in (Rc, NBP_Gcrit a gamma b gbE c dG Rc)
  else (0, 0).

Definition zeldovich (vf Vm gamma T Rc : R) : R :=
  if Req_EM_T Rc 0 then 0
  else sqrt (3 * vf / (4 * PI)) * Vm * sqrt (gamma / (kB * T)) / (2 * PI * NA * Rc ^ 2).

(* betaBinary1: af * Rcrit^2 * x * D / a^4 *)
Definition beta1 (af Rc x D a : R) : R :=
  if Req_EM_T Rc 0 then 0 else af * Rc ^ 2 * x * D / a ^ 4.
(* betaBinary2 with interfacial compositions xa, xb and tracer diffusivities D0 (solvent), D1 (solute) *)
Definition beta2 (af Rc xa xb D0 D1 a : R) : R :=
  if Req_EM_T Rc 0 then 0
  else af * Rc ^ 2 * (1 / ((xb - xa) ^ 2 / (xa * D1) + (xb - xa) ^ 2 / ((1 - xa) * D0))) / a ^ 4.

Definition incubationTime (theta beta Z : R) : R :=
  if Req_EM_T Z 0 then 0 else 1 / (theta * beta * Z ^ 2).

(* the incubation factor min(exp(-tau/t), 1) *)
Definition incubation_factor (tau t : R) : R := Rmin (exp (- tau / t)) 1.

Definition nucleationRate (Z beta G T tau t : R) : R :=
  if Req_EM_T G 0 then 0 else Z * beta * exp (- G / (kB * T)) * incubation_factor tau t.
(* time = 0 (the first evaluation of a run, KWNBase passes time = t): binary64 gives -tau/0 = -inf for tau > 0,
   exp(-inf) = 0, so the incubation factor is 0; entries without barrier (Gcrit = 0) are masked and stay 0.
   (tau = 0 with Gcrit <> 0 would be 0/0; the chain nucleationBarrier -> zeldovich -> incubationTime never produces it
   for a positive volume factor, and the statements about this definition are guarded by 0 < tau.) *)
Definition incubation_factor_ext (tau t : R) : R := if Req_EM_T t 0 then 0 else incubation_factor tau t.
Definition nucleationRate_ext (Z beta G T tau t : R) : R :=
  if Req_EM_T G 0 then 0 else Z * beta * exp (- G / (kB * T)) * incubation_factor_ext tau t.
(* time = np.inf (steady state): -tau/inf = -0, the factor is min(exp 0, 1) = 1 *)
Definition nucleationRate_ss (Z beta G T : R) : R :=
  if Req_EM_T G 0 then 0 else Z * beta * exp (- G / (kB * T)) * 1.

Definition nucleationRadius (T Rc gamma : R) : R := Rc + / 2 * sqrt (kB * T / (PI * gamma)).

(* steady-state pipeline of computeSteadyStateNucleation / KWNBase._calcNucleationRate at fixed
   temperature, as a function of the driving force.  A barrier is any function dG -> (Rcrit, Gcrit);
   the impingement rate is kbeta * Rcrit^2 (betaBinary1/2, betaMulti all have this shape with kbeta
   independent of Rcrit). *)
Definition steady_rate (barrier : R -> R * R) (vf Vm gamma T kbeta : R) (dG : R) : R :=
  let '(Rc, G) := barrier dG in
  let Z := zeldovich vf Vm gamma T Rc in
  let beta := if Req_EM_T Rc 0 then 0 else kbeta * Rc ^ 2 in
  nucleationRate_ss Z beta G T.

Close Scope R_scope.

(* ---- 4. PrecipitateModel._calcNucleationSites ----------------------------------------------- *)
Section Sites.
Variable O : Ops.
Notation t := (T O).

Record phase := mkPhase {
  ph_site : site;          (* nucleation description of the phase *)
  ph_r : list t;           (* PBM.PSDsize *)
  ph_n : list t;           (* number density per class (x[p]) *)
  ph_gbRemoval : t;        (* nucParams.gbRemoval (used when the site is GB) *)
  ph_edgeW : t;            (* sqrt(1 - GBk^2)     (used when the site is Edge) *)
  ph_surf : t }.           (* (N_A / Vm_beta)^(2/3) *)

(* PBM.MomentFromN(N, order) = sum(N * PSDsize**order) *)
Definition moment (j : nat) (p : phase) : t :=
  sumT O (zipWith (fun n r => mul O n (powT O r j)) (ph_n p) (ph_r p)).

(* isinstance(description, BulkDescription): DislocationDescription derives from BulkDescription,
   so a dislocation phase takes the bulk branch (the `elif isinstance(..., DislocationDescription)`
   branch of the code is unreachable); mirrored here *)
Definition isinstance_bulk (s : site) : bool := match s with Bulk | Disl => true | _ => false end.

Record matrix := mkMatrix {
  m_bulkN0 : t; m_dislN0 : t; m_areaN0 : t; m_edgeN0 : t; m_cornerN0 : t;
  m_conv1 : t;             (* (N_A / Vm_alpha)^(1/3) *)
  m_conv2 : t;             (* (N_A / Vm_alpha)^(2/3) *)
  m_fourpi : t }.          (* 4 pi *)

Definition sum_over (sel : phase -> bool) (w : phase -> t) (phs : list phase) : t :=
  sumT O (map w (filter sel phs)).

Definition parent_sites (M : matrix) (phs : list phase) (parents : list nat) : t :=
  sumT O (map (fun p2 => match nth_error phs p2 with
                         | Some q => mul O (mul O (m_fourpi M) (moment 2 q)) (ph_surf q)
                         | None => zero O end) parents).

(* the amount subtracted from the site density (already converted to a number of sites) *)
Definition used_sites (M : matrix) (phs : list phase) (s : site) : t :=
  if isinstance_bulk s then sum_over (fun q => isinstance_bulk (ph_site q)) (moment 0) phs
  else match s with
       | GB => mul O (sum_over (fun q => site_eqb (ph_site q) GB) (fun q => mul O (ph_gbRemoval q) (moment 2 q)) phs) (m_conv2 M)
       | Edge => mul O (sum_over (fun q => site_eqb (ph_site q) Edge) (fun q => mul O (ph_edgeW q) (moment 1 q)) phs) (m_conv1 M)
       | _ => sum_over (fun q => site_eqb (ph_site q) Corner) (moment 0) phs
       end.
Definition total_sites (M : matrix) (s : site) : t :=
  if isinstance_bulk s then m_bulkN0 M
  else match s with GB => m_areaN0 M | Edge => m_edgeN0 M | _ => m_cornerN0 M end.

Definition calcNucleationSites (M : matrix) (phs : list phase) (parents : list nat) (s : site) : t :=
  maxT O (add O (parent_sites M phs parents) (sub O (total_sites M s) (used_sites M phs s))) (zero O).
End Sites.

Arguments mkPhase {O}. Arguments mkMatrix {O}.
Arguments ph_site {O}. Arguments ph_r {O}. Arguments ph_n {O}. Arguments ph_gbRemoval {O}. Arguments ph_edgeW {O}. Arguments ph_surf {O}.

(* ---- 5. cached factors of NucleationBarrierParameters --------------------------------------- *)
(* The values are abstract: G (interfacial energy values, including None / 0), E (grain boundary
   energy values), K (ratios), V (factor values).  The class reads factors through caches that
   setters are supposed to clear.  [resets p] says whether the setter of p calls _resetFactors and
   [clears s] whether _resetFactors clears slot s: both are read off the source by the translator. *)
Section Cache.
Variables G E K V : Type.
Variable ratio : E -> G -> K.                (* description.gbRatio(gbEnergy, gamma) *)
Variable kval : K -> V.                      (* a ratio seen as a returned value (the GBk property) *)
Variable fac : slot -> site -> K -> V.       (* description.<factor>(GBk, setInvalidToNan=False) *)
Variable inputs_bad : G -> E -> bool.        (* _validateInputs raises *)
Variable ratio_bad : site -> K -> bool.      (* _validateGBk raises *)
Variable resets : param -> bool.
Variable clears : slot -> bool.

Record nbp := mkNbp { n_desc : site; n_gamma : G; n_gbE : E; n_k : option K; n_cache : slot -> option V }.

Inductive op := SetDesc (s : site) | SetGamma (g : G) | SetGbE (e : E) | Read (s : slot).
Inductive outcome := Value (v : V) | Raised | Silent.

Definition do_reset (st : nbp) : nbp :=
  mkNbp (n_desc st) (n_gamma st) (n_gbE st)
        (if clears SGBk then None else n_k st)
        (fun s => if clears s then None else n_cache st s).
Definition maybe_reset (p : param) (st : nbp) : nbp := if resets p then do_reset st else st.

(* the GBk property: validate inputs, compute and store the ratio if it is not cached *)
Definition read_k (st : nbp) : nbp * option K :=
  match n_k st with
  | Some k => (st, Some k)
  | None => if inputs_bad (n_gamma st) (n_gbE st) then (st, None)
            else let k := ratio (n_gbE st) (n_gamma st) in
                 (mkNbp (n_desc st) (n_gamma st) (n_gbE st) (Some k) (n_cache st), Some k)
  end.

Definition set_cache (st : nbp) (s : slot) (v : V) : nbp :=
  mkNbp (n_desc st) (n_gamma st) (n_gbE st) (n_k st) (fun s' => if slot_eqb s' s then Some v else n_cache st s').

Definition step (st : nbp) (o : op) : nbp * outcome :=
  match o with
  | SetDesc s => (maybe_reset PDesc (mkNbp s (n_gamma st) (n_gbE st) (n_k st) (n_cache st)), Silent)
  | SetGamma g => (maybe_reset PGamma (mkNbp (n_desc st) g (n_gbE st) (n_k st) (n_cache st)), Silent)
  | SetGbE e => (maybe_reset PGbE (mkNbp (n_desc st) (n_gamma st) e (n_k st) (n_cache st)), Silent)
  | Read SGBk => match read_k st with (st', Some k) => (st', Value (kval k)) | (st', None) => (st', Raised) end
  | Read s =>
      match n_cache st s with
      | Some v => (st, Value v)
      | None =>
          (* _validateGBk evaluates self.GBk first (which may raise or fill the ratio cache) *)
          match read_k st with
          | (st', None) => (st', Raised)
          | (st', Some k) =>
              if ratio_bad (n_desc st') k then (st', Raised)
              else let v := fac s (n_desc st') k in (set_cache st' s v, Value v)
          end
      end
  end.

Fixpoint run (st : nbp) (ops : list op) : nbp * list outcome :=
  match ops with
  | [] => (st, [])
  | o :: r => let '(st1, out) := step st o in let '(st2, outs) := run st1 r in (st2, out :: outs)
  end.

(* what a freshly constructed object with the current parameters returns for a read *)
Definition fresh_read (d : site) (g : G) (e : E) (s : slot) : outcome :=
  if inputs_bad g e then Raised
  else let k := ratio e g in
       match s with
       | SGBk => Value (kval k)
       | _ => if ratio_bad d k then Raised else Value (fac s d k)
       end.

Definition init (d : site) (g : G) (e : E) : nbp := mkNbp d g e None (fun _ => None).
End Cache.

Arguments mkNbp {G E K V}. Arguments n_desc {G E K V}. Arguments n_gamma {G E K V}. Arguments n_gbE {G E K V}.
Arguments n_k {G E K V}. Arguments n_cache {G E K V}.
Arguments SetDesc {G E}. Arguments SetGamma {G E}. Arguments SetGbE {G E}. Arguments Read {G E}.
Arguments Value {V}. Arguments Raised {V}. Arguments Silent {V}.
