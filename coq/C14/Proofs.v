(* C14 - lemmas about the model (Model.v): Clemm-Fisher identities and limits, grain-boundary
   polynomials, consequences for Rcrit / Gcrit, sign and monotonicity of the classical-nucleation
   quantities, the number of nucleation sites, coherence of the cached factors.
   The transcendental inequalities for grain edges and corners are in Analysis.v. *)
From Coq Require Import Reals List Lra Lia Psatz Bool.
Require Import Kawin.Common.Ops Kawin.Common.Vec Kawin.C14.Model.
Import ListNotations.
Open Scope R_scope.
Tactic Notation "lra" := (cbn [T zero one add sub mul dvd ltb Rops] in *; Lra.lra).
Tactic Notation "nra" := (cbn [T zero one add sub mul dvd ltb Rops] in *; Psatz.nra).

(* ---- identities ---- *)
Lemma cf_identity_boundary k : gb_a k - 2 * k * gb_b k = 3 * gb_c k.
Proof. unfold gb_a, gb_b, gb_c. field. Qed.
Lemma cf_identity_edge k : edge_a k - 2 * k * edge_b k = 3 * edge_c k.
Proof. unfold edge_a, edge_b, edge_c. field. Qed.
Lemma sqrt8_neq : sqrt 8 <> 0.
Proof. apply Rgt_not_eq, sqrt_lt_R0. lra. Qed.
Lemma cf_identity_corner k : corner_a k - 2 * k * corner_b k = 3 * corner_c k.
Proof. unfold corner_a, corner_b, corner_c. field. Qed.
Lemma cf_identity_bulk k : bulk_a k - 2 * k * bulk_b k = 3 * bulk_c k.
Proof. unfold bulk_a, bulk_b, bulk_c. field. Qed.

(* ---- k = 0 ---- *)
Lemma gb_at_zero : gb_a 0 = 4 * PI /\ gb_c 0 = 4 * PI / 3 /\ gb_b 0 = PI.
Proof. unfold gb_a, gb_b, gb_c. repeat split; field. Qed.

Lemma asin_half : asin (1 / 2) = PI / 6.
Proof. rewrite <- sin_PI6. apply asin_sin. pose proof PI_RGT_0. lra. Qed.

Lemma edge_at_zero : edge_a 0 = 4 * PI /\ edge_c 0 = 4 * PI / 3 /\ edge_b 0 = 3 * (PI / 2).
Proof.
  assert (Ha : edge_alpha 0 = PI / 6).
  { unfold edge_alpha. replace (1 - 0 ^ 2) with 1 by ring. rewrite sqrt_1. replace (1 / (2 * 1)) with (1 / 2) by field. apply asin_half. }
  assert (Hb : edge_beta 0 = PI / 2).
  { unfold edge_beta. replace (0 / _) with 0 by (unfold Rdiv; ring). apply acos_0. }
  unfold edge_a, edge_b, edge_c. rewrite Ha, Hb. repeat split; field.
Qed.

Lemma sq32 : sqrt (3/2) * sqrt (3/2) = 3/2. Proof. apply sqrt_sqrt; lra. Qed.
Lemma sq8 : sqrt 8 * sqrt 8 = 8. Proof. apply sqrt_sqrt; lra. Qed.
Lemma sq2 : sqrt 2 * sqrt 2 = 2. Proof. apply sqrt_sqrt; lra. Qed.
Lemma sq3 : sqrt 3 * sqrt 3 = 3. Proof. apply sqrt_sqrt; lra. Qed.
Lemma sq32_pos : 0 < sqrt (3/2). Proof. apply sqrt_lt_R0; lra. Qed.
Lemma sq8_pos : 0 < sqrt 8. Proof. apply sqrt_lt_R0; lra. Qed.

Lemma corner_K_0 : corner_K 0 = 4 / 3 * sqrt (3 / 2).
Proof. unfold corner_K. replace (3 / 2 - 2 * 0 ^ 2) with (3/2) by field. field. Qed.

Lemma corner_K_0_sqr : corner_K 0 * corner_K 0 = 8 / 3.
Proof. rewrite corner_K_0. pose proof sq32. nra. Qed.

Lemma corner_t_0 : corner_t 0 = 0.
Proof.
  unfold corner_t. pose proof corner_K_0_sqr as HK. pose proof sq8 as H8. pose proof sq8_pos as P8.
  assert (P : 0 < corner_K 0) by (rewrite corner_K_0; pose proof sq32_pos; lra).
  replace (1 - 0 ^ 2 - corner_K 0 ^ 2 / 4) with (1/3) by (simpl; lra).
  assert (E : sqrt (1/3) = corner_K 0 / sqrt 8).
  { apply sqrt_lem_1; [lra| apply Rlt_le, Rdiv_lt_0_compat; lra |].
    unfold Rdiv. replace (corner_K 0 * / sqrt 8 * (corner_K 0 * / sqrt 8)) with ((corner_K 0 * corner_K 0) * / (sqrt 8 * sqrt 8)) by (field; lra).
    rewrite HK, H8. field. }
  rewrite E. ring.
Qed.

Lemma corner_delta_0 : corner_delta 0 = PI / 6.
Proof.
  unfold corner_delta. rewrite corner_K_0.
  replace (1 - 0 ^ 2) with 1 by ring. rewrite sqrt_1.
  replace ((sqrt 2 - 0 * sqrt (3 - (4 / 3 * sqrt (3 / 2)) ^ 2)) / (4 / 3 * sqrt (3 / 2) * 1)) with (sqrt 3 / 2).
  - rewrite <- cos_PI6. apply acos_cos. pose proof PI_RGT_0. lra.
  - assert (E : sqrt (3/2) = sqrt 3 / sqrt 2) by (apply sqrt_div_alt; lra). rewrite E.
    pose proof sq2 as H2. pose proof sq3 as H3.
    assert (P2 : 0 < sqrt 2) by (apply sqrt_lt_R0; lra). assert (P3 : 0 < sqrt 3) by (apply sqrt_lt_R0; lra).
    replace (sqrt 2 - 0 * sqrt (3 - (4 / 3 * (sqrt 3 / sqrt 2)) ^ 2)) with (sqrt 2 * sqrt 2 / sqrt 2) by (field; lra).
    replace (sqrt 3 / 2) with (sqrt 3 * sqrt 3 / (2 * sqrt 3)) by (field; lra).
    rewrite H2, H3. field. lra.
Qed.

Lemma asin_nonneg x : 0 <= x <= 1 -> 0 <= asin x.
Proof.
  intros Hx. destruct (Rle_lt_dec 0 (asin x)) as [H|H]; [exact H|exfalso].
  assert (Hs : sin (asin x) = x) by (apply sin_asin; lra).
  pose proof (asin_bound x) as Hb. pose proof PI_RGT_0.
  assert (sin (asin x) < 0) by (apply sin_lt_0_var; lra). lra.
Qed.

Lemma corner_phi_0 : 2 * corner_phi 0 = acos (- (1 / 3)).
Proof.
  unfold corner_phi. replace (1 - 0 ^ 2) with 1 by ring. rewrite sqrt_1.
  set (x := corner_K 0 / (2 * 1)).
  assert (Hx2 : x * x = 2 / 3) by (unfold x; pose proof corner_K_0_sqr; nra).
  assert (Hx : 0 <= x <= 1).
  { assert (0 < corner_K 0) by (rewrite corner_K_0; pose proof sq32_pos; lra).
    assert (0 < x) by (unfold x; apply Rdiv_lt_0_compat; lra). split; [lra|nra]. }
  assert (Hs : sin (asin x) = x) by (apply sin_asin; lra).
  assert (Hb : 0 <= asin x <= PI / 2).
  { split; [apply asin_nonneg; lra|apply asin_bound]. }
  rewrite <- (acos_cos (2 * asin x)) by lra.
  f_equal. rewrite cos_2a_sin, Hs. lra.
Qed.

Lemma corner_at_zero : corner_a 0 = 4 * PI /\ corner_c 0 = 4 * PI / 3 /\ corner_b 0 = 3 * acos (- (1 / 3)).
Proof.
  unfold corner_a, corner_b, corner_c. rewrite corner_delta_0, corner_t_0, <- corner_phi_0.
  repeat split; field.
Qed.

Lemma sq_gt_0 x : x <> 0 -> 0 < x ^ 2.
Proof. intros H. replace (x ^ 2) with (Rsqr x) by (unfold Rsqr; ring). apply Rsqr_pos_lt; exact H. Qed.

Lemma inv_nonneg y : 0 <= y -> 0 <= / y.
Proof. intros [H|<-]; [apply Rlt_le, Rinv_0_lt_compat; exact H|rewrite Rinv_0; lra]. Qed.

(* ---- boundary: sign and monotonicity (polynomials) ---- *)
Lemma gb_nonneg k : 0 <= k <= 1 -> 0 <= gb_a k /\ 0 <= gb_b k /\ 0 <= gb_c k.
Proof.
  intros Hk. pose proof PI_RGT_0 as HP. unfold gb_a, gb_b, gb_c. repeat split.
  - apply Rmult_le_pos; lra.
  - apply Rmult_le_pos; [lra|nra].
  - apply Rmult_le_pos; [lra|]. replace (2 - 3 * k + k ^ 3) with ((1 - k) ^ 2 * (2 + k)) by ring.
    apply Rmult_le_pos; [apply pow2_ge_0|lra].
Qed.
Lemma gb_c_pos k : 0 <= k < 1 -> 0 < gb_c k.
Proof.
  intros Hk. pose proof PI_RGT_0 as HP. unfold gb_c.
  apply Rmult_lt_0_compat; [lra|]. replace (2 - 3 * k + k ^ 3) with ((1 - k) ^ 2 * (2 + k)) by ring.
  apply Rmult_lt_0_compat; [|lra]. apply pow_lt; lra.
Qed.
Lemma gb_c_decreasing k1 k2 : 0 <= k1 -> k1 <= k2 -> k2 <= 1 -> gb_c k2 <= gb_c k1.
Proof.
  intros H0 H12 H1. pose proof PI_RGT_0 as HP. unfold gb_c.
  apply Rmult_le_compat_l; [lra|].
  assert (0 <= (k2 - k1) * (3 - (k1 * k1 + k1 * k2 + k2 * k2))) by (apply Rmult_le_pos; nra).
  nra.
Qed.
Lemma gb_c_strictly_decreasing k1 k2 : 0 <= k1 -> k1 < k2 -> k2 <= 1 -> gb_c k2 < gb_c k1.
Proof.
  intros H0 H12 H1. pose proof PI_RGT_0 as HP. unfold gb_c.
  apply Rmult_lt_compat_l; [lra|].
  assert (0 < (k2 - k1) * (3 - (k1 * k1 + k1 * k2 + k2 * k2))) by (apply Rmult_lt_0_compat; nra).
  nra.
Qed.

(* ---- consequences of the identity for Rcrit / Gcrit ---- *)
Lemma gb_rcrit_is_sphere a b c k gamma dG :
  a - 2 * k * b = 3 * c -> c <> 0 -> dG <> 0 ->
  NBP_Rcrit a gamma b (2 * k * gamma) c dG = 2 * gamma / dG.
Proof.
  intros Hid Hc Hd. unfold NBP_Rcrit.
  replace (a * gamma - b * (2 * k * gamma)) with (gamma * (a - 2 * k * b)) by ring. rewrite Hid. field. split; assumption.
Qed.
(* formation energy at the critical radius = spherical barrier (4 pi/3) gamma R*^2 times c / (4 pi / 3) *)
Lemma gb_gcrit_is_sphere_scaled a b c k gamma dG :
  a - 2 * k * b = 3 * c -> dG <> 0 ->
  NBP_Gcrit a gamma b (2 * k * gamma) c dG (2 * gamma / dG) = (4 * PI / 3 * gamma * (2 * gamma / dG) ^ 2) * (c / (4 * PI / 3)).
Proof.
  intros Hid Hd. unfold NBP_Gcrit. pose proof PI_RGT_0.
  replace (a * gamma - b * (2 * k * gamma)) with (gamma * (a - 2 * k * b)) by ring. rewrite Hid. field. split; lra.
Qed.
(* the barrier of the (repaired) grain-boundary branch, for EVERY driving force, clamped radius or not *)
Lemma barrier_gb_is_sphere_scaled a b c k gamma Rmin_ dG :
  a - 2 * k * b = 3 * c -> c <> 0 -> 
  barrier_gb a gamma b (2 * k * gamma) c Rmin_ dG =
    (fst (barrier_bulk 1 gamma Rmin_ dG), snd (barrier_bulk 1 gamma Rmin_ dG) * (c / (4 * PI / 3))).
Proof.
  intros Hid Hc. unfold barrier_gb, barrier_bulk. pose proof PI_RGT_0.
  destruct (Rlt_dec 0 dG) as [Hd|Hd]; cbn [fst snd].
  - rewrite (gb_rcrit_is_sphere a b c k gamma dG Hid Hc) by lra.
    replace (2 * 1 * gamma / dG) with (2 * gamma / dG) by (field; lra).
    f_equal. replace (a * gamma - b * (2 * k * gamma)) with (gamma * (a - 2 * k * b)) by ring. rewrite Hid. field. lra.
  - f_equal. ring.
Qed.

(* ---- generic barrier shape: Rcrit = max(p/dG, Rmin), Gcrit = q Rcrit^2 ---- *)
Definition barrier_pq (p q Rmin_ dG : R) : R * R :=
  if Rlt_dec 0 dG then let Rc := Rmax (p / dG) Rmin_ in (Rc, q * Rc ^ 2) else (0, 0).
Lemma barrier_bulk_pq thermo gamma Rmin_ dG :
  barrier_bulk thermo gamma Rmin_ dG = barrier_pq (2 * thermo * gamma) (4 * PI / 3 * gamma) Rmin_ dG.
Proof. reflexivity. Qed.
Lemma barrier_gb_pq a gamma b gbE c Rmin_ dG : c <> 0 ->
  barrier_gb a gamma b gbE c Rmin_ dG = barrier_pq (2 * (a * gamma - b * gbE) / (3 * c)) ((a * gamma - b * gbE) / 3) Rmin_ dG.
Proof.
  intros Hc. unfold barrier_gb, barrier_pq, NBP_Rcrit. destruct (Rlt_dec 0 dG); [|reflexivity].
  replace (2 * (a * gamma - b * gbE) / (3 * c * dG)) with (2 * (a * gamma - b * gbE) / (3 * c) / dG) by (field; split; lra). reflexivity.
Qed.

Lemma rcrit_ge_rmin p q Rmin_ dG : 0 < dG -> Rmin_ <= fst (barrier_pq p q Rmin_ dG).
Proof. intros H. unfold barrier_pq. destruct (Rlt_dec 0 dG); [|lra]. cbn. apply Rmax_r. Qed.
Lemma rcrit_pos p q Rmin_ dG : 0 < dG -> 0 < p -> 0 < fst (barrier_pq p q Rmin_ dG).
Proof.
  intros H Hp. unfold barrier_pq. destruct (Rlt_dec 0 dG); [|lra]. cbn.
  apply Rlt_le_trans with (p / dG); [apply Rdiv_lt_0_compat; lra|apply Rmax_l].
Qed.
Lemma barrier_nonneg p q Rmin_ dG : 0 <= q -> 0 <= snd (barrier_pq p q Rmin_ dG).
Proof.
  intros Hq. unfold barrier_pq. destruct (Rlt_dec 0 dG); cbn; [|lra].
  apply Rmult_le_pos; [lra|]. apply pow2_ge_0.
Qed.
Lemma barrier_zero_nonpos_dg p q Rmin_ dG : dG <= 0 -> barrier_pq p q Rmin_ dG = (0, 0).
Proof. intros H. unfold barrier_pq. destruct (Rlt_dec 0 dG); [lra|reflexivity]. Qed.
Lemma rcrit_decreasing p q Rmin_ d1 d2 : 0 <= p -> 0 < d1 -> d1 <= d2 ->
  fst (barrier_pq p q Rmin_ d2) <= fst (barrier_pq p q Rmin_ d1).
Proof.
  intros Hp H1 H12. unfold barrier_pq. destruct (Rlt_dec 0 d1); [|lra]. destruct (Rlt_dec 0 d2); [|lra]. cbn.
  apply Rle_max_compat_r. unfold Rdiv. apply Rmult_le_compat_l; [lra|]. apply Rinv_le_contravar; lra.
Qed.

(* ---- kB ---- *)
Lemma NA_pos : 0 < NA. Proof. unfold NA. lra. Qed.
Lemma kB_pos : 0 < kB. Proof. unfold kB. pose proof NA_pos. apply Rdiv_lt_0_compat; lra. Qed.

(* ---- Zeldovich, beta, tau, rate ---- *)
Lemma zeldovich_nonneg vf Vm gamma T Rc : 0 <= Vm -> 0 <= zeldovich vf Vm gamma T Rc.
Proof.
  intros HV. unfold zeldovich. destruct (Req_EM_T Rc 0); [lra|].
  pose proof PI_RGT_0. pose proof NA_pos.
  apply Rmult_le_pos.
  - apply Rmult_le_pos; [apply Rmult_le_pos; [apply sqrt_pos|lra]|apply sqrt_pos].
  - apply Rlt_le, Rinv_0_lt_compat. apply Rmult_lt_0_compat; [nra|]. assert (0 < Rc ^ 2) by (apply sq_gt_0; assumption). lra.
Qed.
Lemma zeldovich_pos vf Vm gamma T Rc : 0 < vf -> 0 < Vm -> 0 < gamma -> 0 < T -> Rc <> 0 -> 0 < zeldovich vf Vm gamma T Rc.
Proof.
  intros Hv HV Hg HT HR. unfold zeldovich. destruct (Req_EM_T Rc 0); [contradiction|].
  pose proof PI_RGT_0. pose proof NA_pos. pose proof kB_pos.
  apply Rmult_lt_0_compat.
  - apply Rmult_lt_0_compat; [apply Rmult_lt_0_compat; [|lra]|]; apply sqrt_lt_R0.
    + apply Rdiv_lt_0_compat; lra.
    + apply Rdiv_lt_0_compat; [lra|nra].
  - apply Rinv_0_lt_compat. apply Rmult_lt_0_compat; [nra|]. apply sq_gt_0; assumption.
Qed.
Lemma zeldovich_zero vf Vm gamma T : zeldovich vf Vm gamma T 0 = 0.
Proof. unfold zeldovich. destruct (Req_EM_T 0 0); [reflexivity|contradiction]. Qed.

Lemma beta1_nonneg af Rc x D a : 0 <= af -> 0 <= x -> 0 <= D -> 0 <= beta1 af Rc x D a.
Proof.
  intros Ha Hx HD. unfold beta1. destruct (Req_EM_T Rc 0); [lra|].
  assert (0 <= Rc ^ 2) by apply pow2_ge_0.
  assert (0 <= a ^ 4) by (replace (a ^ 4) with ((a ^ 2) ^ 2) by ring; apply pow2_ge_0).
  unfold Rdiv. apply Rmult_le_pos; [|apply inv_nonneg; lra].
  apply Rmult_le_pos; [apply Rmult_le_pos; [apply Rmult_le_pos|]|]; lra.
Qed.
Lemma beta2_nonneg af Rc xa xb D0 D1 a : 0 <= af -> 0 < xa < 1 -> 0 < D0 -> 0 < D1 -> 0 <= beta2 af Rc xa xb D0 D1 a.
Proof.
  intros Ha Hx H0 H1. unfold beta2. destruct (Req_EM_T Rc 0); [lra|].
  assert (0 <= Rc ^ 2) by apply pow2_ge_0.
  assert (0 <= a ^ 4) by (replace (a ^ 4) with ((a ^ 2) ^ 2) by ring; apply pow2_ge_0).
  assert (0 <= (xb - xa) ^ 2) by apply pow2_ge_0.
  assert (Hden : 0 <= (xb - xa) ^ 2 / (xa * D1) + (xb - xa) ^ 2 / ((1 - xa) * D0)).
  { apply Rplus_le_le_0_compat; unfold Rdiv; (apply Rmult_le_pos; [lra|]); apply Rlt_le, Rinv_0_lt_compat; apply Rmult_lt_0_compat; lra. }
  pose proof inv_nonneg as Hinv.
  unfold Rdiv. apply Rmult_le_pos; [|apply Hinv; lra].
  apply Rmult_le_pos; [apply Rmult_le_pos; lra|]. rewrite Rmult_1_l. apply Hinv. exact Hden.
Qed.

Lemma incubationTime_nonneg theta beta Z : 0 <= theta -> 0 <= beta -> 0 <= incubationTime theta beta Z.
Proof.
  intros Ht Hb. unfold incubationTime. destruct (Req_EM_T Z 0); [lra|].
  assert (0 <= Z ^ 2) by apply pow2_ge_0. 
  assert (0 <= theta * beta * Z ^ 2) by (apply Rmult_le_pos; [apply Rmult_le_pos|]; lra).
  unfold Rdiv. rewrite Rmult_1_l.
  apply inv_nonneg; lra.
Qed.
(* the denominator does not vanish for valid parameters: the value is a genuine quotient *)
Lemma incubationTime_defined theta beta Z : 0 < theta -> 0 < beta -> Z <> 0 -> theta * beta * Z ^ 2 <> 0 /\ 0 < incubationTime theta beta Z.
Proof.
  intros Ht Hb HZ. assert (0 < Z ^ 2) by (apply sq_gt_0; assumption).
  assert (0 < theta * beta * Z ^ 2) by (apply Rmult_lt_0_compat; [apply Rmult_lt_0_compat|]; lra).
  split; [lra|]. unfold incubationTime. destruct (Req_EM_T Z 0); [contradiction|].
  apply Rdiv_lt_0_compat; lra.
Qed.

Lemma incubation_factor_bounds tau t : 0 <= incubation_factor tau t <= 1.
Proof.
  unfold incubation_factor. split; [|apply Rmin_r].
  apply Rmin_glb; [apply Rlt_le, exp_pos|lra].
Qed.
Lemma incubation_factor_monotone tau t1 t2 : 0 <= tau -> 0 < t1 -> t1 <= t2 ->
  incubation_factor tau t1 <= incubation_factor tau t2.
Proof.
  intros Htau H1 H12. unfold incubation_factor. apply Rle_min_compat_r.
  destruct (Req_dec t1 t2) as [->|Hne]; [lra|].
  assert (Hle : - tau / t1 <= - tau / t2).
  { unfold Rdiv. assert (/ t2 <= / t1) by (apply Rinv_le_contravar; lra). nra. }
  destruct Hle as [Hlt|Heq]; [apply Rlt_le, exp_increasing; exact Hlt|rewrite Heq; lra].
Qed.
(* below 1 for a positive incubation time, and tending to 1: at t >= tau/eps the factor exceeds 1 - eps *)
Lemma incubation_factor_lt_1 tau t : 0 < tau -> 0 < t -> incubation_factor tau t < 1.
Proof.
  intros Htau Ht. unfold incubation_factor. apply Rle_lt_trans with (exp (- tau / t)); [apply Rmin_l|].
  rewrite <- exp_0. apply exp_increasing. unfold Rdiv. assert (0 < / t) by (apply Rinv_0_lt_compat; lra). nra.
Qed.

Lemma nucleationRate_nonneg Z beta G T tau t : 0 <= Z -> 0 <= beta -> 0 <= nucleationRate Z beta G T tau t.
Proof.
  intros HZ Hb. unfold nucleationRate. destruct (Req_EM_T G 0); [lra|].
  pose proof (incubation_factor_bounds tau t). pose proof (exp_pos (- G / (kB * T))).
  repeat apply Rmult_le_pos; lra.
Qed.
Lemma nucleationRate_le_Zbeta Z beta G T tau t : 0 <= Z -> 0 <= beta -> 0 <= G -> 0 < T ->
  nucleationRate Z beta G T tau t <= Z * beta.
Proof.
  intros HZ Hb HG HT. unfold nucleationRate. destruct (Req_EM_T G 0); [nra|].
  pose proof (incubation_factor_bounds tau t) as Hi. pose proof kB_pos.
  assert (He : exp (- G / (kB * T)) <= 1).
  { rewrite <- exp_0. destruct (Req_dec G 0); [contradiction|]. apply Rlt_le, exp_increasing.
    unfold Rdiv. assert (0 < / (kB * T)) by (apply Rinv_0_lt_compat; nra). nra. }
  pose proof (exp_pos (- G / (kB * T))).
  assert (0 <= Z * beta) by nra.
  assert (Z * beta * exp (- G / (kB * T)) <= Z * beta) by nra.
  assert (0 <= Z * beta * exp (- G / (kB * T))) by nra. nra.
Qed.
(* the transient rate from time 0 on *)
Lemma incubation_factor_ext_bounds tau t : 0 <= incubation_factor_ext tau t <= 1.
Proof. unfold incubation_factor_ext. destruct (Req_EM_T t 0); [lra|apply incubation_factor_bounds]. Qed.
Lemma incubation_factor_ext_monotone tau t1 t2 : 0 <= tau -> 0 <= t1 -> t1 <= t2 ->
  incubation_factor_ext tau t1 <= incubation_factor_ext tau t2.
Proof.
  intros Htau H1 H12. unfold incubation_factor_ext.
  destruct (Req_EM_T t1 0) as [E1|E1]; destruct (Req_EM_T t2 0) as [E2|E2]; try lra.
  - apply incubation_factor_bounds.
  - apply incubation_factor_monotone; lra.
Qed.
Lemma nucleationRate_ext_pos_time Z beta G T tau t : t <> 0 -> nucleationRate_ext Z beta G T tau t = nucleationRate Z beta G T tau t.
Proof. intros H. unfold nucleationRate_ext, nucleationRate, incubation_factor_ext. destruct (Req_EM_T t 0); [contradiction|reflexivity]. Qed.
Lemma nucleationRate_ext_time_zero Z beta G T tau : nucleationRate_ext Z beta G T tau 0 = 0.
Proof.
  unfold nucleationRate_ext, incubation_factor_ext. destruct (Req_EM_T G 0); [reflexivity|].
  destruct (Req_EM_T 0 0); [ring|contradiction].
Qed.
Lemma nucleationRate_ext_zero_barrier Z beta T tau t : nucleationRate_ext Z beta 0 T tau t = 0.
Proof. unfold nucleationRate_ext. destruct (Req_EM_T 0 0); [reflexivity|contradiction]. Qed.
Lemma nucleationRate_ext_nonneg Z beta G T tau t : 0 <= Z -> 0 <= beta -> 0 <= nucleationRate_ext Z beta G T tau t.
Proof.
  intros HZ Hb. unfold nucleationRate_ext. destruct (Req_EM_T G 0); [lra|].
  pose proof (incubation_factor_ext_bounds tau t). pose proof (exp_pos (- G / (kB * T))).
  apply Rmult_le_pos; [apply Rmult_le_pos; [apply Rmult_le_pos|]|]; lra.
Qed.
Lemma nucleationRate_ext_monotone_in_time Z beta G T tau t1 t2 : 0 <= Z -> 0 <= beta -> 0 <= tau -> 0 <= t1 -> t1 <= t2 ->
  nucleationRate_ext Z beta G T tau t1 <= nucleationRate_ext Z beta G T tau t2.
Proof.
  intros HZ Hb Htau H1 H12. unfold nucleationRate_ext. destruct (Req_EM_T G 0); [lra|].
  pose proof (incubation_factor_ext_monotone tau t1 t2 Htau H1 H12). pose proof (exp_pos (- G / (kB * T))).
  apply Rmult_le_compat_l; [apply Rmult_le_pos; [apply Rmult_le_pos|]; lra|assumption].
Qed.

Lemma nucleationRadius_ge T Rc gamma : Rc <= nucleationRadius T Rc gamma.
Proof. unfold nucleationRadius. pose proof (sqrt_pos (kB * T / (PI * gamma))). lra. Qed.

(* ---- the steady-state pipeline ---- *)
Lemma steady_rate_zero_nonpos_dg p q Rmin_ vf Vm gamma T kbeta dG : dG <= 0 ->
  steady_rate (barrier_pq p q Rmin_) vf Vm gamma T kbeta dG = 0.
Proof.
  intros H. unfold steady_rate. rewrite barrier_zero_nonpos_dg by exact H.
  unfold nucleationRate_ss. destruct (Req_EM_T 0 0); [reflexivity|contradiction].
Qed.

(* closed form for positive driving force: Z * beta does not depend on the radius *)
Definition zfac (vf Vm gamma T : R) : R := sqrt (3 * vf / (4 * PI)) * Vm * sqrt (gamma / (kB * T)) / (2 * PI * NA).
Lemma steady_rate_closed p q Rmin_ vf Vm gamma T kbeta dG : 0 < dG -> 0 < p -> 0 < q ->
  steady_rate (barrier_pq p q Rmin_) vf Vm gamma T kbeta dG =
    zfac vf Vm gamma T * kbeta * exp (- (q * fst (barrier_pq p q Rmin_ dG) ^ 2) / (kB * T)).
Proof.
  intros Hd Hp Hq. pose proof (rcrit_pos p q Rmin_ dG Hd Hp) as HR.
  unfold steady_rate, barrier_pq in *. destruct (Rlt_dec 0 dG); [|lra]. cbn [fst snd] in *.
  set (Rc := Rmax (p / dG) Rmin_) in *.
  unfold zeldovich, nucleationRate_ss. destruct (Req_EM_T Rc 0); [lra|].
  assert (0 < Rc ^ 2) by (apply sq_gt_0; lra).
  destruct (Req_EM_T (q * Rc ^ 2) 0); [nra|].
  unfold zfac. pose proof PI_RGT_0. pose proof NA_pos. field. repeat split; lra.
Qed.

Lemma steady_rate_nonneg p q Rmin_ vf Vm gamma T kbeta dG : 0 <= Vm -> 0 <= kbeta ->
  0 <= steady_rate (barrier_pq p q Rmin_) vf Vm gamma T kbeta dG.
Proof.
  intros HV Hk. unfold steady_rate. destruct (barrier_pq p q Rmin_ dG) as [Rc G].
  unfold nucleationRate_ss. destruct (Req_EM_T G 0); [lra|].
  pose proof (zeldovich_nonneg vf Vm gamma T Rc HV). pose proof (exp_pos (- G / (kB * T))).
  assert (0 <= (if Req_EM_T Rc 0 then 0 else kbeta * Rc ^ 2)).
  { destruct (Req_EM_T Rc 0); [lra|]. apply Rmult_le_pos; [lra|apply pow2_ge_0]. }
  repeat apply Rmult_le_pos; lra.
Qed.

Lemma steady_rate_monotone p q Rmin_ vf Vm gamma T kbeta d1 d2 :
  0 < p -> 0 <= q -> 0 <= Rmin_ -> 0 <= Vm -> 0 <= kbeta -> 0 < T -> d1 <= d2 ->
  steady_rate (barrier_pq p q Rmin_) vf Vm gamma T kbeta d1 <= steady_rate (barrier_pq p q Rmin_) vf Vm gamma T kbeta d2.
Proof.
  intros Hp Hq Hm HV Hk HT H12.
  destruct (Rle_lt_dec d1 0) as [H1|H1].
  { rewrite steady_rate_zero_nonpos_dg by exact H1. apply steady_rate_nonneg; assumption. }
  destruct Hq as [Hq|<-].
  2:{ (* q = 0: the barrier is zero and the rate formula returns 0 on both sides *)
      unfold steady_rate, barrier_pq. destruct (Rlt_dec 0 d1); [|lra]. destruct (Rlt_dec 0 d2); [|lra].
      unfold nucleationRate_ss. rewrite !Rmult_0_l. destruct (Req_EM_T 0 0); [lra|contradiction]. }
  rewrite !steady_rate_closed by lra.
  pose proof (rcrit_decreasing p q Rmin_ d1 d2 (Rlt_le _ _ Hp) H1 H12) as HR.
  pose proof (rcrit_pos p q Rmin_ d2 (Rlt_le_trans _ _ _ H1 H12) Hp) as HR2.
  set (R1 := fst (barrier_pq p q Rmin_ d1)) in *. set (R2 := fst (barrier_pq p q Rmin_ d2)) in *.
  assert (Hz : 0 <= zfac vf Vm gamma T).
  { unfold zfac. pose proof PI_RGT_0. pose proof NA_pos. apply Rmult_le_pos.
    - apply Rmult_le_pos; [apply Rmult_le_pos; [apply sqrt_pos|lra]|apply sqrt_pos].
    - apply Rlt_le, Rinv_0_lt_compat. nra. }
  apply Rmult_le_compat_l; [apply Rmult_le_pos; lra|].
  pose proof kB_pos.
  assert (Hle : - (q * R1 ^ 2) / (kB * T) <= - (q * R2 ^ 2) / (kB * T)).
  { unfold Rdiv. assert (0 < / (kB * T)) by (apply Rinv_0_lt_compat; nra).
    assert (R2 ^ 2 <= R1 ^ 2) by nra. assert (q * R2 ^ 2 <= q * R1 ^ 2) by (apply Rmult_le_compat_l; lra).
    apply Rmult_le_compat_r; lra. }
  destruct Hle as [Hlt|Heq]; [apply Rlt_le, exp_increasing; exact Hlt|rewrite Heq; lra].
Qed.

(* ---- nucleation sites (real instance) ---- *)
Notation phaseR := (phase Rops).
Notation matrixR := (matrix Rops).

Lemma sites_nonneg (M : matrixR) phs parents s : 0 <= calcNucleationSites Rops M phs parents s.
Proof.
  unfold calcNucleationSites, maxT. cbn [ltb Rops zero]. destruct (Rltb _ 0) eqn:E.
  - lra.
  - apply Rltb_false in E. exact E.
Qed.

Definition phase_le (p q : phaseR) : Prop :=
  ph_site p = ph_site q /\ ph_r p = ph_r q /\ ph_gbRemoval p = ph_gbRemoval q /\ ph_edgeW p = ph_edgeW q /\
  Forall2 Rle (ph_n p) (ph_n q).
Definition phase_ok (p : phaseR) : Prop :=
  Forall (fun r => 0 <= r) (ph_r p) /\ 0 <= ph_gbRemoval p /\ 0 <= ph_edgeW p.

Lemma powT_nonneg r j : 0 <= r -> 0 <= powT Rops r j.
Proof. intros H. induction j; cbn; [lra|]. apply Rmult_le_pos; assumption. Qed.

Lemma moment_mono_gen j (n n' r : list R) : Forall (fun r => 0 <= r) r -> Forall2 Rle n n' ->
  sumT Rops (zipWith (fun n r => mul Rops n (powT Rops r j)) n r) <=
  sumT Rops (zipWith (fun n r => mul Rops n (powT Rops r j)) n' r).
Proof.
  intros Hr Hn. revert r Hr. induction Hn as [|a b n n' Hab Hn IH]; intros r Hr; cbn; [lra|].
  destruct r as [|r0 r]; cbn; [lra|]. inversion Hr; subst.
  specialize (IH r H2). pose proof (powT_nonneg r0 j H1). cbn [T Rops] in *. nra.
Qed.
Lemma moment_mono j p q : phase_le p q -> phase_ok p -> moment Rops j p <= moment Rops j q.
Proof.
  intros (Hs & Hr & _ & _ & Hn) (Hok & _). unfold moment. rewrite <- Hr. apply moment_mono_gen; assumption.
Qed.

Lemma sum_over_mono (sel : phaseR -> bool) (w : phaseR -> R) phs phs' :
  Forall2 (fun p q => sel p = sel q /\ w p <= w q) phs phs' ->
  sum_over Rops sel w phs <= sum_over Rops sel w phs'.
Proof.
  unfold sum_over. induction 1 as [|p q l l' [Hsel Hw] _ IH]; cbn; [lra|].
  rewrite <- Hsel. destruct (sel p); cbn; cbn [T Rops] in *; lra.
Qed.

Lemma used_sites_mono (M : matrixR) phs phs' s :
  Forall2 phase_le phs phs' -> Forall phase_ok phs -> 0 <= m_conv1 _ M -> 0 <= m_conv2 _ M ->
  used_sites Rops M phs s <= used_sites Rops M phs' s.
Proof.
  intros Hle Hok H1 H2.
  assert (Gen : forall (sel : site -> bool) (w : phaseR -> R),
            (forall p q, phase_le p q -> phase_ok p -> w p <= w q) ->
            sum_over Rops (fun q => sel (ph_site q)) w phs <= sum_over Rops (fun q => sel (ph_site q)) w phs').
  { intros sel w Hw. apply sum_over_mono. clear -Hle Hok Hw.
    induction Hle as [|p q l l' Hpq _ IH]; constructor.
    - inversion Hok; subst. split; [destruct Hpq as [-> _]; reflexivity|apply Hw; assumption].
    - apply IH. inversion Hok; assumption. }
  unfold used_sites. destruct (isinstance_bulk s).
  - apply Gen. intros; apply moment_mono; assumption.
  - destruct s.
    + apply (Gen (fun x => site_eqb x Corner)). intros; apply moment_mono; assumption.
    + apply (Gen (fun x => site_eqb x Corner)). intros; apply moment_mono; assumption.
    + cbn [mul Rops]. apply Rmult_le_compat_r; [exact H2|].
      apply (Gen (fun x => site_eqb x GB)). intros p q Hpq Hp. pose proof (moment_mono 2 p q Hpq Hp).
      destruct Hpq as (_ & _ & Hg & _). destruct Hp as (_ & Hg0 & _). rewrite <- Hg. cbn [mul Rops]. nra.
    + cbn [mul Rops]. apply Rmult_le_compat_r; [exact H1|].
      apply (Gen (fun x => site_eqb x Edge)). intros p q Hpq Hp. pose proof (moment_mono 1 p q Hpq Hp).
      destruct Hpq as (_ & _ & _ & Hg & _). destruct Hp as (_ & _ & Hg0). rewrite <- Hg. cbn [mul Rops]. nra.
    + apply (Gen (fun x => site_eqb x Corner)). intros; apply moment_mono; assumption.
Qed.

Lemma maxT_mono a b : a <= b -> maxT Rops a 0 <= maxT Rops b 0.
Proof.
  intros H. unfold maxT. cbn [ltb Rops]. destruct (Rltb a 0) eqn:Ea; destruct (Rltb b 0) eqn:Eb;
  try apply Rltb_true in Ea; try apply Rltb_true in Eb; try apply Rltb_false in Ea; try apply Rltb_false in Eb; lra.
Qed.

(* without parent phases, more (or larger populations of) precipitates never increase the number of
   available sites *)
Lemma sites_decreasing (M : matrixR) phs phs' s :
  Forall2 phase_le phs phs' -> Forall phase_ok phs -> 0 <= m_conv1 _ M -> 0 <= m_conv2 _ M ->
  calcNucleationSites Rops M phs' [] s <= calcNucleationSites Rops M phs [] s.
Proof.
  intros Hle Hok H1 H2. unfold calcNucleationSites. cbn [zero Rops]. apply maxT_mono.
  pose proof (used_sites_mono M phs phs' s Hle Hok H1 H2). unfold parent_sites. cbn. lra.
Qed.
(* exact value while sites remain *)
Lemma sites_value (M : matrixR) phs s : used_sites Rops M phs s <= total_sites Rops M s ->
  calcNucleationSites Rops M phs [] s = total_sites Rops M s - used_sites Rops M phs s.
Proof.
  intros H. unfold calcNucleationSites, parent_sites, maxT. cbn. destruct (Rltb _ 0) eqn:E.
  - apply Rltb_true in E. lra.
  - lra.
Qed.

(* ---- cached factors ---- *)
Section CacheProofs.
Variables G E K V : Type.
Variable ratio : E -> G -> K.
Variable kval : K -> V.
Variable fac : slot -> site -> K -> V.
Variable inputs_bad : G -> E -> bool.
Variable ratio_bad : site -> K -> bool.
Variable resets : param -> bool.
Variable clears : slot -> bool.
Hypothesis resets_all : forall p, resets p = true.
Hypothesis clears_all : forall s, clears s = true.

Notation step := (step G E K V ratio kval fac inputs_bad ratio_bad resets clears).
Notation run := (run G E K V ratio kval fac inputs_bad ratio_bad resets clears).
Notation fresh := (fresh_read G E K V ratio kval fac inputs_bad ratio_bad).
Notation state := (@nbp G E K V).

(* every filled cache holds what a fresh object with the current parameters would compute *)
Definition coherent (st : state) : Prop :=
  (forall k, n_k st = Some k -> inputs_bad (n_gamma st) (n_gbE st) = false /\ k = ratio (n_gbE st) (n_gamma st)) /\
  (forall s v, s <> SGBk -> n_cache st s = Some v -> fresh (n_desc st) (n_gamma st) (n_gbE st) s = Value v).

Definition apply_params (o : op G E) (dge : site * G * E) : site * G * E :=
  let '(d, g, e) := dge in
  match o with SetDesc s => (s, g, e) | SetGamma g' => (d, g', e) | SetGbE e' => (d, g, e') | Read _ => (d, g, e) end.
Definition expected (o : op G E) (dge : site * G * E) : outcome V :=
  let '(d, g, e) := dge in match o with Read s => fresh d g e s | _ => Silent end.
Definition params (st : state) : site * G * E := (n_desc st, n_gamma st, n_gbE st).

Lemma do_reset_coherent st : coherent (do_reset G E K V clears st).
Proof.
  unfold do_reset, coherent. cbn. rewrite clears_all. split.
  - intros k H; discriminate.
  - intros s v _ H. rewrite clears_all in H. discriminate.
Qed.

Lemma read_k_spec st : coherent st ->
  let '(st', r) := read_k G E K V ratio inputs_bad st in
  coherent st' /\ params st' = params st /\
  (r = if inputs_bad (n_gamma st) (n_gbE st) then None else Some (ratio (n_gbE st) (n_gamma st))) /\
  (forall k, r = Some k -> n_k st' = Some k).
Proof.
  intros Hco. pose proof Hco as [Hk Hc]. unfold read_k. destruct (n_k st) as [k|] eqn:Ek.
  - destruct (Hk k eq_refl) as [Hb Hkr]. rewrite Hb. split; [exact Hco|]. split; [reflexivity|]. split; [congruence|]. intros k0 H0; congruence.
  - destruct (inputs_bad (n_gamma st) (n_gbE st)) eqn:Eb.
    + split; [exact Hco|]. split; [reflexivity|]. split; [reflexivity|]. intros k0 H0; discriminate.
    + split; [|split; [reflexivity|split; [reflexivity|]]].
      * split; cbn.
        -- intros k0 H0. inversion H0; subst. auto.
        -- exact Hc.
      * intros k0 H0. cbn. exact H0.
Qed.

Lemma step_spec st o : coherent st ->
  coherent (fst (step st o)) /\ params (fst (step st o)) = apply_params o (params st) /\
  snd (step st o) = expected o (params st).
Proof.
  intros Hco. destruct o as [s|g|e|s]; cbn [step Model.step].
  - unfold maybe_reset. rewrite resets_all. split; [apply do_reset_coherent|]. split; reflexivity.
  - unfold maybe_reset. rewrite resets_all. split; [apply do_reset_coherent|]. split; reflexivity.
  - unfold maybe_reset. rewrite resets_all. split; [apply do_reset_coherent|]. split; reflexivity.
  - pose proof (read_k_spec st Hco) as Hr.
    assert (Hslot : forall s, s <> SGBk ->
      (let '(st1, out) := match n_cache st s with
        | Some v => (st, Value v)
        | None => match read_k G E K V ratio inputs_bad st with
                  | (st', None) => (st', Raised)
                  | (st', Some k) => if ratio_bad (n_desc st') k then (st', Raised)
                                     else (set_cache G E K V st' s (fac s (n_desc st') k), Value (fac s (n_desc st') k))
                  end
        end in coherent st1 /\ params st1 = params st /\ out = fresh (n_desc st) (n_gamma st) (n_gbE st) s)).
    { intros s0 Hs0. destruct (n_cache st s0) as [v|] eqn:Ec.
      - pose proof Hco as [Hk Hc]. split; [exact Hco|]. split; [reflexivity|]. symmetry. apply Hc; assumption.
      - destruct (read_k G E K V ratio inputs_bad st) as [st' r]. destruct Hr as (Hco' & Hp & Hrr & Hkk).
        assert (Hd : n_desc st' = n_desc st /\ n_gamma st' = n_gamma st /\ n_gbE st' = n_gbE st).
        { unfold params in Hp. inversion Hp. auto. }
        destruct Hd as (Hd & Hg & He).
        unfold fresh_read. destruct (inputs_bad (n_gamma st) (n_gbE st)) eqn:Eb; subst r.
        + split; [exact Hco'|]. split; [exact Hp|reflexivity].
        + rewrite Hd. destruct (ratio_bad (n_desc st) (ratio (n_gbE st) (n_gamma st))) eqn:Erb.
          * split; [exact Hco'|]. split; [exact Hp|]. destruct s0; auto; contradiction.
          * split; [|split; [unfold params in *; cbn; exact Hp| destruct s0; auto; contradiction]].
            pose proof Hco' as [Hk' Hc']. split; cbn.
            -- exact Hk'.
            -- intros s1 v Hs1 Hv. destruct (slot_eqb s1 s0) eqn:Eq.
               ++ inversion Hv; subst v. assert (s1 = s0) by (destruct s1, s0; try discriminate; reflexivity). subst s1.
                  unfold fresh_read. rewrite Hg, He, Hd, Eb, Erb. destruct s0; auto; contradiction.
               ++ apply Hc'; assumption. }
    destruct s.
    + (* GBk *) destruct (read_k G E K V ratio inputs_bad st) as [st' r]. destruct Hr as (Hco' & Hp & Hrr & Hkk).
      unfold expected, params at 3. unfold fresh_read. subst r.
      destruct (inputs_bad (n_gamma st) (n_gbE st)); cbn; (split; [exact Hco'|split; [exact Hp|reflexivity]]).
    + specialize (Hslot SArea ltac:(discriminate)).
      destruct (match n_cache st SArea with Some v => _ | None => _ end) as [st1 out]. cbn. exact Hslot.
    + specialize (Hslot SVol ltac:(discriminate)).
      destruct (match n_cache st SVol with Some v => _ | None => _ end) as [st1 out]. cbn. exact Hslot.
    + specialize (Hslot SGbRem ltac:(discriminate)).
      destruct (match n_cache st SGbRem with Some v => _ | None => _ end) as [st1 out]. cbn. exact Hslot.
    + specialize (Hslot SAreaRem ltac:(discriminate)).
      destruct (match n_cache st SAreaRem with Some v => _ | None => _ end) as [st1 out]. cbn. exact Hslot.
Qed.

Fixpoint spec_run (dge : site * G * E) (ops : list (op G E)) : list (outcome V) :=
  match ops with [] => [] | o :: r => expected o dge :: spec_run (apply_params o dge) r end.

Lemma run_spec ops : forall st, coherent st -> snd (run st ops) = spec_run (params st) ops.
Proof.
  induction ops as [|o r IH]; intros st Hco; [reflexivity|].
  cbn [run Model.run spec_run]. pose proof (step_spec st o Hco) as (Hc1 & Hp1 & Ho).
  destruct (step st o) as [st1 out]. cbn [fst snd] in *. specialize (IH st1 Hc1).
  destruct (run st1 r) as [st2 outs]. cbn [snd] in *. rewrite IH, Hp1, Ho. reflexivity.
Qed.

Lemma init_coherent d g e : coherent (init G E K V d g e).
Proof. split; cbn; intros; discriminate. Qed.

Theorem cache_coherent d g e ops :
  snd (run (init G E K V d g e) ops) = spec_run (d, g, e) ops.
Proof. apply (run_spec ops (init G E K V d g e) (init_coherent d g e)). Qed.
End CacheProofs.

(* ---- packaging per site type / per branch --------------------------------------------------- *)
Lemma cf_identity s k : fac_a s k - 2 * k * fac_b s k = 3 * fac_c s k.
Proof.
  destruct s; cbn [fac_a fac_b fac_c].
  - apply cf_identity_bulk. - apply cf_identity_bulk. - apply cf_identity_boundary.
  - apply cf_identity_edge. - apply cf_identity_corner.
Qed.

(* interfacial term of the formation energy: a*gamma - b*gbEnergy = 3 c gamma when gbEnergy = 2 k gamma *)
Lemma interfacial_term s k gamma : fac_a s k * gamma - fac_b s k * (2 * k * gamma) = 3 * fac_c s k * gamma.
Proof. pose proof (cf_identity s k). nra. Qed.

Lemma rcrit_is_sphere s k gamma dG : fac_c s k <> 0 -> dG <> 0 ->
  NBP_Rcrit (fac_a s k) gamma (fac_b s k) (2 * k * gamma) (fac_c s k) dG = 2 * gamma / dG.
Proof. intros. apply (gb_rcrit_is_sphere _ _ _ k); [apply cf_identity|assumption|assumption]. Qed.

Lemma gcrit_at_rcrit_is_sphere_scaled s k gamma dG : dG <> 0 ->
  NBP_Gcrit (fac_a s k) gamma (fac_b s k) (2 * k * gamma) (fac_c s k) dG (2 * gamma / dG) =
    (4 * PI / 3 * gamma * (2 * gamma / dG) ^ 2) * (fac_c s k / (4 * PI / 3)).
Proof. intros. apply (gb_gcrit_is_sphere_scaled _ _ _ k); [apply cf_identity|assumption]. Qed.

Lemma barrier_is_sphere_scaled s k gamma Rmin_ dG : fac_c s k <> 0 ->
  barrier_gb (fac_a s k) gamma (fac_b s k) (2 * k * gamma) (fac_c s k) Rmin_ dG =
    (fst (barrier_bulk 1 gamma Rmin_ dG), snd (barrier_bulk 1 gamma Rmin_ dG) * (fac_c s k / (4 * PI / 3))).
Proof. intros. apply (barrier_gb_is_sphere_scaled _ _ _ k); [apply cf_identity|assumption]. Qed.

(* the unrepaired barrier (formation energy at the clamped radius) is negative as soon as Rmin
   exceeds 3/2 of the critical radius *)
Lemma barrier_gb_old_negative s k gamma Rmin_ dG : 0 < fac_c s k -> 0 < gamma -> 0 < dG ->
  3 * gamma / dG < Rmin_ ->
  snd (barrier_gb_old (fac_a s k) gamma (fac_b s k) (2 * k * gamma) (fac_c s k) Rmin_ dG) < 0.
Proof.
  intros Hc Hg Hd HR. unfold barrier_gb_old. destruct (Rlt_dec 0 dG); [|lra]. cbn [snd].
  rewrite rcrit_is_sphere by lra.
  assert (H2 : 2 * gamma / dG < 3 * gamma / dG).
  { unfold Rdiv. apply Rmult_lt_compat_r; [apply Rinv_0_lt_compat; lra|lra]. }
  rewrite Rmax_right by lra.
  unfold NBP_Gcrit. rewrite interfacial_term.
  assert (0 < Rmin_) by (apply Rlt_trans with (3 * gamma / dG); [apply Rdiv_lt_0_compat; lra|lra]).
  assert (Hx : 3 * gamma < dG * Rmin_).
  { apply Rmult_lt_reg_r with (/ dG); [apply Rinv_0_lt_compat; lra|].
    replace (dG * Rmin_ * / dG) with Rmin_ by (field; lra). exact HR. }
  assert (0 < Rmin_ ^ 2) by (apply sq_gt_0; lra).
  assert (3 * fac_c s k * gamma - fac_c s k * dG * Rmin_ < 0) by nra.
  nra.
Qed.

(* bulk / dislocation and grain-boundary branches of nucleationBarrier *)
Lemma bulk_rcrit_ge_rmin thermo gamma Rmin_ dG : 0 < dG -> Rmin_ <= fst (barrier_bulk thermo gamma Rmin_ dG).
Proof. rewrite barrier_bulk_pq. apply rcrit_ge_rmin. Qed.
Lemma gb_rcrit_ge_rmin a gamma b gbE c Rmin_ dG : 0 < dG -> Rmin_ <= fst (barrier_gb a gamma b gbE c Rmin_ dG).
Proof. intros H. unfold barrier_gb. destruct (Rlt_dec 0 dG); [|lra]. cbn. apply Rmax_r. Qed.
Lemma bulk_barrier_nonneg thermo gamma Rmin_ dG : 0 <= gamma -> 0 <= snd (barrier_bulk thermo gamma Rmin_ dG).
Proof. intros. rewrite barrier_bulk_pq. apply barrier_nonneg. pose proof PI_RGT_0. nra. Qed.
Lemma gb_barrier_nonneg a gamma b gbE c Rmin_ dG : 0 <= a * gamma - b * gbE -> 0 <= snd (barrier_gb a gamma b gbE c Rmin_ dG).
Proof.
  intros H. unfold barrier_gb. destruct (Rlt_dec 0 dG); cbn; [|lra].
  apply Rmult_le_pos; [lra|apply pow2_ge_0].
Qed.
Lemma site_barrier_nonneg s k gamma Rmin_ dG : 0 <= fac_c s k -> 0 <= gamma ->
  0 <= snd (barrier_gb (fac_a s k) gamma (fac_b s k) (2 * k * gamma) (fac_c s k) Rmin_ dG).
Proof. intros Hc Hg. apply gb_barrier_nonneg. rewrite interfacial_term. nra. Qed.
Lemma bulk_barrier_zero thermo gamma Rmin_ dG : dG <= 0 -> barrier_bulk thermo gamma Rmin_ dG = (0, 0).
Proof. intros. rewrite barrier_bulk_pq. apply barrier_zero_nonpos_dg; assumption. Qed.
Lemma gb_barrier_zero a gamma b gbE c Rmin_ dG : dG <= 0 -> barrier_gb a gamma b gbE c Rmin_ dG = (0, 0).
Proof. intros. unfold barrier_gb. destruct (Rlt_dec 0 dG); [lra|reflexivity]. Qed.

Lemma steady_rate_ext (b1 b2 : R -> R * R) vf Vm gamma T kbeta dG : b1 dG = b2 dG ->
  steady_rate b1 vf Vm gamma T kbeta dG = steady_rate b2 vf Vm gamma T kbeta dG.
Proof. intros H. unfold steady_rate. rewrite H. reflexivity. Qed.

Lemma bulk_steady_rate_monotone thermo gamma Rmin_ vf Vm T kbeta d1 d2 :
  0 < thermo -> 0 < gamma -> 0 <= Rmin_ -> 0 <= Vm -> 0 <= kbeta -> 0 < T -> d1 <= d2 ->
  steady_rate (barrier_bulk thermo gamma Rmin_) vf Vm gamma T kbeta d1 <=
  steady_rate (barrier_bulk thermo gamma Rmin_) vf Vm gamma T kbeta d2.
Proof.
  intros Ht Hg Hm HV Hk HT H12. pose proof PI_RGT_0.
  rewrite (steady_rate_ext _ _ _ _ _ _ _ d1 (barrier_bulk_pq thermo gamma Rmin_ d1)).
  rewrite (steady_rate_ext _ _ _ _ _ _ _ d2 (barrier_bulk_pq thermo gamma Rmin_ d2)).
  apply steady_rate_monotone; try assumption; nra.
Qed.
Lemma gb_steady_rate_monotone s k gamma Rmin_ vf Vm T kbeta d1 d2 :
  0 < fac_c s k -> 0 < gamma -> 0 <= Rmin_ -> 0 <= Vm -> 0 <= kbeta -> 0 < T -> d1 <= d2 ->
  let B := barrier_gb (fac_a s k) gamma (fac_b s k) (2 * k * gamma) (fac_c s k) Rmin_ in
  steady_rate B vf Vm gamma T kbeta d1 <= steady_rate B vf Vm gamma T kbeta d2.
Proof.
  intros Hc Hg Hm HV Hk HT H12 B. subst B.
  assert (Hc0 : fac_c s k <> 0) by lra.
  rewrite (steady_rate_ext _ _ _ _ _ _ _ d1 (barrier_gb_pq _ _ _ _ _ Rmin_ d1 Hc0)).
  rewrite (steady_rate_ext _ _ _ _ _ _ _ d2 (barrier_gb_pq _ _ _ _ _ Rmin_ d2 Hc0)).
  rewrite interfacial_term.
  apply steady_rate_monotone; try assumption.
  - replace (2 * (3 * fac_c s k * gamma) / (3 * fac_c s k)) with (2 * gamma) by (field; lra). lra.
  - nra.
Qed.
Lemma bulk_steady_rate_zero thermo gamma Rmin_ vf Vm T kbeta dG : dG <= 0 ->
  steady_rate (barrier_bulk thermo gamma Rmin_) vf Vm gamma T kbeta dG = 0.
Proof.
  intros H. rewrite (steady_rate_ext _ _ _ _ _ _ _ dG (barrier_bulk_pq thermo gamma Rmin_ dG)).
  apply steady_rate_zero_nonpos_dg; assumption.
Qed.
Lemma gb_steady_rate_zero a gamma b gbE c Rmin_ vf Vm T kbeta dG : dG <= 0 ->
  steady_rate (barrier_gb a gamma b gbE c Rmin_) vf Vm gamma T kbeta dG = 0.
Proof.
  intros H. unfold steady_rate. rewrite gb_barrier_zero by exact H.
  unfold nucleationRate_ss. destruct (Req_EM_T 0 0); [reflexivity|contradiction].
Qed.
(* the transient rate: zero barrier (non-positive driving force) gives zero rate at every time *)
Lemma rate_zero_of_zero_barrier Z beta T tau t : nucleationRate Z beta 0 T tau t = 0.
Proof. unfold nucleationRate. destruct (Req_EM_T 0 0); [reflexivity|contradiction]. Qed.

(* validation: a ratio that passes _validateGBk is computed by the formula, never the placeholder *)
Lemma validated_factor_is_formula s f k : ~ validate_raises s k -> wrapper s f k = f k.
Proof.
  unfold validate_raises, wrapper. destruct (kmax s) as [m|]; [|reflexivity].
  intros H. destruct (Rlt_dec k m); [reflexivity|]. exfalso. apply H. lra.
Qed.
Lemma rejected_or_valid s k : validate_raises s k \/ valid_ratio s k.
Proof.
  unfold validate_raises, valid_ratio. destruct (kmax s) as [m|]; [|right; exact I].
  destruct (Rlt_dec k m); [right; assumption|left; lra].
Qed.
