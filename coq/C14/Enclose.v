(* C14 - harness-side support for the pointwise enclosures: the check emits, for sampled exact
   inputs x and the value y the running Python function returned, goals of the form
       Rabs (f x - y) <= tol
   about the GENERATED definitions (factors, Rcrit, Gcrit) and about the hand model of
   kawin/precipitation/NucleationRate.py, and Coq proves them by interval arithmetic.  Each goal is
   wrapped as   {goal} + {True}   and decided by [decide_enclosure]: a kernel-checked proof or "not
   proved"; verdicts are printed as booleans.  No theorem of Properties.v depends on this file. *)
From Coq Require Import Reals List Lra.
From Interval Require Import Tactic.
Require Import Kawin.C14.Model Kawin.C14.Analysis.
Open Scope R_scope.

(* asin / acos -> atan with side conditions discharged numerically *)
Ltac to_atan :=
  repeat match goal with
  | |- context [asin ?x] => rewrite (asin_asn x) by (split; interval with (i_prec 90))
  | |- context [acos ?x] => rewrite (acos_asn x) by (split; interval with (i_prec 90))
  end; unfold asn.

Ltac num := first [ lra | interval with (i_prec 90) ].

(* ---- mask idioms of NucleationRate.py on concrete inputs ---- *)
Lemma barrier_bulk_pos thermo gamma Rmin_ dG : 0 < dG ->
  barrier_bulk thermo gamma Rmin_ dG =
    (Rmax (2 * thermo * gamma / dG) Rmin_, 4 * PI / 3 * gamma * Rmax (2 * thermo * gamma / dG) Rmin_ ^ 2).
Proof. intros H. unfold barrier_bulk. destruct (Rlt_dec 0 dG); [reflexivity|lra]. Qed.
Lemma barrier_bulk_nonpos thermo gamma Rmin_ dG : dG <= 0 -> barrier_bulk thermo gamma Rmin_ dG = (0, 0).
Proof. intros H. unfold barrier_bulk. destruct (Rlt_dec 0 dG); [lra|reflexivity]. Qed.
Lemma barrier_gb_pos a gamma b gbE c Rmin_ dG : 0 < dG ->
  barrier_gb a gamma b gbE c Rmin_ dG =
    (Rmax (NBP_Rcrit a gamma b gbE c dG) Rmin_, (a * gamma - b * gbE) / 3 * Rmax (NBP_Rcrit a gamma b gbE c dG) Rmin_ ^ 2).
Proof. intros H. unfold barrier_gb. destruct (Rlt_dec 0 dG); [reflexivity|lra]. Qed.
Lemma barrier_gb_nonpos a gamma b gbE c Rmin_ dG : dG <= 0 -> barrier_gb a gamma b gbE c Rmin_ dG = (0, 0).
Proof. intros H. unfold barrier_gb. destruct (Rlt_dec 0 dG); [lra|reflexivity]. Qed.

Lemma zeldovich_nz vf Vm gamma T Rc : Rc <> 0 ->
  zeldovich vf Vm gamma T Rc = sqrt (3 * vf / (4 * PI)) * Vm * sqrt (gamma / (kB * T)) / (2 * PI * NA * Rc ^ 2).
Proof. intros H. unfold zeldovich. destruct (Req_EM_T Rc 0); [contradiction|reflexivity]. Qed.
Lemma zeldovich_z vf Vm gamma T : zeldovich vf Vm gamma T 0 = 0.
Proof. unfold zeldovich. destruct (Req_EM_T 0 0); [reflexivity|contradiction]. Qed.
Lemma beta1_nz af Rc x D a : Rc <> 0 -> beta1 af Rc x D a = af * Rc ^ 2 * x * D / a ^ 4.
Proof. intros H. unfold beta1. destruct (Req_EM_T Rc 0); [contradiction|reflexivity]. Qed.
Lemma beta1_z af x D a : beta1 af 0 x D a = 0.
Proof. unfold beta1. destruct (Req_EM_T 0 0); [reflexivity|contradiction]. Qed.
Lemma beta2_nz af Rc xa xb D0 D1 a : Rc <> 0 ->
  beta2 af Rc xa xb D0 D1 a = af * Rc ^ 2 * (1 / ((xb - xa) ^ 2 / (xa * D1) + (xb - xa) ^ 2 / ((1 - xa) * D0))) / a ^ 4.
Proof. intros H. unfold beta2. destruct (Req_EM_T Rc 0); [contradiction|reflexivity]. Qed.
Lemma beta2_z af xa xb D0 D1 a : beta2 af 0 xa xb D0 D1 a = 0.
Proof. unfold beta2. destruct (Req_EM_T 0 0); [reflexivity|contradiction]. Qed.
Lemma incubationTime_nz theta beta Z : Z <> 0 -> incubationTime theta beta Z = 1 / (theta * beta * Z ^ 2).
Proof. intros H. unfold incubationTime. destruct (Req_EM_T Z 0); [contradiction|reflexivity]. Qed.
Lemma incubationTime_z theta beta : incubationTime theta beta 0 = 0.
Proof. unfold incubationTime. destruct (Req_EM_T 0 0); [reflexivity|contradiction]. Qed.
Lemma incubation_factor_eq tau t : 0 <= tau -> 0 < t -> incubation_factor tau t = exp (- tau / t).
Proof.
  intros Ht Hp. unfold incubation_factor. apply Rmin_left. rewrite <- exp_0.
  assert (- tau / t <= 0). { unfold Rdiv. assert (0 < / t) by (apply Rinv_0_lt_compat; lra). nra. }
  destruct H as [H|H]; [apply Rlt_le, exp_increasing; exact H|rewrite H; lra].
Qed.
Lemma nucleationRate_nz Z beta G T tau t : G <> 0 -> 0 <= tau -> 0 < t ->
  nucleationRate Z beta G T tau t = Z * beta * exp (- G / (kB * T)) * exp (- tau / t).
Proof.
  intros H Ht Hp. unfold nucleationRate. destruct (Req_EM_T G 0); [contradiction|].
  rewrite incubation_factor_eq by assumption. reflexivity.
Qed.
Lemma nucleationRate_z Z beta T tau t : nucleationRate Z beta 0 T tau t = 0.
Proof. unfold nucleationRate. destruct (Req_EM_T 0 0); [reflexivity|contradiction]. Qed.
Lemma nucleationRate_ext_t0 Z beta G T tau : nucleationRate_ext Z beta G T tau 0 = 0.
Proof.
  unfold nucleationRate_ext, incubation_factor_ext. destruct (Req_EM_T G 0); [reflexivity|].
  destruct (Req_EM_T 0 0); [ring|contradiction].
Qed.
Lemma nucleationRate_ss_nz Z beta G T : G <> 0 -> nucleationRate_ss Z beta G T = Z * beta * exp (- G / (kB * T)) * 1.
Proof. intros H. unfold nucleationRate_ss. destruct (Req_EM_T G 0); [contradiction|reflexivity]. Qed.
Lemma nucleationRate_ss_z Z beta T : nucleationRate_ss Z beta 0 T = 0.
Proof. unfold nucleationRate_ss. destruct (Req_EM_T 0 0); [reflexivity|contradiction]. Qed.

Ltac nz := first [ apply Rgt_not_eq; num | apply Rlt_not_eq; num ].
(* decide a maximum on concrete numbers (either side when they agree) *)
Ltac rmax :=
  repeat match goal with
  | |- context [Rmax ?a ?b] => first [ rewrite (Rmax_left a b) by num | rewrite (Rmax_right a b) by num ]
  end.

(* normalise the mask idioms, then enclose *)
Ltac unmask :=
  first [ rewrite barrier_bulk_pos by num | rewrite barrier_bulk_nonpos by num
        | rewrite barrier_gb_pos by num | rewrite barrier_gb_nonpos by num | idtac ];
  first [ rewrite zeldovich_nz by nz | rewrite zeldovich_z | idtac ];
  first [ rewrite beta1_nz by nz | rewrite beta1_z | idtac ];
  first [ rewrite beta2_nz by nz | rewrite beta2_z | idtac ];
  first [ rewrite incubationTime_nz by nz | rewrite incubationTime_z | idtac ];
  first [ rewrite nucleationRate_nz by (first [nz | num]) | rewrite nucleationRate_z | idtac ];
  first [ rewrite nucleationRate_ext_t0 | idtac ];
  first [ rewrite nucleationRate_ss_nz by nz | rewrite nucleationRate_ss_z | idtac ];
  cbn [fst snd]; unfold NBP_Rcrit, NBP_Gcrit, nucleationRadius, kB, NA; rmax.

Ltac enclose := timeout 60 (unmask; to_atan; first [ lra | interval with (i_prec 90) ]).

(* conjunctions (validity of the ratio + enclosure) and negated comparisons *)
Ltac enclose1 := first [ enclose | (apply Rle_not_lt; enclose) | (apply Rlt_not_le; enclose) ].
Ltac enclose_all := repeat match goal with |- _ /\ _ => split end; enclose1.

(* verdict of one goal: kernel-checked proof (abstract) or not proved *)
Ltac decide_enclosure tac := first [ left; abstract tac | right; exact I ].
Definition verdict {P : Prop} (d : {P} + {True}) : bool := if d then true else false.
