(* C14 - harness-side driver for the correspondence of PrecipitateModel._calcNucleationSites: the
   model of Model.v is evaluated on exact rationals and compared, inside Coq, with the value the
   implementation returned.  No theorem depends on this file. *)
From Coq Require Import QArith ZArith List Bool.
Require Import Kawin.Common.Ops Kawin.Common.Vec Kawin.Common.Out Kawin.C14.Model.
Import ListNotations.
Open Scope Q_scope.

(* (agrees within rt * summed magnitudes, branch max(.,0) within tolerance of a tie, approximation of
   the model value) *)
Definition check_sites (rt : Q) (M : matrix Qops) (phs : list (phase Qops)) (parents : list nat) (s : site) (impl : Q)
  : bool * bool * (Z * Z * bool) :=
  let par := parent_sites Qops M phs parents in
  let tot := total_sites Qops M s in
  let used := used_sites Qops M phs s in
  let raw := Qred (par + (tot - used)) in
  let scale := Qred (qabs par + qabs tot + qabs used) in
  let model := calcNucleationSites Qops M phs parents s in
  (closeb rt impl model scale, closeb rt raw 0 scale, approx model).
