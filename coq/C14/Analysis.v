(* C14 - transcendental part: grain-edge and grain-corner factors are positive and the volume
   factor strictly decreases on [0, k_hi], k_hi a rational just below the limit of the site type
   (edge: 0.865 < sqrt 3 / 2 = 0.86602..., corner: 0.8155 < sqrt (2/3) = 0.81649...).
   Method: asin / acos are rewritten through atan (the Interval library has no asin / acos), bounds
   are proved by interval arithmetic with bisection and Taylor models, monotonicity from the sign of
   the derivative (Coquelicot auto_derive + mean value theorem).  The bound k_hi is part of every
   statement; the last 10^-3 below the limit are sampled only (harness). *)
From Coq Require Import Reals List Lra Lia Psatz.
From Coquelicot Require Import Coquelicot.
From Interval Require Import Tactic.
Require Import Kawin.C14.Model.
Open Scope R_scope.

Definition asn (x : R) : R := atan (x / sqrt (1 - x * x)).
Lemma asin_asn x : -1 < x < 1 -> asin x = asn x.
Proof. intros H. rewrite asin_atan by exact H. reflexivity. Qed.
Lemma acos_asn x : -1 < x < 1 -> acos x = PI / 2 - asn x.
Proof. intros H. rewrite acos_asin by lra. rewrite asin_asn by exact H. reflexivity. Qed.

Ltac ibis k := interval with (i_bisect k, i_taylor k, i_degree 8, i_depth 40, i_prec 60).
Ltac side k :=
  repeat split;
  first [ interval | ibis k | apply Rgt_not_eq; first [interval | ibis k]
        | apply Rlt_not_eq; first [interval | ibis k] | exact I ].

(* a function with negative derivative on [a,b] is strictly decreasing there *)
Lemma decr_of_deriv (f : R -> R) a b :
  (forall x, a <= x <= b -> exists d, is_derive f x d /\ d < 0) ->
  forall x y, a <= x -> x < y -> y <= b -> f y < f x.
Proof.
  intros H x y Hax Hxy Hyb.
  destruct (MVT_gen f x y (Derive f)) as [c [Hc Hfc]].
  - intros z Hz. rewrite Rmin_left, Rmax_right in Hz by lra.
    destruct (H z) as [d [Hd _]]; [lra|]. apply Derive_correct. exists d. exact Hd.
  - intros z Hz. rewrite Rmin_left, Rmax_right in Hz by lra.
    destruct (H z) as [d [Hd _]]; [lra|]. apply derivable_continuous_pt, ex_derive_Reals_0. exists d; exact Hd.
  - rewrite Rmin_left, Rmax_right in Hc by lra.
    destruct (H c) as [d [Hd Hle]]; [lra|].
    assert (E : Derive f c = d) by (apply is_derive_unique; exact Hd).
    assert (Derive f c * (y - x) < 0) by (rewrite E; nra). lra.
Qed.

(* ---- grain edges ---------------------------------------------------------------------------- *)
Definition edge_hi : R := 865 / 1000.
Definition edge_alpha' k := asn (1 / (2 * sqrt (1 - k ^ 2))).
Definition edge_beta' k := PI / 2 - asn (k / sqrt (3 * (1 - k ^ 2))).
Definition edge_a' k := 12 * (PI / 2 - edge_alpha' k - k * edge_beta' k).
Definition edge_b' k := 3 * edge_beta' k * (1 - k ^ 2) - k * sqrt (3 - 4 * k ^ 2).
Definition edge_c' k :=
  2 * (PI - 2 * edge_alpha' k + k ^ 2 / 3 * sqrt (3 - 4 * k ^ 2) - edge_beta' k * k * (3 - k ^ 2)).

Lemma edge_hi_lt_kmax : edge_hi < edge_kmax.
Proof. unfold edge_hi, edge_kmax. interval. Qed.
Lemma edge_alpha_eq k : 0 <= k <= edge_hi -> edge_alpha k = edge_alpha' k.
Proof. unfold edge_hi. intros Hk. unfold edge_alpha, edge_alpha'. apply asin_asn. split; ibis k. Qed.
Lemma edge_beta_eq k : 0 <= k <= edge_hi -> edge_beta k = edge_beta' k.
Proof. unfold edge_hi. intros Hk. unfold edge_beta, edge_beta'. apply acos_asn. split; ibis k. Qed.
Lemma edge_atan k : 0 <= k <= edge_hi -> edge_a k = edge_a' k /\ edge_b k = edge_b' k /\ edge_c k = edge_c' k.
Proof.
  intros Hk. unfold edge_a, edge_b, edge_c, edge_a', edge_b', edge_c'.
  rewrite (edge_alpha_eq k Hk), (edge_beta_eq k Hk). auto.
Qed.
Lemma edge_pos' k : 0 <= k <= edge_hi -> 0 < edge_a' k /\ 0 < edge_b' k /\ 0 < edge_c' k.
Proof.
  unfold edge_hi. intros Hk. unfold edge_a', edge_b', edge_c', edge_alpha', edge_beta', asn. repeat split; ibis k.
Qed.
Lemma edge_pos k : 0 <= k <= edge_hi -> 0 < edge_a k /\ 0 < edge_b k /\ 0 < edge_c k.
Proof. intros Hk. destruct (edge_atan k Hk) as (-> & -> & ->). apply edge_pos'; exact Hk. Qed.

Lemma edge_c'_deriv k : 0 <= k <= edge_hi -> exists d, is_derive edge_c' k d /\ d < 0.
Proof.
  unfold edge_hi. intros Hk. unfold edge_c', edge_alpha', edge_beta', asn.
  eexists. split; [auto_derive; [|reflexivity]|].
  - side k.
  - ibis k.
Qed.
Lemma edge_c_decreasing k1 k2 : 0 <= k1 -> k1 < k2 -> k2 <= edge_hi -> edge_c k2 < edge_c k1.
Proof.
  intros H0 H12 H2.
  destruct (edge_atan k1) as (_ & _ & ->); [lra|]. destruct (edge_atan k2) as (_ & _ & ->); [lra|].
  apply (decr_of_deriv edge_c' 0 edge_hi edge_c'_deriv); assumption.
Qed.

(* ---- grain corners -------------------------------------------------------------------------- *)
Definition corner_hi : R := 8155 / 10000.
Definition corner_phi' k := asn (corner_K k / (2 * sqrt (1 - k ^ 2))).
Definition corner_delta' k :=
  PI / 2 - asn ((sqrt 2 - k * sqrt (3 - corner_K k ^ 2)) / (corner_K k * sqrt (1 - k ^ 2))).
Definition corner_a' k := 24 * (PI / 3 - k * corner_phi' k - corner_delta' k).
Definition corner_b' k := 3 * (2 * corner_phi' k * (1 - k ^ 2) - corner_K k * corner_t k).
Definition corner_c' k :=
  2 * (4 * (PI / 3 - corner_delta' k) + k * corner_K k * corner_t k - 2 * k * corner_phi' k * (3 - k ^ 2)).

Lemma corner_hi_lt_kmax : corner_hi < corner_kmax.
Proof. unfold corner_hi, corner_kmax. interval. Qed.
Lemma corner_phi_eq k : 0 <= k <= corner_hi -> corner_phi k = corner_phi' k.
Proof. unfold corner_hi. intros Hk. unfold corner_phi, corner_phi'. apply asin_asn. unfold corner_K. split; ibis k. Qed.
Lemma corner_delta_eq k : 0 <= k <= corner_hi -> corner_delta k = corner_delta' k.
Proof. unfold corner_hi. intros Hk. unfold corner_delta, corner_delta'. apply acos_asn. unfold corner_K. split; ibis k. Qed.
Lemma corner_atan k : 0 <= k <= corner_hi ->
  corner_a k = corner_a' k /\ corner_b k = corner_b' k /\ corner_c k = corner_c' k.
Proof.
  intros Hk. unfold corner_a, corner_b, corner_c, corner_a', corner_b', corner_c'.
  rewrite (corner_phi_eq k Hk), (corner_delta_eq k Hk). auto.
Qed.
Lemma corner_pos' k : 0 <= k <= corner_hi -> 0 < corner_a' k /\ 0 < corner_b' k /\ 0 < corner_c' k.
Proof.
  unfold corner_hi. intros Hk.
  unfold corner_a', corner_b', corner_c', corner_phi', corner_delta', corner_t, corner_K, asn.
  repeat split; ibis k.
Qed.
Lemma corner_pos k : 0 <= k <= corner_hi -> 0 < corner_a k /\ 0 < corner_b k /\ 0 < corner_c k.
Proof. intros Hk. destruct (corner_atan k Hk) as (-> & -> & ->). apply corner_pos'; exact Hk. Qed.

Lemma corner_c'_deriv k : 0 <= k <= corner_hi -> exists d, is_derive corner_c' k d /\ d < 0.
Proof.
  unfold corner_hi. intros Hk. unfold corner_c', corner_phi', corner_delta', corner_t, corner_K, asn.
  eexists. split; [auto_derive; [|reflexivity]|].
  - side k.
  - ibis k.
Qed.
Lemma corner_c_decreasing k1 k2 : 0 <= k1 -> k1 < k2 -> k2 <= corner_hi -> corner_c k2 < corner_c k1.
Proof.
  intros H0 H12 H2.
  destruct (corner_atan k1) as (_ & _ & ->); [lra|]. destruct (corner_atan k2) as (_ & _ & ->); [lra|].
  apply (decr_of_deriv corner_c' 0 corner_hi corner_c'_deriv); assumption.
Qed.

(* the transcription kawin had before the repair (K^2/sqrt 8) gives a removed boundary area at k = 0
   that is NOT the area 3 acos(-1/3) of the six boundary sectors inside a sphere *)
Lemma corner_b_old_at_zero_wrong : corner_b_old 0 > 3 * acos (- (1 / 3)) + 1.
Proof.
  unfold corner_b_old, corner_t_old, corner_phi, corner_K.
  replace (1 - 0 ^ 2) with 1 by ring. rewrite sqrt_1.
  replace (3 / 2 - 2 * 0 ^ 2) with (3 / 2) by field.
  replace (2 * 0 / 3) with 0 by field.
  rewrite acos_asin by lra. rewrite asin_opp.
  rewrite !asin_atan by (split; interval).
  interval.
Qed.
