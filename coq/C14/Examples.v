(* C14 - non-vacuity examples (the hypotheses of the theorems are met by concrete, non-trivial
   values) and refutation witnesses for the three defects of the unrepaired tree. *)
From Coq Require Import Reals QArith List ZArith Lra Lia Bool.
From Interval Require Import Tactic.
Require Import Kawin.Common.Ops Kawin.Common.Vec Kawin.C14.Model Kawin.C14.Proofs Kawin.C14.Analysis.
Import ListNotations.

Open Scope R_scope.

(* the proved ranges are non-empty and contain the ratio of the test-suite (k = 1/2) *)
Example ranges_nonempty : 0 <= 1 / 2 <= 865 / 1000 /\ 0 <= 1 / 2 <= 8155 / 10000 /\ 0 <= 1 / 2 < 1.
Proof. lra. Qed.

(* values at k = 1/2 agree with the numbers pinned by kawin/tests/test_nucleation.py *)
Example gb_half : Rabs (gb_c (1 / 2) - 1308996938995747 / 10 ^ 15) <= 1 / 10 ^ 12.
Proof. unfold gb_c. interval. Qed.
Example edge_half : Rabs (edge_c (1 / 2) - 6718303352064217 / 10 ^ 16) <= 1 / 10 ^ 12.
Proof. destruct (edge_atan (1 / 2)) as (_ & _ & ->); [unfold edge_hi; lra|]. unfold edge_c', edge_alpha', edge_beta', asn. interval. Qed.
Example corner_half : Rabs (corner_c (1 / 2) - 42215773311582705 / 10 ^ 17) <= 1 / 10 ^ 12.
Proof.
  destruct (corner_atan (1 / 2)) as (_ & _ & ->); [unfold corner_hi; lra|].
  unfold corner_c', corner_phi', corner_delta', corner_t, corner_K, asn. interval.
Qed.

(* hypotheses of the monotonicity theorems: an Al-like parameter set *)
Example steady_rate_hypotheses :
  let gamma := 1 / 10 in let Rmin_ := 3 / 10 ^ 10 in let Vm := 1 / 10 ^ 5 in let T := 700 in
  0 < 1 /\ 0 < gamma /\ 0 <= Rmin_ /\ 0 <= Vm /\ 0 <= 1 /\ 0 < T /\ 0 < fac_c GB (1 / 2).
Proof. cbv zeta. repeat split; try lra. cbn. apply gb_c_pos. lra. Qed.

(* the rate really switches on and really changes with the driving force (the monotonicity
   theorem is not about a constant function): barrier at dG = 10^8 exceeds that at dG = 2*10^8 *)
Example barrier_strictly_decreases :
  snd (barrier_bulk 1 (1 / 10) (3 / 10 ^ 10) (2 * 10 ^ 8)) < snd (barrier_bulk 1 (1 / 10) (3 / 10 ^ 10) (10 ^ 8)).
Proof.
  unfold barrier_bulk. destruct (Rlt_dec 0 (2 * 10 ^ 8)) as [_|H]; [|exfalso; lra].
  destruct (Rlt_dec 0 (10 ^ 8)) as [_|H]; [|exfalso; lra]. cbn [snd].
  rewrite !Rmax_left by (apply Rlt_le; interval). interval.
Qed.

(* ---- refutation witnesses (defects of the unrepaired tree) ------------------------------------ *)
(* 1. formation energy evaluated at the clamped radius: negative barrier for grain-boundary sites
      (k = 1/2, gamma = 0.03 J/m2, Rmin = 3e-10 m, dG = 5e8 J/m3) *)
Example barrier_old_refuted :
  snd (barrier_gb_old (fac_a GB (1 / 2)) (3 / 100) (fac_b GB (1 / 2)) (2 * (1 / 2) * (3 / 100)) (fac_c GB (1 / 2)) (3 / 10 ^ 10) (5 * 10 ^ 8)) < 0.
Proof. apply barrier_gb_old_negative; [cbn; apply gb_c_pos; lra | lra | lra | interval]. Qed.
(* ... while the repaired branch gives a positive barrier on the same input *)
Example barrier_new_positive :
  0 < snd (barrier_gb (fac_a GB (1 / 2)) (3 / 100) (fac_b GB (1 / 2)) (2 * (1 / 2) * (3 / 100)) (fac_c GB (1 / 2)) (3 / 10 ^ 10) (5 * 10 ^ 8)).
Proof.
  unfold barrier_gb. destruct (Rlt_dec 0 (5 * 10 ^ 8)) as [_|H]; [|exfalso; lra]. cbn [snd].
  rewrite interfacial_term. apply Rmult_lt_0_compat.
  - assert (0 < fac_c GB (1 / 2)) by (cbn; apply gb_c_pos; lra). lra.
  - apply sq_gt_0. apply Rgt_not_eq. apply Rlt_le_trans with (3 / 10 ^ 10); [lra|apply Rmax_r].
Qed.

(* 2. a ratio EQUAL to the limit passed the old validation (k > k_max) but is outside the range of the
      formula: every cached factor was the placeholder -1 *)
Example limit_ratio_old_validation_refuted : ~ (1 > gb_kmax) /\ wrapper GB gb_a 1 = -1 /\ validate_raises GB 1.
Proof.
  unfold gb_kmax, wrapper, validate_raises. cbn. split; [lra|]. split; [|unfold gb_kmax; lra].
  unfold gb_kmax. destruct (Rlt_dec 1 1); [lra|reflexivity].
Qed.

(* 3. K^2/sqrt 8 instead of K/sqrt 8 in the corner factors: the boundary area removed at k = 0 exceeds
      the area of the six boundary sectors inside a sphere by more than r^2 *)
Example corner_old_refuted : corner_b_old 0 > 3 * acos (- (1 / 3)) + 1 /\ corner_b 0 = 3 * acos (- (1 / 3)).
Proof. split; [exact corner_b_old_at_zero_wrong|apply corner_at_zero]. Qed.

Close Scope R_scope.

(* ---- nucleation sites, executable instance ------------------------------------------------------ *)
Open Scope Q_scope.
Definition exM : matrix Qops := @mkMatrix Qops 1000 2000 3000 4000 5000 10 100 12.
Definition exGB : phase Qops := @mkPhase Qops GB [1; 2] [3; 1] (1 # 2) 1 7.
Definition exGB2 : phase Qops := @mkPhase Qops GB [1; 2] [4; 5] 2 1 7.
Definition exD : phase Qops := @mkPhase Qops Disl [1; 2] [10; 20] 0 0 7.
(* grain-boundary phase: 3000 - (1/2 * (3*1 + 1*4) + 2 * (4*1 + 5*4)) * 100 < 0  ->  0 *)
Example sites_gb_exhausted : calcNucleationSites Qops exM [exGB; exD; exGB2] [] GB = 0.
Proof. vm_compute. reflexivity. Qed.
Example sites_gb : calcNucleationSites Qops exM [exGB; exD] [] GB = 2650.   (* 3000 - 1/2 * (3*1 + 1*4) * 100 *)
Proof. vm_compute. reflexivity. Qed.
(* a dislocation phase takes the bulk branch (isinstance(DislocationDescription(), BulkDescription)) *)
Example sites_disl_uses_bulk_density : calcNucleationSites Qops exM [exGB; exD] [] Disl = 970.   (* 1000 - (10 + 20) *)
Proof. vm_compute. reflexivity. Qed.
(* parent phases add 4 pi * second moment * surface density *)
Example sites_parent : calcNucleationSites Qops exM [exGB; exD] [1%nat] Bulk = 8530.   (* 12 * (10*1 + 20*4) * 7 + (1000 - 30) *)
Proof. vm_compute. reflexivity. Qed.
Close Scope Q_scope.

(* ---- cached factors, executable instance -------------------------------------------------------- *)
(* parameters are integers (0 = None / invalid), values are tagged with the parameters they were
   computed from, so that a stale value is visible *)
Definition xratio (e g : Z) : Z * Z := (e, g).
Definition xkval (k : Z * Z) : slot * site * (Z * Z) := (SGBk, Bulk, k).
Definition xfac (s : slot) (d : site) (k : Z * Z) : slot * site * (Z * Z) := (s, d, k).
Definition xbad (g e : Z) : bool := (g =? 0)%Z || (e =? 0)%Z.
Definition xrbad (d : site) (k : Z * Z) : bool := match d with GB => (snd k <? fst k)%Z | _ => false end.
Definition all_reset (p : param) := true.
Definition all_clear (s : slot) := true.
Definition xrun := run Z Z (Z * Z) (slot * site * (Z * Z)) xratio xkval xfac xbad xrbad.
Definition xops : list (op Z Z) :=
  [Read SArea; SetGamma 5%Z; Read SArea; SetDesc GB; Read SVol; SetGbE 9%Z; Read SVol; SetGamma 0%Z; Read SGBk].

Example cache_follows_setters :
  snd (xrun all_reset all_clear (init Z Z (Z * Z) _ Bulk 2 3)%Z xops) =
  [Value (SArea, Bulk, (3, 2)%Z); Silent; Value (SArea, Bulk, (3, 5)%Z); Silent; Value (SVol, GB, (3, 5)%Z);
   Silent; Raised; Silent; Raised].
Proof. vm_compute. reflexivity. Qed.

(* without the reset in the gamma setter the second read returns the value computed for the old
   interfacial energy: the hypothesis of C14_cache_coherent is necessary *)
Definition no_gamma_reset (p : param) := match p with PGamma => false | _ => true end.
Example stale_without_reset_refuted :
  snd (xrun no_gamma_reset all_clear (init Z Z (Z * Z) _ Bulk 2 3)%Z [Read SArea; SetGamma 5%Z; Read SArea]) <>
  spec_run Z Z (Z * Z) _ xratio xkval xfac xbad xrbad (Bulk, 2, 3)%Z [Read SArea; SetGamma 5%Z; Read SArea].
Proof. vm_compute. intros H. discriminate H. Qed.
