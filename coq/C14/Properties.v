(* C14 - Nucleation quantities obey classical nucleation theory for every site type.
   This file contains ONLY the property theorems; each is closed by [exact] of a lemma of Proofs.v /
   Analysis.v and followed by Print Assumptions.  Statements are about the hand-written
   specifications of Model.v; run/GenProperties.v restates the central ones for the definitions
   GENERATED from kawin/precipitation/parameters/Nucleation.py on every run. *)
From Coq Require Import Reals List.
Require Import Kawin.Common.Ops Kawin.Common.Vec Kawin.C14.Model Kawin.C14.Proofs.
Import ListNotations.
Open Scope R_scope.

(* ---- Clemm-Fisher factors -------------------------------------------------------------------- *)
(* area factor - 2 k * removed-boundary factor = 3 * volume factor, for all five site types *)
Theorem C14_cf_identity s k : fac_a s k - 2 * k * fac_b s k = 3 * fac_c s k.
Proof. exact (cf_identity s k). Qed.
Print Assumptions C14_cf_identity.

(* at k = 0 the nucleus is a sphere: area 4 pi, volume 4 pi / 3, and the removed boundary is what a
   sphere cuts out of the boundaries meeting at the site (a disc; three half discs; six sectors whose
   opening angle is the tetrahedral angle acos(-1/3)) *)
Theorem C14_cf_at_zero_boundary : gb_a 0 = 4 * PI /\ gb_c 0 = 4 * PI / 3 /\ gb_b 0 = PI.
Proof. exact gb_at_zero. Qed.
Print Assumptions C14_cf_at_zero_boundary.
Theorem C14_cf_at_zero_edge : edge_a 0 = 4 * PI /\ edge_c 0 = 4 * PI / 3 /\ edge_b 0 = 3 * (PI / 2).
Proof. exact edge_at_zero. Qed.
Print Assumptions C14_cf_at_zero_edge.
Theorem C14_cf_at_zero_corner : corner_a 0 = 4 * PI /\ corner_c 0 = 4 * PI / 3 /\ corner_b 0 = 3 * acos (- (1 / 3)).
Proof. exact corner_at_zero. Qed.
Print Assumptions C14_cf_at_zero_corner.

(* sign and monotonicity, grain boundaries: the whole admissible range *)
Theorem C14_cf_nonneg_boundary k : 0 <= k <= 1 -> 0 <= gb_a k /\ 0 <= gb_b k /\ 0 <= gb_c k.
Proof. exact (gb_nonneg k). Qed.
Print Assumptions C14_cf_nonneg_boundary.
Theorem C14_cf_volume_positive_boundary k : 0 <= k < 1 -> 0 < gb_c k.
Proof. exact (gb_c_pos k). Qed.
Print Assumptions C14_cf_volume_positive_boundary.
Theorem C14_cf_volume_decreasing_boundary k1 k2 : 0 <= k1 -> k1 < k2 -> k2 <= 1 -> gb_c k2 < gb_c k1.
Proof. exact (gb_c_strictly_decreasing k1 k2). Qed.
Print Assumptions C14_cf_volume_decreasing_boundary.

(* a ratio accepted by NucleationBarrierParameters._validateGBk is below the limit of the site type:
   the cached factor is the formula, never the placeholder -1 of the public wrappers *)
Theorem C14_validated_factor_is_formula s f k : ~ validate_raises s k -> wrapper s f k = f k.
Proof. exact (validated_factor_is_formula s f k). Qed.
Print Assumptions C14_validated_factor_is_formula.

(* ---- critical radius and barrier of grain-boundary sites --------------------------------------- *)
(* with gbEnergy = 2 k gamma the critical radius is that of a sphere ... *)
Theorem C14_gb_rcrit_is_sphere s k gamma dG : fac_c s k <> 0 -> dG <> 0 ->
  NBP_Rcrit (fac_a s k) gamma (fac_b s k) (2 * k * gamma) (fac_c s k) dG = 2 * gamma / dG.
Proof. exact (rcrit_is_sphere s k gamma dG). Qed.
Print Assumptions C14_gb_rcrit_is_sphere.
(* ... the formation energy at that radius is the spherical barrier times c / (4 pi / 3) ... *)
Theorem C14_gb_gcrit_at_rcrit s k gamma dG : dG <> 0 ->
  NBP_Gcrit (fac_a s k) gamma (fac_b s k) (2 * k * gamma) (fac_c s k) dG (2 * gamma / dG) =
    (4 * PI / 3 * gamma * (2 * gamma / dG) ^ 2) * (fac_c s k / (4 * PI / 3)).
Proof. exact (gcrit_at_rcrit_is_sphere_scaled s k gamma dG). Qed.
Print Assumptions C14_gb_gcrit_at_rcrit.
(* ... and what nucleationBarrier returns for a grain-boundary site is, for EVERY driving force and
   minimum radius (clamped or not), the radius of the spherical (bulk, thermoFactor 1) branch and its
   barrier times c / (4 pi / 3) *)
Theorem C14_gb_barrier_is_sphere_scaled s k gamma Rmin_ dG : fac_c s k <> 0 ->
  barrier_gb (fac_a s k) gamma (fac_b s k) (2 * k * gamma) (fac_c s k) Rmin_ dG =
    (fst (barrier_bulk 1 gamma Rmin_ dG), snd (barrier_bulk 1 gamma Rmin_ dG) * (fac_c s k / (4 * PI / 3))).
Proof. exact (barrier_is_sphere_scaled s k gamma Rmin_ dG). Qed.
Print Assumptions C14_gb_barrier_is_sphere_scaled.

(* ---- classical-nucleation quantities ----------------------------------------------------------- *)
Theorem C14_rcrit_ge_rmin_bulk thermo gamma Rmin_ dG : 0 < dG -> Rmin_ <= fst (barrier_bulk thermo gamma Rmin_ dG).
Proof. exact (bulk_rcrit_ge_rmin thermo gamma Rmin_ dG). Qed.
Print Assumptions C14_rcrit_ge_rmin_bulk.
Theorem C14_rcrit_ge_rmin_gb a gamma b gbE c Rmin_ dG : 0 < dG -> Rmin_ <= fst (barrier_gb a gamma b gbE c Rmin_ dG).
Proof. exact (gb_rcrit_ge_rmin a gamma b gbE c Rmin_ dG). Qed.
Print Assumptions C14_rcrit_ge_rmin_gb.

Theorem C14_barrier_nonneg_bulk thermo gamma Rmin_ dG : 0 <= gamma -> 0 <= snd (barrier_bulk thermo gamma Rmin_ dG).
Proof. exact (bulk_barrier_nonneg thermo gamma Rmin_ dG). Qed.
Print Assumptions C14_barrier_nonneg_bulk.
Theorem C14_barrier_nonneg_gb s k gamma Rmin_ dG : 0 <= fac_c s k -> 0 <= gamma ->
  0 <= snd (barrier_gb (fac_a s k) gamma (fac_b s k) (2 * k * gamma) (fac_c s k) Rmin_ dG).
Proof. exact (site_barrier_nonneg s k gamma Rmin_ dG). Qed.
Print Assumptions C14_barrier_nonneg_gb.

Theorem C14_zeldovich_nonneg vf Vm gamma T Rc : 0 <= Vm -> 0 <= zeldovich vf Vm gamma T Rc.
Proof. exact (zeldovich_nonneg vf Vm gamma T Rc). Qed.
Print Assumptions C14_zeldovich_nonneg.
Theorem C14_zeldovich_positive vf Vm gamma T Rc : 0 < vf -> 0 < Vm -> 0 < gamma -> 0 < T -> Rc <> 0 ->
  0 < zeldovich vf Vm gamma T Rc.
Proof. exact (zeldovich_pos vf Vm gamma T Rc). Qed.
Print Assumptions C14_zeldovich_positive.
Theorem C14_beta_nonneg af Rc x D a : 0 <= af -> 0 <= x -> 0 <= D -> 0 <= beta1 af Rc x D a.
Proof. exact (beta1_nonneg af Rc x D a). Qed.
Print Assumptions C14_beta_nonneg.
Theorem C14_beta2_nonneg af Rc xa xb D0 D1 a : 0 <= af -> 0 < xa < 1 -> 0 < D0 -> 0 < D1 -> 0 <= beta2 af Rc xa xb D0 D1 a.
Proof. exact (beta2_nonneg af Rc xa xb D0 D1 a). Qed.
Print Assumptions C14_beta2_nonneg.
Theorem C14_tau_nonneg theta beta Z : 0 <= theta -> 0 <= beta -> 0 <= incubationTime theta beta Z.
Proof. exact (incubationTime_nonneg theta beta Z). Qed.
Print Assumptions C14_tau_nonneg.
(* finite: for valid parameters the quotient is a genuine one (denominator non-zero) and positive *)
Theorem C14_tau_defined theta beta Z : 0 < theta -> 0 < beta -> Z <> 0 ->
  theta * beta * Z ^ 2 <> 0 /\ 0 < incubationTime theta beta Z.
Proof. exact (incubationTime_defined theta beta Z). Qed.
Print Assumptions C14_tau_defined.
Theorem C14_rate_nonneg Z beta G T tau t : 0 <= Z -> 0 <= beta -> 0 <= nucleationRate Z beta G T tau t.
Proof. exact (nucleationRate_nonneg Z beta G T tau t). Qed.
Print Assumptions C14_rate_nonneg.
(* with a non-negative barrier the rate never exceeds Z * beta *)
Theorem C14_rate_le_Zbeta Z beta G T tau t : 0 <= Z -> 0 <= beta -> 0 <= G -> 0 < T ->
  nucleationRate Z beta G T tau t <= Z * beta.
Proof. exact (nucleationRate_le_Zbeta Z beta G T tau t). Qed.
Print Assumptions C14_rate_le_Zbeta.

(* non-positive driving force: radius and barrier are 0 and the rate (transient and steady) is 0 *)
Theorem C14_rate_zero_for_nonpositive_dg thermo a gamma b gbE c Rmin_ vf Vm T kbeta dG : dG <= 0 ->
  barrier_bulk thermo gamma Rmin_ dG = (0, 0) /\ barrier_gb a gamma b gbE c Rmin_ dG = (0, 0) /\
  (forall Z beta tau t, nucleationRate Z beta 0 T tau t = 0) /\
  steady_rate (barrier_bulk thermo gamma Rmin_) vf Vm gamma T kbeta dG = 0 /\
  steady_rate (barrier_gb a gamma b gbE c Rmin_) vf Vm gamma T kbeta dG = 0.
Proof.
  exact (fun H => conj (bulk_barrier_zero thermo gamma Rmin_ dG H) (conj (gb_barrier_zero a gamma b gbE c Rmin_ dG H)
        (conj (fun Z beta tau t => rate_zero_of_zero_barrier Z beta T tau t)
        (conj (bulk_steady_rate_zero thermo gamma Rmin_ vf Vm T kbeta dG H) (gb_steady_rate_zero a gamma b gbE c Rmin_ vf Vm T kbeta dG H))))).
Qed.
Print Assumptions C14_rate_zero_for_nonpositive_dg.

Theorem C14_incubation_factor_in_unit_interval_and_monotone tau :
  (forall t, 0 <= incubation_factor tau t <= 1) /\
  (0 <= tau -> forall t1 t2, 0 < t1 -> t1 <= t2 -> incubation_factor tau t1 <= incubation_factor tau t2).
Proof. exact (conj (incubation_factor_bounds tau) (fun H t1 t2 => incubation_factor_monotone tau t1 t2 H)). Qed.
Print Assumptions C14_incubation_factor_in_unit_interval_and_monotone.

(* the transient rate from the first evaluation (time = 0) on: zero at time 0 and wherever there is no barrier,
   non-negative, and rising with time (the incubation factor is 0 at time 0, in [0,1], non-decreasing on t >= 0) *)
Theorem C14_transient_rate_from_time_zero Z beta G T tau :
  nucleationRate_ext Z beta G T tau 0 = 0 /\ (forall t, nucleationRate_ext Z beta 0 T tau t = 0) /\
  (forall t, t <> 0 -> nucleationRate_ext Z beta G T tau t = nucleationRate Z beta G T tau t) /\
  (0 <= Z -> 0 <= beta -> forall t, 0 <= nucleationRate_ext Z beta G T tau t) /\
  (0 <= Z -> 0 <= beta -> 0 <= tau -> forall t1 t2, 0 <= t1 -> t1 <= t2 ->
     nucleationRate_ext Z beta G T tau t1 <= nucleationRate_ext Z beta G T tau t2).
Proof.
  exact (conj (nucleationRate_ext_time_zero Z beta G T tau) (conj (nucleationRate_ext_zero_barrier Z beta T tau)
        (conj (fun t => nucleationRate_ext_pos_time Z beta G T tau t)
        (conj (fun HZ Hb t => nucleationRate_ext_nonneg Z beta G T tau t HZ Hb)
              (fun HZ Hb Ht t1 t2 => nucleationRate_ext_monotone_in_time Z beta G T tau t1 t2 HZ Hb Ht))))).
Qed.
Print Assumptions C14_transient_rate_from_time_zero.
Theorem C14_incubation_factor_from_time_zero tau :
  (forall t, 0 <= incubation_factor_ext tau t <= 1) /\
  (0 <= tau -> forall t1 t2, 0 <= t1 -> t1 <= t2 -> incubation_factor_ext tau t1 <= incubation_factor_ext tau t2).
Proof. exact (conj (incubation_factor_ext_bounds tau) (fun H t1 t2 => incubation_factor_ext_monotone tau t1 t2 H)). Qed.
Print Assumptions C14_incubation_factor_from_time_zero.

(* at fixed temperature the steady-state rate does not decrease with the driving force (all real
   driving forces, including the switch-on at 0 and the range where the radius is clamped to Rmin) *)
Theorem C14_steady_rate_monotone_in_dg_bulk thermo gamma Rmin_ vf Vm T kbeta d1 d2 :
  0 < thermo -> 0 < gamma -> 0 <= Rmin_ -> 0 <= Vm -> 0 <= kbeta -> 0 < T -> d1 <= d2 ->
  steady_rate (barrier_bulk thermo gamma Rmin_) vf Vm gamma T kbeta d1 <=
  steady_rate (barrier_bulk thermo gamma Rmin_) vf Vm gamma T kbeta d2.
Proof. exact (bulk_steady_rate_monotone thermo gamma Rmin_ vf Vm T kbeta d1 d2). Qed.
Print Assumptions C14_steady_rate_monotone_in_dg_bulk.
Theorem C14_steady_rate_monotone_in_dg_gb s k gamma Rmin_ vf Vm T kbeta d1 d2 :
  0 < fac_c s k -> 0 < gamma -> 0 <= Rmin_ -> 0 <= Vm -> 0 <= kbeta -> 0 < T -> d1 <= d2 ->
  let B := barrier_gb (fac_a s k) gamma (fac_b s k) (2 * k * gamma) (fac_c s k) Rmin_ in
  steady_rate B vf Vm gamma T kbeta d1 <= steady_rate B vf Vm gamma T kbeta d2.
Proof. exact (gb_steady_rate_monotone s k gamma Rmin_ vf Vm T kbeta d1 d2). Qed.
Print Assumptions C14_steady_rate_monotone_in_dg_gb.

Theorem C14_nucleation_radius_ge_rcrit T Rc gamma : Rc <= nucleationRadius T Rc gamma.
Proof. exact (nucleationRadius_ge T Rc gamma). Qed.
Print Assumptions C14_nucleation_radius_ge_rcrit.

(* ---- number of available nucleation sites ------------------------------------------------------- *)
(* never negative; and, without parent phases, not increased by any pointwise increase of the number
   densities of any phases (radii, boundary-removal weights and conversion factors non-negative) *)
Theorem C14_nucleation_sites_nonneg_and_decreasing (M : matrix Rops) phs phs' parents s :
  0 <= calcNucleationSites Rops M phs parents s /\
  (Forall2 phase_le phs phs' -> Forall phase_ok phs -> 0 <= m_conv1 _ M -> 0 <= m_conv2 _ M ->
   calcNucleationSites Rops M phs' [] s <= calcNucleationSites Rops M phs [] s).
Proof. exact (conj (sites_nonneg M phs parents s) (sites_decreasing M phs phs' s)). Qed.
Print Assumptions C14_nucleation_sites_nonneg_and_decreasing.
(* while sites remain: exactly the site density minus the occupied sites *)
Theorem C14_nucleation_sites_value (M : matrix Rops) phs s : used_sites Rops M phs s <= total_sites Rops M s ->
  calcNucleationSites Rops M phs [] s = total_sites Rops M s - used_sites Rops M phs s.
Proof. exact (sites_value M phs s). Qed.
Print Assumptions C14_nucleation_sites_value.

(* ---- cached factors ------------------------------------------------------------------------------- *)
(* if every setter resets and the reset clears every slot, then after ANY sequence of assignments
   to description / gamma / gbEnergy and reads, each read returns what a freshly constructed object
   with the parameters current at that moment returns (value or error) *)
Theorem C14_cache_coherent (G E K V : Type) (ratio : E -> G -> K) (kval : K -> V) (fac : slot -> site -> K -> V)
  (inputs_bad : G -> E -> bool) (ratio_bad : site -> K -> bool) (resets : param -> bool) (clears : slot -> bool) :
  (forall p, resets p = true) -> (forall s, clears s = true) ->
  forall d g e ops,
    snd (run G E K V ratio kval fac inputs_bad ratio_bad resets clears (init G E K V d g e) ops) =
    spec_run G E K V ratio kval fac inputs_bad ratio_bad (d, g, e) ops.
Proof. exact (cache_coherent G E K V ratio kval fac inputs_bad ratio_bad resets clears). Qed.
Print Assumptions C14_cache_coherent.
