(* C12 - faithful model of the code that ties driving force, phase boundary and critical radius
   together in kawin (executable definitions only, no proofs):

     kawin/precipitation/PrecipitationParameters.py  computeGibbsThomsonContribution (203-207)
     kawin/precipitation/NucleationRate.py           volumetricDrivingForce (15-27),
                                                     nucleationBarrier, bulk/dislocation branch (29-46)
     kawin/thermo/MultiTherm.py                      _growthRateOutputFromCurvature (31-41)
     kawin/precipitation/KWNEuler.py                 _singleGrowthMulti (growth part), _singleGrowthBinary,
                                                     _createLookupBinary (RdrivingForceIndex bookkeeping)
     kawin/thermo/BinTherm.py                        _interfacialCompositionFromEq, the GE-index loop (118-184)

   Arithmetic kernels are written once over the scalar record [Ops] (theorems on [Rops], execution on
   [Qops]).  What is not logic - pycalphad's equilibrium and driving force, the shape / strain / kinetic
   factors, the effective diffusion distance - enters as arguments (oracles); the hypotheses made about
   them are Section hypotheses of Proofs.v. *)
From Coq Require Import List Bool ZArith Arith.
Require Import Kawin.Common.Ops Kawin.Common.Vec.
Import ListNotations.

(* ====================================================================================== *)
(* D1: growth-sign arithmetic                                                              *)
Section C12.
Variable O : Ops.
Notation t := (T O).

Definition two : t := ofZ O 2.

(* computeGibbsThomsonContribution:  vmbeta * (strain + 2*thermoFactor*self.gamma / r) *)
Definition gibbs_thomson (vm strain f gamma r : t) : t :=
  mul O vm (add O strain (dvd O (mul O (mul O two f) gamma) r)).

(* volumetricDrivingForce:  volDGs = chemDGs / Vm ;  volDGs -= strainEnergy *)
Definition vol_dg (chemDG vm strain : t) : t := sub O (dvd O chemDG vm) strain.

(* nucleationBarrier, not grain-boundary:  2*thermoFactor * gamma / volumeDrivingForce[indices] *)
Definition rcrit_proposal (f gamma volDG : t) : t := dvd O (mul O (mul O two f) gamma) volDG.

(* indices = volumeDrivingForce > 0 ; Rcrit[indices] = np.amax([RcritProposal, Rmin], axis=0), 0 elsewhere *)
Definition rcrit_used (f gamma volDG rmin : t) : t :=
  if ltb O (zero O) volDG then maxT O (rcrit_proposal f gamma volDG) rmin else zero O.

(* _growthRateOutputFromCurvature:  Rdiff = (dG - gExtra) ;  gr = (curvature.mc / R) * Rdiff *)
Definition growth_curv (mc r dG gExtra : t) : t := mul O (dvd O mc r) (sub O dG gExtra).

(* calpha = x - Rdiff * dc, then np.clip(calpha, 0, 1)   (one component) *)
Definition clip01 (v : t) : t := if ltb O v (zero O) then zero O else if ltb O (one O) v then one O else v.
Definition calpha (x dc dG gExtra : t) : t := clip01 (sub O x (mul O (sub O dG gExtra) dc)).

(* _singleGrowthMulti after the repair "fix: multicomponent growth rate counts the elastic strain energy once":
     chemDG = (dGs[p] + nucStrainEnergy) * Vm
     growth = getGrowthAndInterfacialComposition(x, T, chemDG, PSDbounds, particleGibbs(PSDbounds))
     growthRate = kineticFactor(PSDbounds) * growth                                                   *)
Definition chem_dg (volDG nucStrain vm : t) : t := mul O (add O volDG nucStrain) vm.
Definition single_growth_multi (kin mc vm gamma volDG nucStrain r f strain : t) : t :=
  mul O kin (growth_curv mc r (chem_dg volDG nucStrain vm) (gibbs_thomson vm strain f gamma r)).

(* the same function before the repair: the driving force handed over was  dGs[p] * Vm, i.e. the
   chemical driving force with the strain energy already taken off, while particleGibbs takes it off
   once more *)
Definition single_growth_multi_old (kin mc vm gamma volDG r f strain : t) : t :=
  mul O kin (growth_curv mc r (mul O volDG vm) (gibbs_thomson vm strain f gamma r)).

(* size classes: kin, r, f, strain are arrays over PSDbounds *)
Fixpoint zip4 {A B C D E} (h : A -> B -> C -> D -> E) (a : list A) (b : list B) (c : list C) (d : list D) : list E :=
  match a, b, c, d with
  | x :: a', y :: b', z :: c', w :: d' => h x y z w :: zip4 h a' b' c' d'
  | _, _, _, _ => []
  end.
Definition growth_multi_list (mc vm gamma volDG nucStrain : t) (kin r f strain : list t) : list t :=
  zip4 (fun k ri fi si => single_growth_multi k mc vm gamma volDG nucStrain ri fi si) kin r f strain.

(* _singleGrowthBinary:
     superSaturation = (xComp[0] - PSDXalpha) / (VmAlpha * PSDXbeta / VmBeta - PSDXalpha)
     growthRate = kineticFactor(PSDbounds) * D * superSaturation / (effectiveDiffusion(superSaturation) * PSDbounds) *)
Definition supersat (x xa xb vma vmb : t) : t :=
  dvd O (sub O x xa) (sub O (dvd O (mul O vma xb) vmb) xa).
Definition growth_bin (kin D S eps r : t) : t := dvd O (mul O (mul O kin D) S) (mul O eps r).

Definition supersat_list (x vma vmb : t) (xa xb : list t) : list t :=
  zipWith (fun a b => supersat x a b vma vmb) xa xb.
(* eps = effectiveDiffusion(superSaturation), an oracle evaluated by the caller *)
Definition growth_bin_list (D : t) (kin S eps r : list t) : list t :=
  zip4 (fun k s e ri => growth_bin k D s e ri) kin S eps r.

(* _createLookupBinary, bookkeeping after the backend call:
     RdrivingForceIndex = np.amax([np.argmax(PSDXalpha != -1) - 1, 0])
     if RdrivingForceIndex+1 < len(PSDXalpha):  PSDXalpha[:RdrivingForceIndex+1] = PSDXalpha[RdrivingForceIndex+1]
     else: zeros                                                          (same for PSDXbeta)
   np.argmax of an all-False mask is 0: with no stable class the index is 0 and the sentinels stay in the
   table (mirrored here; the theorems require at least one stable class). *)
Definition sentinel : t := sub O (zero O) (one O).
Definition is_stable (x : t) : bool := negb (eqb O x sentinel).
Definition rdf_index (xa : list t) : nat := Nat.max (argmax_first (map is_stable xa) - 1) 0.
Definition fill_prefix (k : nat) (l : list t) : list t :=
  repeat (nthT O l (S k)) (S k) ++ skipn (S k) l.
Definition lookup_fix (xa xb : list t) : nat * (list t * list t) :=
  let k := rdf_index xa in
  if Nat.ltb (S k) (length xa) then (k, (fill_prefix k xa, fill_prefix k xb))
  else (k, (map (fun _ => zero O) xa, map (fun _ => zero O) xb)).

(* _singleGrowthBinary guards on the index: no growth rate when no class is stable *)
Definition single_growth_binary (rdfi : nat) (x vma vmb D : t) (kin eps r xa xb : list t) : list t :=
  if Nat.ltb (S rdfi) (length xa)
  then growth_bin_list D kin (supersat_list x vma vmb xa xb) eps r
  else map (fun _ => zero O) r.

(* _getDrivingForceApprox, last step:  dg = sum(xP * mu(x)) - sum(xP * mu_eq) ;
   _getDrivingForceCurvature in a binary:  dg = (x - xM) * dMudx * (xP - xM) *)
Definition dotT (a b : list t) : t := sumT O (zipWith (mul O) a b).
Definition dg_approx (xP mu mu_eq : list t) : t := sub O (dotT xP mu) (dotT xP mu_eq).
Definition dg_curv_binary (x xM xP dmudx : t) : t := mul O (sub O x xM) (mul O dmudx (sub O xP xM)).

(* ExtraGibbsModel (kawin/thermo/Thermodynamics.py 33-41), the pycalphad Model of a precipitate phase with the
   extra (Gibbs-Thomson) energy GE:
     energy = GM = self.ast + v.GE                                         per mole of atoms
     formulaenergy = G = (self.ast + v.GE) * self._site_ratio_normalization   per formula unit
   ast is the energy per mole of atoms from the database, n = _site_ratio_normalization the moles of atoms in
   one formula unit (0.75 + 0.25 = 1 for AL3ZR, 89 + 140 = 229 for BETA_AL3MG2, 5 + 6 = 11 for MG5SI6_B_DP).
   GM is what `calculate` samples (sampling method), G is what the equilibrium solver minimises
   (interfacial composition, tangent and approximate methods). *)
Definition extra_gm (ast ge : t) : t := add O ast ge.
Definition extra_g (ast ge n : t) : t := mul O (add O ast ge) n.

End C12.

Arguments zip4 {A B C D E} h a b c d.

(* ====================================================================================== *)
(* D3: the GE-index loop of BinaryThermodynamics._interfacialCompositionFromEq             *)
(*
    xMatrixArray = -1*np.ones(gExtra.shape) ; xPrecipArray = -1*np.ones(gExtra.shape) ; gIndex = 0
    for cs_idx, cs_list in wks.enumerate_composition_sets():
        if cs_idx[ge_var_idx] > gIndex:
            gIndex = cs_idx[ge_var_idx]
        if cs_idx[ge_var_idx] == gIndex:
            ph = [cs.phase_record.phase_name for cs in cs_list]
            if len(ph) == 2 and self.phases[0] in ph and precPhase in ph:
                cs_matrix = [cs for cs in cs_list if cs.phase_record.phase_name == self.phases[0]][0]
                cs_precip = [cs for cs in cs_list if cs.phase_record.phase_name == precPhase][0]
                c_idx = 0 if self.reverse else 1
                xMatrixArray[gIndex] = cs_matrix.X[c_idx] ; xPrecipArray[gIndex] = cs_precip.X[c_idx]
                gIndex += 1
   Phase names are coded as numbers, a composition set is (name, (X[0], X[1])), an enumeration entry is
   (GE index, list of composition sets).  An assignment past the end of the arrays is numpy's IndexError:
   the model returns None. *)
Section GELoop.
Variable A : Type.
Variable s : A.                       (* the sentinel, -1 *)
Variables mname pname : nat.          (* self.phases[0], precPhase *)
Variable rev : bool.                  (* self.reverse *)

Definition cset := (nat * (A * A))%type.
Definition entry := (nat * list cset)%type.

Definition pickX (X : A * A) : A := if rev then fst X else snd X.
Definition has_name (n : nat) (c : cset) : bool := Nat.eqb (fst c) n.

Definition two_phase (cs : list cset) : option (A * A) :=
  if Nat.eqb (length cs) 2 && existsb (has_name mname) cs && existsb (has_name pname) cs
  then match find (has_name mname) cs, find (has_name pname) cs with
       | Some cm, Some cp => Some (pickX (snd cm), pickX (snd cp))
       | _, _ => None
       end
  else None.

Fixpoint upd (k : nat) (v : A) (l : list A) : list A :=
  match l, k with
  | [], _ => []
  | _ :: r, 0 => v :: r
  | x :: r, S k' => x :: upd k' v r
  end.

Fixpoint ge_loop (es : list entry) (gi : nat) (xm xp : list A) : option (list A * list A) :=
  match es with
  | [] => Some (xm, xp)
  | (ge, cs) :: r =>
      let gi1 := if Nat.ltb gi ge then ge else gi in
      if Nat.eqb ge gi1
      then match two_phase cs with
           | Some (a, b) =>
               if Nat.ltb gi1 (length xm) then ge_loop r (S gi1) (upd gi1 a xm) (upd gi1 b xp) else None
           | None => ge_loop r gi1 xm xp
           end
      else ge_loop r gi1 xm xp
  end.

Definition ge_comp (n : nat) (es : list entry) : option (list A * list A) :=
  ge_loop es 0 (repeat s n) (repeat s n).

(* specification: the first two-phase entry carrying GE index k *)
Fixpoint first_tp (k : nat) (es : list entry) : option (A * A) :=
  match es with
  | [] => None
  | (ge, cs) :: r =>
      if Nat.eqb ge k then match two_phase cs with Some ab => Some ab | None => first_tp k r end
      else first_tp k r
  end.

End GELoop.

Arguments upd {A} k v l.
