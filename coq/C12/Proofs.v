(* C12 - lemmas about the real-number instance of the model (growth-sign algebra, critical radius,
   lookup-table bookkeeping) and about the GE-index loop. *)
From Coq Require Import Reals List Bool ZArith Arith Lia Lra Psatz.
Require Import Kawin.Common.Ops Kawin.Common.Vec Kawin.Common.VecLemmas Kawin.C12.Model.
Import ListNotations.
Open Scope R_scope.

Tactic Notation "lia" := (cbn [T Rops] in *; Lia.lia).
Tactic Notation "lra" := (cbn [T Rops] in *; Lra.lra).
Tactic Notation "nra" := (cbn [T Rops] in *; Lra.nra).

Ltac unfoldR :=
  unfold single_growth_multi, single_growth_multi_old, growth_curv, chem_dg, gibbs_thomson, vol_dg,
         rcrit_used, rcrit_proposal, supersat, growth_bin, two, maxT, dg_curv_binary in *; Rnorm.

(* ====================================================================================== *)
(* sign of  V - c/r                                                                        *)
Lemma sign_core V c r : 0 < r -> 0 < V ->
  (0 < V - c / r <-> c / V < r) /\ (V - c / r < 0 <-> r < c / V) /\ (V - c / r = 0 <-> r = c / V).
Proof.
  intros Hr HV.
  assert (E : V - c / r = (V / r) * (r - c / V)) by (field; lra).
  assert (P : 0 < V / r) by (apply Rdiv_lt_0_compat; lra).
  rewrite E. repeat split; intros H; nra.
Qed.

Lemma div_nonneg a b : 0 <= a -> 0 < b -> 0 <= a / b.
Proof. intros Ha Hb. unfold Rdiv. apply Rle_mult_inv_pos; assumption. Qed.

Lemma pos_mul_sign a b : 0 < a -> (0 < a * b <-> 0 < b) /\ (a * b < 0 <-> b < 0) /\ (a * b = 0 <-> b = 0).
Proof. intros Ha. repeat split; intros H; nra. Qed.

(* ====================================================================================== *)
(* multicomponent growth                                                                   *)
Lemma gibbs_thomson_R vm strain f gamma r :
  gibbs_thomson Rops vm strain f gamma r = vm * (strain + 2 * f * gamma / r).
Proof. unfoldR. reflexivity. Qed.

Lemma single_growth_multi_R kin mc vm gamma volDG nucStrain r f strain : 0 < r ->
  single_growth_multi Rops kin mc vm gamma volDG nucStrain r f strain =
    (kin * (mc / r) * vm) * ((volDG + nucStrain - strain) - (2 * f * gamma) / r).
Proof. intros Hr. unfoldR. field. lra. Qed.

(* growth > 0  <=>  R > 2 f gamma / dG_v  for a shape whose strain energy does not depend on the size *)
Lemma growth_sign_multi kin mc vm gamma volDG strain r f :
  0 < kin -> 0 < mc -> 0 < vm -> 0 < r -> 0 < volDG ->
  let g := single_growth_multi Rops kin mc vm gamma volDG strain r f strain in
  let rc := rcrit_proposal Rops f gamma volDG in
  (0 < g <-> rc < r) /\ (g < 0 <-> r < rc) /\ (g = 0 <-> r = rc).
Proof.
  intros Hk Hm Hv Hr HV g rc. subst g rc.
  rewrite single_growth_multi_R by assumption.
  replace (volDG + strain - strain) with volDG by ring.
  assert (P : 0 < kin * (mc / r) * vm).
  { apply Rmult_lt_0_compat; [apply Rmult_lt_0_compat|]; try lra. apply Rdiv_lt_0_compat; lra. }
  destruct (pos_mul_sign (kin * (mc / r) * vm) (volDG - 2 * f * gamma / r) P) as (A1 & A2 & A3).
  destruct (sign_core volDG (2 * f * gamma) r Hr HV) as (B1 & B2 & B3).
  unfold rcrit_proposal, two; Rnorm. tauto.
Qed.

(* no positive driving force: every size class shrinks *)
Lemma growth_negative_dg_multi kin mc vm gamma volDG strain r f :
  0 < kin -> 0 < mc -> 0 < vm -> 0 < r -> 0 < f -> 0 < gamma -> volDG <= 0 ->
  single_growth_multi Rops kin mc vm gamma volDG strain r f strain < 0
  /\ forall rmin, rcrit_used Rops f gamma volDG rmin = 0.
Proof.
  intros Hk Hm Hv Hr Hf Hg HV. split.
  - rewrite single_growth_multi_R by assumption.
    replace (volDG + strain - strain) with volDG by ring.
    assert (P : 0 < kin * (mc / r) * vm).
    { apply Rmult_lt_0_compat; [apply Rmult_lt_0_compat|]; try lra. apply Rdiv_lt_0_compat; lra. }
    assert (Q : 0 < 2 * f * gamma / r) by (apply Rdiv_lt_0_compat; nra).
    nra.
  - intros rmin. unfoldR. destruct (Rltb 0 volDG) eqn:E; auto. Rbool. lra.
Qed.

(* the Rmin clamp *)
Lemma rcrit_used_pos f gamma volDG rmin : 0 < volDG ->
  rcrit_used Rops f gamma volDG rmin = Rmax (rcrit_proposal Rops f gamma volDG) rmin.
Proof.
  intros HV. unfold rcrit_used, maxT. Rnorm.
  destruct (Rltb 0 volDG) eqn:E; Rbool; [|lra].
  destruct (Rltb (rcrit_proposal Rops f gamma volDG) rmin) eqn:E2; Rbool.
  - rewrite Rmax_right; lra.
  - rewrite Rmax_left; lra.
Qed.

Lemma rmin_clamp_multi kin mc vm gamma volDG strain r f rmin :
  0 < kin -> 0 < mc -> 0 < vm -> 0 < r -> 0 < volDG ->
  let g := single_growth_multi Rops kin mc vm gamma volDG strain r f strain in
  let rc := rcrit_used Rops f gamma volDG rmin in
  (rc < r -> 0 < g) /\
  (rmin <= rcrit_proposal Rops f gamma volDG -> (r < rc -> g < 0) /\ (r = rc -> g = 0)).
Proof.
  intros Hk Hm Hv Hr HV g rc. subst g rc. rewrite rcrit_used_pos by assumption.
  destruct (growth_sign_multi kin mc vm gamma volDG strain r f Hk Hm Hv Hr HV) as (A1 & A2 & A3).
  split.
  - intros H. apply A1. pose proof (Rmax_l (rcrit_proposal Rops f gamma volDG) rmin). lra.
  - intros Hc. rewrite Rmax_left by lra. split; intros H; [apply A2|apply A3]; assumption.
Qed.

(* nuclei are placed above the critical radius and therefore grow *)
Lemma nuclei_grow kin mc vm gamma volDG strain f rmin delta :
  0 < kin -> 0 < mc -> 0 < vm -> 0 < f -> 0 < gamma -> 0 < volDG -> 0 <= rmin -> 0 < delta ->
  0 < single_growth_multi Rops kin mc vm gamma volDG strain (rcrit_used Rops f gamma volDG rmin + delta) f strain.
Proof.
  intros Hk Hm Hv Hf Hg HV Hrm Hd.
  assert (Hp : 0 < rcrit_proposal Rops f gamma volDG).
  { unfoldR. apply Rdiv_lt_0_compat; nra. }
  assert (Hrc : 0 < rcrit_used Rops f gamma volDG rmin).
  { rewrite rcrit_used_pos by assumption. pose proof (Rmax_l (rcrit_proposal Rops f gamma volDG) rmin). lra. }
  apply (rmin_clamp_multi kin mc vm gamma volDG strain _ f rmin); try assumption; lra.
Qed.

(* before the repair: the strain energy was counted twice *)
Lemma strain_double_count_refuted :
  exists kin mc vm gamma volDG strain r f rmin,
    0 < kin /\ 0 < mc /\ 0 < vm /\ 0 < gamma /\ 0 < f /\ 0 < strain /\ 0 < volDG /\ 0 <= rmin /\
    rcrit_used Rops f gamma volDG rmin < r /\
    single_growth_multi_old Rops kin mc vm gamma volDG r f strain < 0.
Proof.
  exists 1, 1, 1, 1, 2, 1, (3/2), 1, 0. repeat split; try lra.
  - rewrite rcrit_used_pos by lra. unfoldR. rewrite Rmax_left; lra.
  - unfoldR. lra.
Qed.

(* and for every state with a positive strain energy the sign change of the old rate lies above Rcrit *)
Lemma old_growth_sign kin mc vm gamma volDG strain r f :
  0 < kin -> 0 < mc -> 0 < vm -> 0 < r -> 0 < volDG - strain ->
  (0 < single_growth_multi_old Rops kin mc vm gamma volDG r f strain
     <-> rcrit_proposal Rops f gamma (volDG - strain) < r).
Proof.
  intros Hk Hm Hv Hr HV.
  assert (E : single_growth_multi_old Rops kin mc vm gamma volDG r f strain =
              (kin * (mc / r) * vm) * ((volDG - strain) - (2 * f * gamma) / r)) by (unfoldR; field; lra).
  rewrite E.
  assert (P : 0 < kin * (mc / r) * vm).
  { apply Rmult_lt_0_compat; [apply Rmult_lt_0_compat|]; try lra. apply Rdiv_lt_0_compat; lra. }
  destruct (pos_mul_sign (kin * (mc / r) * vm) (volDG - strain - 2 * f * gamma / r) P) as (A1 & _).
  destruct (sign_core (volDG - strain) (2 * f * gamma) r Hr HV) as (B1 & _).
  unfold rcrit_proposal, two; Rnorm. tauto.
Qed.

(* ====================================================================================== *)
(* binary growth: sign of the rate = sign of (x - x_alpha)                                  *)
Lemma supersat_sign x xa xb vma vmb : 0 < vma * xb / vmb - xa ->
  let S := supersat Rops x xa xb vma vmb in
  (0 < S <-> xa < x) /\ (S < 0 <-> x < xa) /\ (S = 0 <-> x = xa).
Proof.
  intros Hd S. subst S. unfoldR.
  assert (P : 0 < / (vma * xb / vmb - xa)) by (apply Rinv_0_lt_compat; lra).
  unfold Rdiv at 1 3 5. set (d := / (vma * xb / vmb - xa)) in *.
  repeat split; intros H; nra.
Qed.

Lemma growth_bin_sign kin D S eps r : 0 < kin -> 0 < D -> 0 < eps -> 0 < r ->
  let g := growth_bin Rops kin D S eps r in
  (0 < g <-> 0 < S) /\ (g < 0 <-> S < 0) /\ (g = 0 <-> S = 0).
Proof.
  intros Hk HD He Hr g. subst g. unfoldR.
  assert (E : kin * D * S / (eps * r) = (kin * D / (eps * r)) * S) by (field; lra).
  rewrite E. apply pos_mul_sign. apply Rdiv_lt_0_compat; nra.
Qed.

Lemma growth_sign_binary_x kin D eps r x xa xb vma vmb :
  0 < kin -> 0 < D -> 0 < r -> 0 < vma * xb / vmb - xa ->
  0 < eps (supersat Rops x xa xb vma vmb) ->
  let g := growth_bin Rops kin D (supersat Rops x xa xb vma vmb) (eps (supersat Rops x xa xb vma vmb)) r in
  (0 < g <-> xa < x) /\ (g < 0 <-> x < xa) /\ (g = 0 <-> x = xa).
Proof.
  intros Hk HD Hr Hden He g. subst g.
  destruct (growth_bin_sign kin D (supersat Rops x xa xb vma vmb) _ r Hk HD He Hr) as (A1 & A2 & A3).
  destruct (supersat_sign x xa xb vma vmb Hden) as (B1 & B2 & B3).
  cbv zeta in *. tauto.
Qed.

(* what is assumed about the backend, as predicates (premises of the closed theorems) *)
Definition dg_increasing (dom : R -> Prop) (DG : R -> R) : Prop :=
  forall x y, dom x -> dom y -> x < y -> DG x < DG y.
Definition xa_in_domain (dom : R -> Prop) (xa : R -> R) (stable : R -> Prop) : Prop :=
  forall g, stable g -> dom (xa g).
Definition dg_consistent (DG xa : R -> R) (stable : R -> Prop) (off : R) : Prop :=
  forall g, stable g -> DG (xa g) = g + off.

(* ====================================================================================== *)
(* the backend as an oracle: driving force DG(x) at the current temperature, interfacial matrix
   composition xa(g) for Gibbs-Thomson energies g at which the precipitate is reported stable.      *)
Section Backend.
Variable dom : R -> Prop.            (* compositions of the matrix phase considered *)
Variables DG xa : R -> R.
Variable stable : R -> Prop.
Variable off : R.                    (* the documented offset, gOffset *)
Hypothesis DG_increasing : forall x y, dom x -> dom y -> x < y -> DG x < DG y.
Hypothesis xa_in_dom : forall g, stable g -> dom (xa g).
Hypothesis consistent : forall g, stable g -> DG (xa g) = g + off.

Lemma DG_lt_iff x y : dom x -> dom y -> (DG x < DG y <-> x < y).
Proof.
  intros Hx Hy. split; [|apply DG_increasing; assumption].
  intros H. destruct (Rtotal_order x y) as [L|[E|G]]; auto.
  - subst. lra.
  - pose proof (DG_increasing y x Hy Hx G). lra.
Qed.

Lemma DG_eq_iff x y : dom x -> dom y -> (DG x = DG y <-> x = y).
Proof.
  intros Hx Hy. split; [|intros; subst; reflexivity].
  intros H. destruct (Rtotal_order x y) as [L|[E|G]]; auto.
  - pose proof (DG_increasing x y Hx Hy L). lra.
  - pose proof (DG_increasing y x Hy Hx G). lra.
Qed.

(* the interfacial matrix composition rises strictly with the Gibbs-Thomson energy *)
Lemma xalpha_monotone g1 g2 : stable g1 -> stable g2 -> (g1 < g2 <-> xa g1 < xa g2).
Proof.
  intros H1 H2. rewrite <- (DG_lt_iff (xa g1) (xa g2)) by auto.
  rewrite (consistent g1 H1), (consistent g2 H2). lra.
Qed.

(* it is THE composition at which the driving force equals g (plus the offset) *)
Lemma xalpha_is_root x g : dom x -> stable g -> (DG x = g + off <-> x = xa g).
Proof.
  intros Hx Hg. rewrite <- (consistent g Hg). apply DG_eq_iff; auto.
Qed.

Lemma x_vs_xalpha x g : dom x -> stable g ->
  (xa g < x <-> g + off < DG x) /\ (x < xa g <-> DG x < g + off) /\ (x = xa g <-> DG x = g + off).
Proof.
  intros Hx Hg. pose proof (xa_in_dom g Hg) as Hd. rewrite <- (consistent g Hg).
  repeat split; intros H.
  - apply DG_lt_iff; auto.
  - apply (DG_lt_iff (xa g) x); auto.
  - apply DG_lt_iff; auto.
  - apply (DG_lt_iff x (xa g)); auto.
  - subst; reflexivity.
  - apply DG_eq_iff; auto.
Qed.

(* the driving force changes sign (to the offset) at the planar solvus xa(0) *)
Lemma dg_sign_at_solvus x : dom x -> stable 0 ->
  (off < DG x <-> xa 0 < x) /\ (DG x < off <-> x < xa 0) /\ (DG x = off <-> x = xa 0).
Proof.
  intros Hx H0. destruct (x_vs_xalpha x 0 Hx H0) as (A1 & A2 & A3).
  replace (0 + off) with off in * by ring. tauto.
Qed.

(* growth rate of a size class of radius r: positive exactly when the driving force exceeds the
   Gibbs-Thomson energy of that class (plus the offset) *)
Lemma growth_sign_binary_g kin D (eps : R -> R) r x xb vma vmb vm strain f gamma :
  let g := gibbs_thomson Rops vm strain f gamma r in
  let S := supersat Rops x (xa g) xb vma vmb in
  let gr := growth_bin Rops kin D S (eps S) r in
  dom x -> stable g -> 0 < kin -> 0 < D -> 0 < r -> 0 < vma * xb / vmb - xa g -> 0 < eps S ->
  (0 < gr <-> g + off < DG x) /\ (gr < 0 <-> DG x < g + off) /\ (gr = 0 <-> DG x = g + off).
Proof.
  intros g S gr Hx Hg Hk HD Hr Hden He. subst gr S.
  destruct (growth_sign_binary_x kin D eps r x (xa g) xb vma vmb Hk HD Hr Hden He) as (A1 & A2 & A3).
  destruct (x_vs_xalpha x g Hx Hg) as (B1 & B2 & B3).
  cbv zeta in *. split; [|split]; [rewrite A1, B1|rewrite A2, B2|rewrite A3, B3]; tauto.
Qed.

(* ... and in terms of the radius: the sign changes at  2 f gamma / (dG_v - off/Vm),  where
   dG_v = DG(x)/Vm - strain  is the volumetric driving force nucleation uses *)
Lemma gt_vs_radius vm strain f gamma r dg :
  0 < vm -> 0 < r -> 0 < vol_dg Rops dg vm strain - off / vm ->
  let g := gibbs_thomson Rops vm strain f gamma r in
  let rc := rcrit_proposal Rops f gamma (vol_dg Rops dg vm strain - off / vm) in
  (g + off < dg <-> rc < r) /\ (dg < g + off <-> r < rc) /\ (dg = g + off <-> r = rc).
Proof.
  intros Hv Hr HV g rc. subst g rc.
  destruct (sign_core (vol_dg Rops dg vm strain - off / vm) (2 * f * gamma) r Hr HV) as (B1 & B2 & B3).
  assert (E : dg - (gibbs_thomson Rops vm strain f gamma r + off) =
              vm * (vol_dg Rops dg vm strain - off / vm - 2 * f * gamma / r)).
  { unfoldR. field. lra. }
  destruct (pos_mul_sign vm (vol_dg Rops dg vm strain - off / vm - 2 * f * gamma / r) Hv) as (A1 & A2 & A3).
  rewrite <- E in A1, A2, A3.
  unfold rcrit_proposal, two; Rnorm.
  split; [|split]; split; intros H.
  - apply B1, A1. lra.
  - apply B1, A1 in H. lra.
  - apply B2, A2. lra.
  - apply B2, A2 in H. lra.
  - apply B3, A3. lra.
  - apply B3, A3 in H. lra.
Qed.

Lemma growth_sign_binary kin D (eps : R -> R) r x xb vma vmb vm strain f gamma :
  let g := gibbs_thomson Rops vm strain f gamma r in
  let S := supersat Rops x (xa g) xb vma vmb in
  let gr := growth_bin Rops kin D S (eps S) r in
  let rc := rcrit_proposal Rops f gamma (vol_dg Rops (DG x) vm strain - off / vm) in
  dom x -> stable g -> 0 < kin -> 0 < D -> 0 < r -> 0 < vm -> 0 < vma * xb / vmb - xa g -> 0 < eps S ->
  0 < vol_dg Rops (DG x) vm strain - off / vm ->
  (0 < gr <-> rc < r) /\ (gr < 0 <-> r < rc) /\ (gr = 0 <-> r = rc).
Proof.
  intros g S gr rc Hx Hg Hk HD Hr Hv Hden He HV.
  destruct (growth_sign_binary_g kin D eps r x xb vma vmb vm strain f gamma Hx Hg Hk HD Hr Hden He) as (A1 & A2 & A3).
  destruct (gt_vs_radius vm strain f gamma r (DG x) Hv Hr HV) as (B1 & B2 & B3).
  subst gr S g rc. cbv zeta in *.
  split; [|split]; [rewrite A1, B1|rewrite A2, B2|rewrite A3, B3]; tauto.
Qed.

(* relative to the critical radius Rc = 2 f gamma / dG_v that nucleation uses: classes below Rc shrink,
   classes above Rc (1 + 2 off / (Vm dG_v)) grow; the band in between is what the offset can move *)
Lemma growth_sign_binary_band kin D (eps : R -> R) r x xb vma vmb vm strain f gamma :
  let g := gibbs_thomson Rops vm strain f gamma r in
  let S := supersat Rops x (xa g) xb vma vmb in
  let gr := growth_bin Rops kin D S (eps S) r in
  let V := vol_dg Rops (DG x) vm strain in
  let rc := rcrit_proposal Rops f gamma V in
  dom x -> stable g -> 0 < kin -> 0 < D -> 0 < r -> 0 < vm -> 0 < f -> 0 < gamma ->
  0 < vma * xb / vmb - xa g -> 0 < eps S ->
  0 < V -> 0 <= off -> 2 * off < vm * V ->
  (r < rc -> gr < 0) /\ (rc * (1 + 2 * off / (vm * V)) < r -> 0 < gr) /\ (off = 0 -> (0 < gr <-> rc < r)).
Proof.
  intros g S gr V rc Hx Hg Hk HD Hr Hv Hf Hga Hden He HV Hoff Hsmall.
  assert (HV' : 0 < V - off / vm).
  { subst V. assert (off / vm < vol_dg Rops (DG x) vm strain / 2); [|lra].
    apply (Rmult_lt_reg_r vm); [lra|]. unfold Rdiv at 1. rewrite Rmult_assoc, Rinv_l by lra. lra. }
  destruct (growth_sign_binary kin D eps r x xb vma vmb vm strain f gamma Hx Hg Hk HD Hr Hv Hden He HV') as (A1 & A2 & A3).
  fold V in A1, A2, A3. fold g in A1, A2, A3. fold S in A1, A2, A3. fold gr in A1, A2, A3.
  set (rc' := rcrit_proposal Rops f gamma (V - off / vm)) in *.
  assert (Hc : 0 < 2 * f * gamma) by nra.
  assert (Erc : rc = 2 * f * gamma / V) by (subst rc; unfoldR; reflexivity).
  assert (Erc' : rc' = 2 * f * gamma / (V - off / vm)) by (subst rc'; unfoldR; reflexivity).
  assert (Hle : rc <= rc').
  { rewrite Erc, Erc'. unfold Rdiv. apply Rmult_le_compat_l; [lra|].
    apply Rinv_le_contravar; [lra|]. assert (0 <= off / vm) by (apply div_nonneg; lra). lra. }
  assert (Hup : rc' <= rc * (1 + 2 * off / (vm * V))).
  { rewrite Erc, Erc'.
    set (e := off / (vm * V)).
    assert (He0 : 0 <= e) by (apply div_nonneg; nra).
    assert (He1 : e < 1 / 2).
    { subst e. apply (Rmult_lt_reg_r (vm * V)); [nra|].
      unfold Rdiv at 1. rewrite Rmult_assoc, Rinv_l by nra. lra. }
    assert (E1 : V - off / vm = V * (1 - e)) by (subst e; field; lra).
    assert (E2 : 2 * off / (vm * V) = 2 * e) by (subst e; field; lra).
    rewrite E1, E2.
    assert (E3 : 2 * f * gamma / (V * (1 - e)) = (2 * f * gamma / V) * / (1 - e)) by (field; lra).
    rewrite E3. apply Rmult_le_compat_l; [apply Rlt_le, Rdiv_lt_0_compat; lra|].
    apply (Rmult_le_reg_r (1 - e)); [lra|]. rewrite Rinv_l by lra. nra. }
  split; [|split].
  - intros H. apply A2. lra.
  - intros H. apply A1. lra.
  - intros H0. assert (rc' = rc); [|rewrite A1; lra].
    rewrite Erc, Erc', H0. assert (Hz : V - 0 / vm = V) by (unfold Rdiv; ring). rewrite Hz. reflexivity.
Qed.

End Backend.

(* the curvature method in a binary: first-order estimate, same sign as x - xM *)
Lemma curvature_sign_binary x xM xP dmudx : 0 < dmudx -> xM < xP ->
  let d := dg_curv_binary Rops x xM xP dmudx in
  (0 < d <-> xM < x) /\ (d < 0 <-> x < xM) /\ (d = 0 <-> x = xM).
Proof.
  intros Hm Hp d. subst d. unfoldR.
  assert (P : 0 < dmudx * (xP - xM)) by nra.
  set (k := dmudx * (xP - xM)) in *. repeat split; intros H; nra.
Qed.

(* the approximate method for a stoichiometric precipitate: the tangent-plane distance at the fixed
   precipitate composition, measured from the equilibrium plane; equals the parallel-tangent value
   up to the energy offset carried by the equilibrium calculation *)
Lemma approx_is_tangent_minus_offset (xP mu mu_eq : list R) Gbeta offeq :
  dotT Rops xP mu_eq = Gbeta + offeq ->
  dg_approx Rops xP mu mu_eq = (dotT Rops xP mu - Gbeta) - offeq.
Proof. intros H. unfold dg_approx. Rnorm. rewrite H. ring. Qed.

(* ====================================================================================== *)
(* the extra Gibbs energy enters per mole of atoms, whatever the size of the formula unit    *)
Lemma extra_g_per_atom ast ge n : n <> 0 ->
  extra_g Rops ast ge n / n = extra_gm Rops ast ge.
Proof. intros Hn. unfold extra_g, extra_gm. Rnorm. field. exact Hn. Qed.

(* raising GE by d raises the energy per mole of atoms by exactly d in both energy properties *)
Lemma extra_shift ast ge d n : n <> 0 ->
  extra_gm Rops ast (ge + d) - extra_gm Rops ast ge = d /\
  extra_g Rops ast (ge + d) n / n - extra_g Rops ast ge n / n = d.
Proof.
  intros Hn. rewrite !extra_g_per_atom by exact Hn. unfold extra_gm. Rnorm. split; ring.
Qed.

(* stoichiometric precipitate (ast fixed), tangent plane of the matrix at the precipitate composition h (per mole of
   atoms, n h per formula unit): the GE that puts the formula energy on the plane - what the tangent method solves
   for, and what the interfacial-composition equilibrium imposes - is the plane distance h - ast that the sampling
   method reads off the per-atom energy with GE = 0; for every n *)
Lemma tangent_is_plane_distance ast h ge n : n <> 0 ->
  (extra_g Rops ast ge n = n * h <-> ge = h - extra_gm Rops ast 0).
Proof.
  intros Hn. unfold extra_g, extra_gm. Rnorm. split; intros H.
  - assert (E : (ast + ge) * n = h * n) by lra. apply Rmult_eq_reg_r in E; [lra|exact Hn].
  - subst ge. ring.
Qed.

(* ====================================================================================== *)
(* the sentinel: once unstable, unstable for every larger Gibbs-Thomson energy              *)
Section Sentinel.
(* the equilibrium calculation finds the two-phase region as long as the matrix composition it needs,
   xa_true(g), stays below a limit xlim (the precipitate composition, a spinodal, the end of the
   sampled range); beyond it reports -1 *)
Variable xa_true : R -> R.
Variable xlim : R.
Hypothesis xa_nondecreasing : forall g1 g2, g1 <= g2 -> xa_true g1 <= xa_true g2.
Hypothesis xa_nonneg : forall g, 0 <= xa_true g.

Definition xa_code (g : R) : R := if Rlt_dec (xa_true g) xlim then xa_true g else -1.

Lemma xa_code_sentinel g : xa_code g = -1 <-> xlim <= xa_true g.
Proof.
  unfold xa_code. destruct (Rlt_dec (xa_true g) xlim) as [L|L]; split; intros H; try lra.
  pose proof (xa_nonneg g). lra.
Qed.

Lemma sentinel_monotone g1 g2 : g1 <= g2 -> xa_code g1 = -1 -> xa_code g2 = -1.
Proof.
  intros Hg H. apply xa_code_sentinel. apply xa_code_sentinel in H.
  pose proof (xa_nondecreasing g1 g2 Hg). lra.
Qed.

(* Gibbs-Thomson energy falls with the radius *)
Lemma gibbs_thomson_decreasing vm strain f gamma r1 r2 :
  0 < vm -> 0 < f -> 0 < gamma -> 0 < r1 -> r1 < r2 ->
  gibbs_thomson Rops vm strain f gamma r2 < gibbs_thomson Rops vm strain f gamma r1.
Proof.
  intros Hv Hf Hg H1 H2. rewrite !gibbs_thomson_R.
  assert (P : 0 < 2 * f * gamma) by nra.
  assert (2 * f * gamma / r2 < 2 * f * gamma / r1); [|nra].
  unfold Rdiv. apply Rmult_lt_compat_l; [lra|]. apply Rinv_lt_contravar; nra.
Qed.

(* hence in the lookup table over increasing class boundaries the unstable entries are a prefix *)
Lemma sentinel_prefix vm strain f gamma (bounds : list R) i j :
  0 < vm -> 0 < f -> 0 < gamma ->
  (forall a b, (a < b < length bounds)%nat -> 0 < nth a bounds 0 < nth b bounds 0) ->
  (i <= j < length bounds)%nat ->
  let table := map (fun r => xa_code (gibbs_thomson Rops vm strain f gamma r)) bounds in
  nth j table 0 = -1 -> nth i table 0 = -1.
Proof.
  intros Hv Hf Hg Hb Hij table.
  set (F := fun r : R => xa_code (gibbs_thomson Rops vm strain f gamma r)) in *.
  assert (E : forall k, (k < length bounds)%nat -> nth k table 0 = F (nth k bounds 0)).
  { intros k Hk. subst table.
    rewrite (nth_indep _ 0 (F 0)) by (rewrite map_length; exact Hk).
    exact (map_nth F bounds 0 k). }
  unfold F in E.
  rewrite !E by lia. intros H.
  destruct (Nat.eq_dec i j) as [->|Hne]; auto.
  apply (sentinel_monotone (gibbs_thomson Rops vm strain f gamma (nth j bounds 0))); auto.
  assert (Hbij : 0 < nth i bounds 0 < nth j bounds 0) by (apply Hb; lia).
  apply Rlt_le, gibbs_thomson_decreasing; auto; lra.
Qed.

End Sentinel.

(* ====================================================================================== *)
(* the RdrivingForceIndex bookkeeping of _createLookupBinary                                *)
Definition prefix_stable (xa : list R) : Prop :=
  forall i j, (i <= j < length xa)%nat -> is_stable Rops (nth i xa 0) = true -> is_stable Rops (nth j xa 0) = true.

Lemma nth_repeat_lt {A} (v d : A) n j : (j < n)%nat -> nth j (repeat v n) d = v.
Proof. revert j; induction n; intros [|j] H; simpl; try lia; auto. apply IHn; lia. Qed.

Lemma fill_prefix_length k l : (S k <= length l)%nat -> length (fill_prefix Rops k l) = length l.
Proof.
  intros H. unfold fill_prefix. rewrite app_length, repeat_length, skipn_length. lia.
Qed.

Lemma nth_fill_prefix k l j : (S k <= length l)%nat ->
  nth j (fill_prefix Rops k l) 0 = if (j <=? k)%nat then nth (S k) l 0 else nth j l 0.
Proof.
  intros H. unfold fill_prefix, nthT. Rnorm.
  destruct (j <=? k)%nat eqn:E.
  - apply Nat.leb_le in E. rewrite app_nth1 by (rewrite repeat_length; lia).
    apply nth_repeat_lt. lia.
  - apply Nat.leb_gt in E. rewrite app_nth2 by (rewrite repeat_length; lia).
    rewrite repeat_length, nth_skipn. f_equal. lia.
Qed.

Lemma map_is_stable_nth xa k : (k < length xa)%nat ->
  nth k (map (is_stable Rops) xa) false = is_stable Rops (nth k xa 0).
Proof.
  intros H. rewrite (nth_indep _ false (is_stable Rops 0)) by (rewrite map_length; exact H).
  apply map_nth.
Qed.

Lemma lookup_fix_spec (xa xb : list R) :
  (2 <= length xa)%nat -> length xb = length xa -> prefix_stable xa ->
  (exists k0, (k0 < length xa)%nat /\ is_stable Rops (nth k0 xa 0) = true) ->
  exists k xa' xb', lookup_fix Rops xa xb = (k, (xa', xb')) /\
    (S k < length xa)%nat /\ length xa' = length xa /\ length xb' = length xa /\
    (forall j, (j < k)%nat -> is_stable Rops (nth j xa 0) = false) /\
    (forall j, (k < j < length xa)%nat -> is_stable Rops (nth j xa 0) = true) /\
    (forall j, (j < length xa)%nat -> is_stable Rops (nth j xa' 0) = true) /\
    (forall j, (k < j < length xa)%nat -> nth j xa' 0 = nth j xa 0 /\ nth j xb' 0 = nth j xb 0) /\
    (forall j, (j <= k)%nat -> nth j xa' 0 = nth (S k) xa 0 /\ nth j xb' 0 = nth (S k) xb 0).
Proof.
  intros Hlen Hlb Hpre (k0 & Hk0 & Hst).
  unfold lookup_fix. set (k := rdf_index Rops xa).
  (* the first stable index *)
  destruct (find_first (map (is_stable Rops) xa)) as [m|] eqn:Ef.
  2:{ exfalso. pose proof (proj1 (find_first_none _) Ef k0) as X. rewrite map_length in X.
      specialize (X Hk0). rewrite map_is_stable_nth in X by exact Hk0. (cbn [T Rops] in *; congruence). }
  apply find_first_spec in Ef. destruct Ef as (Hm & Hmt & Hbelow). rewrite map_length in Hm.
  rewrite map_is_stable_nth in Hmt by exact Hm.
  assert (Ek : k = (m - 1)%nat).
  { subst k. unfold rdf_index, argmax_first.
    destruct (find_first (map (is_stable Rops) xa)) as [m'|] eqn:Ef'.
    - apply find_first_spec in Ef'. destruct Ef' as (Hm' & Hmt' & Hbelow').
      rewrite map_length in Hm'. rewrite map_is_stable_nth in Hmt' by exact Hm'.
      assert (m' = m).
      { destruct (lt_eq_lt_dec m' m) as [[L|E]|G]; auto.
        - specialize (Hbelow m' L). rewrite map_is_stable_nth in Hbelow by exact Hm'. (cbn [T Rops] in *; congruence).
        - specialize (Hbelow' m G). rewrite map_is_stable_nth in Hbelow' by exact Hm. (cbn [T Rops] in *; congruence). }
      subst. lia.
    - exfalso. pose proof (proj1 (find_first_none _) Ef' m) as X. rewrite map_length in X.
      specialize (X Hm). rewrite map_is_stable_nth in X by exact Hm. (cbn [T Rops] in *; congruence). }
  assert (HSk : (S k < length xa)%nat) by lia.
  assert (Hmk : (m <= S k)%nat) by lia.
  cbn [T Rops].
  destruct (Nat.ltb (S k) (length xa)) eqn:El; [|apply Nat.ltb_ge in El; lia].
  exists k, (fill_prefix Rops k xa), (fill_prefix Rops k xb).
  split; [reflexivity|]. split; [exact HSk|].
  split; [apply fill_prefix_length; lia|]. split; [rewrite fill_prefix_length; lia|].
  assert (Habove : forall j, (S k <= j < length xa)%nat -> is_stable Rops (nth j xa 0) = true).
  { intros j Hj. apply (Hpre m j); [lia|exact Hmt]. }
  split; [|split; [|split; [|split]]].
  - intros j Hj. assert (Hjm : (j < m)%nat) by lia.
    specialize (Hbelow j Hjm). rewrite map_is_stable_nth in Hbelow by lia. exact Hbelow.
  - intros j Hj. apply Habove; lia.
  - intros j Hj. rewrite nth_fill_prefix by lia.
    destruct (j <=? k)%nat eqn:E; [apply Habove; lia|]. apply Nat.leb_gt in E. apply Habove; lia.
  - intros j Hj. rewrite !nth_fill_prefix by lia.
    destruct (j <=? k)%nat eqn:E; [apply Nat.leb_le in E; lia|]. split; reflexivity.
  - intros j Hj. rewrite !nth_fill_prefix by lia.
    destruct (j <=? k)%nat eqn:E; [|apply Nat.leb_gt in E; lia]. split; reflexivity.
Qed.

(* ====================================================================================== *)
(* the GE-index loop                                                                       *)
From Coq Require Import Sorted.

Section GELoopProofs.
Variable A : Type.
Variable s : A.
Variables mname pname : nat.
Variable rev : bool.

Notation tp := (two_phase A mname pname rev).
Notation loop := (ge_loop A mname pname rev).
Notation ftp := (first_tp A mname pname rev).

Definition ge_le (a b : entry A) : Prop := (fst a <= fst b)%nat.

Lemma upd_length k v (l : list A) : length (upd k v l) = length l.
Proof. revert k; induction l as [|x l IH]; intros [|k]; simpl; auto. Qed.

Lemma nth_upd k v (l : list A) j d : (k < length l)%nat ->
  nth j (upd k v l) d = if Nat.eqb j k then v else nth j l d.
Proof.
  revert k j; induction l as [|x l IH]; intros [|k] [|j] H; simpl in *; try lia; auto.
  apply IH; lia.
Qed.

Lemma ftp_none_above k es : Forall (fun e : entry A => (k < fst e)%nat) es -> ftp k es = None.
Proof.
  induction 1 as [|[ge cs] r H _ IH]; simpl; auto.
  simpl in H. destruct (Nat.eqb ge k) eqn:E; [apply Nat.eqb_eq in E; lia|exact IH].
Qed.

Lemma ge_loop_general es : forall gi xm xp n,
  StronglySorted ge_le es -> Forall (fun e : entry A => (fst e < n)%nat) es ->
  length xm = n -> length xp = n ->
  exists xm' xp', loop es gi xm xp = Some (xm', xp') /\ length xm' = n /\ length xp' = n /\
    forall k d,
      ((k < gi)%nat -> nth k xm' d = nth k xm d /\ nth k xp' d = nth k xp d) /\
      ((gi <= k)%nat -> (k < n)%nat ->
         match ftp k es with
         | Some (a, b) => nth k xm' d = a /\ nth k xp' d = b
         | None => nth k xm' d = nth k xm d /\ nth k xp' d = nth k xp d
         end).
Proof.
  induction es as [|[ge cs] r IH]; intros gi xm xp n Hs Hn Lm Lp.
  - exists xm, xp. simpl. repeat split; auto.
  - inversion Hs as [|? ? Hs' Hall]; subst. inversion Hn as [|? ? Hge Hn']; subst. simpl in Hge.
    assert (Hall' : Forall (fun e : entry A => (ge <= fst e)%nat) r) by exact Hall.
    cbn [ge_loop first_tp].
    destruct (Nat.ltb gi ge) eqn:Egi.
    + (* the GE index moved past gIndex: jump *)
      apply Nat.ltb_lt in Egi. rewrite Nat.eqb_refl.
      destruct (tp cs) as [[a b]|] eqn:Etp.
      * assert (Hlt : Nat.ltb ge (length xm) = true) by (apply Nat.ltb_lt; lia). rewrite Hlt.
        destruct (IH (S ge) (upd ge a xm) (upd ge b xp) (length xm) Hs' Hn'
                     (upd_length _ _ _) ltac:(rewrite upd_length; lia)) as (xm' & xp' & E & L1 & L2 & Hk).
        exists xm', xp'. repeat split; auto.
        -- destruct (Hk k d) as (P1 & _). rewrite (proj1 (P1 ltac:(lia))), nth_upd by lia.
           destruct (Nat.eqb k ge) eqn:E1; [apply Nat.eqb_eq in E1; lia|reflexivity].
        -- destruct (Hk k d) as (P1 & _). rewrite (proj2 (P1 ltac:(lia))), nth_upd by lia.
           destruct (Nat.eqb k ge) eqn:E1; [apply Nat.eqb_eq in E1; lia|reflexivity].
        -- intros Hgk Hkn. destruct (Nat.eqb ge k) eqn:E1.
           ++ apply Nat.eqb_eq in E1; subst k. destruct (Hk ge d) as (P1 & _).
              destruct (P1 ltac:(lia)) as (Q1 & Q2). rewrite Q1, Q2, !nth_upd by lia.
              rewrite Nat.eqb_refl. split; reflexivity.
           ++ apply Nat.eqb_neq in E1. destruct (lt_dec k ge) as [Lk|Gk].
              ** rewrite ftp_none_above
                   by (eapply Forall_impl; [|exact Hall']; simpl; intros; lia).
                 destruct (Hk k d) as (P1 & _). destruct (P1 ltac:(lia)) as (Q1 & Q2).
                 rewrite Q1, Q2, !nth_upd by lia.
                 destruct (Nat.eqb k ge) eqn:E2; [apply Nat.eqb_eq in E2; lia|]. split; reflexivity.
              ** destruct (Hk k d) as (_ & P2). specialize (P2 ltac:(lia) ltac:(lia)).
                 destruct (ftp k r) as [[a' b']|]; auto.
                 rewrite !nth_upd in P2 by lia.
                 destruct (Nat.eqb k ge) eqn:E2; [apply Nat.eqb_eq in E2; lia|]. exact P2.
      * destruct (IH ge xm xp (length xm) Hs' Hn' eq_refl Lp) as (xm' & xp' & E & L1 & L2 & Hk).
        exists xm', xp'. repeat split; auto.
        -- destruct (Hk k d) as (P1 & _). apply P1. lia.
        -- destruct (Hk k d) as (P1 & _). apply P1. lia.
        -- intros Hgk Hkn.
           assert (Ef : (if Nat.eqb ge k then ftp k r else ftp k r) = ftp k r) by (destruct (Nat.eqb ge k); reflexivity).
           rewrite Ef. destruct (lt_dec k ge) as [Lk|Gk].
           ++ rewrite ftp_none_above
                by (eapply Forall_impl; [|exact Hall']; simpl; intros; lia).
              destruct (Hk k d) as (P1 & _). apply P1. lia.
           ++ destruct (Hk k d) as (_ & P2). apply P2; lia.
    + apply Nat.ltb_ge in Egi.
      destruct (Nat.eqb ge gi) eqn:Eg.
      * (* the entry belongs to the GE index currently looked at *)
        apply Nat.eqb_eq in Eg; subst gi.
        destruct (tp cs) as [[a b]|] eqn:Etp.
        -- assert (Hlt : Nat.ltb ge (length xm) = true) by (apply Nat.ltb_lt; lia). rewrite Hlt.
           destruct (IH (S ge) (upd ge a xm) (upd ge b xp) (length xm) Hs' Hn'
                        (upd_length _ _ _) ltac:(rewrite upd_length; lia)) as (xm' & xp' & E & L1 & L2 & Hk).
           exists xm', xp'. repeat split; auto.
           ++ destruct (Hk k d) as (P1 & _). rewrite (proj1 (P1 ltac:(lia))), nth_upd by lia.
              destruct (Nat.eqb k ge) eqn:E1; [apply Nat.eqb_eq in E1; lia|reflexivity].
           ++ destruct (Hk k d) as (P1 & _). rewrite (proj2 (P1 ltac:(lia))), nth_upd by lia.
              destruct (Nat.eqb k ge) eqn:E1; [apply Nat.eqb_eq in E1; lia|reflexivity].
           ++ intros Hgk Hkn. destruct (Nat.eqb ge k) eqn:E1.
              ** apply Nat.eqb_eq in E1; subst k. destruct (Hk ge d) as (P1 & _).
                 destruct (P1 ltac:(lia)) as (Q1 & Q2). rewrite Q1, Q2, !nth_upd by lia.
                 rewrite Nat.eqb_refl. split; reflexivity.
              ** apply Nat.eqb_neq in E1. destruct (Hk k d) as (_ & P2). specialize (P2 ltac:(lia) ltac:(lia)).
                 destruct (ftp k r) as [[a' b']|]; auto.
                 rewrite !nth_upd in P2 by lia.
                 destruct (Nat.eqb k ge) eqn:E2; [apply Nat.eqb_eq in E2; lia|]. exact P2.
        -- destruct (IH ge xm xp (length xm) Hs' Hn' eq_refl Lp) as (xm' & xp' & E & L1 & L2 & Hk).
           exists xm', xp'. repeat split; auto.
           ++ destruct (Hk k d) as (P1 & _). apply P1. lia.
           ++ destruct (Hk k d) as (P1 & _). apply P1. lia.
           ++ intros Hgk Hkn.
              assert (Ef : (if Nat.eqb ge k then ftp k r else ftp k r) = ftp k r) by (destruct (Nat.eqb ge k); reflexivity).
              rewrite Ef. destruct (Hk k d) as (_ & P2). apply P2; lia.
      * (* an entry of a GE index that has been served already: skipped *)
        apply Nat.eqb_neq in Eg.
        destruct (IH gi xm xp (length xm) Hs' Hn' eq_refl Lp) as (xm' & xp' & E & L1 & L2 & Hk).
        exists xm', xp'. repeat split; auto.
        -- destruct (Hk k d) as (P1 & _). apply P1. lia.
        -- destruct (Hk k d) as (P1 & _). apply P1. lia.
        -- intros Hgk Hkn. destruct (Nat.eqb ge k) eqn:E1; [apply Nat.eqb_eq in E1; lia|].
           destruct (Hk k d) as (_ & P2). apply P2; lia.
Qed.

Lemma nth_repeat_any (v d : A) n j : (j < n)%nat -> nth j (repeat v n) d = v.
Proof. revert j; induction n; intros [|j] H; simpl; try lia; auto. apply IHn; lia. Qed.

(* for every enumeration with the GE index non-decreasing (GE outer, X inner - the order pycalphad
   documents) the loop returns, per GE index, the first two-phase entry, and the sentinel otherwise *)
Lemma ge_index_loop n es :
  StronglySorted ge_le es -> Forall (fun e : entry A => (fst e < n)%nat) es ->
  exists xm xp, ge_comp A s mname pname rev n es = Some (xm, xp) /\ length xm = n /\ length xp = n /\
    forall k, (k < n)%nat ->
      match ftp k es with
      | Some (a, b) => nth k xm s = a /\ nth k xp s = b
      | None => nth k xm s = s /\ nth k xp s = s
      end.
Proof.
  intros Hs Hn. unfold ge_comp.
  destruct (ge_loop_general es 0 (repeat s n) (repeat s n) n Hs Hn (repeat_length _ _) (repeat_length _ _))
    as (xm & xp & E & L1 & L2 & Hk).
  exists xm, xp. repeat split; auto. intros k Hkn.
  destruct (Hk k s) as (_ & P2). specialize (P2 ltac:(lia) Hkn).
  destruct (ftp k es) as [[a b]|]; auto.
  rewrite !nth_repeat_any in P2 by exact Hkn. exact P2.
Qed.

End GELoopProofs.
