(* C12 - Driving force, phase boundary and critical radius agree with each other.
   This file contains ONLY the property theorems; each is closed by [exact] of a lemma of Proofs.v and
   followed by Print Assumptions.  Statements are about the real-number instance [Rops] of the model in
   Model.v; the thermodynamic backend (pycalphad) is an oracle: DG, xa, stable, off below are universally
   quantified and what is assumed about them is an explicit premise of each theorem. *)
From Coq Require Import Reals QArith Qreals List Arith Sorted.
Require Import Kawin.Common.Ops Kawin.Common.Vec Kawin.Common.VecLemmas Kawin.C12.Model Kawin.C12.Proofs Kawin.C12.Hom.
Open Scope R_scope.

(* ---- multicomponent: growth changes sign exactly at the critical radius nucleation uses ---------- *)
(* (constant shape: the strain energy of a size class is that of the nucleus) *)
Theorem C12_growth_sign_multi kin mc vm gamma volDG strain r f :
  0 < kin -> 0 < mc -> 0 < vm -> 0 < r -> 0 < volDG ->
  let g := single_growth_multi Rops kin mc vm gamma volDG strain r f strain in
  let rc := rcrit_proposal Rops f gamma volDG in
  (0 < g <-> rc < r) /\ (g < 0 <-> r < rc) /\ (g = 0 <-> r = rc).
Proof. exact (growth_sign_multi kin mc vm gamma volDG strain r f). Qed.
Print Assumptions C12_growth_sign_multi.

(* without a positive driving force there is no critical radius and every class shrinks *)
Theorem C12_growth_negative_dg_multi kin mc vm gamma volDG strain r f :
  0 < kin -> 0 < mc -> 0 < vm -> 0 < r -> 0 < f -> 0 < gamma -> volDG <= 0 ->
  single_growth_multi Rops kin mc vm gamma volDG strain r f strain < 0
  /\ forall rmin, rcrit_used Rops f gamma volDG rmin = 0.
Proof. exact (growth_negative_dg_multi kin mc vm gamma volDG strain r f). Qed.
Print Assumptions C12_growth_negative_dg_multi.

(* the Rmin clamp: above the radius that is used everything grows; "below shrinks" only when the clamp
   is not active *)
Theorem C12_rmin_clamp_multi kin mc vm gamma volDG strain r f rmin :
  0 < kin -> 0 < mc -> 0 < vm -> 0 < r -> 0 < volDG ->
  let g := single_growth_multi Rops kin mc vm gamma volDG strain r f strain in
  let rc := rcrit_used Rops f gamma volDG rmin in
  (rc < r -> 0 < g) /\
  (rmin <= rcrit_proposal Rops f gamma volDG -> (r < rc -> g < 0) /\ (r = rc -> g = 0)).
Proof. exact (rmin_clamp_multi kin mc vm gamma volDG strain r f rmin). Qed.
Print Assumptions C12_rmin_clamp_multi.

(* nuclei are placed at Rcrit + delta and grow *)
Theorem C12_nuclei_grow kin mc vm gamma volDG strain f rmin delta :
  0 < kin -> 0 < mc -> 0 < vm -> 0 < f -> 0 < gamma -> 0 < volDG -> 0 <= rmin -> 0 < delta ->
  0 < single_growth_multi Rops kin mc vm gamma volDG strain (rcrit_used Rops f gamma volDG rmin + delta) f strain.
Proof. exact (nuclei_grow kin mc vm gamma volDG strain f rmin delta). Qed.
Print Assumptions C12_nuclei_grow.

(* the code before the repair (strain energy taken off twice) breaks the property: a class above the
   critical radius shrinks; in general its sign change sits at 2 f gamma / (dG_v - strain) *)
Theorem C12_strain_double_count_refuted :
  exists kin mc vm gamma volDG strain r f rmin,
    0 < kin /\ 0 < mc /\ 0 < vm /\ 0 < gamma /\ 0 < f /\ 0 < strain /\ 0 < volDG /\ 0 <= rmin /\
    rcrit_used Rops f gamma volDG rmin < r /\
    single_growth_multi_old Rops kin mc vm gamma volDG r f strain < 0.
Proof. exact strain_double_count_refuted. Qed.
Print Assumptions C12_strain_double_count_refuted.

Theorem C12_old_growth_sign kin mc vm gamma volDG strain r f :
  0 < kin -> 0 < mc -> 0 < vm -> 0 < r -> 0 < volDG - strain ->
  (0 < single_growth_multi_old Rops kin mc vm gamma volDG r f strain
     <-> rcrit_proposal Rops f gamma (volDG - strain) < r).
Proof. exact (old_growth_sign kin mc vm gamma volDG strain r f). Qed.
Print Assumptions C12_old_growth_sign.

(* ---- binary: the rate has the sign of x - x_alpha(R) ------------------------------------------------ *)
Theorem C12_growth_sign_binary_x kin D (eps : R -> R) r x xa xb vma vmb :
  0 < kin -> 0 < D -> 0 < r -> 0 < vma * xb / vmb - xa ->
  0 < eps (supersat Rops x xa xb vma vmb) ->
  let g := growth_bin Rops kin D (supersat Rops x xa xb vma vmb) (eps (supersat Rops x xa xb vma vmb)) r in
  (0 < g <-> xa < x) /\ (g < 0 <-> x < xa) /\ (g = 0 <-> x = xa).
Proof. exact (growth_sign_binary_x kin D eps r x xa xb vma vmb). Qed.
Print Assumptions C12_growth_sign_binary_x.

(* ---- the backend as an oracle.  Premises: the driving force rises strictly with the matrix composition,
        and the interfacial composition returned for g is a composition at which the driving force is
        g + off.  Consequences: --------------------------------------------------------------------- *)
(* the interfacial matrix composition rises strictly with g *)
Theorem C12_xalpha_monotone (dom : R -> Prop) (DG xa : R -> R) (stable : R -> Prop) (off : R) : dg_increasing dom DG -> xa_in_domain dom xa stable -> dg_consistent DG xa stable off ->
  forall g1 g2, stable g1 -> stable g2 -> (g1 < g2 <-> xa g1 < xa g2).
Proof. exact (xalpha_monotone dom DG xa stable off). Qed.
Print Assumptions C12_xalpha_monotone.

(* it is the only composition at which the driving force equals g + off *)
Theorem C12_xalpha_is_root (dom : R -> Prop) (DG xa : R -> R) (stable : R -> Prop) (off : R) : dg_increasing dom DG -> xa_in_domain dom xa stable -> dg_consistent DG xa stable off ->
  forall x g, dom x -> stable g -> (DG x = g + off <-> x = xa g).
Proof. exact (xalpha_is_root dom DG xa stable off). Qed.
Print Assumptions C12_xalpha_is_root.

(* the driving force changes sign (to the offset) at the planar solvus *)
Theorem C12_dg_sign_at_solvus (dom : R -> Prop) (DG xa : R -> R) (stable : R -> Prop) (off : R) : dg_increasing dom DG -> xa_in_domain dom xa stable -> dg_consistent DG xa stable off ->
  forall x, dom x -> stable 0 ->
  (off < DG x <-> xa 0 < x) /\ (DG x < off <-> x < xa 0) /\ (DG x = off <-> x = xa 0).
Proof. exact (dg_sign_at_solvus dom DG xa stable off). Qed.
Print Assumptions C12_dg_sign_at_solvus.

(* a size class grows exactly when the driving force exceeds its Gibbs-Thomson energy (+ offset) *)
Theorem C12_growth_sign_binary_g (dom : R -> Prop) (DG xa : R -> R) (stable : R -> Prop) (off : R) : dg_increasing dom DG -> xa_in_domain dom xa stable -> dg_consistent DG xa stable off ->
  forall kin D (eps : R -> R) r x xb vma vmb vm strain f gamma,
  let g := gibbs_thomson Rops vm strain f gamma r in
  let S := supersat Rops x (xa g) xb vma vmb in
  let gr := growth_bin Rops kin D S (eps S) r in
  dom x -> stable g -> 0 < kin -> 0 < D -> 0 < r -> 0 < vma * xb / vmb - xa g -> 0 < eps S ->
  (0 < gr <-> g + off < DG x) /\ (gr < 0 <-> DG x < g + off) /\ (gr = 0 <-> DG x = g + off).
Proof. exact (growth_sign_binary_g dom DG xa stable off). Qed.
Print Assumptions C12_growth_sign_binary_g.

(* i.e. exactly when its radius exceeds 2 f gamma / (dG_v - off/Vm), dG_v the volumetric driving force *)
Theorem C12_growth_sign_binary (dom : R -> Prop) (DG xa : R -> R) (stable : R -> Prop) (off : R) : dg_increasing dom DG -> xa_in_domain dom xa stable -> dg_consistent DG xa stable off ->
  forall kin D (eps : R -> R) r x xb vma vmb vm strain f gamma,
  let g := gibbs_thomson Rops vm strain f gamma r in
  let S := supersat Rops x (xa g) xb vma vmb in
  let gr := growth_bin Rops kin D S (eps S) r in
  let rc := rcrit_proposal Rops f gamma (vol_dg Rops (DG x) vm strain - off / vm) in
  dom x -> stable g -> 0 < kin -> 0 < D -> 0 < r -> 0 < vm -> 0 < vma * xb / vmb - xa g -> 0 < eps S ->
  0 < vol_dg Rops (DG x) vm strain - off / vm ->
  (0 < gr <-> rc < r) /\ (gr < 0 <-> r < rc) /\ (gr = 0 <-> r = rc).
Proof. exact (growth_sign_binary dom DG xa stable off). Qed.
Print Assumptions C12_growth_sign_binary.

(* relative to the critical radius of nucleation Rc = 2 f gamma / dG_v: below Rc shrinks, above
   Rc (1 + 2 off / (Vm dG_v)) grows, and with no offset the sign changes exactly at Rc *)
Theorem C12_growth_sign_binary_band (dom : R -> Prop) (DG xa : R -> R) (stable : R -> Prop) (off : R) : dg_increasing dom DG -> xa_in_domain dom xa stable -> dg_consistent DG xa stable off ->
  forall kin D (eps : R -> R) r x xb vma vmb vm strain f gamma,
  let g := gibbs_thomson Rops vm strain f gamma r in
  let S := supersat Rops x (xa g) xb vma vmb in
  let gr := growth_bin Rops kin D S (eps S) r in
  let V := vol_dg Rops (DG x) vm strain in
  let rc := rcrit_proposal Rops f gamma V in
  dom x -> stable g -> 0 < kin -> 0 < D -> 0 < r -> 0 < vm -> 0 < f -> 0 < gamma ->
  0 < vma * xb / vmb - xa g -> 0 < eps S ->
  0 < V -> 0 <= off -> 2 * off < vm * V ->
  (r < rc -> gr < 0) /\ (rc * (1 + 2 * off / (vm * V)) < r -> 0 < gr) /\ (off = 0 -> (0 < gr <-> rc < r)).
Proof. exact (growth_sign_binary_band dom DG xa stable off). Qed.
Print Assumptions C12_growth_sign_binary_band.

(* ---- the sentinel ------------------------------------------------------------------------------------ *)
(* if the equilibrium is found as long as the matrix composition it needs stays below a limit, and that
   composition does not fall with g, then once -1 is returned it is returned for every larger g *)
Theorem C12_sentinel_monotone (xa_true : R -> R) (xlim : R) :
  (forall g1 g2, g1 <= g2 -> xa_true g1 <= xa_true g2) -> (forall g, 0 <= xa_true g) ->
  forall g1 g2, g1 <= g2 -> xa_code xa_true xlim g1 = -1 -> xa_code xa_true xlim g2 = -1.
Proof. exact (sentinel_monotone xa_true xlim). Qed.
Print Assumptions C12_sentinel_monotone.

(* so in the lookup table over increasing class boundaries the unstable classes form a prefix *)
Theorem C12_sentinel_prefix (xa_true : R -> R) (xlim : R) :
  (forall g1 g2, g1 <= g2 -> xa_true g1 <= xa_true g2) -> (forall g, 0 <= xa_true g) ->
  forall vm strain f gamma (bounds : list R) i j,
  0 < vm -> 0 < f -> 0 < gamma ->
  (forall a b, (a < b < length bounds)%nat -> 0 < nth a bounds 0 < nth b bounds 0) ->
  (i <= j < length bounds)%nat ->
  let table := map (fun r => xa_code xa_true xlim (gibbs_thomson Rops vm strain f gamma r)) bounds in
  nth j table 0 = -1 -> nth i table 0 = -1.
Proof. exact (sentinel_prefix xa_true xlim). Qed.
Print Assumptions C12_sentinel_prefix.

(* and the RdrivingForceIndex bookkeeping of _createLookupBinary then leaves no sentinel in the table:
   the index is the last unstable class (0 if none), classes up to it get the compositions of the class
   above it, the others are untouched *)
Theorem C12_lookup_fix (xa xb : list R) :
  (2 <= length xa)%nat -> length xb = length xa -> prefix_stable xa ->
  (exists k0, (k0 < length xa)%nat /\ is_stable Rops (nth k0 xa 0) = true) ->
  exists k xa' xb', lookup_fix Rops xa xb = (k, (xa', xb')) /\
    (S k < length xa)%nat /\ length xa' = length xa /\ length xb' = length xa /\
    (forall j, (j < k)%nat -> is_stable Rops (nth j xa 0) = false) /\
    (forall j, (k < j < length xa)%nat -> is_stable Rops (nth j xa 0) = true) /\
    (forall j, (j < length xa)%nat -> is_stable Rops (nth j xa' 0) = true) /\
    (forall j, (k < j < length xa)%nat -> nth j xa' 0 = nth j xa 0 /\ nth j xb' 0 = nth j xb 0) /\
    (forall j, (j <= k)%nat -> nth j xa' 0 = nth (S k) xa 0 /\ nth j xb' 0 = nth (S k) xb 0).
Proof. exact (lookup_fix_spec xa xb). Qed.
Print Assumptions C12_lookup_fix.

(* ---- the GE-index loop of _interfacialCompositionFromEq ------------------------------------------------ *)
(* any value type, any phase names, any enumeration whose GE index does not decrease (GE outer, X inner):
   slot k holds the first two-phase (matrix + precipitate) entry carrying GE index k, the sentinel if
   there is none; no assignment falls outside the arrays *)
Theorem C12_ge_index_loop (A : Type) (s : A) (mname pname : nat) (rev : bool) n (es : list (entry A)) :
  StronglySorted (ge_le A) es -> Forall (fun e : entry A => (fst e < n)%nat) es ->
  exists xm xp, ge_comp A s mname pname rev n es = Some (xm, xp) /\ length xm = n /\ length xp = n /\
    forall k, (k < n)%nat ->
      match first_tp A mname pname rev k es with
      | Some (a, b) => nth k xm s = a /\ nth k xp s = b
      | None => nth k xm s = s /\ nth k xp s = s
      end.
Proof. exact (ge_index_loop A s mname pname rev n es). Qed.
Print Assumptions C12_ge_index_loop.

(* ---- the other driving-force methods ------------------------------------------------------------------ *)
(* curvature method, binary: same sign as x - x_solvus for a convex matrix free energy *)
Theorem C12_curvature_sign_binary x xM xP dmudx : 0 < dmudx -> xM < xP ->
  let d := dg_curv_binary Rops x xM xP dmudx in
  (0 < d <-> xM < x) /\ (d < 0 <-> x < xM) /\ (d = 0 <-> x = xM).
Proof. exact (curvature_sign_binary x xM xP dmudx). Qed.
Print Assumptions C12_curvature_sign_binary.

(* approximate method, stoichiometric precipitate (fixed composition xP, energy Gbeta): equals the
   parallel-tangent value  xP.mu(x) - Gbeta  minus the energy offset of the equilibrium it starts from *)
Theorem C12_approx_is_tangent_minus_offset (xP mu mu_eq : list R) Gbeta offeq :
  dotT Rops xP mu_eq = Gbeta + offeq ->
  dg_approx Rops xP mu mu_eq = (dotT Rops xP mu - Gbeta) - offeq.
Proof. exact (approx_is_tangent_minus_offset xP mu mu_eq Gbeta offeq). Qed.
Print Assumptions C12_approx_is_tangent_minus_offset.

(* ---- ExtraGibbsModel: the Gibbs-Thomson energy counts per mole of atoms ------------------------------- *)
(* the energy per formula unit divided by the atoms per formula unit is the energy per mole of atoms: the
   equilibrium solver (G) and the sampler (GM) see the same precipitate, for every formula unit *)
Theorem C12_extra_g_per_atom ast ge n : n <> 0 ->
  extra_g Rops ast ge n / n = extra_gm Rops ast ge.
Proof. exact (extra_g_per_atom ast ge n). Qed.
Print Assumptions C12_extra_g_per_atom.

Theorem C12_extra_shift ast ge d n : n <> 0 ->
  extra_gm Rops ast (ge + d) - extra_gm Rops ast ge = d /\
  extra_g Rops ast (ge + d) n / n - extra_g Rops ast ge n / n = d.
Proof. exact (extra_shift ast ge d n). Qed.
Print Assumptions C12_extra_shift.

(* hence for a stoichiometric precipitate the GE found by the parallel-tangent construction is the plane
   distance the sampling method measures, whatever the number of atoms in the formula unit *)
Theorem C12_tangent_is_plane_distance ast h ge n : n <> 0 ->
  (extra_g Rops ast ge n = n * h <-> ge = h - extra_gm Rops ast 0).
Proof. exact (tangent_is_plane_distance ast h ge n). Qed.
Print Assumptions C12_tangent_is_plane_distance.

(* ---- the executable instance is the real instance on rational inputs --------------------------------- *)
(* (every float the implementation handles is a rational: what vm_compute returns in the correspondence
   check is the value of the model the theorems above are about) *)
Theorem C12_single_growth_multi_hom (kin mc vm g v ns r f s : Q) : ~ (r == 0)%Q ->
  Q2R (single_growth_multi Qops kin mc vm g v ns r f s) =
  single_growth_multi Rops (Q2R kin) (Q2R mc) (Q2R vm) (Q2R g) (Q2R v) (Q2R ns) (Q2R r) (Q2R f) (Q2R s).
Proof. exact (single_growth_multi_hom kin mc vm g v ns r f s). Qed.
Print Assumptions C12_single_growth_multi_hom.

Theorem C12_growth_bin_hom (x xa xb vma vmb kin D eps r : Q) : ~ (vmb == 0)%Q ->
  ~ (sub Qops (dvd Qops (mul Qops vma xb) vmb) xa == 0)%Q -> ~ (mul Qops eps r == 0)%Q ->
  Q2R (growth_bin Qops kin D (supersat Qops x xa xb vma vmb) eps r) =
  growth_bin Rops (Q2R kin) (Q2R D) (supersat Rops (Q2R x) (Q2R xa) (Q2R xb) (Q2R vma) (Q2R vmb)) (Q2R eps) (Q2R r).
Proof. exact (growth_bin_supersat_hom x xa xb vma vmb kin D eps r). Qed.
Print Assumptions C12_growth_bin_hom.

(* the sign theorem restated on the rationals the check computes with *)
Theorem C12_growth_sign_multi_Q (kin mc vm gamma volDG strain r f : Q) :
  (0 < kin)%Q -> (0 < mc)%Q -> (0 < vm)%Q -> (0 < r)%Q -> (0 < volDG)%Q ->
  ((0 < single_growth_multi Qops kin mc vm gamma volDG strain r f strain)%Q
     <-> (rcrit_proposal Qops f gamma volDG < r)%Q).
Proof. exact (growth_sign_multi_Q kin mc vm gamma volDG strain r f). Qed.
Print Assumptions C12_growth_sign_multi_Q.
