(* C12 - correspondence driver (harness side, no theorem depends on it): evaluates the model on the
   exact-rational instance and compares with what the implementation produced for the same inputs.
   Only verdicts are printed (see Common/Out.v). *)
From Coq Require Import QArith List ZArith Bool.
Require Import Kawin.Common.Ops Kawin.Common.Vec Kawin.Common.Out Kawin.C12.Model.
Import ListNotations.
Open Scope Q_scope.

Definition qmul (a b : Q) := Qred (a * b).
Definition qdiv (a b : Q) := Qred (a / b).
Definition qadd (a b : Q) := Qred (a + b).

(* ---- computeGibbsThomsonContribution over the size classes ----------------------------------------- *)
Definition gt_list (vm gamma : Q) (strain f r : list Q) : list Q :=
  zip4 (fun s fi ri _ => gibbs_thomson Qops vm s fi gamma ri) strain f r r.
Definition chk_gt (rt vm gamma : Q) (strain f r impl : list Q) : verdict :=
  let m := gt_list vm gamma strain f r in
  let sc := zip4 (fun s fi ri _ => qmul (qabs vm) (qadd (qabs s) (qabs (qdiv (qmul (qmul 2 fi) gamma) ri)))) strain f r r in
  cmpl rt impl m sc.

(* ---- volumetricDrivingForce and nucleationBarrier (bulk / dislocation branch) ------------------------ *)
(* returns (volDG verdict, Rcrit verdict computed from the implementation's own volDG) *)
Definition chk_rcrit (rt chemDG vm strain f gamma rmin implVolDG implRcrit : Q) : verdict * verdict :=
  (cmpl rt [implVolDG] [vol_dg Qops chemDG vm strain] [qadd (qabs (qdiv chemDG vm)) (qabs strain)],
   cmp1 rt implRcrit (rcrit_used Qops f gamma implVolDG rmin)).

(* ---- _growthRateOutputFromCurvature ------------------------------------------------------------------ *)
Definition curv_list (mc dG : Q) (r gE : list Q) : list Q := zipWith (fun ri gi => growth_curv Qops mc ri dG gi) r gE.
Definition curv_scale (mc dG : Q) (r gE : list Q) : list Q :=
  zipWith (fun ri gi => qmul (qabs (qdiv mc ri)) (qadd (qabs dG) (qabs gi))) r gE.
(* matrix interfacial composition, one row per size class, one column per solute; entries within
   tolerance of the clip limits 0 and 1 are compared after clipping, which is continuous *)
Definition calpha_rows (x dc : list Q) (dG : Q) (gE : list Q) : list (list Q) :=
  map (fun gi => zipWith (fun xe de => calpha Qops xe de dG gi) x dc) gE.
Definition calpha_scale (x dc : list Q) (dG : Q) (gE : list Q) : list (list Q) :=
  map (fun gi => zipWith (fun xe de => qadd (qabs xe) (qmul (qadd (qabs dG) (qabs gi)) (qabs de))) x dc) gE.
Fixpoint cmp_rows (rt : Q) (impl model scale : list (list Q)) : verdict :=
  match impl, model, scale with
  | a :: i', b :: m', s :: s' => match cmpl rt a b s with None => cmp_rows rt i' m' s' | v => v end
  | [], [], _ => None
  | _, _, _ => Some (0%nat, (0, 0, false)%Z)
  end.
Definition chk_curv (rt mc dG : Q) (r gE x dc implGrowth : list Q) (implCalpha : list (list Q)) : verdict * verdict :=
  (cmpl rt implGrowth (curv_list mc dG r gE) (curv_scale mc dG r gE),
   cmp_rows rt implCalpha (calpha_rows x dc dG gE) (calpha_scale x dc dG gE)).

(* ---- _singleGrowthMulti (repaired): what reaches the backend and what comes out ---------------------- *)
(* implDG = the driving force argument handed to getGrowthAndInterfacialComposition,
   implGE = the Gibbs-Thomson argument, implGrowth = model.growth[p] *)
Definition chk_multi (rt mc vm gamma volDG nucStrain implDG : Q) (kin r f strain implGE implGrowth : list Q)
  : verdict * verdict * verdict :=
  let dg := chem_dg Qops volDG nucStrain vm in
  let ge := gt_list vm gamma strain f r in
  (cmpl rt [implDG] [dg] [qmul (qadd (qabs volDG) (qabs nucStrain)) (qabs vm)],
   cmpl rt implGE ge (map qabs ge),
   cmpl rt implGrowth (growth_multi_list Qops mc vm gamma volDG nucStrain kin r f strain)
        (zip4 (fun k ri gi _ => qmul (qabs k) (qmul (qabs (qdiv mc ri)) (qadd (qabs dg) (qabs gi)))) kin r ge ge)).

(* exact signs of the model's growth rates relative to the critical radius (decided on rationals):
   for every class, sign(growth) must be sign(r - rc); returns the index of the first class where the
   MODEL itself would disagree (never, by C12_growth_sign_multi - kept as a run-time cross-check) *)
Definition qsign (q : Q) : Z := match Qcompare q 0 with Lt => (-1)%Z | Eq => 0%Z | Gt => 1%Z end.
Fixpoint first_bad (k : nat) (l : list bool) : option nat :=
  match l with [] => None | true :: r => first_bad (S k) r | false :: _ => Some k end.
Definition sign_check_multi (mc vm gamma volDG strain f : Q) (kin r : list Q) : option nat :=
  let rc := rcrit_proposal Qops f gamma volDG in
  first_bad 0 (zipWith (fun k ri => Z.eqb (qsign (single_growth_multi Qops k mc vm gamma volDG strain ri f strain))
                                          (qsign (Qred (ri - rc)))) kin r).

(* ---- _createLookupBinary bookkeeping ------------------------------------------------------------------ *)
Definition qlist_eqb (a b : list Q) : bool :=
  Nat.eqb (length a) (length b) && forallb (fun p => Qeq_bool (fst p) (snd p)) (combine a b).
Definition chk_lookup (rawA rawB implA implB : list Q) (implIdx : nat) : bool * bool * bool :=
  let '(k, (a, b)) := lookup_fix Qops rawA rawB in
  (Nat.eqb k implIdx, qlist_eqb a implA, qlist_eqb b implB).

(* ---- _singleGrowthBinary ------------------------------------------------------------------------------ *)
Definition bin_scale (x vma vmb D : Q) (kin eps r xa xb : list Q) : list Q :=
  zip4 (fun k e ri ab =>
          let a := fst ab in let b := snd ab in
          let den := Qred (vma * b / vmb - a) in
          let S := supersat Qops x a b vma vmb in
          qmul (qabs (qdiv (qmul k D) (qmul e ri)))
               (qadd (qdiv (qadd (qabs x) (qabs a)) (qabs den))
                     (qmul (qabs S) (qdiv (qadd (qabs (qdiv (qmul vma b) vmb)) (qabs a)) (qabs den)))))
       kin eps r (combine xa xb).
Definition chk_bin (rt : Q) (rdfi : nat) (x vma vmb D : Q) (kin eps r xa xb implGrowth : list Q) : verdict :=
  cmpl rt implGrowth (single_growth_binary Qops rdfi x vma vmb D kin eps r xa xb) (bin_scale x vma vmb D kin eps r xa xb).

(* ---- the GE-index loop: values are exact copies, compared with equality --------------------------------- *)
Definition chk_ge (mname pname : nat) (rev : bool) (n : nat) (es : list (entry Q))
                  (implErr : bool) (implM implP : list Q) : bool :=
  match ge_comp Q (-1) mname pname rev n es with
  | None => implErr
  | Some (xm, xp) => negb implErr && qlist_eqb xm implM && qlist_eqb xp implP
  end.

(* ---- ExtraGibbsModel: GM and G evaluated by the implementation (symbolic model of pycalphad, numeric point) --- *)
Definition chk_extra (rt ast ge n implGM implG : Q) : verdict * verdict :=
  (cmpl rt [implGM] [extra_gm Qops ast ge] [qadd (qabs ast) (qabs ge)],
   cmpl rt [implG] [extra_g Qops ast ge n] [qmul (qadd (qabs ast) (qabs ge)) (qabs n)]).
