(* C12 - the exact-rational instance of the growth-sign kernels is the real instance on rational inputs:
   Q2R commutes with every kernel (divisions need non-zero divisors).  Consequence: what vm_compute
   returns in the correspondence check on [Qops] IS the value of the real-number model the theorems of
   Properties.v are about, and the sign theorem can be restated on rationals. *)
From Coq Require Import Reals QArith Qreals List Bool ZArith Arith Lia Lra.
Require Import Kawin.Common.Ops Kawin.Common.Vec Kawin.C12.Model Kawin.C12.Proofs.
Import ListNotations.

Lemma hom_two : Q2R (two Qops) = two Rops.
Proof. unfold two. cbn. unfold Q2R. simpl. lra. Qed.

Lemma gibbs_thomson_hom vm s f g r : ~ (r == 0)%Q ->
  Q2R (gibbs_thomson Qops vm s f g r) = gibbs_thomson Rops (Q2R vm) (Q2R s) (Q2R f) (Q2R g) (Q2R r).
Proof.
  intros H. unfold gibbs_thomson. rewrite hom_mul, hom_add, hom_dvd by exact H.
  rewrite !hom_mul, hom_two. reflexivity.
Qed.

Lemma vol_dg_hom c vm s : ~ (vm == 0)%Q ->
  Q2R (vol_dg Qops c vm s) = vol_dg Rops (Q2R c) (Q2R vm) (Q2R s).
Proof. intros H. unfold vol_dg. rewrite hom_sub, hom_dvd by exact H. reflexivity. Qed.

Lemma rcrit_proposal_hom f g v : ~ (v == 0)%Q ->
  Q2R (rcrit_proposal Qops f g v) = rcrit_proposal Rops (Q2R f) (Q2R g) (Q2R v).
Proof. intros H. unfold rcrit_proposal. rewrite hom_dvd by exact H. rewrite !hom_mul, hom_two. reflexivity. Qed.

Lemma maxT_hom a b : Q2R (maxT Qops a b) = maxT Rops (Q2R a) (Q2R b).
Proof. unfold maxT. rewrite hom_ltb. destruct (ltb Rops (Q2R a) (Q2R b)); reflexivity. Qed.

Lemma rcrit_used_hom f g v rmin : ~ (v == 0)%Q ->
  Q2R (rcrit_used Qops f g v rmin) = rcrit_used Rops (Q2R f) (Q2R g) (Q2R v) (Q2R rmin).
Proof.
  intros H. unfold rcrit_used. rewrite hom_ltb, hom_zero.
  destruct (ltb Rops (zero Rops) (Q2R v)); [|apply hom_zero].
  rewrite maxT_hom, rcrit_proposal_hom by exact H. reflexivity.
Qed.

Lemma growth_curv_hom mc r dG gE : ~ (r == 0)%Q ->
  Q2R (growth_curv Qops mc r dG gE) = growth_curv Rops (Q2R mc) (Q2R r) (Q2R dG) (Q2R gE).
Proof. intros H. unfold growth_curv. rewrite hom_mul, hom_sub, hom_dvd by exact H. reflexivity. Qed.

Lemma chem_dg_hom v s vm : Q2R (chem_dg Qops v s vm) = chem_dg Rops (Q2R v) (Q2R s) (Q2R vm).
Proof. unfold chem_dg. rewrite hom_mul, hom_add. reflexivity. Qed.

Lemma single_growth_multi_hom kin mc vm g v ns r f s : ~ (r == 0)%Q ->
  Q2R (single_growth_multi Qops kin mc vm g v ns r f s) =
  single_growth_multi Rops (Q2R kin) (Q2R mc) (Q2R vm) (Q2R g) (Q2R v) (Q2R ns) (Q2R r) (Q2R f) (Q2R s).
Proof.
  intros H. unfold single_growth_multi.
  rewrite hom_mul, growth_curv_hom, chem_dg_hom, gibbs_thomson_hom by exact H. reflexivity.
Qed.

Lemma supersat_hom x xa xb vma vmb : ~ (vmb == 0)%Q ->
  ~ (sub Qops (dvd Qops (mul Qops vma xb) vmb) xa == 0)%Q ->
  Q2R (supersat Qops x xa xb vma vmb) = supersat Rops (Q2R x) (Q2R xa) (Q2R xb) (Q2R vma) (Q2R vmb).
Proof.
  intros H1 H2. unfold supersat. rewrite hom_dvd by exact H2.
  rewrite !hom_sub, hom_dvd by exact H1. rewrite hom_mul. reflexivity.
Qed.

Lemma growth_bin_hom kin D S eps r : ~ (mul Qops eps r == 0)%Q ->
  Q2R (growth_bin Qops kin D S eps r) = growth_bin Rops (Q2R kin) (Q2R D) (Q2R S) (Q2R eps) (Q2R r).
Proof. intros H. unfold growth_bin. rewrite hom_dvd by exact H. rewrite !hom_mul. reflexivity. Qed.

Lemma growth_bin_supersat_hom x xa xb vma vmb kin D eps r : ~ (vmb == 0)%Q ->
  ~ (sub Qops (dvd Qops (mul Qops vma xb) vmb) xa == 0)%Q -> ~ (mul Qops eps r == 0)%Q ->
  Q2R (growth_bin Qops kin D (supersat Qops x xa xb vma vmb) eps r) =
  growth_bin Rops (Q2R kin) (Q2R D) (supersat Rops (Q2R x) (Q2R xa) (Q2R xb) (Q2R vma) (Q2R vmb)) (Q2R eps) (Q2R r).
Proof. intros H1 H2 H3. rewrite growth_bin_hom by exact H3. rewrite supersat_hom by assumption. reflexivity. Qed.

(* ---- the sign theorem on the executable instance ------------------------------------------------------ *)
Lemma Q2R_pos q : (0 < q)%Q -> (0 < Q2R q)%R.
Proof. intros H. apply Qlt_Rlt in H. replace (Q2R 0) with 0%R in H by (unfold Q2R; simpl; lra). exact H. Qed.

Lemma Qpos_nonzero q : (0 < q)%Q -> ~ (q == 0)%Q.
Proof. intros H E. rewrite E in H. apply (Qlt_irrefl 0). exact H. Qed.

Theorem growth_sign_multi_Q kin mc vm gamma volDG strain r f :
  (0 < kin)%Q -> (0 < mc)%Q -> (0 < vm)%Q -> (0 < r)%Q -> (0 < volDG)%Q ->
  ((0 < single_growth_multi Qops kin mc vm gamma volDG strain r f strain)%Q
     <-> (rcrit_proposal Qops f gamma volDG < r)%Q).
Proof.
  intros Hk Hm Hv Hr HV.
  pose proof (growth_sign_multi (Q2R kin) (Q2R mc) (Q2R vm) (Q2R gamma) (Q2R volDG) (Q2R strain) (Q2R r) (Q2R f)
               (Q2R_pos _ Hk) (Q2R_pos _ Hm) (Q2R_pos _ Hv) (Q2R_pos _ Hr) (Q2R_pos _ HV)) as (A & _).
  cbv zeta in A.
  rewrite <- single_growth_multi_hom in A by (apply Qpos_nonzero; exact Hr).
  rewrite <- rcrit_proposal_hom in A by (apply Qpos_nonzero; exact HV).
  assert (Z : Q2R 0 = 0%R) by (unfold Q2R; simpl; lra).
  split; intros H.
  - apply Rlt_Qlt. apply A. rewrite <- Z. apply Qlt_Rlt. exact H.
  - apply Rlt_Qlt. rewrite Z. apply A. apply Qlt_Rlt. exact H.
Qed.
