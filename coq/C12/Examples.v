(* C12 - non-vacuity examples (the hypotheses of the theorems are met by concrete, non-trivial states)
   and refutation witnesses. *)
From Coq Require Import Reals QArith List ZArith Lra Lia Sorted.
Require Import Kawin.Common.Ops Kawin.Common.Vec Kawin.Common.VecLemmas Kawin.C12.Model Kawin.C12.Proofs.
Import ListNotations.

(* ---- executable instance: growth rates around the critical radius --------------------------------- *)
Open Scope Q_scope.
(* Vm = 1, gamma = 1, f = 1, volumetric driving force 2 with a strain energy of 1 already taken off:
   Rcrit = 2*1*1/2 = 1 *)
Example rcrit_example : rcrit_used Qops 1 1 2 (1#4) = 1 /\ rcrit_used Qops 1 1 2 3 = 3 /\ rcrit_used Qops 1 1 (-2) 3 = 0.
Proof. vm_compute. repeat split; reflexivity. Qed.

(* repaired code: a class at R = 3/2 grows, at R = 1/2 shrinks, at R = 1 stands still *)
Example growth_multi_example :
  single_growth_multi Qops 1 1 1 1 2 1 (3#2) 1 1 = 4#9 /\
  single_growth_multi Qops 1 1 1 1 2 1 (1#2) 1 1 = -4 /\
  single_growth_multi Qops 1 1 1 1 2 1 1 1 1 = 0.
Proof. vm_compute. repeat split; reflexivity. Qed.

(* the code before the repair: the same class at R = 3/2 > Rcrit = 1 shrinks; the sign changes at R = 2 *)
Example growth_multi_old_example :
  single_growth_multi_old Qops 1 1 1 1 2 (3#2) 1 1 = -2#9 /\
  single_growth_multi_old Qops 1 1 1 1 2 2 1 1 = 0.
Proof. vm_compute. repeat split; reflexivity. Qed.

(* binary: x = 0.02 against interfacial compositions 0.01 (grows) and 0.03 (shrinks), x_beta = 1/4 *)
Example growth_bin_example :
  Qlt_le_dec 0 (growth_bin Qops 1 1 (supersat Qops (2#100) (1#100) (1#4) 1 1) 1 1) = left eq_refl /\
  Qlt_le_dec (growth_bin Qops 1 1 (supersat Qops (2#100) (3#100) (1#4) 1 1) 1 1) 0 = left eq_refl.
Proof. vm_compute. split; reflexivity. Qed.

(* ExtraGibbsModel: database energy -40 per mole of atoms, GE = 6, formula unit of 11 atoms *)
Example extra_energy_example : extra_gm Qops (-40) 6 = -34 /\ extra_g Qops (-40) 6 11 = -374 /\ (-374) / 11 == -34.
Proof. vm_compute. repeat split; reflexivity. Qed.
(* adding GE to the formula energy instead ("ast * n + GE") would make the per-atom energy seen by the solver
   -40 + 6/11, not -34: the two energy properties then describe different precipitates unless n = 1 *)
Example extra_energy_per_formula_unit_differs : ~ ((-40) * 11 + 6) / 11 == extra_gm Qops (-40) 6.
Proof. vm_compute. discriminate. Qed.

(* lookup-table bookkeeping: two unstable classes, then stable ones *)
Example lookup_fix_example :
  lookup_fix Qops [-1; -1; 3; 4] [-1; -1; 7; 8] = (1%nat, ([3; 3; 3; 4], [7; 7; 7; 8])).
Proof. vm_compute. reflexivity. Qed.
(* no unstable class: the index is 0 and class 0 takes the composition of class 1 (what the code does) *)
Example lookup_fix_all_stable : lookup_fix Qops [2; 3; 4] [7; 8; 9] = (0%nat, ([3; 3; 4], [8; 8; 9])).
Proof. vm_compute. reflexivity. Qed.
(* no stable class: np.argmax of an all-False mask is 0, the sentinels stay in the table.  This corner is
   excluded by the premise "some class is stable" of C12_lookup_fix (it is repaired by a pending commit of
   property C03, which puts the index at the end and zeroes the table). *)
Example lookup_fix_none_stable : lookup_fix Qops [-1; -1; -1] [-1; -1; -1] = (0%nat, ([-1; -1; -1], [-1; -1; -1])).
Proof. vm_compute. reflexivity. Qed.
(* and the growth routine guards on the index *)
Example single_growth_binary_guard :
  single_growth_binary Qops 2 (2#100) 1 1 1 [1;1;1] [1;1;1] [1;2;3] [0;0;0] [0;0;0] = [0; 0; 0].
Proof. vm_compute. reflexivity. Qed.
Close Scope Q_scope.

(* ---- the GE-index loop ----------------------------------------------------------------------------- *)
(* phases: 0 = matrix, 1 = precipitate, 2 = another phase; values are numbers standing for compositions *)
Definition e2 (ge : nat) (a b : Z) : entry Z := (ge, [(0%nat, (0%Z, a)); (1%nat, (0%Z, b))]).
Definition e1 (ge : nat) (a : Z) : entry Z := (ge, [(0%nat, (0%Z, a))]).
Definition e3 (ge : nat) : entry Z := (ge, [(0%nat, (0, 1)%Z); (1%nat, (0, 2)%Z); (2%nat, (0, 3)%Z)]).
Definition eOther (ge : nat) : entry Z := (ge, [(0%nat, (0, 1)%Z); (2%nat, (0, 3)%Z)]).

(* GE outer, X inner: GE 0 has single-phase, then two two-phase points (the first one counts); GE 1 has
   none (three phases, wrong pair); GE 2 one; GE 3 nothing at all *)
Example ge_loop_example :
  ge_comp Z (-1)%Z 0 1 false 4 [e1 0 5; e2 0 10 20; e2 0 11 21; e3 1; eOther 1; e1 2 6; e2 2 12 22]
  = Some ([10; -1; 12; -1]%Z, [20; -1; 22; -1]%Z).
Proof. vm_compute. reflexivity. Qed.

Example ge_loop_example_sorted :
  StronglySorted (ge_le Z) [e1 0 5; e2 0 10 20; e2 0 11 21; e3 1; eOther 1; e1 2 6; e2 2 12 22]
  /\ Forall (fun e : entry Z => (fst e < 4)%nat) [e1 0 5; e2 0 10 20; e2 0 11 21; e3 1; eOther 1; e1 2 6; e2 2 12 22].
Proof.
  split.
  - repeat (constructor; [|repeat constructor; unfold ge_le; simpl; lia]). constructor.
  - repeat constructor; simpl; lia.
Qed.

(* self.reverse picks X[0] instead of X[1] *)
Example ge_loop_reverse :
  ge_comp Z (-1)%Z 0 1 true 1 [(0%nat, [(1%nat, (7, 70)%Z); (0%nat, (3, 30)%Z)])] = Some ([3%Z], [7%Z]).
Proof. vm_compute. reflexivity. Qed.

(* the premise on the enumeration order is needed: with X outer and GE inner (GE index going down again)
   a two-phase entry of GE index 0 that comes after an entry of GE index 1 is never looked at *)
Example ge_loop_unsorted_refuted :
  exists es, ~ StronglySorted (ge_le Z) es /\
    first_tp Z 0 1 false 0 es = Some (10, 20)%Z /\
    ge_comp Z (-1)%Z 0 1 false 2 es = Some ([-1; 11]%Z, [-1; 21]%Z).
Proof.
  exists [e2 1 11 21; e2 0 10 20]. split; [|split; vm_compute; reflexivity].
  intros H. inversion H as [|? ? _ F]; subst. inversion F as [|? ? G _]; subst.
  unfold ge_le in G. simpl in G. lia.
Qed.

(* an index past the arrays is an IndexError in numpy: None in the model (excluded by the premise) *)
Example ge_loop_out_of_range : ge_comp Z (-1)%Z 0 1 false 1 [e2 1 11 21] = None.
Proof. vm_compute. reflexivity. Qed.

(* ---- the oracle hypotheses are satisfiable: ideal dilute solution --------------------------------- *)
Open Scope R_scope.
(* DG(x) = a ln x - b  (a = RT x_beta > 0), x_alpha(g) = exp((g + off + b)/a) : the closed-form backend
   the harness also runs the real KWN model on *)
Example dilute_oracle a b off : 0 < a ->
  dg_increasing (fun x => 0 < x) (fun x => a * ln x - b)
  /\ xa_in_domain (fun x => 0 < x) (fun g => exp ((g + off + b) / a)) (fun _ => True)
  /\ dg_consistent (fun x => a * ln x - b) (fun g => exp ((g + off + b) / a)) (fun _ => True) off.
Proof.
  intros Ha. split; [|split].
  - intros x y Hx Hy Hxy. pose proof (ln_increasing x y Hx Hxy). nra.
  - intros g _. apply exp_pos.
  - intros g _. rewrite ln_exp. field. lra.
Qed.

(* hence, e.g., its interfacial composition rises with g and its driving force vanishes at the solvus *)
Example dilute_xalpha_monotone a b g1 g2 : 0 < a -> g1 < g2 ->
  exp ((g1 + 0 + b) / a) < exp ((g2 + 0 + b) / a).
Proof.
  intros Ha Hg. destruct (dilute_oracle a b 0 Ha) as (H1 & H2 & H3).
  apply (xalpha_monotone (fun x => 0 < x) (fun x => a * ln x - b) (fun g => exp ((g + 0 + b) / a)) (fun _ => True) 0
           H1 H2 H3 g1 g2 I I). exact Hg.
Qed.

(* a concrete state meeting every premise of C12_growth_sign_binary_band: a = 1000, b = 0, off = 1,
   x = exp 1 (DG = 1000), Vm = 1, no strain, f = gamma = 1: Rcrit = 2/1000, band 2*1/1000 *)
Example band_premises :
  let DG := fun x => 1000 * ln x - 0 in
  let V := vol_dg Rops (DG (exp 1)) 1 0 in
  0 < V /\ 2 * 1 < 1 * V /\ rcrit_proposal Rops 1 1 V = 2 / 1000.
Proof.
  cbv zeta. unfold vol_dg, rcrit_proposal, two. Rnorm. rewrite ln_exp.
  repeat split; lra.
Qed.

(* the sentinel hypotheses: xa_true = exp (non-decreasing, non-negative), limit 2: stable at g = 0,
   unstable at g = 1 and - by the theorem - at every g >= 1 *)
Example sentinel_example :
  (forall g1 g2, g1 <= g2 -> exp g1 <= exp g2) /\ (forall g, 0 <= exp g)
  /\ xa_code exp 2 0 = 1 /\ xa_code exp 2 1 = -1 /\ forall g, 1 <= g -> xa_code exp 2 g = -1.
Proof.
  assert (M : forall g1 g2, g1 <= g2 -> exp g1 <= exp g2).
  { intros g1 g2 [H|H]; [left; apply exp_increasing; exact H|subst; right; reflexivity]. }
  assert (P : forall g, 0 <= exp g) by (intros g; left; apply exp_pos).
  assert (E1 : xa_code exp 2 1 = -1).
  { unfold xa_code. destruct (Rlt_dec (exp 1) 2) as [L|L]; auto.
    pose proof (exp_ineq1 1 ltac:(lra)). lra. }
  repeat split; auto.
  - unfold xa_code. rewrite exp_0. destruct (Rlt_dec 1 2); lra.
  - intros g Hg. apply (sentinel_monotone exp 2 M P 1 g Hg E1).
Qed.

(* a table whose unstable classes form a prefix, with a stable class *)
Example prefix_stable_example :
  prefix_stable [-1; -1; 3; 4] /\ (exists k0, (k0 < 4)%nat /\ is_stable Rops (nth k0 [-1; -1; 3; 4] 0) = true).
Proof.
  assert (S2 : is_stable Rops 3 = true).
  { unfold is_stable, sentinel. Rnorm. apply negb_true_iff, Reqb_false. lra. }
  assert (S3 : is_stable Rops 4 = true).
  { unfold is_stable, sentinel. Rnorm. apply negb_true_iff, Reqb_false. lra. }
  assert (U : is_stable Rops (-1) = false).
  { unfold is_stable, sentinel. Rnorm. apply negb_false_iff, Reqb_true. lra. }
  split.
  - intros i j [Hij Hj]. simpl in Hj.
    destruct i as [|[|[|[|i]]]]; destruct j as [|[|[|[|j]]]]; simpl; try lia; auto; rewrite ?U; try discriminate.
  - exists 2%nat. split; [lia|exact S2].
Qed.
