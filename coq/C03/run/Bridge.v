(* C03 - theorems about the text GENERATED from kawin/precipitation/PrecipitationParameters.py on every run
   (build/C03/Gen.v: ATTRIBUTES, the fields of reset(), appendToArrays / copySlice / setSlice).
   Compiled by the check only. *)
From Coq Require Import String.
From Coq Require Import List Arith Lia.
Require Import Kawin.C03.Model Kawin.C03.ProofsStore KawinRun.Gen.
Import ListNotations.

(* the generated methods are the model's *)
Theorem C03_gen_append_is_model (A : Type) (self new : store A) :
  appendToArrays_gen A self new = appendToArrays A ATTRIBUTES self new.
Proof. unfold appendToArrays_gen, appendToArrays. Timeout 20 reflexivity. Qed.
Print Assumptions C03_gen_append_is_model.

Theorem C03_gen_copySlice_is_model (A : Type) (z : A) (self : store A) N :
  copySlice_gen A z self N = copySlice A ATTRIBUTES RESET_FIELDS z self N.
Proof. unfold copySlice_gen, copySlice. Timeout 20 reflexivity. Qed.
Print Assumptions C03_gen_copySlice_is_model.

Theorem C03_gen_setSlice_is_model (A : Type) (z : A) (self slice : store A) N :
  setSlice_gen A z self slice N = setSlice A ATTRIBUTES z self slice N.
Proof. unfold setSlice_gen, setSlice. Timeout 20 reflexivity. Qed.
Print Assumptions C03_gen_setSlice_is_model.

Theorem C03_gen_counter_is_model (A : Type) (s : store A) : counter_gen A s = counter A s.
Proof. unfold counter_gen, counter. Timeout 20 reflexivity. Qed.
Print Assumptions C03_gen_counter_is_model.

(* sixteen distinct recorded arrays, all of them created by reset() *)
Theorem C03_attributes_distinct : NoDup ATTRIBUTES.
Proof. apply nodupb_NoDup. vm_compute. reflexivity. Qed.
Print Assumptions C03_attributes_distinct.

Theorem C03_attributes_initialised : incl ATTRIBUTES RESET_FIELDS.
Proof. apply inclb_incl. vm_compute. reflexivity. Qed.
Print Assumptions C03_attributes_initialised.

Theorem C03_sixteen_histories : length ATTRIBUTES = 16 /\ In "time"%string ATTRIBUTES.
Proof. split; [vm_compute; reflexivity|]. apply memb_In. vm_compute. reflexivity. Qed.
Print Assumptions C03_sixteen_histories.

(* a copied slice holds exactly one row per recorded array: row N of the history *)
Theorem C03_copySlice_one_row (A : Type) (z : A) (self : store A) N k : In k ATTRIBUTES ->
  get (copySlice_gen A z self N) k = [nth N (get self k) z].
Proof.
  intros Hk. rewrite C03_gen_copySlice_is_model.
  apply copySlice_in; [exact C03_attributes_distinct|exact C03_attributes_initialised|exact Hk].
Qed.
Print Assumptions C03_copySlice_one_row.

(* one accepted step: every history grows by exactly the rows of the appended slice, nothing else changes *)
Theorem C03_append_each_once (A : Type) (self new : store A) k :
  (In k ATTRIBUTES -> get (appendToArrays_gen A self new) k = get self k ++ get new k) /\
  (~ In k ATTRIBUTES -> get (appendToArrays_gen A self new) k = get self k).
Proof.
  rewrite C03_gen_append_is_model. split; intros Hk.
  - apply append_in; [exact C03_attributes_distinct|exact Hk].
  - apply append_notin; exact Hk.
Qed.
Print Assumptions C03_append_each_once.

(* the whole run: reset(1), setup writes slice 0, then one appendToArrays per accepted step with a one-row slice:
   after n steps all sixteen histories have n+1 rows and the step counter pData.n is n *)
Theorem C03_histories_aligned (A : Type) (z : A) (setupSlice : store A) (news : list (store A)) :
  Forall (aligned A ATTRIBUTES 1) news ->
  let s0 := setSlice_gen A z (fresh A RESET_FIELDS z) setupSlice 0 in
  let s := fold_left (appendToArrays_gen A) news s0 in
  (forall k, In k ATTRIBUTES -> length (get s k) = S (length news)) /\ counter_gen A s = length news.
Proof.
  intros Hn s0 s.
  pose proof (histories_aligned A ATTRIBUTES RESET_FIELDS z setupSlice news
                C03_attributes_distinct C03_attributes_initialised Hn) as H. cbv zeta in H.
  assert (E : s = appendAll A ATTRIBUTES (setSlice A ATTRIBUTES z (fresh A RESET_FIELDS z) setupSlice 0) news).
  { subst s s0. unfold appendAll. rewrite C03_gen_setSlice_is_model.
    apply fold_left_ext. intros a b. apply C03_gen_append_is_model. }
  rewrite E. destruct H as [H1 H2]. split; [exact H1|].
  rewrite C03_gen_counter_is_model.
  destruct (in_dec string_dec "time"%string ATTRIBUTES) as [|Hno]; [exact H2|].
  exfalso. apply Hno. apply C03_sixteen_histories.
Qed.
Print Assumptions C03_histories_aligned.

(* the rows recorded for an attribute are, in order, the rows of the slices that were appended *)
Theorem C03_histories_content (A : Type) (self : store A) (news : list (store A)) k : In k ATTRIBUTES ->
  get (fold_left (appendToArrays_gen A) news self) k = get self k ++ concat (map (fun y => get y k) news).
Proof.
  intros Hk.
  assert (E : fold_left (appendToArrays_gen A) news self = appendAll A ATTRIBUTES self news).
  { unfold appendAll. apply fold_left_ext. intros a b. apply C03_gen_append_is_model. }
  rewrite E. apply appendAll_content; [exact C03_attributes_distinct|exact Hk].
Qed.
Print Assumptions C03_histories_content.
