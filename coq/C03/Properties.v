(* C03 - Precipitation runs are well formed for every configuration and survive faults.
   ONLY the property theorems; each is closed by [exact] of a lemma of Proofs.v / ProofsStore.v and followed by
   Print Assumptions.  The model is coq/C03/Model.v on top of C07 (transport), C01 (mass balance), C02 (zeroing /
   truncation) and C05 (solver clock).  Everything the thermodynamic backend, the nucleation formulas and the grid
   operations deliver is universally quantified data ([option] results: [None] = "no result").
   The theorems about the sixteen recorded arrays themselves (attribute list regenerated from the source on
   every run) are in coq/C03/run/Bridge.v. *)
From Coq Require Import String.
From Coq Require Import Reals List Bool ZArith Arith Sorted.
Require Import Kawin.Common.Ops Kawin.Common.Vec Kawin.Common.VecLemmas
               Kawin.C07.Model Kawin.C07.Proofs Kawin.C01.Model Kawin.C01.Proofs
               Kawin.C02.Model Kawin.C02.Proofs Kawin.C03.Model Kawin.C03.ProofsStore Kawin.C03.Proofs.
Require Kawin.C05.Model.
Import ListNotations.
Open Scope R_scope.

(* ---- histories: any attribute list without repetition ------------------------------------------------ *)
(* after reset(1), setup's setSlice and n appendToArrays calls with one-row slices every history of the list has
   n+1 rows (instantiated with the generated sixteen-element list in run/Bridge.v) *)
Theorem C03_histories_aligned_any_list (A : Type) attrs fields (z : A) setupSlice (news : list (store A)) :
  NoDup attrs -> incl attrs fields -> Forall (aligned A attrs 1) news ->
  aligned A attrs (S (length news))
    (appendAll A attrs (setSlice A attrs z (fresh A fields z) setupSlice 0) news).
Proof. exact (fun Hn Hi Hs => proj1 (histories_aligned A attrs fields z setupSlice news Hn Hi Hs)). Qed.
Print Assumptions C03_histories_aligned_any_list.

(* ---- time stamps ------------------------------------------------------------------------------------------ *)
(* a run split over any number of solve calls, each with its own duration, step-size bounds (0 < minDtFrac <=
   maxDtFrac), step-size proposals (whatever getDt returns, incl. NaN/inf by C05_nan_inf_proposals) and stop flags:
   the recorded time stamps stay strictly increasing, and without a stop request the last one is exactly the
   start time plus the requested durations ([snap]: tree before / after the repair of the solver's last step) *)
Theorem C03_times_increasing_end_exact snap hist (segs : list segment) :
  hist <> [] -> StronglySorted Rlt hist -> Forall goodSeg segs ->
  let h' := runSegments snap hist segs in
  h' <> [] /\ StronglySorted Rlt h' /\ (length hist <= length h')%nat /\
  (Forall neverStops segs -> last h' 0 = last hist 0 + sumR (map g_sim segs)).
Proof. exact (runSegments_contract snap hist segs). Qed.
Print Assumptions C03_times_increasing_end_exact.

(* ---- size distributions ------------------------------------------------------------------------------------- *)
(* for the explicit Euler iterator the update is the step of C02/C07 *)
Theorem C03_update_is_euler_step dt bounds psd g nucRate Rnuc :
  updateX Rops dt bounds psd (netFlux Rops bounds psd g) nucRate Rnuc = eulerStep Rops dt bounds psd g nucRate Rnuc.
Proof. exact (updateX_is_eulerStep dt bounds psd g nucRate Rnuc). Qed.
Print Assumptions C03_update_is_euler_step.

(* whatever face fluxes the last derivative evaluation left (any iterator, any stage state, any growth field):
   no size class is negative after the update *)
Theorem C03_update_nonneg dt bounds psd nf nucRate Rnuc :
  (1 <= length psd)%nat -> length nf = S (length psd) -> length bounds = S (length psd) ->
  nonneg psd -> 0 < dt -> 0 <= nucRate ->
  nonneg (updateX Rops dt bounds psd nf nucRate Rnuc).
Proof. exact (updateX_nonneg dt bounds psd nf nucRate Rnuc). Qed.
Print Assumptions C03_update_nonneg.

(* the stored distribution: every class is empty or holds at least one particle; after a re-mesh it is
   non-negative whenever the re-meshed distribution is (C08) *)
Theorem C03_psd_nonneg dt minR (p : pin Rops) :
  match p_adjust Rops p with
  | Remesh _ psd' => nonneg psd' -> nonneg (snd (kwnStore Rops dt minR p))
  | _ => unitOrEmpty (snd (kwnStore Rops dt minR p))
  end.
Proof. exact (stored_classes dt minR p). Qed.
Print Assumptions C03_psd_nonneg.

(* one step of one phase as the code performs it: _processX empties the classes below the thresholds of the state it is HANDED
   (after a re-mesh the stored distribution can hold particles there), the flux step starts from that state, _processX again.
   Both distributions are non-negative, keep the number of classes, and the zeroing never adds particles *)
Theorem C03_step_distribution_nonneg dt minR (p : pin Rops) : pin_wf p -> 0 < dt ->
  nonneg (startX Rops minR p) /\ nonneg (newX Rops dt minR p) /\
  length (newX Rops dt minR p) = length (p_psd Rops p) /\
  sumR (startX Rops minR p) <= sumR (p_psd Rops p).
Proof.
  exact (fun Hwf Hdt => conj (startX_nonneg minR p Hwf) (conj (newX_nonneg dt minR p Hwf Hdt)
          (conj (newX_length dt minR p Hwf) (startX_le minR p Hwf)))).
Qed.
Print Assumptions C03_step_distribution_nonneg.

(* ... and (explicit Euler) the recorded number density exceeds that of the STORED distribution by at most rate * step *)
Theorem C03_full_step_density_bound dt minR (p : pin Rops) g : pin_wf p -> incr (p_bounds Rops p) -> 0 < dt ->
  length g = S (length (p_psd Rops p)) ->
  p_nf Rops p = netFlux Rops (p_bounds Rops p) (startX Rops minR p) g ->
  sumR (newX Rops dt minR p) <= sumR (p_psd Rops p) + dt * p_nucRate Rops p.
Proof. exact (full_step_density_bound dt minR p g). Qed.
Print Assumptions C03_full_step_density_bound.

(* ---- recorded statistics ------------------------------------------------------------------------------------ *)
Theorem C03_fractions_bounded dt minR minDens (p : pin Rops) : pin_wf p -> 0 < dt -> 0 < minDens ->
  let o := phaseBalance Rops minDens (phaseIn Rops dt minR p) in
  0 <= dens Rops o /\ 0 <= ravg Rops o /\ 0 <= fv Rops o <= 1.
Proof. exact (record_phase_bounds dt minR minDens p). Qed.
Print Assumptions C03_fractions_bounded.

Theorem C03_composition_nonneg minComp x0 prev outs e : 0 <= minComp -> Forall (fun c => 0 <= c) prev ->
  0 <= nthR (matrixComp Rops minComp x0 prev outs) e.
Proof. exact (matrixComp_nonneg minComp x0 prev outs e). Qed.
Print Assumptions C03_composition_nonneg.

(* the matrix composition of a solute never exceeds the alloy composition (hence 1) when every precipitate phase is
   at least as rich in that solute as the alloy *)
Theorem C03_composition_le_initial dt minR minDens minComp x0 prev (ps : list (pin Rops)) e :
  0 < dt -> (e < length x0)%nat -> 0 <= nthR x0 e ->
  Forall pin_wf ps -> Forall (richer (nthR x0 e) e) ps ->
  minComp <= nthR x0 e -> nthR prev e <= nthR x0 e ->
  nthR (snd (kwnRecord Rops dt minR minDens minComp x0 prev ps)) e <= nthR x0 e.
Proof. exact (composition_le_initial dt minR minDens minComp x0 prev ps e). Qed.
Print Assumptions C03_composition_le_initial.

(* ... and does exceed 1 otherwise: a witness with a precipitate poorer in solute than the alloy *)
Theorem C03_composition_upper_refuted : exists dt minR minDens minComp x0 prev (ps : list (pin Rops)),
  0 < dt /\ 0 < minDens /\ 0 <= minComp /\ Forall pin_wf ps /\
  Forall (fun c => 0 <= c <= 1) x0 /\ prev = x0 /\
  1 < nthR (snd (kwnRecord Rops dt minR minDens minComp x0 prev ps)) 0.
Proof. exact composition_upper_refuted. Qed.
Print Assumptions C03_composition_upper_refuted.

(* the total precipitate fraction is NOT bounded by 1: every phase is clamped separately *)
Theorem C03_total_fraction_refuted : exists dt minR minDens minComp x0 prev (ps : list (pin Rops)),
  0 < dt /\ 0 < minDens /\ Forall pin_wf ps /\
  Forall (fun o => 0 <= fv Rops o <= 1) (fst (kwnRecord Rops dt minR minDens minComp x0 prev ps)) /\
  1 < sumFv Rops (fst (kwnRecord Rops dt minR minDens minComp x0 prev ps)).
Proof. exact total_fraction_refuted. Qed.
Print Assumptions C03_total_fraction_refuted.

(* every step of every run, for every oracle: density, mean radius >= 0, fraction in [0,1], composition >= 0,
   the distribution handed to the mass balance and the stored one non-negative *)
Theorem C03_trajectory_well_formed minR minDens minComp x0 (steps : list kstep) : 0 < minDens -> 0 <= minComp ->
  Forall step_ok steps -> chain minR minDens minComp x0 steps ->
  match steps with
  | [] => True
  | s0 :: _ => Forall (fun p => state_ok (p_bounds Rops p) (p_psd Rops p)) (k_pins s0) /\ Forall (fun c => 0 <= c) (k_prev s0)
  end ->
  Forall (slice_ok minR minDens minComp x0) steps.
Proof. exact (trajectory_wf minR minDens minComp x0 steps). Qed.
Print Assumptions C03_trajectory_well_formed.

(* ---- faults: the driving force calculation returns no result -------------------------------------------------- *)
(* the step is completed, all nucleation terms of the phase keep their last valid values, the critical radius and the
   nucleation rate stay non-negative *)
Theorem C03_driving_force_fault_fallback zeroed Rmin minDens dtprev prev o :
  exists s', nucStep Rops true zeroed Rmin minDens dtprev prev o = Ok s' /\
    (o_df Rops o = None -> s' = prev) /\
    (0 <= Rmin -> 0 <= n_Rcrit Rops prev -> 0 <= n_Rcrit Rops s') /\
    (0 <= n_rate Rops prev -> 0 <= o_rate Rops o -> 0 <= n_rate Rops s').
Proof. exact (nucStep_repaired zeroed Rmin minDens dtprev prev o). Qed.
Print Assumptions C03_driving_force_fault_fallback.

Theorem C03_driving_force_fault_unrepaired_refuted : exists zeroed Rmin minDens dtprev prev o,
  nucStep Rops false zeroed Rmin minDens dtprev prev o = Err ErrType.
Proof. exact nucStep_unrepaired_refuted. Qed.
Print Assumptions C03_driving_force_fault_unrepaired_refuted.

(* a driving force that was calculated and is negative: no barrier, no impingement, no nucleation rate, no nucleation
   radius are recorded (or used by the next derivative), whatever the previous step recorded *)
Theorem C03_negative_driving_force_no_nucleation rep Rmin minDens dtprev prev o dG : o_df Rops o = Some dG -> dG < 0 ->
  nucStep Rops rep true Rmin minDens dtprev prev o = Ok (mkN Rops dG 0 0 0 0 0).
Proof. exact (nucStep_negative_zero rep Rmin minDens dtprev prev o dG). Qed.
Print Assumptions C03_negative_driving_force_no_nucleation.

(* ... and the same for a zero impingement rate (in particular a driving force of exactly 0, for which the barrier and
   hence the impingement rate are 0) *)
Theorem C03_no_impingement_no_nucleation rep Rmin minDens dtprev prev o dG : o_df Rops o = Some dG -> o_beta Rops o = 0 ->
  exists s', nucStep Rops rep true Rmin minDens dtprev prev o = Ok s' /\
             n_rate Rops s' = 0 /\ n_Rnuc Rops s' = 0 /\ n_beta Rops s' = 0.
Proof. exact (nucStep_no_impingement_zero rep Rmin minDens dtprev prev o dG). Qed.
Print Assumptions C03_no_impingement_no_nucleation.

(* before kawin commit "fix: no nucleation rate is recorded or used for a phase without driving force or impingement" the
   previous positive rate and radius stayed in force *)
Theorem C03_stale_nucleation_rate_refuted : exists rep Rmin minDens dtprev prev o dG s',
  o_df Rops o = Some dG /\ dG < 0 /\ nucStep Rops rep false Rmin minDens dtprev prev o = Ok s' /\
  0 < n_rate Rops s' /\ 0 < n_Rnuc Rops s'.
Proof. exact nucStep_stale_refuted. Qed.
Print Assumptions C03_stale_nucleation_rate_refuted.

(* ---- faults: the growth calculation returns no result ---------------------------------------------------------- *)
(* never an error; the growth array always has one entry per class boundary; with a non-negative driving force the
   previous growth rate and the previous equilibrium compositions are used and the tables are left alone *)
Theorem C03_growth_fault_fallback dG dens nb ne kin g yA yB backend :
  length g = nb ->
  (forall r, backend = Some r -> length kin = nb /\ length (gr_growth Rops r) = nb) ->
  exists out, singleGrowthMulti Rops true dG dens nb ne kin (Some g) yA yB backend = Ok out /\
    length (go_rate Rops out) = nb /\
    (backend = None -> 0 <= dG ->
       go_rate Rops out = g /\ go_eqa Rops out = yA /\ go_eqb Rops out = yB /\ go_tab Rops out = None).
Proof. exact (singleGrowthMulti_repaired dG dens nb ne kin g yA yB backend). Qed.
Print Assumptions C03_growth_fault_fallback.

Theorem C03_setup_growth_available nb : exists g, setupPrevGrowth Rops true nb = Some g /\ length g = nb.
Proof. exact (setupPrevGrowth_repaired nb). Qed.
Print Assumptions C03_setup_growth_available.

Theorem C03_growth_fault_unrepaired_refuted : exists dG dens nb ne kin g yA yB,
  singleGrowthMulti Rops false dG dens nb ne kin (Some g) yA yB None = Err ErrUnboundLocal /\
  singleGrowthMulti Rops false dG dens nb ne kin (setupPrevGrowth Rops false nb) yA yB None = Err ErrAttribute.
Proof. exact singleGrowthMulti_unrepaired_refuted. Qed.
Print Assumptions C03_growth_fault_unrepaired_refuted.

(* ---- binary lookup table ------------------------------------------------------------------------------------------ *)
Theorem C03_lookup_index_in_range rep (xa : list R) : (rdfiOf Rops rep xa <= length xa - 1)%nat.
Proof. exact (rdfiOf_in_range rep xa). Qed.
Print Assumptions C03_lookup_index_in_range.

(* no stable size class (temperature outside the two-phase region, or no result from the backend): index at the end,
   tables zeroed - the state in which no growth rate is taken *)
Theorem C03_lookup_all_unstable (xa xb : list R) : Forall (fun a => a = sentinel Rops) xa ->
  rdfiOf Rops true xa = (length xa - 1)%nat /\
  lookupTable Rops true xa xb = ((length xa - 1)%nat, (zerosN Rops (length xa), zerosN Rops (length xa))).
Proof. exact (lookup_all_unstable xa xb). Qed.
Print Assumptions C03_lookup_all_unstable.

Theorem C03_lookup_unrepaired_refuted : exists xa xb : list R,
  Forall (fun a => a = sentinel Rops) xa /\ rdfiOf Rops false xa = 0%nat /\
  fst (snd (lookupTable Rops false xa xb)) = xa /\ (0 < length xa - 1)%nat.
Proof. exact lookup_all_unstable_refuted. Qed.
Print Assumptions C03_lookup_unrepaired_refuted.

(* after the repair the matrix-composition table never holds the -1 sentinel, whatever the backend returned (any pattern
   of missing results): entries without a result take the value of the size class below *)
Theorem C03_lookup_no_sentinel (xa xb : list R) :
  Forall (fun a => isValid Rops a = true) (fst (snd (lookupTable Rops true xa xb))).
Proof. exact (lookup_no_sentinel xa xb). Qed.
Print Assumptions C03_lookup_no_sentinel.

Theorem C03_lookup_index_first_stable (xa : list R) j : find_first (map (isValid Rops) xa) = Some j ->
  rdfiOf Rops true xa = Nat.max (j - 1) 0.
Proof. exact (lookup_index_first_stable xa j). Qed.
Print Assumptions C03_lookup_index_first_stable.

(* size classes added during the run: the table stays free of sentinels for every backend answer *)
Theorem C03_extend_no_sentinel (ta tb na nb : list R) : ta <> [] ->
  Forall (fun a => isValid Rops a = true) ta ->
  Forall (fun a => isValid Rops a = true) (fst (extendTable Rops true ta tb na nb)).
Proof. exact (extend_no_sentinel ta tb na nb). Qed.
Print Assumptions C03_extend_no_sentinel.

(* ---- binary growth rate: no division by zero ---------------------------------------------------------------------- *)
(* for every effective-diffusion function, matrix composition, molar-volume ratio and table entry (incl. zeroed
   tables) both denominators of the growth rate of a size class are non-zero *)
Theorem C03_growth_denominators_nonzero (eff : R -> R) x ratio epsMin Rb a b :
  0 < epsMin -> 0 < Rb ->
  fst (growthDenoms Rops eff true x ratio epsMin Rb a b) <> 0 /\
  snd (growthDenoms Rops eff true x ratio epsMin Rb a b) <> 0.
Proof. exact (growth_denoms_nonzero eff x ratio epsMin Rb a b). Qed.
Print Assumptions C03_growth_denominators_nonzero.

Theorem C03_growth_masked_zero (eff : R -> R) x ratio D epsMin k Rb a b :
  validClass Rops true ratio a b = false ->
  growthClass Rops eff true x ratio D epsMin k Rb a b = 0.
Proof. exact (growth_masked eff x ratio D epsMin k Rb a b). Qed.
Print Assumptions C03_growth_masked_zero.

Theorem C03_growth_unrepaired_refuted : exists (eff : R -> R) x ratio epsMin Rb a b,
  0 < epsMin /\ 0 < Rb /\
  ( fst (growthDenoms Rops eff false x ratio epsMin Rb a b) = 0 \/
    snd (growthDenoms Rops eff false x ratio epsMin Rb a b) = 0 ).
Proof. exact growth_unrepaired_refuted. Qed.
Print Assumptions C03_growth_unrepaired_refuted.

Theorem C03_growth_length (eff : R -> R) rep rdfi x ratio D epsMin kin bounds xa xb :
  length kin = length bounds -> length xa = length bounds -> length xb = length bounds ->
  length (growthBinary Rops eff rep rdfi x ratio D epsMin kin bounds xa xb) = length bounds.
Proof. exact (growthBinary_length eff rep rdfi x ratio D epsMin kin bounds xa xb). Qed.
Print Assumptions C03_growth_length.

(* ---- step size: the minimum over the constraint-derived steps, or the slowly growing previous step ------------------ *)
Theorem C03_getDt_is_minimum dtMax dtPropose cands :
  let dt := getDt Rops dtMax dtPropose cands in
  ( dt = dtPropose /\ Forall (fun c => dtMax <= c) cands ) \/
  ( In dt cands /\ dt < dtMax /\ Forall (fun c => dt <= c) cands ).
Proof. exact (getDt_spec dtMax dtPropose cands). Qed.
Print Assumptions C03_getDt_is_minimum.
