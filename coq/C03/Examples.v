(* C03 - non-vacuity examples (the hypotheses of the theorems are met by concrete non-trivial states), executable
   instances, and the refutation witnesses evaluated on exact rationals. *)
From Coq Require Import String.
From Coq Require Import Reals QArith List Bool ZArith Arith Lia Lra Sorted.
Require Import Kawin.Common.Ops Kawin.Common.Vec Kawin.Common.VecLemmas
               Kawin.C07.Model Kawin.C07.Proofs Kawin.C01.Model Kawin.C01.Proofs
               Kawin.C02.Model Kawin.C02.Proofs Kawin.C03.Model Kawin.C03.ProofsStore Kawin.C03.Proofs.
Require Kawin.C05.Model.
Import ListNotations.

(* ---- store ------------------------------------------------------------------------------------------------ *)
Open Scope string_scope.
Definition ex_attrs := ["time"; "volFrac"; "fconc"].
Definition ex_self : store nat := [("time", [10; 11]); ("volFrac", [20; 21]); ("fconc", [30; 31]); ("n", [7])]%nat.
Definition ex_new : store nat := [("time", [12]); ("volFrac", [22]); ("fconc", [32])]%nat.
Example append_example :
  appendToArrays nat ex_attrs ex_self ex_new =
    [("time", [10; 11; 12]); ("volFrac", [20; 21; 22]); ("fconc", [30; 31; 32]); ("n", [7])]%nat
  /\ counter nat (appendToArrays nat ex_attrs ex_self ex_new) = 2%nat.
Proof. split; vm_compute; reflexivity. Qed.
Example copy_set_example :
  copySlice nat ex_attrs ["time"; "volFrac"; "fconc"; "Ravg"] 0%nat ex_self 1 =
    [("time", [11]); ("volFrac", [21]); ("fconc", [31]); ("Ravg", [0])]%nat
  /\ setSlice nat ex_attrs 0%nat ex_self ex_new 0 = [("time", [12; 11]); ("volFrac", [22; 21]); ("fconc", [32; 31]); ("n", [7])]%nat.
Proof. split; vm_compute; reflexivity. Qed.
(* the hypothesis NoDup is necessary: an attribute listed (hence appended) twice is misaligned after one step *)
Example append_twice_refuted :
  lengths nat ["time"; "volFrac"; "time"] (appendToArrays nat ["time"; "volFrac"; "time"] ex_self ex_new) = [4; 3; 4]%nat.
Proof. vm_compute. reflexivity. Qed.
Example aligned_example : aligned nat ex_attrs 2 ex_self /\ aligned nat ex_attrs 1 ex_new /\ NoDup ex_attrs.
Proof.
  split; [|split].
  - intros k [<-|[<-|[<-|[]]]]; reflexivity.
  - intros k [<-|[<-|[<-|[]]]]; reflexivity.
  - apply nodupb_NoDup. vm_compute. reflexivity.
Qed.
Close Scope string_scope.

(* ---- clock -------------------------------------------------------------------------------------------------- *)
Open Scope Q_scope.
(* two solve calls of 2 s and 1 s, the model always proposes 3/4 s: times strictly increasing, both end times exact *)
Example clock_example :
  let h1 := kwnSolve Qops true (fun _ => 3#4) (fun _ => false) 20 [0] 2 (1#10) 1 in
  let h2 := kwnSolve Qops true (fun _ => 3#4) (fun _ => false) 20 h1 1 (1#10) 1 in
  h1 = [0; 3#4; 3#2; 2] /\ h2 = [0; 3#4; 3#2; 2; 11#4; 3].
Proof. split; vm_compute; reflexivity. Qed.
Close Scope Q_scope.
Open Scope R_scope.
Example goodSeg_example : goodSeg (mkSeg 2 (1/10) 1 (fun _ => 3/4) (fun _ => false)) /\
  neverStops (mkSeg 2 (1/10) 1 (fun _ => 3/4) (fun _ => false)) /\ StronglySorted Rlt [0].
Proof. unfold goodSeg, neverStops. simpl. repeat split; try lra. repeat constructor. Qed.
Close Scope R_scope.

(* ---- one step on exact rationals: a 3-class phase with growth, dissolution and nucleation ---------------------- *)
Open Scope Q_scope.
Definition exPin : pin Qops :=
  mkPin Qops [1; 2; 3; 4] [0; 8; 4] (netFlux Qops [1; 2; 3; 4] [0; 8; 4] [-1; -1; 1; 1]) 2 (5#2) 0%nat
        1 (1#1000) [[1#4]; [1#4]; [1#4]; [1#4]] false true [0] Keep 0%nat.
Example step_example :
  newX Qops (1#2) 0 exPin = [0; 1; 6] /\
  kwnRecord Qops (1#2) 0 (1#2) 0 [1#10] [1#10] [exPin] =
    ([mkPhaseOut Qops 7 (47#14) (2183#8000) [2183#32000]], [339#7756]).
Proof. split; vm_compute; reflexivity. Qed.
Example store_example :
  snd (kwnStore Qops (1#2) 0 exPin) = [0; 1; 6] /\
  snd (kwnStore Qops (1#2) 0 (mkPin Qops [1; 2; 3; 4] [0; 1#2; 4] [0; 0; 0; 0] 0 0 0%nat 1 1 [] false true [] (@Extend Qops 2 [1; 2; 3; 4; 5; 6]) 0%nat))
    = [0; 0; 4; 0; 0].
Proof. split; vm_compute; reflexivity. Qed.

(* the witnesses of the two refuted clauses, evaluated exactly: two saturated phases give a total fraction of 2;
   a solute-poor precipitate taking half the volume leaves a matrix "composition" of 9/5 *)
Definition restPinQ (vf : Q) : pin Qops :=
  mkPin Qops [1; 3; 5] [0; 1] [0; 0; 0] 0 0 0%nat 1 vf [[0]; [0]; [0]] false true [0] Keep 0%nat.
Example total_fraction_witness :
  sumFv Qops (fst (kwnRecord Qops 1 0 (1#2) 0 [1#10] [1#10] [restPinQ 1; restPinQ 1])) = 2.
Proof. vm_compute. reflexivity. Qed.
Example composition_witness :
  snd (kwnRecord Qops 1 0 (1#2) 0 [9#10] [9#10] [restPinQ (1#128)]) = [9#5].
Proof. vm_compute. reflexivity. Qed.

(* ---- faults ---------------------------------------------------------------------------------------------------- *)
Definition exPrev : nslice Qops := mkN Qops 5 3 2 (1#10) 7 (2#10).
(* no result from the driving-force calculation: repaired tree keeps every term, pinned tree ends in TypeError *)
Example df_fault_example :
  nucStep Qops true true (1#20) 1 1 exPrev (mkNO Qops None 0 0 0 0 0) = Ok exPrev /\
  nucStep Qops false true (1#20) 1 1 exPrev (mkNO Qops None 0 0 0 0 0) = Err ErrType /\
  nucStep Qops true true (1#20) 1 1 exPrev (mkNO Qops (Some 4) (1#40) 9 6 8 (1#100)) = Ok (mkN Qops 4 6 9 (1#20) 8 (3#50)) /\
  (* negative driving force: everything but the driving force is 0; before the repair the previous terms stayed *)
  nucStep Qops true true (1#20) 1 1 exPrev (mkNO Qops (Some (-4)) (1#40) 9 6 8 (1#100)) = Ok (mkN Qops (-4) 0 0 0 0 0) /\
  nucStep Qops true false (1#20) 1 1 exPrev (mkNO Qops (Some (-4)) (1#40) 9 6 8 (1#100)) = Ok (mkN Qops (-4) 3 2 (1#10) 7 (2#10)) /\
  (* zero impingement: the current barrier is recorded, no rate *)
  nucStep Qops true true (1#20) 1 1 exPrev (mkNO Qops (Some 4) (1#40) 9 0 8 (1#100)) = Ok (mkN Qops 4 0 9 (1#20) 0 0).
Proof. repeat split; vm_compute; reflexivity. Qed.

Example growth_fault_example :
  (* backend gives no result, driving force >= 0: previous growth rate and equilibrium compositions *)
  singleGrowthMulti Qops true 3 1 3 2 [1; 1; 1] (Some [5; 6; 7]) [1#10; 2#10] [3#10; 4#10] None
    = Ok (mkGO Qops [5; 6; 7] [1#10; 2#10] [3#10; 4#10] None) /\
  singleGrowthMulti Qops false 3 1 3 2 [1; 1; 1] (Some [5; 6; 7]) [1#10; 2#10] [3#10; 4#10] None = Err ErrUnboundLocal /\
  singleGrowthMulti Qops false 3 1 3 2 [1; 1; 1] (setupPrevGrowth Qops false 3) [0; 0] [0; 0] None = Err ErrAttribute /\
  singleGrowthMulti Qops true 3 1 3 2 [1; 1; 1] (setupPrevGrowth Qops true 3) [0; 0] [0; 0] None
    = Ok (mkGO Qops [0; 0; 0] [0; 0] [0; 0] None) /\
  (* negative driving force: everything zeroed *)
  go_rate Qops (match singleGrowthMulti Qops true (-3) 1 3 2 [1; 1; 1] (Some [5; 6; 7]) [1#10; 2#10] [3#10; 4#10] None with Ok o => o | Err _ => mkGO Qops [] [] [] None end) = [0; 0; 0] /\
  (* result available: kinetic factor times growth *)
  go_rate Qops (match singleGrowthMulti Qops true 3 1 3 2 [2; 2; 2] (Some [5; 6; 7]) [] [] (Some (mkGR Qops [1; 2; 3] [] [] [1#10] [2#10])) with Ok o => o | Err _ => mkGO Qops [] [] [] None end) = [2; 4; 6].
Proof. repeat split; vm_compute; reflexivity. Qed.

(* ---- binary lookup table and growth rate --------------------------------------------------------------------------- *)
Example lookup_example :
  lookupTable Qops true [-1; -1; 3#10; 2#10; 1#10] [-1; -1; 1#2; 1#2; 1#2] = (1%nat, ([3#10; 3#10; 3#10; 2#10; 1#10], [1#2; 1#2; 1#2; 1#2; 1#2])) /\
  lookupTable Qops true [-1; -1; -1] [-1; -1; -1] = (2%nat, ([0; 0; 0], [0; 0; 0])) /\
  lookupTable Qops false [-1; -1; -1] [-1; -1; -1] = (0%nat, ([-1; -1; -1], [-1; -1; -1])) /\
  lookupTable Qops true [3#10; 2#10] [1#2; 1#2] = (0%nat, ([2#10; 2#10], [1#2; 1#2])) /\
  (* missing results behind the first stable class are filled from below; on the pinned tree they stay *)
  lookupTable Qops true [-1; 3#10; -1; -1; 1#10] [-1; 1#2; -1; -1; 1#3] = (0%nat, ([3#10; 3#10; 3#10; 3#10; 1#10], [1#2; 1#2; 1#2; 1#2; 1#3])) /\
  lookupTable Qops false [-1; 3#10; -1; -1; 1#10] [-1; 1#2; -1; -1; 1#3] = (0%nat, ([3#10; 3#10; -1; -1; 1#10], [1#2; 1#2; -1; -1; 1#3])) /\
  lookupTable Qops true [3#10; -1; 1#10] [1#2; -1; 1#3] = (0%nat, ([3#10; 3#10; 1#10], [1#2; 1#2; 1#3])) /\
  extendTable Qops true [3#10; 2#10] [1#2; 1#2] [-1; -1] [-1; -1] = ([3#10; 2#10; 2#10; 2#10], [1#2; 1#2; 1#2; 1#2]) /\
  extendTable Qops false [3#10; 2#10] [1#2; 1#2] [-1; -1] [-1; -1] = ([3#10; 2#10; -1; -1], [1#2; 1#2; -1; -1]).
Proof. repeat split; vm_compute; reflexivity. Qed.

(* growth with equal molar volumes, constant effective diffusion distance 1: a sentinel entry (only possible on the pinned
   tree), a zeroed entry and a regular one: the first two have a zero supersaturation denominator; repaired: masked,
   growth 0 (exact rationals totalise x/0 to 0, so the denominators are shown as well) *)
Example growth_example :
  growthBinary Qops (fun _ => 1) true 0 (1#50) 1 1 (1#100) [1; 1; 1] [1; 2; 4] [-1; 0; 1#100] [-1; 0; 1#4] = [0; 0; 1#96] /\
  map (fun '(a, b) => fst (growthDenoms Qops (fun _ => 1) false (1#50) 1 (1#100) 1 a b)) [(-1, -1); (0, 0); (1#100, 1#4)] = [0; 0; 6#25] /\
  map (fun '(a, b) => fst (growthDenoms Qops (fun _ => 1) true (1#50) 1 (1#100) 1 a b)) [(-1, -1); (0, 0); (1#100, 1#4)] = [1; 1; 6#25].
Proof. repeat split; vm_compute; reflexivity. Qed.

Example getDt_example :
  getDt Qops 10 (1#100) [10; 3; 7; 10; 10] = 3 /\ getDt Qops 10 (1#100) [10; 10; 10; 10; 10] = 1#100 /\
  dtFromTemperature Qops true 3 710 700 1 (1#2) 10 = 1#20.
Proof. repeat split; vm_compute; reflexivity. Qed.
Close Scope Q_scope.

(* ---- the hypotheses of the trajectory theorem are satisfiable --------------------------------------------------------- *)
Open Scope R_scope.
Example trajectory_example :
  let s := mkK 1 [1/10] [restPin 1] in
  step_ok s /\ chain 0 (1/2) 0 [1/10] [s] /\
  Forall (fun p => state_ok (p_bounds Rops p) (p_psd Rops p)) (k_pins s) /\ Forall (fun c => 0 <= c) (k_prev s).
Proof.
  pose proof (restPin_wf 1 ltac:(lra)) as W. unfold pin_wf in W. destruct W as (A & B & C & D & E & F & G).
  cbv zeta. split; [|split; [|split]].
  - unfold step_ok. cbn [k_dt k_pins]. split; [lra|]. constructor; [|constructor].
    unfold oracle_ok, adjust_ok. cbn [restPin p_adjust]. repeat split; assumption.
  - exact I.
  - cbn [k_pins]. constructor; [|constructor]. unfold state_ok. repeat split; assumption.
  - cbn [k_prev]. constructor; [lra|constructor].
Qed.
Example richer_example : richer (1/10) 0 (mkPin Rops [1; 3; 5] [0; 1] [0; 0; 0] 0 0 0%nat 1 1 [[1/4]; [1/4]; [1/4]] false true [0] Keep 0%nat).
Proof.
  unfold richer. cbn [p_infinite p_prevFull p_xbeta p_bounds]. repeat split; try reflexivity.
  - unfold nElems, phaseIn. cbn [xbeta]. simpl. lia.
  - repeat (constructor; [simpl; lra|]). constructor.
Qed.
