(* C03 - lemmas about the history store (D3: no real numbers, no axioms). *)
From Coq Require Import String.
From Coq Require Import List Bool Arith Lia.
Require Import Kawin.C03.Model.
Import ListNotations.

Lemma memb_In k l : memb k l = true <-> In k l.
Proof.
  induction l as [|x r IH]; simpl; [split; [discriminate|contradiction]|].
  rewrite orb_true_iff, IH. split; intros [H|H]; auto.
  - left. apply String.eqb_eq. exact H.
  - left. apply String.eqb_eq. exact H.
Qed.
Lemma nodupb_NoDup l : nodupb l = true -> NoDup l.
Proof.
  induction l as [|x r IH]; simpl; intros H; [constructor|].
  apply andb_true_iff in H. destruct H as [H1 H2]. constructor; [|apply IH; exact H2].
  intros Hin. apply memb_In in Hin. rewrite Hin in H1. discriminate.
Qed.
Lemma inclb_incl a b : inclb a b = true -> incl a b.
Proof.
  unfold inclb. rewrite forallb_forall. intros H k Hk. apply memb_In. apply H. exact Hk.
Qed.

Lemma fold_left_ext {X Y} (f g : X -> Y -> X) l x : (forall a b, f a b = g a b) -> fold_left f l x = fold_left g l x.
Proof. intros H. revert x. induction l as [|y l IH]; intros x; simpl; [reflexivity|]. rewrite H. apply IH. Qed.

Section StoreLemmas.
Variable A : Type.
Notation store := (store A).

Lemma get_set_same (s : store) k v : get (set s k v) k = v.
Proof.
  induction s as [|[k' v'] r IH]; simpl.
  - rewrite String.eqb_refl. reflexivity.
  - destruct (String.eqb k' k) eqn:E; simpl; rewrite E; auto.
Qed.

Lemma get_set_other (s : store) k k2 v : k <> k2 -> get (set s k v) k2 = get s k2.
Proof.
  intros Hne. induction s as [|[k' v'] r IH]; simpl.
  - destruct (String.eqb_spec k k2); [contradiction|reflexivity].
  - destruct (String.eqb_spec k' k) as [->|Hk]; simpl.
    + destruct (String.eqb_spec k k2); [contradiction|reflexivity].
    + destruct (String.eqb k' k2); auto.
Qed.

Lemma upd_length (l : list A) i v : length (upd l i v) = length l.
Proof. revert i; induction l as [|x r IH]; intros [|i]; simpl; auto. Qed.

Lemma nth_upd_same (l : list A) i v d : i < length l -> nth i (upd l i v) d = v.
Proof. revert i; induction l as [|x r IH]; intros [|i] H; simpl in *; try lia; [reflexivity|apply IH; lia]. Qed.

Lemma nth_upd_other (l : list A) i j v d : i <> j -> nth j (upd l i v) d = nth j l d.
Proof.
  revert i j; induction l as [|x r IH]; intros [|i] [|j] H; simpl; auto; try lia.
Qed.

(* ---- a loop  "for name in attrs: s[name] = f(s[name], name)"  touches each attribute once ---------- *)
Section Loop.
Variable f : string -> list A -> list A.
Definition loop (attrs : list string) (s : store) : store :=
  fold_left (fun s name => set s name (f name (get s name))) attrs s.

Lemma loop_notin attrs s k : ~ In k attrs -> get (loop attrs s) k = get s k.
Proof.
  revert s; induction attrs as [|a r IH]; intros s Hk; simpl; [reflexivity|].
  unfold loop in *. simpl. rewrite IH by (intros H; apply Hk; right; exact H).
  apply get_set_other. intros ->. apply Hk. left; reflexivity.
Qed.

Lemma loop_in attrs s k : NoDup attrs -> In k attrs -> get (loop attrs s) k = f k (get s k).
Proof.
  revert s; induction attrs as [|a r IH]; intros s Hnd Hk; [destruct Hk|].
  inversion Hnd as [|? ? Ha Hr]; subst. unfold loop in *. simpl.
  destruct (string_dec a k) as [->|Hne].
  - fold (loop r (set s k (f k (get s k)))). rewrite loop_notin by exact Ha. apply get_set_same.
  - destruct Hk as [->|Hk]; [contradiction|].
    rewrite IH by assumption. rewrite get_set_other by exact Hne. reflexivity.
Qed.
End Loop.

(* ---- appendToArrays ---------------------------------------------------------------------------------- *)
Lemma appendToArrays_loop attrs self new :
  appendToArrays A attrs self new = loop (fun name old => cat [old; get new name]) attrs self.
Proof. reflexivity. Qed.

Lemma append_in attrs self new k : NoDup attrs -> In k attrs ->
  get (appendToArrays A attrs self new) k = get self k ++ get new k.
Proof.
  intros Hnd Hk. rewrite appendToArrays_loop, loop_in by assumption.
  unfold cat. simpl. rewrite app_nil_r. reflexivity.
Qed.

Lemma append_notin attrs self new k : ~ In k attrs ->
  get (appendToArrays A attrs self new) k = get self k.
Proof. intros Hk. rewrite appendToArrays_loop. apply loop_notin. exact Hk. Qed.

(* all histories of the attribute list have length n *)
Definition aligned (attrs : list string) (n : nat) (s : store) : Prop :=
  forall k, In k attrs -> length (get s k) = n.

Lemma append_aligned attrs self new n m : NoDup attrs ->
  aligned attrs n self -> aligned attrs m new ->
  aligned attrs (n + m) (appendToArrays A attrs self new).
Proof.
  intros Hnd Hs Hn k Hk. rewrite append_in by assumption. rewrite app_length.
  rewrite (Hs k Hk), (Hn k Hk). reflexivity.
Qed.

(* a run: every accepted step appends one slice (histories of one row) *)
Lemma appendAll_aligned attrs self news n : NoDup attrs ->
  aligned attrs n self -> Forall (aligned attrs 1) news ->
  aligned attrs (n + length news) (appendAll A attrs self news).
Proof.
  intros Hnd. revert self n. induction news as [|y r IH]; intros self n Hs Hn; simpl.
  - rewrite Nat.add_0_r. exact Hs.
  - inversion Hn as [|? ? Hy Hr]; subst. unfold appendAll in *. simpl.
    replace (n + S (length r)) with ((n + 1) + length r) by lia.
    apply IH; [|exact Hr]. apply append_aligned; assumption.
Qed.

(* the step counter pData.n after the run *)
Lemma appendAll_counter attrs self news n : NoDup attrs -> In "time"%string attrs ->
  aligned attrs n self -> Forall (aligned attrs 1) news ->
  counter A (appendAll A attrs self news) = n + length news - 1.
Proof.
  intros Hnd Ht Hs Hn. unfold counter.
  rewrite (appendAll_aligned attrs self news n Hnd Hs Hn _ Ht). reflexivity.
Qed.

(* content: the history of every attribute is the old one followed by the rows of the slices, in order *)
Lemma appendAll_content attrs self news k : NoDup attrs -> In k attrs ->
  get (appendAll A attrs self news) k = get self k ++ concat (map (fun y => get y k) news).
Proof.
  intros Hnd Hk. revert self. induction news as [|y r IH]; intros self; simpl.
  - rewrite app_nil_r. reflexivity.
  - unfold appendAll in *. simpl. rewrite IH. rewrite append_in by assumption.
    rewrite app_assoc. reflexivity.
Qed.

(* ---- copySlice / setSlice ---------------------------------------------------------------------------- *)
Lemma get_fresh fields z k : In k fields -> get (fresh A fields z) k = [z].
Proof.
  induction fields as [|a r IH]; intros H; [destruct H|]. simpl.
  destruct (String.eqb_spec a k) as [->|Hne]; [reflexivity|].
  destruct H as [->|H]; [contradiction|]. apply IH; exact H.
Qed.

Lemma copySlice_loop attrs fields z self N :
  copySlice A attrs fields z self N =
  loop (fun name old => upd old 0 (nth N (get self name) z)) attrs (fresh A fields z).
Proof. reflexivity. Qed.

(* the copy holds, for every attribute, exactly one row: row N of the original *)
Lemma copySlice_in attrs fields z self N k : NoDup attrs -> incl attrs fields -> In k attrs ->
  get (copySlice A attrs fields z self N) k = [nth N (get self k) z].
Proof.
  intros Hnd Hi Hk. rewrite copySlice_loop, loop_in by assumption.
  rewrite get_fresh by (apply Hi; exact Hk). reflexivity.
Qed.

Lemma copySlice_aligned attrs fields z self N : NoDup attrs -> incl attrs fields ->
  aligned attrs 1 (copySlice A attrs fields z self N).
Proof. intros Hnd Hi k Hk. rewrite copySlice_in by assumption. reflexivity. Qed.

Lemma setSlice_loop attrs z self slice N :
  setSlice A attrs z self slice N = loop (fun name old => upd old N (nth 0 (get slice name) z)) attrs self.
Proof. reflexivity. Qed.

Lemma setSlice_aligned attrs z self slice N n : NoDup attrs ->
  aligned attrs n self -> aligned attrs n (setSlice A attrs z self slice N).
Proof.
  intros Hnd Hs k Hk. rewrite setSlice_loop, loop_in by assumption. rewrite upd_length. apply Hs; exact Hk.
Qed.

Lemma setSlice_row attrs z self slice N n k : NoDup attrs -> aligned attrs n self -> N < n -> In k attrs ->
  nth N (get (setSlice A attrs z self slice N) k) z = nth 0 (get slice k) z /\
  forall j, j <> N -> nth j (get (setSlice A attrs z self slice N) k) z = nth j (get self k) z.
Proof.
  intros Hnd Hs HN Hk. rewrite setSlice_loop, loop_in by assumption. split.
  - apply nth_upd_same. rewrite (Hs k Hk). exact HN.
  - intros j Hj. apply nth_upd_other. auto.
Qed.

(* copying a slice out and writing it back changes nothing *)
Lemma setSlice_copySlice attrs fields z self N n k : NoDup attrs -> incl attrs fields ->
  aligned attrs n self -> N < n -> In k attrs ->
  forall j, nth j (get (setSlice A attrs z self (copySlice A attrs fields z self N) N) k) z = nth j (get self k) z.
Proof.
  intros Hnd Hi Hs HN Hk j.
  destruct (setSlice_row attrs z self (copySlice A attrs fields z self N) N n k Hnd Hs HN Hk) as [R1 R2].
  destruct (Nat.eq_dec j N) as [->|Hj].
  - rewrite R1. rewrite copySlice_in by assumption. reflexivity.
  - apply R2. exact Hj.
Qed.

(* ---- the whole run: setup on a reset store, then n accepted steps ------------------------------------- *)
(* PrecipitationData.reset(1): every field one row; KWNEuler.setup writes slice 0 back (setSlice) *)
Theorem histories_aligned attrs fields z (setupSlice : store) (news : list store) :
  NoDup attrs -> incl attrs fields ->
  Forall (aligned attrs 1) news ->
  let s0 := setSlice A attrs z (fresh A fields z) setupSlice 0 in
  let s := appendAll A attrs s0 news in
  aligned attrs (S (length news)) s /\ counter A s = (if in_dec string_dec "time"%string attrs then length news else counter A s).
Proof.
  intros Hnd Hi Hn s0 s.
  assert (H0 : aligned attrs 1 s0).
  { apply setSlice_aligned; [exact Hnd|]. intros k Hk. rewrite get_fresh by (apply Hi; exact Hk). reflexivity. }
  split.
  - change (S (length news)) with (1 + length news). apply appendAll_aligned; assumption.
  - destruct (in_dec string_dec "time"%string attrs) as [Ht|]; [|reflexivity].
    subst s. rewrite (appendAll_counter attrs s0 news 1) by assumption. lia.
Qed.

End StoreLemmas.
