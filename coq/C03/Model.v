(* C03 - Precipitation runs are well formed for every configuration and survive faults.
   Executable model (definitions only, no proofs) of the run bookkeeping of
     kawin/precipitation/PrecipitationParameters.py   PrecipitationData.appendToArrays / copySlice / setSlice (42-58)
     kawin/precipitation/KWNBase.py                   _calcNucleationRate (driving-force result None), postProcess
     kawin/precipitation/KWNEuler.py                  _createLookupBinary (RdrivingForceIndex), _singleGrowthBinary,
                                                      _singleGrowthMulti (growth result None), _calcMassBalance,
                                                      _processX, _updateParticleSizeDistribution, getDt
     kawin/GenericModel.py / kawin/solver/Solver.py   solve (clock: model of C05)
   on top of the models of C07 (transport kernels), C01 (mass balance), C02 (zeroing / truncation) and
   C05 (solver clock).  The thermodynamic backend is an ORACLE: its results are inputs of type [option]
   ([None] = the backend returned no result) and the theorems quantify over all of them.
   Definitions carrying a flag [repaired] model both the pinned tree ([false]) and the tree after the
   `fix:` commits of this property ([true]); what the current source does is [true]. *)
From Coq Require Import String.
From Coq Require Import List Bool ZArith Arith.     (* after String: length, concat, ... are the list functions *)
Require Import Kawin.Common.Ops Kawin.Common.Vec Kawin.C07.Model Kawin.C01.Model Kawin.C02.Model.
Require Kawin.C05.Model.
Import ListNotations.

(* ------------------------------------------------------------------------------------------------ *)
(* D3: PrecipitationData as a store  attribute name -> history (list of rows along axis 0).
   Rows are abstract.  The attribute list is NOT fixed here: the check regenerates it, and the bodies of
   the three methods, from the source (build/C03/Gen.v) and coq/C03/run/Bridge.v identifies the generated
   text with these definitions. *)
Section Store.
Variable A : Type.
Definition store := list (string * list A).

Fixpoint get (s : store) (k : string) : list A :=
  match s with
  | [] => []
  | (k', v) :: r => if String.eqb k' k then v else get r k
  end.
Fixpoint set (s : store) (k : string) (v : list A) : store :=
  match s with
  | [] => [(k, v)]
  | (k', v') :: r => if String.eqb k' k then (k', v) :: r else (k', v') :: set r k v
  end.
(* a[i] = v on a list (index beyond the end: Python raises IndexError; here the list is returned unchanged and
   every statement guards i < length) *)
Fixpoint upd (l : list A) (i : nat) (v : A) : list A :=
  match l, i with
  | [], _ => []
  | _ :: r, O => v :: r
  | x :: r, S j => x :: upd r j v
  end.
(* np.concatenate(parts, axis=0) *)
Definition cat (parts : list (list A)) : list A := concat parts.

(* for name in self.ATTRIBUTES: setattr(self, name, np.concatenate([getattr(self, name), getattr(newData, name)], axis=0)) *)
Definition appendToArrays (attrs : list string) (self new : store) : store :=
  fold_left (fun s name => set s name (cat [get s name; get new name])) attrs self.
(* self.n = len(self.time) - 1 *)
Definition counter (s : store) : nat := length (get s "time"%string) - 1.

(* PrecipitationData(phases, elements, N=1): reset(1) creates every field with one (zero) row *)
Definition fresh (fields : list string) (z : A) : store := map (fun k => (k, [z])) fields.
(* sliceData = PrecipitationData(..., N=1); for name in ATTRIBUTES: getattr(sliceData, name)[0] = getattr(self, name)[N] *)
Definition copySlice (attrs fields : list string) (z : A) (self : store) (N : nat) : store :=
  fold_left (fun s name => set s name (upd (get s name) 0 (nth N (get self name) z))) attrs (fresh fields z).
(* for name in ATTRIBUTES: getattr(self, name)[N] = getattr(sliceData, name)[0] *)
Definition setSlice (attrs : list string) (z : A) (self slice : store) (N : nat) : store :=
  fold_left (fun s name => set s name (upd (get s name) N (nth 0 (get slice name) z))) attrs self.

(* a run: one appendToArrays per accepted step (KWNBase.postProcess) *)
Definition appendAll (attrs : list string) (self : store) (news : list store) : store :=
  fold_left (appendToArrays attrs) news self.

Definition lengths (attrs : list string) (s : store) : list nat := map (fun k => length (get s k)) attrs.
End Store.

Arguments get {A} s k.
Arguments set {A} s k v.
Arguments upd {A} l i v.
Arguments cat {A} parts.

(* decision procedures on attribute lists (used on the generated list) *)
Fixpoint memb (k : string) (l : list string) : bool :=
  match l with [] => false | x :: r => String.eqb x k || memb k r end.
Fixpoint nodupb (l : list string) : bool :=
  match l with [] => true | x :: r => negb (memb x r) && nodupb r end.
Definition inclb (a b : list string) : bool := forallb (fun k => memb k b) a.

(* ------------------------------------------------------------------------------------------------ *)
(* results of the parts of a step that can end in an internal error *)
Inductive err := ErrUnboundLocal | ErrAttribute | ErrType.
Inductive res (X : Type) := Ok (x : X) | Err (e : err).
Arguments Ok {X} x.
Arguments Err {X} e.

Section Num.
Variable O : Ops.
Notation t := (T O).

Definition zerosN (n : nat) : list t := repeat (zero O) n.

(* ---- clock: GenericModel.solve called once per segment on the recorded time history ------------- *)
(* t0 = pData.time[pData.n]; every accepted step appends its time *)
Definition kwnSolve (snap : bool) (propose : nat -> t) (stop : nat -> bool) (fuel : nat)
           (hist : list t) (simTime fmin fmax : t) : list t :=
  hist ++ Kawin.C05.Model.times O
            (Kawin.C05.Model.solve O snap propose stop fuel (last hist (zero O)) simTime fmin fmax).

(* ---- the update of one phase ------------------------------------------------------------------- *)
(* Solver._updateX: x0 + dXdt*dt, where KWNEuler._correctdXdt REPLACES dXdt by
   correctdXdtEuler(dt, growth, nucRate, Rnuc, x0): the face fluxes [nf] are the ones left in PBM._netFlux by the
   last derivative evaluation (Euler: netFlux of x0 itself; RK4: netFlux of the fourth stage state), limited
   against x0.  For every iterator the new distribution is therefore *)
Definition updateX (dt : t) (bounds psd nf : list t) (nucRate Rnuc : t) : list t :=
  zipWith (fun x d => add O x (mul O d dt)) psd (dXdt_of O (correctFlux O dt nf psd) bounds nucRate Rnuc).

(* PopulationBalanceModel.adjustSizeClassesEuler: nothing / addSizeClasses(k) / changeSizeClasses.
   The new boundaries (np.linspace) and the re-meshed distribution are the subject of C08; here they are data *)
Inductive adjust := Keep | Extend (k : nat) (bounds' : list t) | Remesh (bounds' psd' : list t).

(* adjustSizeClassesEuler applied to the stored distribution [xs] (already truncated and zeroed below the thresholds) *)
Definition adjusted (a : adjust) (bounds xs : list t) : list t * list t :=
  match a with
  | Keep => (bounds, xs)
  | Extend k b' => (b', xs ++ zerosN k)
  | Remesh b' p' => (b', p')
  end.

(* what one phase contributes to a step *)
Record pin := mkPin {
  p_bounds : list t; p_psd : list t;          (* PBM[p].PSDbounds, PBM[p].PSD at the start of the step *)
  p_nf : list t;                              (* PBM[p]._netFlux left by the last derivative evaluation *)
  p_nucRate : t; p_Rnuc : t;                  (* _currY.nucRate / Rnuc in force at that evaluation *)
  p_rdfi : nat;                               (* RdrivingForceIndex[p] during the step *)
  p_volRatio : t; p_volFactor : t;
  p_xbeta : list (list t);                    (* PSDXbeta[p] *)
  p_prevFull : bool; p_infinite : bool; p_prevFconc : list t;
  p_adjust : adjust; p_rdfi' : nat            (* grid change after the step, RdrivingForceIndex after it *)
}.

(* every derivative evaluation starts with _processX on the state it is handed (KWNBase._calculateDependentTerms), in place: the
   state the iterator advances is the start state with the classes up to RdrivingForceIndex / below minRadius emptied.  Since kawin
   commit "fix: remove particles below the stability thresholds before the size classes are re-meshed" the stored distribution can
   hold particles there right after a re-mesh, so this zeroing is not a no-op *)
Definition startX (minR : t) (p : pin) : list t :=
  processX O (p_rdfi p) minR (mids O (p_bounds p)) (p_psd p).

(* the distribution handed to _calcMassBalance: zeroed start state, flux step, _processX again *)
Definition newX (dt minR : t) (p : pin) : list t :=
  processX O (p_rdfi p) minR (mids O (p_bounds p))
           (updateX dt (p_bounds p) (startX minR p) (p_nf p) (p_nucRate p) (p_Rnuc p)).

Definition phaseIn (dt minR : t) (p : pin) : phase_in O :=
  mkPhaseIn O (p_volRatio p) (p_volFactor p) (newX dt minR p) (mids O (p_bounds p)) (p_xbeta p)
            (p_prevFull p) (p_infinite p) (p_prevFconc p) (p_psd p).

(* the recorded statistics and matrix composition of the step (model of C01) *)
Definition kwnRecord (dt minR minDens minComp : t) (x0 prevComp : list t) (ps : list pin)
  : list (phase_out O) * list t :=
  massBalance O minDens minComp x0 prevComp (map (phaseIn dt minR) ps).

(* the distribution stored for the next step (_updateParticleSizeDistribution): UpdatePBMEuler (PSD[PSD < 1] = 0), zeroing below
   the thresholds ON THE GRID OF THE STEP with the index in force after the growth rate was refreshed, then the grid adjustment *)
Definition kwnStore (dt minR : t) (p : pin) : list t * list t :=
  adjusted (p_adjust p) (p_bounds p)
           (processX O (p_rdfi' p) minR (mids O (p_bounds p)) (truncate O (newX dt minR p))).

(* ---- nucleation terms of one phase (KWNBase._calcNucleationRate) --------------------------------- *)
(* the classical-nucleation formulas (C14) are oracle values; what is modelled is which recorded terms are
   overwritten and which keep the value of the previous calculation *)
Record nslice := mkN { n_dG : t; n_beta : t; n_Gcrit : t; n_Rcrit : t; n_rate : t; n_Rnuc : t }.
Record noracle := mkNO {
  o_df : option t;         (* volumetric driving force; None: getDrivingForce returned no result *)
  o_Rprop : t;             (* 2 f gamma / dG  resp. nucleation.Rcrit(dG) *)
  o_Gcrit : t; o_beta : t;
  o_rate : t;              (* Z beta exp(-Gcrit/kT) incubation * number of sites *)
  o_radd : t               (* 1/2 sqrt(kT / pi gamma) *)
}.
(* [repaired]: kawin commit "fix: keep the last valid nucleation terms when the driving force calculation returns no result";
   [zeroed]: kawin commit "fix: no nucleation rate is recorded or used for a phase without driving force or impingement"
   (before it both early exits left the terms of the PREVIOUS calculation in the slice) *)
Definition nucStep (repaired zeroed : bool) (Rmin minDens dtprev : t) (prev : nslice) (o : noracle) : res nslice :=
  match o_df o with
  | None => if repaired then Ok prev else Err ErrType          (* None / Vm *)
  | Some dG =>
      if ltb O dG (zero O) then
        Ok (if zeroed then mkN dG (zero O) (zero O) (zero O) (zero O) (zero O)
            else mkN dG (n_beta prev) (n_Gcrit prev) (n_Rcrit prev) (n_rate prev) (n_Rnuc prev))
      else
        (* nucleationBarrier: Rcrit = max(proposal, Rmin) where dG > 0, else 0 *)
        let Rc := if ltb O (zero O) dG then maxT O (o_Rprop o) Rmin else zero O in
        let Gc := if ltb O (zero O) dG then o_Gcrit o else zero O in
        if eqb O (o_beta o) (zero O) then
          Ok (if zeroed then mkN dG (zero O) Gc Rc (zero O) (zero O)
              else mkN dG (n_beta prev) (n_Gcrit prev) (n_Rcrit prev) (n_rate prev) (n_Rnuc prev))
        else
          let Rn := if leb O minDens (mul O (o_rate o) dtprev) && leb O Rmin Rc then add O Rc (o_radd o) else zero O in
          Ok (mkN dG (o_beta o) Gc Rc (o_rate o) Rn)
  end.

(* ---- growth of one phase, multicomponent (KWNEuler._singleGrowthMulti) ---------------------------- *)
Record growth_result := mkGR { gr_growth : list t; gr_xa : list (list t); gr_xb : list (list t); gr_eqa : list t; gr_eqb : list t }.
Record growth_out := mkGO { go_rate : list t; go_eqa : list t; go_eqb : list t;
                            go_tab : option (list (list t) * list (list t)) }.     (* None: PSDXalpha/PSDXbeta untouched *)
Definition zeroTab (nb ne : nat) : list (list t) := repeat (zerosN ne) nb.

(* nb = bins + 1, ne = number of solutes, kin = shapeFactor.kineticFactor(PSDbounds),
   prevGrowth = self.growth[p] ([None]: the attribute does not exist yet, i.e. the call made by setup() on the
   pinned tree), yEqA/yEqB = Y.xEqAlpha[0,p], Y.xEqBeta[0,p] (values of the previous calculation) *)
Definition singleGrowthMulti (repaired : bool) (dG dens : t) (nb ne : nat) (kin : list t)
           (prevGrowth : option (list t)) (yEqA yEqB : list t) (backend : option growth_result) : res growth_out :=
  if ltb O dG (zero O) && leb O dens (zero O)
  then Ok (mkGO (zerosN nb) (zerosN ne) (zerosN ne) None)
  else match backend with
       | None =>
           if ltb O dG (zero O)
           then Ok (mkGO (zerosN nb) (zerosN ne) (zerosN ne) (Some (zeroTab nb ne, zeroTab nb ne)))
           else match prevGrowth with
                | None => Err ErrAttribute
                | Some g => if repaired then Ok (mkGO g yEqA yEqB None) else Err ErrUnboundLocal
                end
       | Some r => Ok (mkGO (zipWith (mul O) kin (gr_growth r)) (gr_eqa r) (gr_eqb r) (Some (gr_xa r, gr_xb r)))
       end.
(* setup(): the repaired tree starts from self.growth = zeros *)
Definition setupPrevGrowth (repaired : bool) (nb : nat) : option (list t) :=
  if repaired then Some (zerosN nb) else None.

(* ---- binary lookup table (KWNEuler._createLookupBinary, one phase) -------------------------------- *)
Definition sentinel : t := negT O (one O).
Definition isValid (x : t) : bool := negb (eqb O x sentinel).
(* np.amax([np.argmax(xa != -1) - 1, 0]); repaired: bins when no entry is valid *)
Definition rdfiOf (repaired : bool) (xa : list t) : nat :=
  let valid := map isValid xa in
  if repaired && negb (existsb (fun b => b) valid) then length xa - 1
  else Nat.max (argmax_first valid - 1) 0.

(* KWNEuler._fillUnknownInterfacialComposition(p, start) (repaired tree only):
     for i in range(max(start, 1), len(PSDXalpha)): if PSDXalpha[i] == -1: PSDXalpha[i], PSDXbeta[i] = PSDXalpha[i-1], PSDXbeta[i-1]
   [fillFrom pa pb xa xb] walks the entries from index max(start,1) on, (pa, pb) being the (already filled) entry below *)
Fixpoint fillFrom (pa pb : t) (xa xb : list t) : list t * list t :=
  match xa, xb with
  | a :: ra, b :: rb =>
      let a' := if isValid a then a else pa in
      let b' := if isValid a then b else pb in
      let r := fillFrom a' b' ra rb in
      (a' :: fst r, b' :: snd r)
  | _, _ => ([], [])
  end.
Definition fillUnknown (start : nat) (xa xb : list t) : list t * list t :=
  let s := Nat.max start 1 in
  let r := fillFrom (nthT O xa (s - 1)) (nthT O xb (s - 1)) (skipn s xa) (skipn s xb) in
  (firstn s xa ++ fst r, firstn s xb ++ snd r).

(* the table part of _createLookupBinary for one phase: (RdrivingForceIndex, PSDXalpha, PSDXbeta) *)
Definition lookupTable (repaired : bool) (xa xb : list t) : nat * (list t * list t) :=
  let r := rdfiOf repaired xa in
  let valid := map isValid xa in
  let f := if repaired && existsb (fun b => b) valid then fillUnknown (S (argmax_first valid)) xa xb else (xa, xb) in
  if S r <? length xa
  then (r, (repeat (nthT O (fst f) (S r)) (S r) ++ skipn (S r) (fst f), repeat (nthT O (snd f) (S r)) (S r) ++ skipn (S r) (snd f)))
  else (r, (zerosN (length xa), zerosN (length xa))).
(* size classes added to the grid (adjustSizeClassesEuler): the tables are extended by what the backend returns for the
   new boundaries, unknown entries are filled from below *)
Definition extendTable (repaired : bool) (ta tb na nb : list t) : list t * list t :=
  if repaired then fillUnknown (length ta) (ta ++ na) (tb ++ nb) else (ta ++ na, tb ++ nb).

(* ---- binary growth rate (KWNEuler._singleGrowthBinary) ------------------------------------------- *)
Section Growth.
Variable eff : t -> t.          (* matrixParameters.effectiveDiffusion (np.interp table, or the constant 1) *)

Fixpoint zip4 {A B C D E} (f : A -> B -> C -> D -> E) (a : list A) (b : list B) (c : list C) (d : list D) : list E :=
  match a, b, c, d with
  | x :: a', y :: b', z :: c', w :: d' => f x y z w :: zip4 f a' b' c' d'
  | _, _, _, _ => []
  end.

(* per size-class boundary: the two denominators and the growth rate.
   x = matrix composition, ratio = Vm_alpha / Vm_beta, D = interdiffusivity, epsMin = effDiffInterp[-2] *)
Definition xDiffOf (ratio a b : t) : t := sub O (mul O ratio b) a.
Definition validClass (repaired : bool) (ratio a b : t) : bool :=
  if repaired then negb (eqb O (xDiffOf ratio a b) (zero O)) else true.
Definition superSat (repaired : bool) (x ratio a b : t) : t :=
  if validClass repaired ratio a b then dvd O (sub O x a) (xDiffOf ratio a b) else zero O.
Definition effDist (repaired : bool) (epsMin s : t) : t :=
  if repaired then maxT O (eff s) epsMin else eff s.
Definition growthClass (repaired : bool) (x ratio D epsMin : t) (k R a b : t) : t :=
  let s := superSat repaired x ratio a b in
  dvd O (mul O (mul O k D) s) (mul O (effDist repaired epsMin s) R).
(* the denominators actually used by a class: (supersaturation, growth rate); a masked class divides by nothing: 1 *)
Definition growthDenoms (repaired : bool) (x ratio epsMin : t) (R a b : t) : t * t :=
  let s := superSat repaired x ratio a b in
  (if validClass repaired ratio a b then xDiffOf ratio a b else one O, mul O (effDist repaired epsMin s) R).

Definition growthBinary (repaired : bool) (rdfi : nat) (x ratio D epsMin : t) (kin bounds xa xb : list t) : list t :=
  if S rdfi <? length xa
  then zip4 (growthClass repaired x ratio D epsMin) kin bounds xa xb
  else zerosN (length bounds).
End Growth.

(* ---- step size (KWNEuler.getDt): minimum over the constraint-derived steps ------------------------- *)
(* dtAll = [dtMax, PSD, nucleation rate, temperature, Rcrit, volume]; dt = np.amin(dtAll);
   if dt == dtMax: dt = dtPropose *)
Definition getDt (dtMax dtPropose : t) (cands : list t) : t :=
  let dt := amin O dtMax cands in
  if eqb O dt dtMax then dtPropose else dt.
(* Constraints.computeDTfromTemperature *)
Definition dtFromTemperature (check : bool) (n : nat) (Tcur Tprev maxNonIso dtPrev dtMax : t) : t :=
  if check && (0 <? n) then
    let dT := sub O Tcur Tprev in
    if ltb O maxNonIso dT then dvd O (mul O maxNonIso dtPrev) dT else dtMax
  else dtMax.

End Num.

Arguments zip4 {A B C D E} f a b c d.
Arguments Keep {O}.
Arguments Extend {O} k bounds'.
Arguments Remesh {O} bounds' psd'.
