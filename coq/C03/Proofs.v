(* C03 - lemmas about the real-number instance of the run model. *)
From Coq Require Import String.
From Coq Require Import Reals List Bool ZArith Arith Lia Lra Psatz Sorted.
Require Import Kawin.Common.Ops Kawin.Common.Vec Kawin.Common.VecLemmas
               Kawin.C07.Model Kawin.C07.Proofs Kawin.C01.Model Kawin.C01.Proofs
               Kawin.C02.Model Kawin.C02.Proofs Kawin.C03.Model.
Require Kawin.C05.Model Kawin.C05.Proofs.
Import ListNotations.
Open Scope R_scope.

Tactic Notation "lia" := (cbn [T Rops] in *; Lia.lia).
Tactic Notation "lra" := (cbn [T Rops] in *; Lra.lra).
Tactic Notation "nra" := (cbn [T Rops] in *; Lra.nra).

Notation nthR l k := (nth k l 0).

(* ================================================================================================ *)
(* clock *)
Lemma sorted_app_last (h ts : list R) : h <> [] ->
  StronglySorted Rlt h -> StronglySorted Rlt (last h 0 :: ts) -> StronglySorted Rlt (h ++ ts).
Proof.
  induction h as [|a h IH]; intros Hne Hh Hts; [contradiction|].
  destruct h as [|b h].
  - simpl in *. exact Hts.
  - inversion Hh as [|? ? Hh' Ha]; subst.
    change (last (a :: b :: h) 0) with (last (b :: h) 0) in Hts.
    specialize (IH ltac:(discriminate) Hh' Hts).
    change ((a :: b :: h) ++ ts) with (a :: ((b :: h) ++ ts)). constructor; [exact IH|].
    apply Forall_app. split; [exact Ha|].
    (* a < last (b::h) <  every later time *)
    assert (Hal : a < last (b :: h) 0).
    { rewrite Forall_forall in Ha. apply Ha. clear. revert b. induction h as [|c h IH]; intros b; [left; reflexivity|].
      change (last (b :: c :: h) 0) with (last (c :: h) 0). right. apply IH. }
    set (L := last (b :: h) 0) in *.
    inversion Hts as [|? ? _ Hl]; subst. eapply Forall_impl; [|exact Hl]. intros x Hx. cbv beta in Hx. lra.
Qed.

Lemma last_app_ne {A} (h ts : list A) d : ts <> [] -> last (h ++ ts) d = last ts d.
Proof.
  intros Hne. induction h as [|a h IH]; [reflexivity|]. simpl.
  destruct (h ++ ts) eqn:E; [|exact IH]. destruct h; destruct ts; simpl in *; try discriminate; contradiction.
Qed.

(* one solve call on a recorded history *)
Lemma kwnSolve_contract snap propose stop hist simTime fmin fmax :
  hist <> [] -> StronglySorted Rlt hist -> 0 < simTime -> 0 < fmin <= fmax ->
  let fuel := (2 + Z.to_nat (up (/ fmin)))%nat in
  let h' := kwnSolve Rops snap propose stop fuel hist simTime fmin fmax in
  exists ts, h' = hist ++ ts /\ ts <> [] /\ StronglySorted Rlt h' /\
    Forall (fun t => t <= last hist 0 + simTime) ts /\
    match Kawin.C05.Model.first_true stop (length ts) with
    | Some j => length ts = S j
    | None => last h' 0 = last hist 0 + simTime
    end.
Proof.
  intros Hne Hs Hsim Hf fuel h'. subst h'. unfold kwnSolve. Rnorm.
  destruct (Kawin.C05.Proofs.solve_contract_R snap propose stop (last hist 0) simTime fmin fmax Hsim Hf)
    as (l & E & Hsorted & Hle & _ & Hend).
  fold fuel in E. rewrite E. unfold Kawin.C05.Model.times. cbn [Kawin.C05.Model.pairs].
  set (ts := map fst l) in *.
  assert (Hts : ts <> []).
  { intros E0. rewrite E0 in Hend. simpl in Hend. lra. }
  exists ts. split; [reflexivity|]. split; [exact Hts|]. split; [apply sorted_app_last; assumption|].
  split; [exact Hle|]. cbn [T Rops] in *.
  destruct (Kawin.C05.Model.first_true stop (length ts)); [exact Hend|].
  rewrite last_app_ne by exact Hts.
  rewrite <- Hend. destruct ts; [contradiction|]. clear. revert r. induction ts as [|a ts IH]; intros r; [reflexivity|].
  change (last (r :: a :: ts) 0) with (last (a :: ts) 0). change (last (r :: a :: ts) (last hist 0)) with (last (a :: ts) (last hist 0)).
  apply IH.
Qed.

(* a run split over any number of solve calls (segments): every call has its own duration, step bounds,
   step-size proposals and stop flags *)
Record segment := mkSeg { g_sim : R; g_fmin : R; g_fmax : R; g_propose : nat -> R; g_stop : nat -> bool }.
Definition runSegment (snap : bool) (hist : list R) (s : segment) : list R :=
  kwnSolve Rops snap (g_propose s) (g_stop s) (2 + Z.to_nat (up (/ g_fmin s)))%nat hist (g_sim s) (g_fmin s) (g_fmax s).
Definition runSegments (snap : bool) (hist : list R) (segs : list segment) : list R :=
  fold_left (runSegment snap) segs hist.
Definition goodSeg (s : segment) : Prop := 0 < g_sim s /\ 0 < g_fmin s <= g_fmax s.
Definition neverStops (s : segment) : Prop := forall k, g_stop s k = false.

Lemma first_true_never stop n : (forall k, stop k = false) -> Kawin.C05.Model.first_true stop n = None.
Proof.
  intros H. unfold Kawin.C05.Model.first_true. generalize 0%nat. induction n as [|n IH]; intros k; simpl; [reflexivity|].
  rewrite H. apply IH.
Qed.

Lemma runSegments_contract snap hist segs :
  hist <> [] -> StronglySorted Rlt hist -> Forall goodSeg segs ->
  let h' := runSegments snap hist segs in
  h' <> [] /\ StronglySorted Rlt h' /\ (length hist <= length h')%nat /\
  (Forall neverStops segs -> last h' 0 = last hist 0 + sumR (map g_sim segs)).
Proof.
  intros Hne Hs Hg. revert hist Hne Hs. induction Hg as [|s segs Hs1 Hg IH]; intros hist Hne Hs; simpl.
  - split; [exact Hne|]. split; [exact Hs|]. split; [lia|]. intros _. simpl. Rnorm. lra.
  - destruct Hs1 as [Hsim Hf].
    destruct (kwnSolve_contract snap (g_propose s) (g_stop s) hist (g_sim s) (g_fmin s) (g_fmax s) Hne Hs Hsim Hf)
      as (ts & E & Hts & Hsorted & _ & Hend).
    fold (runSegment snap hist s) in E, Hsorted, Hend.
    assert (Hne' : runSegment snap hist s <> []) by (rewrite E; destruct hist; [contradiction|discriminate]).
    destruct (IH (runSegment snap hist s) Hne' Hsorted) as (A & B & C & D).
    unfold runSegments in *. simpl. split; [exact A|]. split; [exact B|]. split.
    + assert (HL : (length hist <= length (runSegment snap hist s))%nat) by (rewrite E, app_length; lia). lia.
    + intros Hn. inversion Hn as [|? ? Hn1 Hn2]; subst. rewrite (D Hn2).
      rewrite first_true_never in Hend by exact Hn1. simpl. Rnorm. lra.
Qed.

(* ================================================================================================ *)
(* the distribution *)
Lemma updateX_is_eulerStep dt bounds psd g nucRate Rnuc :
  updateX Rops dt bounds psd (netFlux Rops bounds psd g) nucRate Rnuc = eulerStep Rops dt bounds psd g nucRate Rnuc.
Proof. reflexivity. Qed.

Lemma updateX_length dt bounds psd nf nucRate Rnuc : length nf = S (length psd) ->
  length (updateX Rops dt bounds psd nf nucRate Rnuc) = length psd.
Proof.
  intros H. unfold updateX. rewrite zipWith_length, dXdt_of_length, correctFlux_length by exact H. lia.
Qed.

(* whatever fluxes the last derivative evaluation left (any iterator, any growth field, any stage state):
   no class is negative after the update *)
Lemma updateX_nonneg dt bounds psd nf nucRate Rnuc :
  (1 <= length psd)%nat -> length nf = S (length psd) -> length bounds = S (length psd) ->
  nonneg psd -> 0 < dt -> 0 <= nucRate ->
  nonneg (updateX Rops dt bounds psd nf nucRate Rnuc).
Proof.
  intros Hn Hnf Hb Hp Hdt Hnuc k. unfold updateX.
  pose proof (correctFlux_length dt nf psd Hnf) as HL.
  destruct (Nat.lt_ge_cases k (length psd)) as [Hk|Hk].
  - rewrite (nth_zipWith _ _ _ _ _ 0 0) by (rewrite ?dXdt_of_length, ?HL; lia). Rnorm.
    rewrite dXdt_of_nth by lia.
    pose proof (class_outflow_bound dt nf psd k Hnf Hdt Hp Hk) as Hc.
    destruct (Nat.eqb k _); nra.
  - rewrite nth_overflow; [lra|]. rewrite zipWith_length, dXdt_of_length, HL. lia.
Qed.

Lemma mask_nonneg x sz minR : nonneg x ->
  nonneg (zipWith (fun v r => if ltb Rops r minR then zero Rops else v) x sz).
Proof.
  revert sz; induction x as [|v r IH]; intros sz Hx k; [destruct k; simpl; lra|].
  destruct sz as [|s sz]; [destruct k; simpl; lra|].
  assert (Hr : nonneg r) by (intros j; exact (Hx (S j))).
  destruct k as [|k]; simpl.
  - pose proof (Hx 0%nat) as H0. simpl in H0. Rnorm. destruct (Rltb s minR); lra.
  - apply IH. exact Hr.
Qed.

Lemma processX_nonneg rdfi minR sz x : nonneg x -> nonneg (processX Rops rdfi minR sz x).
Proof.
  intros Hx. unfold processX. apply mask_nonneg. apply (zeroPrefix_le (S rdfi) x Hx).
Qed.

Lemma zeroPrefix_length k (x : list R) : length (zeroPrefix Rops k x) = length x.
Proof. revert x; induction k as [|k IH]; intros [|v r]; simpl; auto. Qed.

Lemma processX_length rdfi minR sz x : length sz = length x -> length (processX Rops rdfi minR sz x) = length x.
Proof. intros H. unfold processX. rewrite zipWith_length, zeroPrefix_length. lia. Qed.

(* every entry of a zeroed / masked list is 0 or the original entry *)
Lemma zeroPrefix_entry k (x : list R) j : nthR (zeroPrefix Rops k x) j = 0 \/ nthR (zeroPrefix Rops k x) j = nthR x j.
Proof.
  revert x j; induction k as [|k IH]; intros x j; [right; destruct x; reflexivity|].
  destruct x as [|v r]; [right; reflexivity|]. destruct j as [|j]; simpl; [left; reflexivity|apply IH].
Qed.
Lemma mask_entry (x sz : list R) minR j :
  nthR (zipWith (fun v r => if ltb Rops r minR then zero Rops else v) x sz) j = 0 \/
  nthR (zipWith (fun v r => if ltb Rops r minR then zero Rops else v) x sz) j = nthR x j.
Proof.
  revert sz j; induction x as [|v r IH]; intros sz j; [left; destruct j; reflexivity|].
  destruct sz as [|s sz]; [left; destruct j; reflexivity|].
  destruct j as [|j]; simpl; [|apply IH]. Rnorm. destruct (Rltb s minR); auto.
Qed.
Lemma processX_entry rdfi minR sz x j :
  nthR (processX Rops rdfi minR sz x) j = 0 \/ nthR (processX Rops rdfi minR sz x) j = nthR x j.
Proof.
  unfold processX. destruct (mask_entry (zeroPrefix Rops (S rdfi) x) sz minR j) as [H|H]; [left; exact H|].
  rewrite H. apply zeroPrefix_entry.
Qed.

(* ---- the well-formedness of what a phase contributes to a step ----------------------------------- *)
Definition pin_wf (p : pin Rops) : Prop :=
  (1 <= length (p_psd Rops p))%nat /\
  length (p_bounds Rops p) = S (length (p_psd Rops p)) /\
  length (p_nf Rops p) = S (length (p_psd Rops p)) /\
  Forall (fun b => 0 <= b) (p_bounds Rops p) /\
  nonneg (p_psd Rops p) /\ 0 <= p_nucRate Rops p /\
  0 <= p_volRatio Rops p * p_volFactor Rops p.

Lemma startX_length minR p : pin_wf p -> length (startX Rops minR p) = length (p_psd Rops p).
Proof.
  intros (Hn & Hb & _). unfold startX. rewrite processX_length; [reflexivity|]. rewrite mids_length. lia.
Qed.
Lemma startX_nonneg minR p : pin_wf p -> nonneg (startX Rops minR p).
Proof. intros (_ & _ & _ & _ & Hp & _). unfold startX. apply processX_nonneg. exact Hp. Qed.

Lemma newX_length dt minR p : pin_wf p -> length (newX Rops dt minR p) = length (p_psd Rops p).
Proof.
  intros Hwf. pose proof (startX_length minR p Hwf) as HS. destruct Hwf as (Hn & Hb & Hnf & _).
  unfold newX. rewrite processX_length; rewrite ?updateX_length by lia; [lia|]. rewrite mids_length. lia.
Qed.

Lemma newX_nonneg dt minR p : pin_wf p -> 0 < dt -> nonneg (newX Rops dt minR p).
Proof.
  intros Hwf Hdt. pose proof (startX_length minR p Hwf) as HS. pose proof (startX_nonneg minR p Hwf) as HN.
  destruct Hwf as (Hn & Hb & Hnf & _ & Hp & Hnuc & _). unfold newX. apply processX_nonneg.
  apply updateX_nonneg; auto; lia.
Qed.

(* the full Euler step of one phase - zero the handed state below the thresholds, flux step from the zeroed state, zero again -
   raises the number density by at most the nucleation rate times the step, counted from the STORED distribution *)
Lemma full_step_density_bound dt minR p g : pin_wf p -> incr (p_bounds Rops p) -> 0 < dt ->
  length g = S (length (p_psd Rops p)) ->
  p_nf Rops p = netFlux Rops (p_bounds Rops p) (startX Rops minR p) g ->
  sumR (newX Rops dt minR p) <= sumR (p_psd Rops p) + dt * p_nucRate Rops p.
Proof.
  intros Hwf Hi Hdt Hg Hnf. pose proof (startX_length minR p Hwf) as HS. pose proof (startX_nonneg minR p Hwf) as HN.
  assert (HL : sumR (startX Rops minR p) <= sumR (p_psd Rops p)).
  { destruct Hwf as (_ & _ & _ & _ & Hp & _). unfold startX. apply processX_le. exact Hp. }
  destruct Hwf as (Hn & Hb & _ & _ & Hp & Hnuc & _).
  unfold newX. rewrite Hnf. rewrite updateX_is_eulerStep.
  pose proof (recorded_density_bound_all dt (p_bounds Rops p) (startX Rops minR p) g (p_nucRate Rops p) (p_Rnuc Rops p)
                (p_rdfi Rops p) minR (mids Rops (p_bounds Rops p))) as B.
  assert (W : wf (p_bounds Rops p) (startX Rops minR p) g) by (unfold wf; lia).
  specialize (B W Hi HN Hdt Hnuc). lra.
Qed.

(* the zeroing of the start state never adds particles and changes nothing where the stored distribution is already empty *)
Lemma startX_le minR p : pin_wf p -> sumR (startX Rops minR p) <= sumR (p_psd Rops p).
Proof. intros (_ & _ & _ & _ & Hp & _). unfold startX. apply processX_le. exact Hp. Qed.

Lemma mids_nonneg (l : list R) : Forall (fun b => 0 <= b) l -> Forall (fun b => 0 <= b) (mids Rops l).
Proof.
  induction l as [|a l IH]; intros H; [constructor|]. inversion H as [|? ? Ha Hl]; subst.
  destruct l as [|b l]; [constructor|]. inversion Hl as [|? ? Hb _]; subst.
  change (mids Rops (a :: b :: l)) with (mul Rops (half Rops) (add Rops a b) :: mids Rops (b :: l)).
  constructor; [|apply IH; exact Hl]. unfold half. Rnorm. lra.
Qed.

Lemma powT_nonneg (r : R) n : 0 <= r -> 0 <= powT Rops r n.
Proof. intros Hr. induction n as [|n IH]; simpl; Rnorm; [lra|nra]. Qed.

Lemma moment_nonneg (sz N : list R) n : Forall (fun r => 0 <= r) sz -> nonneg N -> 0 <= momentFromN Rops sz N n.
Proof.
  intros Hs. revert N. unfold momentFromN. induction Hs as [|r sz Hr Hs IH]; intros N HN.
  - destruct N; simpl; lra.
  - destruct N as [|v N]; simpl; [lra|]. Rnorm.
    assert (HN' : nonneg N) by (intros j; exact (HN (S j))). specialize (IH N HN').
    pose proof (HN 0%nat) as H0. simpl in H0. pose proof (powT_nonneg r n Hr). nra.
Qed.

(* recorded statistics of one phase: density and mean radius non-negative, fraction within [0,1] *)
Lemma record_phase_bounds dt minR minDens p : pin_wf p -> 0 < dt -> 0 < minDens ->
  let o := phaseBalance Rops minDens (phaseIn Rops dt minR p) in
  0 <= dens Rops o /\ 0 <= ravg Rops o /\ 0 <= fv Rops o <= 1.
Proof.
  intros Hwf Hdt Hmd o. pose proof (newX_nonneg dt minR p Hwf Hdt) as Hx.
  destruct Hwf as (Hn & Hb & Hnf & Hbp & Hp & Hnuc & Hk).
  pose proof (mids_nonneg _ Hbp) as Hsz.
  set (ph := phaseIn Rops dt minR p) in *.
  assert (H0 : 0 <= Kawin.C01.Proofs.M0 ph) by (apply moment_nonneg; assumption).
  assert (H1 : 0 <= Kawin.C01.Proofs.M1 ph) by (apply moment_nonneg; assumption).
  assert (H3 : 0 <= Kawin.C01.Proofs.M3 ph) by (apply moment_nonneg; assumption).
  split; [|split].
  - subst o. unfold phaseBalance. fold (Kawin.C01.Proofs.M0 ph). destruct (ltb Rops _ _); cbn [dens]; exact H0.
  - subst o. unfold phaseBalance. fold (Kawin.C01.Proofs.M0 ph). Rnorm.
    destruct (Rltb (Kawin.C01.Proofs.M0 ph) minDens) eqn:E; cbn [ravg]; Rbool; [lra|].
    fold (Kawin.C01.Proofs.M1 ph). unfold Rdiv.
    apply Rmult_le_pos; [exact H1|]. left. apply Rinv_0_lt_compat. lra.
  - apply fv_bounds. unfold precVol, kfac. subst ph. cbn [phaseIn volRatio volFactor]. nra.
Qed.

(* the recorded matrix composition is never negative *)
Lemma matrixComp_nonneg minComp x0 prev outs e : 0 <= minComp -> Forall (fun c => 0 <= c) prev ->
  0 <= nthR (matrixComp Rops minComp x0 prev outs) e.
Proof.
  intros Hm Hp. unfold matrixComp. Rnorm. destruct (Rltb (sumFv Rops outs) 1).
  - destruct (Nat.lt_ge_cases e (length x0)) as [He|He].
    + rewrite nth_map_seq by exact He.
      match goal with |- 0 <= (if Rltb ?c 0 then _ else _) => destruct (Rltb c 0) eqn:E; Rbool; lra end.
    + rewrite nth_overflow; [lra|]. rewrite map_length, seq_length. lia.
  - apply (nonneg_Forall prev Hp).
Qed.

Lemma matrixComp_length minComp x0 prev outs : length prev = length x0 ->
  length (matrixComp Rops minComp x0 prev outs) = length x0.
Proof. intros H. unfold matrixComp. destruct (ltb Rops _ _); [rewrite map_length, seq_length; reflexivity|exact H]. Qed.

(* ---- the distribution stored for the next step ----------------------------------------------------- *)
Lemma zerosN_length n : length (zerosN Rops n) = n.
Proof. unfold zerosN. apply repeat_length. Qed.

Lemma truncate_length (x : list R) : length (truncate Rops x) = length x.
Proof. unfold truncate. apply map_length. Qed.

Definition unitOrEmpty (l : list R) : Prop := forall k, nthR l k = 0 \/ 1 <= nthR l k.

Lemma unitOrEmpty_app a b : unitOrEmpty a -> unitOrEmpty b -> unitOrEmpty (a ++ b).
Proof.
  intros Ha Hb k. destruct (Nat.lt_ge_cases k (length a)).
  - rewrite app_nth1 by assumption. apply Ha.
  - rewrite app_nth2 by assumption. apply Hb.
Qed.
Lemma unitOrEmpty_zeros n : unitOrEmpty (zerosN Rops n).
Proof.
  intros k. left. unfold zerosN. destruct (Nat.lt_ge_cases k n).
  - rewrite nth_repeat. reflexivity.
  - rewrite nth_overflow; [reflexivity|rewrite repeat_length; exact H].
Qed.
Lemma unitOrEmpty_processX rdfi minR sz x : unitOrEmpty x -> unitOrEmpty (processX Rops rdfi minR sz x).
Proof.
  intros Hx k. pose proof (processX_entry rdfi minR sz x k) as H. pose proof (Hx k) as Hk. cbn [T Rops] in *.
  destruct H as [H|H]; [left; exact H|rewrite H; exact Hk].
Qed.
Lemma unitOrEmpty_nonneg l : unitOrEmpty l -> nonneg l.
Proof. intros H k. destruct (H k); lra. Qed.

(* without re-meshing every stored class is empty or holds at least one particle; after a re-mesh the stored
   distribution is non-negative when the re-meshed one is (C08) *)
Lemma stored_classes dt minR p :
  match p_adjust Rops p with
  | Remesh _ psd' => nonneg psd' -> nonneg (snd (kwnStore Rops dt minR p))
  | _ => unitOrEmpty (snd (kwnStore Rops dt minR p))
  end.
Proof.
  unfold kwnStore. destruct (p_adjust Rops p) as [|k b'|b' p'] eqn:E; cbn [adjusted fst snd].
  - apply unitOrEmpty_processX. intros k. apply truncate_values.
  - apply unitOrEmpty_app; [|apply unitOrEmpty_zeros]. apply unitOrEmpty_processX. intros j. apply truncate_values.
  - intros Hp. exact Hp.
Qed.

Lemma stored_shape dt minR p : pin_wf p ->
  match p_adjust Rops p with
  | Keep => length (snd (kwnStore Rops dt minR p)) = length (p_psd Rops p)
  | Extend k b' => length b' = S (length (p_psd Rops p) + k) ->
                   length (snd (kwnStore Rops dt minR p)) = (length (p_psd Rops p) + k)%nat
  | Remesh b' p' => length b' = S (length p') -> length (snd (kwnStore Rops dt minR p)) = length p'
  end.
Proof.
  intros Hwf. pose proof (newX_length dt minR p Hwf) as HX. destruct Hwf as (Hn & Hb & Hnf & _). unfold kwnStore.
  pose proof (truncate_length (newX Rops dt minR p)) as HT.
  assert (HP : length (processX Rops (p_rdfi' Rops p) minR (mids Rops (p_bounds Rops p)) (truncate Rops (newX Rops dt minR p))) = length (p_psd Rops p)).
  { rewrite processX_length; [lia|]. rewrite mids_length. lia. }
  destruct (p_adjust Rops p) as [|k b'|b' p']; cbn [adjusted fst snd].
  - exact HP.
  - intros Hb'. pose proof (zerosN_length k) as HZ. rewrite app_length. lia.
  - intros Hb'. reflexivity.
Qed.

(* ---- composition never above the alloy composition when the precipitates are richer in the solute ---- *)
Lemma weighted_ge (sz N w : list R) c n : Forall (fun r => 0 <= r) sz -> nonneg N ->
  length w = length sz -> Forall (fun x => c <= x) w -> (length N <= length sz)%nat ->
  c * momentFromN Rops sz N n <= weightedMoment Rops sz N w n.
Proof.
  intros Hs. revert N w. unfold momentFromN, weightedMoment.
  induction Hs as [|r sz Hr Hs IH]; intros N w HN Hl Hw HNl.
  - destruct N; simpl in *; [lra|lia].
  - destruct N as [|v N]; [simpl; lra|]. destruct w as [|u w]; [simpl in Hl; lia|].
    inversion Hw as [|? ? Hu Hw']; subst. simpl. Rnorm.
    assert (HN' : nonneg N) by (intros j; exact (HN (S j))).
    specialize (IH N w HN' ltac:(simpl in Hl; lia) Hw' ltac:(simpl in HNl; lia)).
    pose proof (HN 0%nat) as H0. simpl in H0. pose proof (powT_nonneg r n Hr) as Hpw.
    assert (0 <= v * powT Rops r n) by nra. nra.
Qed.

Lemma compAvg_ge (tab : list (list R)) e c : Forall (fun row => c <= nthR row e) tab ->
  Forall (fun x => c <= x) (compAvg Rops tab e).
Proof.
  unfold compAvg, column. intros H.
  assert (Hc : Forall (fun x => c <= x) (map (fun row => nthT Rops row e) tab)).
  { induction H; simpl; constructor; auto. }
  clear H. revert Hc. generalize (map (fun row => nthT Rops row e) tab). intros l.
  induction l as [|a l IH]; intros H; [constructor|]. inversion H as [|? ? Ha Hl]; subst.
  destruct l as [|b l]; [constructor|]. inversion Hl as [|? ? Hb _]; subst.
  change (mids Rops (a :: b :: l)) with (mul Rops (half Rops) (add Rops a b) :: mids Rops (b :: l)).
  constructor; [|apply IH; exact Hl]. unfold half. Rnorm. lra.
Qed.

(* a phase of the step whose tabulated precipitate compositions are all at least c in solute e *)
Definition richer (c : R) (e : nat) (p : pin Rops) : Prop :=
  p_infinite Rops p = true /\ p_prevFull Rops p = false /\
  length (p_xbeta Rops p) = length (p_bounds Rops p) /\
  (e < nElems Rops (phaseIn Rops 1%R 0%R p))%nat /\
  Forall (fun row => c <= nthR row e) (p_xbeta Rops p).

Lemma phase_solute_ge dt minR minDens c e p : pin_wf p -> 0 < dt -> 0 <= c -> richer c e p ->
  let o := phaseBalance Rops minDens (phaseIn Rops dt minR p) in
  c * fv Rops o <= nthR (fconc Rops o) e.
Proof.
  intros Hwf Hdt Hc (Hi & Hf & Hlen & He & Hrow) o.
  pose proof (newX_nonneg dt minR p Hwf Hdt) as Hx.
  destruct Hwf as (Hn & Hb & Hnf & Hbp & Hp & Hnuc & Hk).
  pose proof (mids_nonneg _ Hbp) as Hsz.
  subst o. unfold phaseBalance. set (ph := phaseIn Rops dt minR p).
  fold (Kawin.C01.Proofs.M0 ph). Rnorm.
  assert (Hne : nElems Rops ph = nElems Rops (phaseIn Rops 1 0 p)) by reflexivity.
  destruct (Rltb (Kawin.C01.Proofs.M0 ph) minDens); cbn [fv fconc].
  - rewrite nth_map_seq by (rewrite Hne; exact He). lra.
  - change (prevFull Rops ph) with (p_prevFull Rops p). change (infinite Rops ph) with (p_infinite Rops p).
    rewrite Hf, Hi. rewrite nth_map_seq by (rewrite Hne; exact He).
    set (k := mul Rops (volRatio Rops ph) (volFactor Rops ph)).
    assert (Hk0 : 0 <= k) by (subst k ph; cbn [phaseIn volRatio volFactor]; Rnorm; exact Hk).
    assert (H3 : 0 <= momentFromN Rops (size Rops ph) (Nx Rops ph) 3) by (apply moment_nonneg; assumption).
    assert (HXl : length (Nx Rops ph) = length (p_psd Rops p)).
    { subst ph. cbn [phaseIn Nx]. apply newX_length. repeat split; assumption. }
    pose proof (weighted_ge (size Rops ph) (Nx Rops ph) (compAvg Rops (xbeta Rops ph) e) c 3 Hsz Hx) as W.
    assert (Wl : length (compAvg Rops (xbeta Rops ph) e) = length (size Rops ph)).
    { unfold compAvg, column. rewrite mids_length, map_length. subst ph. cbn [phaseIn xbeta size]. rewrite mids_length. lia. }
    specialize (W Wl (compAvg_ge _ e c Hrow)).
    assert (WN : (length (Nx Rops ph) <= length (size Rops ph))%nat).
    { rewrite HXl. subst ph. cbn [phaseIn size]. rewrite mids_length. lia. }
    specialize (W WN).
    unfold minT. Rnorm. fold k.
    destruct (Rltb 1 (k * momentFromN Rops (size Rops ph) (Nx Rops ph) 3)) eqn:E1; Rbool; nra.
Qed.

Lemma sums_ge dt minR minDens c e (ps : list (pin Rops)) : 0 < dt -> 0 <= c ->
  Forall pin_wf ps -> Forall (richer c e) ps ->
  let outs := map (phaseBalance Rops minDens) (map (phaseIn Rops dt minR) ps) in
  c * sumFv Rops outs <= sumFconc Rops outs e.
Proof.
  intros Hdt Hc Hw Hr. induction ps as [|p ps IH]; simpl.
  - unfold sumFv, sumFconc. simpl. lra.
  - inversion Hw as [|? ? Hp Hw']; subst. inversion Hr as [|? ? Rp Hr']; subst.
    specialize (IH Hw' Hr'). cbv zeta in IH.
    pose proof (phase_solute_ge dt minR minDens c e p Hp Hdt Hc Rp) as H1. cbv zeta in H1.
    unfold sumFv, sumFconc, nthT in *. simpl. Rnorm. lra.
Qed.

(* if every precipitate phase is at least as rich in solute e as the alloy, the recorded matrix composition of e
   never exceeds the alloy composition (hence never exceeds 1) *)
Lemma composition_le_initial dt minR minDens minComp x0 prev (ps : list (pin Rops)) e :
  0 < dt -> (e < length x0)%nat -> 0 <= nthR x0 e ->
  Forall pin_wf ps -> Forall (richer (nthR x0 e) e) ps ->
  minComp <= nthR x0 e -> nthR prev e <= nthR x0 e ->
  nthR (snd (kwnRecord Rops dt minR minDens minComp x0 prev ps)) e <= nthR x0 e.
Proof.
  intros Hdt He Hx0 Hw Hr Hm Hp. unfold kwnRecord, massBalance. cbn [snd].
  pose proof (sums_ge dt minR minDens (nthR x0 e) e ps Hdt Hx0 Hw Hr) as S. cbv zeta in S.
  set (outs := map (phaseBalance Rops minDens) (map (phaseIn Rops dt minR) ps)) in *.
  unfold matrixComp. Rnorm. destruct (Rltb (sumFv Rops outs) 1) eqn:E; Rbool; [|exact Hp].
  rewrite nth_map_seq by exact He. unfold nthT. Rnorm.
  match goal with |- (if Rltb ?c 0 then _ else _) <= _ => destruct (Rltb c 0) eqn:E2; Rbool; [exact Hm|] end.
  apply (Rmult_le_reg_r (1 - sumFv Rops outs)); [lra|].
  unfold Rdiv. rewrite Rmult_assoc, Rinv_l by lra. nra.
Qed.

(* ================================================================================================ *)
(* nucleation terms under a failing driving-force calculation *)
Lemma nucStep_repaired zeroed Rmin minDens dtprev prev o :
  exists s', nucStep Rops true zeroed Rmin minDens dtprev prev o = Ok s' /\
    (o_df Rops o = None -> s' = prev) /\
    (0 <= Rmin -> 0 <= n_Rcrit Rops prev -> 0 <= n_Rcrit Rops s') /\
    (0 <= n_rate Rops prev -> 0 <= o_rate Rops o -> 0 <= n_rate Rops s').
Proof.
  unfold nucStep. destruct (o_df Rops o) as [dG|].
  - destruct (ltb Rops dG (zero Rops)) eqn:E1.
    + eexists; split; [reflexivity|]. destruct zeroed; cbn [n_Rcrit n_rate]; Rnorm; repeat split; auto; try discriminate; intros; lra.
    + destruct (eqb Rops (o_beta Rops o) (zero Rops)) eqn:E2.
      * eexists; split; [reflexivity|]. destruct zeroed; cbn [n_Rcrit n_rate]; Rnorm; (split; [discriminate|]); (split; [|intros; auto; lra]); auto.
        intros HR _. destruct (Rltb 0 dG); [|lra]. unfold maxT. Rnorm.
        destruct (Rltb (o_Rprop Rops o) Rmin) eqn:E3; Rbool; lra.
      * eexists; split; [reflexivity|]. cbn [n_Rcrit n_rate]. split; [discriminate|]. split; [|auto].
        intros HR _. Rnorm. destruct (Rltb 0 dG); [|lra]. unfold maxT. Rnorm.
        destruct (Rltb (o_Rprop Rops o) Rmin) eqn:E3; Rbool; lra.
  - eexists; split; [reflexivity|]. repeat split; auto.
Qed.

Lemma nucStep_unrepaired_refuted : exists zeroed Rmin minDens dtprev prev o,
  nucStep Rops false zeroed Rmin minDens dtprev prev o = Err ErrType.
Proof.
  exists true, 0, 0, 0, (mkN Rops 0 0 0 0 0 0), (mkNO Rops None 0 0 0 0 0). reflexivity.
Qed.

(* a driving force that WAS calculated and is negative, or a zero impingement rate: nothing nucleates - the recorded
   rate and radius are 0 whatever the previous step recorded; with a negative driving force there is no barrier either *)
Lemma nucStep_negative_zero rep Rmin minDens dtprev prev o dG : o_df Rops o = Some dG -> dG < 0 ->
  nucStep Rops rep true Rmin minDens dtprev prev o = Ok (mkN Rops dG 0 0 0 0 0).
Proof.
  intros Hd Hn. unfold nucStep. rewrite Hd. Rnorm.
  assert (E : Rltb dG 0 = true) by (apply Rltb_true; exact Hn). rewrite E. reflexivity.
Qed.

Lemma nucStep_no_impingement_zero rep Rmin minDens dtprev prev o dG : o_df Rops o = Some dG -> o_beta Rops o = 0 ->
  exists s', nucStep Rops rep true Rmin minDens dtprev prev o = Ok s' /\
             n_rate Rops s' = 0 /\ n_Rnuc Rops s' = 0 /\ n_beta Rops s' = 0.
Proof.
  intros Hd Hb. unfold nucStep. rewrite Hd, Hb. Rnorm.
  assert (E : Reqb 0 0 = true) by (apply Reqb_true; reflexivity). rewrite E.
  destruct (Rltb dG 0); eexists; (split; [reflexivity|]); cbn [n_rate n_Rnuc n_beta]; auto.
Qed.

(* before that repair the previous (positive) rate and radius stayed in force under a negative driving force *)
Lemma nucStep_stale_refuted : exists rep Rmin minDens dtprev prev o dG s',
  o_df Rops o = Some dG /\ dG < 0 /\ nucStep Rops rep false Rmin minDens dtprev prev o = Ok s' /\
  0 < n_rate Rops s' /\ 0 < n_Rnuc Rops s'.
Proof.
  exists true, 0, 0, 0, (mkN Rops 1 1 1 1 1 1), (mkNO Rops (Some (-1)) 0 0 0 0 0), (-1), (mkN Rops (-1) 1 1 1 1 1).
  split; [reflexivity|]. split; [lra|]. split.
  - unfold nucStep. cbn [o_df]. Rnorm. assert (E : Rltb (-1) 0 = true) by (apply Rltb_true; lra). rewrite E. reflexivity.
  - cbn [n_rate n_Rnuc]. split; lra.
Qed.

(* ---- growth under a failing growth calculation ------------------------------------------------------- *)
Lemma singleGrowthMulti_repaired dG dens nb ne kin g yA yB backend :
  length g = nb ->
  (forall r, backend = Some r -> length kin = nb /\ length (gr_growth Rops r) = nb) ->
  exists out, singleGrowthMulti Rops true dG dens nb ne kin (Some g) yA yB backend = Ok out /\
    length (go_rate Rops out) = nb /\
    (backend = None -> 0 <= dG ->
       go_rate Rops out = g /\ go_eqa Rops out = yA /\ go_eqb Rops out = yB /\ go_tab Rops out = None).
Proof.
  intros Hg Hb. unfold singleGrowthMulti. Rnorm.
  destruct (Rltb dG 0 && Rleb dens 0) eqn:E0.
  - eexists; split; [reflexivity|]. cbn [go_rate]. split; [apply zerosN_length|].
    intros _ HdG. apply andb_true_iff in E0. destruct E0 as [E0 _]. Rbool. lra.
  - destruct backend as [r|].
    + eexists; split; [reflexivity|]. cbn [go_rate]. destruct (Hb r eq_refl) as [Hk Hr]. split; [|discriminate].
      rewrite zipWith_length. lia.
    + destruct (Rltb dG 0) eqn:E1.
      * eexists; split; [reflexivity|]. cbn [go_rate]. split; [apply zerosN_length|]. intros _ HdG. Rbool. lra.
      * eexists; split; [reflexivity|]. cbn [go_rate go_eqa go_eqb go_tab]. split; [exact Hg|]. intros _ _. auto.
Qed.

Lemma singleGrowthMulti_unrepaired_refuted : exists dG dens nb ne kin g yA yB,
  singleGrowthMulti Rops false dG dens nb ne kin (Some g) yA yB None = Err ErrUnboundLocal /\
  singleGrowthMulti Rops false dG dens nb ne kin (setupPrevGrowth Rops false nb) yA yB None = Err ErrAttribute.
Proof.
  exists 0, 0, 1%nat, 1%nat, [1], [0], [0], [0]. unfold singleGrowthMulti, setupPrevGrowth. Rnorm.
  assert (E : Rltb 0 0 = false) by (apply Rltb_false; lra). rewrite E. simpl. split; reflexivity.
Qed.

(* the first growth calculation of the repaired setup() finds a previous growth rate of the right length *)
Lemma setupPrevGrowth_repaired nb : exists g, setupPrevGrowth Rops true nb = Some g /\ length g = nb.
Proof. exists (zerosN Rops nb). split; [reflexivity|apply zerosN_length]. Qed.

(* ================================================================================================ *)
(* binary lookup table *)
Lemma existsb_map_false {A} (f : A -> bool) l : Forall (fun x => f x = false) l -> existsb (fun b => b) (map f l) = false.
Proof. induction 1 as [|x l Hx Hl IH]; simpl; [reflexivity|]. rewrite Hx, IH. reflexivity. Qed.

Lemma rdfiOf_in_range rep (xa : list R) : (rdfiOf Rops rep xa <= length xa - 1)%nat.
Proof.
  unfold rdfiOf. destruct (rep && negb _); [lia|].
  pose proof (argmax_first_le (map (isValid Rops) xa)) as H. rewrite map_length in H. lia.
Qed.

Lemma sentinel_invalid : isValid Rops (sentinel Rops) = false.
Proof. unfold isValid. Rnorm. assert (E : Reqb (sentinel Rops) (sentinel Rops) = true) by (apply Reqb_true; reflexivity). rewrite E. reflexivity. Qed.

(* no size class stable: the index is the last boundary, the tables are zeroed (so that no growth rate is taken) *)
Lemma lookup_all_unstable (xa xb : list R) : Forall (fun a => a = sentinel Rops) xa ->
  rdfiOf Rops true xa = (length xa - 1)%nat /\
  lookupTable Rops true xa xb = ((length xa - 1)%nat, (zerosN Rops (length xa), zerosN Rops (length xa))).
Proof.
  intros H.
  assert (E : existsb (fun b => b) (map (isValid Rops) xa) = false).
  { apply existsb_map_false. eapply Forall_impl; [|exact H]. intros a ->. apply sentinel_invalid. }
  assert (R1 : rdfiOf Rops true xa = (length xa - 1)%nat) by (unfold rdfiOf; rewrite E; reflexivity).
  split; [exact R1|]. unfold lookupTable. rewrite R1. cbn [T Rops] in *.
  destruct (Nat.ltb_spec (S (length xa - 1)) (length xa)); [lia|reflexivity].
Qed.

(* on the pinned tree the index was 0 and the sentinels stayed in the table *)
Lemma lookup_all_unstable_refuted : exists xa xb : list R,
  Forall (fun a => a = sentinel Rops) xa /\ rdfiOf Rops false xa = 0%nat /\
  fst (snd (lookupTable Rops false xa xb)) = xa /\ (0 < length xa - 1)%nat.
Proof.
  exists [sentinel Rops; sentinel Rops; sentinel Rops], [sentinel Rops; sentinel Rops; sentinel Rops].
  split; [repeat constructor|].
  assert (R0 : rdfiOf Rops false [sentinel Rops; sentinel Rops; sentinel Rops] = 0%nat).
  { unfold rdfiOf. cbn [map andb]. rewrite !sentinel_invalid. reflexivity. }
  split; [exact R0|]. unfold lookupTable. rewrite R0. simpl. split; [reflexivity|lia].
Qed.

(* ---- after the repair no -1 is ever left in the matrix-composition table, whatever the backend returned -------- *)
Lemma zero_valid : isValid Rops 0 = true.
Proof.
  unfold isValid, sentinel, negT. Rnorm. destruct (Reqb 0 (0 - 1)) eqn:E; Rbool; [lra|reflexivity].
Qed.

Lemma fillFrom_valid pa pb (xa xb : list R) : isValid Rops pa = true ->
  Forall (fun a => isValid Rops a = true) (fst (fillFrom Rops pa pb xa xb)).
Proof.
  revert pa pb xb. induction xa as [|a ra IH]; intros pa pb xb Hp; [constructor|].
  destruct xb as [|b rb]; [constructor|]. cbn [fillFrom fst].
  destruct (isValid Rops a) eqn:Ea; (constructor; [|apply IH]); assumption.
Qed.

Lemma Forall_skipn {A} (P : A -> Prop) n (l : list A) : Forall P l -> Forall P (skipn n l).
Proof. revert l; induction n as [|n IH]; intros l H; [exact H|]. destruct l; [constructor|]. inversion H; subst. apply IH; assumption. Qed.

Lemma skipn_skipn' {A} (a b : nat) (l : list A) : skipn a (skipn b l) = skipn (a + b) l.
Proof.
  revert l; induction b as [|b IH]; intros l; [rewrite Nat.add_0_r; reflexivity|].
  destruct l as [|x l]; [rewrite !skipn_nil; reflexivity|]. rewrite Nat.add_succ_r. simpl. apply IH.
Qed.

Lemma nth_Forall_default (P : R -> Prop) (l : list R) i : P 0 -> Forall P l -> P (nthT Rops l i).
Proof.
  intros H0 Hl. unfold nthT. Rnorm. destruct (Nat.lt_ge_cases i (length l)).
  - rewrite Forall_forall in Hl. apply Hl. apply nth_In. assumption.
  - rewrite nth_overflow by assumption. exact H0.
Qed.

Lemma firstn_S_nth {A} (l : list A) j d : (j < length l)%nat -> firstn (S j) l = firstn j l ++ [nth j l d].
Proof.
  revert j; induction l as [|a l IH]; intros j Hj; [simpl in Hj; Lia.lia|].
  destruct j as [|j]; [reflexivity|]. simpl in Hj. simpl. f_equal. apply IH. Lia.lia.
Qed.

(* everything from the first stable class on is a composition after the fill *)
Lemma fillUnknown_tail_valid (xa xb : list R) j : (j < length xa)%nat -> isValid Rops (nthT Rops xa j) = true ->
  Forall (fun a => isValid Rops a = true) (skipn j (fst (fillUnknown Rops (S j) xa xb))).
Proof.
  intros Hj Hv. unfold fillUnknown. replace (Nat.max (S j) 1) with (S j) by lia. cbn [fst].
  replace (S j - 1)%nat with j by lia. unfold nthT in *. cbn [T zero Rops] in *.
  assert (E : firstn (S j) xa = firstn j xa ++ [nth j xa 0]) by (apply firstn_S_nth; exact Hj).
  rewrite E, <- app_assoc.
  assert (L : length (firstn j xa) = j) by (rewrite firstn_length; lia).
  rewrite skipn_app, L, Nat.sub_diag. rewrite skipn_all2 by lia. cbn [skipn app].
  constructor; [exact Hv|]. apply fillFrom_valid. exact Hv.
Qed.

Lemma find_first_Some_valid (l : list bool) j : find_first l = Some j -> (j < length l)%nat /\ nth j l false = true.
Proof.
  revert j; induction l as [|b l IH]; intros j H; [discriminate|]. simpl in H. destruct b.
  - inversion H; subst. simpl. split; [lia|reflexivity].
  - destruct (find_first l) as [k|]; [|discriminate]. inversion H; subst. destruct (IH k eq_refl). simpl. split; [lia|assumption].
Qed.

Lemma existsb_find_first (l : list bool) : existsb (fun b => b) l = true -> exists j, find_first l = Some j.
Proof.
  induction l as [|b l IH]; simpl; [discriminate|]. destruct b; [exists 0%nat; reflexivity|].
  intros H. destruct (IH H) as [j Hj]. rewrite Hj. exists (S j). reflexivity.
Qed.

Lemma zeros_valid n : Forall (fun a => isValid Rops a = true) (zerosN Rops n).
Proof. unfold zerosN. induction n; simpl; constructor; [apply zero_valid|assumption]. Qed.

Lemma lookup_no_sentinel (xa xb : list R) :
  Forall (fun a => isValid Rops a = true) (fst (snd (lookupTable Rops true xa xb))).
Proof.
  unfold lookupTable. cbv zeta. cbn [andb].
  destruct (existsb (fun b => b) (map (isValid Rops) xa)) eqn:Ex.
  - destruct (existsb_find_first _ Ex) as [j Hj]. destruct (find_first_Some_valid _ _ Hj) as [Hjl Hjv].
    rewrite map_length in Hjl.
    assert (Hv : isValid Rops (nthT Rops xa j) = true).
    { unfold nthT. Rnorm. rewrite <- Hjv. rewrite (nth_indep _ false (isValid Rops 0)) by (rewrite map_length; exact Hjl).
      rewrite map_nth. reflexivity. }
    assert (Ea : argmax_first (map (isValid Rops) xa) = j) by (unfold argmax_first; rewrite Hj; reflexivity).
    assert (Er : rdfiOf Rops true xa = Nat.max (j - 1) 0).
    { unfold rdfiOf. cbv zeta. rewrite Ex. cbn [andb negb]. rewrite Ea. reflexivity. }
    rewrite Ea, Er.
    pose proof (fillUnknown_tail_valid xa xb j Hjl Hv) as HT.
    set (fa := fst (fillUnknown Rops (S j) xa xb)) in *.
    match goal with |- context [if ?c then _ else _] => destruct c end; cbn [fst snd]; [|apply zeros_valid].
    assert (Hge : (j <= S (Nat.max (j - 1) 0))%nat) by lia.
    apply Forall_app. split.
    + apply Forall_forall. intros x Hx. apply repeat_spec in Hx. subst x.
      replace (nthT Rops fa (S (Nat.max (j - 1) 0))) with (nthT Rops (skipn j fa) (S (Nat.max (j - 1) 0) - j)).
      * apply (nth_Forall_default (fun a => isValid Rops a = true)); [apply zero_valid|exact HT].
      * unfold nthT. rewrite nth_skipn. f_equal. lia.
    + replace (skipn (S (Nat.max (j - 1) 0)) fa) with (skipn (S (Nat.max (j - 1) 0) - j) (skipn j fa)).
      * apply Forall_skipn. exact HT.
      * rewrite skipn_skipn'. f_equal. lia.
  - assert (Er : rdfiOf Rops true xa = (length xa - 1)%nat) by (unfold rdfiOf; cbv zeta; rewrite Ex; reflexivity).
    rewrite Er. cbn [fst snd].
    match goal with |- context [if ?c then _ else _] => destruct c eqn:El end; cbn [fst snd].
    + apply Nat.ltb_lt in El. lia.
    + apply zeros_valid.
Qed.

(* the index is just below the first stable class *)
Lemma lookup_index_first_stable (xa : list R) j : find_first (map (isValid Rops) xa) = Some j ->
  rdfiOf Rops true xa = Nat.max (j - 1) 0.
Proof.
  intros Hj. unfold rdfiOf. cbv zeta.
  assert (Ex : existsb (fun b => b) (map (isValid Rops) xa) = true).
  { destruct (find_first_Some_valid _ _ Hj) as [Hl Hv]. apply existsb_exists. exists true. split; [|reflexivity].
    rewrite <- Hv. apply nth_In. exact Hl. }
  rewrite Ex. cbn [andb negb]. unfold argmax_first. rewrite Hj. reflexivity.
Qed.

Lemma firstn_len_app {A} (a b : list A) : firstn (length a) (a ++ b) = a.
Proof. induction a as [|x a IH]; simpl; [destruct b; reflexivity|]. rewrite IH. reflexivity. Qed.
Lemma skipn_len_app {A} (a b : list A) : skipn (length a) (a ++ b) = b.
Proof. induction a as [|x a IH]; simpl; auto. Qed.

(* size classes added during a run: a table without -1 stays without -1 whatever the backend returns for them *)
Lemma extend_no_sentinel (ta tb na nb : list R) : ta <> [] ->
  Forall (fun a => isValid Rops a = true) ta ->
  Forall (fun a => isValid Rops a = true) (fst (extendTable Rops true ta tb na nb)).
Proof.
  intros Hne Hv. unfold extendTable, fillUnknown, nthT. cbn [fst]. cbn [T zero Rops] in *.
  assert (Hl : (1 <= length ta)%nat) by (destruct ta; [contradiction|simpl; Lia.lia]).
  rewrite (Nat.max_l (length ta) 1) by exact Hl.
  rewrite firstn_len_app, !skipn_len_app.
  apply Forall_app. split; [exact Hv|]. apply fillFrom_valid.
  rewrite app_nth1 by Lia.lia. rewrite Forall_forall in Hv. apply Hv. apply nth_In. Lia.lia.
Qed.

(* ================================================================================================ *)
(* binary growth rate: no division by zero after the repair, whatever the effective-diffusion function,
   the matrix composition, the molar-volume ratio and the table entries *)
Lemma growth_denoms_nonzero (eff : R -> R) x ratio epsMin Rb a b :
  0 < epsMin -> 0 < Rb ->
  fst (growthDenoms Rops eff true x ratio epsMin Rb a b) <> 0 /\
  snd (growthDenoms Rops eff true x ratio epsMin Rb a b) <> 0.
Proof.
  intros He HR. unfold growthDenoms, validClass, effDist. cbn [fst snd]. Rnorm. split.
  - destruct (Reqb (xDiffOf Rops ratio a b) 0) eqn:E; Rbool; cbn [negb]; [lra|exact E].
  - unfold maxT. Rnorm. set (s := superSat Rops true x ratio a b).
    destruct (Rltb (eff s) epsMin) eqn:E; Rbool; nra.
Qed.

(* a masked class has growth rate 0 *)
Lemma growth_masked (eff : R -> R) x ratio D epsMin k Rb a b :
  validClass Rops true ratio a b = false ->
  growthClass Rops eff true x ratio D epsMin k Rb a b = 0.
Proof.
  intros H. unfold growthClass, superSat. rewrite H. Rnorm. unfold Rdiv. ring.
Qed.

Lemma growth_unrepaired_refuted : exists (eff : R -> R) x ratio epsMin Rb a b,
  0 < epsMin /\ 0 < Rb /\
  ( fst (growthDenoms Rops eff false x ratio epsMin Rb a b) = 0 \/
    snd (growthDenoms Rops eff false x ratio epsMin Rb a b) = 0 ).
Proof.
  (* the -1 sentinel read as a composition with equal molar volumes: (-1) * 1 - (-1) = 0 *)
  exists (fun _ => 1), (1/50), 1, (1/200), 1, (sentinel Rops), (sentinel Rops).
  split; [lra|]. split; [lra|]. left. unfold growthDenoms, validClass, xDiffOf, sentinel, negT. cbn [fst]. Rnorm. lra.
Qed.

Lemma zip4_length {A B C D E} (f : A -> B -> C -> D -> E) a b c d :
  length b = length a -> length c = length a -> length d = length a -> length (zip4 f a b c d) = length a.
Proof.
  revert b c d; induction a as [|x a IH]; intros [|y b] [|z c] [|w d]; simpl; intros; try lia.
  f_equal. apply IH; lia.
Qed.

Lemma growthBinary_length (eff : R -> R) rep rdfi x ratio D epsMin kin bounds xa xb :
  length kin = length bounds -> length xa = length bounds -> length xb = length bounds ->
  length (growthBinary Rops eff rep rdfi x ratio D epsMin kin bounds xa xb) = length bounds.
Proof.
  intros Hk Ha Hb. unfold growthBinary. destruct (S rdfi <? length xa).
  - rewrite zip4_length; lia.
  - apply zerosN_length.
Qed.

(* ================================================================================================ *)
(* step size: minimum over the constraint-derived steps *)
Lemma amin_le x l : amin Rops x l <= x /\ Forall (fun y => amin Rops x l <= y) l.
Proof.
  revert x; induction l as [|y l IH]; intros x; simpl; [split; [lra|constructor]|].
  destruct (IH (minT Rops x y)) as [A B]. unfold minT in *. Rnorm.
  destruct (Rltb y x) eqn:E; Rbool; split; try lra; constructor; try lra; auto.
Qed.
Lemma amin_in x l : amin Rops x l = x \/ In (amin Rops x l) l.
Proof.
  revert x; induction l as [|y l IH]; intros x; simpl; [left; reflexivity|].
  destruct (IH (minT Rops x y)) as [A|A]; [|right; right; exact A].
  rewrite A. unfold minT. Rnorm. destruct (Rltb y x); [right; left; reflexivity|left; reflexivity].
Qed.

Lemma getDt_spec dtMax dtPropose cands :
  let dt := getDt Rops dtMax dtPropose cands in
  ( dt = dtPropose /\ Forall (fun c => dtMax <= c) cands ) \/
  ( In dt cands /\ dt < dtMax /\ Forall (fun c => dt <= c) cands ).
Proof.
  intros dt. subst dt. unfold getDt. Rnorm.
  destruct (amin_le dtMax cands) as [A B]. destruct (amin_in dtMax cands) as [C|C].
  - rewrite C. assert (E : Reqb dtMax dtMax = true) by (apply Reqb_true; reflexivity). rewrite E.
    left. split; [reflexivity|]. rewrite C in B. exact B.
  - destruct (Reqb (amin Rops dtMax cands) dtMax) eqn:E; Rbool.
    + left. split; [reflexivity|]. rewrite E in B. exact B.
    + right. split; [exact C|]. split; [lra|exact B].
Qed.

Lemma dtFromTemperature_pos check n Tcur Tprev maxNonIso dtPrev dtMax :
  0 < maxNonIso -> 0 < dtPrev -> 0 < dtMax ->
  0 < dtFromTemperature Rops check n Tcur Tprev maxNonIso dtPrev dtMax.
Proof.
  intros Hm Hp Hx. unfold dtFromTemperature. destruct (check && (0 <? n)%nat); [|exact Hx]. Rnorm.
  destruct (Rltb maxNonIso (Tcur - Tprev)) eqn:E; Rbool; [|exact Hx].
  apply Rdiv_lt_0_compat; nra.
Qed.

(* ================================================================================================ *)
(* witnesses: clauses of the property that the faithful model does NOT satisfy *)

(* decide every comparison between closed real expressions that appears in the goal *)
Ltac Rdecide :=
  repeat (cbn -[Rplus Rminus Rmult Rdiv Rinv Ropp IZR Rltb Rleb Reqb];
    match goal with
    | |- context [Rltb ?a ?b] =>
        first [ replace (Rltb a b) with true by (symmetry; apply Rltb_true; lra)
              | replace (Rltb a b) with false by (symmetry; apply Rltb_false; lra) ]
    | |- context [Rleb ?a ?b] =>
        first [ replace (Rleb a b) with true by (symmetry; apply Rleb_true; lra)
              | replace (Rleb a b) with false by (symmetry; apply Rleb_false; lra) ]
    | |- context [Reqb ?a ?b] =>
        first [ replace (Reqb a b) with true by (symmetry; apply Reqb_true; lra)
              | replace (Reqb a b) with false by (symmetry; apply Reqb_false; lra) ]
    end); cbn -[Rplus Rminus Rmult Rdiv Rinv Ropp IZR Rltb Rleb Reqb].

(* a two-class phase at rest (no flux, no nucleation) holding one particle of radius 4 per unit volume;
   vf = volume factor, table = its precipitate composition table *)
Definition restPin (vf : R) : pin Rops :=
  mkPin Rops [1; 3; 5] [0; 1] [0; 0; 0] 0 0 0%nat 1 vf [[0]; [0]; [0]] false true [0] Keep 0%nat.

Lemma restPin_wf vf : 0 <= vf -> pin_wf (restPin vf).
Proof.
  intros Hv. unfold pin_wf, restPin; cbn [p_psd p_bounds p_nf p_nucRate p_volRatio p_volFactor]. simpl.
  repeat split; try lia; try lra.
  - repeat (constructor; [lra|]). constructor.
  - intros [|[|[|k]]]; simpl; lra.
Qed.

Lemma rest_update : nthR (updateX Rops 1 [1; 3; 5] [0; 1] [0; 0; 0] 0 0) 0 = 0 /\
  nthR (updateX Rops 1 [1; 3; 5] [0; 1] [0; 0; 0] 0 0) 1 = 1 /\ length (updateX Rops 1 [1; 3; 5] [0; 1] [0; 0; 0] 0 0) = 2%nat.
Proof.
  unfold updateX, correctFlux, limitClass, scaleOf, limitAbove, limitBelow, outflowOf, dXdt_of, nRad, searchsorted_right, minT, maxT, negT.
  Rdecide. split; [lra|split; [lra|reflexivity]].
Qed.

Lemma list2 (l : list R) a b : nthR l 0 = a -> nthR l 1 = b -> length l = 2%nat -> l = [a; b].
Proof. destruct l as [|x [|y [|z l]]]; simpl; intros; try discriminate; subst; reflexivity. Qed.

Lemma restPin_newX vf : newX Rops 1 0 (restPin vf) = [0; 1].
Proof.
  assert (S0 : startX Rops 0 (restPin vf) = [0; 1]).
  { unfold startX, restPin. cbn [p_rdfi p_bounds p_psd]. unfold processX, half. Rdecide. f_equal. }
  unfold newX. rewrite S0. unfold restPin. cbn [p_rdfi p_bounds p_psd p_nf p_nucRate p_Rnuc].
  destruct rest_update as (A & B & C). rewrite (list2 _ 0 1 A B C).
  unfold processX, half. Rdecide. f_equal.
Qed.

(* its recorded fraction is min(64 vf, 1), its recorded solute content 0 *)
Lemma restPin_record vf : 0 <= vf ->
  let o := phaseBalance Rops (1/2) (phaseIn Rops 1 0 (restPin vf)) in
  fv Rops o = Rmin (64 * vf) 1 /\ fconc Rops o = [0].
Proof.
  intros Hv o. subst o. unfold phaseBalance, phaseIn. cbn [Nx size volRatio volFactor prevFull infinite xbeta].
  rewrite restPin_newX. unfold restPin. cbn [p_bounds p_volRatio p_volFactor p_prevFull p_infinite p_xbeta].
  unfold momentFromN, weightedMoment, compAvg, column, nElems, minT, half. Rdecide. cbn [fv fconc]. split.
  - unfold Rmin. destruct (Rle_dec (64 * vf) 1);
      match goal with |- (if Rltb ?a ?b then _ else _) = _ => destruct (Rltb a b) eqn:E; Rbool; lra end.
  - f_equal. unfold nthT. simpl. Rnorm. lra.
Qed.

(* each phase is clamped to a fraction of at most 1 separately: the total can exceed 1 *)
Lemma total_fraction_refuted : exists dt minR minDens minComp x0 prev (ps : list (pin Rops)),
  0 < dt /\ 0 < minDens /\ Forall pin_wf ps /\
  Forall (fun o => 0 <= fv Rops o <= 1) (fst (kwnRecord Rops dt minR minDens minComp x0 prev ps)) /\
  1 < sumFv Rops (fst (kwnRecord Rops dt minR minDens minComp x0 prev ps)).
Proof.
  exists 1, 0, (1/2), 0, [1/10], [1/10], [restPin 1; restPin 1].
  split; [lra|]. split; [lra|]. split; [repeat (constructor; [apply restPin_wf; lra|]); constructor|].
  destruct (restPin_record 1 ltac:(lra)) as [F _]. cbv zeta in F.
  assert (F1 : fv Rops (phaseBalance Rops (1 / 2) (phaseIn Rops 1 0 (restPin 1))) = 1).
  { rewrite F. unfold Rmin. destruct (Rle_dec (64 * 1) 1); lra. }
  unfold kwnRecord, massBalance. cbn [fst map]. split.
  - repeat (constructor; [rewrite F1; lra|]). constructor.
  - unfold sumFv. cbn [map sumT]. rewrite F1. Rnorm. lra.
Qed.

(* a precipitate poorer in solute than the alloy (table entry 0 < x0 = 9/10) taking half of the volume leaves a
   matrix "composition" of 9/5 *)
Lemma composition_upper_refuted : exists dt minR minDens minComp x0 prev (ps : list (pin Rops)),
  0 < dt /\ 0 < minDens /\ 0 <= minComp /\ Forall pin_wf ps /\
  Forall (fun c => 0 <= c <= 1) x0 /\ prev = x0 /\
  1 < nthR (snd (kwnRecord Rops dt minR minDens minComp x0 prev ps)) 0.
Proof.
  exists 1, 0, (1/2), 0, [9/10], [9/10], [restPin (1/128)].
  split; [lra|]. split; [lra|]. split; [lra|]. split; [repeat (constructor; [apply restPin_wf; lra|]); constructor|].
  split; [repeat (constructor; [lra|]); constructor|]. split; [reflexivity|].
  destruct (restPin_record (1/128) ltac:(lra)) as [F C]. cbv zeta in F, C.
  assert (F1 : fv Rops (phaseBalance Rops (1 / 2) (phaseIn Rops 1 0 (restPin (1/128)))) = 1/2).
  { rewrite F. unfold Rmin. destruct (Rle_dec (64 * (1/128)) 1); lra. }
  unfold kwnRecord, massBalance. cbn [snd map]. unfold matrixComp, sumFv, sumFconc. cbn [map sumT length seq].
  rewrite F1, C. unfold nthT. cbn [nth]. Rdecide. lra.
Qed.

(* ================================================================================================ *)
(* trajectories: the invariants are carried from step to step, for every oracle *)
Record kstep := mkK { k_dt : R; k_prev : list R; k_pins : list (pin Rops) }.

(* the part of a phase's state that is carried between steps *)
Definition state_ok (bounds psd : list R) : Prop :=
  (1 <= length psd)%nat /\ length bounds = S (length psd) /\ Forall (fun b => 0 <= b) bounds /\ nonneg psd.

(* premises on what the oracles (backend, nucleation formulas, grid operations of C08) deliver in one step *)
Definition adjust_ok (p : pin Rops) : Prop :=
  match p_adjust Rops p with
  | Keep => True
  | Extend k b' => length b' = S (length (p_psd Rops p) + k) /\ Forall (fun b => 0 <= b) b'
  | Remesh b' p' => (1 <= length p')%nat /\ length b' = S (length p') /\ Forall (fun b => 0 <= b) b' /\ nonneg p'
  end.
Definition oracle_ok (p : pin Rops) : Prop :=
  length (p_nf Rops p) = S (length (p_psd Rops p)) /\ 0 <= p_nucRate Rops p /\
  0 <= p_volRatio Rops p * p_volFactor Rops p /\ adjust_ok p.
Definition step_ok (s : kstep) : Prop := 0 < k_dt s /\ Forall oracle_ok (k_pins s).

(* step s2 starts from what step s1 stored and recorded *)
Definition carried (minR minDens minComp : R) (x0 : list R) (s1 s2 : kstep) : Prop :=
  Forall2 (fun p q => p_bounds Rops q = fst (kwnStore Rops (k_dt s1) minR p) /\
                      p_psd Rops q = snd (kwnStore Rops (k_dt s1) minR p)) (k_pins s1) (k_pins s2) /\
  k_prev s2 = snd (kwnRecord Rops (k_dt s1) minR minDens minComp x0 (k_prev s1) (k_pins s1)).
Fixpoint chain (minR minDens minComp : R) (x0 : list R) (steps : list kstep) : Prop :=
  match steps with
  | s1 :: ((s2 :: _) as r) => carried minR minDens minComp x0 s1 s2 /\ chain minR minDens minComp x0 r
  | _ => True
  end.

(* what the property asks of one recorded slice and of the distribution stored after it *)
Definition slice_ok (minR minDens minComp : R) (x0 : list R) (s : kstep) : Prop :=
  let rec := kwnRecord Rops (k_dt s) minR minDens minComp x0 (k_prev s) (k_pins s) in
  Forall (fun o => 0 <= dens Rops o /\ 0 <= ravg Rops o /\ 0 <= fv Rops o <= 1) (fst rec) /\
  (forall e, 0 <= nthR (snd rec) e) /\
  Forall (fun p => nonneg (newX Rops (k_dt s) minR p) /\ nonneg (snd (kwnStore Rops (k_dt s) minR p))) (k_pins s).

Lemma pin_wf_of p : state_ok (p_bounds Rops p) (p_psd Rops p) -> oracle_ok p -> pin_wf p.
Proof. intros (A & B & C & D) (E & F & G & _). repeat split; assumption. Qed.

Lemma stored_state_ok dt minR p : pin_wf p -> adjust_ok p ->
  state_ok (fst (kwnStore Rops dt minR p)) (snd (kwnStore Rops dt minR p)).
Proof.
  intros Hwf Ha. pose proof (stored_shape dt minR p Hwf) as Hs. pose proof (stored_classes dt minR p) as Hc.
  destruct Hwf as (Hn & Hb & Hnf & Hbp & Hp & Hnuc & Hk). unfold adjust_ok in Ha.
  unfold kwnStore in *. destruct (p_adjust Rops p) as [|k b'|b' p'] eqn:E; cbn [adjusted fst snd] in *.
  - repeat split; try lia; [exact Hbp|apply unitOrEmpty_nonneg; exact Hc].
  - destruct Ha as [Hl Hf]. specialize (Hs Hl). repeat split; try lia; [exact Hf|apply unitOrEmpty_nonneg; exact Hc].
  - destruct Ha as (H1 & Hl & Hf & Hnn). specialize (Hs Hl). repeat split; try lia; [exact Hf|apply Hc; exact Hnn].
Qed.

Lemma step_slice_ok minR minDens minComp x0 s : 0 < minDens -> 0 <= minComp ->
  step_ok s -> Forall (fun p => state_ok (p_bounds Rops p) (p_psd Rops p)) (k_pins s) ->
  Forall (fun c => 0 <= c) (k_prev s) ->
  slice_ok minR minDens minComp x0 s.
Proof.
  intros Hmd Hmc [Hdt Ho] Hst Hprev. unfold slice_ok. cbv zeta.
  assert (Hwf : Forall pin_wf (k_pins s)).
  { clear Hprev. induction (k_pins s) as [|p ps IH]; [constructor|].
    inversion Ho; inversion Hst; subst. constructor; [apply pin_wf_of; assumption|apply IH; assumption]. }
  split; [|split].
  - unfold kwnRecord, massBalance. cbn [fst]. clear Ho Hst Hprev.
    induction Hwf as [|p ps Hp Hps IH]; [constructor|]. cbn [map]. constructor; [|exact IH].
    apply record_phase_bounds; assumption.
  - intros e. unfold kwnRecord, massBalance. cbn [snd]. apply matrixComp_nonneg; assumption.
  - clear Hprev Hst. induction Hwf as [|p ps Hp Hps IH]; [constructor|]. inversion Ho as [|? ? Hop Hops]; subst.
    constructor; [|apply IH; exact Hops]. split; [apply newX_nonneg; assumption|].
    destruct Hop as (_ & _ & _ & Ha). apply (stored_state_ok (k_dt s) minR p Hp Ha).
Qed.

(* every step of every run: all recorded slices and stored distributions are well formed *)
Lemma trajectory_wf minR minDens minComp x0 (steps : list kstep) : 0 < minDens -> 0 <= minComp ->
  Forall step_ok steps -> chain minR minDens minComp x0 steps ->
  match steps with
  | [] => True
  | s0 :: _ => Forall (fun p => state_ok (p_bounds Rops p) (p_psd Rops p)) (k_pins s0) /\ Forall (fun c => 0 <= c) (k_prev s0)
  end ->
  Forall (slice_ok minR minDens minComp x0) steps.
Proof.
  intros Hmd Hmc Hok. induction Hok as [|s steps Hs Hok IH]; intros Hch H0; [constructor|].
  destruct H0 as [Hst Hprev]. constructor; [apply step_slice_ok; assumption|].
  destruct steps as [|s2 r]; [constructor|]. destruct Hch as [[Hc1 Hc2] Hch]. apply IH; [exact Hch|]. split.
  - destruct Hs as [Hdt Ho]. clear IH Hch Hok Hc2 Hprev. revert Hst Ho.
    induction Hc1 as [|p q ps qs [Hb Hp] Hrest IHc]; intros Hst Ho; [constructor|].
    inversion Hst as [|? ? Hstp Hsts]; inversion Ho as [|? ? Hop Hops]; subst. constructor; [|apply IHc; assumption].
    rewrite Hb, Hp. apply stored_state_ok; [apply pin_wf_of; assumption|]. destruct Hop as (_ & _ & _ & Ha). exact Ha.
  - rewrite Hc2. apply Forall_forall. intros c Hin. destruct (In_nth _ _ 0 Hin) as (e & _ & <-).
    unfold kwnRecord, massBalance. cbn [snd]. apply matrixComp_nonneg; assumption.
Qed.
