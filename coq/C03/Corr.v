(* C03 - correspondence driver: the executable (exact-rational) instance of the run model is evaluated on what the
   implementation received in recorded steps and compared, inside Coq, with what the implementation produced.
   Only verdicts are printed.  Harness-side code: no theorem depends on it. *)
From Coq Require Import String.
From Coq Require Import QArith List ZArith Bool Arith.
Require Import Kawin.Common.Ops Kawin.Common.Vec Kawin.Common.Out Kawin.C07.Model Kawin.C07.Corr
               Kawin.C01.Model Kawin.C01.Corr Kawin.C02.Model Kawin.C03.Model.
Import ListNotations.
Open Scope Q_scope.

Fixpoint eql (a b : list Q) : bool :=
  match a, b with
  | [], [] => true
  | x :: a', y :: b' => Qeq_bool x y && eql a' b'
  | _, _ => false
  end.
Fixpoint eqll (a b : list (list Q)) : bool :=
  match a, b with
  | [], [] => true
  | x :: a', y :: b' => eql x y && eqll a' b'
  | _, _ => false
  end.

(* ---- one recorded step -------------------------------------------------------------------------------------- *)
(* implementation side of one phase: the state the iterator returned for the phase (before _processX), the stored
   distribution after the step, and whether the latter is to be compared (not after a re-mesh) *)
Record impl_pin := { ii_xn : list Q; ii_stored : list Q; ii_cmp : bool }.

Definition pinVerdict (rt dt minR : Q) (p : pin Qops) (ix : impl_pin) :=
  let nf := p_nf Qops p in
  (* the state the iterator advances: the stored distribution after the in-place _processX of the first derivative evaluation *)
  let psd := startX Qops minR p in
  let ltie := (lim_tie (rt * 64) dt nf psd || class_tie (rt * 64) dt (limitAbove Qops dt (limitBelow Qops dt nf psd) psd) psd)%bool in
  let x' := updateX Qops dt (p_bounds Qops p) psd nf (p_nucRate Qops p) (p_Rnuc Qops p) in
  let nf2 := correctFlux Qops dt nf psd in
  let scale := zipWith (fun x s => Qred (qabs x + dt * s)) psd (pairsum (p_nucRate Qops p) nf2) in
  let nx := newX Qops dt minR p in
  let mtie := existsb (fun r => near_tie (rt * 64) r minR) (mids Qops (p_bounds Qops p)) in
  let ttie := existsb (fun v => near_tie (rt * 64) v 1) nx in
  let st := snd (kwnStore Qops dt minR p) in
  let sscale := map (fun s => Qred (s + 1)) scale ++ map (fun _ => 1) st in
  (if ltie then None else cmpl rt (ii_xn ix) x' scale,
   if (ltie || mtie || ttie || negb (ii_cmp ix))%bool then None else cmpl rt (ii_stored ix) st sscale,
   (ltie || mtie)%bool, ttie).

Definition check03_step (rt dt minR minDens minComp : Q) (x0 prev : list Q) (ps : list (pin Qops))
                        (ixs : list impl_pin) (iph : list impl_phase) (icomp : list Q) :=
  let pv := zipWith (pinVerdict rt dt minR) ps ixs in
  let tie := existsb (fun v => let '(_, _, t1, _) := v in t1) pv in
  (pv, tie,
   if tie then None else Some (check01 rt minDens minComp x0 prev (map (phaseIn Qops dt minR) ps) iph icomp)).

(* ---- binary lookup table: pure data movement, compared exactly ------------------------------------------------ *)
Definition check03_lookup (rep : bool) (xa xb : list Q) (irdfi : nat) (ita itb : list Q) :=
  let '(r, (ta, tb)) := lookupTable Qops rep xa xb in
  (Nat.eqb r irdfi, eql ta ita, eql tb itb, r).

(* _fillUnknownInterfacialComposition(p, start): exact *)
Definition check03_fill (start : nat) (xa xb ia ib : list Q) :=
  let r := fillUnknown Qops start xa xb in (eql (fst r) ia, eql (snd r) ib).

(* ---- binary growth rate ------------------------------------------------------------------------------------------ *)
(* eff = np.interp(s, ohm, effd) (effective diffusion enabled) or the constant 1 *)
Definition effOf (enabled : bool) (ohm effd : list Q) (s : Q) : Q :=
  if enabled then interp Qops ohm effd s else 1.
(* a class whose supersaturation denominator is within tolerance of 0 relative to its two terms cannot be compared *)
Definition growthTie (rt ratio : Q) (xa xb : list Q) : bool :=
  existsb (fun ab => let '(a, b) := ab in
      negb (Qeq_bool (xDiffOf Qops ratio a b) 0) &&
      closeb rt (xDiffOf Qops ratio a b) 0 (Qred (qabs (ratio * b) + qabs a))) (combine xa xb).
Definition check03_growth (rt : Q) (rep enabled : bool) (ohm effd : list Q) (rdfi : nat) (x ratio D epsMin : Q)
                          (kin bounds xa xb : list Q) (impl : list Q) :=
  let g := growthBinary Qops (effOf enabled ohm effd) rep rdfi x ratio D epsMin kin bounds xa xb in
  let tie := growthTie (rt * 1024) ratio xa xb in
  (if tie then None else cmpl_rel (rt * 64) impl g, tie).

(* ---- growth under faults (multicomponent): the branch taken and the values passed through ------------------------- *)
(* impl: None = the call raised; Some (rate, eqA, eqB, tables replaced?) *)
Definition check03_growth_multi (rt : Q) (rep : bool) (dG dens : Q) (nb ne : nat) (kin : list Q)
    (prevG : option (list Q)) (yA yB : list Q) (backend : option (growth_result Qops))
    (impl : option (list Q * list Q * list Q * bool)) :=
  match singleGrowthMulti Qops rep dG dens nb ne kin prevG yA yB backend, impl with
  | Err _, None => (true, 0%nat)
  | Ok o, Some (r, a, b, tabs) =>
      let rate_ok := match backend with
                     | Some _ => match cmpl_rel rt r (go_rate Qops o) with None => true | Some _ => false end
                     | None => eql r (go_rate Qops o)
                     end in
      ((rate_ok && eql a (go_eqa Qops o) && eql b (go_eqb Qops o) &&
        Bool.eqb tabs (match go_tab Qops o with Some _ => true | None => false end))%bool, 1%nat)
  | Err _, Some _ => (false, 2%nat)
  | Ok _, None => (false, 3%nat)
  end.

(* ---- nucleation terms: which values are overwritten, which are kept -------------------------------------------------- *)
Definition nsl (s : nslice Qops) : list Q := [n_dG Qops s; n_beta Qops s; n_Gcrit Qops s; n_Rcrit Qops s; n_rate Qops s; n_Rnuc Qops s].
Definition check03_nuc (rt : Q) (rep zeroed : bool) (Rmin minDens dtprev : Q) (prev : nslice Qops) (o : noracle Qops)
                       (impl : option (list Q)) :=
  let tie := near_tie rt (Qred (o_rate Qops o * dtprev)) minDens in
  match nucStep Qops rep zeroed Rmin minDens dtprev prev o, impl with
  | Err _, None => (true, tie)
  | Ok s, Some l => ((tie || eql (nsl s) l)%bool, tie)
  | _, _ => (false, tie)
  end.

(* ---- step size ------------------------------------------------------------------------------------------------------------ *)
Definition check03_getDt (dtMax dtPropose : Q) (cands : list Q) (impl : Q) : bool :=
  Qeq_bool (getDt Qops dtMax dtPropose cands) impl.
