(* C08 - Size-class grid operations stay consistent and conserve particle volume.
   This file contains ONLY the property theorems; each is closed by [exact] of a lemma of Proofs.v
   and followed by Print Assumptions.  All statements are about the real-number instance [Rops] of
   the model in Model.v (kawin/precipitation/PopulationBalance.py, repaired by fixes/C08-*.patch).

   Guards (stated, not exploited): grids have 0 <= min < max and at least one class ([good_cfg],
   [change_ok]); arrays given to Update / LoadFn have the current length, loaded values are
   non-negative ([op_ok]).  [Inv] also says that the hidden backup is a consistent grid, which is why
   Revert needs no guard. *)
From Coq Require Import Reals List Arith.
Require Import Kawin.Common.Ops Kawin.Common.Vec Kawin.Common.VecLemmas Kawin.C07.Model Kawin.C08.Model Kawin.C08.Proofs.
Open Scope R_scope.

(* the constructor establishes the invariant *)
Theorem C08_inv_init c : good_cfg c -> Inv (init Rops c).
Proof. exact (inv_init c). Qed.
Print Assumptions C08_inv_init.

(* every operation preserves it *)
Theorem C08_inv_step (s : state Rops) o : Inv s -> op_ok s o -> Inv (step Rops s o).
Proof. exact (inv_step s o). Qed.
Print Assumptions C08_inv_step.

(* hence it holds after ANY sequence of operations, of any length, in any interleaving *)
Theorem C08_inv_reachable c ops : good_cfg c -> ops_ok (init Rops c) ops ->
  Inv (run Rops (init Rops c) ops).
Proof. exact (inv_reachable c ops). Qed.
Print Assumptions C08_inv_reachable.

(* what the invariant means in the words of the property: array lengths match the class count,
   boundaries strictly increase from the stated minimum to the stated maximum, centres are midpoints,
   populations are non-negative *)
Theorem C08_inv_consistent (s : state Rops) : Inv s ->
  length (psd s) = bins s /\ length (bounds s) = S (bins s) /\ length (size s) = bins s /\
  nth 0 (bounds s) 0 = smin s /\ nth (bins s) (bounds s) 0 = smax s /\ smin s < smax s /\
  incr (bounds s) /\
  (forall k, (k < bins s)%nat -> nth k (size s) 0 = (nth k (bounds s) 0 + nth (S k) (bounds s) 0) / 2) /\
  (forall k, 0 <= nth k (psd s) 0).
Proof. exact (inv_consistent s). Qed.
Print Assumptions C08_inv_consistent.

Theorem C08_reachable_consistent c ops : good_cfg c -> ops_ok (init Rops c) ops ->
  let s := run Rops (init Rops c) ops in
  length (psd s) = bins s /\ length (bounds s) = S (bins s) /\ length (size s) = bins s /\
  nth 0 (bounds s) 0 = smin s /\ nth (bins s) (bounds s) 0 = smax s /\ smin s < smax s /\
  incr (bounds s) /\
  (forall k, (k < bins s)%nat -> nth k (size s) 0 = (nth k (bounds s) 0 + nth (S k) (bounds s) 0) / 2) /\
  (forall k, 0 <= nth k (psd s) 0).
Proof. exact (reachable_consistent c ops). Qed.
Print Assumptions C08_reachable_consistent.

(* the invariant delivers the hypotheses of the transport theorems of C07 ([incr] and the non-negativity
   clause are verbatim the definitions incr / nonneg of coq/C07/Proofs.v, the lengths are its wf) *)
Theorem C08_inv_feeds_transport (s : state Rops) : Inv s ->
  incr (bounds s) /\ (forall k, 0 <= nth k (psd s) 0) /\
  length (bounds s) = S (length (psd s)) /\ (1 <= length (psd s))%nat.
Proof. exact (inv_feeds_transport s). Qed.
Print Assumptions C08_inv_feeds_transport.

(* extending the grid leaves existing classes and populations untouched and appends empty classes *)
Theorem C08_extend_prefix (s : state Rops) k : Inv s ->
  let s' := addClasses Rops s k in
  bins s' = (bins s + k)%nat /\ smin s' = smin s /\
  psd s' = psd s ++ zeros Rops k /\
  (forall i, (i <= bins s)%nat -> nth i (bounds s') 0 = nth i (bounds s) 0) /\
  (forall i, (i < bins s)%nat -> nth i (size s') 0 = nth i (size s) 0).
Proof. exact (extend_prefix s k). Qed.
Print Assumptions C08_extend_prefix.

(* re-meshing: whatever the re-binning produced, a non-zero new third moment is rescaled to the old one *)
Theorem C08_remesh_third_moment (s : state Rops) cmin cmax nb : newV s cmin cmax nb <> 0 ->
  M3 (change Rops s cmin cmax nb false) = M3 s.
Proof. exact (remesh_third_moment s cmin cmax nb). Qed.
Print Assumptions C08_remesh_third_moment.

(* re-meshing preserves the third moment exactly whenever the new grid covers the populated range *)
Theorem C08_remesh_covering (s : state Rops) cmin cmax nb : Inv s -> change_ok cmin cmax nb ->
  covered s cmin (newMax cmin cmax) ->
  M3 (change Rops s cmin cmax nb false) = M3 s.
Proof. exact (remesh_covering s cmin cmax nb). Qed.
Print Assumptions C08_remesh_covering.

(* a populated class inside the new range always leaves a positive new third moment *)
Theorem C08_newV_pos (s : state Rops) cmin cmax nb i : Inv s -> change_ok cmin cmax nb ->
  (i < bins s)%nat -> 0 < nth i (psd s) 0 ->
  cmin <= nth i (bounds s) 0 -> nth (S i) (bounds s) 0 <= newMax cmin cmax ->
  0 < newV s cmin cmax nb.
Proof. exact (newV_pos s cmin cmax nb i). Qed.
Print Assumptions C08_newV_pos.

(* [ext] before the rescaling the re-binning conserves the NUMBER of particles when the new grid covers
   the populated range (each old class is shared out completely among the new classes it overlaps) *)
Theorem C08_remesh_conserves_number (s : state Rops) cmin cmax nb : Inv s -> change_ok cmin cmax nb ->
  covered s cmin (newMax cmin cmax) ->
  sumR (remapped s cmin cmax nb) = sumR (psd s).
Proof. exact (remap_conserves_number s cmin cmax nb). Qed.
Print Assumptions C08_remesh_conserves_number.

(* the automatic adjustment (extension, coarsening, refinement after dissolution) conserves the third
   moment when every populated class holds more than one particle (what UpdatePBMEuler leaves, up to
   the value 1 itself): its new grids then cover the populated range *)
Theorem C08_adjust_third_moment (s : state Rops) chk : Inv s -> populated_above_one s ->
  M3 (adjust Rops s chk) = M3 s.
Proof. exact (adjust_third_moment s chk). Qed.
Print Assumptions C08_adjust_third_moment.

(* automatic adjustment with adaptive binning never leaves more classes than the configured maximum *)
Theorem C08_adjust_le_max (s : state Rops) chk : adaptive s = true -> (minBins s <= maxBins s)%nat ->
  (bins (adjust Rops s chk) <= maxBins s)%nat.
Proof. exact (adjust_le_max s chk). Qed.
Print Assumptions C08_adjust_le_max.

(* reset restores the initial grid: after any history, reset() gives the state of the constructor *)
Theorem C08_reset_restores c ops :
  let s := run Rops (init Rops c) ops in
  reset Rops s true = setAdaptive Rops (init Rops c) (adaptive s).
Proof. exact (reset_restores c ops). Qed.
Print Assumptions C08_reset_restores.

(* every moment function evaluated on a supplied distribution depends only on that distribution
   and the grid *)
Theorem C08_moments_depend_only_on_argument (s s' : state Rops) N order w : size s = size s' ->
  MomentFromN Rops s N order = MomentFromN Rops s' N order /\
  CumulativeMomentFromN Rops s N order = CumulativeMomentFromN Rops s' N order /\
  WeightedMomentFromN Rops s N order w = WeightedMomentFromN Rops s' N order w /\
  CumulativeWeightedMomentFromN Rops s N order w = CumulativeWeightedMomentFromN Rops s' N order w.
Proof. exact (moments_depend_only_on_argument s s' N order w). Qed.
Print Assumptions C08_moments_depend_only_on_argument.

Theorem C08_moments_ignore_stored (s : state Rops) p pp pb mb xb ad N order w :
  let s' := mkState Rops (smin s) (smax s) (bins s) p (bounds s) (size s) (omin s) (omax s) (obins s) mb xb ad pp pb in
  MomentFromN Rops s' N order = MomentFromN Rops s N order /\
  CumulativeMomentFromN Rops s' N order = CumulativeMomentFromN Rops s N order /\
  WeightedMomentFromN Rops s' N order w = WeightedMomentFromN Rops s N order w /\
  CumulativeWeightedMomentFromN Rops s' N order w = CumulativeWeightedMomentFromN Rops s N order w.
Proof. exact (moments_ignore_stored s p pp pb mb xb ad N order w). Qed.
Print Assumptions C08_moments_ignore_stored.
