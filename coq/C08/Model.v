(* C08 - faithful model of the size-class grid operations of
   kawin/precipitation/PopulationBalance.py (class PopulationBalanceModel):
     __init__ (53-69), reset (71-92), setAdaptiveBinSize (281-289), LoadDistribution /
     LoadDistributionFunction (303-324), createBackup / revert (326-345), changeSizeClasses (347-388),
     addSizeClasses (390-404), adjustSizeClassesEuler (406-448), UpdatePBMEuler (637-650), the ...FromN
     moment functions (652-706)   [line numbers of the repaired file].
   The model is of the REPAIRED code (fixes/C08-*.patch):
     - reset() initialises the hidden backup with createBackup() (was: all-zero arrays),
     - changeSizeClasses re-bins by class overlap (was: np.interp of the density at the new centres),
     - CumulativeWeightedMomentFromN uses its argument N (was: self.PSD).
   The behaviour of the unrepaired code is kept in Examples.v as [..._old] definitions with
   refutation witnesses.
   Executable definitions only (no proofs), polymorphic in the scalar record. *)
From Coq Require Import List Bool ZArith Arith.
Require Import Kawin.Common.Ops Kawin.Common.Vec Kawin.C07.Model.
Import ListNotations.

Section C08.
Variable O : Ops.
Notation t := (T O).

Record state := mkState {
  smin : t;               (* self.min *)
  smax : t;               (* self.max *)
  bins : nat;             (* self.bins *)
  psd : list t;           (* self.PSD *)
  bounds : list t;        (* self.PSDbounds *)
  size : list t;          (* self.PSDsize *)
  omin : t;               (* self.originalMin *)
  omax : t;               (* self.originalMax *)
  obins : nat;            (* self.originalBins *)
  minBins : nat;          (* self.minBins *)
  maxBins : nat;          (* self.maxBins *)
  adaptive : bool;        (* self._adaptiveBinSize *)
  prevPSD : list t;       (* self._prevPSD *)
  prevBounds : list t     (* self._prevPSDbounds *)
}.

Definition zeros (n : nat) : list t := repeat (zero O) n.
Definition ofNat (n : nat) : t := ofZ O (Z.of_nat n).
Definition ten : t := ofZ O 10.

(* reset(resetBounds): linspace, midpoints, empty PSD, backup := copy of the new PSD and bounds *)
Definition reset (s : state) (rb : bool) : state :=
  let mn := if rb then omin s else smin s in
  let mx := if rb then omax s else smax s in
  let n := if rb then obins s else bins s in
  let b := linspace O mn mx n in
  mkState mn mx n (zeros n) b (mids O b) (omin s) (omax s) (obins s) (minBins s) (maxBins s)
          (adaptive s) (zeros n) b.

(* PopulationBalanceModel(cMin, cMax, bins, minBins, maxBins) *)
Record cfg := mkCfg { cMin : t; cMax : t; cBins : nat; cMinBins : nat; cMaxBins : nat }.

Definition init (c : cfg) : state :=
  let om := maxT O (mul O ten (cMin c)) (cMax c) in      (* np.amax([10*originalMin, cMax]) *)
  reset (mkState (cMin c) om (cBins c) [] [] [] (cMin c) om (cBins c) (cMinBins c) (cMaxBins c)
                 true [] []) true.

(* addSizeClasses(k) *)
Definition addClasses (s : state) (k : nat) : state :=
  let n := bins s + k in
  let mx := add O (smax s) (mul O (ofNat k) (sub O (nthT O (bounds s) 1) (nthT O (bounds s) 0))) in
  let b := linspace O (smin s) mx n in
  mkState (smin s) mx n (psd s ++ zeros k) b (mids O b) (omin s) (omax s) (obins s)
          (minBins s) (maxBins s) (adaptive s) (prevPSD s) (prevBounds s).

(* consecutive pairs (l[:-1], l[1:]) *)
Definition pairs (l : list t) : list (t * t) := combine (init_ l) (tail_ l).

(* np.clip(min(hi', hi) - max(lo', lo), 0, None): width shared by the new class [lo',hi'] and the
   old class [lo,hi] *)
Definition overlap (c' c : t * t) : t :=
  maxT O (sub O (minT O (snd c') (snd c)) (maxT O (fst c') (fst c))) (zero O).

(* np.matmul(np.clip(overlap, 0, None), distDen) *)
Definition remap (oldB dens newB : list t) : list t :=
  map (fun c' => sumT O (zipWith (fun c d => mul O (overlap c' c) d) (pairs oldB) dens)) (pairs newB).

Definition thirdMoment (sz N : list t) : t := momentFromN O sz N 3.

(* changeSizeClasses(cMin, cMax, bins, resetPSD) *)
Definition change (s : state) (cmin cmax : t) (nb : option nat) (r : bool) : state :=
  let n := match nb with Some b => b | None => bins s end in
  let mx := maxT O (mul O ten cmin) cmax in              (* np.amax([10*self.min, cMax]) *)
  let s1 := mkState cmin mx n (psd s) (bounds s) (size s) (omin s) (omax s) (obins s)
                    (minBins s) (maxBins s) (adaptive s) (prevPSD s) (prevBounds s) in
  if r then reset s1 true        (* self.reset(): resetBounds defaults to True *)
  else
    let oldV := thirdMoment (size s) (psd s) in
    let dens := zipWith (dvd O) (psd s) (diffs O (bounds s)) in
    let s2 := reset s1 false in
    let p := remap (bounds s) dens (bounds s2) in
    let newV := thirdMoment (size s2) p in
    let p' := if eqb O newV (zero O) then zeros n
              else map (fun x => mul O x (dvd O oldV newV)) p in
    mkState (smin s2) (smax s2) (bins s2) p' (bounds s2) (size s2) (omin s2) (omax s2) (obins s2)
            (minBins s2) (maxBins s2) (adaptive s2) (prevPSD s2) (prevBounds s2).

(* boolean-mask selection  a[mask] *)
Fixpoint select {A} (mask : list bool) (l : list A) : list A :=
  match mask, l with
  | m :: ms, x :: xs => if m then x :: select ms xs else select ms xs
  | _, _ => []
  end.
Definition amaxl (l : list t) : t := match l with [] => zero O | x :: r => amax O x r end.

(* adjustSizeClassesEuler(checkDissolution): returns
   (new state, change, newIndices, raised IndexError) *)
Definition adjust_full (s : state) (chk : bool) : state * bool * option nat * bool :=
  let added := ltb O (one O) (last (psd s) (zero O)) in                 (* self.PSD[-1] > 1 *)
  let s1 := if added then addClasses s (obins s / 4) else s in          (* int(originalBins/4) *)
  let ni := if added then Some (bins s) else None in
  if adaptive s1 then
    if (maxBins s1 <? bins s1)%nat then
      (change s1 (nthT O (bounds s1) 0) (last (bounds s1) (zero O)) (Some (minBins s1)) false,
       true, None, false)
    else if chk && ltb O (mul O ten (nthT O (bounds s1) 0)) (last (bounds s1) (zero O)) then
      let big := map (fun x => ltb O (one O) x) (psd s1) in            (* self.PSD > 1 *)
      if existsb (fun b => b) big then
        match nth_error (size s1) (minBins s1 / 2) with               (* PSDsize[int(minBins/2)] *)
        | None => (s1, added, ni, true)                                 (* IndexError *)
        | Some ref =>
            if ltb O (amaxl (select big (size s1))) ref then
              (change s1 (nthT O (bounds s1) 0) (amaxl (select big (tail_ (bounds s1))))
                      (Some (maxBins s1)) false, true, None, false)
            else (s1, added, ni, false)
        end
      else (s1, added, ni, false)
    else (s1, added, ni, false)
  else (s1, added, ni, false).
Definition adjust (s : state) (chk : bool) : state := fst (fst (fst (adjust_full s chk))).

(* UpdatePBMEuler(time, newN): self.PSD = newN; self.PSD[self.PSD < 1] = 0 *)
Definition update (s : state) (newN : list t) : state :=
  mkState (smin s) (smax s) (bins s) (map (fun x => if ltb O x (one O) then zero O else x) newN)
          (bounds s) (size s) (omin s) (omax s) (obins s) (minBins s) (maxBins s) (adaptive s)
          (prevPSD s) (prevBounds s).

Definition backup (s : state) : state :=
  mkState (smin s) (smax s) (bins s) (psd s) (bounds s) (size s) (omin s) (omax s) (obins s)
          (minBins s) (maxBins s) (adaptive s) (psd s) (bounds s).

(* revert(): PSDsize = 0.5*(b[1:] + b[:-1]) (same sum as mids, operands swapped),
   bins = len(PSD), min, max = bounds[0], bounds[-1] *)
Definition revert (s : state) : state :=
  let b := prevBounds s in
  mkState (nthT O b 0) (last b (zero O)) (length (prevPSD s)) (prevPSD s) b (mids O b)
          (omin s) (omax s) (obins s) (minBins s) (maxBins s) (adaptive s) (prevPSD s) (prevBounds s).

(* LoadDistributionFunction(f): self.PSD = f(self.PSDsize); the values are whatever f returned *)
Definition loadFn (s : state) (vals : list t) : state :=
  mkState (smin s) (smax s) (bins s) vals (bounds s) (size s) (omin s) (omax s) (obins s)
          (minBins s) (maxBins s) (adaptive s) (prevPSD s) (prevBounds s).

(* np.histogram(data, edges): class i counts lo_i <= x < hi_i, the last class also x = hi *)
Fixpoint histogram (edges data : list t) : list t :=
  match edges with
  | lo :: ((hi :: rest) as r) =>
      let inb := fun x => leb O lo x && (match rest with [] => leb O x hi | _ => ltb O x hi end) in
      ofNat (length (filter inb data)) :: histogram r data
  | _ => []
  end.
(* LoadDistribution(data): PSD, PSDbounds = np.histogram(data, PSDbounds) (edges returned unchanged) *)
Definition loadHist (s : state) (data : list t) : state :=
  mkState (smin s) (smax s) (bins s) (histogram (bounds s) data) (bounds s) (size s) (omin s)
          (omax s) (obins s) (minBins s) (maxBins s) (adaptive s) (prevPSD s) (prevBounds s).

Definition setAdaptive (s : state) (a : bool) : state :=
  mkState (smin s) (smax s) (bins s) (psd s) (bounds s) (size s) (omin s) (omax s) (obins s)
          (minBins s) (maxBins s) a (prevPSD s) (prevBounds s).

Inductive op :=
| Reset (resetBounds : bool)
| Add (k : nat)
| Change (cmin cmax : t) (nb : option nat) (resetPSD : bool)
| Adjust (checkDissolution : bool)
| Update (newN : list t)
| Backup
| Revert
| LoadFn (vals : list t)
| LoadHist (data : list t)
| SetAdaptive (a : bool).

Definition step (s : state) (o : op) : state :=
  match o with
  | Reset rb => reset s rb
  | Add k => addClasses s k
  | Change cmin cmax nb r => change s cmin cmax nb r
  | Adjust chk => adjust s chk
  | Update newN => update s newN
  | Backup => backup s
  | Revert => revert s
  | LoadFn vals => loadFn s vals
  | LoadHist data => loadHist s data
  | SetAdaptive a => setAdaptive s a
  end.

Definition run (s : state) (ops : list op) : state := fold_left step ops s.

(* ---- moment functions evaluated on a supplied distribution N ------------------------- *)
Definition MomentFromN (s : state) (N : list t) (order : nat) : t := momentFromN O (size s) N order.
Definition CumulativeMomentFromN (s : state) (N : list t) (order : nat) : list t :=
  cumMomentFromN O (size s) N order.
(* N * self.PSDsize**order * weights *)
Definition weighted (s : state) (N : list t) (order : nat) (w : list t) : list t :=
  zip3 (fun n r w => mul O (mul O n (powT O r order)) w) N (size s) w.
Definition WeightedMomentFromN (s : state) (N : list t) (order : nat) (w : list t) : t :=
  sumT O (weighted s N order w).
Definition CumulativeWeightedMomentFromN (s : state) (N : list t) (order : nat) (w : list t) : list t :=
  cumsum O (weighted s N order w).

End C08.

Arguments select {A} mask l.
