(* C08 - lemmas about the real-number instance of the grid operations (Model.v). *)
From Coq Require Import Reals List Bool ZArith Arith Lia Lra Psatz.
Require Import Kawin.Common.Ops Kawin.Common.Vec Kawin.Common.VecLemmas Kawin.C07.Model Kawin.C08.Model.
Import ListNotations.
Open Scope R_scope.

Tactic Notation "lia" := (cbn [T Rops] in *; Lia.lia).
Tactic Notation "lra" := (cbn [T Rops] in *; Lra.lra).
Tactic Notation "nra" := (cbn [T Rops] in *; Lra.nra).

Notation nthR l k := (nth k l 0).
Ltac Tfix := change (T Rops) with R in *.
Ltac Req := cbn [T Rops] in *; match goal with |- @eq _ ?x ?y => change (@eq R x y) end.

Arguments smin {O} s.   Arguments smax {O} s.   Arguments bins {O} s.
Arguments psd {O} s.    Arguments bounds {O} s. Arguments size {O} s.
Arguments omin {O} s.   Arguments omax {O} s.   Arguments obins {O} s.
Arguments minBins {O} s. Arguments maxBins {O} s. Arguments adaptive {O} s.
Arguments prevPSD {O} s. Arguments prevBounds {O} s.

Notation st := (state Rops).

(* ---- small facts on the real instance ------------------------------------------------- *)
Lemma maxT_Rmax a b : maxT Rops a b = Rmax a b.
Proof.
  unfold maxT. Rnorm. destruct (Rltb a b) eqn:E; Rbool; unfold Rmax; destruct (Rle_dec a b); lra.
Qed.
Lemma minT_Rmin a b : minT Rops a b = Rmin a b.
Proof.
  unfold minT. Rnorm. destruct (Rltb b a) eqn:E; Rbool; unfold Rmin; destruct (Rle_dec a b); lra.
Qed.
Lemma ofNat_INR n : ofNat Rops n = INR n.
Proof. unfold ofNat. Rnorm. symmetry. apply INR_IZR_INZ. Qed.
Lemma ten_R : ten Rops = 10.
Proof. reflexivity. Qed.

Definition nonnegl (l : list R) : Prop := Forall (fun x => 0 <= x) l.

Lemma nonnegl_nth l k : nonnegl l -> 0 <= nthR l k.
Proof.
  intros H. revert k. induction H as [|x l Hx Hl IH]; intros [|k]; simpl; try lra; auto.
Qed.

Lemma Forall_nthR (P : R -> Prop) l : (forall k, (k < length l)%nat -> P (nthR l k)) -> Forall P l.
Proof.
  intros H. apply Forall_forall. intros x Hx. destruct (In_nth l x 0 Hx) as (k & Hk & E).
  rewrite <- E. apply H. exact Hk.
Qed.

Lemma zeros_length n : length (zeros Rops n) = n.
Proof. apply repeat_length. Qed.
Lemma zeros_nonneg n : nonnegl (zeros Rops n).
Proof. unfold zeros, nonnegl. induction n; simpl; constructor; auto. Rnorm. lra. Qed.
Lemma nth_zeros n k : nthR (zeros Rops n) k = 0.
Proof. unfold zeros. revert k; induction n; intros [|k]; simpl; auto. Qed.

Lemma sumR_ge_term l k : nonnegl l -> nthR l k <= sumR l.
Proof.
  intros H. revert k. induction H as [|x l Hx Hl IH]; intros [|k]; simpl; Rnorm; try lra.
  - pose proof (sumR_nonneg l Hl). lra.
  - specialize (IH k). lra.
Qed.

Lemma Forall_zipWith {A B} (P : A -> Prop) (Q : B -> Prop) (Pr : R -> Prop) (f : A -> B -> R) l1 l2 :
  Forall P l1 -> Forall Q l2 -> (forall a b, P a -> Q b -> Pr (f a b)) -> Forall Pr (zipWith f l1 l2).
Proof.
  intros H1. revert l2. induction H1 as [|a l1 Ha Hl IH]; intros l2 H2 Hf; simpl; [constructor|].
  destruct H2 as [|b l2 Hb Hl2]; constructor; auto.
Qed.

(* ---- linspace ------------------------------------------------------------------------- *)
Definition lin (a b : R) (n i : nat) : R := a + INR i * ((b - a) / INR n).

Lemma linspace_length (a b : R) n : length (linspace Rops a b n) = S n.
Proof. unfold linspace. rewrite map_length, seq_length. reflexivity. Qed.

Lemma linspace_nth (a b : R) n i : (0 < n)%nat -> (i <= n)%nat -> nthR (linspace Rops a b n) i = lin a b n i.
Proof.
  intros Hn Hi. unfold linspace.
  match goal with |- nth _ (map ?g _) _ = _ => set (f := g) end.
  rewrite (nth_indep _ 0 (f 0%nat)) by (rewrite map_length, seq_length; lia).
  rewrite map_nth, seq_nth by lia. simpl plus. unfold f, lin.
  assert (Hn0 : INR n <> 0) by (apply not_0_INR; lia).
  destruct (Nat.eqb_spec i n) as [->|Hne].
  - Req. field. exact Hn0.
  - Rnorm. rewrite <- !INR_IZR_INZ. reflexivity.
Qed.

Lemma lin_0 a b n : lin a b n 0 = a.
Proof. unfold lin. simpl. lra. Qed.
Lemma lin_n a b n : (0 < n)%nat -> lin a b n n = b.
Proof. intros Hn. unfold lin. field. apply not_0_INR. lia. Qed.
Lemma lin_lt a b n i j : a < b -> (0 < n)%nat -> (i < j)%nat -> lin a b n i < lin a b n j.
Proof.
  intros Hab Hn Hij. unfold lin.
  assert (0 < (b - a) / INR n). { apply Rdiv_lt_0_compat; [lra|]. apply lt_0_INR. lia. }
  apply lt_INR in Hij. nra.
Qed.
Lemma lin_ge a b n i : a < b -> (0 < n)%nat -> a <= lin a b n i.
Proof.
  intros Hab Hn. destruct i; [rewrite lin_0; lra|].
  pose proof (lin_lt a b n 0 (S i) Hab Hn ltac:(lia)). rewrite lin_0 in H. lra.
Qed.

Definition incr (l : list R) : Prop :=
  forall i j, (i < j < length l)%nat -> nthR l i < nthR l j.

Lemma linspace_incr (a b : R) n : a < b -> (0 < n)%nat -> incr (linspace Rops a b n).
Proof.
  intros Hab Hn i j [Hij Hj]. rewrite linspace_length in Hj.
  rewrite !linspace_nth by lia. apply lin_lt; auto.
Qed.
Lemma linspace_hd (a b : R) n : (0 < n)%nat -> nthR (linspace Rops a b n) 0 = a.
Proof. intros Hn. rewrite linspace_nth by lia. apply lin_0. Qed.
Lemma linspace_last (a b : R) n : (0 < n)%nat -> last (linspace Rops a b n) 0 = b.
Proof.
  intros Hn. rewrite last_nth, linspace_length. replace (S n - 1)%nat with n by lia.
  rewrite linspace_nth by lia. apply lin_n; auto.
Qed.

(* ---- consecutive pairs ---------------------------------------------------------------- *)
Lemma pairs_length (l : list R) : length (pairs Rops l) = (length l - 1)%nat.
Proof.
  unfold pairs, init_, tail_. rewrite combine_length, removelast_length, tl_length. lia.
Qed.
Lemma nth_pairs (l : list R) j : (S j < length l)%nat ->
  nth j (pairs Rops l) (0, 0) = (nthR l j, nthR l (S j)).
Proof.
  intros Hj. unfold pairs, init_, tail_.
  rewrite combine_nth by (rewrite removelast_length, tl_length; reflexivity).
  rewrite nth_removelast by lia. rewrite nth_tl. reflexivity.
Qed.

(* ---- the invariant -------------------------------------------------------------------- *)
(* a grid: class count, stated minimum and maximum, boundaries *)
Definition grid_ok (mn mx : R) (n : nat) (b : list R) : Prop :=
  (0 < n)%nat /\ 0 <= mn /\ mn < mx /\ b = linspace Rops mn mx n.

Definition Inv (s : st) : Prop :=
  grid_ok (smin s) (smax s) (bins s) (bounds s) /\
  size s = mids Rops (bounds s) /\
  length (psd s) = bins s /\ nonnegl (psd s) /\
  (* configuration *)
  0 <= omin s /\ omin s < omax s /\ (0 < obins s)%nat /\ (0 < minBins s <= maxBins s)%nat /\
  (* the hidden backup is a consistent grid with a distribution of its own *)
  grid_ok (nthR (prevBounds s) 0) (last (prevBounds s) 0) (length (prevPSD s)) (prevBounds s) /\
  nonnegl (prevPSD s).

Lemma grid_ok_linspace mn mx n : (0 < n)%nat -> 0 <= mn -> mn < mx -> grid_ok mn mx n (linspace Rops mn mx n).
Proof. intros. repeat split; auto. Qed.

Lemma grid_ok_self mn mx n b : grid_ok mn mx n b -> grid_ok (nthR b 0) (last b 0) n b.
Proof.
  intros (Hn & H0 & Hlt & ->). rewrite linspace_hd, linspace_last by auto. repeat split; auto.
Qed.

Lemma grid_length mn mx n b : grid_ok mn mx n b -> length b = S n.
Proof. intros (_ & _ & _ & ->). apply linspace_length. Qed.
Lemma grid_nth mn mx n b i : grid_ok mn mx n b -> (i <= n)%nat -> nthR b i = lin mn mx n i.
Proof. intros (Hn & _ & _ & ->) Hi. apply linspace_nth; auto. Qed.
Lemma grid_incr mn mx n b : grid_ok mn mx n b -> incr b.
Proof. intros (Hn & _ & Hlt & ->). apply linspace_incr; auto. Qed.
Lemma grid_ge mn mx n b i : grid_ok mn mx n b -> (i <= n)%nat -> mn <= nthR b i.
Proof. intros G Hi. rewrite (grid_nth _ _ _ _ _ G Hi). destruct G as (Hn & _ & Hlt & _). apply lin_ge; auto. Qed.
Lemma grid_step mn mx n b : grid_ok mn mx n b -> nthR b 1 - nthR b 0 = (mx - mn) / INR n.
Proof.
  intros G. rewrite !(grid_nth _ _ _ _ _ G) by (destruct G; lia). unfold lin. simpl INR. lra.
Qed.

(* what the property text says, derived from the invariant *)
Lemma inv_consistent (s : st) : Inv s ->
  length (psd s) = bins s /\ length (bounds s) = S (bins s) /\ length (size s) = bins s /\
  nthR (bounds s) 0 = smin s /\ nthR (bounds s) (bins s) = smax s /\ smin s < smax s /\
  incr (bounds s) /\
  (forall k, (k < bins s)%nat -> nthR (size s) k = (nthR (bounds s) k + nthR (bounds s) (S k)) / 2) /\
  (forall k, 0 <= nthR (psd s) k).
Proof.
  intros (G & Hs & Hl & Hp & _).
  pose proof (grid_length _ _ _ _ G) as Lb.
  destruct G as (Hn & H0 & Hlt & Hb).
  repeat split; auto.
  - rewrite Hs, mids_length. lia.
  - rewrite Hb. apply linspace_hd; auto.
  - rewrite Hb, linspace_nth by lia. apply lin_n; auto.
  - rewrite Hb. apply linspace_incr; auto.
  - intros k Hk. rewrite Hs. apply nth_mids. lia.
  - intros k. apply nonnegl_nth; auto.
Qed.

(* the same facts in the form the transport theorems of C07 take as hypotheses: [incr] and the
   non-negativity clause are, verbatim, the definitions Kawin.C07.Proofs.incr / nonneg, the two length
   facts are the boundary / distribution part of Kawin.C07.Proofs.wf (this file does not Require
   C07/Proofs.v so that the two developments build independently) *)
Lemma inv_feeds_transport (s : st) : Inv s ->
  incr (bounds s) /\ (forall k, 0 <= nthR (psd s) k) /\
  length (bounds s) = S (length (psd s)) /\ (1 <= length (psd s))%nat.
Proof.
  intros H. destruct (inv_consistent s H) as (L1 & L2 & _ & _ & _ & _ & Hi & _ & Hp).
  destruct H as ((Hn & _) & _).
  repeat split; auto; lia.
Qed.

(* ---- reset / constructor -------------------------------------------------------------- *)
Definition cfg_ok (s : st) : Prop :=
  0 <= omin s /\ omin s < omax s /\ (0 < obins s)%nat /\ (0 < minBins s <= maxBins s)%nat.

Lemma inv_of_grid mn mx n om oM ob mb xb ad :
  (0 < n)%nat -> 0 <= mn -> mn < mx ->
  0 <= om -> om < oM -> (0 < ob)%nat -> (0 < mb <= xb)%nat ->
  let b := linspace Rops mn mx n in
  Inv (mkState Rops mn mx n (zeros Rops n) b (mids Rops b) om oM ob mb xb ad (zeros Rops n) b).
Proof.
  intros Hn H0 Hlt Ho1 Ho2 Ho3 Ho4 b. unfold Inv; cbn [smin smax bins psd bounds size omin omax obins minBins maxBins prevPSD prevBounds].
  repeat split; auto; try apply zeros_length; try apply zeros_nonneg; try lia.
  - rewrite zeros_length. lia.
  - unfold b. rewrite linspace_hd by auto. exact H0.
  - unfold b. rewrite linspace_hd, linspace_last by auto. exact Hlt.
  - unfold b. rewrite linspace_hd, linspace_last, zeros_length by auto. reflexivity.
Qed.

Lemma reset_true_inv (s : st) : cfg_ok s -> Inv (reset Rops s true).
Proof. intros (H1 & H2 & H3 & H4). unfold reset. apply inv_of_grid; auto. Qed.

Lemma reset_false_inv (s : st) : cfg_ok s -> (0 < bins s)%nat -> 0 <= smin s -> smin s < smax s ->
  Inv (reset Rops s false).
Proof. intros (H1 & H2 & H3 & H4) Hn H0 Hlt. unfold reset. apply inv_of_grid; auto. Qed.

Lemma inv_cfg (s : st) : Inv s -> cfg_ok s.
Proof. intros (_ & _ & _ & _ & H1 & H2 & H3 & H4 & _). repeat split; auto; lia. Qed.

Lemma inv_reset (s : st) rb : Inv s -> Inv (reset Rops s rb).
Proof.
  intros H. pose proof (inv_cfg s H) as Hc. destruct rb.
  - apply reset_true_inv; auto.
  - destruct H as ((Hn & H0 & Hlt & _) & _). apply reset_false_inv; auto.
Qed.

Definition good_cfg (c : cfg Rops) : Prop :=
  0 <= cMin Rops c /\ cMin Rops c < Rmax (10 * cMin Rops c) (cMax Rops c) /\
  (0 < cBins Rops c)%nat /\ (0 < cMinBins Rops c <= cMaxBins Rops c)%nat.

Lemma inv_init c : good_cfg c -> Inv (init Rops c).
Proof.
  intros (H0 & Hlt & Hb & Hm). unfold init. apply reset_true_inv.
  unfold cfg_ok; cbn [omin omax obins minBins maxBins]. rewrite maxT_Rmax, ten_R. Rnorm.
  repeat split; auto; lia.
Qed.

(* ---- operations preserve the invariant ------------------------------------------------ *)
Ltac projs := cbn [smin smax bins psd bounds size omin omax obins minBins maxBins adaptive prevPSD prevBounds] in *.

(* replacing the distribution by one of the right length with non-negative entries *)
Lemma inv_set_psd (s : st) p : Inv s -> length p = bins s -> nonnegl p ->
  Inv (mkState Rops (smin s) (smax s) (bins s) p (bounds s) (size s) (omin s) (omax s) (obins s)
               (minBins s) (maxBins s) (adaptive s) (prevPSD s) (prevBounds s)).
Proof.
  intros (G & Hs & Hl & Hp & C1 & C2 & C3 & C4 & PG & PP) L N. unfold Inv; projs.
  repeat split; auto; try lia; try apply PG; try apply G.
Qed.

Lemma inv_add (s : st) k : Inv s -> Inv (addClasses Rops s k).
Proof.
  intros H. pose proof H as (G & Hs & Hl & Hp & C1 & C2 & C3 & C4 & PG & PP).
  pose proof (grid_step _ _ _ _ G) as Hstep.
  destruct G as (Hn & H0 & Hlt & Hb).
  unfold addClasses, Inv; projs. rewrite ofNat_INR. unfold nthT. Rnorm.
  set (mx := smax s + INR k * (nthR (bounds s) 1 - nthR (bounds s) 0)).
  assert (Hmx : smin s < mx).
  { unfold mx. Tfix. rewrite Hstep. assert (0 <= INR k) by apply pos_INR.
    assert (0 < (smax s - smin s) / INR (bins s)) by (apply Rdiv_lt_0_compat; [lra | apply lt_0_INR; lia]).
    nra. }
  repeat split; auto; try lia; try apply PG.
  - rewrite app_length, zeros_length. lia.
  - apply Forall_app. split; auto. apply zeros_nonneg.
Qed.

Lemma diffs_pos l : incr l -> Forall (fun d => 0 < d) (diffs Rops l).
Proof.
  intros Hi. apply Forall_nthR. intros k Hk. rewrite diffs_length in Hk.
  rewrite nth_diffs by lia. specialize (Hi k (S k) ltac:(lia)). lra.
Qed.

Definition density (p b : list R) : list R := zipWith (dvd Rops) p (diffs Rops b).

Lemma dens_nonneg p b : nonnegl p -> incr b -> nonnegl (density p b).
Proof.
  intros Hp Hb. unfold density, nonnegl.
  apply (Forall_zipWith (fun x => 0 <= x) (fun d => 0 < d)); auto using diffs_pos.
  intros a d Ha Hd. Rnorm. unfold Rdiv. apply Rmult_le_pos; auto. left. apply Rinv_0_lt_compat; auto.
Qed.

Lemma overlap_nonneg c' c : 0 <= overlap Rops c' c.
Proof. unfold overlap. rewrite maxT_Rmax. apply Rmax_r. Qed.

Lemma remap_length (oldB dens newB : list R) : length (remap Rops oldB dens newB) = (length newB - 1)%nat.
Proof. unfold remap. rewrite map_length, pairs_length. reflexivity. Qed.

Lemma remap_terms_nonneg c' (oldB dens : list R) : nonnegl dens ->
  nonnegl (zipWith (fun c d => mul Rops (overlap Rops c' c) d) (pairs Rops oldB) dens).
Proof.
  intros Hd. unfold nonnegl.
  apply (Forall_zipWith (fun _ => True) (fun d => 0 <= d)); auto.
  - apply Forall_forall; auto.
  - intros c d _ Hd'. Rnorm. apply Rmult_le_pos; auto using overlap_nonneg.
Qed.

Lemma remap_nonneg (oldB dens newB : list R) : nonnegl dens -> nonnegl (remap Rops oldB dens newB).
Proof.
  intros Hd. unfold remap. apply Forall_forall. intros x Hx.
  apply in_map_iff in Hx as (c' & <- & _). apply sumR_nonneg, remap_terms_nonneg; auto.
Qed.

Lemma cube_nonneg r : 0 <= r -> 0 <= powT Rops r 3.
Proof. intros H. simpl. Rnorm. assert (0 <= r * 1) by lra. assert (0 <= r * (r * 1)) by nra. nra. Qed.
Lemma cube_pos r : 0 < r -> 0 < powT Rops r 3.
Proof. intros H. simpl. Rnorm. assert (0 < r * 1) by lra. assert (0 < r * (r * 1)) by nra. nra. Qed.

Definition M3terms (sz N : list R) : list R := zipWith (fun n r => mul Rops n (powT Rops r 3)) N sz.
Lemma thirdMoment_terms sz N : thirdMoment Rops sz N = sumR (M3terms sz N).
Proof. reflexivity. Qed.

Lemma M3terms_nonneg sz N : nonnegl N -> nonnegl sz -> nonnegl (M3terms sz N).
Proof.
  intros HN Hs. unfold M3terms, nonnegl.
  apply (Forall_zipWith (fun x => 0 <= x) (fun x => 0 <= x)); auto.
  intros a b Ha Hb. Rnorm. apply Rmult_le_pos; auto using cube_nonneg.
Qed.
Lemma thirdMoment_nonneg sz N : nonnegl N -> nonnegl sz -> 0 <= thirdMoment Rops sz N.
Proof. intros. rewrite thirdMoment_terms. apply sumR_nonneg, M3terms_nonneg; auto. Qed.

Lemma centres_nonneg mn mx n b : grid_ok mn mx n b -> nonnegl (mids Rops b).
Proof.
  intros G. pose proof (grid_length _ _ _ _ G) as L. apply Forall_nthR. intros k Hk.
  rewrite mids_length in Hk. rewrite nth_mids by lia.
  pose proof (grid_ge _ _ _ _ k G ltac:(lia)) as G1. pose proof (grid_ge _ _ _ _ (S k) G ltac:(lia)) as G2.
  destruct G as (_ & Hmn & _). lra.
Qed.

Definition change_ok (cmin cmax : R) (nb : option nat) : Prop :=
  0 <= cmin /\ cmin < Rmax (10 * cmin) cmax /\ (forall b, nb = Some b -> (0 < b)%nat).

(* the pieces of changeSizeClasses, named *)
Definition newBins (s : st) (nb : option nat) : nat := match nb with Some b => b | None => bins s end.
Definition newMax (cmin cmax : R) : R := Rmax (10 * cmin) cmax.
Definition newBounds (s : st) cmin cmax nb : list R := linspace Rops cmin (newMax cmin cmax) (newBins s nb).
Definition remapped (s : st) cmin cmax nb : list R :=
  remap Rops (bounds s) (density (psd s) (bounds s)) (newBounds s cmin cmax nb).
Definition newV (s : st) cmin cmax nb : R := thirdMoment Rops (mids Rops (newBounds s cmin cmax nb)) (remapped s cmin cmax nb).
Definition M3 (s : st) : R := thirdMoment Rops (size s) (psd s).

Lemma change_false_eq (s : st) cmin cmax nb :
  change Rops s cmin cmax nb false =
  let n := newBins s nb in let b := newBounds s cmin cmax nb in
  mkState Rops cmin (newMax cmin cmax) n
    (if Reqb (newV s cmin cmax nb) 0 then zeros Rops n
     else map (fun x => x * (M3 s / newV s cmin cmax nb)) (remapped s cmin cmax nb))
    b (mids Rops b) (omin s) (omax s) (obins s) (minBins s) (maxBins s) (adaptive s) (zeros Rops n) b.
Proof.
  unfold change, reset, newV, remapped, newBounds, newMax, newBins, M3, density; projs.
  rewrite maxT_Rmax, ten_R. reflexivity.
Qed.

Lemma newBins_pos (s : st) cmin cmax nb : Inv s -> change_ok cmin cmax nb -> (0 < newBins s nb)%nat.
Proof.
  intros ((Hn & _) & _) (_ & _ & Hb). unfold newBins. destruct nb; auto.
Qed.

Lemma newGrid_ok (s : st) cmin cmax nb : Inv s -> change_ok cmin cmax nb ->
  grid_ok cmin (newMax cmin cmax) (newBins s nb) (newBounds s cmin cmax nb).
Proof.
  intros H C. pose proof (newBins_pos s cmin cmax nb H C) as Hn. destruct C as (Hc0 & Hlt & _).
  apply grid_ok_linspace; auto.
Qed.

Lemma remapped_length (s : st) cmin cmax nb : length (remapped s cmin cmax nb) = newBins s nb.
Proof. unfold remapped. rewrite remap_length. unfold newBounds. rewrite linspace_length. lia. Qed.

Lemma remapped_nonneg (s : st) cmin cmax nb : Inv s -> nonnegl (remapped s cmin cmax nb).
Proof.
  intros H. apply remap_nonneg, dens_nonneg; [apply H|]. destruct H as (G & _). eapply grid_incr; eauto.
Qed.

Lemma M3_nonneg (s : st) : Inv s -> 0 <= M3 s.
Proof.
  intros (G & Hs & _ & Hp & _). apply thirdMoment_nonneg; auto. rewrite Hs. eapply centres_nonneg; eauto.
Qed.
Lemma newV_nonneg (s : st) cmin cmax nb : Inv s -> change_ok cmin cmax nb -> 0 <= newV s cmin cmax nb.
Proof.
  intros H C. apply thirdMoment_nonneg; [apply remapped_nonneg; auto|].
  eapply centres_nonneg. apply newGrid_ok; eauto.
Qed.

Lemma inv_change (s : st) cmin cmax nb r : Inv s -> change_ok cmin cmax nb -> Inv (change Rops s cmin cmax nb r).
Proof.
  intros H C. pose proof (inv_cfg s H) as Hc. destruct r.
  - unfold change. apply reset_true_inv. exact Hc.
  - rewrite change_false_eq. cbv zeta.
    pose proof (newBins_pos s cmin cmax nb H C) as Hn. pose proof C as (H0 & Hlt & _).
    destruct Hc as (C1 & C2 & C3 & C4).
    pose proof (inv_of_grid cmin (newMax cmin cmax) (newBins s nb) (omin s) (omax s) (obins s)
                  (minBins s) (maxBins s) (adaptive s) Hn H0 Hlt C1 C2 C3 C4) as I0. cbv zeta in I0.
    fold (newBounds s cmin cmax nb) in I0.
    apply (inv_set_psd _ _ I0); projs.
    + destruct (Reqb _ 0); [apply zeros_length|]. rewrite map_length. apply remapped_length.
    + destruct (Reqb (newV s cmin cmax nb) 0) eqn:E; [apply zeros_nonneg|]. Rbool.
      pose proof (newV_nonneg s cmin cmax nb H C). pose proof (M3_nonneg s H).
      pose proof (remapped_nonneg s cmin cmax nb H) as Hr.
      unfold nonnegl in *. apply Forall_map. eapply Forall_impl; [|exact Hr]. intros a Ha. cbv beta.
      apply Rmult_le_pos; auto. unfold Rdiv. apply Rmult_le_pos; auto.
      left. apply Rinv_0_lt_compat. lra.
Qed.

(* ---- boolean masks, amax ---------------------------------------------------------------- *)
Lemma maxT_cases (a b : R) : maxT Rops a b = a \/ maxT Rops a b = b.
Proof. unfold maxT. destruct (ltb Rops a b); auto. Qed.

Lemma amax_In (x : R) r : In (amax Rops x r) (x :: r).
Proof.
  revert x; induction r as [|y r IH]; intros x; simpl; auto.
  destruct (IH (maxT Rops x y)) as [E|I]; [|right; right; exact I].
  rewrite <- E. destruct (maxT_cases x y) as [-> | ->]; auto.
Qed.

Lemma amax_acc (x : R) r : x <= amax Rops x r.
Proof.
  revert x; induction r as [|z r IH]; intros x; simpl; [lra|].
  specialize (IH (maxT Rops x z)). rewrite maxT_Rmax in *. pose proof (Rmax_l x z). lra.
Qed.

Lemma amax_ge (x : R) r y : In y (x :: r) -> y <= amax Rops x r.
Proof.
  revert x; induction r as [|z r IH]; intros x Hy.
  - simpl in *. destruct Hy as [->|[]]. lra.
  - destruct Hy as [->|[->|Hy]].
    + apply amax_acc.
    + simpl amax. pose proof (amax_acc (maxT Rops x y) r) as A. rewrite maxT_Rmax in *.
      pose proof (Rmax_r x y). lra.
    + simpl amax. apply IH. right. exact Hy.
Qed.

Lemma amaxl_In (l : list R) : l <> [] -> In (amaxl Rops l) l.
Proof. destruct l; [congruence|]. intros _. apply amax_In. Qed.
Lemma amaxl_ge (l : list R) y : In y l -> y <= amaxl Rops l.
Proof. destruct l; [intros []|]. apply amax_ge. Qed.

Lemma select_In {A} (mask : list bool) (l : list A) x : In x (select mask l) -> In x l.
Proof.
  revert l; induction mask as [|m mask IH]; intros [|y l]; simpl; try tauto.
  destruct m; simpl; intros H; [destruct H; auto|]; right; auto.
Qed.

Lemma select_nth (mask : list bool) (l : list R) i :
  nth i mask false = true -> (i < length l)%nat -> In (nthR l i) (select mask l).
Proof.
  revert l i; induction mask as [|m mask IH]; intros l i Hm Hi.
  - destruct i; discriminate.
  - destruct l as [|y l]; [simpl in Hi; lia|]. destruct i as [|i]; simpl in *.
    + rewrite Hm. left. reflexivity.
    + destruct m; [right|]; apply IH; auto; lia.
Qed.

Lemma existsb_nth (mask : list bool) : existsb (fun b => b) mask = true ->
  exists i, (i < length mask)%nat /\ nth i mask false = true.
Proof.
  intros H. apply existsb_exists in H as (b & Hb & ->).
  destruct (In_nth mask true false Hb) as (i & Hi & E). exists i. auto.
Qed.

(* ---- adjustSizeClassesEuler ------------------------------------------------------------- *)
Definition big (s : st) : list bool := map (fun x => ltb Rops (one Rops) x) (psd s).
Definition s1_of (s : st) : st :=
  if ltb Rops (one Rops) (last (psd s) (zero Rops)) then addClasses Rops s (obins s / 4) else s.

Lemma adjust_cases (s : st) chk :
  let s1 := s1_of s in
  (adjust Rops s chk = s1 /\ (adaptive s1 = true -> (bins s1 <= maxBins s1)%nat)) \/
  (adjust Rops s chk = change Rops s1 (nthR (bounds s1) 0) (last (bounds s1) 0) (Some (minBins s1)) false /\
     adaptive s1 = true /\ (maxBins s1 < bins s1)%nat) \/
  (adjust Rops s chk = change Rops s1 (nthR (bounds s1) 0) (amaxl Rops (select (big s1) (tail_ (bounds s1))))
                              (Some (maxBins s1)) false /\
     adaptive s1 = true /\ (bins s1 <= maxBins s1)%nat /\ existsb (fun b => b) (big s1) = true).
Proof.
  intros s1. unfold adjust, adjust_full. cbv zeta.
  change (if ltb Rops (one Rops) (last (psd s) (zero Rops)) then addClasses Rops s (obins s / 4) else s) with s1.
  unfold nthT. fold (big s1).
  destruct (adaptive s1) eqn:Ea; [|left; split; [reflexivity|discriminate]].
  destruct (Nat.ltb_spec (maxBins s1) (bins s1)) as [Hlt|Hge].
  - right; left. simpl fst. auto.
  - destruct (chk && _)%bool; [|left; split; [reflexivity|intros; lia]].
    destruct (existsb (fun b => b) (big s1)) eqn:Ex; [|left; split; [reflexivity|intros; lia]].
    destruct (nth_error (size s1) (minBins s1 / 2)) as [ref|]; [|left; split; [reflexivity|intros; lia]].
    destruct (ltb Rops _ ref); [|left; split; [reflexivity|intros; lia]].
    right; right. simpl fst. repeat split; auto.
Qed.

Lemma inv_s1 (s : st) : Inv s -> Inv (s1_of s).
Proof. intros H. unfold s1_of. destruct (ltb Rops _ _); auto using inv_add. Qed.

Lemma grid_tail_gt mn mx n b x : grid_ok mn mx n b -> In x (tail_ b) -> nthR b 0 < x.
Proof.
  intros G Hx. pose proof (grid_length _ _ _ _ G) as L. pose proof (grid_incr _ _ _ _ G) as Hi.
  unfold tail_ in Hx. destruct (In_nth (tl b) x 0 Hx) as (k & Hk & E).
  rewrite tl_length in Hk. rewrite nth_tl in E. rewrite <- E. apply Hi. lia.
Qed.

Lemma inv_adjust (s : st) chk : Inv s -> Inv (adjust Rops s chk).
Proof.
  intros H0. pose proof (inv_s1 s H0) as H.
  pose proof (adjust_cases s chk) as AC. cbv zeta in AC.
  remember (s1_of s) as s1 eqn:Es1. clear Es1 H0.
  destruct (inv_consistent s1 H) as (L1 & L2 & L3 & Hhd & Hlast & Hlt & Hi & _).
  pose proof H as (G & _ & _ & _ & _ & _ & _ & (Hmb & Hxb) & _).
  pose proof G as (Hn & Hmn & _ & Hb).
  destruct AC as [[-> _]|[[-> _]|[-> (_ & _ & Ex)]]]; auto.
  - apply inv_change; auto. repeat split.
    + rewrite Hhd. exact Hmn.
    + rewrite last_nth, L2. replace (S (bins s1) - 1)%nat with (bins s1) by lia. rewrite Hhd, Hlast.
      pose proof (Rmax_r (10 * smin s1) (smax s1)). lra.
    + intros b E. inversion E. lia.
  - apply inv_change; auto. repeat split.
    + rewrite Hhd. exact Hmn.
    + set (sel := select (big s1) (tail_ (bounds s1))).
      assert (Hne : sel <> []).
      { destruct (existsb_nth _ Ex) as (i & Hi1 & Hi2). unfold big in Hi1. rewrite map_length in Hi1. Tfix. rewrite L1 in Hi1.
        intros E. unfold sel in E. pose proof (select_nth (big s1) (tail_ (bounds s1)) i Hi2) as X.
        Tfix. rewrite E in X. apply X. unfold tail_. rewrite tl_length, L2. lia. }
      pose proof (amaxl_In sel Hne) as Hin. apply select_In in Hin.
      pose proof (grid_tail_gt _ _ _ _ _ G Hin).
      pose proof (Rmax_r (10 * nthR (bounds s1) 0) (amaxl Rops sel)). lra.
    + intros b E. inversion E. lia.
Qed.

(* ---- the remaining operations ------------------------------------------------------------- *)
Lemma inv_update (s : st) newN : Inv s -> length newN = bins s -> Inv (update Rops s newN).
Proof.
  intros H L. unfold update. apply inv_set_psd; auto.
  - rewrite map_length. exact L.
  - unfold nonnegl. apply Forall_map, Forall_forall. intros x _. cbv beta.
    Rnorm. destruct (Rltb x 1) eqn:E; Rbool; lra.
Qed.

Lemma inv_backup (s : st) : Inv s -> Inv (backup Rops s).
Proof.
  intros (G & Hs & Hl & Hp & C1 & C2 & C3 & C4 & PG & PP). unfold backup, Inv; projs.
  pose proof (grid_ok_self _ _ _ _ G) as X. rewrite <- Hl in X.
  repeat split; auto; try lia; try apply G; try apply X.
Qed.

Lemma inv_revert (s : st) : Inv s -> Inv (revert Rops s).
Proof.
  intros (G & Hs & Hl & Hp & C1 & C2 & C3 & C4 & PG & PP). unfold revert, Inv, nthT; projs. Rnorm.
  repeat split; auto; try lia; try apply PG.
Qed.

Lemma inv_loadFn (s : st) vals : Inv s -> length vals = bins s -> nonnegl vals -> Inv (loadFn Rops s vals).
Proof. intros. unfold loadFn. apply inv_set_psd; auto. Qed.

Lemma histogram_length (edges data : list R) : length (histogram Rops edges data) = (length edges - 1)%nat.
Proof.
  induction edges as [|lo [|hi rest] IH]; simpl; auto. simpl in IH. rewrite IH. lia.
Qed.
Lemma histogram_nonneg (edges data : list R) : nonnegl (histogram Rops edges data).
Proof.
  unfold nonnegl. induction edges as [|lo [|hi rest] IH]; simpl; try constructor.
  - unfold ofNat. Rnorm. apply (IZR_le 0). apply Zle_0_nat.
  - exact IH.
Qed.

Lemma inv_loadHist (s : st) data : Inv s -> Inv (loadHist Rops s data).
Proof.
  intros H. unfold loadHist. apply inv_set_psd; auto using histogram_nonneg.
  rewrite histogram_length. destruct H as (G & _). rewrite (grid_length _ _ _ _ G). lia.
Qed.

Lemma inv_setAdaptive (s : st) a : Inv s -> Inv (setAdaptive Rops s a).
Proof. intros H. exact H. Qed.

(* ---- all operation sequences ------------------------------------------------------------------ *)
(* what the caller must respect: arguments of changeSizeClasses describe a grid with 0 <= min < max and
   at least one class; arrays handed to UpdatePBMEuler / returned by the function given to
   LoadDistributionFunction have the current length, and a loaded distribution is non-negative *)
Definition op_ok (s : st) (o : op Rops) : Prop :=
  match o with
  | Change _ cmin cmax nb _ => change_ok cmin cmax nb
  | Update _ newN => length newN = bins s
  | LoadFn _ vals => length vals = bins s /\ nonnegl vals
  | _ => True
  end.

Fixpoint ops_ok (s : st) (ops : list (op Rops)) : Prop :=
  match ops with
  | [] => True
  | o :: r => op_ok s o /\ ops_ok (step Rops s o) r
  end.

Lemma inv_step (s : st) o : Inv s -> op_ok s o -> Inv (step Rops s o).
Proof.
  intros H Hok. destruct o; simpl in *.
  - apply inv_reset; auto.
  - apply inv_add; auto.
  - apply inv_change; auto.
  - apply inv_adjust; auto.
  - apply inv_update; auto.
  - apply inv_backup; auto.
  - apply inv_revert; auto.
  - apply inv_loadFn; tauto.
  - apply inv_loadHist; auto.
  - apply inv_setAdaptive; auto.
Qed.

Lemma inv_run (s : st) ops : Inv s -> ops_ok s ops -> Inv (run Rops s ops).
Proof.
  revert s. induction ops as [|o ops IH]; intros s H Hok; simpl in *; auto.
  destruct Hok as (Ho & Hr). apply IH; auto using inv_step.
Qed.

Lemma inv_reachable c ops : good_cfg c -> ops_ok (init Rops c) ops -> Inv (run Rops (init Rops c) ops).
Proof. intros Hc Hok. apply inv_run; auto using inv_init. Qed.

(* ---- extending the grid ------------------------------------------------------------------------ *)
Lemma extend_prefix (s : st) k : Inv s ->
  let s' := addClasses Rops s k in
  bins s' = (bins s + k)%nat /\ smin s' = smin s /\
  psd s' = psd s ++ zeros Rops k /\
  (forall i, (i <= bins s)%nat -> nthR (bounds s') i = nthR (bounds s) i) /\
  (forall i, (i < bins s)%nat -> nthR (size s') i = nthR (size s) i).
Proof.
  intros H s'. pose proof (inv_add s k H) as H'. fold s' in H'.
  destruct H as (G & Hs & _). destruct H' as (G' & Hs' & _).
  pose proof (grid_step _ _ _ _ G) as Hstep.
  pose proof (grid_length _ _ _ _ G) as L. pose proof (grid_length _ _ _ _ G') as L'.
  assert (Hb : bins s' = (bins s + k)%nat) by reflexivity.
  assert (Hm : smin s' = smin s) by reflexivity.
  assert (HM : smax s' = smax s + INR k * ((smax s - smin s) / INR (bins s))).
  { unfold s', addClasses; projs. rewrite ofNat_INR. unfold nthT. Rnorm. Tfix. rewrite Hstep. reflexivity. }
  assert (Hbd : forall i, (i <= bins s)%nat -> nthR (bounds s') i = nthR (bounds s) i).
  { intros i Hi. Tfix. rewrite (grid_nth _ _ _ _ i G') by lia. rewrite (grid_nth _ _ _ _ i G) by lia.
    rewrite Hb, Hm, HM. unfold lin. rewrite plus_INR.
    destruct G as (Hn & _). assert (INR (bins s) <> 0) by (apply not_0_INR; lia).
    assert (0 <= INR k) by apply pos_INR. assert (0 < INR (bins s)) by (apply lt_0_INR; lia).
    field. split; lra. }
  repeat split; auto.
  intros i Hi. rewrite Hs, Hs'. rewrite !nth_mids by lia. rewrite !Hbd by lia. reflexivity.
Qed.

(* ---- re-meshing conserves the third moment ----------------------------------------------------- *)
Lemma M3terms_scale sz N c : sumR (M3terms sz (map (fun x => x * c) N)) = c * sumR (M3terms sz N).
Proof.
  unfold M3terms. revert sz. induction N as [|n N IH]; intros [|r sz]; cbn [map zipWith sumT]; Rnorm; try lra.
  rewrite IH. Req. ring.
Qed.

Lemma M3terms_zeros sz n : sumR (M3terms sz (zeros Rops n)) = 0.
Proof.
  unfold M3terms, zeros. revert sz. induction n as [|n IH]; intros [|r sz]; cbn [repeat zipWith sumT]; Rnorm; try lra.
  rewrite IH. lra.
Qed.

(* whatever the re-binning produced, the rescaling restores the third moment *)
Lemma remesh_third_moment (s : st) cmin cmax nb : newV s cmin cmax nb <> 0 ->
  M3 (change Rops s cmin cmax nb false) = M3 s.
Proof.
  intros Hv. rewrite change_false_eq. cbv zeta. unfold M3 at 1; projs.
  destruct (Reqb (newV s cmin cmax nb) 0) eqn:E; Rbool; [contradiction|].
  rewrite thirdMoment_terms, M3terms_scale. fold (newBounds s cmin cmax nb).
  change (sumR (M3terms (mids Rops (newBounds s cmin cmax nb)) (remapped s cmin cmax nb))) with (newV s cmin cmax nb).
  field. exact Hv.
Qed.

(* the new grid covers every populated class *)
Definition covered (s : st) (lo hi : R) : Prop :=
  forall i, (i < bins s)%nat -> 0 < nthR (psd s) i -> lo <= nthR (bounds s) i /\ nthR (bounds s) (S i) <= hi.

(* discrete intermediate value: an increasing sequence that starts at or below x and ends above x
   has a step that contains x *)
Lemma locate (f : nat -> R) n x : f 0%nat <= x -> x < f n -> exists j, (j < n)%nat /\ f j <= x < f (S j).
Proof.
  induction n as [|n IH]; intros H0 Hn; [lra|].
  destruct (Rlt_le_dec x (f n)) as [Hlt|Hge].
  - destruct (IH H0 Hlt) as (j & Hj & Hx). exists j. split; [lia|exact Hx].
  - exists n. split; [lia|lra].
Qed.

Lemma nth_map_R {A} (g : A -> R) l k d : (k < length l)%nat -> nthR (map g l) k = g (nth k l d).
Proof. intros Hk. rewrite (nth_indep _ 0 (g d)) by (rewrite map_length; exact Hk). apply map_nth. Qed.

Lemma newV_pos (s : st) cmin cmax nb i : Inv s -> change_ok cmin cmax nb ->
  (i < bins s)%nat -> 0 < nthR (psd s) i ->
  cmin <= nthR (bounds s) i -> nthR (bounds s) (S i) <= newMax cmin cmax ->
  0 < newV s cmin cmax nb.
Proof.
  intros H C Hi Hpi Hlo Hhi.
  destruct (inv_consistent s H) as (L1 & L2 & L3 & _ & _ & _ & Hinc & _ & _).
  pose proof (newGrid_ok s cmin cmax nb H C) as G'.
  pose proof (grid_length _ _ _ _ G') as L'. pose proof (grid_incr _ _ _ _ G') as Hinc'.
  set (b' := newBounds s cmin cmax nb) in *. set (n' := newBins s nb) in *.
  set (b := bounds s) in *.
  assert (Hbi : nthR b i < nthR b (S i)) by (apply Hinc; lia).
  (* the new class that contains the lower boundary of class i *)
  destruct (locate (fun j => nthR b' j) n' (nthR b i)) as (j & Hj & Hjx).
  { cbv beta. Tfix. rewrite (grid_nth _ _ _ _ 0%nat G') by lia. rewrite lin_0. exact Hlo. }
  { cbv beta. Tfix. rewrite (grid_nth _ _ _ _ n' G') by lia. destruct G' as (Hn' & _). rewrite lin_n by auto.
    unfold b in *. lra. }
  cbv beta in Hjx.
  (* its population is positive *)
  set (dens := density (psd s) b).
  assert (Hdens : nonnegl dens) by (apply dens_nonneg; [apply H | exact Hinc]).
  assert (Hdi : 0 < nthR dens i).
  { unfold dens, density. rewrite (nth_zipWith _ _ _ _ _ 0 0) by (rewrite ?diffs_length; lia).
    rewrite nth_diffs by lia. Rnorm. apply Rdiv_lt_0_compat; lra. }
  assert (Hpj : 0 < nthR (remapped s cmin cmax nb) j).
  { unfold remapped, remap. fold b b' dens.
    rewrite (nth_map_R _ _ _ (0, 0)) by (rewrite pairs_length; lia).
    rewrite nth_pairs by lia.
    match goal with |- 0 < sumT Rops ?t => set (terms := t) end.
    apply Rlt_le_trans with (nthR terms i); [|apply sumR_ge_term, remap_terms_nonneg; exact Hdens].
    unfold terms. rewrite (nth_zipWith _ _ _ _ _ (0, 0) 0);
      [| rewrite pairs_length; lia | unfold dens, density; rewrite zipWith_length, diffs_length; lia].
    rewrite nth_pairs by lia. Rnorm. apply Rmult_lt_0_compat; [|exact Hdi].
    unfold overlap; cbn [fst snd]. rewrite maxT_Rmax, minT_Rmin, maxT_Rmax. Rnorm.
    apply Rlt_le_trans with (Rmin (nthR b' (S j)) (nthR b (S i)) - Rmax (nthR b' j) (nthR b i)); [|apply Rmax_l].
    rewrite (Rmax_right (nthR b' j)) by lra.
    unfold Rmin. destruct (Rle_dec (nthR b' (S j)) (nthR b (S i))); lra. }
  (* and it sits at a positive radius *)
  unfold newV. fold b'. rewrite thirdMoment_terms.
  set (sz' := mids Rops b').
  assert (Hnn : nonnegl (M3terms sz' (remapped s cmin cmax nb))).
  { apply M3terms_nonneg; [apply remapped_nonneg; exact H | eapply centres_nonneg; exact G']. }
  apply Rlt_le_trans with (nthR (M3terms sz' (remapped s cmin cmax nb)) j); [|apply sumR_ge_term; exact Hnn].
  unfold M3terms. rewrite (nth_zipWith _ _ _ _ _ 0 0);
    [| rewrite remapped_length; exact Hj | unfold sz'; rewrite mids_length; lia].
  Rnorm. apply Rmult_lt_0_compat; [exact Hpj|]. apply cube_pos.
  unfold sz'. rewrite nth_mids by lia.
  pose proof (grid_ge _ _ _ _ j G' ltac:(lia)). pose proof (Hinc' j (S j) ltac:(lia)).
  destruct C as (Hc0 & _). lra.
Qed.

Lemma all_zero_or_populated (l : list R) : nonnegl l ->
  (forall k, nthR l k = 0) \/ exists i, (i < length l)%nat /\ 0 < nthR l i.
Proof.
  induction 1 as [|x l Hx Hl IH].
  - left. intros [|k]; reflexivity.
  - destruct (Rle_lt_or_eq_dec 0 x Hx) as [Hpos|Hz].
    + right. exists 0%nat. simpl. split; [lia|exact Hpos].
    + destruct IH as [Hall|(i & Hi & Hp)].
      * left. intros [|k]; simpl; auto.
      * right. exists (S i). simpl. split; [lia|exact Hp].
Qed.

Lemma M3terms_all_zero sz N : (forall k, nthR N k = 0) -> sumR (M3terms sz N) = 0.
Proof.
  unfold M3terms. revert sz. induction N as [|n N IH]; intros [|r sz] Hz; cbn [zipWith sumT]; Rnorm; try lra.
  rewrite IH by (intros k; apply (Hz (S k))). pose proof (Hz 0%nat) as Z. simpl in Z. rewrite Z. lra.
Qed.

(* re-meshing preserves the third moment whenever the new grid covers the populated range *)
Lemma remesh_covering (s : st) cmin cmax nb : Inv s -> change_ok cmin cmax nb ->
  covered s cmin (newMax cmin cmax) ->
  M3 (change Rops s cmin cmax nb false) = M3 s.
Proof.
  intros H C Hcov.
  destruct (Req_dec (newV s cmin cmax nb) 0) as [Hz|Hnz]; [|apply remesh_third_moment; exact Hnz].
  assert (Hall : forall k, nthR (psd s) k = 0).
  { destruct (all_zero_or_populated (psd s)) as [Hall|(i & Hi & Hp)]; [apply H|exact Hall|].
    exfalso. destruct H as (G & Hs & Hl & Hrest). Tfix. rewrite Hl in Hi.
    destruct (Hcov i Hi Hp) as (Hlo & Hhi).
    pose proof (newV_pos s cmin cmax nb i (conj G (conj Hs (conj Hl Hrest))) C Hi Hp Hlo Hhi). lra. }
  rewrite change_false_eq. cbv zeta. unfold M3; projs.
  destruct (Reqb (newV s cmin cmax nb) 0) eqn:E; Rbool; [|contradiction].
  rewrite !thirdMoment_terms, M3terms_zeros, M3terms_all_zero; auto.
Qed.

(* ---- automatic adjustment never leaves more classes than the maximum ------------------------- *)
Lemma change_bins (s : st) cmin cmax n : bins (change Rops s cmin cmax (Some n) false) = n.
Proof. rewrite change_false_eq. reflexivity. Qed.

Lemma s1_fields (s : st) : adaptive (s1_of s) = adaptive s /\ maxBins (s1_of s) = maxBins s /\
  minBins (s1_of s) = minBins s /\ omin (s1_of s) = omin s /\ omax (s1_of s) = omax s /\ obins (s1_of s) = obins s.
Proof. unfold s1_of. destruct (ltb Rops _ _); repeat split; reflexivity. Qed.

Lemma adjust_le_max (s : st) chk : adaptive s = true -> (minBins s <= maxBins s)%nat ->
  (bins (adjust Rops s chk) <= maxBins s)%nat.
Proof.
  intros Ha Hm. destruct (s1_fields s) as (E1 & E2 & E3 & _).
  destruct (adjust_cases s chk) as [[-> Hle]|[[-> _]|[-> _]]].
  - rewrite <- E2. apply Hle. rewrite E1. exact Ha.
  - rewrite change_bins, E3. exact Hm.
  - rewrite change_bins, E2. lia.
Qed.

(* ---- reset restores the initial grid ---------------------------------------------------------- *)
Definition cfg_of (s : st) := (omin s, omax s, obins s, minBins s, maxBins s).

Lemma change_cfg (s : st) cmin cmax nb r : cfg_of (change Rops s cmin cmax nb r) = cfg_of s.
Proof. destruct r; [reflexivity|]. rewrite change_false_eq. reflexivity. Qed.

Lemma step_cfg (s : st) o : cfg_of (step Rops s o) = cfg_of s.
Proof.
  destruct o; simpl; try reflexivity.
  - apply change_cfg.
  - destruct (s1_fields s) as (_ & E2 & E3 & E4 & E5 & E6).
    assert (E : cfg_of (s1_of s) = cfg_of s) by (unfold cfg_of; congruence).
    destruct (adjust_cases s checkDissolution) as [[-> _]|[[-> _]|[-> _]]]; rewrite ?change_cfg; exact E.
Qed.

Lemma run_cfg (s : st) ops : cfg_of (run Rops s ops) = cfg_of s.
Proof.
  revert s. induction ops as [|o ops IH]; intros s; simpl; [reflexivity|].
  rewrite IH. apply step_cfg.
Qed.

(* after any history, reset() gives exactly the state the constructor gave (the adaptive-binning
   switch is not a grid attribute and keeps its current value) *)
Lemma reset_restores c ops :
  let s := run Rops (init Rops c) ops in
  reset Rops s true = setAdaptive Rops (init Rops c) (adaptive s).
Proof.
  intros s. pose proof (run_cfg (init Rops c) ops) as E. fold s in E.
  unfold cfg_of in E.
  pose proof (f_equal (fun t => fst (fst (fst (fst t)))) E) as E1.
  pose proof (f_equal (fun t => snd (fst (fst (fst t)))) E) as E2.
  pose proof (f_equal (fun t => snd (fst (fst t))) E) as E3.
  pose proof (f_equal (fun t => snd (fst t)) E) as E4.
  pose proof (f_equal (fun t => snd t) E) as E5.
  cbv beta in E1, E2, E3, E4, E5. cbn [fst snd] in E1, E2, E3, E4, E5.
  unfold reset at 1. rewrite E1, E2, E3, E4, E5. reflexivity.
Qed.

(* ---- moment functions depend only on the supplied distribution and the grid -------------------- *)
Lemma moments_depend_only_on_argument (s s' : st) N order w : size s = size s' ->
  MomentFromN Rops s N order = MomentFromN Rops s' N order /\
  CumulativeMomentFromN Rops s N order = CumulativeMomentFromN Rops s' N order /\
  WeightedMomentFromN Rops s N order w = WeightedMomentFromN Rops s' N order w /\
  CumulativeWeightedMomentFromN Rops s N order w = CumulativeWeightedMomentFromN Rops s' N order w.
Proof.
  intros E. unfold MomentFromN, CumulativeMomentFromN, WeightedMomentFromN, CumulativeWeightedMomentFromN, weighted.
  rewrite E. repeat split; reflexivity.
Qed.

(* in particular they ignore the stored distribution, the backup and the class-count limits *)
Lemma moments_ignore_stored (s : st) p pp pb mb xb ad N order w :
  let s' := mkState Rops (smin s) (smax s) (bins s) p (bounds s) (size s) (omin s) (omax s) (obins s) mb xb ad pp pb in
  MomentFromN Rops s' N order = MomentFromN Rops s N order /\
  CumulativeMomentFromN Rops s' N order = CumulativeMomentFromN Rops s N order /\
  WeightedMomentFromN Rops s' N order w = WeightedMomentFromN Rops s N order w /\
  CumulativeWeightedMomentFromN Rops s' N order w = CumulativeWeightedMomentFromN Rops s N order w.
Proof. intros s'. apply moments_depend_only_on_argument. reflexivity. Qed.

(* ---- [ext] the automatic adjustment conserves the third moment --------------------------------- *)
Lemma M3terms_app_zeros sz N k : sumR (M3terms sz (N ++ zeros Rops k)) = sumR (M3terms sz N).
Proof.
  revert sz. induction N as [|n N IH]; intros sz.
  - cbn [app]. rewrite M3terms_zeros. destruct sz; reflexivity.
  - destruct sz as [|r sz]; [reflexivity|]. unfold M3terms in *. cbn [app zipWith sumT]. rewrite IH. reflexivity.
Qed.

Lemma M3terms_ext sz sz' N : (length N <= length sz)%nat -> (length N <= length sz')%nat ->
  (forall i, (i < length N)%nat -> nthR sz i = nthR sz' i) -> sumR (M3terms sz N) = sumR (M3terms sz' N).
Proof.
  revert sz sz'. induction N as [|n N IH]; intros sz sz' L L' E; [destruct sz, sz'; reflexivity|].
  destruct sz as [|r sz]; [simpl in L; lia|]. destruct sz' as [|r' sz']; [simpl in L'; lia|].
  unfold M3terms in *. cbn [zipWith sumT].
  pose proof (E 0%nat ltac:(simpl; lia)) as E0. simpl in E0. subst r'.
  rewrite (IH sz sz'); [reflexivity | simpl in L; lia | simpl in L'; lia |].
  intros i Hi. apply (E (S i)). simpl. lia.
Qed.

Lemma add_M3 (s : st) k : Inv s -> M3 (addClasses Rops s k) = M3 s.
Proof.
  intros H. destruct (extend_prefix s k H) as (Hb & _ & Hp & _ & Hsz). cbv zeta in *.
  pose proof (inv_add s k H) as H'.
  destruct (inv_consistent s H) as (L1 & _ & L3 & _). destruct (inv_consistent _ H') as (_ & _ & L3' & _).
  unfold M3. rewrite !thirdMoment_terms. rewrite Hp, M3terms_app_zeros.
  apply M3terms_ext; Tfix; try lia. intros i Hi. apply Hsz. lia.
Qed.

Definition populated_above_one (s : st) : Prop := forall i, 0 < nthR (psd s) i -> 1 < nthR (psd s) i.

Lemma s1_M3 (s : st) : Inv s -> M3 (s1_of s) = M3 s.
Proof. intros H. unfold s1_of. destruct (ltb Rops _ _); auto using add_M3. Qed.

Lemma s1_populated (s : st) : populated_above_one s -> populated_above_one (s1_of s).
Proof.
  intros Hp. unfold s1_of. destruct (ltb Rops _ _); auto.
  intros i. unfold addClasses; projs. destruct (Nat.lt_ge_cases i (length (psd s))) as [Hi|Hi].
  - rewrite app_nth1 by exact Hi. apply Hp.
  - rewrite app_nth2 by exact Hi. rewrite nth_zeros. lra.
Qed.

Lemma adjust_third_moment (s : st) chk : Inv s -> populated_above_one s -> M3 (adjust Rops s chk) = M3 s.
Proof.
  intros H0 Hp0. rewrite <- (s1_M3 s H0).
  pose proof (inv_s1 s H0) as H. pose proof (s1_populated s Hp0) as Hp.
  pose proof (adjust_cases s chk) as AC. cbv zeta in AC.
  remember (s1_of s) as s1 eqn:Es1. clear Es1 H0 Hp0.
  destruct (inv_consistent s1 H) as (L1 & L2 & L3 & Hhd & Hlast & Hlt & Hi & _).
  pose proof H as (G & _ & _ & _ & _ & _ & _ & (Hmb & Hxb) & _).
  pose proof G as (Hn & Hmn & _ & Hb).
  assert (Hlow : forall i, (i < bins s1)%nat -> nthR (bounds s1) 0 <= nthR (bounds s1) i).
  { intros i Hi'. destruct i; [lra|]. left. apply Hi. lia. }
  destruct AC as [[-> _]|[[-> _]|[-> (_ & _ & Ex)]]]; auto.
  - apply remesh_covering; auto.
    + repeat split.
      * rewrite Hhd. exact Hmn.
      * rewrite last_nth, L2. replace (S (bins s1) - 1)%nat with (bins s1) by lia. rewrite Hhd, Hlast.
        pose proof (Rmax_r (10 * smin s1) (smax s1)). lra.
      * intros b E. inversion E. lia.
    + intros i Hi' _. split; [apply Hlow; exact Hi'|].
      rewrite last_nth, L2. replace (S (bins s1) - 1)%nat with (bins s1) by lia.
      unfold newMax. pose proof (Rmax_r (10 * nthR (bounds s1) 0) (nthR (bounds s1) (bins s1))).
      destruct (Nat.eq_dec (S i) (bins s1)) as [->|Hne]; [lra|].
      pose proof (Hi (S i) (bins s1) ltac:(lia)). lra.
  - set (sel := select (big s1) (tail_ (bounds s1))).
    assert (Hsel : forall i, (i < bins s1)%nat -> 0 < nthR (psd s1) i -> nthR (bounds s1) (S i) <= amaxl Rops sel).
    { intros i Hi' Hpos. apply amaxl_ge. unfold sel, tail_. rewrite <- nth_tl.
      apply select_nth; [|Tfix; rewrite tl_length, L2; lia].
      unfold big. rewrite (nth_indep _ false (ltb Rops (one Rops) 0)) by (rewrite map_length; Tfix; lia).
      rewrite map_nth. Rnorm. apply Rltb_true. apply Hp. exact Hpos. }
    apply remesh_covering; auto.
    + repeat split.
      * rewrite Hhd. exact Hmn.
      * destruct (existsb_nth _ Ex) as (i & Hi1 & Hi2). unfold big in Hi1. rewrite map_length in Hi1. Tfix. rewrite L1 in Hi1.
        assert (Hpos : 0 < nthR (psd s1) i).
        { unfold big in Hi2. rewrite (nth_indep _ false (ltb Rops (one Rops) 0)) in Hi2 by (rewrite map_length; Tfix; lia).
          rewrite map_nth in Hi2. Rnorm. apply Rltb_true in Hi2. lra. }
        pose proof (Hsel i Hi1 Hpos). pose proof (Hi 0%nat (S i) ltac:(lia)).
        pose proof (Rmax_r (10 * nthR (bounds s1) 0) (amaxl Rops sel)). lra.
      * intros b E. inversion E. lia.
    + intros i Hi' Hpos. split; [apply Hlow; exact Hi'|].
      unfold newMax. pose proof (Rmax_r (10 * nthR (bounds s1) 0) (amaxl Rops sel)).
      pose proof (Hsel i Hi' Hpos). lra.
Qed.

(* ---- [ext] the re-binning conserves the NUMBER of particles inside the new range ---------------- *)
Lemma sumR_zipWith_zero {A} (l : list A) (D : list R) : sumR (zipWith (fun _ d => 0 * d) l D) = 0.
Proof. revert D; induction l as [|a l IH]; intros [|d D]; cbn [zipWith sumT]; Rnorm; try lra. rewrite IH. lra. Qed.

Lemma sumR_zipWith_add {A} (f g : A -> R) (l : list A) (D : list R) :
  sumR (zipWith (fun c d => f c * d) l D) + sumR (zipWith (fun c d => g c * d) l D) =
  sumR (zipWith (fun c d => (f c + g c) * d) l D).
Proof. revert D; induction l as [|a l IH]; intros [|d D]; cbn [zipWith sumT]; Rnorm; try lra. rewrite <- IH. lra. Qed.

Lemma sum_swap {A B} (f : A -> B -> R) (P : list A) (Cs : list B) (D : list R) :
  sumR (map (fun c' => sumR (zipWith (fun c d => f c' c * d) Cs D)) P) =
  sumR (zipWith (fun c d => sumR (map (fun c' => f c' c) P) * d) Cs D).
Proof.
  induction P as [|p P IH]; cbn [map sumT].
  - Rnorm. symmetry. apply sumR_zipWith_zero.
  - rewrite IH. Rnorm. apply (sumR_zipWith_add (fun c => f p c) (fun c => sumR (map (fun c' => f c' c) P))).
Qed.

Definition clamp (lo hi x : R) : R := Rmin (Rmax x lo) hi.

Lemma overlap_clamp (a b lo hi : R) : a <= b -> lo <= hi ->
  overlap Rops (a, b) (lo, hi) = clamp lo hi b - clamp lo hi a.
Proof.
  intros Hab Hlh. unfold overlap, clamp; cbn [fst snd]. rewrite !maxT_Rmax, minT_Rmin. Rnorm.
  unfold Rmax, Rmin. destruct (Rle_dec b hi), (Rle_dec a lo), (Rle_dec b lo);
    repeat (match goal with |- context [Rle_dec ?x ?y] => destruct (Rle_dec x y) end); lra.
Qed.

Lemma telescope_pairs (g : R -> R) (l : list R) : l <> [] ->
  sumR (map (fun c' => g (snd c') - g (fst c')) (pairs Rops l)) = g (last l 0) - g (nth 0 l 0).
Proof.
  induction l as [|a [|b l] IH]; intros H; [congruence| |].
  - cbn. lra.
  - specialize (IH ltac:(discriminate)).
    assert (E : pairs Rops (a :: b :: l) = (a, b) :: pairs Rops (b :: l)).
    { unfold pairs, init_, tail_. destruct l; reflexivity. }
    rewrite E. cbn [map sumT fst snd]. rewrite IH. Rnorm.
    change (last (a :: b :: l) 0) with (last (b :: l) 0). cbn [nth]. lra.
Qed.

Lemma pairs_ordered (l : list R) c' : incr l -> In c' (pairs Rops l) -> fst c' <= snd c'.
Proof.
  intros Hi Hin. destruct (In_nth _ _ (0, 0) Hin) as (j & Hj & E). rewrite pairs_length in Hj.
  rewrite nth_pairs in E by lia. rewrite <- E. cbn [fst snd]. left. apply Hi. lia.
Qed.

Lemma sumR_map_ext {A} (f g : A -> R) (l : list A) : (forall x, In x l -> f x = g x) -> sumR (map f l) = sumR (map g l).
Proof.
  induction l as [|a l IH]; intros H; cbn [map sumT]; [reflexivity|].
  rewrite (H a (or_introl eq_refl)), IH; auto. intros x Hx. apply H. right. exact Hx.
Qed.

(* the new classes tile [b'_0, b'_n]: an old class inside that range is shared out completely *)
Lemma tiling (l : list R) (lo hi : R) : incr l -> (2 <= length l)%nat -> lo <= hi ->
  nth 0 l 0 <= lo -> hi <= last l 0 ->
  sumR (map (fun c' => overlap Rops c' (lo, hi)) (pairs Rops l)) = hi - lo.
Proof.
  intros Hi Hl Hlh H0 Hn.
  rewrite (sumR_map_ext _ (fun c' => clamp lo hi (snd c') - clamp lo hi (fst c'))).
  - rewrite telescope_pairs by (destruct l; simpl in *; [lia|discriminate]).
    unfold clamp. rewrite (Rmax_left (last l 0)) by lra. rewrite (Rmin_right _ hi) by lra.
    rewrite (Rmax_right (nth 0 l 0)) by lra. rewrite (Rmin_left lo hi) by lra. reflexivity.
  - intros [a b] Hin. pose proof (pairs_ordered l (a, b) Hi Hin) as Hab. cbn [fst snd] in *.
    apply overlap_clamp; auto.
Qed.

Lemma sumR_nth_ext (l1 l2 : list R) : length l1 = length l2 ->
  (forall k, (k < length l1)%nat -> nth k l1 0 = nth k l2 0) -> sumR l1 = sumR l2.
Proof. intros L E. f_equal. apply (nth_ext _ _ 0 0); auto. Qed.

Lemma remap_conserves_number (s : state Rops) cmin cmax nb : Inv s -> change_ok cmin cmax nb ->
  covered s cmin (newMax cmin cmax) ->
  sumR (remapped s cmin cmax nb) = sumR (psd s).
Proof.
  intros H C Hcov.
  destruct (inv_consistent s H) as (L1 & L2 & L3 & _ & _ & _ & Hinc & _ & Hnn).
  pose proof (newGrid_ok s cmin cmax nb H C) as G'.
  pose proof (grid_length _ _ _ _ G') as L'. pose proof (grid_incr _ _ _ _ G') as Hinc'.
  unfold remapped, remap.
  set (b' := newBounds s cmin cmax nb) in *. set (b := bounds s) in *. set (dens := density (psd s) b).
  rewrite (sum_swap (fun c' c => overlap Rops c' c)).
  assert (Ld : length dens = bins s).
  { unfold dens, density. rewrite zipWith_length, diffs_length. change (T Rops) with R in *. lia. }
  apply sumR_nth_ext.
  - rewrite zipWith_length, pairs_length. change (T Rops) with R in *. lia.
  - intros k Hk. rewrite zipWith_length, pairs_length in Hk. change (T Rops) with R in *.
    assert (Hkb : (k < bins s)%nat) by lia.
    rewrite (nth_zipWith _ _ _ _ _ (0, 0) 0) by (rewrite ?pairs_length; change (T Rops) with R in *; lia).
    rewrite nth_pairs by lia.
    assert (Hd : nth k dens 0 = nth k (psd s) 0 / (nth (S k) b 0 - nth k b 0)).
    { unfold dens, density. rewrite (nth_zipWith _ _ _ _ _ 0 0) by (rewrite ?diffs_length; change (T Rops) with R in *; lia).
      rewrite nth_diffs by lia. reflexivity. }
    pose proof (Hinc k (S k) ltac:(lia)) as Hlt.
    destruct (Rle_lt_or_eq_dec 0 _ (Hnn k)) as [Hpos|Hz].
    + destruct (Hcov k Hkb Hpos) as (Hlo & Hhi). fold b in Hlo, Hhi.
      rewrite tiling.
      * rewrite Hd. Req. field. lra.
      * exact Hinc'.
      * Tfix. rewrite L'. destruct G' as (Hn' & _). lia.
      * lra.
      * Tfix. rewrite (grid_nth _ _ _ _ 0%nat G') by lia. rewrite lin_0. exact Hlo.
      * rewrite last_nth. Tfix. rewrite L'. replace (S (newBins s nb) - 1)%nat with (newBins s nb) by lia.
        rewrite (grid_nth _ _ _ _ _ G') by lia. destruct G' as (Hn' & _). rewrite lin_n by auto. exact Hhi.
    + Tfix. rewrite Hd, <- Hz. unfold Rdiv. Req. ring.
Qed.

(* every state reachable from the constructor is consistent in the sense of the property text *)
Lemma reachable_consistent c ops : good_cfg c -> ops_ok (init Rops c) ops ->
  let s := run Rops (init Rops c) ops in
  length (psd s) = bins s /\ length (bounds s) = S (bins s) /\ length (size s) = bins s /\
  nthR (bounds s) 0 = smin s /\ nthR (bounds s) (bins s) = smax s /\ smin s < smax s /\
  incr (bounds s) /\
  (forall k, (k < bins s)%nat -> nthR (size s) k = (nthR (bounds s) k + nthR (bounds s) (S k)) / 2) /\
  (forall k, 0 <= nthR (psd s) k).
Proof. intros Hc Hok s. apply inv_consistent. apply inv_reachable; auto. Qed.
