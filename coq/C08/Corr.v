(* C08 - correspondence driver (harness side, no theorem depends on it): one operation of the
   model is executed on the exact-rational instance from the state the implementation was in, and the
   result is compared with the state the implementation reached. *)
From Coq Require Import QArith List ZArith Bool Arith.
Require Import Kawin.Common.Ops Kawin.Common.Vec Kawin.Common.Out Kawin.C07.Model Kawin.C08.Model.
Import ListNotations.
Open Scope Q_scope.

Record post := mkPost {
  p_min : Q; p_max : Q; p_bins : nat;
  p_psd : list Q; p_bounds : list Q; p_size : list Q; p_ppsd : list Q; p_pbounds : list Q;
  p_change : bool; p_ni : option nat; p_raised : bool }.

(* |l_(j-1)| + |l_j| + |l_(j+1)|: a class boundary that moves by one rounding error moves
   particles between adjacent classes, so populations are compared relative to their neighbourhood *)
Definition nbsum (l : list Q) : list Q :=
  let a := map qabs l in
  zip3 (fun x y z => Qred (x + y + z)) (0 :: a) a (tl a ++ [0]).

Definition abssum0 (l : list Q) : Q := fold_right (fun x a => Qred (qabs x + a)) 0 l.

Definition opt_eqb (a b : option nat) : bool :=
  match a, b with
  | Some x, Some y => Nat.eqb x y
  | None, None => true
  | _, _ => false
  end.

(* the only branch of the grid operations that compares a computed (rounded) quantity:
   PSDbounds[-1] > 10*PSDbounds[0]  in adjustSizeClassesEuler *)
Definition adjust_tie (rt : Q) (s : state Qops) (chk : bool) : bool :=
  let added := ltb Qops 1 (last (psd Qops s) 0) in
  let s1 := if added then addClasses Qops s (obins Qops s / 4) else s in
  adaptive Qops s1 && negb (maxBins Qops s1 <? bins Qops s1)%nat && chk &&
  near_tie rt (10 * nthT Qops (bounds Qops s1) 0) (last (bounds Qops s1) 0).

(* Scale of a re-meshed population: a boundary of the new grid that coincides with a boundary of the old
   one up to rounding (the new maximum 10*min is a ROUNDED product in the implementation and exact in
   the model; a requested cMax may be an old boundary) lets an old class share a sliver of relative width
   ~2^-53 with a new class in one arithmetic and not in the other.  Every old class that touches the new
   class within tolerance therefore belongs to the magnitudes the new population is compared against. *)
Definition touch_scale (rt : Q) (oldB oldP newB : list Q) (factor : Q) : list Q :=
  let olds := combine (pairs Qops oldB) oldP in
  map (fun c' =>
         let d := Qred (rt * qabs (snd c')) in
         Qred (factor *
           fold_right (fun cp a =>
                         if Qle_bool (fst (fst cp) - d) (snd c') && Qle_bool (fst c') (snd (fst cp) + d)
                         then Qred (qabs (snd cp) + a) else a) 0 olds))
      (pairs Qops newB).

Fixpoint addl (a b : list Q) : list Q :=
  match a, b with
  | x :: a', y :: b' => Qred (x + y) :: addl a' b'
  | _, [] => a
  | [], _ => []
  end.

Definition psd_scale (rt : Q) (s s' : state Qops) (o : op Qops) : list Q :=
  let base := nbsum (psd Qops s') in
  let remesh := match o with
                | Change _ _ _ _ false => true
                | Adjust _ _ => true
                | _ => false
                end in
  if remesh then
    let tot := abssum0 (psd Qops s) in
    let factor := if Qeq_bool tot 0 then 1 else Qred (1 + abssum0 (psd Qops s') / tot) in
    addl base (touch_scale rt (bounds Qops s) (psd Qops s) (bounds Qops s') factor)
  else base.

(* result: (near tie?, min, max, bins equal?, PSD, bounds, centres, backup PSD, backup bounds,
            return value and raised flag equal?, model's class count) *)
Definition check08 (rt : Q) (s : state Qops) (o : op Qops) (p : post) :=
  let s' := step Qops s o in
  let tie := match o with Adjust _ chk => adjust_tie (rt * 64) s chk | _ => false end in
  let retok := match o with
               | Adjust _ chk =>
                   match adjust_full Qops s chk with
                   | (_, ch, ni, ra) =>
                       if ra then p_raised p      (* no return value to compare *)
                       else Bool.eqb ch (p_change p) && opt_eqb ni (p_ni p) && negb (p_raised p)
                   end
               | _ => negb (p_raised p)
               end in
  (tie,
   cmp1 rt (p_min p) (smin Qops s'),
   cmp1 rt (p_max p) (smax Qops s'),
   Nat.eqb (p_bins p) (bins Qops s'),
   cmpl rt (p_psd p) (psd Qops s') (psd_scale (rt * 64) s s' o),
   cmpl_rel rt (p_bounds p) (bounds Qops s'),
   cmpl_rel rt (p_size p) (size Qops s'),
   cmpl rt (p_ppsd p) (prevPSD Qops s') (nbsum (prevPSD Qops s')),
   cmpl_rel rt (p_pbounds p) (prevBounds Qops s'),
   retok,
   bins Qops s').

(* moment functions on a supplied distribution: implementation values against the model *)
Definition abssum (l : list Q) : Q := fold_right (fun x a => Qred (qabs x + a)) 0 l.
Fixpoint cumabs_from (acc : Q) (l : list Q) : list Q :=
  match l with [] => [] | x :: r => let a := Qred (acc + qabs x) in a :: cumabs_from a r end.

Definition checkMoments (rt : Q) (s : state Qops) (N w : list Q) (order : nat)
           (m : Q) (cm : list Q) (wm : Q) (cwm : list Q) :=
  let terms := zipWith (fun n r => mul Qops n (powT Qops r order)) N (size Qops s) in
  let wterms := weighted Qops s N order w in
  (cmpl rt [m] [MomentFromN Qops s N order] [abssum terms],
   cmpl rt cm (CumulativeMomentFromN Qops s N order) (cumabs_from 0 terms),
   cmpl rt [wm] [WeightedMomentFromN Qops s N order w] [abssum wterms],
   cmpl rt cwm (CumulativeWeightedMomentFromN Qops s N order w) (cumabs_from 0 wterms)).

(* whole-sequence execution of the model from the constructor (exact), compared with the final
   state of the implementation *)
Definition checkRun (rt : Q) (c : cfg Qops) (ops : list (op Qops)) (p : post) :=
  let s' := run Qops (init Qops c) ops in
  (cmp1 rt (p_min p) (smin Qops s'),
   cmp1 rt (p_max p) (smax Qops s'),
   Nat.eqb (p_bins p) (bins Qops s'),
   cmpl rt (p_psd p) (psd Qops s') (nbsum (psd Qops s')),
   cmpl_rel rt (p_bounds p) (bounds Qops s'),
   cmpl_rel rt (p_size p) (size Qops s'),
   bins Qops s').
