(* C08 - non-vacuity examples and refutation witnesses. *)
From Coq Require Import Reals QArith List ZArith Lra Lia Bool.
Require Import Kawin.Common.Ops Kawin.Common.Vec Kawin.Common.VecLemmas Kawin.C07.Model Kawin.C08.Model Kawin.C08.Proofs.
Import ListNotations.

(* ---- the hypotheses of the theorems are satisfiable ------------------------------------------- *)
Open Scope R_scope.
Definition cR : cfg Rops := mkCfg Rops 1 10 4%nat 2%nat 8%nat.

Example good_cfg_example : good_cfg cR.
Proof.
  unfold good_cfg, cR; simpl. repeat split; try lra; try lia.
  unfold Rmax. destruct (Rle_dec (10 * 1) 10); lra.
Qed.

(* a sequence that loads a distribution, extends, updates (one value below the threshold 1),
   re-meshes to coarser classes, updates again, backs up, adjusts and reverts *)
Definition opsR : list (op Rops) :=
  [LoadFn Rops [0; 100; 0; 0]; Add Rops 2%nat; Update Rops [0; 2; 3; 0; 1/2; 0];
   Change Rops 1 10 (Some 3%nat) false; Update Rops [5; 0; 7]; Backup Rops; Adjust Rops true; Revert Rops].

Example ops_ok_example : ops_ok (init Rops cR) opsR.
Proof.
  unfold opsR. cbn [ops_ok op_ok]. repeat split; try reflexivity.
  - repeat constructor; lra.
  - lra.
  - unfold Rmax. destruct (Rle_dec (10 * 1) 10); lra.
  - intros b E. inversion E. lia.
Qed.

Example inv_example : Inv (run Rops (init Rops cR) opsR).
Proof. apply inv_reachable; [exact good_cfg_example | exact ops_ok_example]. Qed.

(* the guards are needed: an array of the wrong length handed to UpdatePBMEuler breaks the invariant *)
Example update_wrong_length_refuted : ~ Inv (update Rops (init Rops cR) [5; 5]).
Proof. intros (_ & _ & L & _). simpl in L. discriminate. Qed.
Close Scope R_scope.

(* ---- the same model, executed on exact rationals ---------------------------------------------- *)
Open Scope Q_scope.
Definition cQ : cfg Qops := mkCfg Qops 1 10 4%nat 2%nat 8%nat.
Definition opsQ : list (op Qops) :=
  [LoadFn Qops [0; 100; 0; 0]; Add Qops 2%nat; Update Qops [0; 2; 3; 0; 1#2; 0];
   Change Qops 1 10 (Some 3%nat) false; Update Qops [5; 0; 7]; Backup Qops; Adjust Qops true; Revert Qops].

Example init_example :
  bounds (init Qops cQ) = [1; 13#4; 11#2; 31#4; 10] /\ size (init Qops cQ) = [17#8; 35#8; 53#8; 71#8] /\
  psd (init Qops cQ) = [0; 0; 0; 0].
Proof. vm_compute. repeat split; reflexivity. Qed.

(* extend by two classes: same boundaries, same populations, two empty classes; the value 1/2 is truncated *)
Example extend_example :
  let s := run Qops (init Qops cQ) (firstn 3 opsQ) in
  bounds s = [1; 13#4; 11#2; 31#4; 10; 49#4; 29#2] /\ psd s = [0; 2; 3; 0; 0; 0] /\ smax s = 29#2.
Proof. vm_compute. repeat split; reflexivity. Qed.

(* re-mesh 6 classes on [1, 14.5] to 3 classes on [1, 10]: the populated range [3.25, 7.75] is covered,
   the third moment is conserved exactly *)
Example remesh_example :
  let s := run Qops (init Qops cQ) (firstn 3 opsQ) in
  let s' := step Qops s (Change Qops 1 10 (Some 3%nat) false) in
  bounds s' = [1; 4; 7; 10] /\
  thirdMoment Qops (size s') (psd s') = thirdMoment Qops (size s) (psd s) /\
  Qlt 0 (thirdMoment Qops (size s) (psd s)).
Proof. vm_compute. repeat split; reflexivity. Qed.

Example run_example :
  let s := run Qops (init Qops cQ) opsQ in
  psd s = [5; 0; 7] /\ bounds s = [1; 4; 7; 10] /\ bins s = 3%nat /\ smin s = 1 /\ smax s = 10.
Proof. vm_compute. repeat split; reflexivity. Qed.

(* a single populated class, new classes 5.3 times wider over the same range: every particle is kept
   (this is the corpus input remesh_sparse.json, on which the unrepaired code returns an empty PSD) *)
Definition c16 : cfg Qops := mkCfg Qops 1 10 16%nat 4%nat 32%nat.
Definition s16 : state Qops := loadFn Qops (init Qops c16) [0;0;0;0;0;100;0;0;0;0;0;0;0;0;0;0].
Example remesh_sparse_example :
  let s' := change Qops s16 1 10 (Some 3%nat) false in
  thirdMoment Qops (size s') (psd s') = thirdMoment Qops (size s16) (psd s16) /\
  thirdMoment Qops (size s16) (psd s16) = 56202275 # 8192 /\
  psd s' = [56202275 # 2853888; 56202275 # 1426944; 0].
Proof. vm_compute. repeat split; reflexivity. Qed.

(* automatic adjustment: 16 classes > maxBins = 8 are coarsened to minBins = 4 classes, third moment kept *)
Example adjust_coarsen_example :
  let s := loadFn Qops (init Qops (mkCfg Qops 1 10 16%nat 4%nat 8%nat)) [0;0;0;0;0;100;0;0;0;0;0;0;0;0;0;0] in
  let s' := adjust Qops s false in
  bins s' = 4%nat /\ thirdMoment Qops (size s') (psd s') = thirdMoment Qops (size s) (psd s).
Proof. vm_compute. repeat split; reflexivity. Qed.

(* PSDsize[int(minBins/2)] with fewer classes than minBins/2: the implementation raises IndexError after
   the (empty) extension; the model returns the state reached so far and flags the exception *)
Example adjust_index_error_example :
  let s := loadFn Qops (init Qops (mkCfg Qops 1 40 1%nat 8%nat 8%nat)) [5] in
  match adjust_full Qops s true with (s', ch, ni, raised) => raised = true /\ bins s' = 1%nat end.
Proof. vm_compute. split; reflexivity. Qed.

(* changeSizeClasses(..., resetPSD=True) calls reset() with resetBounds=True: the requested range is
   ignored and the ORIGINAL grid comes back (what the code does; consistent, hence no violation of C08) *)
Example change_with_reset_example :
  let s := change Qops (init Qops cQ) 2 40 (Some 5%nat) true in
  smin s = 1 /\ smax s = 10 /\ bins s = 4%nat.
Proof. vm_compute. repeat split; reflexivity. Qed.

(* ---- behaviour of the UNREPAIRED code (before fixes/C08-*.patch), as refutation witnesses ------ *)
Section Old.
Variable O : Ops.
Notation t := (T O).

(* reset() used to initialise the backup with all-zero arrays *)
Definition reset_old (s : state O) (rb : bool) : state O :=
  let s' := reset O s rb in
  mkState O (smin s') (smax s') (bins s') (psd s') (bounds s') (size s') (omin s') (omax s')
          (obins s') (minBins s') (maxBins s') (adaptive s') (zeros O (bins s')) (zeros O (S (bins s'))).
Definition init_old (c : cfg O) : state O :=
  let om := maxT O (mul O (ten O) (cMin O c)) (cMax O c) in
  reset_old (mkState O (cMin O c) om (cBins O c) [] [] [] (cMin O c) om (cBins O c) (cMinBins O c) (cMaxBins O c) true [] []) true.

(* changeSizeClasses used to sample the linearly interpolated density at the new centres *)
Definition change_old (s : state O) (cmin cmax : t) (n : nat) : state O :=
  let mx := maxT O (mul O (ten O) cmin) cmax in
  let oldV := thirdMoment O (size s) (psd s) in
  let dens := zipWith (dvd O) (psd s) (diffs O (bounds s)) in
  let rOld := mids O (bounds s) in
  let b := linspace O cmin mx n in
  let sz := mids O b in
  let p := zipWith (mul O) (map (interp O rOld dens) sz) (diffs O b) in
  let newV := thirdMoment O sz p in
  let p' := if eqb O newV (zero O) then zeros O n else map (fun x => mul O x (dvd O oldV newV)) p in
  mkState O cmin mx n p' b sz (omin s) (omax s) (obins s) (minBins s) (maxBins s) (adaptive s)
          (zeros O n) (zeros O (S n)).

(* CumulativeWeightedMomentFromN used to read self.PSD instead of N *)
Definition CumulativeWeightedMomentFromN_old (s : state O) (N : list t) (order : nat) (w : list t) : list t :=
  cumsum O (weighted O s (psd s) order w).
End Old.

(* revert() before any createBackup(): all-zero boundaries, min = max = 0 *)
Example revert_before_backup_refuted :
  let s := revert Qops (init_old Qops cQ) in
  bounds s = [0; 0; 0; 0; 0] /\ smin s = 0 /\ smax s = 0 /\ Qlt (smin s) (smax s) -> False.
Proof. vm_compute. intros (_ & _ & _ & H). discriminate H. Qed.
Example revert_before_backup_old_value : bounds (revert Qops (init_old Qops cQ)) = [0; 0; 0; 0; 0].
Proof. vm_compute. reflexivity. Qed.
(* ... and on the repaired model revert() restores the reset state *)
Example revert_before_backup_repaired : revert Qops (init Qops cQ) = init Qops cQ.
Proof. vm_compute. reflexivity. Qed.

(* one populated class, coarser classes covering the same range: the old re-mesh loses everything *)
Example remesh_covering_refuted_old :
  let s' := change_old Qops s16 1 10 3 in
  psd s' = [0; 0; 0] /\ bounds s' = [1; 4; 7; 10] /\
  Qlt (thirdMoment Qops (size s') (psd s')) (thirdMoment Qops (size s16) (psd s16)).
Proof. vm_compute. repeat split; reflexivity. Qed.

(* the old cumulative weighted moment of a supplied distribution changes with the stored one *)
Example cumulative_weighted_refuted_old :
  let s1 := loadFn Qops (init Qops cQ) [0; 0; 0; 0] in
  let s2 := loadFn Qops (init Qops cQ) [7; 10; 13; 16] in
  CumulativeWeightedMomentFromN_old Qops s1 [1; 2; 3; 4] 1 [1; 1; 1; 1] <>
  CumulativeWeightedMomentFromN_old Qops s2 [1; 2; 3; 4] 1 [1; 1; 1; 1] /\
  CumulativeWeightedMomentFromN Qops s1 [1; 2; 3; 4] 1 [1; 1; 1; 1] =
  CumulativeWeightedMomentFromN Qops s2 [1; 2; 3; 4] 1 [1; 1; 1; 1].
Proof. vm_compute. split; [discriminate | reflexivity]. Qed.
