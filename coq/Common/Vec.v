(* numpy-lite on lists, polymorphic over the scalar record [Ops]. Executable definitions only;
   lemmas about the real instance are in VecLemmas.v. *)
From Coq Require Import List Bool ZArith Arith.
Require Import Kawin.Common.Ops.
Import ListNotations.

Section Vec.
Variable O : Ops.
Notation t := (T O).

Fixpoint sumT (l : list t) : t :=
  match l with [] => zero O | x :: r => add O x (sumT r) end.

Fixpoint zipWith {A B C} (f : A -> B -> C) (l1 : list A) (l2 : list B) : list C :=
  match l1, l2 with a :: r1, b :: r2 => f a b :: zipWith f r1 r2 | _, _ => [] end.

(* l[1:] - l[:-1] *)
Fixpoint diffs (l : list t) : list t :=
  match l with
  | a :: (b :: _) as r => sub O b a :: diffs r
  | _ => []
  end.

(* 0.5 * (l[:-1] + l[1:]) ; kawin writes 0.5*(a+b), exact for dyadic halves *)
Definition half : t := dvd O (one O) (ofZ O 2).
Fixpoint mids (l : list t) : list t :=
  match l with
  | a :: (b :: _) as r => mul O half (add O a b) :: mids r
  | _ => []
  end.

(* l[:-1] *)
Definition init_ {A} (l : list A) : list A := removelast l.
(* l[1:] *)
Definition tail_ {A} (l : list A) : list A := tl l.

(* numpy argmax on a boolean array: index of first True, 0 when all False (or empty: numpy raises;
   callers guard non-emptiness) *)
Fixpoint find_first (l : list bool) : option nat :=
  match l with
  | [] => None
  | true :: _ => Some 0
  | false :: r => option_map S (find_first r)
  end.
Definition argmax_first (l : list bool) : nat :=
  match find_first l with Some k => k | None => 0 end.

(* Python index with negative wrap into a list of length n; None when out of range *)
Definition pyidx (n : nat) (i : Z) : option nat :=
  if (0 <=? i)%Z then (if (i <? Z.of_nat n)%Z then Some (Z.to_nat i) else None)
  else (if (- Z.of_nat n <=? i)%Z then Some (Z.to_nat (Z.of_nat n + i)) else None).

(* a[k] += v *)
Fixpoint add_at (l : list t) (k : nat) (v : t) : list t :=
  match l, k with
  | [], _ => []
  | x :: r, 0 => add O x v :: r
  | x :: r, S k' => x :: add_at r k' v
  end.

Definition nthT (l : list t) (k : nat) : t := nth k l (zero O).

Definition absT (x : t) : t := if ltb O x (zero O) then sub O (zero O) x else x.
Definition negT (x : t) : t := sub O (zero O) x.
Definition maxT (a b : t) : t := if ltb O a b then b else a.
Definition minT (a b : t) : t := if ltb O b a then b else a.

(* numpy amax of a non-empty list (first argument is the head) *)
Fixpoint amax (x : t) (l : list t) : t :=
  match l with [] => x | y :: r => amax (maxT x y) r end.
Fixpoint amin (x : t) (l : list t) : t :=
  match l with [] => x | y :: r => amin (minT x y) r end.

(* cumulative sum *)
Fixpoint cumsum_from (acc : t) (l : list t) : list t :=
  match l with [] => [] | x :: r => let a := add O acc x in a :: cumsum_from a r end.
Definition cumsum (l : list t) : list t :=
  match l with [] => [] | x :: r => x :: cumsum_from x r end.

(* integer power *)
Fixpoint powT (x : t) (n : nat) : t :=
  match n with 0 => one O | S k => mul O x (powT x k) end.

(* np.linspace(a, b, n+1): n+1 points; numpy computes a + i*step with step=(b-a)/n and forces the
   last point to b *)
Definition linspace (a b : t) (n : nat) : list t :=
  map (fun i => if Nat.eqb i n then b
                else add O a (mul O (ofZ O (Z.of_nat i)) (dvd O (sub O b a) (ofZ O (Z.of_nat n)))))
      (seq 0 (S n)).

(* np.interp(x, xp, fp) for increasing xp, flat outside (left=fp[0], right=fp[-1]) *)
Fixpoint interp_go (xp fp : list t) (x : t) (lastf : t) : t :=
  match xp, fp with
  | x0 :: ((x1 :: _) as xr), f0 :: ((f1 :: _) as fr) =>
      if ltb O x x1
      then add O f0 (mul O (dvd O (sub O f1 f0) (sub O x1 x0)) (sub O x x0))
      else interp_go xr fr x lastf
  | _, _ => lastf
  end.
Definition interp (xp fp : list t) (x : t) : t :=
  match xp, fp with
  | x0 :: _, f0 :: _ =>
      if leb O x x0 then f0
      else let fl := last fp f0 in
           if leb O (last xp x0) x then fl else interp_go xp fp x fl
  | _, _ => zero O
  end.

End Vec.

Arguments zipWith {A B C} f l1 l2.
Arguments init_ {A} l.
Arguments tail_ {A} l.
