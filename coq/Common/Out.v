(* Helpers for the correspondence check (harness side, no theorem depends on them).
   Printing exact rationals with several-hundred-bit numerators dominates the run time of a case
   file (Coq's number printer needs milliseconds per large literal), so the comparison of the
   implementation's outputs with the model's is carried out here, on exact rationals, and only
   verdicts are printed: [None] when every entry agrees within tolerance, otherwise the index of the
   first disagreement with a 62-bit approximation  m * 2^(-s)  of the model's value. *)
From Coq Require Import QArith ZArith List Bool.
Import ListNotations.

Definition approx (q : Q) : Z * Z * bool :=
  let n := Qnum q in
  let d := Zpos (Qden q) in
  if (n =? 0)%Z then (0, 0, true)%Z
  else
    let s := (60 + Z.log2 d - Z.log2 (Z.abs n))%Z in
    let m := if (0 <=? s)%Z then ((n * 2 ^ s) / d)%Z else (n / (d * 2 ^ (- s)))%Z in
    let ex := if (0 <=? s)%Z then (m * d =? n * 2 ^ s)%Z else (m * (d * 2 ^ (- s)) =? n)%Z in
    (m, s, ex).

Definition approxl (l : list Q) : list (Z * Z * bool) := map approx l.

Definition qabs (q : Q) : Q := if Qle_bool 0 q then q else Qopp q.
Definition qmax (a b : Q) : Q := if Qle_bool a b then b else a.

(* |a - b| <= rt * scale *)
Definition closeb (rt a b scale : Q) : bool :=
  Qle_bool (qabs (Qred (a - b))) (Qred (rt * scale)).

(* a and b differ, but by no more than rt * max(|a|,|b|): a branch decided on a < b cannot be
   compared between binary64 and exact arithmetic *)
Definition near_tie (rt a b : Q) : bool :=
  negb (Qeq_bool a b) && closeb rt a b (qmax (qabs a) (qabs b)).

Definition verdict := option (nat * (Z * Z * bool)).

Fixpoint cmp_go (rt : Q) (k : nat) (impl model scale : list Q) : verdict :=
  match impl, model, scale with
  | a :: i', b :: m', s :: s' =>
      if closeb rt a b s then cmp_go rt (S k) i' m' s' else Some (k, approx b)
  | [], [], _ => None
  | _, _, _ => Some (k, (0, 0, false)%Z)
  end.
Definition cmpl (rt : Q) (impl model scale : list Q) : verdict := cmp_go rt 0 impl model scale.
(* scale = magnitude of the model value itself *)
Definition cmpl_rel (rt : Q) (impl model : list Q) : verdict := cmpl rt impl model (map qabs model).
Definition cmp1 (rt : Q) (impl model : Q) : verdict := cmpl_rel rt [impl] [model].
