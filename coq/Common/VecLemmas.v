(* Lemmas about the list primitives of Vec.v: shape lemmas for any scalar record, algebraic
   lemmas for the real instance. *)
From Coq Require Import Reals List Bool ZArith Arith Lia Lra.
Require Import Kawin.Common.Ops Kawin.Common.Vec.
Import ListNotations.

Section Shape.
Context {A B C D : Type}.

Lemma zipWith_length (f : A -> B -> C) l1 l2 :
  length (zipWith f l1 l2) = Nat.min (length l1) (length l2).
Proof. revert l2; induction l1 as [|a l1 IH]; intros [|b l2]; simpl; auto. Qed.

Lemma nth_zipWith (f : A -> B -> C) l1 l2 k d d1 d2 :
  k < length l1 -> k < length l2 ->
  nth k (zipWith f l1 l2) d = f (nth k l1 d1) (nth k l2 d2).
Proof.
  revert l2 k; induction l1 as [|a l1 IH]; intros [|b l2] [|k] H1 H2; simpl in *; try lia; auto.
  apply IH; lia.
Qed.

Lemma removelast_length (l : list A) : length (removelast l) = length l - 1.
Proof. induction l as [|a [|b l] IH]; simpl in *; auto. lia. Qed.

Lemma nth_removelast (l : list A) k d : k < length l - 1 -> nth k (removelast l) d = nth k l d.
Proof.
  revert k; induction l as [|a [|b l] IH]; intros k H; simpl in *; try lia.
  destruct k; auto. apply IH. lia.
Qed.

Lemma tl_length (l : list A) : length (tl l) = length l - 1.
Proof. destruct l; simpl; lia. Qed.

Lemma nth_tl (l : list A) k d : nth k (tl l) d = nth (S k) l d.
Proof. destruct l; simpl; auto. destruct k; auto. Qed.

Lemma last_nth (l : list A) d : last l d = nth (length l - 1) l d.
Proof.
  induction l as [|a [|b l] IH]; simpl in *; auto.
  rewrite IH. replace (length l - 0) with (length l) by lia. reflexivity.
Qed.

Lemma hd_nth (l : list A) d : hd d l = nth 0 l d.
Proof. destruct l; auto. Qed.
Lemma nth_skipn d (l : list A) j x : nth j (skipn d l) x = nth (d + j) l x.
Proof. revert l; induction d as [|d IH]; intros [|a l]; simpl; auto. destruct j; auto. Qed.
End Shape.

Lemma find_first_spec (l : list bool) k :
  find_first l = Some k <-> (k < length l /\ nth k l false = true /\ forall j, j < k -> nth j l false = false).
Proof.
  revert k; induction l as [|b l IH]; intros k; simpl.
  - split; [discriminate | intros [H _]; lia].
  - destruct b.
    + split.
      * intros E; inversion E; subst. repeat split; try lia.
      * intros (H1 & H2 & H3). destruct k; auto. specialize (H3 0 ltac:(lia)). discriminate.
    + destruct (find_first l) as [m|] eqn:E; simpl.
      * split.
        -- intros E'; inversion E'; subst. destruct (proj1 (IH m) eq_refl) as (H1 & H2 & H3).
           repeat split; try lia; auto. intros [|j] Hj; auto. apply H3; lia.
        -- intros (H1 & H2 & H3). destruct k; [discriminate|].
           f_equal. assert (Some m = Some k) as X; [|inversion X; auto].
           apply IH. repeat split; try lia; auto. intros j Hj. apply (H3 (S j)); lia.
      * split; [discriminate|]. intros (H1 & H2 & H3). destruct k; [discriminate|].
        assert (None = Some k) as X; [|discriminate]. apply IH.
        repeat split; try lia; auto. intros j Hj. apply (H3 (S j)); lia.
Qed.

Lemma find_first_none (l : list bool) : find_first l = None <-> forall j, j < length l -> nth j l false = false.
Proof.
  induction l as [|b l IH]; simpl.
  - split; auto. intros; lia.
  - destruct b.
    + split; [discriminate|]. intros H. specialize (H 0 ltac:(lia)). discriminate.
    + destruct (find_first l) eqn:E; simpl.
      * split; [discriminate|]. intros H. assert (Some n = None) as X; [|discriminate].
        apply IH. intros j Hj. apply (H (S j)); lia.
      * split; auto. intros _ [|j] Hj; auto. apply (proj1 IH eq_refl). lia.
Qed.

Lemma argmax_first_le (l : list bool) : argmax_first l <= length l - 1.
Proof.
  unfold argmax_first. destruct (find_first l) eqn:E; [|lia].
  apply find_first_spec in E. lia.
Qed.

(* ---- real instance ------------------------------------------------------------------ *)
Open Scope R_scope.
Notation sumR := (sumT Rops).

Lemma sumR_app l1 l2 : sumR (l1 ++ l2) = sumR l1 + sumR l2.
Proof. induction l1 as [|a l1 IH]; simpl; Rnorm; [lra|]. rewrite IH. lra. Qed.

Lemma diffs_length l : length (diffs Rops l) = (length l - 1)%nat.
Proof. induction l as [|a [|b l] IH]; simpl in *; auto. lia. Qed.

Lemma nth_diffs l k : (S k < length l)%nat -> nth k (diffs Rops l) 0 = nth (S k) l 0 - nth k l 0.
Proof.
  revert k; induction l as [|a [|b l] IH]; intros k H; simpl in *; try lia.
  destruct k; [reflexivity|]. apply IH. lia.
Qed.

Lemma mids_length l : length (mids Rops l) = (length l - 1)%nat.
Proof. induction l as [|a [|b l] IH]; simpl in *; auto. lia. Qed.

Lemma nth_mids l k : (S k < length l)%nat -> nth k (mids Rops l) 0 = (nth k l 0 + nth (S k) l 0) / 2.
Proof.
  revert k; induction l as [|a [|b l] IH]; intros k H; simpl in *; try lia.
  destruct k; [unfold half; Rnorm; lra|]. apply IH. lia.
Qed.

(* telescoping: sum (l[:-1] - l[1:]) = l[0] - l[-1] *)
Lemma sum_telescope (l : list R) : l <> [] ->
  sumR (zipWith Rminus (init_ l) (tail_ l)) = hd 0 l - last l 0.
Proof.
  induction l as [|a [|b l] IH]; intros H; [congruence| |].
  - simpl. Rnorm. lra.
  - specialize (IH ltac:(discriminate)). unfold init_, tail_ in *.
    change (removelast (a :: b :: l)) with (a :: removelast (b :: l)).
    change (tl (a :: b :: l)) with (b :: l).
    assert (E : zipWith Rminus (a :: removelast (b :: l)) (b :: l)
                = (a - b) :: zipWith Rminus (removelast (b :: l)) (tl (b :: l))).
    { simpl tl. destruct l as [|c l]; [reflexivity|].
      change (removelast (b :: c :: l)) with (b :: removelast (c :: l)). reflexivity. }
    rewrite E. change (sumR ((a - b) :: ?r)) with ((a - b) + sumR r). rewrite IH.
    change (last (a :: b :: l) 0) with (last (b :: l) 0). simpl hd. lra.
Qed.

Lemma add_at_length l k v : length (add_at Rops l k v) = length l.
Proof. revert k; induction l as [|a l IH]; intros [|k]; simpl; auto. Qed.

Lemma sum_add_at l k v : (k < length l)%nat -> sumR (add_at Rops l k v) = sumR l + v.
Proof.
  revert k; induction l as [|a l IH]; intros [|k] H; simpl in *; try lia; Rnorm; [lra|].
  rewrite IH by lia. lra.
Qed.

Lemma nth_add_at l k v j :
  nth j (add_at Rops l k v) 0 = if (Nat.eqb j k && Nat.ltb k (length l))%bool then nth j l 0 + v else nth j l 0.
Proof.
  revert k j; induction l as [|a l IH]; intros [|k] [|j]; simpl; auto.
  - rewrite andb_false_r. reflexivity.
  - rewrite IH. change (Nat.ltb (S k) (S (length l))) with (Nat.ltb k (length l)). reflexivity.
Qed.

Lemma sumR_nonneg l : Forall (fun x => 0 <= x) l -> 0 <= sumR l.
Proof. induction 1; simpl; Rnorm; lra. Qed.
