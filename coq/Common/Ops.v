(* Scalar-operation record: every D1 kernel of kawin is written ONCE over [Ops] and
   instantiated on Coq's reals (all theorems) and on exact rationals (execution under
   vm_compute for the correspondence check). *)
From Coq Require Import Reals QArith Qreals Qround ZArith List Bool Lra Lia.
Import ListNotations.

Record Ops := mkOps {
  T : Type;
  zero : T; one : T;
  add : T -> T -> T; sub : T -> T -> T; mul : T -> T -> T; dvd : T -> T -> T;
  ltb : T -> T -> bool; leb : T -> T -> bool; eqb : T -> T -> bool;
  ofZ : Z -> T }.

(* ---- real instance ------------------------------------------------------------------ *)
Definition Rltb (a b : R) : bool := if Rlt_dec a b then true else false.
Definition Rleb (a b : R) : bool := if Rle_dec a b then true else false.
Definition Reqb (a b : R) : bool := if Req_EM_T a b then true else false.

Definition Rops : Ops :=
  mkOps R 0%R 1%R Rplus Rminus Rmult Rdiv Rltb Rleb Reqb IZR.

Lemma Rltb_true a b : Rltb a b = true <-> (a < b)%R.
Proof. unfold Rltb; destruct (Rlt_dec a b); split; intros; try discriminate; auto; lra. Qed.
Lemma Rltb_false a b : Rltb a b = false <-> (b <= a)%R.
Proof. unfold Rltb; destruct (Rlt_dec a b); split; intros; try discriminate; auto; lra. Qed.
Lemma Rleb_true a b : Rleb a b = true <-> (a <= b)%R.
Proof. unfold Rleb; destruct (Rle_dec a b); split; intros; try discriminate; auto; lra. Qed.
Lemma Rleb_false a b : Rleb a b = false <-> (b < a)%R.
Proof. unfold Rleb; destruct (Rle_dec a b); split; intros; try discriminate; auto; lra. Qed.
Lemma Reqb_true a b : Reqb a b = true <-> a = b.
Proof. unfold Reqb; destruct (Req_EM_T a b); split; intros; try discriminate; auto; contradiction. Qed.
Lemma Reqb_false a b : Reqb a b = false <-> a <> b.
Proof. unfold Reqb; destruct (Req_EM_T a b); split; intros; try discriminate; auto; contradiction. Qed.

(* ---- rational instance (normalised after every operation) ---------------------------- *)
Definition Qltb (a b : Q) : bool := match Qcompare a b with Lt => true | _ => false end.
Definition Qleb (a b : Q) : bool := match Qcompare a b with Gt => false | _ => true end.

Definition Qops : Ops :=
  mkOps Q 0%Q 1%Q
    (fun a b => Qred (Qplus a b)) (fun a b => Qred (Qminus a b))
    (fun a b => Qred (Qmult a b)) (fun a b => Qred (Qdiv a b))
    Qltb Qleb Qeq_bool (fun z => inject_Z z).

(* ---- Q -> R homomorphism facts ------------------------------------------------------ *)
Lemma Q2R_red q : Q2R (Qred q) = Q2R q.
Proof. apply Qeq_eqR, Qred_correct. Qed.
Lemma hom_add a b : Q2R (add Qops a b) = add Rops (Q2R a) (Q2R b).
Proof. cbn [add sub mul dvd Qops Rops]. rewrite Q2R_red. apply Q2R_plus. Qed.
Lemma hom_sub a b : Q2R (sub Qops a b) = sub Rops (Q2R a) (Q2R b).
Proof. cbn [add sub mul dvd Qops Rops]. rewrite Q2R_red. apply Q2R_minus. Qed.
Lemma hom_mul a b : Q2R (mul Qops a b) = mul Rops (Q2R a) (Q2R b).
Proof. cbn [add sub mul dvd Qops Rops]. rewrite Q2R_red. apply Q2R_mult. Qed.
Lemma hom_dvd a b : ~ (b == 0)%Q -> Q2R (dvd Qops a b) = dvd Rops (Q2R a) (Q2R b).
Proof. intros H. cbn [dvd Qops Rops]. rewrite Q2R_red. apply Q2R_div; exact H. Qed.
Lemma hom_zero : Q2R (zero Qops) = zero Rops.
Proof. cbn. unfold Q2R; simpl; lra. Qed.
Lemma hom_one : Q2R (one Qops) = one Rops.
Proof. cbn. unfold Q2R; simpl; lra. Qed.
Lemma hom_ltb a b : ltb Qops a b = ltb Rops (Q2R a) (Q2R b).
Proof.
  cbn. unfold Qltb, Rltb. destruct (Qcompare a b) eqn:E.
  - apply Qeq_alt in E. apply Qeq_eqR in E. destruct (Rlt_dec (Q2R a) (Q2R b)); auto; lra.
  - apply Qlt_alt in E. apply Qlt_Rlt in E. destruct (Rlt_dec (Q2R a) (Q2R b)); auto; lra.
  - apply Qgt_alt in E. apply Qlt_Rlt in E. destruct (Rlt_dec (Q2R a) (Q2R b)); auto; lra.
Qed.
Lemma hom_leb a b : leb Qops a b = leb Rops (Q2R a) (Q2R b).
Proof.
  cbn. unfold Qleb, Rleb. destruct (Qcompare a b) eqn:E.
  - apply Qeq_alt in E. apply Qeq_eqR in E. destruct (Rle_dec (Q2R a) (Q2R b)); auto; lra.
  - apply Qlt_alt in E. apply Qlt_Rlt in E. destruct (Rle_dec (Q2R a) (Q2R b)); auto; lra.
  - apply Qgt_alt in E. apply Qlt_Rlt in E. destruct (Rle_dec (Q2R a) (Q2R b)); auto; lra.
Qed.
Lemma hom_eqb a b : eqb Qops a b = eqb Rops (Q2R a) (Q2R b).
Proof.
  cbn. unfold Reqb. destruct (Qeq_bool a b) eqn:E.
  - apply Qeq_bool_iff, Qeq_eqR in E. destruct (Req_EM_T (Q2R a) (Q2R b)); auto; contradiction.
  - destruct (Req_EM_T (Q2R a) (Q2R b)) as [e|]; auto. apply eqR_Qeq, Qeq_bool_iff in e. congruence.
Qed.

(* ---- working at the real instance --------------------------------------------------- *)
(* Goals about the [Rops] instance are stated with the record projections; [Rnorm] exposes
   the underlying real operations so that lra / nra / field apply. *)
Ltac Rnorm :=
  cbn [T zero one add sub mul dvd ltb leb eqb ofZ Rops] in *.

(* turn boolean comparison facts into propositions *)
Ltac Rbool :=
  repeat match goal with
  | H : Rltb _ _ = true |- _ => apply Rltb_true in H
  | H : Rltb _ _ = false |- _ => apply Rltb_false in H
  | H : Rleb _ _ = true |- _ => apply Rleb_true in H
  | H : Rleb _ _ = false |- _ => apply Rleb_false in H
  | H : Reqb _ _ = true |- _ => apply Reqb_true in H
  | H : Reqb _ _ = false |- _ => apply Reqb_false in H
  end.
