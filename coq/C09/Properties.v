(* C09 - Thermodynamic queries are pure: history, caching, batching change nothing.
   This file contains ONLY the property theorems; each is closed by [exact] of a lemma of Proofs.v /
   ProofsC.v and followed by Print Assumptions.

   Part A (composition cache of the diffusion models, kawin/diffusion/DiffusionParameters.py HashTable,
   SinglePhase.py _getFluxes) and part B (array wrappers, kawin/thermo/utils.py and the get* methods) are
   unconditional.  Part C (cached composition sets of GeneralThermodynamics) is proved of the model of
   kawin's cache handling with pycalphad as an oracle; the premises `start_independent`,
   `solver_keeps_phases` and `global_is_local` are hypotheses about pycalphad that appear in the
   statements and are only SAMPLED by the harness. *)
From Coq Require Import ZArith QArith Qabs List Bool.
Require Import Kawin.C09.Model Kawin.C09.Proofs Kawin.C09.ProofsC.
Import ListNotations.

(* ========================================================================================== *)
(* A. composition cache *)

(* two points have the same key exactly when they have the same number of components and every
   coordinate (composition entries, temperature) has the same value after scaling by 10^s and
   truncating: "round to the same key at the configured precision" *)
Theorem C09_key_eq_iff s x T x' T' :
  key s x T = key s x' T' <-> Forall2 (fun a b => scaled s a = scaled s b) (x ++ [T]) (x' ++ [T']).
Proof. exact (key_eq_iff s x T x' T'). Qed.
Print Assumptions C09_key_eq_iff.

(* the cell of a coordinate: n <= v * 10^s < n + 1 *)
Theorem C09_key_cell s v n : 0 <= v ->
  (scaled s v = n <-> inject_Z n <= v * pow10 s /\ v * pow10 s < inject_Z (n + 1)).
Proof. exact (scaled_cell s v n). Qed.
Print Assumptions C09_key_cell.

(* points with the same key agree in every coordinate to within 10^-s, for EVERY precision s
   (no overflow, no collision of distant temperatures) *)
Theorem C09_same_key_close s x T x' T' :
  Forall (fun a => 0 <= a) (x ++ [T]) -> Forall (fun a => 0 <= a) (x' ++ [T']) ->
  key s x T = key s x' T' ->
  Forall2 (fun a b => Qabs (a - b) * pow10 s < 1) (x ++ [T]) (x' ++ [T']).
Proof. exact (same_key_close s x T x' T'). Qed.
Print Assumptions C09_same_key_close.

(* soundness of a hit, for every history of operations (enable / disable, clear, change of precision,
   additions): the value was added in this history for a point that has, AT THE PRECISION CONFIGURED
   NOW, the same key as the query *)
Theorem C09_retrieve_sound (V : Type) (ops : list (op V)) x T (v : V) :
  retrieve (exec ops cache_init) x T = Some v ->
  let c := exec ops (@cache_init V) in
  c_on c = true /\
  exists x' T', In (Add x' T' v) ops /\ key (c_sens c) x' T' = key (c_sens c) x T.
Proof. exact (retrieve_sound V ops x T v). Qed.
Print Assumptions C09_retrieve_sound.

(* complete description of one addition: afterwards a query hits the new value exactly when it has
   the key of the added point, every other query is answered as before *)
Theorem C09_retrieve_after_add (V : Type) (c : cache V) x T v x' T' : c_on c = true ->
  retrieve (step c (Add x T v)) x' T' =
    if keyeqb (key (c_sens c) x T) (key (c_sens c) x' T') then Some v else retrieve c x' T'.
Proof. exact (retrieve_after_add V c x T v x' T'). Qed.
Print Assumptions C09_retrieve_after_add.

(* the cache can be switched off: after enableCaching(False), whatever follows (short of switching it
   on again) nothing is retrieved *)
Theorem C09_disabled_history (V : Type) (ops1 ops2 : list (op V)) x T : no_enable_true V ops2 ->
  retrieve (exec (ops1 ++ Enable false :: ops2) (@cache_init V)) x T = None.
Proof. exact (disabled_history V ops1 ops2 x T). Qed.
Print Assumptions C09_disabled_history.

(* ... and nothing is stored *)
Theorem C09_disabled_stores_nothing (V : Type) (ops : list (op V)) (c : cache V) :
  c_on c = false -> no_enable_true V ops ->
  c_on (exec ops c) = false /\ (length (c_store (exec ops c)) <= length (c_store c))%nat.
Proof. exact (off_stays_off V ops c). Qed.
Print Assumptions C09_disabled_stores_nothing.

(* clearing and changing the precision empty the table *)
Theorem C09_clear_empties (V : Type) (c : cache V) x T : retrieve (step c Clear) x T = None.
Proof. exact (retrieve_after_clear V c x T). Qed.
Print Assumptions C09_clear_empties.

Theorem C09_setsens_empties (V : Type) (c : cache V) s x T : retrieve (step c (SetSens s)) x T = None.
Proof. exact (retrieve_after_setsens V c s x T). Qed.
Print Assumptions C09_setsens_empties.

(* the diffusivity loop of SinglePhaseModel._getFluxes over the nodes of the mesh, for every backend f,
   every table whose entries are backend values stored under the key of their point, every list of
   nodes: each node receives the backend's value at a point with the same key as the node, and the table
   keeps that shape *)
Theorem C09_cached_nodes_sound (V : Type) (f : list Q -> Q -> V) pts (c : cache V) : faithful V f c ->
  let (c', vs) := cached_nodes f c pts in
  faithful V f c' /\ c_sens c' = c_sens c /\ c_on c' = c_on c /\ Forall2 (point_ok V f (c_sens c)) pts vs.
Proof. exact (cached_nodes_sound V f pts c). Qed.
Print Assumptions C09_cached_nodes_sound.

(* switched off: every node receives the backend's value at that very node; the table is untouched *)
Theorem C09_cached_nodes_off (V : Type) (f : list Q -> Q -> V) pts (c : cache V) : c_on c = false ->
  cached_nodes f c pts = (c, map (fun p => f (fst p) (snd p)) pts).
Proof. exact (cached_nodes_off V f pts c). Qed.
Print Assumptions C09_cached_nodes_off.

(* switched on it does cache (the statements above are not vacuous) *)
Theorem C09_cached_nodes_reuses (V : Type) (f : list Q -> Q -> V) (c : cache V) x T x' T' :
  c_on c = true -> retrieve c x T = None -> key (c_sens c) x T = key (c_sens c) x' T' ->
  snd (cached_nodes f c [(x, T); (x', T')]) = [f x T; f x T].
Proof. exact (cached_nodes_reuses V f c x T x' T'). Qed.
Print Assumptions C09_cached_nodes_reuses.

(* ========================================================================================== *)
(* B. array wrappers *)

Theorem C09_process_xT_length (A B : Type) b (x : arr2 A) (T : arr1 B) xs Ts :
  process_xT b x T = Some (xs, Ts) -> length xs = length Ts.
Proof. exact (process_xT_length A B b x T xs Ts). Qed.
Print Assumptions C09_process_xT_length.

(* broadcasting invents nothing: the arrays are passed through, or the single row / the single
   temperature is repeated *)
Theorem C09_process_xT_cases (A B : Type) b (x : arr2 A) (T : arr1 B) xs Ts :
  process_xT b x T = Some (xs, Ts) ->
  let x2 := if b && negb (Nat.eqb (ncols (atleast_2d x)) 1) then transpose (atleast_2d x) else atleast_2d x in
  let T1 := atleast_1d T in
  (xs = x2 /\ Ts = T1) \/
  (exists row, x2 = [row] /\ xs = repeat row (length T1) /\ Ts = T1) \/
  (exists t, T1 = [t] /\ xs = x2 /\ Ts = repeat t (length x2)).
Proof. exact (process_xT_cases A B b x T xs Ts). Qed.
Print Assumptions C09_process_xT_cases.

(* processed arrays are a fixed point (the wrappers are applied twice on nested calls) *)
Theorem C09_process_idempotent (A B : Type) b (x : arr2 A) (T : arr1 B) xs Ts :
  process_xT b x T = Some (xs, Ts) -> (b = true -> rows1 A xs) ->
  process_xT b (Mat2 xs) (Vec1 Ts) = Some (xs, Ts).
Proof. exact (process_xT_output_idempotent A B b x T xs Ts). Qed.
Print Assumptions C09_process_idempotent.

(* evaluated inside an array = evaluated alone (backend a function of the point) *)
Theorem C09_batch_is_pointwise (A B R : Type) b (f : list A -> B -> R) (x : arr2 A) (T : arr1 B) xs Ts :
  process_xT b x T = Some (xs, Ts) -> (b = true -> rows1 A xs) ->
  exists rs, query_xT b f x T = Some rs /\ length rs = length xs /\
    Forall2 (fun p v => query_xT b f (Vec2 (fst p)) (Sc1 (snd p)) = Some [v]) (combine xs Ts) rs.
Proof. exact (query_batch_pointwise A B R b f x T xs Ts). Qed.
Print Assumptions C09_batch_is_pointwise.

(* with a backend that carries state from point to point (cached composition sets): if the value at a
   point does not depend on that state, the batch returns the pointwise values whatever state the object
   was in *)
Theorem C09_batch_state_independent (A B R S : Type) (f : S -> list A -> B -> S * R) (h : list A -> B -> R) :
  (forall s x t, snd (f s x t) = h x t) ->
  forall b s s' x T,
    option_map snd (query_xT_st b f s x T) = query_xT b h x T /\
    option_map snd (query_xT_st b f s x T) = option_map snd (query_xT_st b f s' x T).
Proof.
  exact (fun H b s s' x T => conj (query_st_values A B R S f h H b s x T) (query_st_history A B R S f h H b s s' x T)).
Qed.
Print Assumptions C09_batch_state_independent.

(* BinaryThermodynamics.getInterfacialComposition: the batched call (one temperature, an array of
   Gibbs-Thomson energies) equals the per-point calls when the backend evaluates the array pointwise *)
Theorem C09_interfacial_binary_pointwise (B R : Type) (B_eqb : B -> B -> bool)
  (fb : B -> list B -> list R) (T g : arr1 B) Ts gs :
  (forall t l, fb t l = concat (map (fun g0 => fb t [g0]) l)) ->
  (forall a c, B_eqb a c = true -> a = c) ->
  process_TG T g = Some (Ts, gs) -> Ts <> [] ->
  interfacial_binary B_eqb fb T g = Some (concat (map2 (fun t0 g0 => fb t0 [g0]) Ts gs)).
Proof. exact (interfacial_binary_pointwise B R B_eqb fb T g Ts gs). Qed.
Print Assumptions C09_interfacial_binary_pointwise.

(* ========================================================================================== *)
(* C. cached composition sets *)

Section C.
  Variables X Tm G Y Res Smp Val Cd : Type.
  Variable Tm_eqb : Tm -> Tm -> bool.
  Variable cdT : Cd -> Tm.
  Variable cdG : Cd -> G.
  Variable cond_x : X -> Tm -> G -> Cd.
  Variable cond_mu : Res -> Tm -> Cd.
  Variables g0 gOff : G.
  Variable solve : Cd -> list (cset Tm G Y) -> Res * list (cset Tm G Y).
  Variable naive : Ph -> Tm -> G -> Y.
  Variable is_nan : Res -> bool.
  Variable sample : Ph -> Tm -> Smp.
  Variable best : Smp -> Res -> Val * Y.
  Variable global_eq : X -> Tm -> G -> Ph -> Res * list (cset Tm G Y).
  Variable dval tval : Res -> list (cset Tm G Y) -> Val.
  Variable gval : Res -> Val.
  Variable xval : cset Tm G Y -> Val.
  Variable aval : cset Tm G Y -> Res -> Res -> Val.
  Variable same_comp : cset Tm G Y -> list (cset Tm G Y) -> bool.
  Variable cval : Res -> cset Tm G Y -> cset Tm G Y -> Val.

  (* whatever pycalphad does: every composition set kawin hands to the solver - freshly made or taken
     from a cache - carries the temperature and extra energy of the conditions of THIS call *)
  Theorem C09_solver_input_refreshed phases cd start :
    local_eq cdT cdG solve naive phases cd start = solve cd (solver_input Tm G Y Cd cdT cdG naive phases cd start) /\
    Forall (fun c => cs_T c = cdT cd /\ cs_g c = cdG cd) (solver_input Tm G Y Cd cdT cdG naive phases cd start).
  Proof.
    exact (conj (local_eq_is_solve Tm G Y Res Cd cdT cdG solve naive phases cd start)
                (solver_input_refreshed Tm G Y Cd cdT cdG naive phases cd start)).
  Qed.

  (* removeCache resets exactly the three driving-force caches of the phase *)
  Theorem C09_reset_df_exact (s : tstate Tm G Y Smp Val) p :
    let s' := reset_df s p true in
    aget p (df_cs s') = None /\ mat_cs s' = None /\ aget p (pts s') = None /\
    (forall q, q <> p -> aget q (df_cs s') = aget q (df_cs s) /\ aget q (pts s') = aget q (pts s)) /\
    diff_cs s' = diff_cs s /\ curv_cs s' = curv_cs s.
  Proof. exact (reset_df_exact Tm G Y Smp Val s p). Qed.

  (* the diffusivity cache is keyed by phase and removeCache leaves nothing behind *)
  Theorem C09_diffusivity_cache_per_phase (val : Res -> list (cset Tm G Y) -> Val) (s : tstate Tm G Y Smp Val) x T rm p :
    let s' := fst (diffusivity cdT cdG cond_x g0 solve naive val s x T rm p) in
    (rm = true -> aget p (diff_cs s') = None) /\
    (forall q, q <> p -> aget q (diff_cs s') = aget q (diff_cs s)) /\
    df_cs s' = df_cs s /\ mat_cs s' = mat_cs s /\ pts s' = pts s /\ curv_cs s' = curv_cs s.
  Proof. exact (diffusivity_frame X Tm G Y Res Smp Val Cd cdT cdG cond_x g0 solve naive val s x T rm p). Qed.

  (* curvatureFactor(..., removeCache=True): the answer comes from the equilibrium of THIS call or is None -
     never an earlier result - and no composition sets are kept for the phase; whatever pycalphad does,
     whatever the caches hold, at every point (also where no tie-line exists) *)
  Theorem C09_curvature_remove_cache (s : tstate Tm G Y Smp Val) x T p :
    snd (curvature cdT cdG cond_x gOff solve naive is_nan global_eq cval s x T p true) =
      match compsets_eq cdT cdG cond_x gOff solve naive is_nan global_eq (aget p (curv_cs s)) x T p with
      | Some (mu, Some cm, Some cp) => Some (cval mu cm cp)
      | _ => None
      end /\
    aget p (curv_cs (fst (curvature cdT cdG cond_x gOff solve naive is_nan global_eq cval s x T p true))) = None.
  Proof. exact (curvature_remove_cache X Tm G Y Res Smp Val Cd cdT cdG cond_x gOff solve naive is_nan global_eq cval s x T p). Qed.

  (* ... whereas with removeCache=False a point without tie-line gets the previous result of the phase
     (kawin's documented fall-back; the reason why part C is stated for the stable range) *)
  Theorem C09_curvature_fallback (s : tstate Tm G Y Smp Val) x T p l0 :
    aget p (curv_cs s) = Some l0 ->
    (forall mu cm cp, compsets_eq cdT cdG cond_x gOff solve naive is_nan global_eq (Some l0) x T p <> Some (mu, Some cm, Some cp)) ->
    snd (curvature cdT cdG cond_x gOff solve naive is_nan global_eq cval s x T p false) = aget p (curv_out s).
  Proof. exact (curvature_fallback X Tm G Y Res Smp Val Cd cdT cdG cond_x gOff solve naive is_nan global_eq cval s x T p l0). Qed.

  (* a precipitate composition set that stays cached after an answered tangent query (removeCache = False) is never
     one that this query found collapsed onto the matrix composition (order / disorder phases below the solvus): such a
     set is dropped before the fall-back on sampling, so it cannot be the starting point of later queries.
     No hypothesis about pycalphad. *)
  Theorem C09_tangent_never_caches_collapsed (s s' : tstate Tm G Y Smp Val) x T p v c0 rest mcs :
    df_tangent Tm_eqb cdT cdG cond_x cond_mu g0 gOff solve naive is_nan sample best gval xval same_comp s x T p false = (s', Some v) ->
    aget p (df_cs s') = Some (c0 :: rest) -> mat_cs s' = Some mcs ->
    same_comp c0 mcs = false.
  Proof.
    exact (tangent_never_caches_collapsed X Tm G Y Res Smp Val Tm_eqb Cd cdT cdG cond_x cond_mu g0 gOff solve naive is_nan
             sample best gval xval same_comp s s' x T p v c0 rest mcs).
  Qed.

  (* ---- hypotheses about pycalphad (sampled by the harness, not proved) ---- *)
  Hypothesis Tm_eqb_spec : forall a b, Tm_eqb a b = true <-> a = b.
  (* the converged result does not depend on the internal degrees of freedom of the composition sets
     the solver is started from (it may depend on their phases and on the state variables they carry) *)
  Hypothesis start_independent : forall cd (l l' : list (cset Tm G Y)),
    map cs_ph l = map cs_ph l' -> map cs_T l = map cs_T l' -> map cs_g l = map cs_g l' ->
    solve cd l = solve cd l'.
  Hypothesis solver_keeps_phases : forall cd (l : list (cset Tm G Y)), map cs_ph (snd (solve cd l)) = map cs_ph l.
  (* approximate method: in the two-phase region, without miscibility gap, the local equilibrium of one
     matrix and one precipitate set under the conditions of the global equilibrium reproduces it *)
  Hypothesis global_is_local : forall x T p (l0 : list (cset Tm G Y)),
    two_phase X Tm G Y Res gOff is_nan global_eq x T p -> map cs_ph l0 = [0%nat; p] ->
    let (mu, l) := global_eq x T gOff p in
    forall cm cp, pick 0%nat l = Some cm -> pick p l = Some cp ->
      local_eq cdT cdG solve naive [0%nat; p] (cond_x x T gOff) (Some l0) = (mu, [cm; cp]) /\
      cs_ph cm = 0%nat /\ cs_ph cp = p.

  (* the sampled points are keyed by the EXACT temperature: whatever the cache of the phase held before (the same, a
     nearby or a distant temperature), the driving force at T is evaluated on the samples of T and those are what is left
     in the cache.  Needs only that the comparison of temperatures in the code is equality (Tm_eqb_spec). *)
  Theorem C09_samples_keyed_by_exact_temperature m (s : tstate Tm G Y Smp Val) T mu p :
    wf Tm G Y Smp Val sample m s ->
    snd (prec_sample Tm_eqb gOff sample best s T mu p) = (let (dg, y) := best (sample p T) mu in (dg, mkcs p T gOff y)) /\
    aget p (pts (fst (prec_sample Tm_eqb gOff sample best s T mu p))) = Some (T, sample p T).
  Proof.
    exact (fun W => conj (prec_sample_value Tm G Y Res Smp Val Tm_eqb Tm_eqb_spec gOff sample best m s T mu p W)
                         (prec_sample_cache Tm G Y Res Smp Val Tm_eqb Tm_eqb_spec gOff sample best m s T mu p W)).
  Qed.

  Notation run := (run Tm_eqb cdT cdG cond_x cond_mu g0 gOff solve naive is_nan sample best global_eq dval tval gval xval aval same_comp cval).
  Notation run1 := (run1 Tm_eqb cdT cdG cond_x cond_mu g0 gOff solve naive is_nan sample best global_eq dval tval gval xval aval same_comp cval).
  Notation history_ok := (history_ok X Tm G Y Res Smp Val Tm_eqb Cd cdT cdG cond_x cond_mu g0 gOff solve naive is_nan sample best global_eq dval tval gval xval aval same_comp cval).
  Notation in_domain := (in_domain X Tm G Y Res gOff is_nan global_eq).

  (* THE statement of part C.  Two objects start fresh with method m0 and go through ARBITRARY histories
     h, h' of queries (driving force - tangent, sampling or approximate method -, interdiffusivity, tracer
     diffusivity, curvature factors, for any phases, removeCache on or off, clearCache, changes of method; any orders,
     repetitions, temperature jumps).  If they end up configured with the same method, every query gets
     the same answer from both.  (`history_ok` / `in_domain` only restrict driving-force queries by the
     approximate method to points of the two-phase region.) *)
  Theorem C09_history_independent m0 (h h' : list (query X Tm)) (q : query X Tm) :
    history_ok (obj_init m0) h -> history_ok (obj_init m0) h' ->
    let o := fst (run (obj_init m0) h) in
    let o' := fst (run (obj_init m0) h') in
    fst o = fst o' -> in_domain (fst o) q ->
    snd (run1 o q) = snd (run1 o' q).
  Proof.
    exact (history_independent X Tm G Y Res Smp Val Tm_eqb Tm_eqb_spec Cd cdT cdG cond_x cond_mu g0 gOff solve naive
             is_nan sample best global_eq dval tval gval xval aval same_comp cval
             start_independent solver_keeps_phases global_is_local m0 h h' q).
  Qed.

  (* repeating a call gives the same answer *)
  Theorem C09_repeat_same (o : obj Tm G Y Smp Val) (q : query X Tm) :
    wfo Tm G Y Smp Val sample o -> in_domain (fst o) q -> (forall m', q <> QMethod m') ->
    snd (run1 (fst (run1 o q)) q) = snd (run1 o q).
  Proof.
    exact (repeat_same X Tm G Y Res Smp Val Tm_eqb Tm_eqb_spec Cd cdT cdG cond_x cond_mu g0 gOff solve naive
             is_nan sample best global_eq dval tval gval xval aval same_comp cval
             start_independent solver_keeps_phases global_is_local o q).
  Qed.

  (* the caches stay well formed along every history (so C09_repeat_same applies at every point of it) *)
  Theorem C09_history_wf m0 (h : list (query X Tm)) :
    history_ok (obj_init m0) h -> wfo Tm G Y Smp Val sample (fst (run (obj_init m0) h)).
  Proof.
    exact (fun H => run_wf X Tm G Y Res Smp Val Tm_eqb Tm_eqb_spec Cd cdT cdG cond_x cond_mu g0 gOff solve naive
             is_nan sample best global_eq dval tval gval xval aval same_comp cval
             solver_keeps_phases global_is_local h (obj_init m0) (wf_init Tm G Y Smp Val sample m0) H).
  Qed.
End C.
Print Assumptions C09_solver_input_refreshed.
Print Assumptions C09_reset_df_exact.
Print Assumptions C09_diffusivity_cache_per_phase.
Print Assumptions C09_curvature_remove_cache.
Print Assumptions C09_curvature_fallback.
Print Assumptions C09_tangent_never_caches_collapsed.
Print Assumptions C09_samples_keyed_by_exact_temperature.
Print Assumptions C09_history_independent.
Print Assumptions C09_repeat_same.
Print Assumptions C09_history_wf.
