(* C09 - correspondence drivers (harness side, no theorem depends on this file).
   The models of Model.v are executed here on what the implementation was given, and compared with what
   the implementation did; only verdicts are printed.

   A. composition cache.  Floats arrive as hexadecimal float literals.  Two key functions are evaluated:
      keyQ  - the model's key on the exact rational value of the inputs (what the theorems are about);
      keyF  - the same key computed as numpy does, with the binary64 product (bit exact, primitive floats).
      The implementation's key tuple must equal keyF always; keyF must equal keyQ unless a coordinate is
      flagged (its exact scaled value lies within 2^-48 relative of a whole number, or is too large for
      binary64 to resolve units).  The cache LOGIC is then run with the model's own step / retrieve on
      canonical representatives  n / 10^s  of the float keys (key s (n / 10^s) = n), so that every history
      is compared exactly, near ties included. *)
From Coq Require Import ZArith QArith List Bool Floats.
Require Import Kawin.C09.Model.
Import ListNotations.

Definition f2q (f : float) : Q :=
  match Prim2SF f with
  | S754_finite s m e =>
      let z := if s then Zneg m else Zpos m in
      if (0 <=? e)%Z then inject_Z (z * 2 ^ e) else Qred (z # (2 ^ Z.to_pos (- e)))
  | _ => 0
  end.

(* np.trunc of a finite binary64, as an integer *)
Definition truncF (f : float) : Z :=
  match Prim2SF f with
  | S754_finite s m e =>
      let a := if (0 <=? e)%Z then (Zpos m * 2 ^ e)%Z else (Zpos m / 2 ^ (- e))%Z in
      if s then (- a)%Z else a
  | _ => 0%Z
  end.

Definition finiteF (f : float) : bool :=
  match Prim2SF f with S754_finite _ _ _ | S754_zero _ => true | _ => false end.

(* the key as numpy computes it: trunc(coordinate * hash_sensitivity) with the binary64 product *)
Definition keyF (hs : float) (x : list float) (T : float) : list Z :=
  map (fun v => truncF (PrimFloat.mul v hs)) (x ++ [T]).
Definition keyQ (s : Z) (x : list float) (T : float) : list Z := key s (map f2q x) (f2q T).

Definition qabs (q : Q) : Q := if Qle_bool 0 q then q else Qopp q.

(* is the exact scaled value too close to a whole number (or too large) for the binary64 product to be
   guaranteed to truncate to the same integer? *)
Definition flagged1 (s : Z) (v : float) : bool :=
  let q := Qred (f2q v * pow10 s) in
  let n := truncQ q in
  let lo := qabs (Qred (q - inject_Z n)) in
  let hi := qabs (Qred (inject_Z n + (if Qle_bool 0 q then 1 else -1) - q)) in
  let tol := Qred (qabs q * (1 # 2 ^ 48)) in
  negb (Qeq_bool q (inject_Z n) && (Z.abs n <? 2 ^ 53)%Z && (0 <=? s)%Z && (s <=? 22)%Z) &&
  (Qle_bool lo tol || Qle_bool hi tol || (2 ^ 52 <=? Z.abs n)%Z).
Definition flagged (s : Z) (x : list float) (T : float) : bool := existsb (flagged1 s) (x ++ [T]).

(* is the implementation's scale the float nearest to 10^s? (exactly for 0 <= s <= 22, within a relative
   2^-50 otherwise: Python's pow) *)
Definition scale_ok (s : Z) (hs : float) : bool :=
  let q := f2q hs in
  let p := pow10 s in
  if ((0 <=? s) && (s <=? 22))%Z then Qeq_bool q p
  else Qle_bool (qabs (Qred (q - p))) (Qred (p * (1 # 2 ^ 50))).

(* canonical representative of a float key at precision s: key s (canon ...) = the float key *)
Definition canon (s : Z) (k : list Z) : list Q := map (fun n => Qred (inject_Z n / pow10 s)) k.
Definition split_last (l : list Q) : list Q * Q := (removelast l, last l 0).

(* operations as the harness ships them; CGet carries what the implementation returned:
   the value (None = miss) and len(cachedData) *)
Inductive cop :=
| CEnable (b : bool)
| CClear
| CSens (s : Z) (hs : float)
| CAdd (x : list float) (T : float) (v : Z) (ikey : list Z)
| CGet (x : list float) (T : float) (ires : option Z) (ilen : nat) (ikey : list Z).

Definition zlist_eqb := keyeqb.
Definition optz_eqb (a b : option Z) : bool :=
  match a, b with
  | None, None => true
  | Some u, Some v => (u =? v)%Z
  | _, _ => false
  end.

(* verdict of one history:
   (index of the first operation whose key tuple differs from keyF, if any,
    index of the first unflagged operation with keyF <> keyQ, if any,
    index of the first CGet whose result / table size differs from the model, if any, with the model's answer,
    number of flagged operations, did a scale differ from 10^s) *)
Record averdict := mkAV { av_keyF : option nat; av_keyQ : option nat;
                          av_logic : option (nat * option Z * nat); av_flagged : nat; av_scale : option nat }.

Definition first_some {A} (a b : option A) : option A := match a with Some _ => a | None => b end.

Fixpoint drive (i : nat) (c : cache Z) (hs : float) (ops : list cop) (acc : averdict) : averdict :=
  match ops with
  | [] => acc
  | o :: r =>
      match o with
      | CEnable b => drive (S i) (step c (Enable b)) hs r acc
      | CClear => drive (S i) (step c Clear) hs r acc
      | CSens s h =>
          let acc' := if scale_ok s h then acc
                      else mkAV (av_keyF acc) (av_keyQ acc) (av_logic acc) (av_flagged acc) (first_some (av_scale acc) (Some i)) in
          drive (S i) (step c (SetSens s)) h r acc'
      | CAdd x T v ik =>
          let s := c_sens c in
          let kf := keyF hs x T in
          let fl := flagged s x T in
          let acc1 := if zlist_eqb ik kf then acc
                      else mkAV (first_some (av_keyF acc) (Some i)) (av_keyQ acc) (av_logic acc) (av_flagged acc) (av_scale acc) in
          let acc2 := if fl then mkAV (av_keyF acc1) (av_keyQ acc1) (av_logic acc1) (S (av_flagged acc1)) (av_scale acc1)
                      else if zlist_eqb kf (keyQ s x T) then acc1
                      else mkAV (av_keyF acc1) (first_some (av_keyQ acc1) (Some i)) (av_logic acc1) (av_flagged acc1) (av_scale acc1) in
          let (xc, Tc) := split_last (canon s kf) in
          drive (S i) (step c (Add xc Tc v)) hs r acc2
      | CGet x T ires ilen ik =>
          let s := c_sens c in
          let kf := keyF hs x T in
          let fl := flagged s x T in
          let acc1 := if zlist_eqb ik kf then acc
                      else mkAV (first_some (av_keyF acc) (Some i)) (av_keyQ acc) (av_logic acc) (av_flagged acc) (av_scale acc) in
          let acc2 := if fl then mkAV (av_keyF acc1) (av_keyQ acc1) (av_logic acc1) (S (av_flagged acc1)) (av_scale acc1)
                      else if zlist_eqb kf (keyQ s x T) then acc1
                      else mkAV (av_keyF acc1) (first_some (av_keyQ acc1) (Some i)) (av_logic acc1) (av_flagged acc1) (av_scale acc1) in
          let (xc, Tc) := split_last (canon s kf) in
          let mres := retrieve c xc Tc in
          let mlen := length (c_store c) in
          let acc3 := if optz_eqb mres ires && Nat.eqb mlen ilen then acc2
                      else mkAV (av_keyF acc2) (av_keyQ acc2) (first_some (av_logic acc2) (Some (i, mres, mlen))) (av_flagged acc2) (av_scale acc2) in
          drive (S i) c hs r acc3
      end
  end.

Definition check_cache (ops : list cop) :=
  let v := drive 0 cache_init 0x1.388p+13%float ops (mkAV None None None 0 None) in
  (av_keyF v, av_keyQ v, av_logic v, av_flagged v, av_scale v).

(* the canonical representative has the float key as its model key (checked by the harness on samples) *)
Definition canon_ok (s : Z) (k : list Z) : bool :=
  let (xc, Tc) := split_last (canon s k) in zlist_eqb (key s xc Tc) k.

(* the legacy model on the same history (used on the unrepaired tree to confirm that a disagreement is
   the known legacy behaviour): result of every CGet *)
Fixpoint drive_legacy (c : cache Z) (ops : list cop) : list (option Z) :=
  match ops with
  | [] => []
  | CEnable b :: r => drive_legacy (step_legacy c (Enable b)) r
  | CClear :: r => drive_legacy (step_legacy c Clear) r
  | CSens s _ :: r => drive_legacy (step_legacy c (SetSens s)) r
  | CAdd x T v _ :: r => drive_legacy (step_legacy c (Add (map f2q x) (f2q T) v)) r
  | CGet x T _ _ _ :: r => retrieve_legacy c (map f2q x) (f2q T) :: drive_legacy c r
  end.

(* ------------------------------------------------------------------------------------------ *)
(* B. array wrappers: the (x_i, T_i) pairs the single-point backend is called with *)

Definition optpair_eqb (a b : option (list (list Z) * list Z)) : bool :=
  match a, b with
  | None, None => true
  | Some (x, t), Some (y, u) =>
      Nat.eqb (length x) (length y) && forallb (fun p => keyeqb (fst p) (snd p)) (combine x y) && keyeqb t u
  | _, _ => false
  end.

(* implementation's processed arrays (None = ValueError) against the model *)
Definition check_xT (isBinary : bool) (x : arr2 Z) (T : arr1 Z) (impl : option (list (list Z) * list Z)) : bool :=
  optpair_eqb (process_xT isBinary x T) impl.

Definition check_TG (T g : arr1 Z) (impl : option (list Z * list Z)) : bool :=
  match process_TG T g, impl with
  | None, None => true
  | Some (a, b), Some (c, d) => keyeqb a c && keyeqb b d
  | _, _ => false
  end.

(* the calls made by the public query: list of (x_i, T_i) *)
Definition calls_xT (isBinary : bool) (x : arr2 Z) (T : arr1 Z) : option (list (list Z * Z)) :=
  query_xT isBinary (fun xi Ti => (xi, Ti)) x T.
Definition calls_eqb (a b : option (list (list Z * Z))) : bool :=
  match a, b with
  | None, None => true
  | Some l, Some m => Nat.eqb (length l) (length m) &&
                      forallb (fun p => keyeqb (fst (fst p)) (fst (snd p)) && (snd (fst p) =? snd (snd p))%Z) (combine l m)
  | _, _ => false
  end.
Definition check_calls_xT isBinary x T impl : bool := calls_eqb (calls_xT isBinary x T) impl.

(* BinaryThermodynamics.getInterfacialComposition: the calls (T, list of gExtra) of _interfacialComposition *)
Definition calls_IC (T g : arr1 Z) : option (list (Z * list Z)) :=
  interfacial_binary Z.eqb (fun t gs => [(t, gs)]) T g.
Definition check_calls_IC T g (impl : option (list (Z * list Z))) : bool :=
  match calls_IC T g, impl with
  | None, None => true
  | Some l, Some m => Nat.eqb (length l) (length m) &&
                      forallb (fun p => (fst (fst p) =? fst (snd p))%Z && keyeqb (snd (fst p)) (snd (snd p))) (combine l m)
  | _, _ => false
  end.

(* MulticomponentThermodynamics.getInterfacialComposition: calls (T_i, g_i) *)
Definition calls_ICm (T g : arr1 Z) : option (list (Z * Z)) := interfacial_multi (fun t g0 => (t, g0)) T g.
Definition check_calls_ICm T g (impl : option (list (Z * Z))) : bool :=
  match calls_ICm T g, impl with
  | None, None => true
  | Some l, Some m => Nat.eqb (length l) (length m) &&
                      forallb (fun p => (fst (fst p) =? fst (snd p))%Z && (snd (fst p) =? snd (snd p))%Z) (combine l m)
  | _, _ => false
  end.

(* ------------------------------------------------------------------------------------------ *)
(* C. cached composition sets: the model's state machine on a SCRIPTED pycalphad that logs what it is
   given.  Everything is a tree of integers; the harness replaces pycalphad's Solver / calculate /
   CompositionSet / Workspace and the property evaluators by fakes that build the same trees, runs the
   real GeneralThermodynamics on them and compares answers and cache contents after every query. *)
Inductive tree := N (tag : Z) (kids : list tree).
Definition L (z : Z) : tree := N z [].
Inductive scd := CdX (x T g : Z) | CdMu (res : tree) (T : Z).
Definition s_cdT (cd : scd) : Z := match cd with CdX _ T _ => T | CdMu _ T => T end.
Definition s_cdG (cd : scd) : Z := match cd with CdX _ _ g => g | CdMu _ _ => 0%Z end.
Definition enc_cd (cd : scd) : tree :=
  match cd with CdX x T g => N 10 [L x; L T; L g] | CdMu r T => N 11 [r; L T] end.
Definition scs := cset Z Z tree.
Definition enc_cs (c : scs) : tree := N 20 [L (Z.of_nat (cs_ph c)); L (cs_T c); L (cs_g c); cs_y c].
Definition flag (b : bool) : tree := L (if b then 1 else 0)%Z.
(* scripted failures of the equilibrium *)
Definition nan_cd (cd : scd) : bool :=
  match cd with CdX x _ _ => (x mod 7 =? 3)%Z | CdMu _ T => (T mod 5 =? 4)%Z end.
(* scripted loss of the precipitate: like pycalphad's solver, the scripted one removes a composition set
   whose phase is not stable from the list it was given *)
Definition drop_cd (cd : scd) : bool :=
  match cd with CdX x _ _ => (x mod 5 =? 1)%Z | CdMu _ _ => false end.
Definition s_solve (cd : scd) (l : list scs) : tree * list scs :=
  let kept := if drop_cd cd && Nat.leb 2 (length l) then filter (fun c => Nat.eqb (cs_ph c) 0) l else l in
  (N 1 [enc_cd cd; N 0 (map enc_cs l); flag (nan_cd cd)],
   map (fun c => mkcs (cs_ph c) (cs_T c) (cs_g c) (N 2 [enc_cd cd; L (Z.of_nat (cs_ph c))])) kept).
Definition s_naive (p : Ph) (T g : Z) : tree := N 3 [L (Z.of_nat p); L T; L g].
Definition s_is_nan (r : tree) : bool :=
  match r with N _ kids => match last kids (L 0) with N 1%Z [] => true | _ => false end end.
Definition s_sample (p : Ph) (T : Z) : tree := N 5 [L (Z.of_nat p); L T].
Definition s_best (smp mu : tree) : tree * tree := (N 6 [smp; mu], N 7 [smp]).
Definition s_global (x T g : Z) (p : Ph) : tree * list scs :=
  let mu := N 4 [L x; L T; L g; L (Z.of_nat p); flag (x mod 7 =? 5)%Z] in
  let cs ph idx := mkcs ph T g (N 8 [L x; L T; L g; L (Z.of_nat p); L idx]) in
  (mu, match (x mod 4)%Z with
       | 0%Z => [cs 0%nat 0%Z; cs p 1%Z]
       | 1%Z => [cs 0%nat 0%Z]
       | 2%Z => [cs 0%nat 0%Z; cs 0%nat 1%Z; cs p 2%Z]
       | _ => [cs p 0%Z]
       end).
Definition s_dval (res : tree) (cs : list scs) : tree := N 30 [res; N 0 (map enc_cs (firstn 1 cs))].
Definition s_tval (res : tree) (cs : list scs) : tree := N 31 [N 0 (map enc_cs (firstn 1 cs))].
Definition s_gval (res : tree) : tree := N 32 [res].
Definition s_xval (c : scs) : tree := N 33 [enc_cs c].
Definition s_aval (c : scs) (r mu : tree) : tree := N 34 [enc_cs c; r; mu].
Definition s_same (c : scs) (l : list scs) : bool :=
  match cs_y c with N 2%Z [N 11%Z [_; N T []]; _] => (T mod 5 =? 3)%Z | _ => false end.

Definition s_cval (mu : tree) (cm cp : scs) : tree := N 35 [mu; enc_cs cm; enc_cs cp].

Definition s_run1 := run1 (X := Z) Z.eqb s_cdT s_cdG CdX CdMu 0%Z 1%Z s_solve s_naive s_is_nan s_sample s_best
                          s_global s_dval s_tval s_gval s_xval s_aval s_same s_cval.

Definition enc_assoc (l : list (Ph * list scs)) : list tree :=
  map (fun e => N (Z.of_nat (fst e)) (map enc_cs (snd e))) l.
Definition enc_state (s : tstate Z Z tree tree tree) : tree :=
  N 40 [N 41 (enc_assoc (df_cs s));
        N 42 (match mat_cs s with Some l => [N 0 (map enc_cs l)] | None => [] end);
        N 43 (map (fun e => N (Z.of_nat (fst e)) [L (fst (snd e)); snd (snd e)]) (pts s));
        N 44 (enc_assoc (diff_cs s));
        N 45 (enc_assoc (curv_cs s));
        N 46 (map (fun e => N (Z.of_nat (fst e)) [snd e]) (curv_out s))].
Definition enc_answer (a : answer tree) : tree :=
  match a with
  | ADF None => N 50 []
  | ADF (Some (u, v)) => N 51 [u; v]
  | AVal v => N 52 [v]
  | ACurv None => N 54 []
  | ACurv (Some v) => N 55 [v]
  | ANone => N 53 []
  end.

Fixpoint s_trace (o : obj Z Z tree tree tree) (qs : list (query Z Z)) : list (tree * tree) :=
  match qs with
  | [] => []
  | q :: r => let (o1, a) := s_run1 o q in (enc_answer a, enc_state (snd o1)) :: s_trace o1 r
  end.

(* ------------------------------------------------------------------------------------------ *)
(* A'. the diffusivity loop of SinglePhaseModel._getFluxes: [cached_nodes] itself is executed with the
   back end  f x T = (x, T)  (the value names the point it was computed at) and compared with the point
   each node's diffusivity was traced back to in the implementation *)
Definition pt := (list Q * Q)%type.
Inductive nev :=
| NSens (s : Z)
| NUse (b : bool)
| NClear
| NFlux (nodes : list (list float * float)) (got : list (list float * float)) (ilen : nat).

Definition pt_eqb (a b : pt) : bool :=
  Nat.eqb (length (fst a)) (length (fst b)) &&
  forallb (fun p => Qeq_bool (fst p) (snd p)) (combine (fst a) (fst b)) && Qeq_bool (snd a) (snd b).
Definition fpt (p : list float * float) : pt := (map f2q (fst p), f2q (snd p)).

(* result: (index of the first flux evaluation that differs with the index of the node, number of flux
   evaluations skipped because a node lies on a cell boundary) *)
Fixpoint drive_nodes (i : nat) (c : cache pt) (evs : list nev) (bad : option (nat * nat)) (skipped : nat)
  : option (nat * nat) * nat :=
  match evs with
  | [] => (bad, skipped)
  | NSens s :: r => drive_nodes (S i) (step c (SetSens s)) r bad skipped
  | NUse b :: r => drive_nodes (S i) (step c (Enable b)) r bad skipped
  | NClear :: r => drive_nodes (S i) (step c Clear) r bad skipped
  | NFlux nodes got ilen :: r =>
      let (c', vs) := cached_nodes (fun x T => (x, T)) c (map fpt nodes) in
      if existsb (fun p => flagged (c_sens c) (fst p) (snd p)) nodes then
        (* undecidable between exact and binary64 keys: stop comparing this run *)
        (bad, S skipped)
      else
        let cmp := combine vs (map fpt got) in
        let fix first (k : nat) (l : list (pt * pt)) : option nat :=
          match l with [] => None | (a, b) :: l' => if pt_eqb a b then first (S k) l' else Some k end in
        let bad' := match bad with
                    | Some _ => bad
                    | None => if negb (Nat.eqb (length vs) (length got)) || negb (Nat.eqb (length (c_store c')) ilen)
                              then Some (i, length vs)
                              else match first 0%nat cmp with Some k => Some (i, k) | None => None end
                    end in
        drive_nodes (S i) c' r bad' skipped
  end.
Definition check_nodes (evs : list nev) := drive_nodes 0 cache_init evs None 0.
