(* C09 - lemmas about the models of Model.v *)
From Coq Require Import ZArith QArith Qabs List Bool Lia Psatz.
Require Import Kawin.C09.Model.
Import ListNotations.

(* ========================================================================================== *)
(* A. composition cache                                                                       *)

Lemma keyeqb_eq a b : keyeqb a b = true <-> a = b.
Proof.
  revert b; induction a as [|u a IH]; destruct b as [|v b]; simpl; split; intros H; try discriminate; auto.
  - apply andb_true_iff in H. destruct H as [H1 H2]. apply Z.eqb_eq in H1. apply IH in H2. congruence.
  - inversion H; subst. apply andb_true_iff. split; [apply Z.eqb_refl | apply IH; reflexivity].
Qed.

Lemma keyeqb_refl a : keyeqb a a = true.
Proof. apply keyeqb_eq; reflexivity. Qed.

Lemma keyeqb_neq a b : keyeqb a b = false <-> a <> b.
Proof.
  split; intros H.
  - intros E. apply keyeqb_eq in E. congruence.
  - destruct (keyeqb a b) eqn:E; auto. apply keyeqb_eq in E. contradiction.
Qed.

(* ---- the key: what "rounds to the same key at the configured precision" means ---- *)

Lemma pow10_pos s : 0 < pow10 s.
Proof.
  unfold pow10. destruct (0 <=? s)%Z eqn:E.
  - apply Z.leb_le in E. change 0 with (inject_Z 0). rewrite <- Zlt_Qlt. apply Z.pow_pos_nonneg; lia.
  - apply Z.leb_gt in E. apply Qinv_lt_0_compat. change 0 with (inject_Z 0). rewrite <- Zlt_Qlt.
    apply Z.pow_pos_nonneg; lia.
Qed.

(* truncation is floor on non-negative rationals *)
Lemma truncQ_cell q n : 0 <= q -> (truncQ q = n <-> inject_Z n <= q /\ q < inject_Z (n + 1)).
Proof.
  intros Hq. destruct q as [a d]. unfold truncQ, Qle, Qlt in *. simpl in *.
  assert (Ha : (0 <= a)%Z) by lia.
  rewrite Z.quot_div_nonneg by lia.
  pose proof (Z.div_mod a (Z.pos d) ltac:(lia)) as Hdm.
  pose proof (Z.mod_pos_bound a (Z.pos d) ltac:(lia)) as Hb.
  split.
  - intros <-. nia.
  - intros [H1 H2]. symmetry. apply Z.div_unique with (r := (a - Z.pos d * n)%Z); nia.
Qed.

Lemma truncQ_nonneg q : 0 <= q -> (0 <= truncQ q)%Z.
Proof.
  intros Hq. destruct q as [a d]. unfold truncQ, Qle in *. simpl in *.
  apply Z.quot_pos; lia.
Qed.

Lemma truncQ_compat q r : q == r -> truncQ q = truncQ r.
Proof.
  destruct q as [a d], r as [b e]. unfold Qeq, truncQ. simpl. intros H.
  (* a/d = b/e as rationals: both quotients equal (a*e) quot (d*e) *)
  rewrite <- (Z.quot_mul_cancel_r a (Z.pos d) (Z.pos e)) by lia.
  rewrite <- (Z.quot_mul_cancel_r b (Z.pos e) (Z.pos d)) by lia.
  rewrite H. f_equal. lia.
Qed.

Lemma scaled_compat s v w : v == w -> scaled s v = scaled s w.
Proof. intros H. unfold scaled. apply truncQ_compat. rewrite H. reflexivity. Qed.

(* the cell of a non-negative coordinate: n <= v * 10^s < n + 1 *)
Lemma scaled_cell s v n : 0 <= v ->
  (scaled s v = n <-> inject_Z n <= v * pow10 s /\ v * pow10 s < inject_Z (n + 1)).
Proof.
  intros Hv. unfold scaled. apply truncQ_cell.
  apply Qmult_le_0_compat; [exact Hv | apply Qlt_le_weak, pow10_pos].
Qed.

(* two non-negative coordinates with the same scaled value differ by less than one unit of the
   last kept digit *)
Lemma scaled_close s v w : 0 <= v -> 0 <= w -> scaled s v = scaled s w -> Qabs (v - w) * pow10 s < 1.
Proof.
  intros Hv Hw E.
  destruct (proj1 (scaled_cell s v (scaled s v) Hv) eq_refl) as [A1 A2].
  destruct (proj1 (scaled_cell s w (scaled s w) Hw) eq_refl) as [B1 B2].
  rewrite <- E in B1, B2. clear E.
  set (n := scaled s v) in *. set (P := pow10 s) in *.
  assert (HP : 0 < P) by apply pow10_pos.
  assert (Hn : inject_Z (n + 1) == inject_Z n + 1) by (rewrite inject_Z_plus; reflexivity).
  rewrite Hn in A2, B2.
  assert (E : Qabs (v - w) * P == Qabs (v * P - w * P)).
  { setoid_replace (v * P - w * P) with ((v - w) * P) by ring.
    rewrite Qabs_Qmult. rewrite (Qabs_pos P) by (apply Qlt_le_weak; exact HP). reflexivity. }
  rewrite E. apply Qabs_Qlt_condition. split.
  - apply Qlt_minus_iff. setoid_replace (v * P - w * P + - - (1)) with ((v * P) + (1 - w * P)) by ring.
    apply Qlt_minus_iff in B2.
    setoid_replace (inject_Z n + 1 + - (w * P)) with ((1 - w * P) + inject_Z n) in B2 by ring.
    apply Qle_minus_iff in A1.
    eapply Qlt_le_trans; [exact B2|].
    setoid_replace (v * P + (1 - w * P)) with ((1 - w * P) + v * P) by ring.
    apply Qplus_le_r. apply Qle_minus_iff. exact A1.
  - apply Qlt_minus_iff. setoid_replace (1 + - (v * P - w * P)) with ((1 - v * P) + w * P) by ring.
    apply Qlt_minus_iff in A2.
    setoid_replace (inject_Z n + 1 + - (v * P)) with ((1 - v * P) + inject_Z n) in A2 by ring.
    eapply Qlt_le_trans; [exact A2|].
    apply Qplus_le_r. exact B1.
Qed.

Lemma key_length s x T : length (key s x T) = S (length x).
Proof. unfold key. rewrite map_length, app_length. simpl. lia. Qed.

Lemma map_eq_Forall2 {A B} (g : A -> B) l l' :
  map g l = map g l' <-> Forall2 (fun a b => g a = g b) l l'.
Proof.
  revert l'; induction l as [|a l IH]; destruct l' as [|b l']; simpl; split; intros H;
    try discriminate; try (inversion H; fail); auto.
  - inversion H. constructor; [assumption | apply IH; assumption].
  - inversion H; subst. f_equal; [assumption | apply IH; assumption].
Qed.

(* equal keys <=> the same number of components and every coordinate (composition entries and the
   temperature) has the same truncated scaled value *)
Lemma key_eq_iff s x T x' T' :
  key s x T = key s x' T' <-> Forall2 (fun a b => scaled s a = scaled s b) (x ++ [T]) (x' ++ [T']).
Proof. unfold key. apply map_eq_Forall2. Qed.

Lemma Forall2_app_last {A} (P : A -> A -> Prop) l l' a b :
  Forall2 P (l ++ [a]) (l' ++ [b]) -> Forall2 P l l' /\ P a b.
Proof.
  revert l'; induction l as [|u l IH]; intros l' H.
  - destruct l' as [|v l']; simpl in H.
    + inversion H; subst. split; [constructor | assumption].
    + inversion H; subst. destruct l'; inversion H5.
  - destruct l' as [|v l']; simpl in H.
    + inversion H; subst. destruct l; inversion H5.
    + inversion H; subst. apply IH in H5. destruct H5. split; [constructor|]; assumption.
Qed.

Lemma key_eq_parts s x T x' T' : key s x T = key s x' T' ->
  Forall2 (fun a b => scaled s a = scaled s b) x x' /\ scaled s T = scaled s T'.
Proof. intros H. apply key_eq_iff in H. apply Forall2_app_last in H. exact H. Qed.

(* equal keys: every coordinate of the two points (non-negative: mole fractions, kelvins) agrees to
   within one unit of the last digit kept *)
Lemma same_key_close s x T x' T' :
  Forall (fun a => 0 <= a) (x ++ [T]) -> Forall (fun a => 0 <= a) (x' ++ [T']) ->
  key s x T = key s x' T' ->
  Forall2 (fun a b => Qabs (a - b) * pow10 s < 1) (x ++ [T]) (x' ++ [T']).
Proof.
  intros H H' E. apply key_eq_iff in E.
  revert H H'. induction E as [|a b l l' Hab E IH]; intros H H'; [constructor|].
  inversion H; subst. inversion H'; subst. constructor.
  - apply scaled_close; assumption.
  - apply IH; assumption.
Qed.

(* ---- the store ---- *)
Section CacheProofs.
  Variable V : Type.
  Notation cache := (cache V).
  Notation op := (op V).

  Lemma lookup_In k (st : list (list Z * V)) v : lookup k st = Some v -> In (k, v) st.
  Proof.
    induction st as [|[k' v'] r IH]; simpl; [discriminate|].
    destruct (keyeqb k' k) eqn:E.
    - intros H; inversion H; subst. apply keyeqb_eq in E. subst. left; reflexivity.
    - intros H. right. apply IH; exact H.
  Qed.

  Lemma lookup_filter_neq k k' (st : list (list Z * V)) : k' <> k ->
    lookup k (filter (fun p => negb (keyeqb (fst p) k')) st) = lookup k st.
  Proof.
    intros Hne. induction st as [|[k1 v1] r IH]; simpl; [reflexivity|].
    destruct (keyeqb k1 k') eqn:E1; simpl.
    - apply keyeqb_eq in E1. subst k1. rewrite (proj2 (keyeqb_neq k' k) Hne). exact IH.
    - destruct (keyeqb k1 k); [reflexivity | exact IH].
  Qed.

  (* dict assignment then lookup *)
  Lemma lookup_insert k k' v (st : list (list Z * V)) :
    lookup k (insert k' v st) = if keyeqb k' k then Some v else lookup k st.
  Proof.
    unfold insert. simpl. destruct (keyeqb k' k) eqn:E; [reflexivity|].
    apply lookup_filter_neq. apply keyeqb_neq. exact E.
  Qed.

  Lemma In_insert k v k1 v1 (st : list (list Z * V)) :
    In (k1, v1) (insert k v st) -> (k1, v1) = (k, v) \/ In (k1, v1) st.
  Proof.
    unfold insert. simpl. intros [H|H]; [left; congruence|].
    apply filter_In in H. right. tauto.
  Qed.

  (* after an assignment the key has exactly one entry *)
  Lemma insert_unique k v (st : list (list Z * V)) :
    length (filter (fun p => keyeqb (fst p) k) (insert k v st)) = 1%nat.
  Proof.
    unfold insert. simpl. rewrite keyeqb_refl. simpl. f_equal.
    induction st as [|[k1 v1] r IH]; simpl; [reflexivity|].
    destruct (keyeqb k1 k) eqn:E; simpl; [exact IH|]. rewrite E. exact IH.
  Qed.

  (* ---- single steps ---- *)
  Lemma retrieve_off (c : cache) x T : c_on c = false -> retrieve c x T = None.
  Proof. unfold retrieve. intros ->. reflexivity. Qed.

  Lemma add_off (c : cache) x T v : c_on c = false -> step c (Add x T v) = c.
  Proof. simpl. intros ->. reflexivity. Qed.

  (* complete description of a lookup after an insertion: a hit on the new value exactly when the
     query rounds to the key of the inserted point, otherwise the previous answer *)
  Lemma retrieve_after_add (c : cache) x T v x' T' : c_on c = true ->
    retrieve (step c (Add x T v)) x' T' =
      if keyeqb (key (c_sens c) x T) (key (c_sens c) x' T') then Some v else retrieve c x' T'.
  Proof.
    intros Hon. unfold retrieve. simpl. rewrite Hon. simpl. apply lookup_insert.
  Qed.

  Lemma retrieve_after_clear (c : cache) x T : retrieve (step c Clear) x T = None.
  Proof. unfold retrieve. simpl. destruct (c_on c); reflexivity. Qed.

  Lemma retrieve_after_setsens (c : cache) s x T : retrieve (step c (SetSens s)) x T = None.
  Proof. unfold retrieve. simpl. destruct (c_on c); reflexivity. Qed.

  Lemma retrieve_after_disable (c : cache) x T : retrieve (step c (Enable false)) x T = None.
  Proof. reflexivity. Qed.

  (* ---- histories: every stored entry comes from an Add of the history, made at the precision
     that is configured now, under the key it is stored with ---- *)
  Definition justified (ops : list op) (c : cache) : Prop :=
    forall k v, In (k, v) (c_store c) ->
      exists x T, In (Add x T v) ops /\ key (c_sens c) x T = k.

  Lemma justified_step ops (c : cache) o : justified ops c -> justified (ops ++ [o]) (step c o).
  Proof.
    intros J. destruct o as [b| |s|x T v]; simpl.
    - intros k v H. destruct (J k v H) as (x & T & Hin & Hk). exists x, T. split; [apply in_or_app; left|]; assumption.
    - intros k v [].
    - intros k v [].
    - destruct (c_on c) eqn:Hon.
      + intros k w H. simpl in H. apply In_insert in H. destruct H as [H|H].
        * inversion H; subst. exists x, T. split; [apply in_or_app; right; left; reflexivity | reflexivity].
        * destruct (J k w H) as (x' & T' & Hin & Hk). exists x', T'. split; [apply in_or_app; left|]; assumption.
      + intros k w H. destruct (J k w H) as (x' & T' & Hin & Hk). exists x', T'.
        split; [apply in_or_app; left|]; assumption.
  Qed.

  Lemma justified_exec_gen ops0 ops (c : cache) : justified ops0 c -> justified (ops0 ++ ops) (exec ops c).
  Proof.
    revert ops0 c. induction ops as [|o ops IH]; intros ops0 c J; simpl.
    - rewrite app_nil_r. exact J.
    - replace (ops0 ++ o :: ops) with ((ops0 ++ [o]) ++ ops) by (rewrite <- app_assoc; reflexivity).
      apply IH. apply justified_step. exact J.
  Qed.

  Lemma justified_exec (ops : list op) : justified ops (exec ops (@cache_init V)).
  Proof. apply (justified_exec_gen [] ops cache_init). intros k v []. Qed.

  (* soundness of a hit, for every history of operations *)
  Lemma retrieve_sound (ops : list op) x T (v : V) :
    retrieve (exec ops cache_init) x T = Some v ->
    let c := exec ops (@cache_init V) in
    c_on c = true /\
    exists x' T', In (Add x' T' v) ops /\ key (c_sens c) x' T' = key (c_sens c) x T.
  Proof.
    intros H c. unfold retrieve in H. fold c in H.
    destruct (c_on c) eqn:Hon; [|discriminate]. split; [reflexivity|].
    apply lookup_In in H. exact (justified_exec ops _ _ H).
  Qed.

  Lemma exec_app ops1 ops2 (c : cache) : exec (ops1 ++ ops2) c = exec ops2 (exec ops1 c).
  Proof. unfold exec. apply fold_left_app. Qed.

  Lemma exec_store_reset (c : cache) o : (match o with Clear | SetSens _ => True | _ => False end) ->
    c_store (step c o) = [].
  Proof. destruct o; simpl; tauto. Qed.

  (* switching the cache off: whatever follows (other than switching it on again), nothing is
     retrieved and nothing is stored *)
  Definition no_enable_true (ops : list op) : Prop :=
    Forall (fun o => match o with Enable true => False | _ => True end) ops.

  Lemma off_stays_off ops (c : cache) : c_on c = false -> no_enable_true ops ->
    c_on (exec ops c) = false /\ (length (c_store (exec ops c)) <= length (c_store c))%nat.
  Proof.
    revert c. induction ops as [|o ops IH]; intros c Hoff Hne; simpl.
    - split; [exact Hoff | lia].
    - inversion Hne as [|o' r Ho Hr]; subst.
      assert (Hs : c_on (step c o) = false /\ (length (c_store (step c o)) <= length (c_store c))%nat).
      { destruct o as [[|]| |s|x T v]; simpl; try contradiction;
          try (split; [first [assumption | reflexivity] | simpl; lia]).
        rewrite Hoff. split; [assumption | lia]. }
      destruct Hs as [Hs1 Hs2]. destruct (IH (step c o) Hs1 Hr) as [A B]. split; [exact A | lia].
  Qed.

  Lemma disabled_history (ops1 ops2 : list op) x T : no_enable_true ops2 ->
    retrieve (exec (ops1 ++ Enable false :: ops2) (@cache_init V)) x T = None.
  Proof.
    intros Hne. rewrite exec_app. simpl.
    apply retrieve_off. apply off_stays_off; [reflexivity | exact Hne].
  Qed.

  (* ---- the use of the cache (SinglePhaseModel._getFluxes) ---- *)
  Variable f : list Q -> Q -> V.

  (* every stored value is the backend's value at a point that has the key it is stored under *)
  Definition faithful (c : cache) : Prop :=
    forall k v, In (k, v) (c_store c) -> exists x T, v = f x T /\ key (c_sens c) x T = k.

  Lemma faithful_init : faithful (@cache_init V).
  Proof. intros k v []. Qed.

  Lemma faithful_step (c : cache) o : faithful c ->
    (forall x T v, o = Add x T v -> v = f x T) -> faithful (step c o).
  Proof.
    intros F Ho. destruct o as [b| |s|x T v]; simpl.
    - exact F.
    - intros k v [].
    - intros k v [].
    - destruct (c_on c); [|exact F].
      intros k w H. simpl in H. apply In_insert in H. destruct H as [H|H].
      + inversion H; subst. exists x, T. split; [apply (Ho x T v eq_refl) | reflexivity].
      + exact (F k w H).
  Qed.

  Lemma cached_point_sound (c : cache) x T : faithful c ->
    let (c', v) := cached_point f c x T in
    faithful c' /\ c_sens c' = c_sens c /\ c_on c' = c_on c /\
    exists x' T', v = f x' T' /\ key (c_sens c) x' T' = key (c_sens c) x T.
  Proof.
    intros F. unfold cached_point. destruct (retrieve c x T) as [v|] eqn:E.
    - split; [exact F|]. split; [reflexivity|]. split; [reflexivity|].
      unfold retrieve in E. destruct (c_on c); [|discriminate]. apply lookup_In in E. exact (F _ _ E).
    - split; [apply faithful_step; [exact F | intros ? ? ? H; inversion H; reflexivity]|].
      split; [simpl; destruct (c_on c); reflexivity|].
      split; [simpl; destruct (c_on c) eqn:Hon; simpl; congruence|].
      exists x, T. split; reflexivity.
  Qed.

  Definition point_ok (s : Z) (p : list Q * Q) (v : V) : Prop :=
    exists x' T', v = f x' T' /\ key s x' T' = key s (fst p) (snd p).

  Lemma cached_nodes_sound pts : forall (c : cache), faithful c ->
    let (c', vs) := cached_nodes f c pts in
    faithful c' /\ c_sens c' = c_sens c /\ c_on c' = c_on c /\ Forall2 (point_ok (c_sens c)) pts vs.
  Proof.
    induction pts as [|[x T] r IH]; intros c F; simpl.
    - repeat split; auto.
    - pose proof (cached_point_sound c x T F) as H1.
      destruct (cached_point f c x T) as [c1 v]. destruct H1 as (F1 & S1 & O1 & Hv).
      specialize (IH c1 F1). destruct (cached_nodes f c1 r) as [c2 vs].
      destruct IH as (F2 & S2 & O2 & Hvs).
      split; [exact F2|]. split; [congruence|]. split; [congruence|].
      constructor; [exact Hv | rewrite <- S1; exact Hvs].
  Qed.

  (* with the cache switched off every node gets the backend's value at that very node, and the
     table is left as it was *)
  Lemma cached_nodes_off pts (c : cache) : c_on c = false ->
    cached_nodes f c pts = (c, map (fun p => f (fst p) (snd p)) pts).
  Proof.
    intros Hoff. induction pts as [|[x T] r IH]; simpl; [reflexivity|].
    unfold cached_point. rewrite (retrieve_off c x T Hoff). rewrite (add_off c x T _ Hoff).
    rewrite IH. reflexivity.
  Qed.

  (* a cache that is on does cache: the second of two nodes with the same key reuses the first value *)
  Lemma cached_nodes_reuses (c : cache) x T x' T' : c_on c = true -> retrieve c x T = None ->
    key (c_sens c) x T = key (c_sens c) x' T' ->
    snd (cached_nodes f c [(x, T); (x', T')]) = [f x T; f x T].
  Proof.
    intros Hon Hmiss Hk. simpl. unfold cached_point at 1. rewrite Hmiss.
    unfold cached_point. rewrite (retrieve_after_add c x T (f x T) x' T' Hon).
    rewrite Hk, keyeqb_refl. reflexivity.
  Qed.
End CacheProofs.

(* ---- the unrepaired key: int32 overflow makes all large coordinates collide ---- *)
Lemma int32cast_overflow z : (2 ^ 31 <= z)%Z -> int32cast z = (- 2 ^ 31)%Z.
Proof.
  intros H. unfold int32cast.
  destruct (z <? 2 ^ 31)%Z eqn:E; [apply Z.ltb_lt in E; lia|]. rewrite andb_false_r. reflexivity.
Qed.

Lemma key32_collision s x T T' :
  (2 ^ 31 <= scaled s T)%Z -> (2 ^ 31 <= scaled s T')%Z -> key32 s x T = key32 s x T'.
Proof.
  intros H H'. unfold key32, key. rewrite !map_app. f_equal. simpl.
  rewrite (int32cast_overflow _ H), (int32cast_overflow _ H'). reflexivity.
Qed.

(* ========================================================================================== *)
(* B. array wrappers                                                                          *)

Section WrapperProofs.
  Variables A B R : Type.
  Notation arr2 := (arr2 A).
  Notation arr1 := (arr1 B).

  Lemma repeat_length_ {C} (c : C) n : length (repeat c n) = n.
  Proof. apply repeat_length. Qed.

  (* the two arrays that come out always have the same length *)
  Lemma process_xT_length b (x : arr2) (T : arr1) xs Ts :
    process_xT b x T = Some (xs, Ts) -> length xs = length Ts.
  Proof.
    unfold process_xT.
    set (x2 := if b && negb (Nat.eqb (ncols (atleast_2d x)) 1) then transpose (atleast_2d x) else atleast_2d x).
    set (T1 := atleast_1d T).
    destruct (Nat.eqb (length x2) (length T1)) eqn:E.
    - intros H; inversion H; subst. apply Nat.eqb_eq; exact E.
    - destruct x2 as [|row [|row2 r]].
      + destruct T1 as [|t [|t2 r]]; intros H; inversion H; subst. simpl. reflexivity.
      + intros H; inversion H; subst. apply repeat_length.
      + destruct T1 as [|t [|t2 r']]; intros H; inversion H; subst. cbn. rewrite ?repeat_length. reflexivity.
  Qed.

  (* nothing is invented: either both arrays are passed through, or the single row / single
     temperature is repeated *)
  Lemma process_xT_cases b (x : arr2) (T : arr1) xs Ts :
    process_xT b x T = Some (xs, Ts) ->
    let x2 := if b && negb (Nat.eqb (ncols (atleast_2d x)) 1) then transpose (atleast_2d x) else atleast_2d x in
    let T1 := atleast_1d T in
    (xs = x2 /\ Ts = T1) \/
    (exists row, x2 = [row] /\ xs = repeat row (length T1) /\ Ts = T1) \/
    (exists t, T1 = [t] /\ xs = x2 /\ Ts = repeat t (length x2)).
  Proof.
    unfold process_xT.
    set (x2 := if b && negb (Nat.eqb (ncols (atleast_2d x)) 1) then transpose (atleast_2d x) else atleast_2d x).
    set (T1 := atleast_1d T). simpl.
    destruct (Nat.eqb (length x2) (length T1)) eqn:E.
    - intros H; inversion H; subst. left. split; reflexivity.
    - destruct x2 as [|row [|row2 r]].
      + destruct T1 as [|t [|t2 r]]; intros H; inversion H; subst.
        right; right. exists t. repeat split.
      + intros H; inversion H; subst. right; left. exists row. repeat split.
      + destruct T1 as [|t [|t2 r']]; intros H; inversion H; subst.
        right; right. exists t. repeat split.
  Qed.

  (* a 1-d array of N compositions of a binary system becomes N rows of one entry *)
  Lemma transpose_row (l : list A) : transpose [l] = map (fun a => [a]) l.
  Proof.
    unfold transpose. simpl.
    induction l as [|a l IH]; simpl; [reflexivity|]. f_equal. exact IH.
  Qed.

  Definition rows1 (xs : list (list A)) : Prop := Forall (fun r => length r = 1%nat) xs.

  (* processing twice is processing once (the wrappers are nested: the nucleation functions process
     their arguments and then call getDrivingForce, which processes them again) *)
  Lemma process_xT_idempotent b xs (Ts : list B) :
    length xs = length Ts -> (b = true -> rows1 xs) ->
    process_xT b (Mat2 xs) (Vec1 Ts) = Some (xs, Ts).
  Proof.
    intros HL Hb. unfold process_xT. simpl.
    assert (E : (if b && negb (Nat.eqb (ncols xs) 1) then transpose xs else xs) = xs).
    { destruct b; simpl; [|reflexivity]. specialize (Hb eq_refl).
      destruct xs as [|r0 r]; [reflexivity|]. inversion Hb; subst. simpl. rewrite H1. reflexivity. }
    rewrite E. rewrite (proj2 (Nat.eqb_eq _ _) HL). reflexivity.
  Qed.

  Lemma process_xT_output_idempotent b (x : arr2) (T : arr1) xs Ts :
    process_xT b x T = Some (xs, Ts) -> (b = true -> rows1 xs) ->
    process_xT b (Mat2 xs) (Vec1 Ts) = Some (xs, Ts).
  Proof. intros H Hb. apply process_xT_idempotent; [eapply process_xT_length; exact H | exact Hb]. Qed.

  (* one point on its own *)
  Lemma process_single b (r : list A) (t : B) : (b = true -> length r = 1%nat) ->
    process_xT b (Vec2 r) (Sc1 t) = Some ([r], [t]).
  Proof.
    intros Hb. unfold process_xT. simpl.
    destruct b; simpl; [|reflexivity]. rewrite (Hb eq_refl). reflexivity.
  Qed.

  Lemma process_single_scalar (a : A) (t : B) : process_xT true (Sc2 a) (Sc1 t) = Some ([[a]], [t]).
  Proof. reflexivity. Qed.

  Lemma query_single b (f : list A -> B -> R) r t : (b = true -> length r = 1%nat) ->
    query_xT b f (Vec2 r) (Sc1 t) = Some [f r t].
  Proof. intros Hb. unfold query_xT. rewrite (process_single b r t Hb). reflexivity. Qed.

  Lemma Forall2_map2 {C D E} (h : C -> D -> E) (P : C * D -> E -> Prop) l m :
    (forall c d, In (c, d) (combine l m) -> P (c, d) (h c d)) ->
    Forall2 P (combine l m) (map2 h l m).
  Proof.
    revert m; induction l as [|c l IH]; intros m H; destruct m as [|d m]; simpl; try constructor.
    - apply H. left; reflexivity.
    - apply IH. intros c' d' Hin. apply H. right; exact Hin.
  Qed.

  (* evaluated inside an array = evaluated alone: entry i of the batched result is what the query
     returns for point i on its own *)
  Lemma query_batch_pointwise b (f : list A -> B -> R) (x : arr2) (T : arr1) xs Ts :
    process_xT b x T = Some (xs, Ts) -> (b = true -> rows1 xs) ->
    exists rs, query_xT b f x T = Some rs /\ length rs = length xs /\
      Forall2 (fun p v => query_xT b f (Vec2 (fst p)) (Sc1 (snd p)) = Some [v]) (combine xs Ts) rs.
  Proof.
    intros H Hb. unfold query_xT at 1. rewrite H. exists (map2 f xs Ts). split; [reflexivity|].
    split.
    - pose proof (process_xT_length _ _ _ _ _ H) as HL. clear -HL.
      revert Ts HL; induction xs as [|r xs IH]; intros [|t Ts] HL; simpl in *; try lia.
      f_equal. apply IH. lia.
    - apply Forall2_map2 with (P := fun p v => query_xT b f (Vec2 (fst p)) (Sc1 (snd p)) = Some [v]).
      intros r t Hin. simpl. apply query_single. intros Hbt. specialize (Hb Hbt).
      apply in_combine_l in Hin. unfold rows1 in Hb. rewrite Forall_forall in Hb. apply Hb; exact Hin.
  Qed.

  (* the order of the points and the state carried from one point to the next do not matter when
     the value returned by the backend does not depend on that state *)
  Section Threaded.
    Variable S : Type.
    Variable f : S -> list A -> B -> S * R.
    Variable h : list A -> B -> R.
    Hypothesis value_independent : forall s x t, snd (f s x t) = h x t.

    Lemma thread_values s xs Ts : snd (thread f s xs Ts) = map2 h xs Ts.
    Proof.
      revert s Ts; induction xs as [|x xs IH]; intros s [|t Ts]; simpl; try reflexivity.
      pose proof (value_independent s x t) as Hv. destruct (f s x t) as [s1 r]. simpl in Hv.
      specialize (IH s1 Ts). destruct (thread f s1 xs Ts) as [s2 rs]. simpl in *. congruence.
    Qed.

    Lemma query_st_values b s x T :
      option_map snd (query_xT_st b f s x T) = query_xT b h x T.
    Proof.
      unfold query_xT_st, query_xT. destruct (process_xT b x T) as [[xs Ts]|]; simpl; [|reflexivity].
      rewrite thread_values. reflexivity.
    Qed.

    (* in particular the values do not depend on the state the object was in before the call *)
    Lemma query_st_history b s s' x T :
      option_map snd (query_xT_st b f s x T) = option_map snd (query_xT_st b f s' x T).
    Proof. rewrite !query_st_values. reflexivity. Qed.
  End Threaded.

  (* ---- T / gExtra wrappers ---- *)
  Lemma process_TG_length (T g : arr1) Ts gs : process_TG T g = Some (Ts, gs) -> length Ts = length gs.
  Proof.
    unfold process_TG. set (T1 := atleast_1d T). set (g1 := atleast_1d g).
    destruct (Nat.eqb (length T1) (length g1)) eqn:E.
    - intros H; inversion H; subst. apply Nat.eqb_eq; exact E.
    - destruct T1 as [|t [|t2 r]].
      + destruct g1 as [|g0 [|g2 r]]; intros H; inversion H; subst. reflexivity.
      + intros H; inversion H; subst. apply repeat_length.
      + destruct g1 as [|g0 [|g2 r']]; intros H; inversion H; subst. cbn. rewrite ?repeat_length. reflexivity.
  Qed.

  Variable B_eqb : B -> B -> bool.

  (* the batched interfacial-composition call (one temperature, an array of Gibbs-Thomson energies)
     equals the per-point calls, PROVIDED the backend evaluates an array of energies point by point *)
  Lemma interfacial_binary_pointwise (fb : B -> list B -> list R) (T g : arr1) Ts gs :
    (forall t l, fb t l = concat (map (fun g0 => fb t [g0]) l)) ->
    (forall a c, B_eqb a c = true -> a = c) ->
    process_TG T g = Some (Ts, gs) -> Ts <> [] ->
    interfacial_binary B_eqb fb T g = Some (concat (map2 (fun t0 g0 => fb t0 [g0]) Ts gs)).
  Proof.
    intros Hfb Heq H Hne. unfold interfacial_binary. rewrite H.
    destruct Ts as [|t Ts]; [contradiction|].
    destruct (forallb (B_eqb t) Ts) eqn:E; [|reflexivity].
    f_equal. rewrite Hfb.
    assert (Hall : forall t', In t' (t :: Ts) -> t' = t).
    { intros t' [<-|Hin]; [reflexivity|]. rewrite forallb_forall in E. symmetry. apply Heq, E, Hin. }
    pose proof (process_TG_length _ _ _ _ H) as HL. clear -Hall HL.
    revert gs HL. generalize (t :: Ts) as L, Hall. clear.
    induction L as [|t' L IH]; intros Hall gs HL; destruct gs as [|g0 gs]; simpl in *; try lia; [reflexivity|].
    rewrite (Hall t' (or_introl eq_refl)). f_equal.
    apply IH; [intros t'' Hin; apply Hall; right; exact Hin | lia].
  Qed.
End WrapperProofs.
