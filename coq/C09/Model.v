(* C09 - Thermodynamic queries are pure: history, caching, batching change nothing.

   Executable definitions only (no proofs).  Three models, all discrete (Z, Q, lists, bool):

   A. the composition cache of the diffusion models
        kawin/diffusion/DiffusionParameters.py  class HashTable
        kawin/diffusion/SinglePhase.py          _getFluxes   (the retrieve / compute / add loop)
        kawin/diffusion/DiffusionParameters.py  _computeSingleMobility (same pattern)
   B. the array wrappers of the thermodynamic queries
        kawin/thermo/utils.py            _process_xT_arrays, _process_TG_arrays
        kawin/thermo/Thermodynamics.py   getDrivingForce / getInterdiffusivity / getTracerDiffusivity
        kawin/thermo/BinTherm.py         getInterfacialComposition
        kawin/thermo/MultiTherm.py       getInterfacialComposition
   C. the cached composition sets of GeneralThermodynamics (history of queries)
        kawin/thermo/LocalEquilibrium.py local_equilibrium
        kawin/thermo/Thermodynamics.py   clearCache, _interdiffusivitySingle, _tracerDiffusivitySingle,
                                         _getDrivingForceTangent, _getDrivingForceSampling,
                                         _getPrecCompositionSetSamplingDF, _resetDrivingForceCache,
                                         _getCompositionSetsEq / _getCompositionSetsForDF,
                                         _getDrivingForceApprox
      with pycalphad (solver, sampler, global equilibrium, property evaluation) as Section variables.

   The model is of the REPAIRED code (worktree commits "fix: HashTable.enableCaching(False) ...",
   "fix: composition cache keys no longer overflow int32 ...", "fix: setHashSensitivity drops entries ...",
   "fix: cached composition sets are updated under the same conditions as a fresh equilibrium",
   "fix: setDrivingForceMethod drops composition sets cached by the previous method").
   What the unrepaired code did is kept in section `Legacy` below; Examples.v refutes the property for it. *)
From Coq Require Import ZArith QArith List Bool.
Import ListNotations.

(* ========================================================================================== *)
(* A. composition cache                                                                       *)

(* 10^s as an exact rational (setHashSensitivity: 10.0**int(s)) *)
Definition pow10 (s : Z) : Q :=
  if (0 <=? s)%Z then inject_Z (10 ^ s) else / inject_Z (10 ^ (- s)).

(* np.trunc: towards zero *)
Definition truncQ (q : Q) : Z := Z.quot (Qnum q) (Zpos (Qden q)).

(* one coordinate of the key: trunc(v * 10^s) *)
Definition scaled (s : Z) (v : Q) : Z := truncQ (v * pow10 s).

(* _hashingFunction:  tuple(np.trunc(np.concatenate((x, [T])) * hash_sensitivity)) *)
Definition key (s : Z) (x : list Q) (T : Q) : list Z := map (scaled s) (x ++ [T]).

Fixpoint keyeqb (a b : list Z) : bool :=
  match a, b with
  | [], [] => true
  | u :: a', v :: b' => (u =? v)%Z && keyeqb a' b'
  | _, _ => false
  end.

Section Cache.
  Variable V : Type.                                   (* what is stored: a diffusivity, MobilityData *)

  Record cache := mkCache { c_on : bool; c_sens : Z; c_store : list (list Z * V) }.

  (* HashTable.__init__ *)
  Definition cache_init : cache := mkCache true 4 [].

  Fixpoint lookup (k : list Z) (st : list (list Z * V)) : option V :=
    match st with
    | [] => None
    | (k', v) :: r => if keyeqb k' k then Some v else lookup k r
    end.

  (* dict assignment: the key has one entry afterwards *)
  Definition insert (k : list Z) (v : V) (st : list (list Z * V)) : list (list Z * V) :=
    (k, v) :: filter (fun p => negb (keyeqb (fst p) k)) st.

  (* retrieveFromHashTable *)
  Definition retrieve (c : cache) (x : list Q) (T : Q) : option V :=
    if c_on c then lookup (key (c_sens c) x T) (c_store c) else None.

  Inductive op :=
  | Enable (b : bool)                                  (* enableCaching / DiffusionModel.useCache *)
  | Clear                                              (* clearCache *)
  | SetSens (s : Z)                                    (* setHashSensitivity *)
  | Add (x : list Q) (T : Q) (v : V).                  (* addToHashTable *)

  Definition step (c : cache) (o : op) : cache :=
    match o with
    | Enable b => mkCache b (c_sens c) (c_store c)
    | Clear => mkCache (c_on c) (c_sens c) []
    | SetSens s => mkCache (c_on c) s []
    | Add x T v => if c_on c then mkCache true (c_sens c) (insert (key (c_sens c) x T) v (c_store c)) else c
    end.

  Definition exec (ops : list op) (c : cache) : cache := fold_left step ops c.

  (* the use of the cache: SinglePhaseModel._getFluxes (and _computeSingleMobility) *)
  Variable f : list Q -> Q -> V.                       (* the backend query at one point *)

  Definition cached_point (c : cache) (x : list Q) (T : Q) : cache * V :=
    match retrieve c x T with
    | Some v => (c, v)
    | None => let v := f x T in (step c (Add x T v), v)
    end.

  Fixpoint cached_nodes (c : cache) (pts : list (list Q * Q)) : cache * list V :=
    match pts with
    | [] => (c, [])
    | (x, T) :: r =>
        let (c1, v) := cached_point c x T in
        let (c2, vs) := cached_nodes c1 r in
        (c2, v :: vs)
    end.
End Cache.

Arguments mkCache {V}. Arguments c_on {V}. Arguments c_sens {V}. Arguments c_store {V}.
Arguments cache_init {V}. Arguments lookup {V}. Arguments insert {V}. Arguments retrieve {V}.
Arguments Enable {V}. Arguments Clear {V}. Arguments SetSens {V}. Arguments Add {V}.
Arguments step {V}. Arguments exec {V}. Arguments cached_point {V}. Arguments cached_nodes {V}.

(* what the unrepaired code did (kept for the refutations in Examples.v and for the correspondence
   on the unrepaired tree): int32 cast of the key, `is None` tests that ignore enableCaching,
   setHashSensitivity keeps the entries *)
Section Legacy.
  Variable V : Type.
  (* C cast double -> int32: out of range gives INT_MIN (x86 cvttsd2si) *)
  Definition int32cast (z : Z) : Z :=
    if ((- 2 ^ 31 <=? z) && (z <? 2 ^ 31))%Z then z else (- 2 ^ 31)%Z.
  Definition key32 (s : Z) (x : list Q) (T : Q) : list Z := map int32cast (key s x T).

  Definition retrieve_legacy (c : cache V) (x : list Q) (T : Q) : option V :=
    lookup (key32 (c_sens c) x T) (c_store c).
  Definition step_legacy (c : cache V) (o : op V) : cache V :=
    match o with
    | Enable b => mkCache b (c_sens c) (c_store c)
    | Clear => mkCache (c_on c) (c_sens c) []
    | SetSens s => mkCache (c_on c) s (c_store c)
    | Add x T v => mkCache (c_on c) (c_sens c) (insert (key32 (c_sens c) x T) v (c_store c))
    end.
  Definition exec_legacy (ops : list (op V)) (c : cache V) : cache V := fold_left step_legacy ops c.
End Legacy.
Arguments retrieve_legacy {V}. Arguments step_legacy {V}. Arguments exec_legacy {V}.

(* ========================================================================================== *)
(* B. array wrappers                                                                          *)

Section Wrappers.
  Variables A B : Type.                                (* composition entries, temperatures / energies *)

  (* what the caller may pass for x: a scalar, a 1-d array, a 2-d array (list of rows) *)
  Inductive arr2 := Sc2 (a : A) | Vec2 (l : list A) | Mat2 (rows : list (list A)).
  (* ... and for T / gExtra: a scalar or a 1-d array *)
  Inductive arr1 := Sc1 (b : B) | Vec1 (l : list B).

  Definition atleast_2d (x : arr2) : list (list A) :=
    match x with Sc2 a => [[a]] | Vec2 l => [l] | Mat2 r => r end.
  Definition atleast_1d (t : arr1) : list B :=
    match t with Sc1 b => [b] | Vec1 l => l end.

  (* shape[1] of a non-empty 2-d array *)
  Definition ncols (r : list (list A)) : nat := match r with [] => 0 | r0 :: _ => length r0 end.

  Fixpoint zipcons (row : list A) (acc : list (list A)) : list (list A) :=
    match row, acc with
    | a :: r, c :: cs => (a :: c) :: zipcons r cs
    | _, _ => []
    end.
  Definition transpose (r : list (list A)) : list (list A) :=
    fold_right zipcons (repeat [] (ncols r)) r.

  (* _process_xT_arrays; None = ValueError *)
  Definition process_xT (isBinary : bool) (x : arr2) (T : arr1) : option (list (list A) * list B) :=
    let x2 := atleast_2d x in
    let x2 := if isBinary && negb (Nat.eqb (ncols x2) 1) then transpose x2 else x2 in
    let T1 := atleast_1d T in
    if Nat.eqb (length x2) (length T1) then Some (x2, T1)
    else match x2 with
         | [row] => Some (repeat row (length T1), T1)
         | _ => match T1 with
                | [t] => Some (x2, repeat t (length x2))
                | _ => None
                end
         end.

  (* _process_TG_arrays *)
  Definition process_TG (T g : arr1) : option (list B * list B) :=
    let T1 := atleast_1d T in
    let g1 := atleast_1d g in
    if Nat.eqb (length T1) (length g1) then Some (T1, g1)
    else match T1 with
         | [t] => Some (repeat t (length g1), g1)
         | _ => match g1 with
                | [g0] => Some (T1, repeat g0 (length T1))
                | _ => None
                end
         end.

  Variable R : Type.                                   (* result at one point *)

  Fixpoint map2 {C D E} (h : C -> D -> E) (l : list C) (m : list D) : list E :=
    match l, m with
    | a :: l', b :: m' => h a b :: map2 h l' m'
    | _, _ => []
    end.

  (* getDrivingForce / getInterdiffusivity / getTracerDiffusivity with a backend that is a function:
     [single(xi, Ti) for xi, Ti in zip(x, T)]  (np.squeeze of the list is applied by the caller) *)
  Definition query_xT (isBinary : bool) (f : list A -> B -> R) (x : arr2) (T : arr1) : option (list R) :=
    match process_xT isBinary x T with
    | Some (xs, Ts) => Some (map2 f xs Ts)
    | None => None
    end.

  (* the same with a backend that carries state from one point to the next (cached composition sets) *)
  Variable S : Type.
  Fixpoint thread (f : S -> list A -> B -> S * R) (s : S) (xs : list (list A)) (Ts : list B) : S * list R :=
    match xs, Ts with
    | x :: xs', t :: Ts' =>
        let (s1, r) := f s x t in
        let (s2, rs) := thread f s1 xs' Ts' in
        (s2, r :: rs)
    | _, _ => (s, [])
    end.
  Definition query_xT_st (isBinary : bool) (f : S -> list A -> B -> S * R) (s : S) (x : arr2) (T : arr1)
    : option (S * list R) :=
    match process_xT isBinary x T with
    | Some (xs, Ts) => Some (thread f s xs Ts)
    | None => None
    end.

  (* BinaryThermodynamics.getInterfacialComposition: one batched call when all temperatures are equal
     (np.unique(T) has one element), else one call per point.  The batched backend takes the list of
     Gibbs-Thomson energies (pycalphad evaluates the GE axis of the workspace). *)
  Variable B_eqb : B -> B -> bool.
  Definition interfacial_binary (fb : B -> list B -> list R) (T g : arr1) : option (list R) :=
    match process_TG T g with
    | Some (t :: Ts, gs) =>
        if forallb (B_eqb t) Ts then Some (fb t gs)
        else Some (concat (map2 (fun t0 g0 => fb t0 [g0]) (t :: Ts) gs))
    | _ => None
    end.

  (* MulticomponentThermodynamics.getInterfacialComposition: T scalar (or length 1) is repeated,
     one call per Gibbs-Thomson energy; a shorter T array raises IndexError (None) *)
  Definition interfacial_multi (fm : B -> B -> R) (T g : arr1) : option (list R) :=
    let g1 := atleast_1d g in
    let T1 := match atleast_1d T with [t] => repeat t (length g1) | l => l end in
    if Nat.leb (length g1) (length T1) then Some (map2 fm (firstn (length g1) T1) g1) else None.
End Wrappers.

Arguments Sc2 {A}. Arguments Vec2 {A}. Arguments Mat2 {A}. Arguments Sc1 {B}. Arguments Vec1 {B}.
Arguments atleast_2d {A}. Arguments atleast_1d {B}. Arguments ncols {A}. Arguments transpose {A}.
Arguments zipcons {A}.
Arguments process_xT {A B}. Arguments process_TG {B}. Arguments map2 {C D E}.
Arguments query_xT {A B R}. Arguments thread {A B R S}. Arguments query_xT_st {A B R S}.
Arguments interfacial_binary {B R}. Arguments interfacial_multi {B R}.

(* ========================================================================================== *)
(* C. cached composition sets of GeneralThermodynamics                                        *)

Section Thermo.
  (* compositions, temperatures, extra Gibbs energies, internal degrees of freedom of a composition
     set (site fractions, amount), solver results, sampled points, returned values *)
  Variables X Tm G Y Res Smp Val : Type.
  Definition Ph := nat.                                (* index into self.phases; 0 is the matrix *)
  Variable Tm_eqb : Tm -> Tm -> bool.

  (* a pycalphad CompositionSet: phase, the state variables it carries (GE, T; N and P are constants
     of kawin) and the rest of its dof vector *)
  Record cset := mkcs { cs_ph : Ph; cs_T : Tm; cs_g : G; cs_y : Y }.

  Variable Cd : Type.                                  (* a dictionary of conditions *)
  Variable cdT : Cd -> Tm.                             (* state variables it prescribes ... *)
  Variable cdG : Cd -> G.                              (* ... (GE, 0 when absent) *)
  Variable cond_x : X -> Tm -> G -> Cd.                (* _getConditions(x, T, gExtra) *)
  Variable cond_mu : Res -> Tm -> Cd.                  (* {T, P, N, MU(e) of the matrix}: no GE *)
  Variables g0 gOff : G.                               (* 0 and GeneralThermodynamics.gOffset *)

  (* pycalphad *)
  Variable solve : Cd -> list cset -> Res * list cset. (* Solver().solve: result, converged sets *)
  Variable naive : Ph -> Tm -> G -> Y.                 (* lowest sampled point, calculate(T, GE, pdens=10) *)
  Variable is_nan : Res -> bool.                       (* any(isnan(chemical_potentials)) *)
  Variable sample : Ph -> Tm -> Smp.                   (* calculate(pdens=sampling_pDens, T=T, GE=gOffset) *)
  Variable best : Smp -> Res -> Val * Y.               (* largest distance below the matrix hyperplane *)
  Variable global_eq : X -> Tm -> G -> Ph -> Res * list cset.   (* Workspace: MU, composition sets *)
  (* property evaluation on converged composition sets *)
  Variable dval tval : Res -> list cset -> Val.        (* inverseMobility / tracer_diffusivity *)
  Variable gval : Res -> Val.                          (* solved GE of the parallel tangent *)
  Variable xval : cset -> Val.                         (* composition in element order *)
  Variable aval : cset -> Res -> Res -> Val.           (* sum(xP * mu_matrix) - sum(xP * mu_eq) *)
  Variable same_comp : cset -> list cset -> bool.      (* np.allclose(xb, matrix composition) *)

  (* ---- LocalEquilibrium.local_equilibrium ---- *)
  (* supplied composition sets get the state variables of the conditions ("pycalphad doesn't seem to
     update the temperature if it changes") *)
  Definition refresh (cd : Cd) (c : cset) : cset := mkcs (cs_ph c) (cdT cd) (cdG cd) (cs_y c).
  Definition local_eq (phases : list Ph) (cd : Cd) (start : option (list cset)) : Res * list cset :=
    match start with
    | None => solve cd (map (fun p => mkcs p (cdT cd) (cdG cd) (naive p (cdT cd) (cdG cd))) phases)
    | Some l => solve cd (map (refresh cd) l)
    end.

  (* ---- the caches ---- *)
  Fixpoint aget {C} (p : Ph) (l : list (Ph * C)) : option C :=
    match l with [] => None | (q, c) :: r => if Nat.eqb q p then Some c else aget p r end.
  Definition aset {C} (p : Ph) (c : option C) (l : list (Ph * C)) : list (Ph * C) :=
    let l' := filter (fun e => negb (Nat.eqb (fst e) p)) l in
    match c with Some v => (p, v) :: l' | None => l' end.

  Record tstate := mkT {
    df_cs : list (Ph * list cset);                     (* _compset_cache_df *)
    mat_cs : option (list cset);                       (* _matrix_cs *)
    pts : list (Ph * (Tm * Smp));                      (* _points_cache *)
    diff_cs : list (Ph * list cset);                   (* _diffusivity_cache *)
    curv_cs : list (Ph * list cset);                   (* _compset_cache_curvature (MultiTherm) *)
    curv_out : list (Ph * Val) }.                      (* _curvature_outputs (MultiTherm): NOT dropped by clearCache *)

  (* clearCache *)
  Definition t_init : tstate := mkT [] None [] [] [] [].
  Definition set_df s v := mkT v (mat_cs s) (pts s) (diff_cs s) (curv_cs s) (curv_out s).
  Definition set_mat s v := mkT (df_cs s) v (pts s) (diff_cs s) (curv_cs s) (curv_out s).
  Definition set_pts s v := mkT (df_cs s) (mat_cs s) v (diff_cs s) (curv_cs s) (curv_out s).
  Definition set_diff s v := mkT (df_cs s) (mat_cs s) (pts s) v (curv_cs s) (curv_out s).
  Definition set_curv s v := mkT (df_cs s) (mat_cs s) (pts s) (diff_cs s) v (curv_out s).
  Definition set_curv_out s v := mkT (df_cs s) (mat_cs s) (pts s) (diff_cs s) (curv_cs s) v.
  (* clearCache: every cache, but not the last curvature outputs *)
  Definition clear_cache s := mkT [] None [] [] [] (curv_out s).

  (* ---- _interdiffusivitySingle / _tracerDiffusivitySingle ---- *)
  Definition diffusivity (val : Res -> list cset -> Val) (s : tstate) (x : X) (T : Tm) (rm : bool) (p : Ph)
    : tstate * Val :=
    let (res, cs) := local_eq [p] (cond_x x T g0) (aget p (diff_cs s)) in
    (set_diff s (aset p (if rm then None else Some cs) (diff_cs s)), val res cs).
  Definition interdiff := diffusivity dval.
  Definition tracer := diffusivity tval.

  (* ---- _resetDrivingForceCache ---- *)
  Definition reset_df (s : tstate) (p : Ph) (rm : bool) : tstate :=
    if rm then mkT (aset p None (df_cs s)) None (aset p None (pts s)) (diff_cs s) (curv_cs s) (curv_out s) else s.

  (* ---- _getPrecCompositionSetSamplingDF ---- *)
  Definition prec_sample (s : tstate) (T : Tm) (mu : Res) (p : Ph) : tstate * (Val * cset) :=
    let fresh := (set_pts s (aset p (Some (T, sample p T)) (pts s)), sample p T) in
    let (s1, smp) := match aget p (pts s) with
                     | Some (T', sm) => if Tm_eqb T' T then (s, sm) else fresh
                     | None => fresh
                     end in
    let (dg, y) := best smp mu in
    (s1, (dg, mkcs p T gOff y)).

  (* ---- _getDrivingForceSampling ---- *)
  Definition df_sampling (s : tstate) (x : X) (T : Tm) (p : Ph) (rm : bool) : tstate * option (Val * Val) :=
    let (res, mcs) := local_eq [0%nat] (cond_x x T g0) (mat_cs s) in
    let s1 := set_mat s (Some mcs) in
    if is_nan res then (s1, None)
    else
      let '(s2, (dg, pcs)) := prec_sample s1 T res p in
      (reset_df s2 p rm, Some (dg, xval pcs)).

  (* ---- _getDrivingForceTangent ---- *)
  Definition df_tangent (s : tstate) (x : X) (T : Tm) (p : Ph) (rm : bool) : tstate * option (Val * Val) :=
    let (res, mcs) := local_eq [0%nat] (cond_x x T g0) (mat_cs s) in
    let s1 := set_mat s (Some mcs) in
    if is_nan res then (s1, None)
    else
      let (s2, start) := match aget p (df_cs s1) with
                         | Some l => (s1, l)
                         | None =>
                             let '(s', (_, pcs)) := prec_sample s1 T res p in
                             (set_df s' (aset p (Some [pcs]) (df_cs s')), [pcs])
                         end in
      let (pres, pcs) := local_eq [p] (cond_mu res T) (Some start) in
      (* the solver works in place: the cached list now holds the sets it left behind *)
      let s3 := set_df s2 (aset p (Some pcs) (df_cs s2)) in
      if is_nan pres then (s3, None)
      else match pcs with
           | c0 :: _ =>
               if same_comp c0 mcs then df_sampling (set_df s3 (aset p None (df_cs s3))) x T p rm
               else (reset_df s3 p rm, Some (gval pres, xval c0))
           | [] => (s3, None)
           end.

  (* ---- _getCompositionSetsEq ---- *)
  Definition pick (p : Ph) (l : list cset) : option cset :=
    match filter (fun c => Nat.eqb (cs_ph c) p) l with c :: _ => Some c | [] => None end.
  Definition count_ph (p : Ph) (l : list cset) : nat := length (filter (fun c => Nat.eqb (cs_ph c) p) l).
  Definition gap (p : Ph) (l : list cset) : bool := Nat.ltb 1 (count_ph 0%nat l) || Nat.ltb 1 (count_ph p l).

  (* result: None when the equilibrium is invalid, else chemical potentials and the matrix / precipitate
     composition sets (None when that phase is not stable) *)
  Definition compsets_eq (cached : option (list cset)) (x : X) (T : Tm) (p : Ph)
    : option (Res * option cset * option cset) :=
    let update l := local_eq [0%nat; p] (cond_x x T gOff) (Some l) in
    let (mu, l) := match cached with
                   | None => global_eq x T gOff p
                   | Some l0 => update l0
                   end in
    if is_nan mu then None
    else match pick 0%nat l, pick p l with
         | Some cm, Some cp =>
             if gap p l then
               let (mu2, l2) := update [cm; cp] in
               Some (mu2, pick 0%nat l2, pick p l2)
             else Some (mu, Some cm, Some cp)
         | cm, cp => Some (mu, cm, cp)
         end.

  (* ---- _getCompositionSetsForDF + _getDrivingForceApprox ---- *)
  Definition df_approx (s : tstate) (x : X) (T : Tm) (p : Ph) (rm : bool) : tstate * option (Val * Val) :=
    match compsets_eq (aget p (df_cs s)) x T p with
    | Some (mu, Some cm, Some cp) =>
        let s0 := set_df s (aset p (Some [cm; cp]) (df_cs s)) in
        let (res, mcs) := local_eq [0%nat] (cond_x x T g0) (mat_cs s0) in
        let s1 := set_mat s0 (Some mcs) in
        if is_nan res then (s1, None)
        else (reset_df s1 p rm, Some (aval cp res mu, xval cp))
    | _ => df_sampling (set_df s (aset p None (df_cs s))) x T p rm
    end.

  (* ---- MulticomponentThermodynamics.curvatureFactor (no search direction) ---- *)
  Variable cval : Res -> cset -> cset -> Val.          (* _curvatureFactorFromEq *)
  Definition curvature (s : tstate) (x : X) (T : Tm) (p : Ph) (rm : bool) : tstate * option Val :=
    let cached := aget p (curv_cs s) in
    (* the solver works in place: cached sets are left as the update of this call left them *)
    let s0 := match cached with
              | Some l0 => set_curv s (aset p (Some (snd (local_eq [0%nat; p] (cond_x x T gOff) (Some l0)))) (curv_cs s))
              | None => s
              end in
    match compsets_eq cached x T p with
    | Some (mu, Some cm, Some cp) =>
        let v := cval mu cm cp in
        (set_curv_out (set_curv s0 (aset p (if rm then None else Some [cm; cp]) (curv_cs s0)))
                      (aset p (Some v) (curv_out s0)), Some v)
    | _ =>
        (* _process_invalid_eq: removeCache is honoured BEFORE looking for a previous result *)
        let u := if rm then set_curv s0 (aset p None (curv_cs s0)) else s0 in
        match aget p (curv_cs u) with
        | None => (u, None)
        | Some _ => (u, aget p (curv_out u))
        end
    end.

  (* ---- a history of queries ---- *)
  Inductive method := Tangent | Sampling | Approx.
  Inductive query :=
  | QDF (x : X) (T : Tm) (p : Ph) (rm : bool)          (* getDrivingForce, one point *)
  | QInter (x : X) (T : Tm) (p : Ph) (rm : bool)       (* getInterdiffusivity *)
  | QTracer (x : X) (T : Tm) (p : Ph) (rm : bool)      (* getTracerDiffusivity *)
  | QCurv (x : X) (T : Tm) (p : Ph) (rm : bool)        (* curvatureFactor *)
  | QClear                                             (* clearCache *)
  | QMethod (m : method).                              (* setDrivingForceMethod *)

  Inductive answer := ADF (r : option (Val * Val)) | AVal (v : Val) | ACurv (r : option Val) | ANone.

  (* the object: the configured driving-force method and the caches *)
  Definition obj := (method * tstate)%type.
  Definition obj_init (m : method) : obj := (m, t_init).

  Definition run1 (o : obj) (q : query) : obj * answer :=
    let (m, s) := o in
    match q with
    | QDF x T p rm =>
        let (s', r) := match m with
                       | Tangent => df_tangent s x T p rm
                       | Sampling => df_sampling s x T p rm
                       | Approx => df_approx s x T p rm
                       end in ((m, s'), ADF r)
    | QInter x T p rm => let (s', v) := interdiff s x T rm p in ((m, s'), AVal v)
    | QTracer x T p rm => let (s', v) := tracer s x T rm p in ((m, s'), AVal v)
    | QCurv x T p rm => let (s', r) := curvature s x T p rm in ((m, s'), ACurv r)
    | QClear => ((m, clear_cache s), ANone)
    | QMethod m' => ((m', set_df s []), ANone)
    end.

  Fixpoint run (o : obj) (qs : list query) : obj * list answer :=
    match qs with
    | [] => (o, [])
    | q :: r => let (o1, a) := run1 o q in let (o2, as_) := run o1 r in (o2, a :: as_)
    end.
End Thermo.

Arguments mkcs {Tm G Y}. Arguments cs_ph {Tm G Y}. Arguments cs_T {Tm G Y}. Arguments cs_g {Tm G Y}. Arguments cs_y {Tm G Y}.
Arguments refresh {Tm G Y Cd}. Arguments local_eq {Tm G Y Res Cd}.
Arguments mkT {Tm G Y Smp Val}. Arguments df_cs {Tm G Y Smp Val}. Arguments mat_cs {Tm G Y Smp Val}. Arguments pts {Tm G Y Smp Val}.
Arguments diff_cs {Tm G Y Smp Val}. Arguments curv_cs {Tm G Y Smp Val}. Arguments curv_out {Tm G Y Smp Val}.
Arguments t_init {Tm G Y Smp Val}. Arguments set_df {Tm G Y Smp Val}. Arguments set_mat {Tm G Y Smp Val}. Arguments set_pts {Tm G Y Smp Val}.
Arguments set_diff {Tm G Y Smp Val}. Arguments set_curv {Tm G Y Smp Val}. Arguments set_curv_out {Tm G Y Smp Val}.
Arguments clear_cache {Tm G Y Smp Val}. Arguments reset_df {Tm G Y Smp Val}.
Arguments diffusivity {X Tm G Y Res Smp Val Cd}. Arguments interdiff {X Tm G Y Res Smp Val Cd}. Arguments tracer {X Tm G Y Res Smp Val Cd}.
Arguments prec_sample {Tm G Y Res Smp Val}. Arguments df_sampling {X Tm G Y Res Smp Val} Tm_eqb {Cd}.
Arguments df_tangent {X Tm G Y Res Smp Val} Tm_eqb {Cd}. Arguments compsets_eq {X Tm G Y Res Cd}.
Arguments df_approx {X Tm G Y Res Smp Val} Tm_eqb {Cd}.
Arguments pick {Tm G Y}. Arguments count_ph {Tm G Y}. Arguments gap {Tm G Y}.
Arguments QDF {X Tm}. Arguments QInter {X Tm}. Arguments QTracer {X Tm}. Arguments QCurv {X Tm}. Arguments QClear {X Tm}. Arguments QMethod {X Tm}.
Arguments ADF {Val}. Arguments AVal {Val}. Arguments ACurv {Val}. Arguments ANone {Val}.
Arguments obj_init {Tm G Y Smp Val}. Arguments curvature {X Tm G Y Res Smp Val Cd}.
Arguments run1 {X Tm G Y Res Smp Val} Tm_eqb {Cd}. Arguments run {X Tm G Y Res Smp Val} Tm_eqb {Cd}.
