(* C09 - part C: cached composition sets of GeneralThermodynamics.
   History independence of the answers, proved of the model of kawin's cache handling UNDER explicit
   hypotheses about pycalphad (Section hypotheses = premises of the closed theorems):
     start_independent : the converged result of the solver does not depend on the internal degrees of
                         freedom of the composition sets it is started from (it may depend on the state
                         variables they carry - kawin has to refresh those - and on their phases)
     solver_keeps_phases
     global_is_local   : (approximate method only) in a two-phase equilibrium without miscibility gap the
                         local equilibrium of one matrix and one precipitate set under the same conditions
                         reproduces the global equilibrium
   These are sampled against pycalphad by harness/c09.py; they are not proved. *)
From Coq Require Import ZArith List Bool Arith Lia.
Require Import Kawin.C09.Model.
Import ListNotations.

Ltac csimpl := cbn [df_cs mat_cs pts diff_cs curv_cs curv_out set_pts set_df set_mat set_diff set_curv set_curv_out clear_cache fst snd].
Tactic Notation "csimpl" "in" hyp(H) :=
  cbn [df_cs mat_cs pts diff_cs curv_cs curv_out set_pts set_df set_mat set_diff set_curv set_curv_out clear_cache fst snd] in H.

Section ThermoProofs.
  Variables X Tm G Y Res Smp Val : Type.
  Variable Tm_eqb : Tm -> Tm -> bool.
  Hypothesis Tm_eqb_spec : forall a b, Tm_eqb a b = true <-> a = b.
  Variable Cd : Type.
  Variable cdT : Cd -> Tm.
  Variable cdG : Cd -> G.
  Variable cond_x : X -> Tm -> G -> Cd.
  Variable cond_mu : Res -> Tm -> Cd.
  Variables g0 gOff : G.
  Notation cset := (cset Tm G Y).
  Variable solve : Cd -> list cset -> Res * list cset.
  Variable naive : Ph -> Tm -> G -> Y.
  Variable is_nan : Res -> bool.
  Variable sample : Ph -> Tm -> Smp.
  Variable best : Smp -> Res -> Val * Y.
  Variable global_eq : X -> Tm -> G -> Ph -> Res * list cset.
  Variable dval tval : Res -> list cset -> Val.
  Variable gval : Res -> Val.
  Variable xval : cset -> Val.
  Variable aval : cset -> Res -> Res -> Val.
  Variable same_comp : cset -> list cset -> bool.
  Variable cval : Res -> cset -> cset -> Val.

  Notation phs := (map (@cs_ph Tm G Y)).
  Notation mkcs := (@mkcs Tm G Y).
  Notation tstate := (tstate Tm G Y Smp Val).
  Notation t_init := (@t_init Tm G Y Smp Val).
  Notation obj_init := (@obj_init Tm G Y Smp Val).
  Notation local_eq := (local_eq cdT cdG solve naive).
  Notation refresh := (refresh cdT cdG).
  Notation diffusivity := (diffusivity cdT cdG cond_x g0 solve naive).
  Notation prec_sample := (prec_sample Tm_eqb gOff sample best).
  Notation df_sampling := (df_sampling Tm_eqb cdT cdG cond_x g0 gOff solve naive is_nan sample best xval).
  Notation df_tangent := (df_tangent Tm_eqb cdT cdG cond_x cond_mu g0 gOff solve naive is_nan sample best gval xval same_comp).
  Notation compsets_eq := (@compsets_eq X Tm G Y Res Cd cdT cdG cond_x gOff solve naive is_nan global_eq).
  Notation df_approx := (df_approx Tm_eqb cdT cdG cond_x g0 gOff solve naive is_nan sample best global_eq xval aval).
  Notation run1 := (run1 Tm_eqb cdT cdG cond_x cond_mu g0 gOff solve naive is_nan sample best global_eq dval tval gval xval aval same_comp cval).
  Notation run := (run Tm_eqb cdT cdG cond_x cond_mu g0 gOff solve naive is_nan sample best global_eq dval tval gval xval aval same_comp cval).
  Notation curvature := (curvature cdT cdG cond_x gOff solve naive is_nan global_eq cval).
  Notation query := (query X Tm).
  Notation answer := (answer Val).
  Notation obj := (obj Tm G Y Smp Val).

  (* ---- what kawin does, whatever pycalphad does ---- *)

  (* every composition set handed to the solver carries the state variables of the conditions *)
  Definition solver_input (phases : list Ph) (cd : Cd) (start : option (list cset)) : list cset :=
    match start with
    | None => map (fun p => mkcs p (cdT cd) (cdG cd) (naive p (cdT cd) (cdG cd))) phases
    | Some l => map (refresh cd) l
    end.

  Lemma local_eq_is_solve phases cd start : local_eq phases cd start = solve cd (solver_input phases cd start).
  Proof. destruct start; reflexivity. Qed.

  Lemma solver_input_refreshed phases cd start :
    Forall (fun c => cs_T c = cdT cd /\ cs_g c = cdG cd) (solver_input phases cd start).
  Proof.
    destruct start as [l|]; simpl; apply Forall_forall; intros c Hin; apply in_map_iff in Hin;
      destruct Hin as (u & <- & _); simpl; split; reflexivity.
  Qed.

  Lemma solver_input_phases phases cd (l : list cset) : phs (solver_input phases cd (Some l)) = phs l.
  Proof. simpl. rewrite map_map. simpl. reflexivity. Qed.

  Lemma solver_input_phases_none phases cd : phs (solver_input phases cd None) = phases.
  Proof. simpl. rewrite map_map. simpl. apply map_id. Qed.

  (* association lists keyed by phase *)
  Lemma aget_aset {C} (q p : Ph) (c : option C) (l : list (Ph * C)) :
    aget q (aset p c l) = if Nat.eqb p q then c else aget q l.
  Proof.
    assert (F : forall l0 : list (Ph * C),
               aget q (filter (fun e => negb (Nat.eqb (fst e) p)) l0) = if Nat.eqb p q then None else aget q l0).
    { induction l0 as [|[r v] l0 IH]; simpl.
      - destruct (Nat.eqb p q); reflexivity.
      - destruct (Nat.eqb r p) eqn:E1; simpl.
        + apply Nat.eqb_eq in E1. subst r. rewrite IH. destruct (Nat.eqb p q); reflexivity.
        + destruct (Nat.eqb r q) eqn:E2.
          * apply Nat.eqb_eq in E2. subst r. rewrite Nat.eqb_sym in E1. rewrite E1. reflexivity.
          * exact IH. }
    unfold aset. destruct c as [v|]; simpl.
    - rewrite F. destruct (Nat.eqb p q); reflexivity.
    - rewrite F. destruct (Nat.eqb p q); reflexivity.
  Qed.

  (* _resetDrivingForceCache(phase, True) removes exactly the three driving-force caches of that phase
     and nothing else; with removeCache = False it does nothing *)
  Lemma reset_df_exact (s : tstate) p :
    let s' := reset_df s p true in
    aget p (df_cs s') = None /\ mat_cs s' = None /\ aget p (pts s') = None /\
    (forall q, q <> p -> aget q (df_cs s') = aget q (df_cs s) /\ aget q (pts s') = aget q (pts s)) /\
    diff_cs s' = diff_cs s /\ curv_cs s' = curv_cs s.
  Proof.
    cbv zeta. unfold reset_df. cbn [df_cs mat_cs pts diff_cs curv_cs].
    rewrite !aget_aset, Nat.eqb_refl. repeat split; try reflexivity.
    - rewrite aget_aset. destruct (Nat.eqb p q) eqn:E; [apply Nat.eqb_eq in E; congruence | reflexivity].
    - rewrite aget_aset. destruct (Nat.eqb p q) eqn:E; [apply Nat.eqb_eq in E; congruence | reflexivity].
  Qed.

  Lemma reset_df_keep (s : tstate) p : reset_df s p false = s.
  Proof. reflexivity. Qed.

  (* ---- hypotheses about pycalphad ---- *)
  Hypothesis start_independent : forall cd (l l' : list cset),
    phs l = phs l' -> map (@cs_T Tm G Y) l = map (@cs_T Tm G Y) l' -> map (@cs_g Tm G Y) l = map (@cs_g Tm G Y) l' ->
    solve cd l = solve cd l'.
  Hypothesis solver_keeps_phases : forall cd (l : list cset), phs (snd (solve cd l)) = phs l.

  Definition okstart (ps : list Ph) (o : option (list cset)) : Prop :=
    match o with None => True | Some l => phs l = ps end.

  Lemma map_const {C D} (h : C -> D) (d : D) l : (forall c, h c = d) -> map h l = repeat d (length l).
  Proof. intros H. induction l; simpl; [reflexivity|]. rewrite H, IHl. reflexivity. Qed.

  Lemma solver_input_T ps cd o : map (@cs_T Tm G Y) (solver_input ps cd o) = repeat (cdT cd) (length (solver_input ps cd o)).
  Proof.
    pose proof (solver_input_refreshed ps cd o) as H. induction (solver_input ps cd o) as [|c l IH]; simpl; [reflexivity|].
    inversion H; subst. destruct H2 as [-> _]. rewrite IH by assumption. reflexivity.
  Qed.
  Lemma solver_input_g ps cd o : map (@cs_g Tm G Y) (solver_input ps cd o) = repeat (cdG cd) (length (solver_input ps cd o)).
  Proof.
    pose proof (solver_input_refreshed ps cd o) as H. induction (solver_input ps cd o) as [|c l IH]; simpl; [reflexivity|].
    inversion H; subst. destruct H2 as [_ ->]. rewrite IH by assumption. reflexivity.
  Qed.

  Lemma solver_input_ps ps cd o : okstart ps o -> phs (solver_input ps cd o) = ps.
  Proof. destruct o as [l|]; intros H; [rewrite solver_input_phases; exact H | apply solver_input_phases_none]. Qed.

  (* because kawin refreshes the state variables, the start (fresh, or any cached list of the right
     phases) does not matter *)
  Lemma local_eq_any ps cd o o' : okstart ps o -> okstart ps o' -> local_eq ps cd o = local_eq ps cd o'.
  Proof.
    intros H H'. rewrite !local_eq_is_solve.
    pose proof (solver_input_ps ps cd o H) as P. pose proof (solver_input_ps ps cd o' H') as P'.
    assert (L : length (solver_input ps cd o) = length (solver_input ps cd o')).
    { rewrite <- (map_length (@cs_ph Tm G Y)), P, <- (map_length (@cs_ph Tm G Y) (solver_input ps cd o')), P'. reflexivity. }
    apply start_independent.
    - congruence.
    - rewrite !solver_input_T, L. reflexivity.
    - rewrite !solver_input_g, L. reflexivity.
  Qed.

  Lemma local_eq_phases ps cd o : okstart ps o -> phs (snd (local_eq ps cd o)) = ps.
  Proof. intros H. rewrite local_eq_is_solve, solver_keeps_phases. apply solver_input_ps; exact H. Qed.

  (* ---- well-formed caches ---- *)
  Definition df_shape (m : method) (p : Ph) : list Ph -> Prop :=
    match m with Tangent => fun ps => ps = [p] | Approx => fun ps => ps = [0%nat; p] | Sampling => fun _ => True end.

  Record wf (m : method) (s : tstate) : Prop := mkwf {
    wf_mat : okstart [0%nat] (mat_cs s);
    wf_diff : forall p l, aget p (diff_cs s) = Some l -> phs l = [p];
    wf_pts : forall p T sm, aget p (pts s) = Some (T, sm) -> sm = sample p T;
    wf_df : forall p l, aget p (df_cs s) = Some l -> df_shape m p (phs l);
    wf_curv : forall p l, aget p (curv_cs s) = Some l -> phs l = [0%nat; p] }.

  Lemma wf_init m : wf m t_init.
  Proof. constructor; simpl; try discriminate; auto. Qed.

  (* ---- diffusivities ---- *)
  Lemma diffusivity_history (val : Res -> list cset -> Val) m m' (s s' : tstate) x T rm p : wf m s -> wf m' s' ->
    snd (diffusivity val s x T rm p) = snd (diffusivity val s' x T rm p).
  Proof.
    intros W W'. unfold Model.diffusivity.
    assert (E : local_eq [p] (cond_x x T g0) (aget p (diff_cs s)) = local_eq [p] (cond_x x T g0) (aget p (diff_cs s'))).
    { apply local_eq_any.
      - destruct (aget p (diff_cs s)) eqn:A; simpl; [exact (wf_diff _ _ W _ _ A) | exact I].
      - destruct (aget p (diff_cs s')) eqn:A; simpl; [exact (wf_diff _ _ W' _ _ A) | exact I]. }
    rewrite E. destruct (local_eq [p] (cond_x x T g0) (aget p (diff_cs s'))). reflexivity.
  Qed.

  Lemma diffusivity_wf (val : Res -> list cset -> Val) m (s : tstate) x T rm p : wf m s -> wf m (fst (diffusivity val s x T rm p)).
  Proof.
    intros W. unfold Model.diffusivity.
    pose proof (local_eq_phases [p] (cond_x x T g0) (aget p (diff_cs s))) as HP.
    destruct (local_eq [p] (cond_x x T g0) (aget p (diff_cs s))) as [res cs] eqn:E. simpl in *.
    constructor; csimpl; try apply W.
    intros q l. rewrite aget_aset. destruct (Nat.eqb p q) eqn:Eq.
    - apply Nat.eqb_eq in Eq. subst q. destruct rm; [discriminate|]. intros H; inversion H; subst.
      apply HP. destruct (aget p (diff_cs s)) eqn:A; simpl; [exact (wf_diff _ _ W _ _ A) | exact I].
    - apply W.
  Qed.

  (* the diffusivity cache is per phase; removeCache leaves nothing behind *)
  Lemma diffusivity_frame (val : Res -> list cset -> Val) (s : tstate) x T rm p :
    let s' := fst (diffusivity val s x T rm p) in
    (rm = true -> aget p (diff_cs s') = None) /\
    (forall q, q <> p -> aget q (diff_cs s') = aget q (diff_cs s)) /\
    df_cs s' = df_cs s /\ mat_cs s' = mat_cs s /\ pts s' = pts s /\ curv_cs s' = curv_cs s.
  Proof.
    unfold Model.diffusivity. destruct (local_eq [p] (cond_x x T g0) (aget p (diff_cs s))) as [res cs]. simpl.
    split; [intros ->; rewrite aget_aset, Nat.eqb_refl; reflexivity|].
    split; [|repeat split].
    intros q Hq. rewrite aget_aset. destruct (Nat.eqb p q) eqn:E; [apply Nat.eqb_eq in E; congruence | reflexivity].
  Qed.

  (* ---- sampling of the precipitate ---- *)
  Lemma prec_sample_value m (s : tstate) T mu p : wf m s ->
    snd (prec_sample s T mu p) = (let (dg, y) := best (sample p T) mu in (dg, mkcs p T gOff y)).
  Proof.
    intros W. unfold Model.prec_sample.
    destruct (aget p (pts s)) as [[T' sm]|] eqn:A.
    - destruct (Tm_eqb T' T) eqn:E.
      + apply Tm_eqb_spec in E. subst T'. rewrite (wf_pts _ _ W _ _ _ A).
        destruct (best (sample p T) mu). reflexivity.
      + destruct (best (sample p T) mu). reflexivity.
    - destruct (best (sample p T) mu). reflexivity.
  Qed.

  Lemma prec_sample_state m (s : tstate) T mu p : wf m s ->
    let s' := fst (prec_sample s T mu p) in
    wf m s' /\ df_cs s' = df_cs s /\ mat_cs s' = mat_cs s /\ diff_cs s' = diff_cs s.
  Proof.
    intros W. unfold Model.prec_sample.
    assert (Wf : wf m (set_pts s (aset p (Some (T, sample p T)) (pts s)))).
    { constructor; csimpl; try apply W. intros q T1 sm. rewrite aget_aset. destruct (Nat.eqb p q) eqn:E.
      - apply Nat.eqb_eq in E. subst q. intros H; inversion H; reflexivity.
      - apply W. }
    destruct (aget p (pts s)) as [[T' sm]|] eqn:A.
    - destruct (Tm_eqb T' T); destruct (best _ mu); cbn [fst]; (split; [first [exact W | exact Wf] | repeat split]).
    - destruct (best _ mu); cbn [fst]; (split; [first [exact W | exact Wf] | repeat split]).
  Qed.

  (* well-formedness does not depend on the points cache / matrix set being dropped *)
  Lemma wf_reset m (s : tstate) p rm : wf m s -> wf m (reset_df s p rm).
  Proof.
    intros W. destruct rm; [|exact W]. unfold reset_df. constructor; csimpl; try apply W; auto.
    - exact I.
    - intros q T sm. rewrite aget_aset. destruct (Nat.eqb p q); [discriminate | apply W].
    - intros q l. rewrite aget_aset. destruct (Nat.eqb p q); [discriminate | apply W].
  Qed.

  Lemma wf_set_mat m (s : tstate) l : wf m s -> phs l = [0%nat] -> wf m (set_mat s (Some l)).
  Proof. intros W H. constructor; csimpl; [exact H | apply W | apply W | apply W | apply W]. Qed.

  Lemma wf_set_df_none m (s : tstate) p : wf m s -> wf m (set_df s (aset p None (df_cs s))).
  Proof.
    intros W. constructor; csimpl; try apply W.
    intros q l. rewrite aget_aset. destruct (Nat.eqb p q); [discriminate | apply W].
  Qed.

  Lemma wf_set_df_some m (s : tstate) p l : wf m s -> df_shape m p (phs l) -> wf m (set_df s (aset p (Some l) (df_cs s))).
  Proof.
    intros W H. constructor; csimpl; try apply W.
    intros q l'. rewrite aget_aset. destruct (Nat.eqb p q) eqn:E.
    - apply Nat.eqb_eq in E. subst q. intros H'; inversion H'; subst. exact H.
    - apply W.
  Qed.

  (* ---- driving force by sampling ---- *)
  Lemma matrix_eq_any m m' (s s' : tstate) cd : wf m s -> wf m' s' ->
    local_eq [0%nat] cd (mat_cs s) = local_eq [0%nat] cd (mat_cs s').
  Proof. intros W W'. apply local_eq_any; [exact (wf_mat _ _ W) | exact (wf_mat _ _ W')]. Qed.

  Lemma df_sampling_history m m' (s s' : tstate) x T p rm : wf m s -> wf m' s' ->
    snd (df_sampling s x T p rm) = snd (df_sampling s' x T p rm).
  Proof.
    intros W W'. unfold Model.df_sampling.
    rewrite (matrix_eq_any m m' s s' (cond_x x T g0) W W').
    pose proof (local_eq_phases [0%nat] (cond_x x T g0) (mat_cs s') (wf_mat _ _ W')) as HP.
    pose proof (local_eq_phases [0%nat] (cond_x x T g0) (mat_cs s) (wf_mat _ _ W)) as HP0.
    rewrite (matrix_eq_any m m' s s' (cond_x x T g0) W W') in HP0.
    destruct (local_eq [0%nat] (cond_x x T g0) (mat_cs s')) as [res mcs]. simpl in *.
    destruct (is_nan res); [reflexivity|].
    pose proof (prec_sample_value m (set_mat s (Some mcs)) T res p (wf_set_mat m s mcs W HP0)) as V1.
    pose proof (prec_sample_value m' (set_mat s' (Some mcs)) T res p (wf_set_mat m' s' mcs W' HP)) as V2.
    destruct (prec_sample (set_mat s (Some mcs)) T res p) as [s2 [dg pcs]].
    destruct (prec_sample (set_mat s' (Some mcs)) T res p) as [s2' [dg' pcs']].
    simpl in V1, V2. rewrite <- V2 in V1. inversion V1; subst. reflexivity.
  Qed.

  Lemma df_sampling_wf m (s : tstate) x T p rm : wf m s -> wf m (fst (df_sampling s x T p rm)).
  Proof.
    intros W. unfold Model.df_sampling.
    pose proof (local_eq_phases [0%nat] (cond_x x T g0) (mat_cs s) (wf_mat _ _ W)) as HP.
    destruct (local_eq [0%nat] (cond_x x T g0) (mat_cs s)) as [res mcs]. simpl in *.
    pose proof (wf_set_mat m s mcs W HP) as W1.
    destruct (is_nan res); [exact W1|].
    pose proof (prec_sample_state m (set_mat s (Some mcs)) T res p W1) as [W2 _].
    destruct (prec_sample (set_mat s (Some mcs)) T res p) as [s2 [dg pcs]]. simpl in *.
    apply wf_reset. exact W2.
  Qed.

  (* ---- driving force by the parallel tangent ---- *)
  Lemma df_tangent_wf (s : tstate) x T p rm : wf Tangent s -> wf Tangent (fst (df_tangent s x T p rm)).
  Proof.
    intros W. unfold Model.df_tangent.
    pose proof (local_eq_phases [0%nat] (cond_x x T g0) (mat_cs s) (wf_mat _ _ W)) as HP.
    destruct (local_eq [0%nat] (cond_x x T g0) (mat_cs s)) as [res mcs]. simpl in HP.
    pose proof (wf_set_mat Tangent s mcs W HP) as W1.
    destruct (is_nan res); [exact W1|].
    set (s1 := set_mat s (Some mcs)) in *.
    assert (H2 : let (s2, start) :=
                   match aget p (df_cs s1) with
                   | Some l => (s1, l)
                   | None => let '(s', (_, pcs)) := prec_sample s1 T res p in
                             (set_df s' (aset p (Some [pcs]) (df_cs s')), [pcs])
                   end in wf Tangent s2 /\ phs start = [p]).
    { destruct (aget p (df_cs s1)) as [l|] eqn:A.
      - split; [exact W1 | exact (wf_df _ _ W1 _ _ A)].
      - pose proof (prec_sample_state Tangent s1 T res p W1) as [W2 _].
        pose proof (prec_sample_value Tangent s1 T res p W1) as V.
        destruct (prec_sample s1 T res p) as [s' [dg pcs]]. simpl in *.
        destruct (best (sample p T) res) as [dg0 y0]. inversion V; subst.
        split; [apply wf_set_df_some; [exact W2 | reflexivity] | reflexivity]. }
    destruct (match aget p (df_cs s1) with
              | Some l => (s1, l)
              | None => let '(s', (_, pcs)) := prec_sample s1 T res p in
                        (set_df s' (aset p (Some [pcs]) (df_cs s')), [pcs])
              end) as [s2 start]. destruct H2 as [W2 Hst].
    pose proof (local_eq_phases [p] (cond_mu res T) (Some start) Hst) as HPp.
    destruct (local_eq [p] (cond_mu res T) (Some start)) as [pres pcs]. simpl in HPp.
    pose proof (wf_set_df_some Tangent s2 p pcs W2 HPp) as W3.
    destruct (is_nan pres); [exact W3|].
    destruct pcs as [|c0 r]; [exact W3|].
    destruct (same_comp c0 mcs).
    - apply df_sampling_wf. apply wf_set_df_none. exact W3.
    - apply wf_reset. exact W3.
  Qed.

  Lemma df_tangent_history (s s' : tstate) x T p rm : wf Tangent s -> wf Tangent s' ->
    snd (df_tangent s x T p rm) = snd (df_tangent s' x T p rm).
  Proof.
    intros W W'. unfold Model.df_tangent.
    rewrite (matrix_eq_any _ _ s s' (cond_x x T g0) W W').
    pose proof (local_eq_phases [0%nat] (cond_x x T g0) (mat_cs s') (wf_mat _ _ W')) as HP.
    destruct (local_eq [0%nat] (cond_x x T g0) (mat_cs s')) as [res mcs]. simpl in HP.
    pose proof (wf_set_mat Tangent s mcs W HP) as W1. pose proof (wf_set_mat Tangent s' mcs W' HP) as W1'.
    destruct (is_nan res); [reflexivity|].
    set (s1 := set_mat s (Some mcs)) in *. set (s1' := set_mat s' (Some mcs)) in *.
    (* the state and start list after the "find a precipitate set" step, on both sides *)
    assert (H2 : forall (u : tstate), wf Tangent u ->
               let (s2, start) :=
                   match aget p (df_cs u) with
                   | Some l => (u, l)
                   | None => let '(s', (_, pcs)) := prec_sample u T res p in
                             (set_df s' (aset p (Some [pcs]) (df_cs s')), [pcs])
                   end in wf Tangent s2 /\ phs start = [p]).
    { intros u Wu. destruct (aget p (df_cs u)) as [l|] eqn:A.
      - split; [exact Wu | exact (wf_df _ _ Wu _ _ A)].
      - pose proof (prec_sample_state Tangent u T res p Wu) as [W2 _].
        pose proof (prec_sample_value Tangent u T res p Wu) as V.
        destruct (prec_sample u T res p) as [u' [dg pcs]]. simpl in *.
        destruct (best (sample p T) res) as [dg0 y0]. inversion V; subst.
        split; [apply wf_set_df_some; [exact W2 | reflexivity] | reflexivity]. }
    pose proof (H2 s1 W1) as A1. pose proof (H2 s1' W1') as A1'. clear H2.
    destruct (match aget p (df_cs s1) with
              | Some l => (s1, l)
              | None => let '(s', (_, pcs)) := prec_sample s1 T res p in
                        (set_df s' (aset p (Some [pcs]) (df_cs s')), [pcs])
              end) as [s2 start].
    destruct (match aget p (df_cs s1') with
              | Some l => (s1', l)
              | None => let '(s', (_, pcs)) := prec_sample s1' T res p in
                        (set_df s' (aset p (Some [pcs]) (df_cs s')), [pcs])
              end) as [s2' start'].
    destruct A1 as [W2 Hst]. destruct A1' as [W2' Hst'].
    rewrite (local_eq_any [p] (cond_mu res T) (Some start) (Some start') Hst Hst').
    pose proof (local_eq_phases [p] (cond_mu res T) (Some start') Hst') as HPp.
    destruct (local_eq [p] (cond_mu res T) (Some start')) as [pres pcs]. simpl in HPp.
    destruct (is_nan pres); [reflexivity|].
    destruct pcs as [|c0 r]; [reflexivity|].
    destruct (same_comp c0 mcs); [|reflexivity].
    apply (df_sampling_history Tangent Tangent); apply wf_set_df_none; apply wf_set_df_some; assumption.
  Qed.

  (* ---- approximate method: needs the points to be in the two-phase region ---- *)
  Definition two_phase (x : X) (T : Tm) (p : Ph) : Prop :=
    p <> 0%nat /\
    let (mu, l) := global_eq x T gOff p in
    is_nan mu = false /\ (exists cm, pick 0%nat l = Some cm) /\ (exists cp, pick p l = Some cp) /\ gap p l = false.

  Hypothesis global_is_local : forall x T p (l0 : list cset), two_phase x T p -> phs l0 = [0%nat; p] ->
    let (mu, l) := global_eq x T gOff p in
    forall cm cp, pick 0%nat l = Some cm -> pick p l = Some cp ->
      local_eq [0%nat; p] (cond_x x T gOff) (Some l0) = (mu, [cm; cp]) /\ cs_ph cm = 0%nat /\ cs_ph cp = p.

  Lemma pick_two p (cm cp : cset) : p <> 0%nat -> cs_ph cm = 0%nat -> cs_ph cp = p ->
    pick 0%nat [cm; cp] = Some cm /\ pick p [cm; cp] = Some cp /\ gap p [cm; cp] = false.
  Proof.
    intros Hp Hm Hc. unfold pick, gap, count_ph. simpl. rewrite Hm, Hc.
    destruct p as [|p']; [contradiction|]. simpl. rewrite Nat.eqb_refl. simpl. repeat split; reflexivity.
  Qed.

  Lemma compsets_eq_history x T p (l0 : list cset) : two_phase x T p -> phs l0 = [0%nat; p] ->
    compsets_eq (Some l0) x T p = compsets_eq None x T p.
  Proof.
    intros TP Hl0. pose proof (global_is_local x T p l0 TP Hl0) as GL.
    destruct TP as [Hp TP]. unfold Model.compsets_eq.
    destruct (global_eq x T gOff p) as [mu l].
    destruct TP as (Hnan & [cm Hcm] & [cp Hcp] & Hgap).
    destruct (GL cm cp Hcm Hcp) as (E & Hm & Hc). rewrite E, Hnan, Hcm, Hcp, Hgap.
    destruct (pick_two p cm cp Hp Hm Hc) as (P1 & P2 & P3). rewrite P1, P2, P3. reflexivity.
  Qed.

  Lemma compsets_eq_shape x T p o : two_phase x T p -> okstart [0%nat; p] o ->
    exists mu cm cp, compsets_eq o x T p = Some (mu, Some cm, Some cp) /\ phs [cm; cp] = [0%nat; p].
  Proof.
    intros TP Ho.
    assert (E : compsets_eq o x T p = compsets_eq None x T p).
    { destruct o as [l0|]; [apply compsets_eq_history; assumption | reflexivity]. }
    rewrite E. pose proof (global_is_local x T p) as GL.
    destruct TP as [Hp TP]. unfold Model.compsets_eq.
    assert (TP' : two_phase x T p) by (split; assumption).
    destruct (global_eq x T gOff p) as [mu l] eqn:EG.
    destruct TP as (Hnan & [cm Hcm] & [cp Hcp] & Hgap).
    rewrite Hnan, Hcm, Hcp, Hgap. exists mu, cm, cp. split; [reflexivity|].
    specialize (GL [mkcs 0%nat T gOff (cs_y cm); mkcs p T gOff (cs_y cp)] TP' eq_refl).
    destruct (GL cm cp Hcm Hcp) as (_ & Hm & Hc). simpl. rewrite Hm, Hc. reflexivity.
  Qed.

  Lemma df_approx_history (s s' : tstate) x T p rm : wf Approx s -> wf Approx s' -> two_phase x T p ->
    snd (df_approx s x T p rm) = snd (df_approx s' x T p rm).
  Proof.
    intros W W' TP. unfold Model.df_approx.
    assert (O : okstart [0%nat; p] (aget p (df_cs s))).
    { destruct (aget p (df_cs s)) eqn:A; simpl; [exact (wf_df _ _ W _ _ A) | exact I]. }
    assert (O' : okstart [0%nat; p] (aget p (df_cs s'))).
    { destruct (aget p (df_cs s')) eqn:A; simpl; [exact (wf_df _ _ W' _ _ A) | exact I]. }
    assert (E : compsets_eq (aget p (df_cs s)) x T p = compsets_eq (aget p (df_cs s')) x T p).
    { transitivity (compsets_eq None x T p).
      - destruct (aget p (df_cs s)); [apply compsets_eq_history; assumption | reflexivity].
      - destruct (aget p (df_cs s')); [symmetry; apply compsets_eq_history; assumption | reflexivity]. }
    rewrite E. destruct (compsets_eq_shape x T p _ TP O') as (mu & cm & cp & -> & Hph).
    cbn [mat_cs set_df].
    rewrite (matrix_eq_any Approx Approx s s' (cond_x x T g0) W W').
    destruct (local_eq [0%nat] (cond_x x T g0) (mat_cs s')) as [res mcs].
    destruct (is_nan res); reflexivity.
  Qed.

  Lemma df_approx_wf (s : tstate) x T p rm : wf Approx s -> two_phase x T p -> wf Approx (fst (df_approx s x T p rm)).
  Proof.
    intros W TP. unfold Model.df_approx.
    assert (O : okstart [0%nat; p] (aget p (df_cs s))).
    { destruct (aget p (df_cs s)) eqn:A; simpl; [exact (wf_df _ _ W _ _ A) | exact I]. }
    destruct (compsets_eq_shape x T p _ TP O) as (mu & cm & cp & -> & Hph).
    pose proof (wf_set_df_some Approx s p [cm; cp] W Hph) as W0.
    pose proof (local_eq_phases [0%nat] (cond_x x T g0) _ (wf_mat _ _ W0)) as HP.
    destruct (local_eq [0%nat] (cond_x x T g0) (mat_cs (set_df s (aset p (Some [cm; cp]) (df_cs s))))) as [res mcs].
    simpl in HP. pose proof (wf_set_mat Approx _ mcs W0 HP) as W1.
    destruct (is_nan res); [exact W1 | apply wf_reset; exact W1].
  Qed.

  (* ---- what is cached per temperature is keyed by the EXACT temperature ---- *)
  (* the sampled driving force at T is evaluated on the samples of T, and the samples left in the cache are those of T,
     whatever temperature (equal, close or far) the cache held before *)
  Lemma prec_sample_cache m (s : tstate) T mu p : wf m s ->
    aget p (pts (fst (prec_sample s T mu p))) = Some (T, sample p T).
  Proof.
    intros W. unfold Model.prec_sample.
    destruct (aget p (pts s)) as [[T' sm]|] eqn:A.
    - destruct (Tm_eqb T' T) eqn:E.
      + apply Tm_eqb_spec in E. subst T'. destruct (best sm mu). cbn [fst]. rewrite A.
        rewrite (wf_pts _ _ W _ _ _ A). reflexivity.
      + destruct (best (sample p T) mu). csimpl. rewrite aget_aset, Nat.eqb_refl. reflexivity.
    - destruct (best (sample p T) mu). csimpl. rewrite aget_aset, Nat.eqb_refl. reflexivity.
  Qed.

  (* frame of the sampling step, no hypothesis *)
  Lemma prec_sample_frame (s : tstate) T mu p :
    df_cs (fst (prec_sample s T mu p)) = df_cs s /\ mat_cs (fst (prec_sample s T mu p)) = mat_cs s.
  Proof.
    unfold Model.prec_sample.
    destruct (aget p (pts s)) as [[T' sm]|]; [destruct (Tm_eqb T' T)|]; destruct (best _ mu); split; reflexivity.
  Qed.

  Lemma df_sampling_df_cs (s : tstate) x T p : df_cs (fst (df_sampling s x T p false)) = df_cs s.
  Proof.
    unfold Model.df_sampling.
    destruct (local_eq [0%nat] (cond_x x T g0) (mat_cs s)) as [res mcs].
    destruct (is_nan res); [reflexivity|].
    pose proof (prec_sample_frame (set_mat s (Some mcs)) T res p) as [F _].
    destruct (prec_sample (set_mat s (Some mcs)) T res p) as [s2 [dg pcs]]. cbn [fst] in *.
    unfold reset_df. exact F.
  Qed.

  (* a precipitate composition set that stays cached after an answered tangent query (cached equilibria kept) is never one
     that this query found collapsed onto the matrix composition: such a set is dropped before falling back on sampling *)
  Lemma tangent_never_caches_collapsed (s s' : tstate) x T p v c0 rest mcs :
    df_tangent s x T p false = (s', Some v) ->
    aget p (df_cs s') = Some (c0 :: rest) -> mat_cs s' = Some mcs ->
    same_comp c0 mcs = false.
  Proof.
    unfold Model.df_tangent.
    destruct (local_eq [0%nat] (cond_x x T g0) (mat_cs s)) as [res mcs0].
    destruct (is_nan res); [intros H; inversion H|].
    set (s1 := set_mat s (Some mcs0)).
    assert (F2 : forall u start,
               match aget p (df_cs s1) with
               | Some l => (s1, l)
               | None => let '(s'0, (_, pcs)) := prec_sample s1 T res p in
                         (set_df s'0 (aset p (Some [pcs]) (df_cs s'0)), [pcs])
               end = (u, start) -> mat_cs u = Some mcs0).
    { intros u start. destruct (aget p (df_cs s1)) as [l|].
      - intros H; inversion H; subst. reflexivity.
      - pose proof (prec_sample_frame s1 T res p) as [_ Fm].
        destruct (prec_sample s1 T res p) as [u' [dg pcs]]. cbn [fst] in Fm.
        intros H; inversion H; subst. csimpl. rewrite Fm. reflexivity. }
    destruct (match aget p (df_cs s1) with
              | Some l => (s1, l)
              | None => let '(s'0, (_, pcs)) := prec_sample s1 T res p in
                        (set_df s'0 (aset p (Some [pcs]) (df_cs s'0)), [pcs])
              end) as [s2 start] eqn:E2.
    specialize (F2 s2 start eq_refl).
    destruct (local_eq [p] (cond_mu res T) (Some start)) as [pres pcs].
    destruct (is_nan pres); [intros H; inversion H|].
    destruct pcs as [|c1 r]; [intros H; inversion H|].
    destruct (same_comp c1 mcs0) eqn:SC.
    - (* collapsed: the set is dropped, then sampling *)
      intros H A _.
      assert (Es : s' = fst (df_sampling (set_df (set_df s2 (aset p (Some (c1 :: r)) (df_cs s2)))
                                                  (aset p None (df_cs (set_df s2 (aset p (Some (c1 :: r)) (df_cs s2)))))) x T p false))
        by (rewrite H; reflexivity).
      rewrite Es, df_sampling_df_cs in A. csimpl in A. rewrite aget_aset, Nat.eqb_refl in A. discriminate.
    - unfold reset_df. intros H A M. apply (f_equal fst) in H. cbn [fst] in H. subst s'. csimpl in A. csimpl in M.
      rewrite aget_aset, Nat.eqb_refl in A. inversion A; subst.
      rewrite F2 in M. inversion M; subst. exact SC.
  Qed.

  (* ---- curvature factors ---- *)
  Lemma wf_set_curv m (s : tstate) p (o : option (list cset)) : wf m s -> okstart [0%nat; p] o ->
    wf m (set_curv s (aset p o (curv_cs s))).
  Proof.
    intros W H. constructor; csimpl; try apply W.
    intros q l. rewrite aget_aset. destruct (Nat.eqb p q) eqn:E.
    - apply Nat.eqb_eq in E. subst q. destruct o as [l0|]; [|discriminate]. intros H'; inversion H'; subst. exact H.
    - apply W.
  Qed.

  Lemma wf_set_curv_out m (s : tstate) v : wf m s -> wf m (set_curv_out s v).
  Proof. intros W. constructor; csimpl; apply W. Qed.

  Lemma curv_okstart m (s : tstate) p : wf m s -> okstart [0%nat; p] (aget p (curv_cs s)).
  Proof. intros W. destruct (aget p (curv_cs s)) eqn:A; simpl; [exact (wf_curv _ _ W _ _ A) | exact I]. Qed.

  Lemma curvature_history m m' (s s' : tstate) x T p rm : wf m s -> wf m' s' -> two_phase x T p ->
    snd (curvature s x T p rm) = snd (curvature s' x T p rm).
  Proof.
    intros W W' TP. unfold Model.curvature.
    pose proof (curv_okstart m s p W) as O. pose proof (curv_okstart m' s' p W') as O'.
    assert (E : compsets_eq (aget p (curv_cs s)) x T p = compsets_eq (aget p (curv_cs s')) x T p).
    { transitivity (compsets_eq None x T p).
      - destruct (aget p (curv_cs s)); [apply compsets_eq_history; assumption | reflexivity].
      - destruct (aget p (curv_cs s')); [symmetry; apply compsets_eq_history; assumption | reflexivity]. }
    rewrite E. destruct (compsets_eq_shape x T p _ TP O') as (mu & cm & cp & -> & Hph). reflexivity.
  Qed.

  Lemma curvature_wf m (s : tstate) x T p rm : wf m s -> two_phase x T p -> wf m (fst (curvature s x T p rm)).
  Proof.
    intros W TP. unfold Model.curvature.
    pose proof (curv_okstart m s p W) as O.
    destruct (compsets_eq_shape x T p _ TP O) as (mu & cm & cp & -> & Hph).
    cbn [fst]. apply wf_set_curv_out.
    set (s0 := match aget p (curv_cs s) with
               | Some l0 => set_curv s (aset p (Some (snd (local_eq [0%nat; p] (cond_x x T gOff) (Some l0)))) (curv_cs s))
               | None => s end).
    assert (W0 : wf m s0).
    { unfold s0. destruct (aget p (curv_cs s)) as [l0|] eqn:A; [|exact W].
      apply wf_set_curv; [exact W|].
      exact (local_eq_phases [0%nat; p] (cond_x x T gOff) (Some l0) (wf_curv _ _ W _ _ A)). }
    apply wf_set_curv; [exact W0|]. destruct rm; simpl; [exact I | exact Hph].
  Qed.

  (* removeCache = True: the answer is computed from the equilibrium of THIS call or is None - never a
     stored earlier result - and nothing is left in the curvature cache of the phase.
     (No hypothesis about pycalphad, any state, any point.) *)
  Lemma curvature_remove_cache (s : tstate) x T p :
    snd (curvature s x T p true) =
      match compsets_eq (aget p (curv_cs s)) x T p with
      | Some (mu, Some cm, Some cp) => Some (cval mu cm cp)
      | _ => None
      end /\
    aget p (curv_cs (fst (curvature s x T p true))) = None.
  Proof.
    unfold Model.curvature.
    destruct (compsets_eq (aget p (curv_cs s)) x T p) as [[[mu [cm|]] [cp|]]|]; csimpl;
      rewrite ?aget_aset, ?Nat.eqb_refl; csimpl; rewrite ?aget_aset, ?Nat.eqb_refl; split; reflexivity.
  Qed.

  (* removeCache = False outside the two-phase region: the deliberate fall-back on the previous result *)
  Lemma curvature_fallback (s : tstate) x T p l0 :
    aget p (curv_cs s) = Some l0 ->
    (forall mu cm cp, compsets_eq (Some l0) x T p <> Some (mu, Some cm, Some cp)) ->
    snd (curvature s x T p false) = aget p (curv_out s).
  Proof.
    intros A Hinv. unfold Model.curvature. rewrite A.
    destruct (compsets_eq (Some l0) x T p) as [[[mu [cm|]] [cp|]]|] eqn:E;
      try (exfalso; eapply Hinv; reflexivity); csimpl; rewrite aget_aset, Nat.eqb_refl; reflexivity.
  Qed.

  (* ---- histories ---- *)
  (* queries inside the domain of the statement: driving forces by the approximate method only at
     points of the two-phase region *)
  Definition in_domain (m : method) (q : query) : Prop :=
    match q, m with
    | QDF x T p _, Approx => two_phase x T p
    | QCurv x T p _, _ => two_phase x T p
    | _, _ => True
    end.

  Definition wfo (o : obj) : Prop := wf (fst o) (snd o).

  Lemma wf_change_method m m' (s : tstate) : wf m s -> wf m' (set_df s []).
  Proof. intros W. constructor; csimpl; try apply W. discriminate. Qed.

  Lemma wf_clear m (s : tstate) : wf m (clear_cache s).
  Proof. constructor; csimpl; try discriminate. exact I. Qed.

  Lemma run1_wf (o : obj) q : wfo o -> in_domain (fst o) q -> wfo (fst (run1 o q)).
  Proof.
    destruct o as [m s]. unfold wfo. simpl. intros W D.
    destruct q as [x T p rm|x T p rm|x T p rm|x T p rm| |m']; simpl.
    - destruct m; simpl in D.
      + pose proof (df_tangent_wf s x T p rm W). destruct (df_tangent s x T p rm). exact H.
      + pose proof (df_sampling_wf Sampling s x T p rm W). destruct (df_sampling s x T p rm). exact H.
      + pose proof (df_approx_wf s x T p rm W D). destruct (df_approx s x T p rm). exact H.
    - pose proof (diffusivity_wf dval m s x T rm p W) as H. unfold interdiff.
      destruct (diffusivity dval s x T rm p). exact H.
    - pose proof (diffusivity_wf tval m s x T rm p W) as H. unfold tracer.
      destruct (diffusivity tval s x T rm p). exact H.
    - assert (TP : two_phase x T p) by (destruct m; exact D).
      pose proof (curvature_wf m s x T p rm W TP) as H. destruct (curvature s x T p rm). exact H.
    - apply wf_clear.
    - apply (wf_change_method m m'). exact W.
  Qed.

  (* one query, two objects with the same configured method and arbitrary (well-formed) caches *)
  Lemma run1_history m (s s' : tstate) q : wf m s -> wf m s' -> in_domain m q ->
    snd (run1 (m, s) q) = snd (run1 (m, s') q).
  Proof.
    intros W W' D. destruct q as [x T p rm|x T p rm|x T p rm|x T p rm| |m']; simpl; try reflexivity.
    - destruct m; simpl in D.
      + pose proof (df_tangent_history s s' x T p rm W W') as H.
        destruct (df_tangent s x T p rm), (df_tangent s' x T p rm). simpl in *. congruence.
      + pose proof (df_sampling_history Sampling Sampling s s' x T p rm W W') as H.
        destruct (df_sampling s x T p rm), (df_sampling s' x T p rm). simpl in *. congruence.
      + pose proof (df_approx_history s s' x T p rm W W' D) as H.
        destruct (df_approx s x T p rm), (df_approx s' x T p rm). simpl in *. congruence.
    - pose proof (diffusivity_history dval m m s s' x T rm p W W') as H. unfold interdiff.
      destruct (diffusivity dval s x T rm p), (diffusivity dval s' x T rm p). simpl in *. congruence.
    - pose proof (diffusivity_history tval m m s s' x T rm p W W') as H. unfold tracer.
      destruct (diffusivity tval s x T rm p), (diffusivity tval s' x T rm p). simpl in *. congruence.
    - assert (TP : two_phase x T p) by (destruct m; exact D).
      pose proof (curvature_history m m s s' x T p rm W W' TP) as H.
      destruct (curvature s x T p rm), (curvature s' x T p rm). simpl in *. congruence.
  Qed.

  (* every query of a history is inside the domain when it is made *)
  Fixpoint history_ok (o : obj) (qs : list query) : Prop :=
    match qs with
    | [] => True
    | q :: r => in_domain (fst o) q /\ history_ok (fst (run1 o q)) r
    end.

  Lemma run_wf qs : forall o, wfo o -> history_ok o qs -> wfo (fst (run o qs)).
  Proof.
    induction qs as [|q r IH]; intros o W H; simpl; [exact W|].
    destruct H as [D H]. pose proof (run1_wf o q W D) as W1.
    destruct (run1 o q) as [o1 a]. simpl in *. specialize (IH o1 W1 H).
    destruct (run o1 r) as [o2 as_]. exact IH.
  Qed.

  Lemma run_cons (o : obj) q r :
    run o (q :: r) = (let (o1, a) := run1 o q in let (o2, as_) := run o1 r in (o2, a :: as_)).
  Proof. reflexivity. Qed.

  Lemma run1_method (o : obj) q : fst (fst (run1 o q)) = match q with QMethod m' => m' | _ => fst o end.
  Proof.
    destruct o as [m s]. destruct q as [x T p rm|x T p rm|x T p rm|x T p rm| |m']; simpl; try reflexivity.
    - destruct m; [destruct (df_tangent s x T p rm) | destruct (df_sampling s x T p rm) | destruct (df_approx s x T p rm)]; reflexivity.
    - unfold interdiff. destruct (diffusivity dval s x T rm p); reflexivity.
    - unfold tracer. destruct (diffusivity tval s x T rm p); reflexivity.
    - destruct (curvature s x T p rm); reflexivity.
  Qed.

  (* THE statement: the answer to a query does not depend on the history of queries made before it
     (orders, repetitions, temperature jumps, removeCache on or off, clearCache, changes of method),
     as long as the object ends up configured with the same method *)
  Lemma history_independent m0 (h h' : list query) q :
    history_ok (obj_init m0) h -> history_ok (obj_init m0) h' ->
    let o := fst (run (obj_init m0) h) in
    let o' := fst (run (obj_init m0) h') in
    fst o = fst o' -> in_domain (fst o) q ->
    snd (run1 o q) = snd (run1 o' q).
  Proof.
    intros H H' o o' Em D.
    pose proof (run_wf h (obj_init m0) (wf_init m0) H) as W.
    pose proof (run_wf h' (obj_init m0) (wf_init m0) H') as W'.
    fold o in W. fold o' in W'. destruct o as [m s], o' as [m' s']. simpl in *. subst m'.
    apply run1_history; assumption.
  Qed.

  (* repeating a call gives the same answer *)
  Lemma repeat_same (o : obj) q : wfo o -> in_domain (fst o) q -> (forall m', q <> QMethod m') ->
    snd (run1 (fst (run1 o q)) q) = snd (run1 o q).
  Proof.
    intros W D Hq. pose proof (run1_wf o q W D) as W1.
    assert (Em : fst (fst (run1 o q)) = fst o).
    { rewrite run1_method. destruct q; try reflexivity. exfalso. eapply Hq; reflexivity. }
    destruct o as [m s]. destruct (run1 (m, s) q) as [[m1 s1] a] eqn:E1.
    cbn [fst snd] in *. subst m1. unfold wfo in *. cbn [fst snd] in *.
    rewrite (run1_history m s1 s q W1 W D). rewrite E1. reflexivity.
  Qed.
End ThermoProofs.
