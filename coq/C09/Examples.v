(* C09 - non-vacuity examples and refutation witnesses. *)
From Coq Require Import ZArith QArith List Bool Lia.
Require Import Kawin.C09.Model Kawin.C09.Proofs Kawin.C09.ProofsC.
Import ListNotations.

(* ========================================================================================== *)
(* A. composition cache *)

(* the docstring example of setHashSensitivity: (0.5693, 0.2937) at 900 K *)
Example key_example : key 4 [5693 # 10000; 2937 # 10000] 900 = [5693; 2937; 9000000]%Z
                   /\ key 3 [5693 # 10000; 2937 # 10000] 900 = [569; 293; 900000]%Z
                   /\ key (-2) [5693 # 10000] 950 = [0; 9]%Z
                   /\ key 7 [1 # 10] 900 = [1000000; 9000000000]%Z.
Proof. vm_compute. repeat split; reflexivity. Qed.

(* a history: store, hit on a point with the same key, miss on another temperature, switch off, on,
   change of precision *)
Definition ex_ops : list (op Z) := [Add [1 # 10] 900 11%Z; Add [2 # 10] 900 22%Z].
Example cache_example :
  let c := exec ex_ops cache_init in
  retrieve c [100004 # 1000000] (9000000001 # 10000000) = Some 11%Z /\     (* same key *)
  retrieve c [1 # 10] 901 = None /\
  retrieve (step c (Enable false)) [1 # 10] 900 = None /\
  retrieve (step (step c (Enable false)) (Enable true)) [1 # 10] 900 = Some 11%Z /\
  retrieve (step c (SetSens 5)) [1 # 10] 900 = None /\
  length (c_store (step c (Add [1 # 10] 900 33%Z))) = 2%nat /\
  retrieve (step c (Add [1 # 10] 900 33%Z)) [1 # 10] 900 = Some 33%Z.
Proof. vm_compute. repeat split; reflexivity. Qed.

(* the hypothesis of C09_cached_nodes_sound is met by the empty table and the loop does reuse values *)
Example nodes_example :
  let f := fun (x : list Q) (T : Q) => (scaled 6 (hd 0 x), scaled 6 T) in
  snd (cached_nodes f cache_init [([1 # 10], 900); ([100004 # 1000000], 900); ([2 # 10], 900)])
  = [(100000, 900000000); (100000, 900000000); (200000, 900000000)]%Z.
Proof. vm_compute. reflexivity. Qed.

(* ---- what the unrepaired code did: each clause of the cache statement is refuted ---- *)

(* enableCaching(False) had no effect (`is None` tests) *)
Example legacy_disable_refuted :
  exists (ops : list (op Z)) x T v,
    c_on (exec_legacy ops cache_init) = false /\ retrieve_legacy (exec_legacy ops cache_init) x T = Some v.
Proof. exists [Enable false; Add [1 # 10] 900 7%Z], [1 # 10], 900, 7%Z. vm_compute. split; reflexivity. Qed.

(* int32 keys: at 7 digits every temperature has the key -2^31: a value stored at 900 K is returned
   at 1200 K, 3 * 10^9 units of the last digit away *)
Example legacy_overflow_refuted :
  exists (ops : list (op Z)) x T T' v,
    retrieve_legacy (exec_legacy ops cache_init) x T' = Some v /\
    In (Add x T v) ops /\ key 7 x T <> key 7 x T' /\ c_sens (exec_legacy ops cache_init) = 7%Z.
Proof.
  exists [SetSens 7; Add [1 # 10] 900 7%Z], [1 # 10], 900, 1200, 7%Z. vm_compute.
  repeat split; try reflexivity; [right; left; reflexivity | discriminate].
Qed.

(* ... the repaired key keeps them apart, at every precision (C09_same_key_close) *)
Example overflow_repaired :
  retrieve (exec [SetSens 7; Add [1 # 10] 900 7%Z] cache_init) [1 # 10] 1200 = None /\
  retrieve (exec [SetSens 7; Add [1 # 10] 900 7%Z] cache_init) [1 # 10] 900 = Some 7%Z /\
  retrieve (exec [SetSens 30; Add [1 # 10] 900 7%Z] cache_init) [1 # 10] (900 + (1 # 10 ^ 29)) = None.
Proof. vm_compute. repeat split; reflexivity. Qed.

(* setHashSensitivity kept the entries: a value stored for (0.3, 3000 K) at 3 digits was returned for
   (0.03, 300 K) at 4 digits *)
Example legacy_sens_refuted :
  exists (ops : list (op Z)) x T x' T' v,
    retrieve_legacy (exec_legacy ops cache_init) x' T' = Some v /\
    (forall y U w, In (Add y U w) ops -> y = x /\ U = T) /\
    key (c_sens (exec_legacy ops cache_init)) x T <> key (c_sens (exec_legacy ops cache_init)) x' T'.
Proof.
  exists [SetSens 3; Add [3 # 10] 3000 7%Z; SetSens 4], [3 # 10], 3000, [3 # 100], 300, 7%Z.
  split; [vm_compute; reflexivity|]. split.
  - intros y U w [H|[H|[H|[]]]]; inversion H; split; reflexivity.
  - vm_compute. discriminate.
Qed.

(* ========================================================================================== *)
(* B. array wrappers *)

Example process_examples :
  (* binary: a 1-d array of compositions with one temperature *)
  process_xT true (Vec2 [1; 2; 3]%Z) (Sc1 7%Z) = Some ([[1]; [2]; [3]], [7; 7; 7])%Z /\
  (* binary: scalar composition, array of temperatures *)
  process_xT true (Sc2 1%Z) (Vec1 [7; 8]%Z) = Some ([[1]; [1]], [7; 8])%Z /\
  (* ternary: one composition, array of temperatures *)
  process_xT false (Vec2 [1; 2]%Z) (Vec1 [7; 8; 9]%Z) = Some ([[1; 2]; [1; 2]; [1; 2]], [7; 8; 9])%Z /\
  (* ternary: matrix of compositions, one temperature *)
  process_xT false (Mat2 [[1; 2]; [3; 4]]%Z) (Sc1 7%Z) = Some ([[1; 2]; [3; 4]], [7; 7])%Z /\
  (* incompatible lengths: ValueError *)
  process_xT false (Mat2 [[1; 2]; [3; 4]]%Z) (Vec1 [7; 8; 9]%Z) = None /\
  (* a (1,N) array of a binary system is transposed, an (N,1) array is not *)
  process_xT true (Mat2 [[1; 2; 3]]%Z) (Sc1 7%Z) = Some ([[1]; [2]; [3]], [7; 7; 7])%Z /\
  process_xT true (Mat2 [[1]; [2]; [3]]%Z) (Sc1 7%Z) = Some ([[1]; [2]; [3]], [7; 7; 7])%Z /\
  process_TG (Sc1 7%Z) (Vec1 [1; 2]%Z) = Some ([7; 7], [1; 2])%Z.
Proof. vm_compute. repeat split; reflexivity. Qed.

(* ========================================================================================== *)
(* C. cached composition sets: a concrete pycalphad stand-in that satisfies the three hypotheses,
   whose solver result DOES depend on the state variables carried by the composition sets it is given
   (so the refresh in local_equilibrium matters) *)
Definition zcs := cset Z Z Z.
Definition zcd := (Z * Z * Z)%type.                       (* (composition or matrix result, T, GE) *)
Definition z_cdT (cd : zcd) : Z := snd (fst cd).
Definition z_cdG (cd : zcd) : Z := snd cd.
Definition z_cond_x (x T g : Z) : zcd := (x, T, g).
Definition z_cond_mu (res T : Z) : zcd := (res, T, 0%Z).
Definition z_code (l : list zcs) : Z :=
  fold_right (fun c acc => (Z.of_nat (cs_ph c) * 7 + cs_T c * 11 + cs_g c * 13 + 3 * acc)%Z) 0%Z l.
Definition z_solve (cd : zcd) (l : list zcs) : Z * list zcs :=
  let r := (fst (fst cd) * 1000003 + z_cdT cd * 101 + z_cdG cd * 17 + z_code l)%Z in
  (r, map (fun c => mkcs (cs_ph c) (cs_T c) (cs_g c) (r + Z.of_nat (cs_ph c))%Z) l).
Definition z_naive (p : Ph) (T g : Z) : Z := (Z.of_nat p + 5)%Z.
Definition z_nan (r : Z) : bool := false.
Definition z_sample (p : Ph) (T : Z) : Z := (Z.of_nat p * 1009 + T)%Z.
Definition z_best (sm mu : Z) : Z * Z := ((sm + mu)%Z, (sm - mu)%Z).
Definition z_global (x T g : Z) (p : Ph) : Z * list zcs :=
  z_solve (z_cond_x x T g) [mkcs 0%nat T g 0%Z; mkcs p T g 0%Z].
Definition z_dval (r : Z) (l : list zcs) : Z := (r + z_code l)%Z.
Definition z_tval (r : Z) (l : list zcs) : Z := (2 * r + z_code l)%Z.
Definition z_gval (r : Z) : Z := r.
Definition z_xval (c : zcs) : Z := cs_y c.
Definition z_aval (c : zcs) (r mu : Z) : Z := (cs_y c + r - mu)%Z.
Definition z_same (c : zcs) (l : list zcs) : bool := false.
Definition z_cval (mu : Z) (cm cp : zcs) : Z := (mu + cs_y cm + 2 * cs_y cp)%Z.

Definition z_run := run (X := Z) Z.eqb z_cdT z_cdG z_cond_x z_cond_mu 0%Z 1%Z z_solve z_naive z_nan z_sample z_best
                        z_global z_dval z_tval z_gval z_xval z_aval z_same z_cval.
Definition z_run1 := run1 (X := Z) Z.eqb z_cdT z_cdG z_cond_x z_cond_mu 0%Z 1%Z z_solve z_naive z_nan z_sample z_best
                          z_global z_dval z_tval z_gval z_xval z_aval z_same z_cval.

(* the stand-in depends on stale state variables ... *)
Example z_solve_sees_state_variables :
  fst (z_solve (z_cond_x 4 700 0) [mkcs 0%nat 700 0 1]%Z) <> fst (z_solve (z_cond_x 4 700 0) [mkcs 0%nat 650 0 1]%Z).
Proof. vm_compute. discriminate. Qed.

(* ... but not on the internal degrees of freedom *)
Lemma z_start_independent : forall (cd : zcd) (l l' : list zcs),
  map cs_ph l = map cs_ph l' -> map cs_T l = map cs_T l' -> map cs_g l = map cs_g l' ->
  z_solve cd l = z_solve cd l'.
Proof.
  intros cd l l' H1 H2 H3.
  assert (E : z_code l = z_code l' /\
              forall r, map (fun c : zcs => mkcs (cs_ph c) (cs_T c) (cs_g c) (r + Z.of_nat (cs_ph c))%Z) l =
                        map (fun c : zcs => mkcs (cs_ph c) (cs_T c) (cs_g c) (r + Z.of_nat (cs_ph c))%Z) l').
  { revert l' H1 H2 H3. induction l as [|c l IH]; intros [|c' l'] H1 H2 H3; cbn [map] in H1, H2, H3; try discriminate.
    - split; reflexivity.
    - inversion H1; inversion H2; inversion H3. destruct (IH l' H4 H6 H8) as [E1 E2]. split.
      + change (z_code (c :: l)) with (Z.of_nat (cs_ph c) * 7 + cs_T c * 11 + cs_g c * 13 + 3 * z_code l)%Z.
        change (z_code (c' :: l')) with (Z.of_nat (cs_ph c') * 7 + cs_T c' * 11 + cs_g c' * 13 + 3 * z_code l')%Z.
        congruence.
      + intros r. cbn [map]. rewrite E2. congruence. }
  destruct E as [E1 E2]. unfold z_solve. rewrite E1, E2. reflexivity.
Qed.

Lemma z_keeps_phases : forall (cd : zcd) (l : list zcs), map cs_ph (snd (z_solve cd l)) = map cs_ph l.
Proof. intros cd l. unfold z_solve. simpl. rewrite map_map. reflexivity. Qed.

Lemma z_global_is_local : forall x T p (l0 : list zcs),
  two_phase Z Z Z Z Z 1%Z z_nan z_global x T p -> map cs_ph l0 = [0%nat; p] ->
  let (mu, l) := z_global x T 1%Z p in
  forall cm cp, pick 0%nat l = Some cm -> pick p l = Some cp ->
    local_eq z_cdT z_cdG z_solve z_naive [0%nat; p] (z_cond_x x T 1%Z) (Some l0) = (mu, [cm; cp]) /\
    cs_ph cm = 0%nat /\ cs_ph cp = p.
Proof.
  intros x T p l0 [Hp _] Hl0.
  assert (E : local_eq z_cdT z_cdG z_solve z_naive [0%nat; p] (z_cond_x x T 1%Z) (Some l0) = z_global x T 1%Z p).
  { unfold local_eq, z_global. apply z_start_independent.
    - rewrite map_map. simpl. exact Hl0.
    - rewrite map_map. simpl. destruct l0 as [|a [|b [|c r]]]; try discriminate. reflexivity.
    - rewrite map_map. simpl. destruct l0 as [|a [|b [|c r]]]; try discriminate. reflexivity. }
  rewrite E. unfold z_global, z_solve. cbn [map cs_ph cs_T cs_g].
  intros cm cp. unfold pick. cbn [filter cs_ph]. rewrite Nat.eqb_refl.
  destruct p as [|p']; [contradiction|]. cbn [Nat.eqb]. rewrite Nat.eqb_refl.
  intros H1 H2. inversion H1; inversion H2; subst. repeat split; reflexivity.
Qed.

(* two different histories, the same final query: same answer (computed), as C09_history_independent
   says (instantiated below) *)
Definition z_h1 : list (query Z Z) :=
  [QDF 4 673 1%nat false; QInter 4 673 0%nat false; QCurv 4 673 1%nat false; QDF 8 700 1%nat false; QDF 4 650 2%nat false; QTracer 2 800 0%nat false]%Z.
Definition z_h2 : list (query Z Z) :=
  [QInter 9 900 0%nat true; QDF 1 500 2%nat true; QCurv 9 900 2%nat true; QClear; QMethod Sampling; QDF 3 600 1%nat false; QMethod Tangent]%Z.

Example z_histories :
  snd (z_run1 (fst (z_run (obj_init Tangent) z_h1)) (QDF 4 673 1%nat false)%Z) =
  snd (z_run1 (fst (z_run (obj_init Tangent) z_h2)) (QDF 4 673 1%nat false)%Z)
  /\ snd (z_run1 (fst (z_run (obj_init Tangent) z_h1)) (QInter 4 700 0%nat false)%Z) =
     snd (z_run1 (obj_init Tangent) (QInter 4 700 0%nat false)%Z)
  /\ (* the caches are not empty after the first history: the statement is not vacuous *)
     mat_cs (snd (fst (z_run (obj_init Tangent) z_h1))) <> None
  /\ aget 1%nat (df_cs (snd (fst (z_run (obj_init Tangent) z_h1)))) <> None
  /\ aget 0%nat (diff_cs (snd (fst (z_run (obj_init Tangent) z_h1)))) <> None
  /\ aget 1%nat (curv_cs (snd (fst (z_run (obj_init Tangent) z_h1)))) <> None
  /\ snd (z_run1 (fst (z_run (obj_init Tangent) z_h1)) (QCurv 7 700 1%nat false)%Z) =
     snd (z_run1 (fst (z_run (obj_init Tangent) z_h2)) (QCurv 7 700 1%nat false)%Z).
Proof. vm_compute. repeat split; try reflexivity; discriminate. Qed.

(* the theorem instantiated on the stand-in: all three hypotheses are discharged *)
Example z_history_independent m0 (h h' : list (query Z Z)) (q : query Z Z) :=
  history_independent Z Z Z Z Z Z Z Z.eqb Z.eqb_eq zcd z_cdT z_cdG z_cond_x z_cond_mu 0%Z 1%Z z_solve z_naive z_nan
    z_sample z_best z_global z_dval z_tval z_gval z_xval z_aval z_same z_cval
    z_start_independent z_keeps_phases z_global_is_local m0 h h' q.

(* the two-phase premise of the approximate method is met by the stand-in at every point with a
   precipitate phase other than the matrix *)
Example z_two_phase x T p : p <> 0%nat -> two_phase Z Z Z Z Z 1%Z z_nan z_global x T p.
Proof.
  intros Hp. split; [exact Hp|]. unfold z_global, z_solve. cbn [map cs_ph cs_T cs_g].
  destruct p as [|p']; [contradiction|].
  unfold pick, gap, count_ph. cbn [filter cs_ph Nat.eqb]. rewrite Nat.eqb_refl. cbn.
  repeat split; try reflexivity; eexists; reflexivity.
Qed.

(* removeCache = True leaves the object as clearCache does *)
Example z_remove_cache_leaves_nothing :
  snd (fst (z_run (obj_init Tangent) [QDF 4 673 1%nat true; QInter 4 673 0%nat true; QTracer 4 673 0%nat true]%Z)) = t_init.
Proof. vm_compute. reflexivity. Qed.
