(* C02 - correspondence driver for one recorded step of an Euler run. *)
From Coq Require Import QArith List ZArith Bool.
Require Import Kawin.Common.Ops Kawin.Common.Vec Kawin.Common.Out Kawin.C07.Model Kawin.C07.Corr Kawin.C02.Model.
Import ListNotations.
Open Scope Q_scope.

(* implementation: xn = state returned by the iterator, stored = PBM.PSD after the step (when the grid
   did not change).  Result: (flux-step verdict, limiter tie, stored-PSD verdict, truncation tie) *)
Definition check02 (rt dt : Q) (b p g : list Q) (nr rn : Q) (rdfi : nat) (minR : Q) (sz : list Q)
                   (xn : list Q) (cmp_stored : bool) (stored : list Q) :=
  (* getdXdt zeroes the state it is handed in place (KWNBase._calculateDependentTerms -> _processX) *)
  let p := processX Qops rdfi minR sz p in
  let nf := netFlux Qops b p g in
  let ltie := lim_tie (rt * 64) dt nf p in
  let x' := eulerStep Qops dt b p g nr rn in
  let nf2 := correctFlux Qops dt nf p in
  let scale := zipWith (fun x s => Qred (qabs x + dt * s)) p (pairsum nr nf2) in
  let st := truncate Qops (processX Qops rdfi minR sz x') in
  let ttie := existsb (fun v => near_tie (rt * 64) v 1) (processX Qops rdfi minR sz x') in
  (if ltie then None else cmpl rt xn x' scale,
   ltie,
   if (ltie || ttie || negb cmp_stored)%bool then None else cmpl rt stored st (map (fun s => Qred (s + 1)) scale),
   ttie).
