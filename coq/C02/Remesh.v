(* C02 - the re-mesh clause, at model level (open finding C02-density-rise-at-remesh).
   The C08 model of PopulationBalanceModel.changeSizeClasses re-bins conservatively and then rescales
   to keep the third moment; a single scale factor cannot keep the zeroth moment as well.  The
   witness below is evaluated on exact rationals: coarsening 4 classes to 2 keeps the third moment
   exactly (C08_remesh_third_moment) and RAISES the number of particles, with no nucleation. *)
From Coq Require Import QArith List ZArith.
Require Import Kawin.Common.Ops Kawin.Common.Vec Kawin.C07.Model Kawin.C08.Model Kawin.C02.Model.
Import ListNotations.
Open Scope Q_scope.

Definition s0 : state Qops :=
  loadFn Qops (init Qops (mkCfg Qops 1 10 4 2 8)) [100; 0; 0; 50].
Definition s1 : state Qops := change Qops s0 1 10 (Some 2%nat) false.

Example remesh_keeps_third_moment :
  Qeq_bool (thirdMoment Qops (size Qops s0) (psd Qops s0)) (thirdMoment Qops (size Qops s1) (psd Qops s1)) = true.
Proof. vm_compute. reflexivity. Qed.

Example remesh_density_refuted :
  Qlt (M0 Qops (psd Qops s0)) (M0 Qops (psd Qops s1)) /\ M0 Qops (psd Qops s0) == 150.
Proof. vm_compute. split; reflexivity. Qed.
