(* C02 - witnesses on exact rationals. *)
From Coq Require Import QArith List ZArith.
Require Import Kawin.Common.Ops Kawin.Common.Vec Kawin.C07.Model Kawin.C01.Model Kawin.C02.Model.
Import ListNotations.
Open Scope Q_scope.

(* a regular step: growth moves particles upward, total unchanged when nothing crosses the ends *)
Example step_example :
  eulerStep Qops (1#2) [1;2;3;4] [8;0;4] [0;1;1;0] 0 0 = [4; 4; 4].
Proof. vm_compute. reflexivity. Qed.

(* A class outside the step limit that would lose through both faces: the class-wise limit of the
   corrector keeps it at zero (before kawin commit "fix: limit the total outflow of a size class" this
   step gave [4; -4; 4]: the record counted the negative class, the truncation removed it and the stored
   distribution held more particles than were recorded, with zero nucleation). *)
Example two_face_step :
  let x' := eulerStep Qops 1 [1;2;3;4] [0;4;0] [0;-10;10;0] 0 0 in
  x' = [2; 0; 2] /\ M0 Qops x' = 4 /\ M0 Qops (truncate Qops x') = 4.
Proof. vm_compute. repeat split; reflexivity. Qed.

Example processX_example :
  processX Qops 0 (3#2) [1;2;3] [5;6;7] = [0; 6; 7] /\ processX Qops 1 0 [1;2;3] [5;6;7] = [0; 0; 7].
Proof. vm_compute. split; reflexivity. Qed.
