(* C02 - Reported precipitate statistics are moments of the size distribution.
   ONLY the property theorems (real instance of the models C01/Model.v, C02/Model.v, C07/Model.v). *)
From Coq Require Import Reals List Arith Bool.
Require Import Kawin.Common.Ops Kawin.Common.Vec Kawin.Common.VecLemmas Kawin.C07.Model Kawin.C07.Proofs
               Kawin.C01.Model Kawin.C01.Proofs Kawin.C02.Model Kawin.C02.Proofs.
Open Scope R_scope.

(* number density, mean radius and volume fraction are the zeroth moment, first/zeroth ratio and the
   scaled third moment (clamped at 1) of the distribution the record was taken from *)
Theorem C02_stats_are_moments minDens (p : phase_in Rops) :
  minDens <= Proofs.M0 p -> prevFull Rops p = false ->
  let o := phaseBalance Rops minDens p in
  dens Rops o = Proofs.M0 p /\ ravg Rops o = Proofs.M1 p / Proofs.M0 p /\
  fv Rops o = Rmin (precVol p) 1.
Proof. exact (stats_are_moments minDens p). Qed.
Print Assumptions C02_stats_are_moments.

(* the documented removal of classes holding less than one particle changes the zeroth moment by
   less than one particle per class that held a positive fraction - for non-negative distributions *)
Theorem C02_truncation_nonneg x : nonneg x ->
  sumR x - INR (countSmall x) <= sumR (truncate Rops x) <= sumR x.
Proof. exact (truncation_nonneg x). Qed.
Print Assumptions C02_truncation_nonneg.

(* in general the stored distribution can exceed the recorded density by the population of
   negative classes, and by nothing else *)
Theorem C02_truncation_bounds x :
  sumR x - INR (countSmall x) <= sumR (truncate Rops x) <= sumR x + negMass x.
Proof. exact (truncation_bounds x). Qed.
Print Assumptions C02_truncation_bounds.

Theorem C02_stored_classes_empty_or_populated x k :
  nthR (truncate Rops x) k = 0 \/ 1 <= nthR (truncate Rops x) k.
Proof. exact (truncate_values x k). Qed.
Print Assumptions C02_stored_classes_empty_or_populated.

(* one step: the density changes by nucleation and by what leaves through the two ends *)
Theorem C02_step_balance dt bounds psd g nucRate Rnuc : wf bounds psd g ->
  sumR (eulerStep Rops dt bounds psd g nucRate Rnuc) =
    sumR psd + dt * (nucRate + nthR (correctFlux Rops dt (netFlux Rops bounds psd g) psd) 0
                             - nthR (correctFlux Rops dt (netFlux Rops bounds psd g) psd) (length psd)).
Proof. exact (eulerStep_sum dt bounds psd g nucRate Rnuc). Qed.
Print Assumptions C02_step_balance.

(* at most the nucleation rate times the step *)
Theorem C02_density_step_bound dt bounds psd g nucRate Rnuc :
  wf bounds psd g -> incr bounds -> nonneg psd -> 0 < dt ->
  sumR (eulerStep Rops dt bounds psd g nucRate Rnuc) <= sumR psd + dt * nucRate.
Proof. exact (density_step_bound dt bounds psd g nucRate Rnuc). Qed.
Print Assumptions C02_density_step_bound.

(* a step leaves no class negative (class-wise limit of the corrector, C07_class_nonneg) *)
Theorem C02_step_nonneg dt bounds psd g nucRate Rnuc :
  wf bounds psd g -> nonneg psd -> 0 < dt -> 0 <= nucRate ->
  nonneg (eulerStep Rops dt bounds psd g nucRate Rnuc).
Proof. exact (eulerStep_nonneg dt bounds psd g nucRate Rnuc). Qed.
Print Assumptions C02_step_nonneg.

(* the recorded density of the next step: at most the nucleation rate times the step above the
   zeroth moment of the stored distribution *)
Theorem C02_recorded_density_bound dt bounds psd g nucRate Rnuc rdfi minR sz :
  wf bounds psd g -> incr bounds -> nonneg psd -> 0 < dt -> 0 <= nucRate ->
  sumR (processX Rops rdfi minR sz (eulerStep Rops dt bounds psd g nucRate Rnuc)) <= sumR psd + dt * nucRate.
Proof. exact (recorded_density_bound_all dt bounds psd g nucRate Rnuc rdfi minR sz). Qed.
Print Assumptions C02_recorded_density_bound.

(* so with zero nucleation rate it never increases *)
Theorem C02_zero_nucleation_never_increases dt bounds psd g Rnuc rdfi minR sz :
  wf bounds psd g -> incr bounds -> nonneg psd -> 0 < dt ->
  sumR (processX Rops rdfi minR sz (eulerStep Rops dt bounds psd g 0 Rnuc)) <= sumR psd.
Proof.
  intros Hwf Hi Hp Hdt.
  pose proof (recorded_density_bound_all dt bounds psd g 0 Rnuc rdfi minR sz Hwf Hi Hp Hdt (Rle_refl 0)) as H.
  rewrite Rmult_0_r, Rplus_0_r in H. exact H.
Qed.
Print Assumptions C02_zero_nucleation_never_increases.

(* the step as the model runs it (the state handed to getdXdt is zeroed in place below the thresholds before the
   flux step, and again before the statistics): the density bound and non-negativity hold for the whole of it, from
   any non-negative stored distribution - in particular one whose lowest classes are populated after a re-mesh *)
Theorem C02_full_step_density_bound dt bounds psd g nucRate Rnuc rdfi minR sz :
  wf bounds psd g -> incr bounds -> nonneg psd -> length sz = length psd -> 0 < dt -> 0 <= nucRate ->
  sumR (fullStep dt bounds psd g nucRate Rnuc rdfi minR sz) <= sumR psd + dt * nucRate /\
  nonneg (fullStep dt bounds psd g nucRate Rnuc rdfi minR sz).
Proof. exact (fullStep_density_bound dt bounds psd g nucRate Rnuc rdfi minR sz). Qed.
Print Assumptions C02_full_step_density_bound.
