(* C02 - lemmas (real instance). *)
From Coq Require Import Reals List Bool ZArith Arith Lia Lra Psatz.
Require Import Kawin.Common.Ops Kawin.Common.Vec Kawin.Common.VecLemmas Kawin.C07.Model Kawin.C07.Proofs
               Kawin.C01.Model Kawin.C01.Proofs Kawin.C02.Model.
Import ListNotations.
Open Scope R_scope.

Tactic Notation "lia" := (cbn [T Rops] in *; Lia.lia).
Tactic Notation "lra" := (cbn [T Rops] in *; Lra.lra).
Tactic Notation "nra" := (cbn [T Rops] in *; Lra.nra).

(* ---- reported statistics are moments of the distribution the balance was taken over ------- *)
Lemma stats_are_moments minDens (p : phase_in Rops) :
  minDens <= Proofs.M0 p -> prevFull Rops p = false ->
  let o := phaseBalance Rops minDens p in
  dens Rops o = Proofs.M0 p /\ ravg Rops o = Proofs.M1 p / Proofs.M0 p /\
  fv Rops o = Rmin (precVol p) 1.
Proof.
  intros Hd Hf o. subst o. unfold phaseBalance. fold (Proofs.M0 p). Rnorm.
  destruct (Rltb (Proofs.M0 p) minDens) eqn:E; Rbool; [lra|].
  rewrite Hf. cbn [dens ravg fv]. repeat split.
  unfold minT. Rnorm. fold (M3 p) (kfac p) (precVol p).
  destruct (Rltb 1 (precVol p)) eqn:E1; Rbool; unfold Rmin; destruct (Rle_dec (precVol p) 1); lra.
Qed.

(* ---- truncation --------------------------------------------------------------------------- *)
(* number of classes holding a positive fraction of a particle *)
Fixpoint countSmall (x : list R) : nat :=
  match x with [] => 0 | v :: r => (if Rltb 0 v && Rltb v 1 then 1 else 0) + countSmall r end%nat.
(* total population sitting in negative classes *)
Fixpoint negMass (x : list R) : R :=
  match x with [] => 0 | v :: r => (if Rltb v 0 then - v else 0) + negMass r end.

Lemma negMass_nonneg x : 0 <= negMass x.
Proof. induction x as [|v r IH]; simpl; [lra|]. destruct (Rltb v 0) eqn:E; Rbool; lra. Qed.

Lemma truncation_bounds x :
  sumR x - INR (countSmall x) <= sumR (truncate Rops x) <= sumR x + negMass x.
Proof.
  induction x as [|v r IH]; simpl.
  - Rnorm. lra.
  - Rnorm. rewrite plus_INR.
    destruct (Rltb v 1) eqn:E1; destruct (Rltb 0 v) eqn:E0; destruct (Rltb v 0) eqn:En; Rbool;
      simpl; try lra.
Qed.

Lemma truncation_nonneg x : nonneg x ->
  sumR x - INR (countSmall x) <= sumR (truncate Rops x) <= sumR x.
Proof.
  intros Hx. pose proof (truncation_bounds x) as [A B]. split; [exact A|].
  assert (E : negMass x = 0).
  { clear A B. induction x as [|v r IH]; simpl; [reflexivity|].
    pose proof (Hx 0%nat) as H0. simpl in H0.
    destruct (Rltb v 0) eqn:En; Rbool; [lra|]. rewrite IH; [lra|]. intros k. exact (Hx (S k)). }
  lra.
Qed.

Lemma countSmall_le x : (countSmall x <= length x)%nat.
Proof. induction x as [|v r IH]; simpl; [lia|]. destruct (Rltb 0 v && Rltb v 1); lia. Qed.

Lemma truncate_values x k : nthR (truncate Rops x) k = 0 \/ 1 <= nthR (truncate Rops x) k.
Proof.
  revert k; induction x as [|v r IH]; intros [|k]; simpl; auto.
  Rnorm. destruct (Rltb v 1) eqn:E; Rbool; [left; reflexivity | right; lra].
Qed.

Lemma nonneg_sum x : nonneg x -> 0 <= sumR x.
Proof.
  induction x as [|v r IH]; intros Hx; simpl; Rnorm; [lra|].
  pose proof (Hx 0%nat) as H0. simpl in H0.
  assert (Hr : nonneg r) by (intros j; exact (Hx (S j))). specialize (IH Hr). lra.
Qed.

(* ---- zeroing ------------------------------------------------------------------------------- *)
Lemma zeroPrefix_le k x : nonneg x -> sumR (zeroPrefix Rops k x) <= sumR x /\ nonneg (zeroPrefix Rops k x).
Proof.
  revert x; induction k as [|k IH]; intros x Hx; [simpl; split; [lra|exact Hx]|].
  destruct x as [|v r]; [simpl; split; [lra|exact Hx]|].
  simpl. Rnorm. assert (Hr : nonneg r) by (intros j; exact (Hx (S j))).
  destruct (IH r Hr) as [A B]. pose proof (Hx 0%nat) as H0. simpl in H0. split; [lra|].
  intros [|j]; simpl; [lra|apply B].
Qed.

Lemma mask_le x sz minR : nonneg x ->
  sumR (zipWith (fun v r => if ltb Rops r minR then zero Rops else v) x sz) <= sumR x.
Proof.
  revert sz; induction x as [|v r IH]; intros sz Hx; simpl; [lra|].
  destruct sz as [|s sz]; simpl.
  - Rnorm. pose proof (nonneg_sum (v :: r) Hx) as H. simpl in H. Rnorm. lra.
  - Rnorm. assert (Hr : nonneg r) by (intros j; exact (Hx (S j))).
    specialize (IH sz Hr). pose proof (Hx 0%nat) as H0. simpl in H0.
    destruct (Rltb s minR); lra.
Qed.

Lemma processX_le rdfi minR sz x : nonneg x -> sumR (processX Rops rdfi minR sz x) <= sumR x.
Proof.
  intros Hx. unfold processX. destruct (zeroPrefix_le (S rdfi) x Hx) as [A B].
  pose proof (mask_le (zeroPrefix Rops (S rdfi) x) sz minR B). lra.
Qed.

(* ---- one flux step ------------------------------------------------------------------------- *)
Lemma sum_axpy (dt : R) (x d : list R) : length x = length d ->
  sumR (zipWith (fun a b => add Rops a (mul Rops b dt)) x d) = sumR x + dt * sumR d.
Proof.
  revert d; induction x as [|a x IH]; intros [|b d] H; simpl in *; try discriminate; Rnorm; [lra|].
  rewrite IH by lia. lra.
Qed.

Lemma correctdXdt_length dt bounds psd g nucRate Rnuc : wf bounds psd g ->
  length (correctdXdt Rops dt bounds psd g nucRate Rnuc) = length psd.
Proof.
  intros Hwf. unfold correctdXdt. rewrite dXdt_of_length.
  rewrite correctFlux_length by (apply netFlux_length; exact Hwf). lia.
Qed.

Lemma eulerStep_sum dt bounds psd g nucRate Rnuc : wf bounds psd g ->
  sumR (eulerStep Rops dt bounds psd g nucRate Rnuc) =
    sumR psd + dt * (nucRate + nthR (correctFlux Rops dt (netFlux Rops bounds psd g) psd) 0
                             - nthR (correctFlux Rops dt (netFlux Rops bounds psd g) psd) (length psd)).
Proof.
  intros Hwf. unfold eulerStep. rewrite sum_axpy by (rewrite correctdXdt_length; auto).
  rewrite sum_correctdXdt by exact Hwf. reflexivity.
Qed.

(* between two steps the number density changes only by nucleation and by what leaves through the
   two ends of the grid; nothing ever enters through the ends *)
Lemma density_step_bound dt bounds psd g nucRate Rnuc :
  wf bounds psd g -> incr bounds -> nonneg psd -> 0 < dt ->
  sumR (eulerStep Rops dt bounds psd g nucRate Rnuc) <= sumR psd + dt * nucRate.
Proof.
  intros Hwf Hi Hp Hdt. rewrite eulerStep_sum by exact Hwf.
  pose proof (netFlux_length bounds psd g Hwf) as HL.
  destruct (boundary_signs bounds psd g Hwf Hi Hp) as [B0 Bn].
  destruct Hwf as (Hn & Hb & Hg).
  destruct (limiter_shrinks dt _ psd 0%nat HL ltac:(lia) Hdt Hp) as [_ S0].
  destruct (limiter_shrinks dt _ psd (length psd) HL ltac:(lia) Hdt Hp) as [Sn _].
  specialize (S0 B0). specialize (Sn Bn). nra.
Qed.

(* recorded density of the next step (distribution after the flux step and the documented zeroing),
   provided no class went negative in the step *)
Lemma recorded_density_bound dt bounds psd g nucRate Rnuc rdfi minR sz :
  wf bounds psd g -> incr bounds -> nonneg psd -> 0 < dt ->
  nonneg (eulerStep Rops dt bounds psd g nucRate Rnuc) ->
  sumR (processX Rops rdfi minR sz (eulerStep Rops dt bounds psd g nucRate Rnuc)) <= sumR psd + dt * nucRate.
Proof.
  intros Hwf Hi Hp Hdt Hx. pose proof (processX_le rdfi minR sz _ Hx).
  pose proof (density_step_bound dt bounds psd g nucRate Rnuc Hwf Hi Hp Hdt). lra.
Qed.

(* since the corrector limits the total outflow of every class, a step leaves no class negative *)
Lemma eulerStep_nonneg dt bounds psd g nucRate Rnuc :
  wf bounds psd g -> nonneg psd -> 0 < dt -> 0 <= nucRate ->
  nonneg (eulerStep Rops dt bounds psd g nucRate Rnuc).
Proof.
  intros Hwf Hp Hdt Hn k. unfold eulerStep.
  pose proof (correctdXdt_length dt bounds psd g nucRate Rnuc Hwf) as HL.
  destruct (Nat.lt_ge_cases k (length psd)) as [Hk|Hk].
  - rewrite (nth_zipWith _ _ _ _ _ 0 0) by lia. Rnorm.
    pose proof (class_nonneg dt bounds psd g nucRate Rnuc k Hwf Hp Hdt Hn Hk). lra.
  - rewrite nth_overflow; [lra|]. rewrite zipWith_length. lia.
Qed.

Lemma recorded_density_bound_all dt bounds psd g nucRate Rnuc rdfi minR sz :
  wf bounds psd g -> incr bounds -> nonneg psd -> 0 < dt -> 0 <= nucRate ->
  sumR (processX Rops rdfi minR sz (eulerStep Rops dt bounds psd g nucRate Rnuc)) <= sumR psd + dt * nucRate.
Proof.
  intros Hwf Hi Hp Hdt Hn. apply recorded_density_bound; auto. apply eulerStep_nonneg; auto.
Qed.

(* ---- the step as the model runs it: getdXdt first zeroes the state it is handed (KWNBase._calculateDependentTerms
   calls _processX on x in place), then the flux step, then the zeroing again before the statistics ---------------- *)
Lemma mask_nonneg x sz minR : nonneg x ->
  nonneg (zipWith (fun v r => if ltb Rops r minR then zero Rops else v) x sz).
Proof.
  revert sz; induction x as [|v r IH]; intros sz Hx k; simpl; [destruct k; simpl; lra|].
  destruct sz as [|s sz]; simpl; [destruct k; simpl; lra|].
  assert (Hr : nonneg r) by (intros j; exact (Hx (S j))).
  destruct k as [|k]; simpl.
  - pose proof (Hx 0%nat) as H0. simpl in H0. Rnorm. destruct (Rltb s minR); lra.
  - apply IH; exact Hr.
Qed.

Lemma processX_nonneg rdfi minR sz x : nonneg x -> nonneg (processX Rops rdfi minR sz x).
Proof.
  intros Hx. unfold processX. destruct (zeroPrefix_le (S rdfi) x Hx) as [_ B]. apply mask_nonneg; exact B.
Qed.

Lemma zeroPrefix_length k (x : list R) : length (zeroPrefix Rops k x) = length x.
Proof. revert x; induction k as [|k IH]; intros [|v r]; simpl; auto. Qed.

Lemma processX_length rdfi minR sz (x : list R) : length sz = length x -> length (processX Rops rdfi minR sz x) = length x.
Proof. intros H. unfold processX. rewrite zipWith_length, zeroPrefix_length. lia. Qed.

Definition fullStep (dt : R) (bounds psd g : list R) (nucRate Rnuc : R) (rdfi : nat) (minR : R) (sz : list R) : list R :=
  processX Rops rdfi minR sz (eulerStep Rops dt bounds (processX Rops rdfi minR sz psd) g nucRate Rnuc).

Lemma fullStep_density_bound dt bounds psd g nucRate Rnuc rdfi minR sz :
  wf bounds psd g -> incr bounds -> nonneg psd -> length sz = length psd -> 0 < dt -> 0 <= nucRate ->
  sumR (fullStep dt bounds psd g nucRate Rnuc rdfi minR sz) <= sumR psd + dt * nucRate /\
  nonneg (fullStep dt bounds psd g nucRate Rnuc rdfi minR sz).
Proof.
  intros Hwf Hi Hp Hl Hdt Hn. unfold fullStep.
  pose proof (processX_nonneg rdfi minR sz psd Hp) as Hp'.
  pose proof (processX_length rdfi minR sz psd Hl) as Hl'.
  assert (Hwf' : wf bounds (processX Rops rdfi minR sz psd) g).
  { unfold wf in *. cbn [T Rops] in *. Lia.lia. }
  pose proof (recorded_density_bound_all dt bounds _ g nucRate Rnuc rdfi minR sz Hwf' Hi Hp' Hdt Hn) as H1.
  pose proof (processX_le rdfi minR sz psd Hp) as H2.
  split; [lra|]. apply processX_nonneg. apply eulerStep_nonneg; auto.
Qed.
