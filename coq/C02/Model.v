(* C02 - what happens to a size distribution between two recorded steps (Euler iterator):
     flux step        x' = x + dt * correctdXdtEuler(...)           (Solver._updateX, C07 kernels)
     zeroing          KWNEuler._processX  (classes up to RdrivingForceIndex, centres below minRadius)
     statistics       KWNEuler._calcMassBalance on the zeroed x'     (C01 model)
     truncation       PopulationBalanceModel.UpdatePBMEuler: PSD[PSD < 1] = 0
   Executable definitions only. *)
From Coq Require Import List Bool ZArith Arith.
Require Import Kawin.Common.Ops Kawin.Common.Vec Kawin.C07.Model Kawin.C01.Model.
Import ListNotations.

Section C02.
Variable O : Ops.
Notation t := (T O).

(* x + dXdt * dt *)
Definition eulerStep (dt : t) (bounds psd g : list t) (nucRate Rnuc : t) : list t :=
  zipWith (fun x d => add O x (mul O d dt)) psd (correctdXdt O dt bounds psd g nucRate Rnuc).

(* x[:rdfi+1] = 0 ; x[size < minRadius] = 0 *)
Fixpoint zeroPrefix (k : nat) (x : list t) : list t :=
  match k, x with
  | S k', _ :: r => zero O :: zeroPrefix k' r
  | _, _ => x
  end.
Definition processX (rdfi : nat) (minRadius : t) (size x : list t) : list t :=
  zipWith (fun v r => if ltb O r minRadius then zero O else v) (zeroPrefix (S rdfi) x) size.

(* PSD[PSD < 1] = 0 *)
Definition truncate (x : list t) : list t := map (fun v => if ltb O v (one O) then zero O else v) x.

Definition M0 (x : list t) : t := sumT O x.

End C02.
