#!/bin/sh
# regenerate _CoqProject and Makefile (run from /verif/coq): Common/ plus the directories of the
# properties listed in ../manifest.d/enabled.txt (integrated checks); paths containing /run/ are
# compiled by the checks themselves (they depend on generated files)
cd "$(dirname "$0")"
dirs="Common"
for p in $(cat ../manifest.d/enabled.txt); do [ -d "$p" ] && dirs="$dirs $p"; done
{ echo "-R . Kawin"; find $dirs -name '*.v' -not -path '*/run/*' 2>/dev/null | sort; } > _CoqProject
coq_makefile -f _CoqProject -o Makefile > /dev/null 2>&1
