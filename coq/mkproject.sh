#!/bin/sh
# regenerate _CoqProject and Makefile from the files present (run from /verif/coq)
cd "$(dirname "$0")"
{ echo "-R . Kawin"; find Common C[0-9][0-9] -name '*.v' -not -path '*/run/*' 2>/dev/null | sort; } > _CoqProject
coq_makefile -f _CoqProject -o Makefile > /dev/null 2>&1
